/-
C07, round 4 — helper lemmas about the checker instance as a state machine (`DtdState`).
The state only memoises: under the invariant `Inv` every step's verdict is `Dtd.check` of the values.
-/
import CLModel.Checks.DtdState
import CLModel.Proofs.C07Model
namespace C07S
open Dtd DtdState

/-- the union of the names referenced by the reference values: what `__known_entities` holds once filled -/
def knownOf (vals : List Text) : List Text := vals.foldl (fun acc v => sunion acc (entitiesForValue v)) []

/-- invariant of a checker object used as the real callers use it (`__init__`, at most one `set_reference` BEFORE
    the first `check`, then `check`s): `processContent` mirrors the extra test, and a filled memo is the memo of the
    CURRENT reference -/
structure Inv (st : State) : Prop where
  pc : st.processContent = st.extraAndroid
  memo : ∀ k, st.known = some k → ∃ vals, st.reference = some vals ∧ k = knownOf vals

theorem inv_init (android : Bool) (t0 : Text) : Inv (init android t0) := by
  constructor
  · cases android <;> rfl
  · intro k h; simp [init] at h

theorem inv_setReference (st : State) (vals : List Text) (h : Inv st) (hk : st.known = none) :
    Inv (setReference st vals) := by
  constructor
  · exact h.pc
  · intro k hk'; simp [setReference, hk] at hk'

/-- `known_entities` under the invariant: the value is the stateless `knownEntities`, the new state differs at most
    in the memo, which is then the memo of the current reference -/
theorem knownEntitiesS_spec (st : State) (ref l10n : Ent) (h : Inv st) :
    (knownEntitiesS st ref.val).2 = knownEntities (inpOf st ref l10n) ∧
    Inv (knownEntitiesS st ref.val).1 ∧
    (knownEntitiesS st ref.val).1.extraAndroid = st.extraAndroid ∧
    (knownEntitiesS st ref.val).1.processContent = st.processContent ∧
    (knownEntitiesS st ref.val).1.reference = st.reference ∧
    (knownEntitiesS st ref.val).1.textcontent = st.textcontent ∧
    (knownEntitiesS st ref.val).1.cssCompiled = st.cssCompiled := by
  unfold knownEntitiesS knownEntities inpOf
  cases hk : st.known with
  | none =>
    cases hr : st.reference with
    | none => simp [hk, hr]; exact h
    | some vals =>
      simp only [hk, hr, true_and, and_true]
      refine ⟨h.pc, ?_⟩
      intro k hk'
      simp only [Option.some.injEq] at hk'
      exact ⟨vals, rfl, hk'.symm⟩
  | some k =>
    obtain ⟨vals, hr, rfl⟩ := h.memo k hk
    simp only [hk, hr, true_and, and_true]
    exact ⟨rfl, h⟩

theorem refSectionR_eq (xmlParse : Bytes → ParseRes) (i : Inp) :
    refSectionR xmlParse (refDecls i) i.ref = refSection xmlParse i := rfl

theorem l10nSectionR_eq (xmlParse : Bytes → ParseRes) (i : Inp) :
    l10nSectionR xmlParse (l10nDecls i) i.l10n = l10nSection xmlParse i := rfl

theorem unknownSectionR_eq (i : Inp) :
    unknownSectionR (reflistOf i) (inContextOf i) (missingOf i) = unknownSection i := rfl

theorem mismatchSectionR_eq (i : Inp) :
    mismatchSectionR (inContextOf i) (l10nlistOf i) (missingOf i) = mismatchSection i := rfl

theorem maybeStyleS_snd (st : State) (a b : Text) : (maybeStyleS st a b).2 = maybeStyle a b := by
  unfold maybeStyleS maybeStyle parseCssSpecS
  simp only []
  cases (parseCssSpec a).1 with
  | none => rfl
  | some m => cases m <;> rfl

theorem maybeStyleS_frame (st : State) (a b : Text) :
    (maybeStyleS st a b).1 = { st with cssCompiled := true } := by
  unfold maybeStyleS parseCssSpecS
  simp only []
  cases (parseCssSpec a).1 with
  | none => cases st; rename_i _ _ _ _ _ c; cases c <;> rfl
  | some m =>
    cases m with
    | nil => cases st; rename_i _ _ _ _ _ c; cases c <;> rfl
    | cons x xs => cases st; rename_i _ _ _ _ _ c; cases c <;> rfl

theorem andThen_exc_some (a : Out) (f : Unit → Out) (e : Exc) (h : a.exc = some e) : a.andThen f = a := by
  unfold Out.andThen; rw [h]

/-- **the verdict of a step is the stateless verdict** -/
theorem step_snd (xmlParse : Bytes → ParseRes) (st : State) (ref l10n : Ent) (h : Inv st) :
    (step xmlParse st ref l10n).2 = check xmlParse (inpOf st ref l10n) := by
  obtain ⟨hk, _, hea, hpc, _, _, _⟩ := knownEntitiesS_spec st ref l10n h
  have hpc1 : (knownEntitiesS st ref.val).1.processContent = st.extraAndroid := by rw [hpc, h.pc]
  clear hpc
  unfold step
  simp only []
  generalize knownEntitiesS st ref.val = ks at *
  obtain ⟨⟨ea, pc, rf, kn, tc, cc⟩, rl⟩ := ks
  simp only at hk hea hpc1
  subst hk hea hpc1
  have e1 : refSectionR xmlParse (entityDecls (knownEntities (inpOf st ref l10n))) ref
      = refSection xmlParse (inpOf st ref l10n) := refSectionR_eq xmlParse (inpOf st ref l10n)
  have e2 : l10nSectionR xmlParse (entityDecls (knownEntities (inpOf st ref l10n)) ++
        entityDecls (sdiff (entitiesForValue l10n.val) (knownEntities (inpOf st ref l10n)))) l10n
      = l10nSection xmlParse (inpOf st ref l10n) := l10nSectionR_eq xmlParse (inpOf st ref l10n)
  have e3 : unknownSectionR (knownEntities (inpOf st ref l10n)) (entitiesForValue ref.val)
        (sdiff (entitiesForValue l10n.val) (knownEntities (inpOf st ref l10n)))
      = unknownSection (inpOf st ref l10n) := unknownSectionR_eq (inpOf st ref l10n)
  have e4 : mismatchSectionR (entitiesForValue ref.val) (entitiesForValue l10n.val)
        (sdiff (entitiesForValue l10n.val) (knownEntities (inpOf st ref l10n)))
      = mismatchSection (inpOf st ref l10n) := mismatchSectionR_eq (inpOf st ref l10n)
  rw [e1, e2, e3, e4]
  unfold check
  have ha : (inpOf st ref l10n).android = st.extraAndroid := rfl
  have hr : (inpOf st ref l10n).ref = ref := rfl
  have hl : (inpOf st ref l10n).l10n = l10n := rfl
  split
  · rename_i e hx
    simp only []
    rw [andThen_exc_some (refSection xmlParse _) _ e hx]
    rfl
  · split
    · rename_i e hy
      simp only []
      rw [andThen_exc_some (l10nSection xmlParse _).1 _ e hy]
      rfl
    · simp only [maybeStyleS_snd, maybeStyleS_frame]
      rw [ha, hr, hl]
      cases hand : st.extraAndroid <;> simp

/-- a step changes, besides the memo filled by `known_entities`, only the text handler's buffer and the
    "regexes are compiled" flag -/
theorem step_fst (xmlParse : Bytes → ParseRes) (st : State) (ref l10n : Ent) :
    ∃ tc cc, (step xmlParse st ref l10n).1 = { (knownEntitiesS st ref.val).1 with textcontent := tc, cssCompiled := cc } := by
  unfold step
  simp only []
  generalize knownEntitiesS st ref.val = ks
  obtain ⟨⟨ea, pc, rf, kn, tc, cc⟩, rl⟩ := ks
  split
  · exact ⟨_, _, rfl⟩
  · split
    · cases pc <;> exact ⟨_, _, rfl⟩
    · simp only [maybeStyleS_frame]
      cases pc <;> exact ⟨_, _, rfl⟩

theorem inv_step (xmlParse : Bytes → ParseRes) (st : State) (ref l10n : Ent) (h : Inv st) :
    Inv (step xmlParse st ref l10n).1 := by
  obtain ⟨_, hinv, _⟩ := knownEntitiesS_spec st ref l10n h
  obtain ⟨tc, cc, he⟩ := step_fst xmlParse st ref l10n
  rw [he]
  exact ⟨hinv.pc, hinv.memo⟩

/-- `extra_tests` and `reference` are never touched by `check` -/
theorem step_frame (xmlParse : Bytes → ParseRes) (st : State) (ref l10n : Ent) (h : Inv st) :
    (step xmlParse st ref l10n).1.extraAndroid = st.extraAndroid ∧
    (step xmlParse st ref l10n).1.reference = st.reference := by
  obtain ⟨_, _, hea, _, hrf, _, _⟩ := knownEntitiesS_spec st ref l10n h
  obtain ⟨tc, cc, he⟩ := step_fst xmlParse st ref l10n
  rw [he]
  exact ⟨hea, hrf⟩

theorem inpOf_step (xmlParse : Bytes → ParseRes) (st : State) (ref l10n r' l' : Ent) (h : Inv st) :
    inpOf (step xmlParse st ref l10n).1 r' l' = inpOf st r' l' := by
  obtain ⟨h1, h2⟩ := step_frame xmlParse st ref l10n h
  unfold inpOf
  rw [h1, h2]

/-- with a reference set, the memo IS filled by the first step (the state machine is not the stateless function
    in disguise): afterwards `known_entities` answers from the state -/
theorem step_fills_memo (xmlParse : Bytes → ParseRes) (st : State) (ref l10n : Ent) (vals : List Text)
    (hr : st.reference = some vals) (hk : st.known = none) :
    (step xmlParse st ref l10n).1.known = some (knownOf vals) := by
  obtain ⟨tc, cc, he⟩ := step_fst xmlParse st ref l10n
  rw [he]
  simp [knownEntitiesS, hr, hk, knownOf]

/-- **every verdict of a sequence is the stateless verdict of its pair** -/
theorem runSeq_snd (xmlParse : Bytes → ParseRes) : ∀ (pairs : List (Ent × Ent)) (st : State), Inv st →
    (runSeq xmlParse st pairs).map (·.2) = pairs.map (fun p => check xmlParse (inpOf st p.1 p.2))
  | [], _, _ => rfl
  | (r, l) :: rest, st, h => by
    simp only [runSeq, List.map_cons]
    rw [step_snd xmlParse st r l h, runSeq_snd xmlParse rest _ (inv_step xmlParse st r l h)]
    congr 1
    apply List.map_congr_left
    intro p _
    rw [inpOf_step xmlParse st r l p.1 p.2 h]

theorem runSeq_length (xmlParse : Bytes → ParseRes) : ∀ (pairs : List (Ent × Ent)) (st : State),
    (runSeq xmlParse st pairs).length = pairs.length
  | [], _ => rfl
  | (_, _) :: rest, st => by simp [runSeq, runSeq_length xmlParse rest]

end C07S

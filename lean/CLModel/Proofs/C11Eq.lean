/- Matcher equality (`__eq__`): structural equality of patterns, environments that bind the same names behave alike. -/
import CLModel.Paths.MatcherX
import CLModel.Proofs.C11RExt
import CLModel.Proofs.C11Witness
namespace C11E
open Rx PM

/-! ### `==` on nodes and patterns is structural equality -/

theorem node_eq_iff (a b : Node) : Node.eq a b = true ↔ a = b := by
  cases a <;> cases b <;> simp [Node.eq]

theorem nodesEq_iff : ∀ (a b : List Node), nodesEq a b = true ↔ a = b
  | [], [] => by simp [nodesEq]
  | [], _ :: _ => by simp [nodesEq]
  | _ :: _, [] => by simp [nodesEq]
  | x :: xs, y :: ys => by simp [nodesEq, node_eq_iff, nodesEq_iff xs ys]

theorem pattern_eq_iff (a b : Pattern) : Pattern.eq a b = true ↔ a = b := by
  cases a with
  | mk n1 r1 p1 =>
  cases b with
  | mk n2 r2 p2 =>
  simp only [Pattern.eq, Pattern.mk.injEq]
  cases hn : nodesEq n1 n2 with
  | false =>
    have : n1 ≠ n2 := fun e => by
      have := (nodesEq_iff _ _).mpr e
      rw [this] at hn; cases hn
    simp [this]
  | true =>
    have := (nodesEq_iff _ _).mp hn
    simp [this]

theorem val_eq_iff (a b : Val) : Val.eq a b = true ↔ a = b := by
  cases a <;> cases b <;> simp [Val.eq, pattern_eq_iff]

/-! ### environments that bind the same names to the same values -/

/-- same lookups, same keys up to order (two dicts with the same items, inserted in any order) -/
def EnvEq (e e' : Env) : Prop := (∀ k, e.lookup k = e'.lookup k) ∧ (e.map (·.1)).Perm (e'.map (·.1))

theorem EnvEq.refl (e : Env) : EnvEq e e := ⟨fun _ => rfl, List.Perm.refl _⟩

theorem EnvEq.length {e e' : Env} (h : EnvEq e e') : e.length = e'.length := by
  simpa using h.2.length_eq

theorem EnvEq.fuel {e e' : Env} (h : EnvEq e e') : fuelFor e = fuelFor e' := by
  simp [fuelFor, h.length]

theorem derase_keys (e : Env) (k : Text) : (derase e k).map (·.1) = (e.map (·.1)).filter (fun x => !(x == k)) := by
  induction e with
  | nil => rfl
  | cons p t ih =>
    simp only [derase, List.filter_cons, List.map_cons] at ih ⊢
    split <;> simp_all

theorem EnvEq.derase {e e' : Env} (h : EnvEq e e') (k : Text) : EnvEq (derase e k) (derase e' k) := by
  refine ⟨fun k' => ?_, ?_⟩
  · cases hk : (k' == k) with
    | true =>
      have : k' = k := by simpa using hk
      subst this
      rw [lookup_derase_self, lookup_derase_self]
    | false => rw [C11R.lookup_derase_ne k k' hk, C11R.lookup_derase_ne k k' hk]; exact h.1 k'
  · rw [derase_keys, derase_keys]
    exact h.2.filter _

/-- `rec` gives the same result in environments that bind the same -/
def CongE (rec : ExpRec) : Prop := ∀ v e e' rm, EnvEq e e' → rec v e rm = rec v e' rm

theorem getAndroidLocale_congr {rec : ExpRec} (hr : CongE rec) {e e' : Env} (h : EnvEq e e') :
    getAndroidLocale rec e = getAndroidLocale rec e' := by
  unfold getAndroidLocale
  rw [h.1 localeName]
  split
  · rfl
  · rw [hr _ _ _ _ (h.derase androidName)]

theorem expandNode_congr {rec : ExpRec} (hr : CongE rec) {e e' : Env} (h : EnvEq e e') (n : Node) (rm : Bool) :
    expandNode rec n e rm = expandNode rec n e' rm := by
  cases n with
  | lit s => rfl
  | var name rep =>
    simp only [expandNode, h.1 name]
    split
    · rfl
    · exact hr _ _ _ _ (h.derase name)
  | android rep => simp only [expandNode, getAndroidLocale_congr hr h]
  | star n => simp only [expandNode, h.1 (sname n)]
  | starstar n sfx => simp only [expandNode, h.1 (sname n)]

theorem expandChildren_congr {rec : ExpRec} (hr : CongE rec) {e e' : Env} (h : EnvEq e e') (rm : Bool) :
    ∀ ns : List Node, expandChildren rec ns e rm = expandChildren rec ns e' rm
  | [] => rfl
  | c :: cs => by
    simp only [expandChildren, expandNode_congr hr h c true, expandChildren_congr hr h rm cs]

theorem rootOf_congr {rec : ExpRec} (hr : CongE rec) {e e' : Env} (h : EnvEq e e') (p : Pattern) :
    rootOf rec p e = rootOf rec p e' := by
  unfold rootOf
  split
  · rfl
  · split
    · rfl
    · rw [expandNode_congr hr h]

theorem expandPat_congr {rec : ExpRec} (hr : CongE rec) {e e' : Env} (h : EnvEq e e') (p : Pattern) (rm : Bool) :
    expandPat rec p e rm = expandPat rec p e' rm := by
  simp only [expandPat, rootOf_congr hr h, expandChildren_congr hr h]

theorem expandVal_congr : ∀ f, CongE (expandVal f)
  | 0 => by intro v e e' rm _; cases v <;> rfl
  | f + 1 => by
    intro v e e' rm h
    cases v with
    | str s => rfl
    | pat p => exact expandPat_congr (expandVal_congr f) h p rm

theorem expandTop_congr {e e' : Env} (h : EnvEq e e') (p : Pattern) : expandTop p e = expandTop p e' := by
  unfold expandTop
  rw [h.fuel]
  exact expandPat_congr (expandVal_congr _) h p false

def CongR (rec : RxRec) : Prop := ∀ v e e', EnvEq e e' → rec v e = rec v e'

theorem rxNode_congr {rec : RxRec} (hr : CongR rec) {e e' : Env} (h : EnvEq e e') (n : Node) :
    rxNode rec n e = rxNode rec n e' := by
  cases n with
  | lit s => rfl
  | var name rep =>
    simp only [rxNode, h.1 name]
    split
    · rfl
    · split
      · rw [hr _ _ _ (h.derase name)]
      · rfl
  | android rep =>
    simp only [rxNode, h.fuel, getAndroidLocale_congr (expandVal_congr _) h]
  | star n => rfl
  | starstar n sfx => rfl

theorem rxChildren_congr {rec : RxRec} (hr : CongR rec) {e e' : Env} (h : EnvEq e e') :
    ∀ ns : List Node, rxChildren rec ns e = rxChildren rec ns e'
  | [] => rfl
  | c :: cs => by simp only [rxChildren, rxNode_congr hr h c, rxChildren_congr hr h cs]

theorem rxPat_congr {rec : RxRec} (hr : CongR rec) {e e' : Env} (h : EnvEq e e') (p : Pattern) :
    rxPat rec p e = rxPat rec p e' := by
  simp only [rxPat, h.fuel, rootOf_congr (expandVal_congr _) h, rxChildren_congr hr h]

theorem rxVal_congr : ∀ f, CongR (rxVal f)
  | 0 => by intro v e e' _; cases v <;> rfl
  | f + 1 => by
    intro v e e' h
    cases v with
    | str s => rfl
    | pat p => exact rxPat_congr (rxVal_congr f) h p

/-- two matchers with the same pattern whose environments bind the same names to the same values behave alike -/
theorem behave_congr {a b : Matcher} (hp : a.pattern = b.pattern) (h : EnvEq a.env b.env) :
    a.regexOf = b.regexOf ∧ (∀ path, a.match path = b.match path) ∧ a.prefix = b.prefix ∧ a.str = b.str ∧
    (∀ (o : Matcher) path, a.sub o path = b.sub o path) := by
  have hre : a.regexOf = b.regexOf := by
    simp only [Matcher.regexOf, hp, h.fuel, rxPat_congr (rxVal_congr _) h]
  have hm : ∀ path, a.match path = b.match path := fun path => by simp only [Matcher.match, hre]
  refine ⟨hre, hm, ?_, ?_, ?_⟩
  · simp only [Matcher.prefix, Matcher.prefixPattern, hp, expandTop_congr h]
  · simp only [Matcher.str, hp, expandTop_congr h]
  · intro o path; simp only [Matcher.sub, hm]

/-! ### `Matcher.__eq__` -/

theorem lookup_some_of_mem_keys {β} {k : Text} : ∀ {l : List (Text × β)}, k ∈ l.map (·.1) → ∃ v, l.lookup k = some v
  | [], h => by cases h
  | (a, b) :: l, h => by
    simp only [List.lookup_cons]
    cases hk : (k == a) with
    | true => exact ⟨b, rfl⟩
    | false =>
      have : k ≠ a := by intro e; subst e; simp at hk
      simp only [List.map_cons, List.mem_cons, this, false_or] at h
      exact lookup_some_of_mem_keys h

theorem mem_keys_of_lookup {β} {k : Text} {v : β} {l : List (Text × β)} (h : l.lookup k = some v) : k ∈ l.map (·.1) :=
  List.mem_map.mpr ⟨(k, v), lookup_mem h, rfl⟩

/-- `a == b` and the same variable names on both sides: the environments bind the same -/
theorem envEq_of_eq {a b : Matcher} (h : Matcher.eq a b = true) (hk : (a.env.map (·.1)).Perm (b.env.map (·.1))) :
    a.pattern = b.pattern ∧ EnvEq a.env b.env := by
  unfold Matcher.eq at h
  split at h
  · cases h
  · rename_i hne
    have hp : a.pattern = b.pattern := by
      apply (pattern_eq_iff _ _).mp
      simpa [Pattern.ne] using hne
    refine ⟨hp, ?_, hk⟩
    intro k
    by_cases hae : a.env = []
    · have hbe : b.env = [] := by
        have := hk.length_eq
        rw [hae] at this
        simpa using this.symm
      rw [hae, hbe]
    · have hbe : b.env ≠ [] := by
        intro e
        have := hk.length_eq
        rw [e] at this
        simp at this
        exact hae this
      have hai : a.env.isEmpty = false := by cases h1 : a.env <;> simp_all
      have hbi : b.env.isEmpty = false := by cases h1 : b.env <;> simp_all
      simp only [hai, hbi, Bool.not_false, Bool.and_self, if_true] at h
      have hall := List.all_eq_true.mp h
      cases hl : a.env.lookup k with
      | none =>
        cases hl' : b.env.lookup k with
        | none => rfl
        | some v' =>
          obtain ⟨v, hv⟩ := lookup_some_of_mem_keys (hk.symm.subset (mem_keys_of_lookup hl'))
          rw [hl] at hv; cases hv
      | some v =>
        have hmem := lookup_mem hl
        have := hall (k, v) hmem
        obtain ⟨v', hv'⟩ := lookup_some_of_mem_keys (hk.subset (mem_keys_of_lookup hl))
        simp only [hv'] at this
        rw [hv', (val_eq_iff _ _).mp this]


theorem lookup_of_mem_keysOnce {β} : ∀ {l : List (Text × β)} {k : Text} {v : β}, KeysOnce l → (k, v) ∈ l → l.lookup k = some v
  | [], _, _, _, h => by cases h
  | (a, b) :: l, k, v, hk, h => by
    simp only [List.lookup_cons]
    cases hka : (k == a) with
    | true =>
      have e : k = a := by simpa using hka
      subst e
      simp only [List.mem_cons, Prod.mk.injEq, true_and] at h
      rcases h with rfl | h
      · rfl
      · exfalso
        have := hk k
        simp only [List.map_cons, List.count_cons, beq_self_eq_true, if_true] at this
        have hc : 0 < (l.map (·.1)).count k := List.count_pos_iff.mpr (List.mem_map.mpr ⟨(k, v), h, rfl⟩)
        omega
    | false =>
      have : k ≠ a := by intro e; subst e; simp at hka
      simp only [List.mem_cons, Prod.mk.injEq, this, false_and, false_or] at h
      exact lookup_of_mem_keysOnce hk.tail h

/-- `a == a` (an environment is a dict: distinct keys) -/
theorem eq_refl (a : Matcher) (hk : KeysOnce a.env) : Matcher.eq a a = true := by
  unfold Matcher.eq
  have hp : Pattern.ne a.pattern a.pattern = false := by
    simp [Pattern.ne, (pattern_eq_iff _ _).mpr rfl]
  simp only [hp, Bool.false_eq_true, if_false]
  split
  · apply List.all_eq_true.mpr
    intro kv hkv
    rw [lookup_of_mem_keysOnce hk (k := kv.1) (v := kv.2) hkv]
    exact (val_eq_iff _ _).mpr rfl
  · rfl

/-- `a == b` iff `b == a` -/
theorem eq_symm {a b : Matcher} (hb : KeysOnce b.env) (h : Matcher.eq a b = true) :
    Matcher.eq b a = true := by
  unfold Matcher.eq at h ⊢
  split at h
  · cases h
  · rename_i hne
    have hp : a.pattern = b.pattern := by
      apply (pattern_eq_iff _ _).mp
      simpa [Pattern.ne] using hne
    have hp' : Pattern.ne b.pattern a.pattern = false := by
      simp [Pattern.ne, (pattern_eq_iff _ _).mpr hp.symm]
    simp only [hp', Bool.false_eq_true, if_false]
    split
    · rename_i hboth
      have hboth' : (!a.env.isEmpty && !b.env.isEmpty) = true := by
        simp only [Bool.and_eq_true] at hboth ⊢; exact ⟨hboth.2, hboth.1⟩
      simp only [hboth', if_true] at h
      have hall := List.all_eq_true.mp h
      apply List.all_eq_true.mpr
      intro kv hkv
      cases hl : a.env.lookup kv.1 with
      | none => rfl
      | some v =>
        have := hall (kv.1, v) (lookup_mem hl)
        rw [lookup_of_mem_keysOnce hb (k := kv.1) (v := kv.2) hkv] at this
        simp only at this
        have e := (val_eq_iff _ _).mp this
        exact (val_eq_iff _ _).mpr e.symm
    · rfl

/-- `a != b` is the negation -/
theorem ne_iff (a b : Matcher) : Matcher.ne a b = !Matcher.eq a b := rfl

def eqOutcome (pa : String) (enva : List (String × String)) (pb : String) (envb : List (String × String)) : Option Bool :=
  match matcherOf pa enva none, matcherOf pb envb none with
  | .ok a, .ok b => some (Matcher.eq a b)
  | _, _ => none

/-- `==` is NOT transitive: additional environment entries are "OK" on either side, so a matcher without the
    variable is equal to two matchers that bind it differently -/
theorem eq_not_transitive_witness :
    eqOutcome "l/{locale}/*.ftl" [("locale", "de")] "l/{locale}/*.ftl" [] = some true ∧
    eqOutcome "l/{locale}/*.ftl" [] "l/{locale}/*.ftl" [("locale", "fr")] = some true ∧
    eqOutcome "l/{locale}/*.ftl" [("locale", "de")] "l/{locale}/*.ftl" [("locale", "fr")] = some false := by
  decide +kernel


/-! ### concat -/

theorem expandChildren_append {rec : ExpRec} {env : Env} {rm : Bool} : ∀ (a b : List Node) (ta : Text),
    expandChildren rec a env true = .ok ta →
    expandChildren rec (a ++ b) env rm = (expandChildren rec b env rm).map (fun tb => ta ++ tb)
  | [], b, ta, h => by
    simp only [expandChildren, pure, Except.pure, Except.ok.injEq] at h
    subst h
    simp only [List.nil_append]
    cases expandChildren rec b env rm <;> rfl
  | c :: cs, b, ta, h => by
    simp only [List.cons_append, expandChildren] at h ⊢
    cases hc : expandNode rec c env true with
    | error e =>
      rw [hc] at h
      cases e <;> simp at h
      all_goals (split at h <;> cases h)
    | ok s =>
      rw [hc] at h
      simp only [bind, Except.bind] at h ⊢
      cases hcs : expandChildren rec cs env true with
      | error e => simp [hcs] at h
      | ok tcs =>
        simp only [hcs, pure, Except.pure, Except.ok.injEq] at h
        subst h
        rw [expandChildren_append cs b tcs hcs]
        cases expandChildren rec b env rm <;> simp [Except.map, pure, Except.pure, List.append_assoc]

theorem dupdate_nil {β} (d : List (Text × β)) : dupdate d [] = d := rfl

/-- what `concat` builds -/
theorem concat_inv {a r : Matcher} {o : ConcatArg} (h : a.concat o = .ok r) :
    ∃ om : Matcher, o.toMatcher = .ok om ∧
      om.pattern.root = none ∧ r.pattern.nodes = a.pattern.nodes ++ om.pattern.nodes ∧ r.pattern.root = a.pattern.root ∧
      r.env = dupdate a.env om.env ∧
      r.pattern.prefixLen = (if a.pattern.prefixLen == a.pattern.nodes.length then a.pattern.prefixLen + om.pattern.prefixLen
        else a.pattern.prefixLen) := by
  unfold Matcher.concat at h
  simp only [bind, Except.bind] at h
  cases hm : o.toMatcher with
  | error e => simp [hm, liftX] at h
  | ok om =>
    simp only [hm, liftX, pure, Except.pure] at h
    split at h
    · cases h
    · rename_i hr
      simp only [Except.ok.injEq] at h
      subst h
      exact ⟨om, rfl, by simpa using hr, rfl, rfl, rfl, rfl⟩

theorem rootOf_append {rec : ExpRec} {env : Env} {p q : Pattern} (hr : q.root = p.root) (hne : p.nodes ≠ [])
    (hn : ∃ tl, q.nodes = p.nodes ++ tl) : rootOf rec q env = rootOf rec p env := by
  obtain ⟨tl, hn⟩ := hn
  unfold rootOf
  rw [hr, hn]
  cases hp : p.nodes with
  | nil => exact absurd hp hne
  | cons n0 t => rfl

/-- **concat behaves as if the resulting paths were joined**: if the pattern of `a` is fully bound in the merged
    environment (its expansion with `raise_missing=True` is `sa`, root included), then `str(a.concat(other))` is `sa`
    followed by the expansion of the other (unrooted) pattern in the merged environment. -/
theorem concat_str {a r : Matcher} {o : ConcatArg} (h : a.concat o = .ok r) (hne : a.pattern.nodes ≠ []) {sa : Text}
    (hfull : expandPat (expandVal (fuelFor r.env)) a.pattern r.env true = .ok sa) :
    ∃ om : Matcher, o.toMatcher = .ok om ∧
      r.str = (expandTop om.pattern r.env).map (fun sb => sa ++ sb) := by
  obtain ⟨om, hom, hroot, hnodes, hr, _, _⟩ := concat_inv h
  refine ⟨om, hom, ?_⟩
  simp only [expandPat, bind, Except.bind] at hfull
  cases hrt : rootOf (expandVal (fuelFor r.env)) a.pattern r.env with
  | error e => simp [hrt] at hfull
  | ok rt =>
    simp only [hrt] at hfull
    cases hta : expandChildren (expandVal (fuelFor r.env)) a.pattern.nodes r.env true with
    | error e => simp [hta] at hfull
    | ok ta =>
      simp only [hta, pure, Except.pure, Except.ok.injEq] at hfull
      subst hfull
      have hroot' : rootOf (expandVal (fuelFor r.env)) r.pattern r.env = .ok rt := by
        rw [rootOf_append hr hne ⟨_, hnodes⟩]; exact hrt
      simp only [Matcher.str, expandTop, expandPat, hroot', bind, Except.bind, hnodes,
        expandChildren_append _ _ ta hta, rootOf_none hroot]
      cases expandChildren (expandVal (fuelFor r.env)) om.pattern.nodes r.env false <;>
        simp [Except.map, pure, Except.pure, List.append_assoc]

/-- the prefix of a concatenation whose first part has no wildcard: the first part, then the prefix of the other -/
theorem concat_prefix {a r : Matcher} {o : ConcatArg} (h : a.concat o = .ok r) (hne : a.pattern.nodes ≠ [])
    (hnw : a.pattern.prefixLen = a.pattern.nodes.length) {sa : Text}
    (hfull : expandPat (expandVal (fuelFor r.env)) a.pattern r.env true = .ok sa) :
    ∃ om : Matcher, o.toMatcher = .ok om ∧
      r.prefix = ((⟨om.pattern, r.env⟩ : Matcher).prefix).map (fun sb => sa ++ sb) := by
  obtain ⟨om, hom, hroot, hnodes, hr, _, hpl⟩ := concat_inv h
  refine ⟨om, hom, ?_⟩
  simp only [hnw, beq_self_eq_true, if_true] at hpl
  simp only [expandPat, bind, Except.bind] at hfull
  cases hrt : rootOf (expandVal (fuelFor r.env)) a.pattern r.env with
  | error e => simp [hrt] at hfull
  | ok rt =>
    simp only [hrt] at hfull
    cases hta : expandChildren (expandVal (fuelFor r.env)) a.pattern.nodes r.env true with
    | error e => simp [hta] at hfull
    | ok ta =>
      simp only [hta, pure, Except.pure, Except.ok.injEq] at hfull
      subst hfull
      have htake : r.pattern.nodes.take r.pattern.prefixLen = a.pattern.nodes ++ om.pattern.nodes.take om.pattern.prefixLen := by
        rw [hnodes, hpl, List.take_append]
        rw [List.take_of_length_le (by omega)]
        simp
      have hroot' : rootOf (expandVal (fuelFor r.env)) r.prefixPattern r.env = .ok rt := by
        rw [rootOf_append (p := a.pattern) (by simpa [Matcher.prefixPattern] using hr) hne
          ⟨_, by simpa [Matcher.prefixPattern] using htake⟩]
        exact hrt
      have hroot2 : (Matcher.prefixPattern ⟨om.pattern, r.env⟩).root = none := by simpa [Matcher.prefixPattern] using hroot
      simp only [Matcher.prefix, expandTop, expandPat, hroot', bind, Except.bind, rootOf_none hroot2]
      have e1 : (Matcher.prefixPattern r).nodes = a.pattern.nodes ++ om.pattern.nodes.take om.pattern.prefixLen := htake
      have e2 : (Matcher.prefixPattern ⟨om.pattern, r.env⟩).nodes = om.pattern.nodes.take om.pattern.prefixLen := rfl
      rw [e1, e2, expandChildren_append _ _ ta hta]
      cases expandChildren (expandVal (fuelFor r.env)) (om.pattern.nodes.take om.pattern.prefixLen) r.env false <;>
        simp [Except.map, pure, Except.pure, List.append_assoc]


/-- `a.concat(text)`: prefix of the result and its match of a path (proof files only) -/
def concatOutcome (pa : String) (enva : List (String × String)) (tail : String) (path : String) : TOutcome × Outcome :=
  match matcherOf pa enva none with
  | .error e => (.raised e, .raised e)
  | .ok a =>
    match a.concat (.text (T tail)) with
    | .error (.py e) => (.raised e, .raised e)
    | .error _ => (.raised .typeError, .raised .typeError)
    | .ok r =>
      ((match r.prefix with | .ok t => .text t | .error e => .raised e),
       (match r.match (T path) with | .ok none => .noMatch | .ok (some d) => .groups d | .error e => .raised e))
end C11E

/- C02 (extension), properties: one inert garbage line between printed records is exactly one junk entry. -/
import CLModel.Proofs.C02XRx
namespace C02X
open Rx P Gen.Pat

/-! ### repeats that can never reach a position where the continuation succeeds -/

/-- greedy repeat of a one-character step: the step fails at `e` at the latest and the continuation fails everywhere
    in `[q, e]`: the repeat fails -/
theorem charLoop_none_upto (s : Array Nat) (P : Nat → Bool) (caps) (k : K) (e : Nat)
    (hstop : s[e]? = none ∨ ∃ c, s[e]? = some c ∧ P c = false) :
    ∀ d fuel q, q + d = e → (∀ q', q ≤ q' → q' ≤ e → k ⟨q', caps⟩ = none) →
      loop (charStep s P) true fuel 0 none ⟨q, caps⟩ k = none := by
  intro d
  induction d with
  | zero =>
    intro fuel q hq hk
    have : q = e := by omega
    subst this
    cases fuel with
    | zero => rw [loop]
    | succ f =>
      rw [loop_body_fail _ _ _ _ _ _ (fun k' => charStep_fail s P q caps hstop k')]
      exact hk q (Nat.le_refl _) (Nat.le_refl _)
  | succ d ih =>
    intro fuel q hq hk
    cases fuel with
    | zero => rw [loop]
    | succ f =>
      have hk0 := hk q (Nat.le_refl _) (by omega)
      have ihh := ih f (q + 1) (by omega) (fun q' h1 h2 => hk q' (by omega) h2)
      rw [loop_more_none']
      · exact hk0
      · simp only [charStep]
        cases hc : s[q]? with
        | none => rfl
        | some c =>
          simp only []
          split
          · simp only [show ¬ (q + 1 ≤ q) by omega, if_false]
            exact ihh
          · rfl
where
  loop_more_none' {body : St → K → Option St} {g : Bool} {f : Nat} {mx : Option Nat} {st : St} {k : K}
      (h : body st (fun st' => if st'.pos ≤ st.pos then none else loop body g f (0 - 1) (mx.map (· - 1)) st' k) = none) :
      loop body g (f + 1) 0 mx st k = k st := by
    rw [loop]
    simp only [h]
    cases g <;> cases k st <;> cases (mx == some 0) <;> simp

theorem charLoop_lazy_none_upto (s : Array Nat) (P : Nat → Bool) (caps) (k : K) (e : Nat)
    (hstop : s[e]? = none ∨ ∃ c, s[e]? = some c ∧ P c = false) :
    ∀ d fuel q, q + d = e → (∀ q', q ≤ q' → q' ≤ e → k ⟨q', caps⟩ = none) →
      loop (charStep s P) false fuel 0 none ⟨q, caps⟩ k = none := by
  intro d
  induction d with
  | zero =>
    intro fuel q hq hk
    have : q = e := by omega
    subst this
    cases fuel with
    | zero => rw [loop]
    | succ f =>
      rw [loop_body_fail _ _ _ _ _ _ (fun k' => charStep_fail s P q caps hstop k')]
      exact hk q (Nat.le_refl _) (Nat.le_refl _)
  | succ d ih =>
    intro fuel q hq hk
    cases fuel with
    | zero => rw [loop]
    | succ f =>
      have hk0 := hk q (Nat.le_refl _) (by omega)
      have ihh := ih f (q + 1) (by omega) (fun q' h1 h2 => hk q' (by omega) h2)
      rw [charLoop_none_upto.loop_more_none']
      · exact hk0
      · simp only [charStep]
        cases hc : s[q]? with
        | none => rfl
        | some c =>
          simp only []
          split
          · simp only [show ¬ (q + 1 ≤ q) by omega, if_false]
            exact ihh
          · rfl

/-! ### the garbage line -/

/-- at `off`: `glen ≥ 1` characters without `= : # !` and newline, the first one not white-space, then a newline -/
structure GarbageAt (s : Array Nat) (off glen : Nat) : Prop where
  glen_pos : 0 < glen
  chars : ∀ j, j < glen → ∃ c, s[off + j]? = some c ∧ c ≠ 61 ∧ c ≠ 58 ∧ c ≠ 35 ∧ c ≠ 33 ∧ c ≠ 10
  head : ∃ c, s[off]? = some c ∧ c ≠ 32 ∧ c ≠ 9 ∧ c ≠ 13
  nl : s[off + glen]? = some 10

theorem garbage_char (s : Array Nat) (off glen : Nat) (h : GarbageAt s off glen) (p : Nat) (h1 : off ≤ p) (h2 : p ≤ off + glen) :
    ∃ c, s[p]? = some c ∧ c ≠ 61 ∧ c ≠ 58 ∧ c ≠ 35 ∧ c ≠ 33 := by
  by_cases hp : p < off + glen
  · obtain ⟨c, hc, a1, a2, a3, a4, _⟩ := h.chars (p - off) (by omega)
    rw [show off + (p - off) = p by omega] at hc
    exact ⟨c, hc, a1, a2, a3, a4⟩
  · have : p = off + glen := by omega
    subst this
    exact ⟨10, h.nl, by decide, by decide, by decide, by decide⟩

/-- the key regex matches nowhere inside the garbage line (its newline included) -/
theorem garbage_key_none (s : Array Nat) (off glen : Nat) (h : GarbageAt s off glen) (p : Nat) (h1 : off ≤ p) (h2 : p ≤ off + glen) :
    matchAt s PropertiesParser_reKey p = none := by
  have hnl := h.nl
  simp only [matchAt, PropertiesParser_reKey, m_seq, m_group, m_rep, m_cls_charStep]
  obtain ⟨c, hc, _⟩ := garbage_char s off glen h p h1 h2
  by_cases hin : inC true [ClsItem.ch 35, ClsItem.ch 33, ClsItem.ch 32, ClsItem.ch 9, ClsItem.ch 13, ClsItem.ch 10] c = true
  · have hp : p < off + glen := by
      by_cases hp : p < off + glen
      · exact hp
      · have : p = off + glen := by omega
        subst this
        rw [hnl] at hc; cases hc
        exact absurd hin (by decide)
    rw [charStep_ok s _ p c [] hc hin]
    apply charLoop_lazy_none_upto s _ [] _ (off + glen) (Or.inr ⟨10, hnl, by decide⟩) (off + glen - (p + 1)) _ (p + 1) (by omega)
    intro q hq1 hq2
    simp only []
    apply charLoop_none_upto s _ _ _ (off + glen) (Or.inr ⟨10, hnl, by decide⟩) (off + glen - q) _ q (by omega)
    intro q' hq1' hq2'
    obtain ⟨c', hc', a1, a2, _⟩ := garbage_char s off glen h q' (by omega) hq2'
    exact charStep_fail s _ q' _ (Or.inr ⟨c', hc', by simp [inC, ClsItem.has, a1, a2]⟩) _
  · exact charStep_fail s _ p [] (Or.inr ⟨c, hc, by simpa using hin⟩) _

theorem garbage_comment_none (s : Array Nat) (off glen : Nat) (h : GarbageAt s off glen) (p : Nat) (h1 : off ≤ p) (h2 : p ≤ off + glen) :
    matchAt s PropertiesParser_reComment p = none := by
  obtain ⟨c, hc, _, _, a3, a4⟩ := garbage_char s off glen h p h1 h2
  exact comment_none s p c hc a3 a4

theorem key_none_at_end (s : Array Nat) : matchAt s PropertiesParser_reKey s.size = none := by
  simp only [matchAt, PropertiesParser_reKey, m_seq, m_group, m_cls_charStep]
  exact charStep_fail s _ s.size [] (Or.inl (by simp)) _

theorem comment_none_at_end (s : Array Nat) : matchAt s PropertiesParser_reComment s.size = none := by
  have hcls : ∀ k', m s (Re.cls false [ClsItem.ch 35, ClsItem.ch 33]) ⟨s.size, []⟩ k' = none := by
    intro k'
    rw [m_cls_charStep]
    exact charStep_fail s _ s.size [] (Or.inl (by simp)) _
  simp only [matchAt, PropertiesParser_reComment, m_seq, m_rep]
  rw [show s.size + 2 - s.size = 1 + 1 by omega, loop_body_fail]
  · exact hcls _
  · intro k'
    rw [m_seq]
    exact hcls _

def junkEntry (off e : Nat) : Entry := { kind := .junk, full := off, s := off, e := e }

/-- `getJunk` on the garbage line: it ends where the next record's key matches, or at the end of the text -/
theorem garbage_junk (s : Array Nat) (off glen : Nat) (h : GarbageAt s off glen)
    (hnext : (∃ st, matchAt s PropertiesParser_reKey (off + glen + 1) = some st) ∨ off + glen + 1 = s.size) :
    getJunk s off [PropertiesParser_reKey, PropertiesParser_reComment] = junkEntry off (off + glen + 1) := by
  have hsz := getElem?_some_lt h.nl
  have hcnone : ∀ q st, search s PropertiesParser_reComment (off + 1) = some (q, st) → off + glen + 1 ≤ q := by
    intro q st hs
    obtain ⟨hq1, _, hm, _⟩ := search_spec hs
    by_cases hq : q ≤ off + glen
    · rw [garbage_comment_none s off glen h q (by omega) hq] at hm; cases hm
    · omega
  rcases hnext with ⟨st, hst⟩ | hend
  · have hk : search s PropertiesParser_reKey (off + 1) = some (off + glen + 1, st) := by
      have := search_first s PropertiesParser_reKey st glen (off + 1) (by omega)
        (fun p hp1 hp2 => garbage_key_none s off glen h p (by omega) (by omega))
        (by rw [show off + 1 + glen = off + glen + 1 by omega]; exact hst)
      rw [this, show off + 1 + glen = off + glen + 1 by omega]
    unfold getJunk
    simp only [List.foldl_cons, List.foldl_nil, hk]
    cases hcs : search s PropertiesParser_reComment (off + 1) with
    | none => simp [junkEntry]
    | some qs =>
      obtain ⟨q, st'⟩ := qs
      have := hcnone q st' hcs
      simp [junkEntry, Nat.min_eq_left this]
  · have hk : search s PropertiesParser_reKey (off + 1) = none := by
      apply search_none_c02
      intro p hp1 hp2
      by_cases hp : p ≤ off + glen
      · exact garbage_key_none s off glen h p (by omega) hp
      · rw [show p = s.size by omega]; exact key_none_at_end s
    have hc : search s PropertiesParser_reComment (off + 1) = none := by
      apply search_none_c02
      intro p hp1 hp2
      by_cases hp : p ≤ off + glen
      · exact garbage_comment_none s off glen h p (by omega) hp
      · rw [show p = s.size by omega]; exact comment_none_at_end s
    unfold getJunk
    simp only [List.foldl_cons, List.foldl_nil, hk, hc]
    simp [junkEntry, hend]

/-- `PropertiesParser.getNext` at the garbage line -/
theorem garbage_entry_at (s : Array Nat) (off glen : Nat) (h : GarbageAt s off glen)
    (hnext : (∃ st, matchAt s PropertiesParser_reKey (off + glen + 1) = some st) ∨ off + glen + 1 = s.size) :
    propsGetNext s off = junkEntry off (off + glen + 1) := by
  obtain ⟨c0, hc0, b1, b2, b3⟩ := h.head
  obtain ⟨c0', hc0', _, _, a3, a4, a5⟩ := h.chars 0 h.glen_pos
  simp only [Nat.add_zero] at hc0'
  rw [hc0] at hc0'; cases hc0'
  have hcm := comment_none s off c0 hc0 a3 a4
  have hws := ws_none s off c0 hc0 b1 b2 b3 a5
  have hkm := garbage_key_none s off glen h off (Nat.le_refl _) (by omega)
  unfold propsGetNext
  simp only [hcm, hws, hkm]
  simpa using garbage_junk s off glen h hnext

/-! ### printed records, a garbage line, printed records -/

/-- non-empty; no `= : # !` and no newline; not starting with white-space -/
structure SafeGarbage (g : List Nat) : Prop where
  ne : g ≠ []
  chars : ∀ c ∈ g, c ≠ 61 ∧ c ≠ 58 ∧ c ≠ 35 ∧ c ≠ 33 ∧ c ≠ 10
  head : ∀ c, g.head? = some c → c ≠ 32 ∧ c ≠ 9 ∧ c ≠ 13

def printWithGarbage (rs1 : List PRec) (g : List Nat) (rs2 : List PRec) : List Nat :=
  printProps rs1 ++ ((g ++ [10]) ++ printProps rs2)

theorem garbageAt_of_drop (s : Array Nat) (off : Nat) (g rest : List Nat) (hg : SafeGarbage g)
    (h : s.toList.drop off = (g ++ [10]) ++ rest) : GarbageAt s off g.length := by
  have hgl : 0 < g.length := List.length_pos_iff.mpr hg.ne
  have h' : s.toList.drop off = g ++ (10 :: rest) := by simpa using h
  refine ⟨hgl, ?_, ?_, ?_⟩
  · intro j hj
    exact ⟨g[j], get_app_left s off _ _ h' j hj, hg.chars _ (List.getElem_mem hj)⟩
  · have hh : g.head? = some g[0] := by rw [List.head?_eq_getElem?]; simp [hgl]
    exact ⟨g[0], by simpa using get_app_left s off _ _ h' 0 hgl, hg.head _ hh⟩
  · simpa using get_app_right s off _ _ h' 0

/-- walking a printed list of safe records that is followed by something that does not start with white-space -/
theorem walk_props_prefix (s : Array Nat) :
    ∀ (rs : List PRec) (off fuel : Nat) (rest : List Nat), s.toList.drop off = printProps rs ++ rest →
      (∀ r ∈ rs, SafeRec r) →
      (∀ c, rest.head? = some c → c ≠ 32 ∧ c ≠ 9 ∧ c ≠ 13 ∧ c ≠ 10) →
      walkFrom (fun (_ : Unit) o => (propsGetNext s o, ())) s.size (fuel + 2 * rs.length) () off =
        prepend (expEntries off rs)
          (walkFrom (fun (_ : Unit) o => (propsGetNext s o, ())) s.size fuel () (off + (printProps rs).length)) := by
  intro rs
  induction rs with
  | nil => intro off fuel rest _ _ _; simp [printProps, expEntries, prepend]
  | cons r rs ih =>
    intro off fuel rest h hsafe hrest
    have hpp : printProps (r :: rs) = printRec r ++ printProps rs := by simp [printProps]
    rw [hpp, List.append_assoc] at h
    have hrec := recAt_of_drop s off r _ (hsafe r (by simp)) h
    have hnl := hrec.nl
    have hnlt := getElem?_some_lt hnl
    have hdrop : s.toList.drop (off + r.1.length + 1 + r.2.length + 1) = printProps rs ++ rest := by
      have := drop_app s off _ _ h
      rw [printRec_length] at this
      rw [← this]; congr 1; omega
    have hnext : s[off + r.1.length + 1 + r.2.length + 1]? = none ∨
        ∃ c, s[off + r.1.length + 1 + r.2.length + 1]? = some c ∧ c ≠ 32 ∧ c ≠ 9 ∧ c ≠ 13 ∧ c ≠ 10 := by
      have g := get_of_drop s (off + r.1.length + 1 + r.2.length + 1) 0 _ hdrop
      simp only [Nat.add_zero] at g
      cases rs with
      | nil =>
        simp only [printProps, List.map_nil, List.flatten_nil, List.nil_append] at g
        cases hr : rest with
        | nil => left; rw [g, hr]; rfl
        | cons c t =>
          right
          rw [hr] at g
          exact ⟨c, by simpa using g, hrest c (by rw [hr]; rfl)⟩
      | cons r' rs' =>
        right
        have hs' := hsafe r' (by simp)
        have hkl : 0 < r'.1.length := List.length_pos_iff.mpr hs'.key_ne
        have f0 := keyChar_facts (hs'.key r'.1[0] (List.getElem_mem _))
        refine ⟨r'.1[0], ?_, f0.2.2.1, f0.2.2.2.1, f0.2.2.2.2.1, f0.2.2.2.2.2.1⟩
        rw [g]
        simp [printProps, printRec, List.getElem?_append_left hkl]
    have e1 : propsGetNext s off = propsEntity_c02 off r.1.length r.2.length := props_entity_at s off _ _ hrec
    have e2 := props_ws_at s (off + r.1.length + 1 + r.2.length) hnl hnext
    have hoffs : off + (printProps (r :: rs)).length = off + r.1.length + 1 + r.2.length + 1 + (printProps rs).length := by
      rw [hpp, List.length_append, printRec_length]; omega
    rw [show fuel + 2 * (r :: rs).length = (fuel + 2 * rs.length) + 1 + 1 by simp; omega,
      walk_step _ _ _ () () off (propsEntity_c02 off r.1.length r.2.length) (by omega) (by simp only [e1]),
      show (propsEntity_c02 off r.1.length r.2.length).e = off + r.1.length + 1 + r.2.length from rfl,
      walk_step _ _ _ () () _ (wsEntry (off + r.1.length + 1 + r.2.length)) (by omega) (by simp only [e2]),
      show (wsEntry (off + r.1.length + 1 + r.2.length)).e = off + r.1.length + 1 + r.2.length + 1 from rfl,
      ih _ fuel rest hdrop (fun r' hr' => hsafe r' (by simp [hr'])) hrest, hoffs]
    simp [prepend, expEntries]

/-- what the walk over `printWithGarbage rs1 g rs2` must yield -/
def garbageExpEntries (rs1 : List PRec) (g : List Nat) (rs2 : List PRec) : List Entry :=
  expEntries 0 rs1 ++
    junkEntry (printProps rs1).length ((printProps rs1).length + g.length + 1) ::
      expEntries ((printProps rs1).length + g.length + 1) rs2

theorem walk_garbage_printed (rs1 : List PRec) (g : List Nat) (rs2 : List PRec)
    (h1 : ∀ r ∈ rs1, SafeRec r) (hg : SafeGarbage g) (h2 : ∀ r ∈ rs2, SafeRec r) :
    walk .properties (printWithGarbage rs1 g rs2).toArray = .done (garbageExpEntries rs1 g rs2) := by
  unfold walk
  simp only []
  generalize hs : (printWithGarbage rs1 g rs2).toArray = s
  have hl : s.toList = printWithGarbage rs1 g rs2 := by rw [← hs]
  have hsize : s.size = (printProps rs1).length + (g.length + 1 + (printProps rs2).length) := by
    rw [← hs]; simp [printWithGarbage]; omega
  have hgl : 0 < g.length := List.length_pos_iff.mpr hg.ne
  have h0 : s.toList.drop 0 = printProps rs1 ++ ((g ++ [10]) ++ printProps rs2) := by simp [hl, printWithGarbage]
  have hd1 : s.toList.drop (printProps rs1).length = (g ++ [10]) ++ printProps rs2 := by
    simpa using drop_app s 0 _ _ h0
  have hd2 : s.toList.drop ((printProps rs1).length + g.length + 1) = printProps rs2 := by
    have := drop_app s _ _ _ hd1
    simpa [Nat.add_assoc] using this
  have hgar := garbageAt_of_drop s _ g _ hg hd1
  have hge1 := printProps_length_ge' rs1
  have hge2 := printProps_length_ge' rs2
  -- the record (or the end) after the garbage
  have hnext : (∃ st, matchAt s PropertiesParser_reKey ((printProps rs1).length + g.length + 1) = some st) ∨
      (printProps rs1).length + g.length + 1 = s.size := by
    cases rs2 with
    | nil => right; simp [hsize, printProps]; omega
    | cons r rs2' =>
      left
      have hpp : printProps (r :: rs2') = printRec r ++ printProps rs2' := by simp [printProps]
      rw [hpp] at hd2
      have hrec := recAt_of_drop s _ r _ (h2 r (by simp)) hd2
      exact ⟨_, key_match s _ _ _ hrec⟩
  have ej := garbage_entry_at s _ g.length hgar hnext
  have hrest : ∀ c, ((g ++ [10]) ++ printProps rs2).head? = some c → c ≠ 32 ∧ c ≠ 9 ∧ c ≠ 13 ∧ c ≠ 10 := by
    intro c hc
    have hh : g.head? = some c := by
      cases g with
      | nil => exact absurd rfl hg.ne
      | cons a t => simpa using hc
    have := hg.head c hh
    have hm : c ∈ g := by
      cases g with
      | nil => exact absurd rfl hg.ne
      | cons a t => simp at hh; subst hh; simp
    exact ⟨this.1, this.2.1, this.2.2, (hg.chars c hm).2.2.2.2⟩
  obtain ⟨f, hf⟩ : ∃ f, s.size + 1 = (f + 1) + 2 * rs1.length := ⟨s.size - 2 * rs1.length, by omega⟩
  rw [hf, walk_props_prefix s rs1 0 (f + 1) _ h0 h1 hrest, Nat.zero_add,
    walk_step _ _ _ () () _ (junkEntry (printProps rs1).length ((printProps rs1).length + g.length + 1)) (by omega)
      (by simp only [ej]),
    show (junkEntry (printProps rs1).length ((printProps rs1).length + g.length + 1)).e =
      (printProps rs1).length + g.length + 1 from rfl,
    walk_props_from s rs2 _ f hd2 h2 (by omega)]
  simp [WalkResult.cons, prepend_done, garbageExpEntries]
where
  printProps_length_ge' (rs : List PRec) : 2 * rs.length ≤ (printProps rs).length := by
    induction rs with
    | nil => simp
    | cons r rs ih =>
      have : printProps (r :: rs) = printRec r ++ printProps rs := by simp [printProps]
      rw [this, List.length_append, printRec_length]
      simp; omega

/-! ### views -/

theorem entitiesOf_expEntries_prefix (s : Array Nat) :
    ∀ (rs : List PRec) (off : Nat) (rest : List Nat), s.toList.drop off = printProps rs ++ rest → (∀ r ∈ rs, SafeRec r) →
      entitiesOf .properties s (expEntries off rs) = rs.map expectedView ∧ junkOf s (expEntries off rs) = [] := by
  intro rs
  induction rs with
  | nil => intro off _ _ _; simp [entitiesOf, junkOf, expEntries]
  | cons r rs ih =>
    intro off rest h hsafe
    have hpp : printProps (r :: rs) = printRec r ++ printProps rs := by simp [printProps]
    rw [hpp, List.append_assoc] at h
    have hdrop : s.toList.drop (off + r.1.length + 1 + r.2.length + 1) = printProps rs ++ rest := by
      have := drop_app s off _ _ h
      rw [printRec_length] at this
      rw [← this]; congr 1; omega
    obtain ⟨ih1, ih2⟩ := ih _ rest hdrop (fun r' hr' => hsafe r' (by simp [hr']))
    have hv := entView_propsEntity s off r _ (hsafe r (by simp)) h
    constructor
    · simp only [entitiesOf] at ih1 ⊢
      simp only [expEntries, List.map_cons]
      rw [List.filter_cons_of_pos (by simp [propsEntity_c02]), List.filter_cons_of_neg (by simp [wsEntry]),
        List.map_cons, hv, ih1]
    · simp only [junkOf] at ih2 ⊢
      simp only [expEntries]
      rw [List.filter_cons_of_neg (by simp [propsEntity_c02]), List.filter_cons_of_neg (by simp [wsEntry]), ih2]

theorem views_garbage_printed (rs1 : List PRec) (g : List Nat) (rs2 : List PRec)
    (h1 : ∀ r ∈ rs1, SafeRec r) (h2 : ∀ r ∈ rs2, SafeRec r) :
    entitiesOf .properties (printWithGarbage rs1 g rs2).toArray (garbageExpEntries rs1 g rs2) =
        (rs1 ++ rs2).map expectedView ∧
      junkOf (printWithGarbage rs1 g rs2).toArray (garbageExpEntries rs1 g rs2) = [g ++ [10]] := by
  generalize hs : (printWithGarbage rs1 g rs2).toArray = s
  have hl : s.toList = printWithGarbage rs1 g rs2 := by rw [← hs]
  have h0 : s.toList.drop 0 = printProps rs1 ++ ((g ++ [10]) ++ printProps rs2) := by simp [hl, printWithGarbage]
  have hd1 : s.toList.drop (printProps rs1).length = (g ++ [10]) ++ printProps rs2 := by
    simpa using drop_app s 0 _ _ h0
  have hd2 : s.toList.drop ((printProps rs1).length + g.length + 1) = printProps rs2 ++ [] := by
    have := drop_app s _ _ _ hd1
    simpa [Nat.add_assoc] using this
  obtain ⟨a1, a2⟩ := entitiesOf_expEntries_prefix s rs1 0 _ h0 h1
  obtain ⟨b1, b2⟩ := entitiesOf_expEntries_prefix s rs2 _ [] hd2 h2
  have hj : slice s (printProps rs1).length ((printProps rs1).length + g.length + 1) = g ++ [10] := by
    have := slice_take s (printProps rs1).length (g.length + 1) _ hd1 (by simp)
    rw [show (printProps rs1).length + g.length + 1 = (printProps rs1).length + (g.length + 1) by omega, this]
    have e : g ++ [10] ++ printProps rs2 = (g ++ [10]) ++ printProps rs2 := rfl
    rw [e, show g.length + 1 = (g ++ [10]).length by simp, List.take_left]
  constructor
  · simp only [entitiesOf] at a1 b1 ⊢
    simp only [garbageExpEntries, List.filter_append, List.map_append]
    rw [List.filter_cons_of_neg (by simp [junkEntry]), a1, b1]
  · simp only [junkOf] at a2 b2 ⊢
    simp only [garbageExpEntries, List.filter_append, List.map_append]
    rw [List.filter_cons_of_pos (by simp [junkEntry]), a2, List.map_cons, b2]
    simp [junkEntry, hj]

end C02X

/-
C13 helper lemmas: the `known` dict of `iter_locale` / `iter_reference` is "first claim wins".
-/
import CLModel.Paths.ProjectFiles
import CLModel.Proofs.C13Order
namespace PF

/-- `for (p, e) in cs: if p not in known: known[p] = e` -/
def addAll (cs : List (Path × Entry)) (k : Known) : Known := cs.foldl (fun k c => kAdd k c.1 c.2) k

def keys (k : Known) : List Path := k.map (·.1)

theorem any_key_iff {k : Known} {p : Path} : (k.any (·.1 == p)) = true ↔ p ∈ keys k := by
  simp only [List.any_eq_true, beq_iff_eq, keys, List.mem_map]

theorem kAdd_of_mem {k : Known} {p : Path} {e : Entry} (h : p ∈ keys k) : kAdd k p e = k := by
  simp [kAdd, any_key_iff.2 h]

theorem kAdd_of_not_mem {k : Known} {p : Path} {e : Entry} (h : p ∉ keys k) : kAdd k p e = k ++ [(p, e)] := by
  have : (k.any (·.1 == p)) = false := by
    cases hh : k.any (·.1 == p)
    · rfl
    · exact absurd (any_key_iff.1 hh) h
  simp [kAdd, this]

theorem keys_nodup_kAdd {k : Known} {p : Path} {e : Entry} (h : (keys k).Nodup) : (keys (kAdd k p e)).Nodup := by
  by_cases hp : p ∈ keys k
  · rw [kAdd_of_mem hp]; exact h
  · rw [kAdd_of_not_mem hp]
    simp only [keys, List.map_append, List.map_cons, List.map_nil]
    rw [List.nodup_append]
    refine ⟨h, by simp, ?_⟩
    intro a ha b hb
    simp only [List.mem_singleton] at hb
    subst hb
    intro e
    exact hp (e ▸ ha)

theorem keys_nodup_addAll : ∀ {cs : List (Path × Entry)} {k : Known}, (keys k).Nodup → (keys (addAll cs k)).Nodup
  | [], _, h => h
  | c :: cs, k, h => by
    simp only [addAll, List.foldl_cons]
    exact keys_nodup_addAll (cs := cs) (keys_nodup_kAdd h)

/-- first claim wins -/
theorem mem_addAll : ∀ {cs : List (Path × Entry)} {k : Known} {p : Path} {e : Entry},
    ((p, e) ∈ addAll cs k ↔ (p, e) ∈ k ∨ (p ∉ keys k ∧ cs.find? (·.1 == p) = some (p, e)))
  | [], k, p, e => by simp [addAll]
  | c :: cs, k, p, e => by
    have ih := fun k' => mem_addAll (cs := cs) (k := k') (p := p) (e := e)
    simp only [addAll, List.foldl_cons] at ih ⊢
    rw [ih, List.find?_cons]
    by_cases hc : c.1 ∈ keys k
    · rw [kAdd_of_mem hc]
      by_cases hcp : c.1 = p
      · subst hcp
        simp [hc]
      · have : (c.1 == p) = false := by simpa using hcp
        simp [this]
    · rw [kAdd_of_not_mem hc]
      by_cases hcp : c.1 = p
      · subst hcp
        have hb : (c.1 == c.1) = true := by simp
        simp only [hb, List.mem_append, List.mem_singleton, keys, List.map_append, List.map_cons, List.map_nil,
          List.mem_append, List.mem_singleton, not_or]
        constructor
        · rintro ((h | h) | ⟨⟨_, h⟩, _⟩)
          · exact Or.inl h
          · right
            refine ⟨hc, ?_⟩
            have h2 : e = c.2 := (Prod.mk.injEq _ _ _ _ ▸ h).2
            rw [h2]
          · exact absurd trivial h
        · rintro (h | ⟨_, h⟩)
          · exact Or.inl (Or.inl h)
          · left; right
            simp only [Option.some.injEq] at h
            exact h.symm
      · have hb : (c.1 == p) = false := by simpa using hcp
        simp only [hb, List.mem_append, List.mem_singleton, keys, List.map_append, List.map_cons, List.map_nil,
          List.mem_append, List.mem_singleton, not_or]
        constructor
        · rintro ((h | h) | ⟨⟨h1, _⟩, h2⟩)
          · exact Or.inl h
          · exact absurd (congrArg Prod.fst h).symm hcp
          · exact Or.inr ⟨h1, h2⟩
        · rintro (h | ⟨h1, h2⟩)
          · exact Or.inl (Or.inl h)
          · exact Or.inr ⟨⟨h1, fun e => hcp e.symm⟩, h2⟩

theorem mem_addAll_nil {cs : List (Path × Entry)} {p : Path} {e : Entry} :
    (p, e) ∈ addAll cs [] ↔ cs.find? (·.1 == p) = some (p, e) := by
  rw [mem_addAll]; simp [keys]

theorem addAll_append {a b : List (Path × Entry)} {k : Known} : addAll (a ++ b) k = addAll b (addAll a k) := by
  simp [addAll, List.foldl_append]

/-- the sorted output lists exactly the first claims -/
theorem mem_sorted_items {cs : List (Path × Entry)} {it : Item} :
    it ∈ (sortKnown (addAll cs [])).map toItem ↔
      ∃ e, cs.find? (·.1 == it.path) = some (it.path, e) ∧ it = toItem (it.path, e) := by
  simp only [List.mem_map, mem_sortKnown]
  constructor
  · rintro ⟨⟨p, e⟩, hmem, rfl⟩
    exact ⟨e, mem_addAll_nil.1 hmem, rfl⟩
  · rintro ⟨e, h, he⟩
    exact ⟨(it.path, e), mem_addAll_nil.2 h, he.symm⟩

theorem sorted_items_strict {cs : List (Path × Entry)} :
    (((sortKnown (addAll cs [])).map toItem).map (·.path)).Pairwise (fun a b => pathLt a b = true) := by
  have h : StrictSorted (sortKnown (addAll cs [])) :=
    sortKnown_sorted (keys_nodup_addAll (cs := cs) (k := []) (by simp [keys]))
  unfold StrictSorted at h
  rw [List.map_map, List.pairwise_map]
  exact h

end PF

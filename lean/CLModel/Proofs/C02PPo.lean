/- C02 (round 4), PO: LISTS of records — several fragments per string list, escapes, optional msgctxt, attached `#` comment
   lines, any white-space between the parts — are recovered exactly. -/
import CLModel.Proofs.C02PCore
import CLModel.Proofs.C02XPo
namespace C02P
open Rx P Gen.Pat C02X

/-! ### printed string lists -/

/-- one fragment of a string list: the white-space in front of the opening quote and the tokens between the quotes -/
structure PoFrag where
  ws : List Nat
  toks : List PoTok

def PoFrag.print (f : PoFrag) : List Nat := f.ws ++ 34 :: (poRender f.toks ++ [34])

def PoFrag.Good (f : PoFrag) : Prop := (∀ c ∈ f.ws, isWs c = true) ∧ ∀ t ∈ f.toks, t.wf = true

def printFrags (fs : List PoFrag) : List Nat := (fs.map PoFrag.print).flatten

@[simp] theorem printFrags_nil : printFrags [] = [] := rfl
@[simp] theorem printFrags_cons (f : PoFrag) (fs : List PoFrag) : printFrags (f :: fs) = f.print ++ printFrags fs := by
  simp [printFrags]

theorem PoFrag.print_length (f : PoFrag) : f.print.length = f.ws.length + (poRender f.toks).length + 2 := by
  simp [PoFrag.print]; omega

/-- the group-1 spans of the fragments printed at `p` -/
def fragSpans : Nat → List PoFrag → List (Nat × Nat)
  | _, [] => []
  | p, f :: fs => (p + f.ws.length + 1, p + f.ws.length + 1 + (poRender f.toks).length) :: fragSpans (p + f.print.length) fs

/-- what may follow a string list: white-space and then the end of the text or something that is neither white-space nor
    a quote (so that no further list item starts) -/
def NoItem (l : List Nat) : Prop :=
  ∃ w rest, l = w ++ rest ∧ (∀ c ∈ w, isWs c = true) ∧ ∀ c, rest.head? = some c → isWs c = false ∧ c ≠ 34

/-! ### the list-item regex on a printed fragment -/

theorem poItemBody_esc (s : Array Nat) (p c : Nat) (l : List Nat) (caps) (h : At s p (92 :: c :: l))
    (hc : (PoTok.esc c).wf = true) (k' : K) : m s poItemBody ⟨p, caps⟩ k' = k' ⟨p + 2, caps⟩ := by
  unfold poItemBody
  rw [m_alt, m_seq, lit_at h, m_cls_charStep, step_at _ h.tail (by simpa [PoTok.wf, inC, ClsItem.has, or_assoc] using hc),
    m_cls_charStep, step_at_fail _ h (by intro d hd; simp at hd; subst hd; decide)]
  cases k' ⟨p + 1 + 1, caps⟩ <;> rfl

theorem poItemBody_plain (s : Array Nat) (p c : Nat) (l : List Nat) (caps) (h : At s p (c :: l))
    (hc : (PoTok.plain c).wf = true) (k' : K) : m s poItemBody ⟨p, caps⟩ k' = k' ⟨p + 1, caps⟩ := by
  simp only [PoTok.wf, Bool.and_eq_true, bne_iff_ne, ne_eq] at hc
  exact poItemBody_step s p c caps h.hd hc.1.1 hc.1.2 hc.2 k'

theorem poItemBody_tok (s : Array Nat) (p : Nat) (t : PoTok) (l : List Nat) (caps) (h : At s p (t.render ++ l))
    (hc : t.wf = true) (k' : K) : m s poItemBody ⟨p, caps⟩ k' = k' ⟨p + t.render.length, caps⟩ := by
  cases t with
  | esc c => exact poItemBody_esc s p c l caps h hc k'
  | plain c => exact poItemBody_plain s p c l caps h hc k'

theorem render_pos (t : PoTok) : 0 < t.render.length := by cases t <;> simp [PoTok.render]

@[simp] theorem poRender_nil : poRender [] = [] := rfl
@[simp] theorem poRender_cons (t : PoTok) (ts : List PoTok) : poRender (t :: ts) = t.render ++ poRender ts := by
  simp [poRender]

/-- the repeat inside the quotes runs over exactly the printed tokens -/
theorem po_body_loop (s : Array Nat) (caps) (k : K) (r : St) :
    ∀ (toks : List PoTok) (p fuel : Nat) (rest : List Nat), At s p (poRender toks ++ 34 :: rest) →
      (∀ t ∈ toks, t.wf = true) → toks.length < fuel → k ⟨p + (poRender toks).length, caps⟩ = some r →
      loop (m s poItemBody) true fuel 0 none ⟨p, caps⟩ k = some r := by
  intro toks
  induction toks with
  | nil =>
    intro p fuel rest h _ hf hk
    obtain ⟨f, rfl⟩ : ∃ f, fuel = f + 1 := ⟨fuel - 1, by simp at hf; omega⟩
    rw [loop_body_fail _ true f none ⟨p, caps⟩ k (fun k' => poItemBody_fail s p caps (by simpa using h.hd) k')]
    simpa using hk
  | cons t toks ih =>
    intro p fuel rest h hwf hf hk
    obtain ⟨f, rfl⟩ : ∃ f, fuel = f + 1 := ⟨fuel - 1, by simp at hf; omega⟩
    have h' : At s p (t.render ++ (poRender toks ++ 34 :: rest)) := by simpa [At] using h
    have hpos := render_pos t
    have ihh := ih (p + t.render.length) f rest h'.app (fun u hu => hwf u (by simp [hu])) (by simp at hf; omega)
      (by simp only [poRender_cons, List.length_append] at hk; rw [← Nat.add_assoc] at hk; exact hk)
    rw [loop]
    simp only [poItemBody_tok s p t _ caps h' (hwf t (by simp)), show ¬ (p + t.render.length ≤ p) by omega, if_false,
      show ((none : Option Nat) == some 0) = false from rfl, Bool.false_eq_true, Option.map_none, Nat.zero_sub, ihh]
    simp

/-- a printed fragment is one list item; group 1 is the text between the quotes -/
theorem po_item_at (s : Array Nat) (p : Nat) (f : PoFrag) (rest : List Nat) (hg : f.Good)
    (h : At s p (f.print ++ rest)) :
    matchAt s PoParser_reListItem p =
      some ⟨p + f.print.length, [(1, p + f.ws.length + 1, p + f.ws.length + 1 + (poRender f.toks).length)]⟩ := by
  have h1 : At s p (f.ws ++ (34 :: (poRender f.toks ++ 34 :: rest))) := by simpa [At, PoFrag.print] using h
  have hp : p < s.size := h.pos_lt (by simp [PoFrag.print])
  have h2 := h1.app
  have h3 : At s (p + f.ws.length + 1) (poRender f.toks ++ 34 :: rest) := h2.tail
  have h4 := h3.app
  have hsz : p + f.ws.length + 1 + (poRender f.toks).length < s.size := h4.pos_lt (by simp)
  simp only [matchAt, PoParser_reListItem, m_seq, m_group, m_rep, m_cls_charStep]
  apply greedy_at _ [] _ _ 0 h1 (fun c hc => by rw [inC_ws]; exact hg.1 c hc) (by intro c hc; simp at hc; subst hc; decide)
    (by omega) (by omega)
  rw [lit_at h2]
  have hlen : f.toks.length ≤ (poRender f.toks).length := by
    clear h h1 h2 h3 h4 hsz hg
    induction f.toks with
    | nil => simp
    | cons t ts ih => have := render_pos t; simp only [poRender_cons, List.length_append, List.length_cons]; omega
  apply po_body_loop s [] _ _ f.toks _ _ rest h3 hg.2 (by simp only []; omega)
  rw [lit_at h4]
  simp [PoFrag.print_length]
  omega

/-- where no item can start, none matches -/
theorem po_item_none_at (s : Array Nat) (p : Nat) (l : List Nat) (hn : NoItem l) (h : At s p l) :
    matchAt s PoParser_reListItem p = none := by
  obtain ⟨w, rest, rfl, hw, hr⟩ := hn
  simp only [matchAt, PoParser_reListItem, m_seq, m_group, m_rep, m_cls_charStep]
  apply greedy_at_none _ [] _ _ h (fun c hc => by rw [inC_ws]; exact hw c hc)
    (fun c hc => by rw [inC_ws]; exact (hr c hc).1)
  intro j hj
  apply lit_fail
  by_cases hjl : j < w.length
  · rw [h.left j hjl]
    have := hw _ (List.getElem_mem hjl)
    intro heq
    simp only [Option.some.injEq] at heq
    rw [heq] at this
    exact absurd this (by decide)
  · have : j = w.length := by omega
    subst this
    rw [h.app.head]
    cases hh : rest.head? with
    | none => simp
    | some c => simp [(hr c hh).2]

theorem fragSpans_len (fs : List PoFrag) (p : Nat) : (fragSpans p fs).length = fs.length := by
  induction fs generalizing p with
  | nil => rfl
  | cons f fs ih => simp [fragSpans, ih]

/-- the `while True` loop of `_parse_string_list` on a printed fragment list -/
theorem poFrags_at (s : Array Nat) : ∀ (fs : List PoFrag) (p fuel : Nat) (tail : List Nat), (∀ f ∈ fs, f.Good) →
    NoItem tail → At s p (printFrags fs ++ tail) → fs.length < fuel →
    poFrags s fuel p = (fragSpans p fs, p + (printFrags fs).length) := by
  intro fs
  induction fs with
  | nil =>
    intro p fuel tail _ hn h hf
    obtain ⟨f, rfl⟩ : ∃ f, fuel = f + 1 := ⟨fuel - 1, by simp at hf; omega⟩
    rw [poFrags, po_item_none_at s p tail hn (by simpa using h)]
    simp [fragSpans]
  | cons f fs ih =>
    intro p fuel tail hg hn h hf
    obtain ⟨fu, rfl⟩ : ∃ fu, fuel = fu + 1 := ⟨fuel - 1, by simp at hf; omega⟩
    have h' : At s p (f.print ++ (printFrags fs ++ tail)) := by simpa [At] using h
    have hlen := f.print_length
    rw [poFrags, po_item_at s p f _ (hg f (by simp)) h']
    simp only [show ¬ (p + f.print.length ≤ p) by omega, if_false]
    rw [ih (p + f.print.length) fu tail (fun g hg' => hg g (by simp [hg'])) hn h'.app (by simp at hf; omega)]
    simp [St.group, capOf, fragSpans, Nat.add_assoc]

/-- `_parse_string_list` on keyword + printed fragments -/
theorem poStringList_at (s : Array Nat) (p : Nat) (kw : List Nat) (fs : List PoFrag) (tail : List Nat)
    (hne : fs ≠ []) (hg : ∀ f ∈ fs, f.Good) (hn : NoItem tail) (h : At s p (kw ++ (printFrags fs ++ tail))) :
    poStringList s p kw = some (fragSpans (p + kw.length) fs, p + kw.length + (printFrags fs).length) := by
  have hfl : fs.length ≤ s.size := by
    have h1 := h.app.len
    have : fs.length ≤ (printFrags fs).length := by
      clear h h1 hne hg
      induction fs with
      | nil => simp
      | cons f fs ih => have := f.print_length; simp only [printFrags_cons, List.length_append, List.length_cons]; omega
    simp only [List.length_append] at h1
    omega
  unfold poStringList startsWithAt
  rw [h.slice]
  simp only [beq_self_eq_true, Bool.not_true, Bool.false_eq_true, if_false]
  rw [poFrags_at s fs _ _ tail hg hn h.app (by omega)]
  have : (fragSpans (p + kw.length) fs).isEmpty = false := by
    cases fs with
    | nil => exact absurd rfl hne
    | cons f fs => simp [fragSpans]
  simp [this]

/-- a keyword that is not there -/
theorem poStringList_none (s : Array Nat) (p : Nat) (kw l : List Nat) (h : At s p l) (hl : kw.length ≤ l.length)
    (hne : l.take kw.length ≠ kw) : poStringList s p kw = none := by
  unfold poStringList startsWithAt
  have : slice s p (p + kw.length) = l.take kw.length := slice_take s p kw.length l h hl
  rw [this]
  simp [hne]

/-! ### evaluation of the fragments -/

theorem poEval_frags (s : Array Nat) : ∀ (fs : List PoFrag) (p : Nat) (tail : List Nat), (∀ f ∈ fs, f.Good) →
    At s p (printFrags fs ++ tail) → poEval s (fragSpans p fs) = some ((fs.map (fun f => poOnePass f.toks)).flatten) := by
  intro fs
  induction fs with
  | nil => intro p tail _ _; simp [poEval, fragSpans]
  | cons f fs ih =>
    intro p tail hg h
    have h' : At s p (f.print ++ (printFrags fs ++ tail)) := by simpa [At] using h
    have h1 : At s p (f.ws ++ (34 :: (poRender f.toks ++ 34 :: (printFrags fs ++ tail)))) := by
      simpa [At, PoFrag.print] using h'
    have h3 : At s (p + f.ws.length + 1) (poRender f.toks ++ 34 :: (printFrags fs ++ tail)) := h1.app.tail
    have ihh := ih (p + f.print.length) tail (fun g hg' => hg g (by simp [hg'])) h'.app
    unfold poEval at ihh ⊢
    simp only [fragSpans, List.mapM_cons, h3.slice, poUnescape_render f.toks (hg f (by simp)).2]
    cases hm : List.mapM (fun x => poUnescape (slice s x.1 x.2)) (fragSpans (p + f.print.length) fs) with
    | none => simp [hm] at ihh
    | some l =>
      simp only [hm, Option.map_some, Option.some.injEq] at ihh
      simp [ihh]

/-! ### comment lines -/

/-- `#text⏎` per line -/
def printComment (cs : List (List Nat)) : List Nat := (cs.map (fun c => 35 :: (c ++ [10]))).flatten

@[simp] theorem printComment_nil : printComment [] = [] := rfl
@[simp] theorem printComment_cons (c : List Nat) (cs : List (List Nat)) :
    printComment (c :: cs) = 35 :: (c ++ 10 :: printComment cs) := by simp [printComment]

def poCommentBody : Re := Re.seq (Re.lit 35) (Re.seq (Re.rep 0 none false (Re.any false)) (Re.lit 10))

theorem poComment_eq : PoParser_reComment = Re.rep 1 none true poCommentBody := rfl

/-- the body `#.*?\n` on one printed comment line -/
theorem poCommentBody_line (s : Array Nat) (p : Nat) (c rest : List Nat) (caps) (h : At s p (35 :: (c ++ 10 :: rest)))
    (hc : ∀ x ∈ c, x ≠ 10) (k' : K) : m s poCommentBody ⟨p, caps⟩ k' = k' ⟨p + c.length + 2, caps⟩ := by
  have h1 := h.tail
  have hp : p + 1 < s.size := h1.pos_lt (by simp)
  unfold poCommentBody
  rw [m_seq, lit_at h, m_seq, m_rep, m_any_charStep]
  simp only []
  rw [lazy_at_exact _ caps _ h1 (fun x hx => by simp [hc x hx]) (by intro x hx; simp at hx; subst hx; decide)
    (fun j hj => lit_fail s _ 10 caps (by rw [h1.left j hj]; simp [hc _ (List.getElem_mem hj)]) _) (by omega)]
  rw [lit_at h1.app, show p + 1 + c.length + 1 = p + c.length + 2 by omega]

theorem poCommentBody_fail (s : Array Nat) (p : Nat) (l : List Nat) (caps) (h : At s p l) (hl : l.head? ≠ some 35)
    (k' : K) : m s poCommentBody ⟨p, caps⟩ k' = none := by
  unfold poCommentBody
  rw [m_seq, lit_at_fail h hl]

theorem po_comment_loop (s : Array Nat) (caps) (k : K) (r : St) :
    ∀ (cs : List (List Nat)) (p fuel mn : Nat) (rest : List Nat), At s p (printComment cs ++ rest) →
      (∀ c ∈ cs, ∀ x ∈ c, x ≠ 10) → rest.head? ≠ some 35 → cs.length < fuel → mn ≤ cs.length →
      k ⟨p + (printComment cs).length, caps⟩ = some r →
      loop (m s poCommentBody) true fuel mn none ⟨p, caps⟩ k = some r := by
  intro cs
  induction cs with
  | nil =>
    intro p fuel mn rest h _ hr hf hmn hk
    obtain ⟨f, rfl⟩ : ∃ f, fuel = f + 1 := ⟨fuel - 1, by simp at hf; omega⟩
    have : mn = 0 := by simpa using hmn
    subst this
    rw [loop_body_fail _ true f none ⟨p, caps⟩ k (fun k' => poCommentBody_fail s p rest caps (by simpa using h) hr k')]
    simpa using hk
  | cons c cs ih =>
    intro p fuel mn rest h hc hr hf hmn hk
    obtain ⟨f, rfl⟩ : ∃ f, fuel = f + 1 := ⟨fuel - 1, by simp at hf; omega⟩
    have h' : At s p (35 :: (c ++ 10 :: (printComment cs ++ rest))) := by simpa [At] using h
    have h2 : At s (p + c.length + 2) (printComment cs ++ rest) := by
      have := h'.tail.app.tail
      rw [show p + 1 + c.length + 1 = p + c.length + 2 by omega] at this
      exact this
    have ihh := ih (p + c.length + 2) f (mn - 1) rest h2 (fun d hd => hc d (by simp [hd])) hr (by simp at hf; omega)
      (by simp at hmn; omega)
      (by simp only [printComment_cons, List.length_cons, List.length_append] at hk
          rw [show p + c.length + 2 + (printComment cs).length = p + (c.length + ((printComment cs).length + 1) + 1) by omega]
          exact hk)
    rw [loop]
    simp only [poCommentBody_line s p c _ caps h' (hc c (by simp)), show ¬ (p + c.length + 2 ≤ p) by omega, if_false,
      show ((none : Option Nat) == some 0) = false from rfl, Bool.false_eq_true, Option.map_none, ihh]
    split <;> simp

theorem printComment_length_ge (cs : List (List Nat)) : 2 * cs.length ≤ (printComment cs).length := by
  induction cs with
  | nil => simp
  | cons c cs ih => simp only [printComment_cons, List.length_cons, List.length_append]; omega

/-- a printed comment block, followed by something that is not a `#` -/
theorem po_comment_at (s : Array Nat) (p : Nat) (cs : List (List Nat)) (rest : List Nat) (hne : cs ≠ [])
    (hc : ∀ c ∈ cs, ∀ x ∈ c, x ≠ 10) (hr : rest.head? ≠ some 35) (h : At s p (printComment cs ++ rest)) :
    matchAt s PoParser_reComment p = some ⟨p + (printComment cs).length, []⟩ := by
  have hl := h.len
  have hge := printComment_length_ge cs
  have hpos : 0 < cs.length := List.length_pos_iff.mpr hne
  simp only [List.length_append] at hl
  rw [poComment_eq]
  simp only [matchAt, m_rep]
  exact po_comment_loop s [] some _ cs p _ 1 rest h hc hr (by omega) (by omega) rfl

theorem po_comment_none_at (s : Array Nat) (p : Nat) (l : List Nat) (hr : l.head? ≠ some 35) (h : At s p l) :
    matchAt s PoParser_reComment p = none := by
  rw [poComment_eq]
  simp only [matchAt, m_rep]
  cases hf : s.size + 2 - p with
  | zero => rw [loop]
  | succ f => exact loop_body_fail_min _ _ _ _ _ _ _ (fun k' => poCommentBody_fail s p l [] h hr k') (by omega)

/-! ### the key regex -/

theorem po_key_msgid (s : Array Nat) (p : Nat) (l : List Nat) (h : At s p (kwMsgid ++ l)) :
    matchAt s PoParser_reKey p = some ⟨p + 5, []⟩ := by
  have h0 : At s p (109 :: 115 :: 103 :: 105 :: 100 :: l) := h
  simp only [matchAt, PoParser_reKey, m_seq, m_alt]
  rw [lit_at h0, lit_at h0.tail, lit_at h0.tail.tail, lit_at_fail h0.tail.tail.tail (by simp)]
  simp only [none_orElse']
  rw [lit_at h0.tail.tail.tail, lit_at h0.tail.tail.tail.tail]

theorem po_key_msgctxt (s : Array Nat) (p : Nat) (l : List Nat) (h : At s p (kwMsgctxt ++ l)) :
    matchAt s PoParser_reKey p = some ⟨p + 7, []⟩ := by
  have h0 : At s p (109 :: 115 :: 103 :: 99 :: 116 :: 120 :: 116 :: l) := h
  simp only [matchAt, PoParser_reKey, m_seq, m_alt]
  rw [lit_at h0, lit_at h0.tail, lit_at h0.tail.tail, lit_at h0.tail.tail.tail, lit_at h0.tail.tail.tail.tail,
    lit_at h0.tail.tail.tail.tail.tail, lit_at h0.tail.tail.tail.tail.tail.tail]
  rfl

/-! ### printed records -/

/-- a printed PO record -/
structure PoRec where
  /-- comment lines (the text after `#`, without the newline) directly in front of the record -/
  comment : List (List Nat)
  /-- white-space between the comment block and the record (at most one newline; empty when there is no comment) -/
  cgap : List Nat
  /-- `msgctxt` fragments and the white-space after them -/
  ctxt : Option (List PoFrag × List Nat)
  msgid : List PoFrag
  /-- white-space between the msgid list and `msgstr` -/
  sep : List Nat
  msgstr : List PoFrag
  /-- white-space after the record -/
  gap : List Nat

def PoRec.ctxtText (r : PoRec) : List Nat :=
  match r.ctxt with
  | none => []
  | some (fs, w) => kwMsgctxt ++ (printFrags fs ++ w)

def PoRec.body (r : PoRec) : List Nat :=
  r.ctxtText ++ (kwMsgid ++ (printFrags r.msgid ++ (r.sep ++ (kwMsgstr ++ printFrags r.msgstr))))

def PoRec.print (r : PoRec) : List Nat := printComment r.comment ++ (r.cgap ++ (r.body ++ r.gap))

structure PoRec.Good (r : PoRec) : Prop where
  comment : ∀ c ∈ r.comment, ∀ x ∈ c, x ≠ 10
  cgap : ∀ c ∈ r.cgap, isWs c = true
  cgap_nl : (r.cgap.filter (· == 10)).length ≤ 1
  cgap_nil : r.comment = [] → r.cgap = []
  ctxt : ∀ fs w, r.ctxt = some (fs, w) → fs ≠ [] ∧ (∀ f ∈ fs, f.Good) ∧ ∀ c ∈ w, isWs c = true
  msgid_ne : r.msgid ≠ []
  msgid : ∀ f ∈ r.msgid, f.Good
  sep : ∀ c ∈ r.sep, isWs c = true
  msgstr_ne : r.msgstr ≠ []
  msgstr : ∀ f ∈ r.msgstr, f.Good
  gap : ∀ c ∈ r.gap, isWs c = true

/-- what may follow a record: the end of the text, or something that is neither white-space nor a quote -/
def PoFollow (rest : List Nat) : Prop := ∀ c, rest.head? = some c → isWs c = false ∧ c ≠ 34

def PoRec.parts (r : PoRec) (st : Nat) : PoParts :=
  { e := st + r.body.length, idS := st,
    idE := st + r.ctxtText.length + 5 + (printFrags r.msgid).length,
    valS := st + r.ctxtText.length + 5 + (printFrags r.msgid).length + r.sep.length,
    msgctxt := r.ctxt.map (fun x => fragSpans (st + 7) x.1),
    msgid := fragSpans (st + r.ctxtText.length + 5) r.msgid,
    msgstr := fragSpans (st + r.ctxtText.length + 5 + (printFrags r.msgid).length + r.sep.length + 6) r.msgstr }

theorem noItem_ws_kw (w kw rest : List Nat) (hw : ∀ c ∈ w, isWs c = true) (c0 : Nat) (hkw : kw.head? = some c0)
    (h0 : isWs c0 = false ∧ c0 ≠ 34) : NoItem (w ++ (kw ++ rest)) := by
  refine ⟨w, kw ++ rest, rfl, hw, ?_⟩
  intro c hc
  cases kw with
  | nil => simp at hkw
  | cons a t => simp at hkw hc; subst hkw; subst hc; exact h0

theorem isWs_m : isWs 109 = false ∧ (109 : Nat) ≠ 34 := by decide

/-- msgid list, white-space, msgstr list -/
theorem po_tail_facts (s : Array Nat) (r : PoRec) (rest : List Nat) (hg : r.Good) (hfo : PoFollow rest) (cur : Nat)
    (hc : At s cur (kwMsgid ++ (printFrags r.msgid ++ (r.sep ++ (kwMsgstr ++ (printFrags r.msgstr ++ (r.gap ++ rest))))))) :
    poStringList s cur kwMsgid = some (fragSpans (cur + 5) r.msgid, cur + 5 + (printFrags r.msgid).length) ∧
    (matchAt s Parser_reWhitespace (cur + 5 + (printFrags r.msgid).length) =
        some ⟨cur + 5 + (printFrags r.msgid).length + r.sep.length, []⟩ ∨
      (matchAt s Parser_reWhitespace (cur + 5 + (printFrags r.msgid).length) = none ∧ r.sep.length = 0)) ∧
    poStringList s (cur + 5 + (printFrags r.msgid).length + r.sep.length) kwMsgstr =
      some (fragSpans (cur + 5 + (printFrags r.msgid).length + r.sep.length + 6) r.msgstr,
        cur + 5 + (printFrags r.msgid).length + r.sep.length + 6 + (printFrags r.msgstr).length) := by
  have hgapItem : NoItem (r.gap ++ rest) := ⟨r.gap, rest, rfl, hg.gap, hfo⟩
  have e1 := poStringList_at s cur kwMsgid r.msgid _ hg.msgid_ne hg.msgid
    (noItem_ws_kw r.sep kwMsgstr _ hg.sep 109 rfl isWs_m) hc
  have hc2 : At s (cur + 5 + (printFrags r.msgid).length) (r.sep ++ (kwMsgstr ++ (printFrags r.msgstr ++ (r.gap ++ rest)))) :=
    hc.app.app
  have e2 := ws_opt_at hc2 hg.sep (by intro c hc; simp [kwMsgstr] at hc; subst hc; decide)
  have e3 := poStringList_at s _ kwMsgstr r.msgstr _ hg.msgstr_ne hg.msgstr hgapItem hc2.app
  rw [show kwMsgid.length = 5 from rfl] at e1
  rw [show kwMsgstr.length = 6 from rfl] at e3
  exact ⟨e1, e2, e3⟩

/-- `createEntity` on a printed record body -/
theorem po_create_at (s : Array Nat) (st : Nat) (r : PoRec) (rest : List Nat) (hg : r.Good) (hfo : PoFollow rest)
    (h : At s st (r.body ++ (r.gap ++ rest))) : poCreate s st = some (r.parts st) := by
  unfold poCreate
  cases hcx : r.ctxt with
  | none =>
    have hb : At s st (kwMsgid ++ (printFrags r.msgid ++ (r.sep ++ (kwMsgstr ++ (printFrags r.msgstr ++ (r.gap ++ rest)))))) := by
      simpa [At, PoRec.body, PoRec.ctxtText, hcx] using h
    have hlen : 7 ≤ (kwMsgid ++ (printFrags r.msgid ++ (r.sep ++ (kwMsgstr ++ (printFrags r.msgstr ++ (r.gap ++ rest)))))).length := by
      simp [kwMsgid, kwMsgstr]; omega
    have e0 := poStringList_none s st kwMsgctxt _ hb hlen (by simp [kwMsgid, kwMsgctxt])
    obtain ⟨e1, e2, e3⟩ := po_tail_facts s r rest hg hfo st hb
    rcases e2 with e2 | ⟨e2, e2'⟩
    · simp only [e0, e1, e2, e3]
      simp [PoRec.parts, PoRec.body, PoRec.ctxtText, hcx, kwMsgid, kwMsgstr]
      omega
    · simp only [e2', Nat.add_zero] at e3
      simp only [e0, e1, e2, e3]
      simp [PoRec.parts, PoRec.body, PoRec.ctxtText, hcx, kwMsgid, kwMsgstr, e2']
      omega
  | some x =>
    obtain ⟨fs, w⟩ := x
    obtain ⟨g1, g2, g3⟩ := hg.ctxt fs w hcx
    have hb : At s st (kwMsgctxt ++ (printFrags fs ++ (w ++ (kwMsgid ++ (printFrags r.msgid ++ (r.sep ++ (kwMsgstr ++ (printFrags r.msgstr ++ (r.gap ++ rest))))))))) := by
      simpa [At, PoRec.body, PoRec.ctxtText, hcx] using h
    have e0 := poStringList_at s st kwMsgctxt fs _ g1 g2 (noItem_ws_kw w kwMsgid _ g3 109 rfl isWs_m) hb
    have hc1 := hb.app.app
    have e1 := ws_opt_at hc1 g3 (by intro c hc; simp [kwMsgid] at hc; subst hc; decide)
    rw [show kwMsgctxt.length = 7 from rfl] at e0 hc1 e1
    obtain ⟨f1, f2, f3⟩ := po_tail_facts s r rest hg hfo _ hc1.app
    rcases e1 with e1 | ⟨e1, e1'⟩
    · rcases f2 with f2 | ⟨f2, f2'⟩
      · simp only [e0, e1, f1, f2, f3]
        simp [PoRec.parts, PoRec.body, PoRec.ctxtText, hcx, kwMsgid, kwMsgstr, kwMsgctxt]
        and_intros <;> first | omega | (congr 1; omega)
      · simp only [f2', Nat.add_zero] at f3
        simp only [e0, e1, f1, f2, f3]
        simp [PoRec.parts, PoRec.body, PoRec.ctxtText, hcx, kwMsgid, kwMsgstr, kwMsgctxt, f2']
        and_intros <;> first | omega | (congr 1; omega)
    · simp only [e1', Nat.add_zero] at f1 f2 f3
      rcases f2 with f2 | ⟨f2, f2'⟩
      · simp only [e0, e1, f1, f2, f3]
        simp [PoRec.parts, PoRec.body, PoRec.ctxtText, hcx, kwMsgid, kwMsgstr, kwMsgctxt, e1']
        and_intros <;> first | omega | (congr 1; omega)
      · simp only [f2', Nat.add_zero] at f3
        simp only [e0, e1, f1, f2, f3]
        simp [PoRec.parts, PoRec.body, PoRec.ctxtText, hcx, kwMsgid, kwMsgstr, kwMsgctxt, e1', f2']
        and_intros <;> first | omega | (congr 1; omega)

/-! ### `getNext` on a printed record -/

/-- where the record proper starts (after the comment block and the white-space behind it) -/
def PoRec.start (off : Nat) (r : PoRec) : Nat := off + (printComment r.comment).length + r.cgap.length

def PoRec.entity (off : Nat) (r : PoRec) : Entry :=
  { kind := .entity, full := off, s := r.start off,
    e := r.start off + r.body.length,
    ks := (r.start off : Nat),
    ke := (r.start off + r.ctxtText.length + 5 + (printFrags r.msgid).length : Nat),
    vs := (r.start off + r.ctxtText.length + 5 + (printFrags r.msgid).length + r.sep.length : Nat),
    ve := (r.start off + r.body.length : Nat),
    pc := if r.comment.isEmpty then none else some (off, off + (printComment r.comment).length) }

/-- the License rule does not fire: the comment block does not start at an offset < 2, or it does not contain the word -/
def PoRec.NoLicense (off : Nat) (r : PoRec) : Prop := off < 2 → isInfix licenseWord (printComment r.comment) = false

theorem PoRec.body_cases (r : PoRec) : (∃ l, r.body = kwMsgid ++ l) ∨ (∃ l, r.body = kwMsgctxt ++ l) := by
  unfold PoRec.body PoRec.ctxtText
  cases r.ctxt with
  | none => left; exact ⟨printFrags r.msgid ++ (r.sep ++ (kwMsgstr ++ printFrags r.msgstr)), by simp⟩
  | some x =>
    right
    exact ⟨(printFrags x.1 ++ x.2) ++ (kwMsgid ++ (printFrags r.msgid ++ (r.sep ++ (kwMsgstr ++ printFrags r.msgstr)))), by simp⟩

theorem PoRec.body_head (r : PoRec) (l : List Nat) : (r.body ++ l).head? = some 109 := by
  rcases r.body_cases with ⟨x, hx⟩ | ⟨x, hx⟩ <;> rw [hx] <;> rfl

theorem PoRec.body_len (r : PoRec) : 5 ≤ r.body.length := by
  simp [PoRec.body, kwMsgid]; omega

theorem PoRec.body_ne (r : PoRec) (l : List Nat) : r.body ++ l ≠ [] := by
  have := r.body_len
  intro hh; simp at hh; rw [hh.1] at this; simp at this

theorem po_key_body (s : Array Nat) (st : Nat) (r : PoRec) (l : List Nat) (h : At s st (r.body ++ l)) :
    ∃ km, matchAt s PoParser_reKey st = some km := by
  rcases r.body_cases with ⟨x, hx⟩ | ⟨x, hx⟩
  · exact ⟨_, po_key_msgid s st (x ++ l) (by rw [hx] at h; simpa [At] using h)⟩
  · exact ⟨_, po_key_msgctxt s st (x ++ l) (by rw [hx] at h; simpa [At] using h)⟩

theorem po_entity_rec (s : Array Nat) (off : Nat) (r : PoRec) (rest : List Nat) (hg : r.Good) (hlic : r.NoLicense off)
    (hfo : PoFollow rest) (h : At s off (r.print ++ rest)) : poGetNext s off = r.entity off := by
  have h1 : At s off (printComment r.comment ++ (r.cgap ++ (r.body ++ (r.gap ++ rest)))) := by simpa [At, PoRec.print] using h
  have h2 := h1.app
  have h3 := h2.app
  have hbw : ∀ c, (r.body ++ (r.gap ++ rest)).head? = some c → isWs c = false := by
    intro c hc; rw [r.body_head] at hc; cases hc; decide
  obtain ⟨km, hkm⟩ := po_key_body s _ r _ h3
  have hcr := po_create_at s _ r rest hg hfo h3
  unfold poGetNext getNext
  by_cases hne : r.comment = []
  · have hcg := hg.cgap_nil hne
    have hcm := po_comment_none_at s off _ (by rw [hne, hcg]; simp only [printComment_nil, List.nil_append, r.body_head]; simp) h1
    have hws := ws_none_at h3 hbw
    rw [hne, hcg] at hws hkm hcr
    simp only [printComment_nil, List.length_nil, Nat.add_zero] at hws hkm hcr
    simp only [poCfg, hcm, hws, hkm, hcr]
    simp [PoRec.entity, PoRec.parts, PoRec.start, hne, hcg]
  · have hnc : (r.cgap ++ (r.body ++ (r.gap ++ rest))).head? ≠ some 35 := by
      cases hcg : r.cgap with
      | nil => simp only [List.nil_append, r.body_head]; simp
      | cons a t =>
        have := hg.cgap a (by simp [hcg])
        simp only [List.cons_append, List.head?_cons, ne_eq, Option.some.injEq]
        intro ha; subst ha; exact absurd this (by decide)
    have hcm := po_comment_at s off r.comment _ hne hg.comment hnc h1
    have hl : (off < 2 && isInfix licenseWord (commentVal CommentStyle.plain (slice s off (off + (printComment r.comment).length)))) = false := by
      rw [h1.slice]
      by_cases ho : off < 2
      · simp [commentVal, hlic ho]
      · simp [ho]
    have hemp := isEmpty_false_of_ne hne
    rcases ws_opt_at h2 hg.cgap hbw with hws | ⟨hws, hws0⟩
    · have hcnt : ¬ (countNl s (off + (printComment r.comment).length) (off + (printComment r.comment).length + r.cgap.length) > 1) := by
        rw [countNl_at h2]; have := hg.cgap_nl; omega
      simp only [poCfg, hcm, hl, hws, hkm, hcr, hcnt]
      simp [PoRec.entity, PoRec.parts, PoRec.start, hemp]
    · rw [hws0, Nat.add_zero] at hkm hcr
      simp only [poCfg, hcm, hl, hws, hkm, hcr]
      simp [PoRec.entity, PoRec.parts, PoRec.start, hemp, hws0]

theorem po_gap_entry (s : Array Nat) (p : Nat) (w rest : List Nat) (hne : w ≠ []) (hw : ∀ c ∈ w, isWs c = true)
    (hfo : PoFollow rest) (h : At s p (w ++ rest)) : poGetNext s p = wsEntryN p w.length := by
  unfold poGetNext
  apply base_ws_at_n poCfg rfl _ h hne hw (fun c hc => (hfo c hc).1)
  apply po_comment_none_at s p _ _ h
  cases w with
  | nil => exact absurd rfl hne
  | cons a t =>
    have := hw a (by simp)
    simp only [List.cons_append, List.head?_cons, ne_eq, Option.some.injEq]
    intro ha; subst ha; exact absurd this (by decide)

/-- the entries of one record: the entity, and the white-space entry for its gap -/
def PoRec.entries (off : Nat) (r : PoRec) : List Entry :=
  r.entity off :: (if r.gap.isEmpty then [] else [wsEntryN (r.start off + r.body.length) r.gap.length])

abbrev poNext (s : Array Nat) : Unit → Nat → Entry × Unit := fun _ off => (poGetNext s off, ())

theorem PoRec.print_length (r : PoRec) :
    r.print.length = (printComment r.comment).length + r.cgap.length + r.body.length + r.gap.length := by
  simp [PoRec.print]; omega

theorem po_walks_rec (s : Array Nat) (off : Nat) (r : PoRec) (rest : List Nat) (hg : r.Good) (hlic : r.NoLicense off)
    (hfo : PoFollow rest) (h : At s off (r.print ++ rest)) :
    Walks (poNext s) s.size () off (r.entries off) () (off + r.print.length) := by
  have h1 : At s off (printComment r.comment ++ (r.cgap ++ (r.body ++ (r.gap ++ rest)))) := by simpa [At, PoRec.print] using h
  have h3 := h1.app.app
  have h4 := h3.app
  have hb := r.body_len
  have hsz := h3.size_ge (r.body_ne _)
  simp only [List.length_append] at hsz
  have e1 := po_entity_rec s off r rest hg hlic hfo h
  have w1 : Walks (poNext s) s.size () off [r.entity off] () (r.entity off).e :=
    Walks.one (by omega) (by simp [PoRec.entity, PoRec.start]; omega) (by simp [poNext, e1])
  by_cases hgap : r.gap = []
  · have : r.entries off = [r.entity off] := by simp [PoRec.entries, hgap]
    rw [this, r.print_length, hgap]
    simpa [PoRec.entity, PoRec.start, Nat.add_assoc] using w1
  · have hemp := isEmpty_false_of_ne hgap
    have hpos : 0 < r.gap.length := List.length_pos_iff.mpr hgap
    have e2 := po_gap_entry s _ r.gap rest hgap hg.gap hfo h4
    have w2 : Walks (poNext s) s.size () (r.start off + r.body.length)
        [wsEntryN (r.start off + r.body.length) r.gap.length] () (r.start off + r.body.length + r.gap.length) :=
      Walks.one (by have := h4.pos_lt (by simp [hgap]); simpa [PoRec.start] using this) (by simp [wsEntryN]; omega)
        (by simp [poNext, PoRec.start, e2])
    have := w1.append w2
    simp only [PoRec.entries, hemp, Bool.false_eq_true, if_false, r.print_length]
    simpa [PoRec.start, Nat.add_assoc] using this

/-! ### what a record evaluates to -/

def evalFrags (fs : List PoFrag) : List Nat := (fs.map (fun f => poOnePass f.toks)).flatten

/-- key (msgid), context, raw value (`msgstr` + its printed fragments), value (msgstr, or msgid when msgstr is empty),
    attached comment (the whole comment block, every line with its `#` and newline) -/
def PoRec.view (r : PoRec) : Option EntView :=
  some { key := evalFrags r.msgid, ctxt := some (r.ctxt.map (fun x => evalFrags x.1)),
         raw := kwMsgstr ++ printFrags r.msgstr,
         val := some (if (evalFrags r.msgstr).isEmpty then evalFrags r.msgid else evalFrags r.msgstr),
         comment := if r.comment.isEmpty then none else some (printComment r.comment) }

theorem po_view_rec (s : Array Nat) (off : Nat) (r : PoRec) (rest : List Nat) (hg : r.Good)
    (hfo : PoFollow rest) (h : At s off (r.print ++ rest)) : entView .po s (r.entity off) = r.view := by
  have h1 : At s off (printComment r.comment ++ (r.cgap ++ (r.body ++ (r.gap ++ rest)))) := by simpa [At, PoRec.print] using h
  have h2 : At s (r.start off) (r.body ++ (r.gap ++ rest)) := h1.app.app
  have hcr := po_create_at s _ r rest hg hfo h2
  have hb : At s (r.start off) (r.ctxtText ++ (kwMsgid ++ (printFrags r.msgid ++ (r.sep ++
      (kwMsgstr ++ (printFrags r.msgstr ++ (r.gap ++ rest))))))) := by simpa [At, PoRec.body] using h2
  have hid := hb.app.app
  have hstr := hid.app.app
  have hraw : slice s (r.start off + r.ctxtText.length + 5 + (printFrags r.msgid).length + r.sep.length)
      (r.start off + r.body.length) = kwMsgstr ++ printFrags r.msgstr := by
    have h5 : At s (r.start off + r.ctxtText.length + 5 + (printFrags r.msgid).length + r.sep.length)
        ((kwMsgstr ++ printFrags r.msgstr) ++ (r.gap ++ rest)) := by simpa [At, kwMsgid] using hstr
    have := h5.slice
    rw [← this]
    congr 1
    simp [PoRec.body, kwMsgid, kwMsgstr]; omega
  have e1 := poEval_frags s r.msgid _ _ hg.msgid hid
  have e2 := poEval_frags s r.msgstr _ _ hg.msgstr hstr.app
  rw [show kwMsgid.length = 5 from rfl] at e1
  rw [show kwMsgid.length = 5 from rfl, show kwMsgstr.length = 6 from rfl] at e2
  have hsz := h2.size_ge (r.body_ne _)
  simp only [List.length_append] at hsz
  have hbl : r.body.length = r.ctxtText.length + 5 + (printFrags r.msgid).length + r.sep.length + 6 + (printFrags r.msgstr).length := by
    simp [PoRec.body, kwMsgid, kwMsgstr]; omega
  have hcm : slice s off (off + (printComment r.comment).length) = printComment r.comment := h1.slice
  have hctx : ∃ cx, (r.parts (r.start off)).msgctxt = cx ∧
      ((cx = none ∧ r.ctxt = none) ∨ ∃ fr fs w, cx = some fr ∧ r.ctxt = some (fs, w) ∧ poEval s fr = some (evalFrags fs)) := by
    cases hcx : r.ctxt with
    | none => exact ⟨none, by simp [PoRec.parts, hcx], Or.inl ⟨rfl, rfl⟩⟩
    | some x =>
      obtain ⟨fs, w⟩ := x
      obtain ⟨g1, g2, g3⟩ := hg.ctxt fs w hcx
      have hc : At s (r.start off) (kwMsgctxt ++ (printFrags fs ++ (w ++ (kwMsgid ++ (printFrags r.msgid ++ (r.sep ++
          (kwMsgstr ++ (printFrags r.msgstr ++ (r.gap ++ rest))))))))) := by simpa [At, PoRec.ctxtText, hcx] using hb
      have := poEval_frags s fs _ _ g2 hc.app
      rw [show kwMsgctxt.length = 7 from rfl] at this
      exact ⟨some (fragSpans (r.start off + 7) fs), by simp [PoRec.parts, hcx], Or.inr ⟨_, fs, w, rfl, rfl, this⟩⟩
  have hmid : (r.parts (r.start off)).msgid = fragSpans (r.start off + r.ctxtText.length + 5) r.msgid := rfl
  have hmstr : (r.parts (r.start off)).msgstr =
      fragSpans (r.start off + r.ctxtText.length + 5 + (printFrags r.msgid).length + r.sep.length + 6) r.msgstr := rfl
  have hcv : Option.map (fun x => commentVal (commentStyleOf Fmt.po) (slice s x.fst x.snd))
      (if r.comment.isEmpty = true then none else some (off, off + (printComment r.comment).length)) =
      if r.comment.isEmpty then none else some (printComment r.comment) := by
    cases hce : r.comment.isEmpty <;> simp [commentStyleOf, commentVal, hcm]
  obtain ⟨cx, hcx1, hcx2⟩ := hctx
  simp only [entView, PoRec.entity, hcr, hcx1, hmid, hmstr, e1, e2, hcv]
  rw [pySlice_nat s _ _ (by omega) (by omega), hraw]
  rcases hcx2 with ⟨rfl, hc0⟩ | ⟨fr, fs, w, rfl, hc0, hev⟩
  · simp [PoRec.view, evalFrags, hc0]
  · simp [PoRec.view, evalFrags, hc0, hev]

theorem PoRec.entity_kind (off : Nat) (r : PoRec) : (r.entity off).kind = .entity := rfl

/-! ### stand-alone comment blocks -/


/-- a comment block followed by white-space with more than one newline is a stand-alone comment (whether or not the
    License rule fires: the entry is the same) -/
theorem po_free_comment (s : Array Nat) (off : Nat) (cs : List (List Nat)) (gap rest : List Nat) (hne : cs ≠ [])
    (hc : ∀ c ∈ cs, ∀ x ∈ c, x ≠ 10) (hw : ∀ c ∈ gap, isWs c = true) (hnl : 2 ≤ (gap.filter (· == 10)).length)
    (hfo : PoFollow rest) (h : At s off (printComment cs ++ (gap ++ rest))) :
    poGetNext s off = commentEntry off (off + (printComment cs).length) := by
  have hgne : gap ≠ [] := by intro hh; rw [hh] at hnl; simp at hnl
  have hnc : (gap ++ rest).head? ≠ some 35 := by
    cases hcg : gap with
    | nil => exact absurd hcg hgne
    | cons a t =>
      have := hw a (by simp [hcg])
      simp only [List.cons_append, List.head?_cons, ne_eq, Option.some.injEq]
      intro ha; subst ha; exact absurd this (by decide)
  have hcm := po_comment_at s off cs _ hne hc hnc h
  have hws := ws_at h.app hgne hw (fun c hc => (hfo c hc).1)
  have hcnt : countNl s (off + (printComment cs).length) (off + (printComment cs).length + gap.length) > 1 := by
    rw [countNl_at h.app]; omega
  unfold poGetNext getNext
  simp only [poCfg, hcm, hws]
  by_cases hl : (decide (off < 2) && isInfix licenseWord (commentVal CommentStyle.plain (slice s off (off + (printComment cs).length)))) = true
  · simp [hl, commentEntry]
  · simp [hl, hcnt, commentEntry]

/-! ### lists of blocks -/

/-- a printed block: a record (with its attached comment), or a stand-alone comment block with the white-space behind it -/
inductive PoBlock
  | record (r : PoRec)
  | free (cs : List (List Nat)) (gap : List Nat)

def PoBlock.print : PoBlock → List Nat
  | .record r => r.print
  | .free cs gap => printComment cs ++ gap

def PoBlock.entries (off : Nat) : PoBlock → List Entry
  | .record r => r.entries off
  | .free cs gap => [commentEntry off (off + (printComment cs).length), wsEntryN (off + (printComment cs).length) gap.length]

def PoBlock.Good (off : Nat) : PoBlock → Prop
  | .record r => r.Good ∧ r.NoLicense off
  | .free cs gap => cs ≠ [] ∧ (∀ c ∈ cs, ∀ x ∈ c, x ≠ 10) ∧ (∀ c ∈ gap, isWs c = true) ∧ 2 ≤ (gap.filter (· == 10)).length

def PoBlock.views : PoBlock → List (Option EntView)
  | .record r => [r.view]
  | .free _ _ => []

def printPo (bs : List PoBlock) : List Nat := printBlocks PoBlock.print bs

def poExpEntries (bs : List PoBlock) : List Entry :=
  blockEntries PoBlock.print (fun off (_ : Unit) b => PoBlock.entries off b) (fun c _ => c) 0 () bs

def poExpViews (bs : List PoBlock) : List (Option EntView) := (bs.map PoBlock.views).flatten

def PoGood (off : Nat) (_ : Unit) (b : PoBlock) : Prop := b.Good off

theorem PoRec.print_head' (r : PoRec) (hg : r.Good) (l : List Nat) :
    (r.print ++ l).head? = some 35 ∨ (r.print ++ l).head? = some 109 := by
  unfold PoRec.print
  cases hc : r.comment with
  | nil => right; rw [hg.cgap_nil hc]; simp [r.body_head]
  | cons c cs => left; simp

theorem poFollow_block (b : PoBlock) (off : Nat) (hg : b.Good off) (l : List Nat) : PoFollow (b.print ++ l) := by
  intro c hc
  cases b with
  | record r =>
    rcases r.print_head' hg.1 l with h | h <;> (simp only [PoBlock.print] at hc; rw [h] at hc; cases hc; decide)
  | free cs gap =>
    simp only [PoBlock.print] at hc
    cases hcs : cs with
    | nil => exact absurd hcs hg.1
    | cons a t => rw [hcs] at hc; simp at hc; subst hc; decide

theorem PoBlock.print_len (b : PoBlock) (off : Nat) (hg : b.Good off) : 2 ≤ b.print.length := by
  cases b with
  | record r => have := r.body_len; simp only [PoBlock.print, r.print_length]; omega
  | free cs gap =>
    have := printComment_length_ge cs
    have : 0 < cs.length := List.length_pos_iff.mpr hg.1
    simp only [PoBlock.print, List.length_append]; omega

/-- hypotheses in list form: every record is good, every free comment is well formed, and only the FIRST block is subject
    to the License rule (all others start at an offset ≥ 2) -/
def PoBlock.Good' : PoBlock → Prop
  | .record r => r.Good
  | .free cs gap => cs ≠ [] ∧ (∀ c ∈ cs, ∀ x ∈ c, x ≠ 10) ∧ (∀ c ∈ gap, isWs c = true) ∧ 2 ≤ (gap.filter (· == 10)).length

theorem poGoodAll (bs : List PoBlock) (hg : ∀ b ∈ bs, b.Good') :
    ∀ off, (∀ r, bs.head? = some (.record r) → r.NoLicense off) →
      GoodAll PoBlock.print (fun (c : Unit) _ => c) PoGood off () bs := by
  induction bs with
  | nil => intro off _; trivial
  | cons b bs ih =>
    intro off hl
    have hb : b.Good off := by
      cases b with
      | record r => exact ⟨hg (.record r) (by simp), hl r rfl⟩
      | free cs gap => exact hg (.free cs gap) (by simp)
    refine ⟨hb, ih (fun b' hb' => hg b' (by simp [hb'])) _ ?_⟩
    intro r' _ hlt
    have := b.print_len off hb
    omega

theorem walk_po_printed (bs : List PoBlock) (hg : ∀ b ∈ bs, b.Good') (hlic : ∀ r, bs.head? = some (.record r) → r.NoLicense 0) :
    walk .po (printPo bs).toArray = .done (poExpEntries bs) ∧
      entitiesOf .po (printPo bs).toArray (poExpEntries bs) = poExpViews bs ∧
      junkOf (printPo bs).toArray (poExpEntries bs) = [] := by
  have hall := poGoodAll bs hg 0 hlic
  have hat : At (printPo bs).toArray 0 (printBlocks PoBlock.print bs ++ []) := by simp [At, printPo]
  have hfo : PoFollow [] := by intro c hc; cases hc
  constructor
  · have := (walks_blocks (poNext (printPo bs).toArray) (printPo bs).toArray PoBlock.print
      (fun off (_ : Unit) b => PoBlock.entries off b) (fun c _ => c) PoGood PoFollow
      (fun b _ off rest g h f => by
        cases b with
        | record r => exact po_walks_rec _ off r rest g.1 g.2 f h
        | free cs gap =>
          obtain ⟨g1, g2, g3, g4⟩ := g
          have h' : At (printPo bs).toArray off (printComment cs ++ (gap ++ rest)) := by simpa [At, PoBlock.print] using h
          have hgne : gap ≠ [] := by intro hh; rw [hh] at g4; simp at g4
          have hcpos := printComment_length_ge cs
          have hcs : 0 < cs.length := List.length_pos_iff.mpr g1
          have e1 := po_free_comment _ off cs gap rest g1 g2 g3 g4 f h'
          have e2 := po_gap_entry _ _ gap rest hgne g3 f h'.app
          have hp1 := h'.pos_lt (by simp [hgne])
          have hp2 := h'.app.pos_lt (by simp [hgne])
          have w1 : Walks (poNext (printPo bs).toArray) (printPo bs).toArray.size () off
              [commentEntry off (off + (printComment cs).length)] () (off + (printComment cs).length) :=
            Walks.one hp1 (by simp [commentEntry]; omega) (by simp [poNext, e1, commentEntry])
          have w2 : Walks (poNext (printPo bs).toArray) (printPo bs).toArray.size () (off + (printComment cs).length)
              [wsEntryN (off + (printComment cs).length) gap.length] () (off + (printComment cs).length + gap.length) :=
            Walks.one hp2 (by have := List.length_pos_iff.mpr hgne; simp [wsEntryN]; omega) (by simp [poNext, e2, wsEntryN])
          have := w1.append w2
          simpa [PoBlock.entries, PoBlock.print, Nat.add_assoc] using this)
      (fun b _ off rest g _ => poFollow_block b off g rest) bs () 0 [] hall hat hfo).1
    exact walk_blocks_done _ _ _ _ bs () this
  · have := (views_blocks .po (printPo bs).toArray PoBlock.print
      (fun off (_ : Unit) b => PoBlock.entries off b) (fun c _ => c) PoGood PoFollow
      PoBlock.views (fun _ => [])
      (fun b _ off rest g h f => by
        cases b with
        | record r =>
          have hv := po_view_rec _ off r rest g.1 f h
          have k1 := r.entity_kind off
          have k2 := wsEntryN_kind (r.start off + r.body.length) r.gap.length
          constructor
          · simp only [PoBlock.entries, PoBlock.views, PoRec.entries]
            rw [entitiesOf_cons_entity _ _ _ _ k1, hv]
            split
            · rfl
            · rw [entitiesOf_cons_other _ _ _ _ (by rw [k2]; decide)]; rfl
          · simp only [PoBlock.entries, PoRec.entries]
            rw [junkOf_cons_other _ _ _ (by rw [k1]; decide)]
            split
            · rfl
            · rw [junkOf_cons_other _ _ _ (by rw [k2]; decide)]; rfl
        | free cs gap =>
          constructor
          · simp only [PoBlock.entries, PoBlock.views]
            rw [entitiesOf_cons_other _ _ _ _ (by simp [commentEntry]), entitiesOf_cons_other _ _ _ _ (by simp [wsEntryN])]; rfl
          · simp only [PoBlock.entries]
            rw [junkOf_cons_other _ _ _ (by simp [commentEntry]), junkOf_cons_other _ _ _ (by simp [wsEntryN])]; rfl)
      (fun b _ off rest g _ => poFollow_block b off g rest) bs () 0 [] hall hat hfo).1
    rw [flatten_map_nil] at this
    exact this

/-! ### a concrete member of the class (non-vacuity) -/

/-- `# c⏎⏎⏎#. x⏎msgctxt "c"⏎msgid ""⏎"a\n"⏎msgstr "b"⏎` -/
def poDemo : List PoBlock :=
  [.free [[32, 99]] [10, 10],
   .record { comment := [[46, 32, 120]], cgap := [], ctxt := some ([⟨[32], [.plain 99]⟩], [10]),
             msgid := [⟨[32], []⟩, ⟨[10], [.plain 97, .esc 110]⟩], sep := [10], msgstr := [⟨[32], [.plain 98]⟩], gap := [10] }]

theorem poDemo_good : ∀ b ∈ poDemo, b.Good' := by
  intro b hb
  simp only [poDemo, List.mem_cons, List.not_mem_nil, or_false] at hb
  rcases hb with rfl | rfl
  · exact ⟨by simp, by decide, by decide, by decide⟩
  · refine { comment := by decide, cgap := by decide, cgap_nl := by decide, cgap_nil := by simp, ctxt := ?_,
             msgid_ne := by simp, msgid := ?_, sep := by decide, msgstr_ne := by simp, msgstr := ?_, gap := by decide }
    · intro fs w h
      simp only [Option.some.injEq, Prod.mk.injEq] at h
      obtain ⟨rfl, rfl⟩ := h
      refine ⟨by simp, ?_, by decide⟩
      intro f hf
      simp only [List.mem_cons, List.not_mem_nil, or_false] at hf
      subst hf
      exact ⟨by decide, by decide⟩
    · intro f hf
      simp only [List.mem_cons, List.not_mem_nil, or_false] at hf
      rcases hf with rfl | rfl <;> exact ⟨by decide, by decide⟩
    · intro f hf
      simp only [List.mem_cons, List.not_mem_nil, or_false] at hf
      subst hf
      exact ⟨by decide, by decide⟩

theorem poDemo_lic : ∀ r, poDemo.head? = some (.record r) → r.NoLicense 0 := by
  intro r h; simp [poDemo] at h

/- Generic lemmas about the regex engine: a successful match consumes at least `minLen r`
   characters and stays inside the text; `search` returns the leftmost match position. -/
import CLModel.Rx.Basic
namespace Rx

def minLen : Re → Nat
  | .lit _ | .notLit _ | .any _ | .cls _ _ => 1
  | .seq a b => minLen a + minLen b
  | .alt a b => min (minLen a) (minLen b)
  | .eps | .backref _ | .bol _ | .eol _ | .eos | .look _ _ _ => 0
  | .rep mn _ _ r => mn * minLen r
  | .group _ r => minLen r

def Good (s : Array Nat) (n : Nat) (f : St → K → Option St) : Prop :=
  ∀ st k res, f st k = some res →
    ∃ st', st.pos + n ≤ st'.pos ∧ (st.pos ≤ s.size → st'.pos ≤ s.size) ∧ k st' = some res

theorem orElse_some {α} {a : Option α} {f : Unit → Option α} {r : α}
    (h : a.orElse f = some r) : a = some r ∨ (a = none ∧ f () = some r) := by
  cases a with
  | none => right; simpa using h
  | some x => left; simpa using h

theorem loop_good (s : Array Nat) (body : St → K → Option St) (n : Nat) (g : Bool)
    (hb : Good s n body) :
    ∀ fuel mn mx, Good s (mn * n) (fun st k => loop body g fuel mn mx st k) := by
  intro fuel
  induction fuel with
  | zero => intro mn mx st k res h; simp [loop] at h
  | succ fuel ih =>
    intro mn mx st k res h
    simp only [loop] at h
    generalize hmdef : (if mx == some 0 then none else
          body st (fun st' => if st'.pos ≤ st.pos then none else
            loop body g fuel (mn - 1) (mx.map (· - 1)) st' k)) = more at h
    have hmore : ∀ res, more = some res →
        ∃ st', st.pos + mn * n ≤ st'.pos ∧ (st.pos ≤ s.size → st'.pos ≤ s.size) ∧ k st' = some res := by
      intro res hm
      rw [← hmdef] at hm
      split at hm
      · cases hm
      · obtain ⟨st1, h1, h2, h3⟩ := hb _ _ _ hm
        split at h3
        · cases h3
        · obtain ⟨st2, h4, h5, h6⟩ := ih (mn - 1) (mx.map (· - 1)) st1 k res h3
          refine ⟨st2, ?_, ?_, h6⟩
          · have : mn * n ≤ n + (mn - 1) * n := by
              cases mn with
              | zero => simp
              | succ m => simp [Nat.succ_mul, Nat.add_comm]
            omega
          · intro hl; exact h5 (h2 hl)
    split at h
    · exact hmore _ h
    · have hz : mn = 0 := by omega
      subst hz
      split at h
      · rcases orElse_some h with h' | ⟨_, h'⟩
        · exact hmore _ h'
        · exact ⟨st, by simp, fun h => h, h'⟩
      · rcases orElse_some h with h' | ⟨_, h'⟩
        · exact ⟨st, by simp, fun h => h, h'⟩
        · exact hmore _ h'

theorem getElem?_some_lt {s : Array Nat} {i c} (h : s[i]? = some c) : i < s.size := by
  have := Array.getElem?_eq_some_iff.mp h
  exact this.1

theorem m_good (s : Array Nat) : ∀ r, Good s (minLen r) (m s r) := by
  intro r
  induction r with
  | eps => intro st k res h; exact ⟨st, by simp [minLen], fun h => h, by simpa [m] using h⟩
  | lit c =>
    intro st k res h
    simp only [m] at h
    split at h
    · rename_i hc
      have hlt := getElem?_some_lt (by simpa using hc)
      exact ⟨_, by simp [minLen], by intro _; simp; omega, h⟩
    · cases h
  | notLit c =>
    intro st k res h
    simp only [m] at h
    split at h
    · rename_i d hd
      have hlt := getElem?_some_lt hd
      split at h
      · exact ⟨_, by simp [minLen], by intro _; simp; omega, h⟩
      · cases h
    · cases h
  | any da =>
    intro st k res h
    simp only [m] at h
    split at h
    · rename_i d hd
      have hlt := getElem?_some_lt hd
      split at h
      · exact ⟨_, by simp [minLen], by intro _; simp; omega, h⟩
      · cases h
    · cases h
  | cls neg items =>
    intro st k res h
    simp only [m] at h
    split at h
    · rename_i d hd
      have hlt := getElem?_some_lt hd
      split at h
      · exact ⟨_, by simp [minLen], by intro _; simp; omega, h⟩
      · cases h
    · cases h
  | seq a b iha ihb =>
    intro st k res h
    simp only [m] at h
    obtain ⟨st1, h1, h2, h3⟩ := iha _ _ _ h
    obtain ⟨st2, h4, h5, h6⟩ := ihb _ _ _ h3
    exact ⟨st2, by simp [minLen]; omega, fun hl => h5 (h2 hl), h6⟩
  | alt a b iha ihb =>
    intro st k res h
    simp only [m] at h
    rcases orElse_some h with h' | ⟨_, h'⟩
    · obtain ⟨st1, h1, h2, h3⟩ := iha _ _ _ h'
      exact ⟨st1, by simp [minLen]; omega, h2, h3⟩
    · obtain ⟨st1, h1, h2, h3⟩ := ihb _ _ _ h'
      exact ⟨st1, by simp [minLen]; omega, h2, h3⟩
  | group i r ih =>
    intro st k res h
    simp only [m] at h
    obtain ⟨st1, h1, h2, h3⟩ := ih _ _ _ h
    exact ⟨_, by simpa [minLen] using h1, by simpa using h2, h3⟩
  | backref i =>
    intro st k res h
    simp only [m] at h
    split at h
    · rename_i a b _
      split at h
      · rename_i hall
        refine ⟨_, by simp [minLen], ?_, h⟩
        intro hl
        simp only
        by_cases hn : b - a = 0
        · omega
        · have := (List.all_eq_true.mp hall) (b - a - 1) (by simp; omega)
          simp at this
          omega
      · cases h
    · cases h
  | bol ml => intro st k res h; simp only [m] at h; split at h
              · exact ⟨st, by simp [minLen], fun h => h, h⟩
              · cases h
  | eol ml => intro st k res h; simp only [m] at h; split at h
              · exact ⟨st, by simp [minLen], fun h => h, h⟩
              · cases h
  | eos => intro st k res h; simp only [m] at h; split at h
           · exact ⟨st, by simp [minLen], fun h => h, h⟩
           · cases h
  | look ahead neg r ih =>
    intro st k res h
    cases ahead with
    | true =>
      simp only [m] at h
      split at h
      · split at h
        · cases h
        · exact ⟨_, by simp [minLen], by simp, h⟩
      · split at h
        · exact ⟨st, by simp [minLen], fun h => h, h⟩
        · cases h
    | false =>
      simp only [m] at h
      split at h
      · split at h
        · cases h
        · exact ⟨st, by simp [minLen], fun h => h, h⟩
      · split at h
        · exact ⟨st, by simp [minLen], fun h => h, h⟩
        · cases h
  | rep mn mx g r ih =>
    intro st k res h
    simp only [m] at h
    have := loop_good s (m s r) (minLen r) g ih (s.size + 2 - st.pos) mn mx st k res h
    simpa [minLen] using this

theorem matchAt_span {s : Array Nat} {r : Re} {p : Nat} {st : St}
    (h : matchAt s r p = some st) (hp : p ≤ s.size) :
    p + minLen r ≤ st.pos ∧ st.pos ≤ s.size := by
  obtain ⟨st', h1, h2, h3⟩ := m_good s r ⟨p, []⟩ some st h
  simp at h3; subst h3
  exact ⟨h1, h2 hp⟩

theorem searchFrom_spec (s : Array Nat) (r : Re) :
    ∀ fuel pos q st, searchFrom s r fuel pos = some (q, st) →
      pos ≤ q ∧ q ≤ s.size ∧ matchAt s r q = some st ∧
      ∀ q', pos ≤ q' → q' < q → matchAt s r q' = none := by
  intro fuel
  induction fuel with
  | zero => intro pos q st h; simp [searchFrom] at h
  | succ fuel ih =>
    intro pos q st h
    simp only [searchFrom] at h
    split at h
    · cases h
    · rename_i hle
      split at h
      · rename_i st0 hm
        simp at h; obtain ⟨rfl, rfl⟩ := h
        exact ⟨Nat.le_refl _, by omega, hm, by intro q' h1 h2; omega⟩
      · rename_i hm
        obtain ⟨h1, h2, h3, h4⟩ := ih _ _ _ h
        refine ⟨by omega, h2, h3, ?_⟩
        intro q' hq1 hq2
        by_cases heq : q' = pos
        · subst heq; exact hm
        · exact h4 q' (by omega) hq2

theorem search_spec {s : Array Nat} {r : Re} {pos q : Nat} {st : St}
    (h : search s r pos = some (q, st)) :
    pos ≤ q ∧ q ≤ s.size ∧ matchAt s r q = some st ∧
      ∀ q', pos ≤ q' → q' < q → matchAt s r q' = none :=
  searchFrom_spec s r _ _ _ _ h

end Rx

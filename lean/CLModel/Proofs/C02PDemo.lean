/- C02 (round 4): concrete members of the document classes (non-vacuity of the whole-file theorems).  Every document has a
   garbage line directly in front of a comment whose text is itself a complete record of the format. -/
import CLModel.Proofs.C02PIni
import CLModel.Proofs.C02PPoG
import CLModel.Proofs.C02PDtd
import CLModel.Proofs.C02PInc
namespace C02P
open Rx P Gen.Pat C02X

/-! ### properties: `a=b⏎garbage⏎#x=y⏎c=d⏎junk⏎` -/

def propsGDemo : List PGBlock :=
  [⟨none, .record { comment := [], cgap := [], key := ⟨97, [], [], 61, []⟩, lines := [], last := ⟨[98], 0⟩, gap := [10] }⟩,
   ⟨some ([103, 97, 114, 98, 97, 103, 101], [10]),
    .record { comment := [(35, [120, 61, 121])], cgap := [10], key := ⟨99, [], [], 61, []⟩, lines := [], last := ⟨[100], 0⟩,
              gap := [10] }⟩]
def propsGTail : Option (List Nat × List Nat) := some ([106, 117, 110, 107], [10])

theorem pgarbage_demo1 : PGarbage [103, 97, 114, 98, 97, 103, 101] [10] :=
  ⟨⟨by simp, by decide, by decide⟩, ⟨[], rfl, by simp⟩⟩
theorem pgarbage_demo2 : PGarbage [106, 117, 110, 107] [10] :=
  ⟨⟨by simp, by decide, by decide⟩, ⟨[], rfl, by simp⟩⟩

theorem propsGDemo_good : ∀ x ∈ propsGDemo, x.Good' := by
  intro x hx
  simp only [propsGDemo, List.mem_cons, List.not_mem_nil, or_false] at hx
  rcases hx with rfl | rfl
  · refine ⟨?_, by intro g gap h; cases h⟩
    exact { comment := by simp, nobreak := by simp, cgap_nil := by simp, cgap := by simp,
            key := { k0 := by decide, kt := by simp, b1 := by simp, sep := Or.inl rfl, b2 := by simp },
            lines := by simp, last := ⟨by decide, by decide⟩, last_even := by decide, val_head := by decide,
            val_last := by decide, gap := ⟨[], rfl, by simp⟩ }
  · refine ⟨?_, by intro g gap h; cases h; exact pgarbage_demo1⟩
    exact { comment := by intro l hl; simp at hl; subst hl; exact ⟨by decide, by decide⟩,
            nobreak := by intro l hl; simp at hl; subst hl; intro c hc; revert c; decide,
            cgap_nil := by simp, cgap := fun _ => ⟨[], rfl, by simp⟩,
            key := { k0 := by decide, kt := by simp, b1 := by simp, sep := Or.inl rfl, b2 := by simp },
            lines := by simp, last := ⟨by decide, by decide⟩, last_even := by decide, val_head := by decide,
            val_last := by decide, gap := ⟨[], rfl, by simp⟩ }

theorem propsGDemo_lic : ∀ x r, propsGDemo.head? = some x → x.junk = none → x.b = .record r → r.NoLicense 0 := by
  intro x r hx _ hb _
  simp only [propsGDemo, List.head?_cons, Option.some.injEq] at hx
  subst hx
  simp only [PBlock.record.injEq] at hb
  subst hb
  decide

theorem propsGTail_ok : ∀ g gap, propsGTail = some (g, gap) → PGarbage g gap := by
  intro g gap h; simp only [propsGTail, Option.some.injEq, Prod.mk.injEq] at h
  obtain ⟨rfl, rfl⟩ := h; exact pgarbage_demo2

/-! ### ini: `; c⏎[S]⏎a=b⏎oops⏎; k=v⏎x=y⏎` -/

def iniDemo : List (GB IBlock) :=
  [⟨none, .section [(59, [32, 99])] [83] [10]⟩,
   ⟨none, .record [] [] ([97], [98]) [10]⟩,
   ⟨some ([111, 111, 112, 115], [10]), .record [(59, [32, 107, 61, 118])] [10] ([120], [121]) [10]⟩]

theorem igap_nl : IGap [10] := ⟨by decide, rfl, rfl⟩

theorem iniDemo_good : ∀ x ∈ iniDemo, x.b.Good' ∧ ∀ g gap, x.junk = some (g, gap) → IGarbage g gap := by
  intro x hx
  simp only [iniDemo, List.mem_cons, List.not_mem_nil, or_false] at hx
  rcases hx with rfl | rfl | rfl
  · refine ⟨⟨?_, by decide, igap_nl⟩, by intro g gap h; cases h⟩
    intro l hl; simp at hl; subst hl; exact ⟨by decide, by decide⟩
  · refine ⟨⟨by simp, by simp, by simp, ⟨by simp, by decide, by decide, by decide⟩, igap_nl⟩, by intro g gap h; cases h⟩
  · refine ⟨⟨?_, by simp, fun _ => ⟨[], rfl, by simp⟩, ⟨by simp, by decide, by decide, by decide⟩, igap_nl⟩, ?_⟩
    · intro l hl; simp at hl; subst hl; exact ⟨⟨by decide, by decide⟩, by intro c hc; revert c; decide⟩
    · intro g gap h; cases h
      exact ⟨by simp, by decide, by decide, by simp, by decide⟩

theorem iniDemo_lic : ∀ x, iniDemo.head? = some x → x.junk = none → x.b.NoLicense 0 := by
  intro x hx _
  simp only [iniDemo, List.head?_cons, Option.some.injEq] at hx
  subst hx; trivial

/-! ### po: `msgid "a"⏎msgstr "b"⏎⏎junk⏎#| msgid "old"⏎msgid "c"⏎msgstr "d"⏎` -/

def poGDemo : List (GB PoBlock) :=
  [⟨none, .record { comment := [], cgap := [], ctxt := none, msgid := [⟨[32], [.plain 97]⟩], sep := [10],
                    msgstr := [⟨[32], [.plain 98]⟩], gap := [10, 10] }⟩,
   ⟨some ([106, 117, 110, 107], [10]),
    .record { comment := [[124, 32, 109, 115, 103, 105, 100, 32, 34, 111, 108, 100, 34]], cgap := [], ctxt := none,
              msgid := [⟨[32], [.plain 99]⟩], sep := [10], msgstr := [⟨[32], [.plain 100]⟩], gap := [10] }⟩]

theorem poGDemo_good : ∀ x ∈ poGDemo, x.b.Good' ∧ ∀ g gap, x.junk = some (g, gap) → PoGarbage g gap := by
  intro x hx
  simp only [poGDemo, List.mem_cons, List.not_mem_nil, or_false] at hx
  have frag : ∀ (c : Nat) (hc : (PoTok.plain c).wf = true) (f : PoFrag), f ∈ [(⟨[32], [.plain c]⟩ : PoFrag)] → f.Good := by
    intro c hc f hf
    simp only [List.mem_cons, List.not_mem_nil, or_false] at hf
    subst hf
    exact ⟨by intro c' hc'; simp at hc'; subst hc'; decide, by intro t ht; simp at ht; subst ht; exact hc⟩
  rcases hx with rfl | rfl
  · refine ⟨?_, by intro g gap h; cases h⟩
    exact { comment := by simp, cgap := by simp, cgap_nl := by decide, cgap_nil := by simp,
            ctxt := (by intro fs w h; cases h), msgid_ne := by simp, msgid := frag 97 (by decide), sep := by decide,
            msgstr_ne := by simp, msgstr := frag 98 (by decide), gap := by decide }
  · refine ⟨?_, ?_⟩
    · exact { comment := by decide, cgap := by simp, cgap_nl := by decide, cgap_nil := by simp,
              ctxt := (by intro fs w h; cases h), msgid_ne := by simp, msgid := frag 99 (by decide), sep := by decide,
              msgstr_ne := by simp, msgstr := frag 100 (by decide), gap := by decide }
    · intro g gap h; cases h
      exact ⟨by simp, by decide, by decide, by simp, by decide⟩

theorem poGDemo_lic : ∀ x r, poGDemo.head? = some x → x.junk = none → x.b = .record r → r.NoLicense 0 := by
  intro x r hx _ hb _
  simp only [poGDemo, List.head?_cons, Option.some.injEq] at hx
  subst hx
  simp only [PoBlock.record.injEq] at hb
  subst hb
  decide

/-! ### dtd: BOM `<!-- c --><!ENTITY a 'b'>⏎junk⏎<!-- <!ENTITY o "v"> -->⏎<!ENTITY k "v">⏎<!ENTITY % n SYSTEM "u"> %n;⏎` -/

def du (s : List Nat) : List DUnit := s.map (fun c => ⟨false, c⟩)

def dtdDemo : List (GB DBlock) :=
  [⟨none, .entity (some (du [32, 99, 32])) [] ⟨[32], 97, [], [32], 39, [98], []⟩ [10]⟩,
   ⟨some ([106, 117, 110, 107], [10]),
    .entity (some (du [32, 60, 33, 69, 78, 84, 73, 84, 89, 32, 111, 32, 34, 118, 34, 62, 32])) [10]
      ⟨[32], 107, [], [32], 34, [118], []⟩ [10]⟩,
   ⟨none, .pe ⟨[32], [32], 110, [], [32], [32], 34, [117], [], [32], 110, [], []⟩ []⟩]

theorem dtdDemo_good : ∀ x ∈ dtdDemo, x.b.Good' ∧ ∀ g gap, x.junk = some (g, gap) → DGarbage g gap ∧ x.b.JOk := by
  intro x hx
  simp only [dtdDemo, List.mem_cons, List.not_mem_nil, or_false] at hx
  rcases hx with rfl | rfl | rfl
  · refine ⟨⟨?_, by simp, by simp, by decide, ?_, by decide⟩, by intro g gap h; cases h⟩
    · intro us hus; cases hus; decide
    · exact { w1_ne := by simp, w1 := by decide, n0 := by decide, nt := by simp, w2_ne := by simp, w2 := by decide,
              q := Or.inr rfl, value := by decide, w3 := by simp }
  · refine ⟨⟨?_, by simp, by decide, by decide, ?_, by decide⟩, ?_⟩
    · intro us hus; cases hus; decide
    · exact { w1_ne := by simp, w1 := by decide, n0 := by decide, nt := by simp, w2_ne := by simp, w2 := by decide,
              q := Or.inl rfl, value := by decide, w3 := by simp }
    · intro g gap h; cases h
      exact ⟨⟨by simp, by decide, by decide, by simp, by decide⟩, trivial⟩
  · refine ⟨⟨?_, by simp⟩, by intro g gap h; cases h⟩
    exact { w1_ne := by simp, w1 := by decide, w2_ne := by simp, w2 := by decide, n0 := by decide, nt := by simp,
            w3_ne := by simp, w3 := by decide, w4_ne := by simp, w4 := by decide, q := Or.inl rfl, url := by decide,
            w5 := by simp, w6 := by decide, m0 := by decide, mt := by simp, b := by simp }

theorem dtdDemo_lic : ∀ x, dtdDemo.head? = some x → x.junk = none → x.b.NoLicense (if true then 1 else 0) := by
  intro x hx _
  simp only [dtdDemo, List.head?_cons, Option.some.injEq] at hx
  subst hx
  intro _; decide

/-! ### inc: `#filter emptyLines⏎⏎# c⏎#define A b⏎junk⏎# #define O v⏎#define B⏎#unfilter emptyLines⏎` -/

def incDemo : List (GB NBlock) :=
  [⟨none, .instr [102, 105, 108, 116, 101, 114] 1 [101, 109, 112, 116, 121, 76, 105, 110, 101, 115] [10, 10]⟩,
   ⟨none, .define [[99]] ([65], [98]) [10]⟩,
   ⟨some ([106, 117, 110, 107], [10]), .define [[35, 100, 101, 102, 105, 110, 101, 32, 79, 32, 118]] ([66], []) [10]⟩,
   ⟨none, .instr [117, 110, 102, 105, 108, 116, 101, 114] 1 [101, 109, 112, 116, 121, 76, 105, 110, 101, 115] [10]⟩]

theorem ngap1 : NGap [10] := ⟨by simp, by decide⟩

theorem incDemo_good : NGoodAll false incDemo := by
  have ig : ∀ w, w = [102, 105, 108, 116, 101, 114] ∨ w = [117, 110, 102, 105, 108, 116, 101, 114] →
      InstrGood w 1 [101, 109, 112, 116, 121, 76, 105, 110, 101, 115] := by
    intro w hw
    rcases hw with rfl | rfl <;>
      exact ⟨by simp, by decide, by decide, by decide, by simp, by decide, by decide⟩
  unfold incDemo
  simp only [NGoodAll]
  refine ⟨?_, (by intro g gap h; cases h), ?_, (by intro g gap h; cases h), ?_, ?_, ?_, (by intro g gap h; cases h), trivial⟩
  · exact ⟨ig _ (Or.inl rfl), ⟨by simp, by decide⟩, Or.inr (by decide)⟩
  · exact ⟨by decide, ⟨by simp, by decide, by decide⟩, ngap1, Or.inl rfl⟩
  · exact ⟨by decide, ⟨by simp, by decide, by decide⟩, ngap1, Or.inl rfl⟩
  · intro g gap h; cases h
    exact ⟨by simp, by decide, ngap1⟩
  · exact ⟨ig _ (Or.inr rfl), ngap1, Or.inl rfl⟩

end C02P

/- C04, ini analogue of the clean-append re-parse: `[name]`, then printed records and newlines, parse back to
   exactly the records.  Builds on the single-record lemma `ini_entity_at` of C02. -/
import CLModel.Proofs.C04Splice
import CLModel.Proofs.C02Ini
namespace C04R
open P Rx Gen.Pat Merge Gen.Tables

/-- ini record `key=value`: non-empty key without `=` and newline that does not start with `[ ; #` or white-space;
    value without newline (backslashes, blanks at either end, `=`, `#` are all allowed) -/
structure IniSafeRec (r : PRec) : Prop where
  key_ne : r.1 ≠ []
  key : ∀ c ∈ r.1, c ≠ 10 ∧ c ≠ 61
  first : ∀ c, r.1.head? = some c → c ≠ 91 ∧ c ≠ 59 ∧ c ≠ 35 ∧ c ≠ 32 ∧ c ≠ 9 ∧ c ≠ 13
  val : ∀ c ∈ r.2, c ≠ 10

theorem iniRecAt_of_drop (s : Array Nat) (off : Nat) (r : PRec) (rest : List Nat) (hs : IniSafeRec r)
    (h : s.toList.drop off = printRec r ++ rest) : IniRecAt s off r.1.length r.2.length := by
  have g := fun i => get_of_drop s off i _ h
  have hkl : 0 < r.1.length := List.length_pos_iff.mpr hs.key_ne
  unfold printRec at g
  have hkey : ∀ j, j < r.1.length → s[off + j]? = some r.1[j]! ∧ r.1[j]! ∈ r.1 := by
    intro j hj
    rw [g j, List.append_assoc, List.getElem?_append_left hj]
    simp [hj]
  refine ⟨hkl, ?_, ?_, ?_, ?_, ?_⟩
  · obtain ⟨e, hm⟩ := hkey 0 hkl
    have hf := hs.first r.1[0]! (by rw [List.head?_eq_getElem?]; simp [hkl])
    have hk := hs.key _ hm
    exact ⟨_, by simpa using e, hf.1, hf.2.1, hf.2.2.1, hf.2.2.2.1, hf.2.2.2.2.1, hf.2.2.2.2.2, hk.1⟩
  · intro j hj
    obtain ⟨e, hm⟩ := hkey j hj
    have hk := hs.key _ hm
    exact ⟨_, e, hk.1, hk.2⟩
  · rw [g r.1.length, List.append_assoc, List.getElem?_append_right (Nat.le_refl _)]
    simp
  · intro j hj
    have hm : r.2[j] ∈ r.2 := List.getElem_mem _
    refine ⟨r.2[j], ?_, hs.val _ hm⟩
    rw [show off + r.1.length + 1 + j = off + (r.1.length + 1 + j) by omega, g, List.append_assoc,
      List.getElem?_append_right (by omega), show r.1.length + 1 + j - r.1.length = j + 1 by omega]
    simp [List.getElem?_append_left hj]
  · right
    rw [show off + r.1.length + 1 + r.2.length = off + (r.1.length + 1 + r.2.length) by omega, g, List.append_assoc,
      List.getElem?_append_right (by omega), show r.1.length + 1 + r.2.length - r.1.length = r.2.length + 1 by omega]
    simp

/-- a run of `n ≥ 1` newlines followed by the end of the text or a non-blank character is ONE white-space entry -/
theorem ini_ws_run (s : Array Nat) (a n : Nat) (rest : List Nat) (hn : 0 < n)
    (h : s.toList.drop a = nls n ++ rest) (hr : NoWsHead rest) : iniGetNext s a = wsRun a n := by
  have h0 : s[a]? = some 10 := by
    have := get_of_drop s a 0 _ h
    obtain ⟨k, rfl⟩ : ∃ k, n = k + 1 := ⟨n - 1, by omega⟩
    simpa [nls, List.replicate_succ] using this
  have hlen : n ≤ s.size - a := by
    have := congrArg List.length h
    simp [nls] at this
    omega
  have hsec : matchAt s IniParser_reSection a = none := by
    simp only [matchAt, IniParser_reSection, m_seq, m_lit]
    simp [h0]
  have hcm := ini_comment_none s a 10 h0 (by decide) (by decide)
  have hrun : runLen (inC false ws4) none (s.toList.drop a) = n := by rw [h]; exact runLen_nls n rest hr
  have hws : matchAt s Parser_reWhitespace a = some ⟨a + n, []⟩ := by
    simp only [matchAt, Parser_reWhitespace, m_rep]
    have hf : runLen (inC false ws4) none (s.toList.drop a) < s.size + 2 - a := by rw [hrun]; omega
    have := loop_greedy_total s false ws4 [] some (by intro st; simp) (s.size + 2 - a) 1 none a hf
    rw [hrun] at this
    simpa [ws4, show ¬ n < 1 by omega] using this
  unfold iniGetNext
  simp only [hsec]
  unfold getNext
  simp only [iniCfg, hcm, hws]
  simp [wsRun]

theorem ini_walk_step (s : Array Nat) (fuel off : Nat) (e : Entry) (hoff : off < s.size)
    (he : iniGetNext s off = e) :
    walkFrom (fun (_ : Unit) o => (iniGetNext s o, ())) s.size (fuel + 1) () off =
      (walkFrom (fun (_ : Unit) o => (iniGetNext s o, ())) s.size fuel () e.e).cons e := by
  rw [walkFrom]
  simp only [show ¬ off ≥ s.size by omega, if_false, he]

theorem ini_walk_end (s : Array Nat) (fuel off : Nat) (hoff : s.size ≤ off) :
    walkFrom (fun (_ : Unit) o => (iniGetNext s o, ())) s.size fuel () off = .done [] := by
  cases fuel <;> simp [walkFrom, hoff]

theorem ini_noWsHead_printGapped (gs : List (PRec × Nat)) (h : ∀ p ∈ gs, IniSafeRec p.1) : NoWsHead (printGapped gs) := by
  cases gs with
  | nil => exact noWsHead_nil
  | cons p gs' =>
    obtain ⟨r, g⟩ := p
    have hs := h (r, g) (by simp)
    have hkl : 0 < r.1.length := List.length_pos_iff.mpr hs.key_ne
    intro c hc
    have e : (printGapped ((r, g) :: gs')).head? = r.1.head? := by
      rw [List.head?_eq_getElem?, List.head?_eq_getElem?]
      simp [printGapped, printRec, List.getElem?_append_left hkl]
    rw [e] at hc
    have hf := hs.first c hc
    have hm : c ∈ r.1 := List.mem_of_mem_head? hc
    exact ⟨hf.2.2.2.1, hf.2.2.2.2.1, hf.2.2.2.2.2, (hs.key c hm).1⟩

theorem ini_entView (s : Array Nat) (off : Nat) (r : PRec) (rest : List Nat)
    (h : s.toList.drop off = printRec r ++ rest) :
    entView .ini s (iniEntity off r.1.length r.2.length) = expectedView r := by
  have hlen : (printRec r ++ rest).length = s.size - off := by rw [← h]; simp
  rw [List.length_append, printRec_length] at hlen
  have hk : slice s off (off + r.1.length) = r.1 := by
    rw [slice_take s off r.1.length _ h (by rw [List.length_append, printRec_length]; omega)]
    simp [printRec]
  have hd2 : s.toList.drop (off + r.1.length + 1) = r.2 ++ ([10] ++ rest) := by
    have := congrArg (List.drop (r.1.length + 1)) h
    rw [List.drop_drop] at this
    rw [show off + r.1.length + 1 = off + (r.1.length + 1) by omega, this]
    simp [printRec, List.drop_append]
  have hv : slice s (off + r.1.length + 1) (off + r.1.length + 1 + r.2.length) = r.2 := by
    rw [slice_take s _ r.2.length _ hd2 (by simp)]
    simp
  simp only [entView, iniEntity, expectedView]
  rw [pySlice_nat s off (off + r.1.length) (by omega) (by omega),
    pySlice_nat s (off + r.1.length + 1) (off + r.1.length + 1 + r.2.length) (by omega) (by omega), hk, hv]
  rfl

theorem ini_walk_gapped_from (s : Array Nat) :
    ∀ (gs : List (PRec × Nat)) (off fuel : Nat), s.toList.drop off = printGapped gs → (∀ p ∈ gs, IniSafeRec p.1) →
      2 * gs.length ≤ fuel →
      ∃ es, walkFrom (fun (_ : Unit) o => (iniGetNext s o, ())) s.size fuel () off = .done es ∧
        entitiesOf .ini s es = gs.map (fun p => expectedView p.1) ∧ junkOf s es = [] := by
  intro gs
  induction gs with
  | nil =>
    intro off fuel h _ _
    have hge : s.size ≤ off := by
      have h' : s.toList.drop off = [] := by simpa [printGapped] using h
      have := List.drop_eq_nil_iff.mp h'
      simpa using this
    exact ⟨[], ini_walk_end s fuel off hge, by simp [entitiesOf], by simp [junkOf]⟩
  | cons p gs ih =>
    obtain ⟨r, g⟩ := p
    intro off fuel h hsafe hfuel
    have hs : IniSafeRec r := hsafe (r, g) (by simp)
    simp only [printGapped] at h
    have hrec := iniRecAt_of_drop s off r _ hs h
    obtain ⟨f, rfl⟩ : ∃ f, fuel = f + 2 := ⟨fuel - 2, by simp at hfuel; omega⟩
    have hnlt : off + r.1.length + 1 + r.2.length < s.size := by
      have := congrArg List.length h
      simp [printRec] at this
      omega
    have hd1 : s.toList.drop (off + r.1.length + 1 + r.2.length) = nls (g + 1) ++ printGapped gs := by
      have := congrArg (List.drop (r.1.length + 1 + r.2.length)) h
      rw [List.drop_drop] at this
      rw [show off + r.1.length + 1 + r.2.length = off + (r.1.length + 1 + r.2.length) by omega, this]
      have e : printRec r = (r.1 ++ 61 :: r.2) ++ [10] := by simp [printRec]
      rw [e, List.append_assoc, List.drop_left' (by simp; omega)]
      simp [nls, List.replicate_succ]
    have hd2 : s.toList.drop (off + r.1.length + 1 + r.2.length + (g + 1)) = printGapped gs := by
      have := congrArg (List.drop (g + 1)) hd1
      rw [List.drop_drop, List.drop_left' (by simp [nls])] at this
      exact this
    have hsafe' : ∀ p ∈ gs, IniSafeRec p.1 := fun p hp => hsafe p (by simp [hp])
    have e1 : iniGetNext s off = iniEntity off r.1.length r.2.length := ini_entity_at s off _ _ hrec
    have e2 := ini_ws_run s (off + r.1.length + 1 + r.2.length) (g + 1) _ (by omega) hd1 (ini_noWsHead_printGapped gs hsafe')
    obtain ⟨es, hw, hen, hj⟩ := ih (off + r.1.length + 1 + r.2.length + (g + 1)) f hd2 hsafe' (by simp at hfuel; omega)
    refine ⟨iniEntity off r.1.length r.2.length :: wsRun (off + r.1.length + 1 + r.2.length) (g + 1) :: es, ?_, ?_, ?_⟩
    · rw [ini_walk_step s (f + 1) off _ (by omega) e1]
      rw [show (iniEntity off r.1.length r.2.length).e = off + r.1.length + 1 + r.2.length from rfl,
        ini_walk_step s f _ _ (by omega) e2]
      rw [show (wsRun (off + r.1.length + 1 + r.2.length) (g + 1)).e = off + r.1.length + 1 + r.2.length + (g + 1) from rfl, hw]
      rfl
    · have hv := ini_entView s off r _ h
      simp only [entitiesOf] at hen ⊢
      rw [List.filter_cons_of_pos (by simp [iniEntity]), List.filter_cons_of_neg (by simp [wsRun]),
        List.map_cons, hv, hen]
      rfl
    · simp only [junkOf] at hj ⊢
      rw [List.filter_cons_of_neg (by simp [iniEntity]), List.filter_cons_of_neg (by simp [wsRun]), hj]

/-- from any offset: `g0` newlines, then gapped records -/
theorem ini_walk_lead_from (s : Array Nat) (g0 : Nat) (gs : List (PRec × Nat)) (off fuel : Nat)
    (h : s.toList.drop off = nls g0 ++ printGapped gs) (hs : ∀ p ∈ gs, IniSafeRec p.1) (hfuel : 2 * gs.length + 1 ≤ fuel) :
    ∃ es, walkFrom (fun (_ : Unit) o => (iniGetNext s o, ())) s.size fuel () off = .done es ∧
      entitiesOf .ini s es = gs.map (fun p => expectedView p.1) ∧ junkOf s es = [] := by
  by_cases hg : g0 = 0
  · subst hg
    exact ini_walk_gapped_from s gs off fuel (by simpa [nls] using h) hs (by omega)
  · obtain ⟨f, rfl⟩ : ∃ f, fuel = f + 1 := ⟨fuel - 1, by omega⟩
    have e0 := ini_ws_run s off g0 (printGapped gs) (by omega) h (ini_noWsHead_printGapped gs hs)
    have hlt : off < s.size := by
      have := congrArg List.length h
      simp [nls] at this
      omega
    have hd : s.toList.drop (off + g0) = printGapped gs := by
      have := congrArg (List.drop g0) h
      rw [List.drop_drop, List.drop_left' (by simp [nls])] at this
      exact this
    obtain ⟨es, hw, hen, hj⟩ := ini_walk_gapped_from s gs (off + g0) f hd hs (by omega)
    refine ⟨wsRun off g0 :: es, ?_, ?_, ?_⟩
    · rw [ini_walk_step s f off _ hlt e0]
      rw [show (wsRun off g0).e = off + g0 from rfl, hw]
      rfl
    · simp only [entitiesOf] at hen ⊢
      rw [List.filter_cons_of_neg (by simp [wsRun]), hen]
    · simp only [junkOf] at hj ⊢
      rw [List.filter_cons_of_neg (by simp [wsRun]), hj]

/-! ### the section header -/

/-- `[name]` -/
def iniSection (name : List Nat) : List Nat := 91 :: (name ++ [93])

def sectionEntry (n : Nat) : Entry :=
  { kind := .section, full := 0, s := 0, e := n + 2, ks := (1 : Nat), ke := (n + 1 : Nat), vs := (1 : Nat), ve := (n + 1 : Nat) }

theorem ini_section_at (s : Array Nat) (name rest : List Nat) (hn : ∀ c ∈ name, c ≠ 93 ∧ c ≠ 10)
    (h : s.toList = iniSection name ++ rest) : iniGetNext s 0 = sectionEntry name.length := by
  have g : ∀ i : Nat, s[i]? = (iniSection name ++ rest)[i]? := by
    intro i
    have := get_of_drop s 0 i _ (by simpa using h)
    simpa using this
  have hsz : name.length + 2 ≤ s.size := by
    have := congrArg List.length h
    simp [iniSection] at this
    omega
  have h0 : s[0]? = some 91 := by rw [g 0]; simp [iniSection]
  have hname : ∀ j, j < name.length → ∃ c, s[1 + j]? = some c ∧ c ∈ name := by
    intro j hj
    refine ⟨name[j], ?_, List.getElem_mem _⟩
    rw [g (1 + j)]
    simp [iniSection, show 1 + j = j + 1 by omega, List.getElem?_append_left hj]
  have hclose : s[1 + name.length]? = some 93 := by
    rw [g (1 + name.length)]
    simp [iniSection, show 1 + name.length = name.length + 1 by omega]
  have hm : matchAt s IniParser_reSection 0 = some ⟨name.length + 2, [(1, 1, name.length + 1)]⟩ := by
    simp only [matchAt, IniParser_reSection, m_seq, m_group, m_rep, m_any_charStep]
    rw [m_lit]
    simp only [h0, beq_self_eq_true, if_true]
    rw [show s.size + 2 - (0 + 1) = (s.size + 1 - name.length) + name.length by omega]
    rw [loop_lazy_skip_step s (fun d => false || d != 10) [] _ name.length (s.size + 1 - name.length) (0 + 1)]
    · obtain ⟨f, hf⟩ : ∃ f, s.size + 1 - name.length = f + 1 := ⟨s.size - name.length, by omega⟩
      rw [hf]
      apply loop_lazy_stop
      rw [m_lit]
      simp only [show 0 + 1 + name.length = 1 + name.length by omega, hclose, beq_self_eq_true, if_true]
      simp
      omega
    · intro j hj
      obtain ⟨c, e, hmem⟩ := hname j hj
      have hc := hn _ hmem
      rw [show 0 + 1 + j = 1 + j by omega]
      refine ⟨⟨c, e, by simp [hc.2]⟩, ?_⟩
      rw [m_lit]
      simp [e, hc.1]
  unfold iniGetNext
  simp only [hm]
  simp [sectionEntry, spanI, St.group, capOf, IniParser_reSection_g_val]

/-- `[name]` followed by a text assembled from printed ini records and newlines parses to the section entry and exactly
    the records, without junk -/
theorem ini_walk_section_toks (name : List Nat) (t : List Tok) (hn : ∀ c ∈ name, c ≠ 93 ∧ c ≠ 10)
    (h : ∀ r ∈ recsOf t, IniSafeRec r) :
    ∃ es, walk .ini (iniSection name ++ printToks t).toArray = .done es ∧
      entitiesOf .ini (iniSection name ++ printToks t).toArray es = (recsOf t).map expectedView ∧
      junkOf (iniSection name ++ printToks t).toArray es = [] := by
  have hs : ∀ p ∈ (norm t).2, IniSafeRec p.1 := by
    intro p hp
    apply h
    rw [← norm_recs]
    exact List.mem_map.mpr ⟨p, hp, rfl⟩
  have hlen := printGapped_length (norm t).2
  have hsz : (iniSection name ++ printToks t).toArray.size = name.length + 2 + (printToks t).length := by
    simp [iniSection]; omega
  have hpl : (printToks t).length = (norm t).1 + (printGapped (norm t).2).length := by
    rw [printToks_norm t]; simp [nls]
  have e0 := ini_section_at (iniSection name ++ printToks t).toArray name (printToks t) hn (by simp)
  have hd : (iniSection name ++ printToks t).toArray.toList.drop (name.length + 2) =
      nls (norm t).1 ++ printGapped (norm t).2 := by
    rw [← printToks_norm t]
    simp only []
    rw [List.drop_left' (by simp [iniSection])]
  obtain ⟨es, hw, hen, hj⟩ := ini_walk_lead_from (iniSection name ++ printToks t).toArray (norm t).1 (norm t).2
    (name.length + 2) ((iniSection name ++ printToks t).toArray.size) hd hs (by omega)
  refine ⟨sectionEntry name.length :: es, ?_, ?_, ?_⟩
  · unfold walk
    simp only []
    rw [ini_walk_step _ _ 0 _ (by omega) e0]
    rw [show (sectionEntry name.length).e = name.length + 2 from rfl, hw]
    rfl
  · simp only [entitiesOf] at hen ⊢
    rw [List.filter_cons_of_neg (by simp [sectionEntry]), hen, ← norm_recs, List.map_map]
    rfl
  · simp only [junkOf] at hj ⊢
    rw [List.filter_cons_of_neg (by simp [sectionEntry]), hj]

end C04R

/- C06 helper lemmas (round 4): where the findings of `PropertiesChecker.check` point.
   * a `PrintfException` offset is the offset of a `%` of the value (lone `%`, first argument of the other style)
     or 0 ("Ordered argument missing");
   * every other printf / plural finding is at offset 0;
   * escape warnings point at a backslash of the raw value, encoding warnings (EntityPos) at a U+FFFD of `all`;
   * the unescaped value is never longer than the raw value. -/
import CLModel.Proofs.C06Grammar
import CLModel.Proofs.C06Verdict
import CLModel.Proofs.C06Plural
import CLModel.Proofs.C06Unesc
namespace C06Pos
open Rx PropCk

abbrev Text := List Nat

/-! ### unescaping never makes a value longer -/

theorem spec_len : ∀ (n : Nat) (l : List Nat), l.length ≤ n → (P.propsUnescapeSpec l).length ≤ l.length := by
  intro n
  induction n with
  | zero =>
    intro l hl
    have : l = [] := List.eq_nil_of_length_eq_zero (by omega)
    subst this
    simp [P.spec_nil]
  | succ n ih =>
    intro l hl
    cases l with
    | nil => simp [P.spec_nil]
    | cons c rest =>
      simp only [List.length_cons] at hl
      by_cases hc : c = 92
      · subst hc
        cases rest with
        | nil => simp [P.spec_lone]
        | cons d rest' =>
          simp only [List.length_cons] at hl
          rw [P.spec_esc]
          split
          · split
            · have := ih rest' (by omega)
              simp only [List.length_cons]; omega
            · have := ih (rest'.drop (P.takeHex 4 rest').length) (by simp; omega)
              simp only [List.length_cons, List.length_drop] at this ⊢; omega
          · split
            · have := ih (P.dropBlank rest') (by have := P.dropBlank_length rest'; omega)
              have := P.dropBlank_length rest'
              simp only [List.length_cons]; omega
            · have := ih rest' (by omega)
              simp only [List.length_cons]; omega
      · rw [P.spec_cons_ne c rest hc]
        have := ih rest (by omega)
        simp only [List.length_cons]; omega

/-- the value the checker reads is at most as long as the raw value -/
theorem unescape_len (raw v : List Nat) (h : PropCk.unescape raw = some v) : v.length ≤ raw.length := by
  rw [C06U.unescape_eq_spec] at h
  cases h
  exact spec_len raw.length raw (Nat.le_refl _)

/-! ### `PrintfException` offsets -/

theorem scanErr_pos {ts : List (Nat × ATok)} {mode : Option Bool} {msg : Text} {p : Nat}
    (h : scanErr ts mode = some (.printf msg p)) :
    (∃ a, (p, a) ∈ ts) ∧ (msg = sFoundSingle ∨ msg = sMixed) := by
  induction ts generalizing mode with
  | nil => simp [scanErr] at h
  | cons t ts ih =>
    obtain ⟨q, tok⟩ := t
    cases tok with
    | lone =>
      simp only [scanErr, Option.some.injEq, PErr.printf.injEq] at h
      obtain ⟨rfl, rfl⟩ := h
      exact ⟨⟨ATok.lone, by simp⟩, Or.inl rfl⟩
    | pct =>
      simp only [scanErr] at h
      obtain ⟨⟨a, ha⟩, hm⟩ := ih h
      exact ⟨⟨a, by simp [ha]⟩, hm⟩
    | arg num spec =>
      simp only [scanErr] at h
      split at h
      · simp only [Option.some.injEq, PErr.printf.injEq] at h
        obtain ⟨rfl, rfl⟩ := h
        exact ⟨⟨ATok.arg num spec, by simp⟩, Or.inr rfl⟩
      · obtain ⟨⟨a, ha⟩, hm⟩ := ih h
        exact ⟨⟨a, by simp [ha]⟩, hm⟩

/-- **a `PrintfException` points at a `%` of the value** (lone `%` / first argument of the other style), or it is
    the gap error, which is reported at offset 0 -/
theorem specs_error_pos (v msg : Text) (pos : Nat) (h : getPrintfSpecs v = .error (.printf msg pos)) :
    (pos < v.length ∧ v[pos]? = some 37 ∧ (msg = sFoundSingle ∨ msg = sMixed)) ∨
    (pos = 0 ∧ msg = sOrderedMissing) := by
  obtain ⟨ts, hts⟩ := atoks_total v
  rw [getPrintfSpecs_eq_spec v ts hts] at h
  have hlex := C06G.lex_of_atoks hts
  unfold specsSpec at h
  cases hs : scanErr ts none with
  | some e =>
    simp only [hs, Except.error.injEq] at h
    subst h
    obtain ⟨⟨a, ha⟩, hm⟩ := scanErr_pos hs
    obtain ⟨_, h2, h3⟩ := C06G.lex_pos hlex _ ha
    simp only [Nat.zero_add, Nat.sub_zero] at h2 h3
    exact Or.inl ⟨h2, h3, hm⟩
  | none =>
    simp only [hs] at h
    split at h
    · cases h
    · cases h
    · split at h
      · cases h
      · simp only [Except.error.injEq, PErr.printf.injEq] at h
        exact Or.inr ⟨h.2.symm, h.1.symm⟩

/-- every finding of `checkPrintf` is a printf finding at offset 0 or at a `%` of the localized value -/
theorem checkPrintf_pos (R : List Spec) (v : Text) (fs : List Finding) (h : checkPrintf R v = some fs) :
    ∀ f ∈ fs, f.cat = .printf ∧ ∃ n, f.pos = .val n ∧ (n = 0 ∨ (n < v.length ∧ v[n]? = some 37)) := by
  cases hg : getPrintfSpecs v with
  | error e =>
    cases e with
    | other => exact absurd hg (getPrintfSpecs_not_other v)
    | printf msg pos =>
      rw [checkPrintf_malformed R v msg pos hg] at h
      cases h
      intro f hf
      simp only [List.mem_singleton] at hf
      subst hf
      refine ⟨rfl, pos, rfl, ?_⟩
      rcases specs_error_pos v msg pos hg with ⟨h1, h2, _⟩ | ⟨h1, _⟩
      · exact Or.inr ⟨h1, h2⟩
      · exact Or.inl h1
  | ok L =>
    rw [checkPrintf_ok R L v hg] at h
    obtain ⟨ops, fs', _, _, hs, _, hpos, _, _⟩ := specsVerdict_opcodes R L
    rw [hs] at h
    cases h
    intro f hf
    obtain ⟨h1, h2⟩ := hpos f hf
    exact ⟨h2, 0, h1, Or.inl rfl⟩

/-! ### encoding and escape warnings -/

/-- `EntityPos` of an encoding warning: the offset of a U+FFFD in `l10nEnt.all` -/
theorem base_pos (e : Ents) : ∀ f ∈ baseCheck e, ∃ n, f.pos = .ent n ∧ e.l10nAll[n]? = some 65533 := by
  intro f hf
  simp only [baseCheck, List.mem_map] at hf
  obtain ⟨m, hm, rfl⟩ := hf
  have hsem := finditer_sem e.l10nAll.toArray _ m hm
  unfold Gen.Pat.checks_base_mochibake at hsem
  obtain ⟨hc, _⟩ := sem_lit_inv hsem
  exact ⟨m.1, rfl, by simpa using hc⟩

/-- an escape warning points at the backslash of the unknown escape in the RAW value -/
theorem esc_pos (raw : Text) : ∀ f ∈ escapeWarnings raw, ∃ n, f.pos = .val n ∧ raw[n]? = some 92 := by
  intro f hf
  simp only [escapeWarnings, List.mem_filterMap] at hf
  obtain ⟨m, hm, hfm⟩ := hf
  have hsem := finditer_sem raw.toArray _ m hm
  unfold Gen.Pat.PropertiesEntityMixin_escape at hsem
  obtain ⟨st1, h1, _⟩ := sem_seq_inv hsem
  obtain ⟨hc, _⟩ := sem_lit_inv h1
  have hc' : raw[m.1]? = some 92 := by simpa using hc
  cases hs : groupText raw.toArray m.2 Gen.Pat.PropertiesEntityMixin_escape_g_single with
  | none => simp [hs] at hfm
  | some t =>
    cases t with
    | nil => simp [hs] at hfm
    | cons c cs =>
      simp only [hs] at hfm
      by_cases hk : isKnownEscape (c :: cs) = true
      · simp [hk] at hfm
      · simp only [hk, Bool.not_false, Bool.false_eq_true, not_false_eq_true, if_true, Option.some.injEq,
          Bool.not_eq_true] at hfm
        subst hfm
        exact ⟨m.1, rfl, hc'⟩

/-! ### plural findings -/

theorem plural_pos (known : Option (List Text)) (semis : Nat) (pats lpats : List Nat) :
    ∀ f ∈ formsVerdict known semis ++ varsVerdict pats lpats, f.pos = .val 0 ∧ f.cat = .plural := by
  intro f hf
  rcases List.mem_append.mp hf with hf | hf
  · unfold formsVerdict at hf
    split at hf
    · split at hf
      · simp only [List.mem_singleton] at hf; subst hf; exact ⟨rfl, rfl⟩
      · simp at hf
    · simp at hf
  · unfold varsVerdict at hf
    split at hf
    · simp at hf
    · split at hf
      · simp only [List.mem_singleton] at hf; subst hf; exact ⟨rfl, rfl⟩
      · split at hf
        · simp only [List.mem_singleton] at hf; subst hf; exact ⟨rfl, rfl⟩
        · simp at hf

end C06Pos

/- C02 (round 4): list-based ("the text from `p` on reads `l`") regex lemmas, repeats over bodies of variable
   width, the `Walks` relation (a stretch of `Parser.walk`) and the generic theorem about printed BLOCK lists. -/
import CLModel.Proofs.C02XRx
import CLModel.Proofs.C02XGarbage
namespace C02P
open Rx P Gen.Pat C02X

/-! ### the text from a position on -/

/-- the text from position `p` on is `l` -/
abbrev At (s : Array Nat) (p : Nat) (l : List Nat) : Prop := s.toList.drop p = l

theorem At.get {s : Array Nat} {p : Nat} {l : List Nat} (h : At s p l) (i : Nat) : s[p + i]? = l[i]? :=
  get_of_drop s p i l h

theorem At.head {s : Array Nat} {p : Nat} {l : List Nat} (h : At s p l) : s[p]? = l.head? := by
  have := h.get 0
  rw [List.head?_eq_getElem?]
  simpa using this

theorem At.app {s : Array Nat} {p : Nat} {a b : List Nat} (h : At s p (a ++ b)) : At s (p + a.length) b :=
  drop_app s p a b h

theorem At.tail {s : Array Nat} {p c : Nat} {l : List Nat} (h : At s p (c :: l)) : At s (p + 1) l := by
  have : At s p ([c] ++ l) := h
  simpa using this.app

theorem At.hd {s : Array Nat} {p c : Nat} {l : List Nat} (h : At s p (c :: l)) : s[p]? = some c := by
  simpa using h.head

theorem At.left {s : Array Nat} {p : Nat} {a b : List Nat} (h : At s p (a ++ b)) (i : Nat) (hi : i < a.length) :
    s[p + i]? = some a[i] := get_app_left s p a b h i hi

theorem At.len {s : Array Nat} {p : Nat} {l : List Nat} (h : At s p l) : l.length = s.size - p := by
  rw [← h]; simp

theorem At.le {s : Array Nat} {p : Nat} {l : List Nat} (h : At s p l) (hl : l ≠ []) : p + l.length = s.size :=
  size_of_drop s p l h hl

theorem At.size_ge {s : Array Nat} {p : Nat} {l : List Nat} (h : At s p l) (hl : l ≠ []) : p + l.length ≤ s.size := by
  have := h.le hl; omega

theorem At.pos_lt {s : Array Nat} {p : Nat} {l : List Nat} (h : At s p l) (hl : l ≠ []) : p < s.size := by
  have := h.le hl
  have : 0 < l.length := List.length_pos_iff.mpr hl
  omega

theorem At.nil_size {s : Array Nat} {p : Nat} (h : At s p []) : s.size ≤ p := size_le_of_drop_nil s p h

theorem At.slice {s : Array Nat} {p : Nat} {a b : List Nat} (h : At s p (a ++ b)) : slice s p (p + a.length) = a := by
  rw [slice_take s p a.length _ h (by simp)]
  simp

/-- the text from a position inside a known stretch -/
theorem At.drop_at {s : Array Nat} {p : Nat} {x rest : List Nat} (h : At s p (x ++ rest)) (j : Nat) (hj : j ≤ x.length) :
    At s (p + j) (x.drop j ++ rest) := by
  have h' : At s p (x.take j ++ (x.drop j ++ rest)) := by
    rw [← List.append_assoc, List.take_append_drop]; exact h
  have := h'.app
  rw [List.length_take, Nat.min_eq_left hj] at this
  exact this

theorem At.cast {s : Array Nat} {p q : Nat} {l : List Nat} (h : At s p l) (e : p = q) : At s q l := e ▸ h

theorem at_zero (l : List Nat) : At l.toArray 0 l := by simp [At]

/-- `head?` of an append whose first part may be empty -/
theorem head?_app_ne {a b : List Nat} (h : a ≠ []) : (a ++ b).head? = a.head? := by
  cases a with
  | nil => exact absurd rfl h
  | cons c t => rfl

/-! ### single nodes -/

theorem lit_at {s : Array Nat} {p c : Nat} {l : List Nat} (h : At s p (c :: l)) (caps) (k : K) :
    m s (.lit c) ⟨p, caps⟩ k = k ⟨p + 1, caps⟩ := lit_ok s p c caps h.hd k

theorem lit_at_fail {s : Array Nat} {p c : Nat} {l : List Nat} (h : At s p l) (hne : l.head? ≠ some c) (caps) (k : K) :
    m s (.lit c) ⟨p, caps⟩ k = none := lit_fail s p c caps (by rw [h.head]; exact hne) k

theorem step_at {s : Array Nat} {p c : Nat} {l : List Nat} (P : Nat → Bool) (h : At s p (c :: l)) (hp : P c = true)
    (caps) (k : K) : charStep s P ⟨p, caps⟩ k = k ⟨p + 1, caps⟩ := charStep_ok s P p c caps h.hd hp k

theorem step_at_fail {s : Array Nat} {p : Nat} {l : List Nat} (P : Nat → Bool) (h : At s p l)
    (hne : ∀ c, l.head? = some c → P c = false) (caps) (k : K) : charStep s P ⟨p, caps⟩ k = none := by
  apply charStep_fail
  cases hl : l.head? with
  | none => left; rw [h.head, hl]
  | some c => right; exact ⟨c, by rw [h.head, hl], hne c hl⟩

/-- a chain of literals -/
def seqLits : List Nat → Re → Re
  | [], r => r
  | c :: cs, r => .seq (.lit c) (seqLits cs r)

theorem m_seqLits (s : Array Nat) (r : Re) : ∀ (cs : List Nat) (p : Nat) (l : List Nat) (caps) (k : K),
    At s p (cs ++ l) → m s (seqLits cs r) ⟨p, caps⟩ k = m s r ⟨p + cs.length, caps⟩ k := by
  intro cs
  induction cs with
  | nil => intro p l caps k _; rfl
  | cons c cs ih =>
    intro p l caps k h
    have h' : At s p (c :: (cs ++ l)) := h
    rw [seqLits, m_seq, lit_at h', ih (p + 1) l caps k h'.tail]
    simp only [List.length_cons]
    rw [show p + 1 + cs.length = p + (cs.length + 1) by omega]

/-! ### repeats of a one-character step, list form -/

theorem run_hyps {s : Array Nat} {p : Nat} {x rest : List Nat} (P : Nat → Bool) (h : At s p (x ++ rest))
    (hx : ∀ c ∈ x, P c = true) : ∀ j, j < x.length → ∃ c, s[p + j]? = some c ∧ P c = true :=
  fun j hj => ⟨x[j], h.left j hj, hx _ (List.getElem_mem hj)⟩

theorem stop_hyps {s : Array Nat} {p : Nat} {x rest : List Nat} (P : Nat → Bool) (h : At s p (x ++ rest))
    (hrest : ∀ c, rest.head? = some c → P c = false) :
    s[p + x.length]? = none ∨ ∃ c, s[p + x.length]? = some c ∧ P c = false := by
  have := h.app.head
  cases hr : rest.head? with
  | none => left; rw [this, hr]
  | some c => right; exact ⟨c, by rw [this, hr], hrest c hr⟩

/-- greedy repeat over exactly `x`, the continuation succeeds at its end -/
theorem greedy_at {s : Array Nat} {p : Nat} {x rest : List Nat} (P : Nat → Bool) (caps) (k : K) (r : St) (mn : Nat)
    (h : At s p (x ++ rest)) (hx : ∀ c ∈ x, P c = true) (hrest : ∀ c, rest.head? = some c → P c = false)
    (hmn : mn ≤ x.length) (hp : p ≤ s.size) (hk : k ⟨p + x.length, caps⟩ = some r) :
    loop (charStep s P) true (s.size + 2 - p) mn none ⟨p, caps⟩ k = some r := by
  have hl := h.len
  simp only [List.length_append] at hl
  exact charLoop_hit s P caps k r x.length (s.size + 2 - p) p mn (by omega) hmn (run_hyps P h hx) (stop_hyps P h hrest) hk

/-- greedy repeat over `x`, the continuation fails at every position: the repeat fails -/
theorem greedy_at_none {s : Array Nat} {p : Nat} {x rest : List Nat} (P : Nat → Bool) (caps) (k : K) (fuel : Nat)
    (h : At s p (x ++ rest)) (hx : ∀ c ∈ x, P c = true) (hrest : ∀ c, rest.head? = some c → P c = false)
    (hk : ∀ j, j ≤ x.length → k ⟨p + j, caps⟩ = none) :
    loop (charStep s P) true fuel 0 none ⟨p, caps⟩ k = none :=
  charLoop_none s P caps k x.length fuel p (run_hyps P h hx) (stop_hyps P h hrest) hk

/-- greedy repeat with a minimum that the run does not reach -/
theorem greedy_at_short {s : Array Nat} {p : Nat} {l : List Nat} (P : Nat → Bool) (caps) (k : K) (fuel mn : Nat)
    (h : At s p l) (hl : ∀ c, l.head? = some c → P c = false) (hmn : 0 < mn) :
    loop (charStep s P) true fuel mn none ⟨p, caps⟩ k = none := by
  cases fuel with
  | zero => rw [loop]
  | succ f => exact loop_body_fail_min _ _ _ _ _ _ _ (fun k' => step_at_fail P h hl caps k') hmn

theorem loop_body_fail' (body : St → K → Option St) (g : Bool) (fuel : Nat) (mx : Option Nat) (st : St) (k : K)
    (hf : 0 < fuel) (h : ∀ k', body st k' = none) : loop body g fuel 0 mx st k = k st := by
  obtain ⟨f, rfl⟩ : ∃ f, fuel = f + 1 := ⟨fuel - 1, by omega⟩
  exact loop_body_fail body g f mx st k h

/-- any repeat with a minimum that the run does not reach -/
theorem loop_at_short {s : Array Nat} {p : Nat} {l : List Nat} (P : Nat → Bool) (g : Bool) (caps) (k : K) (fuel mn : Nat)
    (h : At s p l) (hl : ∀ c, l.head? = some c → P c = false) (hmn : 0 < mn) :
    loop (charStep s P) g fuel mn none ⟨p, caps⟩ k = none := by
  cases fuel with
  | zero => rw [loop]
  | succ f => exact loop_body_fail_min _ _ _ _ _ _ _ (fun k' => step_at_fail P h hl caps k') hmn

/-- lazy repeat: skips `x` (the continuation fails before its end), stops where the continuation succeeds -/
theorem lazy_at {s : Array Nat} {p : Nat} {x rest : List Nat} (P : Nat → Bool) (caps) (k : K) (r : St)
    (h : At s p (x ++ rest)) (hx : ∀ c ∈ x, P c = true)
    (hk0 : ∀ j, j < x.length → k ⟨p + j, caps⟩ = none) (hp : p ≤ s.size) (hk : k ⟨p + x.length, caps⟩ = some r) :
    loop (charStep s P) false (s.size + 2 - p) 0 none ⟨p, caps⟩ k = some r := by
  have hl := h.len
  simp only [List.length_append] at hl
  rw [show s.size + 2 - p = (s.size + 1 - p - x.length + 1) + x.length by omega,
    loop_lazy_skip_step s P caps k x.length _ p (fun j hj => ⟨run_hyps P h hx j hj, hk0 j hj⟩)]
  exact loop_lazy_stop _ _ _ _ _ hk

/-- lazy repeat: the continuation fails at every position of the run: the repeat fails -/
theorem lazy_at_none {s : Array Nat} {p : Nat} {x rest : List Nat} (P : Nat → Bool) (caps) (k : K) (fuel : Nat)
    (h : At s p (x ++ rest)) (hx : ∀ c ∈ x, P c = true) (hrest : ∀ c, rest.head? = some c → P c = false)
    (hk : ∀ j, j ≤ x.length → k ⟨p + j, caps⟩ = none) :
    loop (charStep s P) false fuel 0 none ⟨p, caps⟩ k = none :=
  charLoop_lazy_none s P caps k x.length fuel p (run_hyps P h hx) (stop_hyps P h hrest) hk

/-- lazy repeat over exactly `x`: whatever the continuation does at the end of the run is the result -/
theorem lazy_at_exact {s : Array Nat} {p : Nat} {x rest : List Nat} (P : Nat → Bool) (caps) (k : K)
    (h : At s p (x ++ rest)) (hx : ∀ c ∈ x, P c = true) (hrest : ∀ c, rest.head? = some c → P c = false)
    (hk0 : ∀ j, j < x.length → k ⟨p + j, caps⟩ = none) (hp : p ≤ s.size) :
    loop (charStep s P) false (s.size + 2 - p) 0 none ⟨p, caps⟩ k = k ⟨p + x.length, caps⟩ := by
  cases hk : k ⟨p + x.length, caps⟩ with
  | some r => exact lazy_at P caps k r h hx hk0 hp hk
  | none =>
    apply lazy_at_none P caps k _ h hx hrest
    intro j hj
    by_cases hjl : j < x.length
    · exact hk0 j hjl
    · have : j = x.length := by omega
      subst this; exact hk

/-- greedy repeat over exactly `x` in front of a continuation that is only tried at the end of the run (it cannot fail
    there in a way that matters: the result is what it returns, provided it fails at all shorter runs) -/
theorem greedy_at_exact {s : Array Nat} {p : Nat} {x rest : List Nat} (P : Nat → Bool) (caps) (k : K)
    (h : At s p (x ++ rest)) (hx : ∀ c ∈ x, P c = true) (hrest : ∀ c, rest.head? = some c → P c = false)
    (hk0 : ∀ j, j < x.length → k ⟨p + j, caps⟩ = none) (hp : p ≤ s.size) :
    loop (charStep s P) true (s.size + 2 - p) 0 none ⟨p, caps⟩ k = k ⟨p + x.length, caps⟩ := by
  cases hk : k ⟨p + x.length, caps⟩ with
  | some r => exact greedy_at P caps k r 0 h hx hrest (by omega) hp hk
  | none =>
    apply greedy_at_none P caps k _ h hx hrest
    intro j hj
    by_cases hjl : j < x.length
    · exact hk0 j hjl
    · have : j = x.length := by omega
      subst this; exact hk

/-! ### white-space -/

/-- `[ \t\r\n]` -/
def isWs (c : Nat) : Bool := c == 32 || c == 9 || c == 13 || c == 10

theorem inC_ws (c : Nat) : inC false [.ch 32, .ch 9, .ch 13, .ch 10] c = isWs c := by
  simp [inC, ClsItem.has, isWs, Bool.or_assoc]

theorem isWs_false {c : Nat} (h : isWs c = false) : c ≠ 32 ∧ c ≠ 9 ∧ c ≠ 13 ∧ c ≠ 10 := by
  simp [isWs] at h; exact ⟨h.1.1.1, h.1.1.2, h.1.2, h.2⟩

/-- a white-space entry of `n` characters -/
def wsEntryN (p n : Nat) : Entry :=
  { kind := .whitespace, full := p, s := p, e := p + n, ks := (p : Nat), ke := (p + n : Nat), vs := (p : Nat), ve := (p + n : Nat) }

def commentEntry (a b : Nat) : Entry := { kind := .comment, full := a, s := a, e := b }

/-- `reWhitespace` on a non-empty white-space stretch -/
theorem ws_at {s : Array Nat} {p : Nat} {w rest : List Nat} (h : At s p (w ++ rest)) (hne : w ≠ [])
    (hw : ∀ c ∈ w, isWs c = true) (hr : ∀ c, rest.head? = some c → isWs c = false) :
    matchAt s Parser_reWhitespace p = some ⟨p + w.length, []⟩ := by
  have hp : p < s.size := h.pos_lt (by simp [hne])
  simp only [matchAt, Parser_reWhitespace, m_rep, m_cls_charStep]
  exact greedy_at _ [] some _ 1 h (fun c hc => by rw [inC_ws]; exact hw c hc) (fun c hc => by rw [inC_ws]; exact hr c hc)
    (by have := List.length_pos_iff.mpr hne; omega) (by omega) rfl

/-- no white-space here -/
theorem ws_none_at {s : Array Nat} {p : Nat} {l : List Nat} (h : At s p l) (hr : ∀ c, l.head? = some c → isWs c = false) :
    matchAt s Parser_reWhitespace p = none := by
  simp only [matchAt, Parser_reWhitespace, m_rep, m_cls_charStep]
  exact greedy_at_short _ [] some _ 1 h (fun c hc => by rw [inC_ws]; exact hr c hc) (by omega)

/-- `m = reWhitespace.match(...); if m: cursor = m.end()` on a possibly empty white-space stretch -/
theorem ws_opt_at {s : Array Nat} {p : Nat} {w rest : List Nat} (h : At s p (w ++ rest))
    (hw : ∀ c ∈ w, isWs c = true) (hr : ∀ c, rest.head? = some c → isWs c = false) :
    matchAt s Parser_reWhitespace p = some ⟨p + w.length, []⟩ ∨ (matchAt s Parser_reWhitespace p = none ∧ w.length = 0) := by
  by_cases hne : w = []
  · subst hne
    right
    exact ⟨ws_none_at h (by simpa using hr), rfl⟩
  · left; exact ws_at h hne hw hr

/-- the base `getNext` on a white-space stretch where no comment starts: one white-space entry -/
theorem base_ws_at_n (c : BaseCfg) (hws : c.reWhitespace = Parser_reWhitespace) {s : Array Nat} {p : Nat} {w rest : List Nat}
    (hcm : matchAt s c.reComment p = none) (h : At s p (w ++ rest)) (hne : w ≠ [])
    (hw : ∀ c ∈ w, isWs c = true) (hr : ∀ c, rest.head? = some c → isWs c = false) :
    getNext c s p = wsEntryN p w.length := by
  unfold getNext
  simp only [hcm, hws, ws_at h hne hw hr]
  simp [wsEntryN]

theorem countNl_at {s : Array Nat} {p : Nat} {w rest : List Nat} (h : At s p (w ++ rest)) :
    countNl s p (p + w.length) = (w.filter (· == 10)).length := by
  unfold countNl
  rw [h.slice]

theorem isEmpty_false_of_ne {α} {l : List α} (h : l ≠ []) : l.isEmpty = false := by
  cases l with
  | nil => exact absurd rfl h
  | cons _ _ => rfl

/-! ### greedy repeat over a body of variable width -/

/-- the body steps over the stretches `lens` one after the other (each non-empty), cannot match after the last one, and the
    continuation succeeds there -/
theorem greedy_steps (body : St → K → Option St) (caps) (k : K) (r : St) :
    ∀ (lens : List Nat) (fuel pos : Nat), lens.length < fuel → (∀ n ∈ lens, 0 < n) →
      (∀ i, i < lens.length → ∀ k', body ⟨pos + (lens.take i).sum, caps⟩ k' = k' ⟨pos + (lens.take (i + 1)).sum, caps⟩) →
      (∀ k', body ⟨pos + lens.sum, caps⟩ k' = none) →
      k ⟨pos + lens.sum, caps⟩ = some r →
      loop body true fuel 0 none ⟨pos, caps⟩ k = some r := by
  intro lens
  induction lens with
  | nil =>
    intro fuel pos hf _ _ hfail hk
    obtain ⟨f, rfl⟩ : ∃ f, fuel = f + 1 := ⟨fuel - 1, by simp at hf; omega⟩
    rw [loop_body_fail body true f none ⟨pos, caps⟩ k (by simpa using hfail)]
    simpa using hk
  | cons n lens ih =>
    intro fuel pos hf hpos hstep hfail hk
    obtain ⟨f, rfl⟩ : ∃ f, fuel = f + 1 := ⟨fuel - 1, by simp at hf; omega⟩
    have hn : 0 < n := hpos n (by simp)
    have h0 := hstep 0 (by simp)
    simp only [List.take_zero, List.sum_nil, Nat.add_zero, Nat.zero_add, List.take_succ_cons, List.sum_cons] at h0
    have ihh := ih f (pos + n) (by simp at hf; omega) (fun n' hn' => hpos n' (by simp [hn']))
      (fun i hi k' => by
        have := hstep (i + 1) (by simp; omega) k'
        simp only [List.take_succ_cons, List.sum_cons] at this
        rw [show pos + n + (lens.take i).sum = pos + (n + (lens.take i).sum) by omega,
          show pos + n + (lens.take (i + 1)).sum = pos + (n + (lens.take (i + 1)).sum) by omega]
        exact this)
      (fun k' => by
        have := hfail k'
        simp only [List.sum_cons] at this
        rw [show pos + n + lens.sum = pos + (n + lens.sum) by omega]; exact this)
      (by simp only [List.sum_cons] at hk; rw [show pos + n + lens.sum = pos + (n + lens.sum) by omega]; exact hk)
    rw [loop]
    simp only [h0, show ¬ (pos + n ≤ pos) by omega, if_false, show ((none : Option Nat) == some 0) = false from rfl,
      Bool.false_eq_true, Option.map_none, Nat.zero_sub, ihh]
    simp

/-! ### stretches of a walk -/

/-- `Walks next size c off es c' off'`: starting at offset `off` with context `c`, the loop of `Parser.walk` yields the
    entries `es` one after the other (each strictly advancing) and arrives at offset `off'` with context `c'` -/
inductive Walks {σ : Type} (next : σ → Nat → Entry × σ) (size : Nat) : σ → Nat → List Entry → σ → Nat → Prop
  | nil (c : σ) (off : Nat) : Walks next size c off [] c off
  | cons {c c' c'' : σ} {off off'' : Nat} {e : Entry} {es : List Entry} :
      off < size → off < e.e → next c off = (e, c') → Walks next size c' e.e es c'' off'' →
      Walks next size c off (e :: es) c'' off''

theorem Walks.one {σ : Type} {next : σ → Nat → Entry × σ} {size : Nat} {c c' : σ} {off : Nat} {e : Entry}
    (h1 : off < size) (h2 : off < e.e) (h3 : next c off = (e, c')) : Walks next size c off [e] c' e.e :=
  .cons h1 h2 h3 (.nil _ _)

theorem Walks.append {σ : Type} {next : σ → Nat → Entry × σ} {size : Nat} {c c' c'' : σ} {off off' off'' : Nat}
    {es es' : List Entry} (h : Walks next size c off es c' off') (h' : Walks next size c' off' es' c'' off'') :
    Walks next size c off (es ++ es') c'' off'' := by
  induction h with
  | nil => exact h'
  | cons a b d _ ih => exact .cons a b d (ih h')

theorem Walks.length_le {σ : Type} {next : σ → Nat → Entry × σ} {size : Nat} {c c' : σ} {off off' : Nat}
    {es : List Entry} (h : Walks next size c off es c' off') : off + es.length ≤ off' ∧ (es ≠ [] → off' ≤ off' ) := by
  induction h with
  | nil => simp
  | cons a b d _ ih => simp only [List.length_cons]; exact ⟨by omega, fun _ => Nat.le_refl _⟩

theorem Walks.run {σ : Type} {next : σ → Nat → Entry × σ} {size : Nat} {c c' : σ} {off off' : Nat}
    {es : List Entry} (h : Walks next size c off es c' off') :
    ∀ fuel, walkFrom next size (fuel + es.length) c off = prepend es (walkFrom next size fuel c' off') := by
  induction h with
  | nil => intro fuel; rfl
  | cons a b d _ ih =>
    intro fuel
    simp only [List.length_cons]
    rw [← Nat.add_assoc, walk_step _ _ _ _ _ _ _ a d, ih fuel]
    rfl

/-- a stretch that reaches the end of the text is the whole rest of the walk -/
theorem Walks.done {σ : Type} {next : σ → Nat → Entry × σ} {size : Nat} {c c' : σ} {off off' : Nat}
    {es : List Entry} (h : Walks next size c off es c' off') (hend : size ≤ off') (fuel : Nat) (hf : es.length ≤ fuel) :
    walkFrom next size fuel c off = .done es := by
  obtain ⟨f, rfl⟩ : ∃ f, fuel = f + es.length := ⟨fuel - es.length, by omega⟩
  rw [h.run f, walk_end _ _ _ _ _ hend, prepend_done]
  simp

/-! ### printed block lists -/

section Blocks
variable {σ β : Type}

/-- the text of a block list -/
def printBlocks (pr : β → List Nat) (bs : List β) : List Nat := (bs.map pr).flatten

/-- the entries of a block list printed at `off`, walked with context `c` -/
def blockEntries (pr : β → List Nat) (en : Nat → σ → β → List Entry) (tr : σ → β → σ) : Nat → σ → List β → List Entry
  | _, _, [] => []
  | off, c, b :: bs => en off c b ++ blockEntries pr en tr (off + (pr b).length) (tr c b) bs

def blockCtx (tr : σ → β → σ) : σ → List β → σ
  | c, [] => c
  | c, b :: bs => blockCtx tr (tr c b) bs

/-- every block is good at the offset and in the context where it is printed -/
def GoodAll (pr : β → List Nat) (tr : σ → β → σ) (Good : Nat → σ → β → Prop) : Nat → σ → List β → Prop
  | _, _, [] => True
  | off, c, b :: bs => Good off c b ∧ GoodAll pr tr Good (off + (pr b).length) (tr c b) bs

@[simp] theorem printBlocks_nil (pr : β → List Nat) : printBlocks pr [] = [] := rfl
@[simp] theorem printBlocks_cons (pr : β → List Nat) (b : β) (bs : List β) :
    printBlocks pr (b :: bs) = pr b ++ printBlocks pr bs := by simp [printBlocks]

/-- THE GENERIC LIST THEOREM: if every good block, printed anywhere in front of a text that satisfies `Follow`, is walked
    to exactly its entries, and the text of a good block itself satisfies `Follow`, then a list of good blocks is walked
    to the concatenation of the blocks' entries. -/
theorem walks_blocks (next : σ → Nat → Entry × σ) (s : Array Nat) (pr : β → List Nat)
    (en : Nat → σ → β → List Entry) (tr : σ → β → σ) (Good : Nat → σ → β → Prop) (Follow : List Nat → Prop)
    (hb : ∀ b c off rest, Good off c b → At s off (pr b ++ rest) → Follow rest →
      Walks next s.size c off (en off c b) (tr c b) (off + (pr b).length))
    (hf : ∀ b c off rest, Good off c b → Follow rest → Follow (pr b ++ rest)) :
    ∀ (bs : List β) (c : σ) (off : Nat) (rest : List Nat), GoodAll pr tr Good off c bs →
      At s off (printBlocks pr bs ++ rest) → Follow rest →
      Walks next s.size c off (blockEntries pr en tr off c bs) (blockCtx tr c bs) (off + (printBlocks pr bs).length) ∧
        Follow (printBlocks pr bs ++ rest) := by
  intro bs
  induction bs with
  | nil => intro c off rest _ _ hfo; exact ⟨by simpa [blockEntries, blockCtx] using Walks.nil _ _, by simpa using hfo⟩
  | cons b bs ih =>
    intro c off rest hg h hfo
    have h' : At s off (pr b ++ (printBlocks pr bs ++ rest)) := by simpa [At] using h
    obtain ⟨w2, f2⟩ := ih (tr c b) (off + (pr b).length) rest hg.2 h'.app hfo
    have w1 := hb b c off _ hg.1 h' f2
    refine ⟨?_, ?_⟩
    · simp only [blockEntries, blockCtx, printBlocks_cons, List.length_append]
      rw [← Nat.add_assoc]
      exact w1.append w2
    · have := hf b c off _ hg.1 f2
      simpa using this

/-- the same with an invariant about the text BEFORE the block (e.g. "at the start of a line", needed by `^` in the comment
    regexes of ini and inc): every good block preserves it -/
theorem walks_blocks_inv (next : σ → Nat → Entry × σ) (s : Array Nat) (pr : β → List Nat)
    (en : Nat → σ → β → List Entry) (tr : σ → β → σ) (Good : Nat → σ → β → Prop) (Follow : List Nat → Prop)
    (Inv : Nat → Prop)
    (hb : ∀ b c off rest, Good off c b → At s off (pr b ++ rest) → Follow rest → Inv off →
      Walks next s.size c off (en off c b) (tr c b) (off + (pr b).length) ∧ Inv (off + (pr b).length))
    (hf : ∀ b c off rest, Good off c b → Follow rest → Follow (pr b ++ rest)) :
    ∀ (bs : List β) (c : σ) (off : Nat) (rest : List Nat), GoodAll pr tr Good off c bs →
      At s off (printBlocks pr bs ++ rest) → Follow rest → Inv off →
      Walks next s.size c off (blockEntries pr en tr off c bs) (blockCtx tr c bs) (off + (printBlocks pr bs).length) ∧
        Follow (printBlocks pr bs ++ rest) ∧ Inv (off + (printBlocks pr bs).length) := by
  intro bs
  induction bs with
  | nil =>
    intro c off rest _ _ hfo hi
    exact ⟨by simpa [blockEntries, blockCtx] using Walks.nil _ _, by simpa using hfo, by simpa using hi⟩
  | cons b bs ih =>
    intro c off rest hg h hfo hi
    have h' : At s off (pr b ++ (printBlocks pr bs ++ rest)) := by simpa [At] using h
    -- `Follow` of what comes after does not need the invariant
    have f2 : Follow (printBlocks pr bs ++ rest) := by
      clear ih
      have : ∀ (bs : List β) c off, GoodAll pr tr Good off c bs → Follow (printBlocks pr bs ++ rest) := by
        intro bs
        induction bs with
        | nil => intro _ _ _; simpa using hfo
        | cons b' bs' ih' =>
          intro c' off' hg'
          have := hf b' c' off' _ hg'.1 (ih' _ _ hg'.2)
          simpa using this
      exact this bs _ _ hg.2
    obtain ⟨w1, i1⟩ := hb b c off _ hg.1 h' f2 hi
    obtain ⟨w2, _, i2⟩ := ih (tr c b) (off + (pr b).length) rest hg.2 h'.app hfo i1
    refine ⟨?_, ?_, ?_⟩
    · simp only [blockEntries, blockCtx, printBlocks_cons, List.length_append]
      rw [← Nat.add_assoc]
      exact w1.append w2
    · have := hf b c off _ hg.1 f2
      simpa using this
    · simp only [printBlocks_cons, List.length_append]
      rw [← Nat.add_assoc]
      exact i2

theorem entitiesOf_append (f : Fmt) (s : Array Nat) (a b : List Entry) :
    entitiesOf f s (a ++ b) = entitiesOf f s a ++ entitiesOf f s b := by simp [entitiesOf]

theorem junkOf_append (s : Array Nat) (a b : List Entry) : junkOf s (a ++ b) = junkOf s a ++ junkOf s b := by
  simp [junkOf]

@[simp] theorem entitiesOf_nil (f : Fmt) (s : Array Nat) : entitiesOf f s [] = [] := rfl
@[simp] theorem junkOf_nil (s : Array Nat) : junkOf s [] = [] := rfl

theorem entitiesOf_cons_entity (f : Fmt) (s : Array Nat) (e : Entry) (es : List Entry) (h : e.kind = .entity) :
    entitiesOf f s (e :: es) = entView f s e :: entitiesOf f s es := by
  simp [entitiesOf, List.filter_cons, h]

theorem entitiesOf_cons_other (f : Fmt) (s : Array Nat) (e : Entry) (es : List Entry) (h : e.kind ≠ .entity) :
    entitiesOf f s (e :: es) = entitiesOf f s es := by
  simp [entitiesOf, List.filter_cons, h]

theorem junkOf_cons_junk (s : Array Nat) (e : Entry) (es : List Entry) (h : e.kind = .junk) :
    junkOf s (e :: es) = slice s e.s e.e :: junkOf s es := by
  simp [junkOf, List.filter_cons, h]

theorem junkOf_cons_other (s : Array Nat) (e : Entry) (es : List Entry) (h : e.kind ≠ .junk) :
    junkOf s (e :: es) = junkOf s es := by
  simp [junkOf, List.filter_cons, h]

theorem flatten_map_singleton {α γ : Type} (g : α → γ) (l : List α) : (l.map (fun a => [g a])).flatten = l.map g := by
  induction l with
  | nil => rfl
  | cons a l ih => simp [ih]

theorem flatten_map_nil {α γ : Type} (l : List α) : (l.map (fun _ => ([] : List γ))).flatten = [] := by
  induction l with
  | nil => rfl
  | cons a l ih => simp [ih]

theorem wsEntryN_kind (p n : Nat) : (wsEntryN p n).kind = .whitespace := rfl

/-- views of a block list from the views of the blocks -/
theorem views_blocks (f : Fmt) (s : Array Nat) (pr : β → List Nat)
    (en : Nat → σ → β → List Entry) (tr : σ → β → σ) (Good : Nat → σ → β → Prop) (Follow : List Nat → Prop)
    (vw : β → List (Option EntView)) (jk : β → List (List Nat))
    (hv : ∀ b c off rest, Good off c b → At s off (pr b ++ rest) → Follow rest →
      entitiesOf f s (en off c b) = vw b ∧ junkOf s (en off c b) = jk b)
    (hf : ∀ b c off rest, Good off c b → Follow rest → Follow (pr b ++ rest)) :
    ∀ (bs : List β) (c : σ) (off : Nat) (rest : List Nat), GoodAll pr tr Good off c bs →
      At s off (printBlocks pr bs ++ rest) → Follow rest →
      (entitiesOf f s (blockEntries pr en tr off c bs) = (bs.map vw).flatten ∧
        junkOf s (blockEntries pr en tr off c bs) = (bs.map jk).flatten) ∧ Follow (printBlocks pr bs ++ rest) := by
  intro bs
  induction bs with
  | nil => intro c off rest _ _ hfo; exact ⟨by simp [blockEntries, entitiesOf, junkOf], by simpa using hfo⟩
  | cons b bs ih =>
    intro c off rest hg h hfo
    have h' : At s off (pr b ++ (printBlocks pr bs ++ rest)) := by simpa [At] using h
    obtain ⟨⟨i1, i2⟩, f2⟩ := ih (tr c b) (off + (pr b).length) rest hg.2 h'.app hfo
    obtain ⟨v1, v2⟩ := hv b c off _ hg.1 h' f2
    refine ⟨?_, by simpa using hf b c off _ hg.1 f2⟩
    simp only [blockEntries, entitiesOf_append, junkOf_append, List.map_cons, List.flatten_cons, i1, i2, v1, v2]
    exact ⟨trivial, trivial⟩

/-- the whole walk of a printed block list -/
theorem walk_blocks_done (next : σ → Nat → Entry × σ) (pr : β → List Nat)
    (en : Nat → σ → β → List Entry) (tr : σ → β → σ) (bs : List β) (c0 : σ)
    (h : Walks next (printBlocks pr bs).toArray.size c0 0 (blockEntries pr en tr 0 c0 bs) (blockCtx tr c0 bs)
      (0 + (printBlocks pr bs).length)) :
    walkFrom next (printBlocks pr bs).toArray.size ((printBlocks pr bs).toArray.size + 1) c0 0 =
      .done (blockEntries pr en tr 0 c0 bs) := by
  apply h.done (by simp)
  have := h.length_le.1
  simp at this ⊢
  omega

end Blocks

end C02P

import CLModel.Proofs.C09PSpec
namespace C09P
open AndroidP

theorem wrapTarget_none_iff (children : List DNode) : wrapTarget children = none ↔ children = [] := by
  unfold wrapTarget
  cases children with
  | nil => simp [firstCdataIdx]
  | cons c cs =>
    simp only [List.length_cons]
    split
    · simp
    · cases firstCdataIdx (c :: cs) 0 <;> simp

theorem wrap_unbound_iff (pre inner : Option Lit) (name : List Nat) (attrs : List (List Nat × List Nat))
    (children : List DNode) (a k r v raw : List Nat) :
    (Entry.entity pre inner (.element name attrs children) a k r v).wrap raw = .error .unbound ↔ children = [] := by
  rw [← wrapTarget_none_iff]
  cases h : wrapTarget children with
  | none => simp [Entry.wrap, h]
  | some i =>
    simp only [Entry.wrap, h]
    cases (DNode.element name attrs (List.mapIdx (fun j c => if (j == i) = true then setData raw c else c) children)).toxml? <;> simp

theorem wrap_single_text (pre inner : Option Lit) (name : List Nat) (attrs : List (List Nat × List Nat))
    (d a k r v raw : List Nat) :
    (Entry.entity pre inner (.element name attrs [.text d]) a k r v).wrap raw =
      .ok (k, raw, optAll pre ++ optAll inner ++ (DNode.element name attrs [.text raw]).toxml) := by
  simp [Entry.wrap, wrapTarget, setData, DNode.toxml?, DNode.printable, printableList]

theorem wrap_single_element_ignored (pre inner : Option Lit) (name : List Nat) (attrs : List (List Nat × List Nat))
    (n2 : List Nat) (as2 : List (List Nat × List Nat)) (cs2 : List DNode) (a k r v raw : List Nat)
    (hp : printableList cs2 = true) :
    (Entry.entity pre inner (.element name attrs [.element n2 as2 cs2]) a k r v).wrap raw =
      .ok (k, raw, optAll pre ++ optAll inner ++ (DNode.element name attrs [.element n2 as2 cs2]).toxml) := by
  simp [Entry.wrap, wrapTarget, setData, DNode.toxml?, DNode.printable, printableList, hp]

end C09P

/- `finditer` of a pattern whose matches are never empty is a plain left-to-right scan (generic engine lemma). -/
import CLModel.Rx.Basic
import CLModel.Proofs.RxSearch
namespace C12S
open Rx

/-- left-to-right scan: the first match at or after `pos`, then on from its end (every match is non-empty) -/
def scanPos (s : Array Nat) (r : Re) : Nat → Nat → List (Nat × St)
  | 0, _ => []
  | f + 1, pos =>
    if pos > s.size then [] else
    match matchAt s r pos with
    | some st => (pos, st) :: scanPos s r f st.pos
    | none => scanPos s r f (pos + 1)

/-- all matches of `r` in `s` are non-empty -/
def NonEmpty (s : Array Nat) (r : Re) : Prop := ∀ p st, matchAt s r p = some st → p < st.pos

theorem scanPos_none_run (s : Array Nat) (r : Re) : ∀ (n f pos : Nat), (∀ q, pos ≤ q → q < pos + n → matchAt s r q = none) →
    pos + n ≤ s.size + 1 → scanPos s r (f + n) pos = scanPos s r f (pos + n)
  | 0, f, pos, _, _ => rfl
  | n + 1, f, pos, h, hle => by
    have e : f + (n + 1) = (f + n) + 1 := by omega
    rw [e, scanPos]
    have : ¬ pos > s.size := by omega
    simp only [this, if_false, h pos (Nat.le_refl _) (by omega)]
    have := scanPos_none_run s r n f (pos + 1) (fun q h1 h2 => h q (by omega) (by omega)) (by omega)
    rw [this]; congr 1; omega

theorem scanPos_beyond (s : Array Nat) (r : Re) : ∀ f pos, pos > s.size → scanPos s r f pos = []
  | 0, _, _ => rfl
  | f + 1, pos, h => by simp [scanPos, h]

/-- with fuel to spare nothing changes -/
theorem scanPos_fuel (s : Array Nat) (r : Re) (hne : NonEmpty s r) : ∀ f f' pos, s.size + 1 - pos ≤ f → s.size + 1 - pos ≤ f' →
    scanPos s r f pos = scanPos s r f' pos
  | 0, 0, _, _, _ => rfl
  | 0, f' + 1, pos, h, _ => by
    have : pos > s.size := by omega
    rw [scanPos_beyond s r _ pos this, scanPos_beyond s r _ pos this]
  | f + 1, 0, pos, _, h => by
    have : pos > s.size := by omega
    rw [scanPos_beyond s r _ pos this, scanPos_beyond s r _ pos this]
  | f + 1, f' + 1, pos, h, h' => by
    simp only [scanPos]
    split
    · rfl
    · rename_i hle
      cases hm : matchAt s r pos with
      | some st =>
        have := hne pos st hm
        simp only
        rw [scanPos_fuel s r hne f f' st.pos (by omega) (by omega)]
      | none =>
        simp only
        rw [scanPos_fuel s r hne f f' (pos + 1) (by omega) (by omega)]

theorem finditerAux_scan (s : Array Nat) (r : Re) (hne : NonEmpty s r) : ∀ (fuel pos : Nat), s.size + 1 - pos ≤ fuel →
    finditerAux s r fuel pos false = scanPos s r (s.size + 1 - pos) pos
  | 0, pos, h => by
    have : s.size + 1 - pos = 0 := by omega
    rw [this]; rfl
  | fuel + 1, pos, h => by
    simp only [finditerAux]
    by_cases hgt : pos > s.size
    · simp only [hgt, if_true]
      rw [scanPos_beyond s r _ pos hgt]
    · simp only [hgt, if_false, Bool.false_eq_true]
      have e : s.size + 1 - pos = (s.size - pos) + 1 := by omega
      cases hm : matchAt s r pos with
      | some st =>
        have hlt := hne pos st hm
        have hb := (matchAt_span hm (by omega)).2
        simp only
        have hadv : (st.pos == pos) = false := by simp; omega
        rw [hadv, finditerAux_scan s r hne fuel st.pos (by omega), e, scanPos]
        simp only [hgt, if_false, hm]
        congr 1
        exact scanPos_fuel s r hne _ _ _ (by omega) (by omega)
      | none =>
        simp only
        cases hs : search s r (pos + 1) with
        | none =>
          -- no match anywhere after pos
          have hnone : ∀ q, pos ≤ q → q ≤ s.size → matchAt s r q = none := by
            intro q h1 h2
            by_cases hq : q = pos
            · subst hq; exact hm
            · cases hq' : matchAt s r q with
              | none => rfl
              | some st =>
                obtain ⟨q', st', hs', _⟩ := search_complete (pos := pos + 1) hq' (by omega) h2
                rw [hs] at hs'; cases hs'
          simp only
          have := scanPos_none_run s r (s.size + 1 - pos) 0 pos (fun q h1 h2 => hnone q h1 (by omega)) (by omega)
          simp only [Nat.zero_add] at this
          rw [this]; rfl
        | some qs =>
          obtain ⟨q, st⟩ := qs
          obtain ⟨h1, h2, h3, h4⟩ := search_spec hs
          have hlt := hne q st h3
          have hb := (matchAt_span h3 h2).2
          simp only
          have hadv : (st.pos == q) = false := by simp; omega
          rw [hadv, finditerAux_scan s r hne fuel st.pos (by omega)]
          -- the scan skips the positions pos .. q-1
          have hrun := scanPos_none_run s r (q - pos) (s.size + 1 - q) pos (fun x a b => by
            by_cases hx : x = pos
            · subst hx; exact hm
            · exact h4 x (by omega) (by omega)) (by omega)
          have e1 : s.size + 1 - q + (q - pos) = s.size + 1 - pos := by omega
          have e2 : pos + (q - pos) = q := by omega
          rw [e1, e2] at hrun
          rw [hrun]
          have e3 : s.size + 1 - q = (s.size - q) + 1 := by omega
          rw [e3, scanPos]
          have : ¬ q > s.size := by omega
          simp only [this, if_false, h3]
          congr 1
          exact scanPos_fuel s r hne _ _ _ (by omega) (by omega)

/-- **`finditer` is the left-to-right scan** (for a pattern whose matches are never empty) -/
theorem finditer_scan (s : Array Nat) (r : Re) (hne : NonEmpty s r) :
    finditer s r = scanPos s r (s.size + 1) 0 := by
  unfold finditer
  rw [finditerAux_scan s r hne _ 0 (by omega)]
  rfl

theorem nonEmpty_of_minLen {s : Array Nat} {r : Re} (h : 1 ≤ minLen r) : NonEmpty s r := by
  intro p st hm
  by_cases hp : p ≤ s.size
  · have := (matchAt_span hm hp).1; omega
  · -- beyond the end nothing with positive minimal length matches
    obtain ⟨st', h1, h2, h3⟩ := m_good s r ⟨p, []⟩ some st hm
    simp at h3; subst h3
    simp at h1; omega
end C12S

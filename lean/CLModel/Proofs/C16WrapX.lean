/-
C16W: the format-specific `wrap` methods that round 4 brought into the model.
* Fluent: `FluentEntity.wrap` = re-created reference comment (printer contract of `serialize_comment`) ++ raw value;
  the printed comment reads back to the comment's content; the entry-level walk agrees with the C01 walk model.
* Android: `AndroidEntity.wrap` on the element summary: what is written for a `<string>` with one Text / one CDATA child,
  escaping is reversible, zero children raise, other children survive.
-/
import CLModel.Serialize.Fluent
import CLModel.Serialize.Android
namespace C16W
open Ser

/-! ### Fluent -/

theorem fluent_wrap_spec (s : Array Nat) (b : FBody) (e : P.Entry) (raw : List Nat) (hk : e.kind = .entity) :
    (wrap (fluentToEnt s b e) raw).all = (match b.comment with | some c => serializeComment c | none => []) ++ raw ∧
    (wrap (fluentToEnt s b e) raw).key = pySlice s e.ks e.ke ∧
    (wrap (fluentToEnt s b e) raw).val = raw ∧
    (wrap (fluentToEnt s b e) raw).isReal = true := by
  unfold fluentToEnt wrap
  cases b.comment <;> simp [hk, Ent.isReal]

/-- no line of `str.split("\n")` contains a newline, and there is at least one line -/
theorem splitNl_ne_nil : ∀ t : List Nat, splitNl t ≠ [] := by
  intro t
  induction t with
  | nil => simp [splitNl]
  | cons c cs ih =>
    unfold splitNl
    cases h : splitNl cs with
    | nil => exact absurd h ih
    | cons l ls => simp only; split <;> simp

theorem splitNl_no_nl : ∀ t : List Nat, ∀ l ∈ splitNl t, 10 ∉ l := by
  intro t
  induction t with
  | nil => intro l hl; simp [splitNl] at hl; subst hl; simp
  | cons c cs ih =>
    intro l hl
    unfold splitNl at hl
    cases h : splitNl cs with
    | nil => exact absurd h (splitNl_ne_nil cs)
    | cons l0 ls =>
      rw [h] at hl ih
      simp only at hl
      split at hl
      · rename_i hc
        simp only [List.mem_cons] at hl
        rcases hl with rfl | rfl | hl
        · simp
        · exact ih _ (by simp)
        · exact ih _ (by simp [hl])
      · rename_i hc
        simp only [List.mem_cons] at hl
        rcases hl with rfl | hl
        · intro hm
          simp only [List.mem_cons] at hm
          rcases hm with hm | hm
          · exact hc (by simp [← hm])
          · exact ih l0 (by simp) hm
        · exact ih _ (by simp [hl])

/-- `"\n".join(t.split("\n")) == t` -/
theorem joinNl_splitNl : ∀ t : List Nat, joinNl (splitNl t) = t := by
  intro t
  induction t with
  | nil => rfl
  | cons c cs ih =>
    unfold splitNl
    cases h : splitNl cs with
    | nil => exact absurd h (splitNl_ne_nil cs)
    | cons l ls =>
      rw [h] at ih
      simp only
      split
      · rename_i hc
        have : c = 10 := by simpa using hc
        subst this
        rw [joinNl]
        · rw [ih]; rfl
        · exact fun h => by cases h
      · cases ls with
        | nil => simp only [joinNl] at ih ⊢; rw [ih]
        | cons l' ls' => simp only [joinNl] at ih ⊢; rw [← ih]; rfl

theorem splitNl_line : ∀ l : List Nat, 10 ∉ l → splitNl l = [l] := by
  intro l
  induction l with
  | nil => intro _; rfl
  | cons c cs ih =>
    intro hl
    have hc : c ≠ 10 := fun h => hl (by simp [h])
    unfold splitNl
    rw [ih (fun h => hl (by simp [h]))]
    simp [hc]

theorem splitNl_append_nl : ∀ (l t : List Nat), 10 ∉ l → splitNl (l ++ 10 :: t) = l :: splitNl t := by
  intro l t
  induction l with
  | nil =>
    intro _
    simp only [List.nil_append]
    rw [splitNl]
    cases h : splitNl t with
    | nil => exact absurd h (splitNl_ne_nil t)
    | cons a as => simp
  | cons c cs ih =>
    intro hl
    have hc : c ≠ 10 := fun h => hl (by simp [h])
    simp only [List.cons_append]
    rw [splitNl, ih (fun h => hl (by simp [h]))]
    simp [hc]

/-- `"\n".join(ls).split("\n") == ls` for lines without newline -/
theorem splitNl_joinNl : ∀ ls : List (List Nat), ls ≠ [] → (∀ l ∈ ls, 10 ∉ l) → splitNl (joinNl ls) = ls := by
  intro ls
  induction ls with
  | nil => intro h; exact absurd rfl h
  | cons l rest ih =>
    intro _ hno
    have hl : 10 ∉ l := hno l (by simp)
    cases rest with
    | nil => simp only [joinNl]; exact splitNl_line l hl
    | cons l' rest' =>
      have ihr := ih (by simp) (fun x hx => hno x (by simp [hx]))
      simp only [joinNl] at ihr ⊢
      rw [splitNl_append_nl l _ hl]
      congr 1

/-- reading a printed comment back: drop the final line break, split into lines, drop `#` / `# ` from each -/
def unprefix (line : List Nat) : List Nat := if line == [35] then [] else line.drop 2

def commentContent (printed : List Nat) : List Nat := joinNl ((splitNl printed.dropLast).map unprefix)

def prefixLine (line : List Nat) : List Nat := if line.isEmpty then [35] else 35 :: 32 :: line

theorem unprefix_prefixLine (line : List Nat) : unprefix (prefixLine line) = line := by
  unfold prefixLine unprefix
  cases line with
  | nil => simp
  | cons c cs => simp

theorem prefixLine_no_nl {line : List Nat} (h : 10 ∉ line) : 10 ∉ prefixLine line := by
  unfold prefixLine
  split
  · simp
  · intro hm
    simp only [List.mem_cons] at hm
    rcases hm with hm | hm | hm
    · cases hm
    · cases hm
    · exact h hm

/-- THE COMMENT WRITTEN IS THE REFERENCE COMMENT: for every content, what `serialize_comment` prints reads back to it -/
theorem commentContent_serializeComment (c : List Nat) : commentContent (serializeComment c) = c := by
  unfold serializeComment commentContent
  cases hc : c.isEmpty with
  | true =>
    have : c = [] := by simpa using hc
    subst this
    simp [splitNl, unprefix, joinNl]
  | false =>
    simp only [Bool.false_eq_true, if_false]
    rw [List.dropLast_concat]
    have hfun : (fun line : List Nat => if line.isEmpty then [35] else 35 :: 32 :: line) = prefixLine := rfl
    rw [hfun, splitNl_joinNl _ (by simpa using splitNl_ne_nil c)
      (by
        intro l hl
        rw [List.mem_map] at hl
        obtain ⟨l0, h0, rfl⟩ := hl
        exact prefixLine_no_nl (splitNl_no_nl c l0 h0)),
      List.map_map]
    have : (unprefix ∘ prefixLine) = id := by funext l; exact unprefix_prefixLine l
    rw [this, List.map_id, joinNl_splitNl]

/-- every printed line starts with `#`: the printed comment is a Fluent comment again -/
theorem serializeComment_lines (c : List Nat) :
    ∀ l ∈ splitNl (serializeComment c).dropLast, l.head? = some 35 := by
  unfold serializeComment
  cases hc : c.isEmpty with
  | true => intro l hl; simp [splitNl] at hl; subst hl; rfl
  | false =>
    simp only [Bool.false_eq_true, if_false]
    rw [List.dropLast_concat]
    have hfun : (fun line : List Nat => if line.isEmpty then [35] else 35 :: 32 :: line) = prefixLine := rfl
    rw [hfun, splitNl_joinNl _ (by simpa using splitNl_ne_nil c)
      (by
        intro l hl
        rw [List.mem_map] at hl
        obtain ⟨l0, h0, rfl⟩ := hl
        exact prefixLine_no_nl (splitNl_no_nl c l0 h0))]
    intro l hl
    rw [List.mem_map] at hl
    obtain ⟨l0, _, rfl⟩ := hl
    unfold prefixLine
    split <;> rfl

/-- the entry-level walk yields, entry by entry, the texts and classes of the C01 model of `FluentParser.walk` -/
theorem fluentToEnt_all (s : Array Nat) (b : FBody) (e : P.Entry) : (fluentToEnt s b e).all = e.all s := by
  unfold fluentToEnt
  cases e.kind <;> rfl

theorem fluentWalkEntsFrom_alls (s : Array Nat) : ∀ (body : List FBody) (last : Nat),
    (fluentWalkEntsFrom s body last).map (·.all) = (P.fluentWalkFrom s false (body.map (·.entry)) last).map (fun e => e.all s) := by
  intro body
  induction body with
  | nil =>
    intro last
    simp only [fluentWalkEntsFrom, P.fluentWalkFrom, List.map_nil, Bool.not_false, Bool.true_and]
    by_cases h : s.size > last <;> simp [h, wsEnt, P.Entry.all]
  | cons b rest ih =>
    intro last
    simp only [fluentWalkEntsFrom, P.fluentWalkFrom, List.map_cons, List.map_append, Bool.not_false, Bool.true_and]
    rw [ih]
    congr 1
    congr 1
    · by_cases h : b.entry.s > last <;> simp [h, wsEnt, P.Entry.all]
    · rw [List.map_map]
      apply List.map_congr_left
      intro e _
      exact fluentToEnt_all s b e

theorem fluentWalkEnts_alls (s : Array Nat) (body : List FBody) :
    (fluentWalkEnts s body).map (·.all) = (P.fluentWalk s (body.map (·.entry)) false).map (fun e => e.all s) :=
  fluentWalkEntsFrom_alls s body 0

/-! ### Android -/

/-- standard decoding of the four entities `_write_data` produces -/
def xmlUnescape : List Nat → List Nat
  | 38 :: 97 :: 109 :: 112 :: 59 :: rest => 38 :: xmlUnescape rest
  | 38 :: 108 :: 116 :: 59 :: rest => 60 :: xmlUnescape rest
  | 38 :: 113 :: 117 :: 111 :: 116 :: 59 :: rest => 34 :: xmlUnescape rest
  | 38 :: 103 :: 116 :: 59 :: rest => 62 :: xmlUnescape rest
  | c :: rest => c :: xmlUnescape rest
  | [] => []

theorem xmlEscape_cons (c : Nat) (cs : List Nat) :
    xmlEscape (c :: cs) =
      (if c == 38 then [38, 97, 109, 112, 59] else if c == 60 then [38, 108, 116, 59]
       else if c == 34 then [38, 113, 117, 111, 116, 59] else if c == 62 then [38, 103, 116, 59] else [c]) ++ xmlEscape cs := rfl

/-- escaping is reversible: a re-parse of the written text node gives the raw value back (ALL raw values) -/
theorem xmlUnescape_escape : ∀ t : List Nat, xmlUnescape (xmlEscape t) = t := by
  intro t
  induction t with
  | nil => rfl
  | cons c cs ih =>
    rw [xmlEscape_cons]
    by_cases h1 : c = 38
    · subst h1; simp [xmlUnescape, ih]
    · by_cases h2 : c = 60
      · subst h2; simp [xmlUnescape, ih]
      · by_cases h3 : c = 34
        · subst h3; simp [xmlUnescape, ih]
        · by_cases h4 : c = 62
          · subst h4; simp [xmlUnescape, ih]
          · simp only [beq_iff_eq, h1, h2, h3, h4, if_false, List.cons_append, List.nil_append]
            rw [xmlUnescape]
            · rw [ih]
            all_goals (intros; simp_all)

/-- the escaped text contains none of `<`, `>`, `"`: it cannot end the element or open markup -/
theorem xmlEscape_safe : ∀ t : List Nat, ∀ c ∈ xmlEscape t, c ≠ 60 ∧ c ≠ 62 ∧ c ≠ 34 := by
  intro t
  induction t with
  | nil => intro c hc; simp [xmlEscape] at hc
  | cons a as ih =>
    intro c hc
    rw [xmlEscape_cons, List.mem_append] at hc
    rcases hc with hc | hc
    · by_cases h1 : a = 38
      · subst h1; simp at hc; rcases hc with rfl | rfl | rfl | rfl | rfl <;> decide
      · by_cases h2 : a = 60
        · subst h2; simp at hc; rcases hc with rfl | rfl | rfl | rfl <;> decide
        · by_cases h3 : a = 34
          · subst h3; simp at hc; rcases hc with rfl | rfl | rfl | rfl | rfl | rfl <;> decide
          · by_cases h4 : a = 62
            · subst h4; simp at hc; rcases hc with rfl | rfl | rfl | rfl <;> decide
            · simp only [beq_iff_eq, h1, h2, h3, h4, if_false, List.mem_singleton] at hc
              subst hc
              exact ⟨h2, h4, h3⟩
    · exact ih c hc

/-- reference `<string …>TEXT</string>` (one Text child): the new value replaces the WHOLE text, escaped -/
theorem androidWrap_single_text (key pre : List Nat) (el : XElem) (d x raw : List Nat)
    (h : el.children = [{ kind := .text, data := d, xml := x }]) :
    androidWrap key pre el raw =
      .ok { kind := .entity, key := key, val := raw,
            all := pre ++ (el.open_ ++ [62] ++ xmlEscape raw ++ [60, 47] ++ el.tag ++ [62]) } := by
  unfold androidWrap wrapTarget
  simp [h, setData, XElem.toxml, childrenXml, XNode.toxml, bind, Except.bind, pure, Except.pure]

/-- reference `<string …><![CDATA[…]]></string>`: the new value replaces the character data, verbatim; a value containing
    `]]>` cannot be written (`ValueError`) -/
theorem androidWrap_single_cdata (key pre : List Nat) (el : XElem) (d x raw : List Nat)
    (h : el.children = [{ kind := .cdata, data := d, xml := x }]) :
    androidWrap key pre el raw =
      if P.isInfix cdataClose raw then .error .cdataEnd
      else .ok { kind := .entity, key := key, val := raw,
                 all := pre ++ (el.open_ ++ [62] ++ (cdataOpen ++ raw ++ cdataClose) ++ [60, 47] ++ el.tag ++ [62]) } := by
  unfold androidWrap wrapTarget
  by_cases hi : P.isInfix cdataClose raw = true
  · simp [h, setData, XElem.toxml, childrenXml, XNode.toxml, bind, Except.bind, pure, Except.pure, hi]
  · simp [h, setData, XElem.toxml, childrenXml, XNode.toxml, bind, Except.bind, pure, Except.pure, hi]

/-- reference `<string name="a"/>` or `<string name="a"></string>` (no child node): `child` is never bound
    (finding C16-android-empty-reference-string) -/
theorem androidWrap_empty (key pre : List Nat) (el : XElem) (raw : List Nat) (h : el.children = []) :
    androidWrap key pre el raw = .error .unboundChild := by
  unfold androidWrap wrapTarget
  simp [h, bind, Except.bind]

end C16W

/- Generic regex-engine lemmas used by C02: stepping `search`, skipping in `finditer`, exact behaviour of a
   greedy bounded class repeat in front of a continuation that cannot fail, list view of array indexing. -/
import CLModel.Rx.Basic
import CLModel.Proofs.RxLemmas
import CLModel.Proofs.RxStar
namespace Rx

theorem drop_view (s : Array Nat) (pos : Nat) :
    (s[pos]? = none ∧ s.size ≤ pos ∧ s.toList.drop pos = []) ∨
    (∃ c, s[pos]? = some c ∧ pos < s.size ∧ s.toList.drop pos = c :: s.toList.drop (pos + 1)) := by
  by_cases h : pos < s.size
  · right
    refine ⟨s[pos], by simp [h], h, ?_⟩
    have hl : pos < s.toList.length := by simpa using h
    rw [List.drop_eq_getElem_cons hl]
    simp
  · left
    refine ⟨by simp; omega, by omega, ?_⟩
    apply List.drop_eq_nil_of_le
    simp; omega

theorem search_step (s : Array Nat) (r : Re) (pos : Nat) (h : pos ≤ s.size) :
    search s r pos = match matchAt s r pos with
      | some st => some (pos, st)
      | none => search s r (pos + 1) := by
  unfold search
  have e : s.size + 2 - pos = (s.size + 2 - (pos + 1)) + 1 := by omega
  rw [e, searchFrom]
  have e2 : s.size + 2 - (pos + 1) = s.size + 1 - pos := by omega
  cases hm : matchAt s r pos <;> simp [show ¬ pos > s.size by omega, e2]

theorem search_gt (s : Array Nat) (r : Re) (pos : Nat) (h : s.size < pos) : search s r pos = none := by
  unfold search
  cases hf : s.size + 2 - pos with
  | zero => simp [searchFrom]
  | succ n => simp [searchFrom, h]

/-- no match at `pos`: finditer continues exactly as if it had started one further -/
theorem finditerAux_skip (s : Array Nat) (r : Re) (f pos : Nat) (hm : matchAt s r pos = none) (hp : pos ≤ s.size) :
    finditerAux s r (f + 1) pos false = finditerAux s r (f + 1) (pos + 1) false := by
  rw [finditerAux, finditerAux]
  simp only [show ¬ pos > s.size by omega, if_false, Bool.false_eq_true, hm]
  by_cases h1 : pos + 1 > s.size
  · simp [h1, search_gt s r (pos + 1) (by omega)]
  · simp only [h1, if_false]
    rw [search_step s r (pos + 1) (by omega)]
    cases hm1 : matchAt s r (pos + 1) with
    | none => simp
    | some st => simp

/-- list-level length of the run of characters satisfying `p`, capped by the repeat maximum -/
def runLen (p : Nat → Bool) : Option Nat → List Nat → Nat
  | _, [] => 0
  | mx, c :: t => if mx == some 0 then 0 else if p c then 1 + runLen p (mx.map (· - 1)) t else 0

theorem runLen_le (p : Nat → Bool) : ∀ (l : List Nat) (mx : Option Nat), runLen p mx l ≤ l.length := by
  intro l
  induction l with
  | nil => intro mx; simp [runLen]
  | cons c t ih =>
    intro mx
    simp only [runLen]
    split
    · omega
    · split
      · have := ih (mx.map (· - 1)); simp; omega
      · omega

/-- a regex node that consumes exactly one character satisfying `P` -/
def charStep (s : Array Nat) (P : Nat → Bool) : St → K → Option St := fun st k =>
  match s[st.pos]? with
  | some c => if P c then k { st with pos := st.pos + 1 } else none
  | none => none

theorem m_cls_charStep (s : Array Nat) (neg : Bool) (items : List ClsItem) :
    m s (.cls neg items) = charStep s (inC neg items) := by
  funext st k; rw [m_cls_apply]; rfl

theorem m_any_charStep (s : Array Nat) (da : Bool) : m s (.any da) = charStep s (fun d => da || d != 10) := by
  funext st k; rw [m]; rfl

theorem m_notLit_charStep (s : Array Nat) (c : Nat) : m s (.notLit c) = charStep s (fun d => d != c) := by
  funext st k; rw [m]; rfl

/-- a greedy repeat of a one-character step in front of a continuation that always succeeds takes the
    longest run allowed by the maximum, and fails iff that run is shorter than the minimum -/
theorem loop_greedy_total_step (s : Array Nat) (P : Nat → Bool) (caps) (k : K)
    (hk : ∀ st, (k st).isSome) :
    ∀ fuel mn mx pos, runLen P mx (s.toList.drop pos) < fuel →
      loop (charStep s P) true fuel mn mx ⟨pos, caps⟩ k =
        if runLen P mx (s.toList.drop pos) < mn then none
        else k ⟨pos + runLen P mx (s.toList.drop pos), caps⟩ := by
  intro fuel
  induction fuel with
  | zero => intro mn mx pos h; omega
  | succ f ih =>
    intro mn mx pos h
    rw [loop]
    simp only [charStep]
    rcases drop_view s pos with ⟨h0, _, hd⟩ | ⟨c, h0, _, hd⟩
    · simp only [h0, hd, runLen]
      by_cases hmn : mn > 0
      · simp [hmn]
      · have : mn = 0 := by omega
        subst this
        simp
    · rw [hd] at h ⊢
      simp only [h0, runLen] at h ⊢
      by_cases hz : mx == some 0
      · simp only [hz, if_true] at h ⊢
        by_cases hmn : mn > 0
        · simp [hmn]
        · have : mn = 0 := by omega
          subst this
          simp
      · simp only [hz] at h ⊢
        by_cases hin : P c
        · simp only [hin, if_true, Bool.false_eq_true, if_false] at h ⊢
          have hlt : runLen P (mx.map (· - 1)) (s.toList.drop (pos + 1)) < f := by omega
          have ihh := ih (mn - 1) (mx.map (· - 1)) (pos + 1) hlt
          simp only [show ¬ (pos + 1 ≤ pos) by omega, if_false]
          rw [ihh]
          by_cases hmn : mn > 0
          · simp only [hmn, if_true]
            by_cases hlt2 : runLen P (mx.map (· - 1)) (s.toList.drop (pos + 1)) < mn - 1
            · have : 1 + runLen P (mx.map (· - 1)) (s.toList.drop (pos + 1)) < mn := by omega
              simp [hlt2, this]
            · have : ¬ (1 + runLen P (mx.map (· - 1)) (s.toList.drop (pos + 1)) < mn) := by omega
              simp only [hlt2, this, if_false]
              congr 2; omega
          · have : mn = 0 := by omega
            subst this
            simp only [Nat.lt_irrefl, if_false, Nat.zero_sub, Nat.not_lt_zero]
            have e : pos + 1 + runLen P (mx.map (· - 1)) (s.toList.drop (pos + 1)) =
                pos + (1 + runLen P (mx.map (· - 1)) (s.toList.drop (pos + 1))) := by omega
            rw [e]
            have := hk ⟨pos + (1 + runLen P (mx.map (· - 1)) (s.toList.drop (pos + 1))), caps⟩
            cases hks : k ⟨pos + (1 + runLen P (mx.map (· - 1)) (s.toList.drop (pos + 1))), caps⟩ with
            | none => simp [hks] at this
            | some r => simp
        · simp only [hin, Bool.false_eq_true, if_false] at h ⊢
          by_cases hmn : mn > 0
          · simp [hmn]
          · have : mn = 0 := by omega
            subst this
            simp


/-- the same for a character class -/
theorem loop_greedy_total (s : Array Nat) (neg : Bool) (items : List ClsItem) (caps) (k : K)
    (hk : ∀ st, (k st).isSome) :
    ∀ fuel mn mx pos, runLen (inC neg items) mx (s.toList.drop pos) < fuel →
      loop (m s (.cls neg items)) true fuel mn mx ⟨pos, caps⟩ k =
        if runLen (inC neg items) mx (s.toList.drop pos) < mn then none
        else k ⟨pos + runLen (inC neg items) mx (s.toList.drop pos), caps⟩ := by
  rw [m_cls_charStep]
  exact loop_greedy_total_step s (inC neg items) caps k hk

/-! ### more stepping lemmas (round-trip proofs) -/

theorem searchFrom_none_c02 (s : Array Nat) (r : Re) :
    ∀ fuel pos, (∀ p, pos ≤ p → p ≤ s.size → matchAt s r p = none) → searchFrom s r fuel pos = none := by
  intro fuel
  induction fuel with
  | zero => intro pos _; simp [searchFrom]
  | succ f ih =>
    intro pos h
    rw [searchFrom]
    by_cases hp : pos > s.size
    · simp [hp]
    · simp only [hp, if_false, h pos (Nat.le_refl _) (by omega)]
      exact ih (pos + 1) (fun p h1 h2 => h p (by omega) h2)

theorem search_none_c02 (s : Array Nat) (r : Re) (pos : Nat)
    (h : ∀ p, pos ≤ p → p ≤ s.size → matchAt s r p = none) : search s r pos = none :=
  searchFrom_none_c02 s r _ pos h

/-- `search` returns the first position at which the pattern matches -/
theorem search_first (s : Array Nat) (r : Re) (st : St) :
    ∀ n pos, pos + n ≤ s.size → (∀ p, pos ≤ p → p < pos + n → matchAt s r p = none) →
      matchAt s r (pos + n) = some st → search s r pos = some (pos + n, st) := by
  intro n
  induction n with
  | zero =>
    intro pos hle _ hm
    rw [search_step s r pos (by omega)]
    simp at hm
    simp [hm]
  | succ n ih =>
    intro pos hle hnone hm
    rw [search_step s r pos (by omega), hnone pos (Nat.le_refl _) (by omega)]
    simp only []
    have := ih (pos + 1) (by omega) (fun p h1 h2 => hnone p (by omega) (by omega))
      (by rw [show pos + 1 + n = pos + (n + 1) by omega]; exact hm)
    rw [this, show pos + 1 + n = pos + (n + 1) by omega]

/-- a repeat whose body cannot match at the current position makes no iteration -/
theorem loop_body_fail (body : St → K → Option St) (g : Bool) (f : Nat) (mx : Option Nat) (st : St) (k : K)
    (h : ∀ k', body st k' = none) : loop body g (f + 1) 0 mx st k = k st := by
  rw [loop]
  simp only [h]
  cases g <;> cases hk : k st <;> simp [hk]

theorem loop_body_fail_min (body : St → K → Option St) (g : Bool) (f mn : Nat) (mx : Option Nat) (st : St) (k : K)
    (h : ∀ k', body st k' = none) (hmn : mn > 0) : loop body g (f + 1) mn mx st k = none := by
  rw [loop]
  simp [h, hmn]

/-- lazy repeat: the continuation is tried first -/
theorem loop_lazy_stop (body : St → K → Option St) (f : Nat) (st : St) (k : K) (r : St)
    (h : k st = some r) : loop body false (f + 1) 0 none st k = some r := by
  rw [loop]
  simp [h]

/-- lazy class repeat: while the continuation fails and the next character is in the class, advance -/
theorem loop_lazy_skip_step (s : Array Nat) (P : Nat → Bool) (caps) (k : K) :
    ∀ n fuel pos, (∀ j, j < n → (∃ c, s[pos + j]? = some c ∧ P c = true) ∧ k ⟨pos + j, caps⟩ = none) →
      loop (charStep s P) false (fuel + n) 0 none ⟨pos, caps⟩ k =
        loop (charStep s P) false fuel 0 none ⟨pos + n, caps⟩ k := by
  intro n
  induction n with
  | zero => intro fuel pos _; rfl
  | succ n ih =>
    intro fuel pos h
    obtain ⟨⟨c, hc, hin⟩, hk⟩ := h 0 (by omega)
    rw [show fuel + (n + 1) = (fuel + n) + 1 by omega, loop]
    simp only [charStep]
    simp only [Nat.add_zero] at hc hk
    simp only [hc, hin, if_true, hk, show ¬ (pos + 1 ≤ pos) by omega, if_false, Nat.lt_irrefl,
      Bool.false_eq_true, show ((none : Option Nat) == some 0) = false from rfl, Option.map_none, Nat.zero_sub]
    have := ih fuel (pos + 1) (fun j hj => by
      have := h (j + 1) (by omega)
      rw [show pos + (j + 1) = pos + 1 + j by omega] at this
      exact this)
    rw [show pos + 1 + n = pos + (n + 1) by omega] at this
    simp [this]

theorem loop_lazy_skip (s : Array Nat) (neg : Bool) (items : List ClsItem) (caps) (k : K) :
    ∀ n fuel pos, (∀ j, j < n → (∃ c, s[pos + j]? = some c ∧ inC neg items c = true) ∧ k ⟨pos + j, caps⟩ = none) →
      loop (m s (.cls neg items)) false (fuel + n) 0 none ⟨pos, caps⟩ k =
        loop (m s (.cls neg items)) false fuel 0 none ⟨pos + n, caps⟩ k := by
  rw [m_cls_charStep]
  exact loop_lazy_skip_step s (inC neg items) caps k

theorem firstSome_none (k : Nat → Option St) (l : List Nat) (h : ∀ j ∈ l, k j = none) : firstSome k l = none := by
  induction l with
  | nil => rfl
  | cons x xs ih =>
    simp only [firstSome, h x (by simp)]
    simpa using ih (fun j hj => h j (by simp [hj]))

theorem firstSome_isSome (k : Nat → Option St) (l : List Nat) (j : Nat) (hj : j ∈ l) (h : (k j).isSome) :
    (firstSome k l).isSome := by
  induction l with
  | nil => cases hj
  | cons x xs ih =>
    simp only [firstSome]
    cases hx : k x with
    | some r => simp
    | none =>
      simp only [Option.orElse_none]
      rcases List.mem_cons.mp hj with rfl | hj'
      · rw [hx] at h; cases h
      · exact ih hj'

theorem mem_downFrom_c02 (pos n j : Nat) : j ∈ downFrom pos n ↔ pos ≤ j ∧ j ≤ pos + n := by
  induction n with
  | zero => simp [downFrom]; omega
  | succ n ih => simp [downFrom, ih]; omega

/-- `run` in list terms -/
theorem run_eq_runLen (s : Array Nat) (neg : Bool) (items : List ClsItem) :
    ∀ fuel pos, s.size - pos < fuel → run s neg items fuel pos = runLen (inC neg items) none (s.toList.drop pos) := by
  intro fuel
  induction fuel with
  | zero => intro pos h; omega
  | succ f ih =>
    intro pos h
    rw [run]
    rcases drop_view s pos with ⟨h0, _, hd⟩ | ⟨c, h0, hlt, hd⟩
    · simp [h0, hd, runLen]
    · rw [hd]
      simp only [h0, runLen, show ((none : Option Nat) == some 0) = false from rfl, Bool.false_eq_true, if_false,
        Option.map_none]
      by_cases hin : inC neg items c = true
      · simp only [hin, if_true]
        rw [ih (pos + 1) (by omega)]
      · simp [hin]

theorem findSome_range {α} (f : Nat → Option α) (v : α) :
    ∀ m n, n < m → (∀ i, i < n → f i = none) → f n = some v → (List.range m).findSome? f = some v := by
  intro m
  induction m with
  | zero => intro n h; omega
  | succ m ih =>
    intro n hn hnone hv
    rw [List.range_succ, List.findSome?_append]
    by_cases h : n < m
    · rw [ih n h hnone hv]; rfl
    · have : n = m := by omega
      subst this
      have : (List.range n).findSome? f = none := by
        rw [List.findSome?_eq_none_iff]
        intro x hx
        exact hnone x (List.mem_range.mp hx)
      rw [this]
      simp [hv]

end Rx

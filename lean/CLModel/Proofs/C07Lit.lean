/-
C07, round 4 — the SECOND template document: the localized value as the literal of `<!ENTITY key "value">`.
`XmlContent.litExpand` (fuel-recursive scanner) is characterised by the inductive grammar `Lit` of entity literals
(XML 1.0 production `EntityValue` without parameter-entity references, which are not allowed inside markup
declarations of the internal subset) together with its replacement text.
-/
import CLModel.Checks.XmlContent
import CLModel.Checks.Dtd
namespace C07L
open XmlContent

def isHex (c : Nat) : Bool := (hexVal c).isSome

def decVal (ds : Text) : Nat := ds.foldl (fun n c => min (n * 10 + (c - 48)) 0x110000) 0
def hexValOf (ds : Text) : Nat :=
  ds.foldl (fun n c => match hexVal c with | some d => min (n * 16 + d) 0x110000 | none => n) 0

/-- one item of an entity literal: its source text and its contribution to the replacement text -/
inductive LitItem : Text → Text → Prop
  /-- any XML character except `%` and `&` stands for itself (also `<`, `>`, quotes, inside comments …) -/
  | char (c : Nat) : c ≠ 37 → c ≠ 38 → isXmlChar c = true → LitItem [c] [c]
  /-- `&#digits;` is replaced by the character when the literal is read -/
  | dec (ds : Text) : ds ≠ [] → ds.all isDigit = true → crOk (decVal ds) = true →
      LitItem (38 :: 35 :: (ds ++ [59])) [decVal ds]
  | hex (ds : Text) : ds ≠ [] → ds.all isHex = true → crOk (hexValOf ds) = true →
      LitItem (38 :: 35 :: 120 :: (ds ++ [59])) [hexValOf ds]
  /-- `&name;` is bypassed: it stays in the replacement text -/
  | ent (c : Nat) (nm : Text) : isNameStart c = true → nm.all isNameChar = true →
      LitItem (38 :: c :: (nm ++ [59])) (38 :: c :: (nm ++ [59]))

/-- an entity literal `v` with replacement text `rt` -/
inductive Lit : Text → Text → Prop
  | nil : Lit [] []
  | cons (a e rest rt : Text) : LitItem a e → Lit rest rt → Lit (a ++ rest) (e ++ rt)

/-! ### list facts -/

theorem takeWhile_stop {p : Nat → Bool} (a : Text) (c : Nat) (r : Text) (ha : a.all p = true) (hc : p c = false) :
    (a ++ c :: r).takeWhile p = a ∧ (a ++ c :: r).dropWhile p = c :: r := by
  induction a with
  | nil => simp [List.takeWhile, List.dropWhile, hc]
  | cons x xs ih =>
    simp only [List.all_cons, Bool.and_eq_true] at ha
    simp [List.takeWhile, List.dropWhile, ha.1, ih ha.2]

theorem takeWhile_dropWhile (p : Nat → Bool) (l : Text) : l = l.takeWhile p ++ l.dropWhile p :=
  (List.takeWhile_append_dropWhile).symm

theorem all_takeWhile (p : Nat → Bool) (l : Text) : (l.takeWhile p).all p = true := by
  induction l with
  | nil => rfl
  | cons x xs ih =>
    simp only [List.takeWhile]
    split
    · rename_i h; simp [h, ih]
    · rfl

theorem hex_ne_59 : isHex 59 = false := by decide
theorem digit_ne_59 : isDigit 59 = false := by decide
theorem nameChar_ne_59 : isNameChar 59 = false := by decide

/-! ### `litRef` = one reference item -/

theorem litRef_some {rest e rest' : Text} (h : litRef rest = some (e, rest')) :
    ∃ a, LitItem (38 :: a) e ∧ rest = a ++ rest' := by
  unfold litRef at h
  split at h
  · -- &#x…
    rename_i r
    split at h
    · rename_i r' hd
      simp only [] at h
      split at h
      · rename_i hc
        simp only [Option.some.injEq, Prod.mk.injEq] at h
        obtain ⟨rfl, rfl⟩ := h
        simp only [Bool.and_eq_true, decide_eq_true_eq] at hc
        refine ⟨35 :: 120 :: (r.takeWhile (fun c => (hexVal c).isSome) ++ [59]), ?_, ?_⟩
        · exact LitItem.hex _ hc.1 (all_takeWhile _ r) hc.2
        · have := takeWhile_dropWhile (fun c => (hexVal c).isSome) r
          rw [hd] at this
          simp only [List.cons_append, List.append_assoc, List.singleton_append, List.cons.injEq, true_and]
          exact this
      · cases h
    · cases h
  · -- &#digits
    rename_i r hx
    split at h
    · rename_i r' hd
      simp only [] at h
      split at h
      · rename_i hc
        simp only [Option.some.injEq, Prod.mk.injEq] at h
        obtain ⟨rfl, rfl⟩ := h
        simp only [Bool.and_eq_true, decide_eq_true_eq] at hc
        refine ⟨35 :: (r.takeWhile isDigit ++ [59]), ?_, ?_⟩
        · exact LitItem.dec _ hc.1 (all_takeWhile _ r) hc.2
        · have := takeWhile_dropWhile isDigit r
          rw [hd] at this
          simp only [List.cons_append, List.append_assoc, List.singleton_append, List.cons.injEq, true_and]
          exact this
      · cases h
    · cases h
  · -- &name
    rename_i c r _ _
    split at h
    · rename_i hns
      split at h
      · rename_i r' hd
        simp only [Option.some.injEq, Prod.mk.injEq] at h
        obtain ⟨rfl, rfl⟩ := h
        refine ⟨c :: (r.takeWhile isNameChar ++ [59]), LitItem.ent c _ hns (all_takeWhile _ r), ?_⟩
        have := takeWhile_dropWhile isNameChar r
        rw [hd] at this
        simp only [List.cons_append, List.append_assoc, List.singleton_append, List.cons.injEq, true_and]
        exact this
      · cases h
    · cases h
  · cases h

theorem ne_nil_head_digit {ds : Text} (h1 : ds ≠ []) (h2 : ds.all isDigit = true) : ∃ d t, ds = d :: t ∧ isDigit d = true := by
  cases ds with
  | nil => exact absurd rfl h1
  | cons d t => simp only [List.all_cons, Bool.and_eq_true] at h2; exact ⟨d, t, rfl, h2.1⟩

theorem litRef_hex_arm (r : Text) : litRef (35 :: 120 :: r) =
    (match r.dropWhile (fun c => (hexVal c).isSome) with
     | 59 :: rest' =>
       if (r.takeWhile (fun c => (hexVal c).isSome)) ≠ [] && crOk (hexValOf (r.takeWhile (fun c => (hexVal c).isSome)))
       then some ([hexValOf (r.takeWhile (fun c => (hexVal c).isSome))], rest') else none
     | _ => none) := by
  unfold litRef
  rfl

theorem litRef_dec_arm (r : Text) (h : ∀ t, r ≠ 120 :: t) : litRef (35 :: r) =
    (match r.dropWhile isDigit with
     | 59 :: rest' =>
       if (r.takeWhile isDigit) ≠ [] && crOk (decVal (r.takeWhile isDigit))
       then some ([decVal (r.takeWhile isDigit)], rest') else none
     | _ => none) := by
  unfold litRef
  split
  · rename_i heq; simp only [List.cons.injEq, true_and] at heq; exact absurd heq (h _)
  · rename_i heq
    simp only [List.cons.injEq, true_and] at heq
    subst heq
    rfl
  · simp_all
  · rename_i heq; simp at heq

theorem litRef_name_arm (c : Nat) (r : Text) (h : isNameStart c = true) : litRef (c :: r) =
    (match r.dropWhile isNameChar with
     | 59 :: rest' => some (38 :: c :: r.takeWhile isNameChar ++ [59], rest')
     | _ => none) := by
  have hne : c ≠ 35 := by intro h'; subst h'; revert h; decide
  unfold litRef
  split
  · rename_i heq; simp only [List.cons.injEq] at heq; exact absurd heq.1 hne
  · rename_i heq; simp only [List.cons.injEq] at heq; exact absurd heq.1 hne
  · rename_i c' r' _ _ heq
    simp only [List.cons.injEq] at heq
    obtain ⟨rfl, rfl⟩ := heq
    simp only [h, if_true]
    rfl
  · rename_i heq; simp at heq

/-- conversely: `litRef` recognises every reference item, whatever follows -/
theorem litRef_of_item {a e : Text} (h : LitItem (38 :: a) e) (rest : Text) : litRef (a ++ rest) = some (e, rest) := by
  generalize hx : 38 :: a = x at h
  cases h with
  | char c h1 h2 h3 => simp at hx; exact absurd hx.1.symm h2
  | dec ds h1 h2 h3 =>
    simp only [List.cons.injEq, true_and] at hx
    subst hx
    obtain ⟨d, t, rfl, hd⟩ := ne_nil_head_digit h1 h2
    have hne : ∀ t', (d :: t) ++ 59 :: rest ≠ 120 :: t' := by
      intro t' h; simp only [List.cons_append, List.cons.injEq] at h
      have := h.1; subst this; revert hd; decide
    have tw := takeWhile_stop (p := isDigit) (d :: t) 59 rest h2 digit_ne_59
    have e1 : 35 :: ((d :: t) ++ [59]) ++ rest = 35 :: ((d :: t) ++ 59 :: rest) := by simp
    rw [e1, litRef_dec_arm _ hne, tw.1, tw.2]
    simp only [h3, ne_eq, reduceCtorEq, not_false_eq_true, decide_true, Bool.and_self, if_true]
  | hex ds h1 h2 h3 =>
    simp only [List.cons.injEq, true_and] at hx
    subst hx
    have tw := takeWhile_stop (p := fun c => (hexVal c).isSome) ds 59 rest h2 hex_ne_59
    have e1 : 35 :: 120 :: (ds ++ [59]) ++ rest = 35 :: 120 :: (ds ++ 59 :: rest) := by simp
    rw [e1, litRef_hex_arm, tw.1, tw.2]
    simp only [h3, ne_eq, h1, not_false_eq_true, decide_true, Bool.and_self, if_true]
  | ent c nm h1 h2 =>
    simp only [List.cons.injEq, true_and] at hx
    subst hx
    have tw := takeWhile_stop (p := isNameChar) nm 59 rest h2 nameChar_ne_59
    have e1 : c :: (nm ++ [59]) ++ rest = c :: (nm ++ 59 :: rest) := by simp
    rw [e1, litRef_name_arm c _ h1, tw.1, tw.2]
    simp

theorem litItem_ne_nil {a e : Text} (h : LitItem a e) : a ≠ [] := by cases h <;> simp

theorem litItem_length_pos {a e : Text} (h : LitItem a e) : 0 < a.length :=
  List.length_pos_iff.mpr (litItem_ne_nil h)

/-! ### `litExpand` = `Lit` -/

theorem litExpand_sound : ∀ (fuel : Nat) (v rt : Text), litExpand fuel v = some rt → Lit v rt := by
  intro fuel
  induction fuel with
  | zero => intro v rt h; simp [litExpand] at h
  | succ fuel ih =>
    intro v rt h
    cases v with
    | nil => simp [litExpand] at h; subst h; exact Lit.nil
    | cons c rest =>
      simp only [litExpand] at h
      split at h
      · cases h
      · rename_i h37
        split at h
        · rename_i h38
          split at h
          · rename_i e rest' hr
            split at h
            · simp only [Option.map_eq_some_iff] at h
              obtain ⟨rt', hrt, rfl⟩ := h
              obtain ⟨a, hi, rfl⟩ := litRef_some hr
              have hc : c = 38 := by simpa using h38
              subst hc
              have := Lit.cons (38 :: a) e rest' rt' hi (ih _ _ hrt)
              simpa using this
            · cases h
          · cases h
        · rename_i h38
          split at h
          · rename_i hx
            simp only [Option.map_eq_some_iff] at h
            obtain ⟨rt', hrt, rfl⟩ := h
            have h37' : c ≠ 37 := by simpa using h37
            have h38' : c ≠ 38 := by simpa using h38
            exact Lit.cons [c] [c] rest rt' (LitItem.char c h37' h38' hx) (ih _ _ hrt)
          · cases h

theorem litExpand_complete {v rt : Text} (h : Lit v rt) : ∀ fuel, v.length < fuel → litExpand fuel v = some rt := by
  induction h with
  | nil => intro fuel hf; cases fuel with | zero => omega | succ n => rfl
  | cons a e rest rt hi _ ih =>
    intro fuel hf
    have hpos := litItem_length_pos hi
    cases fuel with
    | zero => omega
    | succ fuel =>
      have hlen : (a ++ rest).length = a.length + rest.length := List.length_append
      cases hi with
      | char c h1 h2 h3 =>
        simp only [List.singleton_append, litExpand]
        have e37 : (c == 37) = false := by simpa using h1
        have e38 : (c == 38) = false := by simpa using h2
        simp only [e37, e38, Bool.false_eq_true, if_false, h3, if_true]
        rw [ih fuel (by simp at hlen hf; omega)]
        rfl
      | dec ds h1 h2 h3 =>
        have hi' := LitItem.dec ds h1 h2 h3
        have := litRef_of_item hi' rest
        simp only [List.cons_append, litExpand]
        simp only [show ((38 : Nat) == 37) = false by decide, Bool.false_eq_true, if_false, beq_self_eq_true, if_true]
        have e : 35 :: (ds ++ [59] ++ rest) = 35 :: (ds ++ [59]) ++ rest := by simp
        rw [e, this]
        simp only []
        rw [if_pos (by simp; omega), ih fuel (by simp at hlen hf; omega)]
        rfl
      | hex ds h1 h2 h3 =>
        have hi' := LitItem.hex ds h1 h2 h3
        have := litRef_of_item hi' rest
        simp only [List.cons_append, litExpand]
        simp only [show ((38 : Nat) == 37) = false by decide, Bool.false_eq_true, if_false, beq_self_eq_true, if_true]
        have e : 35 :: 120 :: (ds ++ [59] ++ rest) = 35 :: 120 :: (ds ++ [59]) ++ rest := by simp
        rw [e, this]
        simp only []
        rw [if_pos (by simp; omega), ih fuel (by simp at hlen hf; omega)]
        rfl
      | ent c nm h1 h2 =>
        have hi' := LitItem.ent c nm h1 h2
        have := litRef_of_item hi' rest
        simp only [List.cons_append, litExpand]
        simp only [show ((38 : Nat) == 37) = false by decide, Bool.false_eq_true, if_false, beq_self_eq_true, if_true]
        have e : c :: (nm ++ [59] ++ rest) = c :: (nm ++ [59]) ++ rest := by simp
        rw [e, this]
        simp only []
        rw [if_pos (by simp; omega), ih fuel (by simp at hlen hf; omega)]
        rfl

/-- the scanner with the fuel `wfValue` gives it decides the grammar of entity literals -/
theorem litExpand_iff (v rt : Text) : litExpand (v.length + 1) v = some rt ↔ Lit v rt :=
  ⟨litExpand_sound _ v rt, fun h => litExpand_complete h _ (by omega)⟩

/-! ### what a literal cannot contain -/

theorem litItem_no_percent {a e : Text} (h : LitItem a e) : 37 ∉ a := by
  cases h with
  | char c h1 _ _ => simp; exact fun h => h1 h.symm
  | dec ds _ h2 _ =>
    simp only [List.mem_cons, List.mem_append, List.not_mem_nil, or_false, not_or]
    refine ⟨by decide, by decide, ?_, by decide⟩
    intro hm; have := List.all_eq_true.mp h2 37 hm; revert this; decide
  | hex ds _ h2 _ =>
    simp only [List.mem_cons, List.mem_append, List.not_mem_nil, or_false, not_or]
    refine ⟨by decide, by decide, by decide, ?_, by decide⟩
    intro hm; have := List.all_eq_true.mp h2 37 hm; revert this; decide
  | ent c nm h1 h2 =>
    simp only [List.mem_cons, List.mem_append, List.not_mem_nil, or_false, not_or]
    refine ⟨by decide, ?_, ?_, by decide⟩
    · intro h; subst h; revert h1; decide
    · intro hm; have := List.all_eq_true.mp h2 37 hm; revert this; decide

theorem lit_no_percent {v rt : Text} (h : Lit v rt) : 37 ∉ v := by
  induction h with
  | nil => simp
  | cons a e rest rt hi _ ih =>
    simp only [List.mem_append, not_or]
    exact ⟨litItem_no_percent hi, ih⟩

/-- the tail of a reference item (after its `&`) contains no `&` -/
theorem litItem_tail_no_amp {a e : Text} (h : LitItem (38 :: a) e) : 38 ∉ a := by
  generalize hx : 38 :: a = x at h
  cases h with
  | char c h1 h2 h3 => simp at hx; exact absurd hx.1.symm h2
  | dec ds _ h2 _ =>
    simp only [List.cons.injEq, true_and] at hx; subst hx
    simp only [List.mem_cons, List.mem_append, List.not_mem_nil, or_false, not_or]
    refine ⟨by decide, ?_, by decide⟩
    intro hm; have := List.all_eq_true.mp h2 38 hm; revert this; decide
  | hex ds _ h2 _ =>
    simp only [List.cons.injEq, true_and] at hx; subst hx
    simp only [List.mem_cons, List.mem_append, List.not_mem_nil, or_false, not_or]
    refine ⟨by decide, by decide, ?_, by decide⟩
    intro hm; have := List.all_eq_true.mp h2 38 hm; revert this; decide
  | ent c nm h1 h2 =>
    simp only [List.cons.injEq, true_and] at hx; subst hx
    simp only [List.mem_cons, List.mem_append, List.not_mem_nil, or_false, not_or]
    refine ⟨?_, ?_, by decide⟩
    · intro h; subst h; revert h1; decide
    · intro hm; have := List.all_eq_true.mp h2 38 hm; revert this; decide

/-- `b` begins with the rest of a complete reference (what must follow an `&`) -/
def RefStart (b : Text) : Prop := ∃ a e rest, LitItem (38 :: a) e ∧ b = a ++ rest

/-- if `x ++ r = a ++ 38 :: b` and `x` has no `&`, then `x` lies inside `a` -/
theorem split_before_amp : ∀ (x r a b : Text), 38 ∉ x → x ++ r = a ++ 38 :: b → ∃ a', a = x ++ a' ∧ r = a' ++ 38 :: b
  | [], r, a, b, _, h => ⟨a, rfl, by simpa using h⟩
  | c :: x, r, [], b, hx, h => by
    simp only [List.cons_append, List.nil_append, List.cons.injEq] at h
    exact absurd (by simp [h.1]) hx
  | c :: x, r, d :: a, b, hx, h => by
    simp only [List.cons_append, List.cons.injEq] at h
    obtain ⟨rfl, h⟩ := h
    obtain ⟨a', rfl, hr⟩ := split_before_amp x r a b (fun hm => hx (List.mem_cons_of_mem _ hm)) h
    exact ⟨a', rfl, hr⟩

/-- every `&` of an entity literal — wherever it stands, also inside a comment, a CDATA section, a processing
    instruction or an attribute value of the value — begins a complete reference -/
theorem lit_amp_is_reference {v rt : Text} (h : Lit v rt) : ∀ a b, v = a ++ 38 :: b → RefStart b := by
  induction h with
  | nil => intro a b h; simp at h
  | cons x e rest rt hi _ ih =>
    intro a b hv
    cases a with
    | nil =>
      simp only [List.nil_append] at hv
      cases hx : x with
      | nil => exact absurd hx (litItem_ne_nil hi)
      | cons c x' =>
        rw [hx] at hv hi
        simp only [List.cons_append, List.cons.injEq] at hv
        obtain ⟨rfl, rfl⟩ := hv
        exact ⟨x', e, rest, hi, rfl⟩
    | cons c a' =>
      cases hx : x with
      | nil => exact absurd hx (litItem_ne_nil hi)
      | cons c' x' =>
        rw [hx] at hv hi
        simp only [List.cons_append, List.cons.injEq] at hv
        obtain ⟨rfl, hv⟩ := hv
        have hno : 38 ∉ x' := by
          by_cases h38 : c' = 38
          · subst h38; exact litItem_tail_no_amp hi
          · generalize hy : c' :: x' = y at hi
            cases hi with
            | char c _ _ _ => simp at hy; rw [hy.2]; simp
            | dec ds _ _ _ => simp at hy; exact absurd hy.1 h38
            | hex ds _ _ _ => simp at hy; exact absurd hy.1 h38
            | ent c nm _ _ => simp at hy; exact absurd hy.1 h38
        obtain ⟨a'', _, hr⟩ := split_before_amp x' rest a' b hno hv
        exact ih a'' b hr

/-! ### `wfValue` -/

theorem wfValue_iff (declared : List Text) (key v : Text) :
    wfValue declared key v = true ↔
      wf declared v = true ∧ ∃ rt, Lit v rt ∧ wf (declared.filter (fun d => !(d == key))) rt = true := by
  unfold wfValue
  constructor
  · intro h
    simp only [Bool.and_eq_true] at h
    obtain ⟨h1, h2⟩ := h
    split at h2
    · rename_i rt hrt
      exact ⟨h1, rt, (litExpand_iff v rt).mp hrt, h2⟩
    · cases h2
  · rintro ⟨h1, rt, hl, h2⟩
    rw [h1, (litExpand_iff v rt).mpr hl]
    simpa using h2

theorem wfValue_false_of_not_lit (declared : List Text) (key v : Text) (h : ¬ ∃ rt, Lit v rt) :
    wfValue declared key v = false := by
  cases hv : wfValue declared key v with
  | false => rfl
  | true =>
    obtain ⟨_, rt, hl, _⟩ := (wfValue_iff declared key v).mp hv
    exact absurd ⟨rt, hl⟩ h

/-! ### when an `&` does NOT begin a reference -/

theorem not_refStart_nil : ¬ RefStart [] := by
  rintro ⟨a, e, rest, hi, h⟩
  have : a = [] := by
    cases a with
    | nil => rfl
    | cons c t => simp at h
  subst this
  generalize hx : [38] = x at hi
  cases hi with
  | char c _ h2 _ => simp at hx; exact h2 hx.symm
  | dec ds _ _ _ => simp at hx
  | hex ds _ _ _ => simp at hx
  | ent c nm _ _ => simp at hx

/-- after `&` must come `#` or a name start character -/
theorem not_refStart_head (c : Nat) (t : Text) (h1 : c ≠ 35) (h2 : isNameStart c = false) : ¬ RefStart (c :: t) := by
  rintro ⟨a, e, rest, hi, h⟩
  generalize hx : 38 :: a = x at hi
  cases hi with
  | char c' _ h38 _ => simp at hx; exact h38 hx.1.symm
  | dec ds _ _ _ =>
    simp only [List.cons.injEq, true_and] at hx; subst hx
    simp only [List.cons_append, List.cons.injEq] at h
    exact h1 h.1
  | hex ds _ _ _ =>
    simp only [List.cons.injEq, true_and] at hx; subst hx
    simp only [List.cons_append, List.cons.injEq] at h
    exact h1 h.1
  | ent c' nm hns _ =>
    simp only [List.cons.injEq, true_and] at hx; subst hx
    simp only [List.cons_append, List.cons.injEq] at h
    rw [h.1, hns] at h2
    cases h2

/-! ### the bytes of the second document -/

open Dtd in
theorem utf8_append (a b : List Nat) :
    utf8 (a ++ b) = (match utf8 a, utf8 b with | some x, some y => some (x ++ y) | _, _ => none) := by
  induction a with
  | nil => simp only [List.nil_append, utf8]; cases utf8 b <;> rfl
  | cons c t ih =>
    simp only [List.cons_append, utf8, ih]
    cases utf8Char c <;> cases utf8 t <;> cases utf8 b <;> simp

open Dtd in
theorem utf8_ascii (a : List Nat) (h : ∀ c ∈ a, c < 128) : utf8 a = some a := by
  induction a with
  | nil => rfl
  | cons c t ih =>
    have hc : c < 128 := h c (by simp)
    simp only [utf8, utf8Char, hc, if_true, ih (fun x hx => h x (List.mem_cons_of_mem _ hx))]
    rfl

open Dtd in
theorem utf8_append_some {a b x y : List Nat} (ha : utf8 a = some x) (hb : utf8 b = some y) : utf8 (a ++ b) = some (x ++ y) := by
  rw [utf8_append, ha, hb]

/-- `<!ENTITY` -/
def kwEntity : List Nat := [60, 33, 69, 78, 84, 73, 84, 89]

/-- the source text of a declaration as `DTDParser.reKey` matches it (what `Entity.all` is): `<!ENTITY` S key S
    q value q S? `>` with the delimiter `q` the author chose -/
def declText (ws1 key ws2 : List Nat) (q : Nat) (val ws3 : List Nat) : List Nat :=
  kwEntity ++ (ws1 ++ (key ++ (ws2 ++ (q :: (val ++ (q :: (ws3 ++ [62])))))))

open Dtd in
/-- the second document, byte for byte -/
theorem docDecl_bytes (entities : List Nat) (e : Ent) (d : List Nat) (h : docDecl entities e = some d) :
    ∃ a dcl k, utf8 e.all = some a ∧ utf8 entities = some dcl ∧ utf8 e.key = some k ∧
      d = Gen.Tables.dtdTmplPre ++ (a ++ dcl) ++ Gen.Tables.dtdTmplMid ++ (38 :: k ++ [59]) ++ Gen.Tables.dtdTmplPost := by
  unfold docDecl at h
  rw [utf8_append] at h
  cases ha : utf8 e.all with
  | none => simp [ha] at h
  | some a =>
    cases hd : utf8 entities with
    | none => simp [ha, hd] at h
    | some dcl =>
      cases hk : utf8 e.key with
      | none => simp [ha, hd, hk] at h
      | some k =>
        simp only [ha, hd, hk, Option.some.injEq] at h
        exact ⟨a, dcl, k, rfl, rfl, rfl, by rw [← h]; rfl⟩

open Dtd in
/-- the declaration inside the second document carries the ORIGINAL delimiter -/
theorem docDecl_keeps_delimiter (entities : List Nat) (e : Ent) (ws1 ws2 ws3 : List Nat) (q : Nat) (hq : q = 34 ∨ q = 39)
    (h1 : ∀ c ∈ ws1, c < 128) (h2 : ∀ c ∈ ws2, c < 128) (h3 : ∀ c ∈ ws3, c < 128)
    (hall : e.all = declText ws1 e.key ws2 q e.val ws3) (d : List Nat) (h : docDecl entities e = some d) :
    ∃ k v dcl, utf8 e.key = some k ∧ utf8 e.val = some v ∧ utf8 entities = some dcl ∧
      d = Gen.Tables.dtdTmplPre ++ (declText ws1 k ws2 q v ws3 ++ dcl) ++ Gen.Tables.dtdTmplMid ++ (38 :: k ++ [59]) ++
        Gen.Tables.dtdTmplPost := by
  obtain ⟨a, dcl, k, ha, hd, hk, rfl⟩ := docDecl_bytes entities e d h
  have hq' : q < 128 := by rcases hq with rfl | rfl <;> decide
  rw [hall] at ha
  unfold declText at ha
  have hkw : utf8 kwEntity = some kwEntity := utf8_ascii _ (by decide)
  cases hv : utf8 e.val with
  | none =>
    exfalso
    simp only [utf8_append, hkw, utf8_ascii _ h1, hk, utf8_ascii _ h2] at ha
    have : utf8 (q :: (e.val ++ q :: (ws3 ++ [62]))) = none := by
      simp only [utf8, utf8_append, hv]
      cases utf8Char q <;> rfl
    rw [this] at ha
    cases ha
  | some v =>
    refine ⟨k, v, dcl, hk, rfl, hd, ?_⟩
    have h62 : utf8 (ws3 ++ [62]) = some (ws3 ++ [62]) :=
      utf8_ascii _ (by intro c hc; simp at hc; rcases hc with hc | rfl; exact h3 c hc; decide)
    have hqv : utf8 (q :: (e.val ++ q :: (ws3 ++ [62]))) = some (q :: (v ++ q :: (ws3 ++ [62]))) := by
      have e1 : utf8 (q :: (ws3 ++ [62])) = some (q :: (ws3 ++ [62])) := by
        simp only [utf8, utf8Char, hq', if_true, h62]; rfl
      have e2 := utf8_append_some hv e1
      simp only [utf8, utf8Char, hq', if_true, e2]; rfl
    have := utf8_append_some hkw (utf8_append_some (utf8_ascii _ h1) (utf8_append_some hk (utf8_append_some (utf8_ascii _ h2) hqv)))
    rw [this] at ha
    simp only [Option.some.injEq] at ha
    rw [← ha]
    rfl

end C07L

/- C06 helper lemmas, part 7: consequences of the closed form of `getPrintfSpecs`:
   exactly three malformed cases; `%%` is ignored; ordered arguments may be reordered. -/
import CLModel.Proofs.C06Specs
namespace PropCk

/-- filter predicate: the token is not `%%` -/
def notPct (t : Nat × ATok) : Bool :=
  match t.2 with
  | .pct => false
  | _ => true

def HasLone (ts : List (Nat × ATok)) : Prop := ∃ p, (p, ATok.lone) ∈ ts

/-- ordered and unordered arguments both occur -/
def Mixed (ts : List (Nat × ATok)) : Prop :=
  (∃ a ∈ argsOf ts, a.1.isSome = true) ∧ (∃ a ∈ argsOf ts, a.1.isSome = false)

/-- all arguments are ordered, and some number below the highest one is not used -/
def Gap (ts : List (Nat × ATok)) : Prop :=
  (∀ a ∈ argsOf ts, a.1.isSome = true) ∧
  ∃ p, p < maxNum (argsOf ts) ∧ ∀ a ∈ argsOf ts, a.1 ≠ some (p + 1)

theorem argsOf_eq_filterMap (ts : List (Nat × ATok)) :
    argsOf ts = ts.filterMap (fun t => match t.2 with
      | .arg num spec => some (num, spec)
      | _ => none) := by
  induction ts with
  | nil => rfl
  | cons t ts ih =>
    obtain ⟨p, tok⟩ := t
    cases tok <;> simp [argsOf, ih]

theorem scanErr_some_iff (ts : List (Nat × ATok)) :
    ∀ mode, (∃ e, scanErr ts mode = some e) ↔
      HasLone ts ∨ (∃ a ∈ argsOf ts, mode = some (!a.1.isSome)) ∨ Mixed ts := by
  induction ts with
  | nil => intro mode; simp [scanErr, HasLone, Mixed, argsOf]
  | cons t ts ih =>
    intro mode
    obtain ⟨p, tok⟩ := t
    cases tok with
    | lone =>
      simp only [scanErr, Option.some.injEq, exists_eq', true_iff]
      left; exact ⟨p, by simp⟩
    | pct =>
      simp only [scanErr, ih mode, argsOf]
      constructor
      · rintro (⟨q, hq⟩ | h | h)
        · left; exact ⟨q, by simp [hq]⟩
        · right; left; exact h
        · right; right; exact h
      · rintro (⟨q, hq⟩ | h | h)
        · left; refine ⟨q, ?_⟩; simpa using hq
        · right; left; exact h
        · right; right; exact h
    | arg num spec =>
      simp only [scanErr, argsOf]
      by_cases hm : mode = some (!num.isSome)
      · simp only [hm, if_true, Option.some.injEq, exists_eq', true_iff]
        right; left; exact ⟨(num, spec), by simp, rfl⟩
      · simp only [hm, if_false, ih (some num.isSome)]
        constructor
        · rintro (⟨q, hq⟩ | ⟨a, ha, he⟩ | ⟨⟨a, ha, h1⟩, ⟨a', ha', h2⟩⟩)
          · left; exact ⟨q, by simp [hq]⟩
          · right; right
            simp only [Option.some.injEq] at he
            cases hb : num.isSome
            · rw [hb] at he
              exact ⟨⟨a, by simp [argsOf, ha], by simpa using he.symm⟩, ⟨(num, spec), by simp [argsOf], hb⟩⟩
            · rw [hb] at he
              exact ⟨⟨(num, spec), by simp [argsOf], hb⟩, ⟨a, by simp [argsOf, ha], by simpa using he.symm⟩⟩
          · right; right
            exact ⟨⟨a, by simp [argsOf, ha], h1⟩, ⟨a', by simp [argsOf, ha'], h2⟩⟩
        · rintro (⟨q, hq⟩ | ⟨a, ha, he⟩ | ⟨⟨a, ha, h1⟩, ⟨a', ha', h2⟩⟩)
          · left; refine ⟨q, ?_⟩; simpa using hq
          · rcases List.mem_cons.mp ha with rfl | ha
            · exact absurd he hm
            · right; left
              refine ⟨a, ha, ?_⟩
              -- the mode of the head differs from a's style: a is the other style
              by_cases hs : a.1.isSome = num.isSome
              · rw [hs] at he; exact absurd he hm
              · cases h1 : a.1.isSome <;> cases h2 : num.isSome <;> simp_all
          · rcases List.mem_cons.mp ha with rfl | ha <;> rcases List.mem_cons.mp ha' with rfl | ha'
            · exact absurd (h1.symm.trans h2) (by simp)
            · right; left; exact ⟨a', ha', by have h1' : num.isSome = true := h1; simp [h1', h2]⟩
            · right; left; exact ⟨a, ha, by have h2' : num.isSome = false := h2; simp [h1, h2']⟩
            · right; right; exact ⟨⟨a, ha, h1⟩, ⟨a', ha', h2⟩⟩

theorem lastSpecAt_none_iff (as : List (Option Nat × Text)) (p : Nat) :
    lastSpecAt as p = none ↔ ∀ a ∈ as, a.1.getD 0 - 1 ≠ p := by
  constructor
  · intro h
    have : ∀ (as : List (Option Nat × Text)) (acc : Option Text),
        as.foldl (fun acc a => if a.1.getD 0 - 1 = p then some a.2 else acc) acc = none →
        ∀ a ∈ as, a.1.getD 0 - 1 ≠ p := by
      intro as
      induction as with
      | nil => intro _ _ a ha; simp at ha
      | cons x xs ih =>
        intro acc h a ha
        simp only [List.foldl_cons] at h
        rcases List.mem_cons.mp ha with rfl | ha
        · intro hx
          simp only [hx, if_true] at h
          -- the accumulator is `some` and can only stay `some`
          have : ∀ (l : List (Option Nat × Text)) (t : Text),
              l.foldl (fun acc a => if a.1.getD 0 - 1 = p then some a.2 else acc) (some t) ≠ none := by
            intro l
            induction l with
            | nil => intro t; simp
            | cons y ys ih2 =>
              intro t
              simp only [List.foldl_cons]
              split
              · exact ih2 _
              · exact ih2 _
          exact this _ _ h
        · exact ih _ h a ha
    exact this as none h
  · intro h
    exact foldl_last_none as p none h

/-- **`getPrintfSpecs` fails exactly in the three malformed cases.** -/
theorem specsSpec_error_iff (ts : List (Nat × ATok)) (hwf : WFToks ts) :
    (∃ e, specsSpec ts = .error e) ↔ HasLone ts ∨ Mixed ts ∨ Gap ts := by
  have hscan := scanErr_some_iff ts none
  simp only [reduceCtorEq, and_false, exists_false, false_or] at hscan
  unfold specsSpec
  cases hs : scanErr ts none with
  | some e =>
    simp only [Except.error.injEq, exists_eq', true_iff]
    rcases hscan.mp ⟨e, hs⟩ with h | h
    · left; exact h
    · right; left; exact h
  | none =>
    have hno : ¬ (HasLone ts ∨ Mixed ts) := by
      intro h
      obtain ⟨e, he⟩ := hscan.mpr h
      rw [hs] at he; cases he
    have huni := (foldA_spec ts [] ⟨by simp, by simp⟩ hwf).2 (by simpa [modeOf] using hs)
    simp only [List.nil_append] at huni
    simp only
    cases ha : argsOf ts with
    | nil =>
      simp only [reduceCtorEq, exists_false, false_iff]
      rintro (h | h | ⟨_, p, hp, _⟩)
      · exact hno (Or.inl h)
      · exact hno (Or.inr h)
      · rw [ha] at hp; simp [maxNum] at hp
    | cons a as =>
      obtain ⟨an, asp⟩ := a
      cases an with
      | none =>
        simp only [reduceCtorEq, exists_false, false_iff]
        rintro (h | h | ⟨hall, _⟩)
        · exact hno (Or.inl h)
        · exact hno (Or.inr h)
        · have := hall (none, asp) (by rw [ha]; simp)
          simp at this
      | some n =>
        rw [ha] at huni
        have hall : ∀ a' ∈ argsOf ts, a'.1.isSome = true := by
          intro a' ha'
          rw [ha] at ha'
          have := huni.2 a' ha' (some n, asp) (by simp)
          simpa using this
        have hge := uni_getD_ge huni rfl
        dsimp only
        constructor
        · rintro ⟨e, he⟩
          right; right
          refine ⟨hall, ?_⟩
          split at he
          · cases he
          · rename_i hnall
            have hx : (none : Option Text) ∈ positional ((some n, asp) :: as) := by simpa using hnall
            simp only [positional, List.mem_map, List.mem_range] at hx
            obtain ⟨p, hp, hpx⟩ := hx
            rw [ha]
            refine ⟨p, hp, ?_⟩
            have hnone : lastSpecAt ((some n, asp) :: as) p = none := hpx
            intro a' ha' hnum
            have := (lastSpecAt_none_iff _ p).mp hnone a' ha'
            rw [hnum] at this
            simp at this
        · rintro (h | h | ⟨_, p, hp, hnone⟩)
          · exact absurd (Or.inl h) hno
          · exact absurd (Or.inr h) hno
          · rw [ha] at hp hnone
            have : ¬ (positional ((some n, asp) :: as)).all Option.isSome = true := by
              rw [Bool.not_eq_true, List.all_eq_false]
              refine ⟨none, ?_, by simp⟩
              simp only [positional, List.mem_map, List.mem_range]
              refine ⟨p, hp, ?_⟩
              rw [lastSpecAt_none_iff]
              intro a' ha' hk
              have h1 := hge a' ha'
              apply hnone a' ha'
              have hs' := huni.2 a' ha' (some n, asp) (by simp)
              simp only [Option.isSome_some] at hs'
              obtain ⟨m, hm⟩ := Option.isSome_iff_exists.mp hs'
              rw [hm] at hk h1 ⊢
              simp only [Option.getD_some] at hk h1
              congr 1; omega
            simp only [this, Bool.false_eq_true, if_false]
            exact ⟨_, rfl⟩

theorem argsOf_filter_notPct (ts : List (Nat × ATok)) : argsOf (ts.filter notPct) = argsOf ts := by
  induction ts with
  | nil => rfl
  | cons t ts ih =>
    obtain ⟨p, tok⟩ := t
    cases tok <;> simp [List.filter_cons, argsOf, ih, notPct]

theorem scanErr_filter_notPct (ts : List (Nat × ATok)) :
    ∀ mode, scanErr (ts.filter notPct) mode = scanErr ts mode := by
  induction ts with
  | nil => intro mode; rfl
  | cons t ts ih =>
    intro mode
    obtain ⟨p, tok⟩ := t
    cases tok with
    | lone => simp [List.filter_cons, scanErr, notPct]
    | pct => simp [List.filter_cons, scanErr, ih, notPct]
    | arg num spec =>
      simp only [List.filter_cons, notPct, if_true, scanErr]
      split
      · rfl
      · exact ih _

/-- **`%%` (and therefore any surrounding text, which is not a token at all) is ignored.** -/
theorem specsSpec_ignores_pct (ts : List (Nat × ATok)) :
    specsSpec (ts.filter notPct) = specsSpec ts := by
  unfold specsSpec
  rw [scanErr_filter_notPct, argsOf_filter_notPct]

end PropCk

namespace PropCk

/-- arguments of a list of tokens without positions -/
def argOfTok : ATok → Option (Option Nat × Text)
  | .arg num spec => some (num, spec)
  | _ => none

theorem argsOf_eq_filterMap' (ts : List (Nat × ATok)) :
    argsOf ts = (ts.map (·.2)).filterMap argOfTok := by
  induction ts with
  | nil => rfl
  | cons t ts ih =>
    obtain ⟨p, tok⟩ := t
    cases tok <;> simp only [argsOf, List.map_cons, List.filterMap_cons, argOfTok, ih]

theorem foldl_max_attained (as : List (Option Nat × Text)) :
    ∀ m, as.foldl (fun m a => max m (a.1.getD 0)) m = m ∨
      ∃ a ∈ as, a.1.getD 0 = as.foldl (fun m a => max m (a.1.getD 0)) m := by
  induction as with
  | nil => intro m; left; rfl
  | cons x xs ih =>
    intro m
    simp only [List.foldl_cons]
    rcases ih (max m (x.1.getD 0)) with h | ⟨a, ha, he⟩
    · rw [h]
      by_cases hm : x.1.getD 0 ≤ m
      · left; omega
      · right; exact ⟨x, by simp, by omega⟩
    · right; exact ⟨a, by simp [ha], he⟩

theorem maxNum_perm {as as' : List (Option Nat × Text)} (h : as.Perm as') : maxNum as = maxNum as' := by
  have key : ∀ {l l' : List (Option Nat × Text)}, l.Perm l' → maxNum l ≤ maxNum l' := by
    intro l l' hp
    rcases foldl_max_attained l 0 with h0 | ⟨a, ha, he⟩
    · unfold maxNum; omega
    · have := le_maxNum (hp.subset ha)
      unfold maxNum at this ⊢
      omega
  exact Nat.le_antisymm (key h) (key h.symm)

theorem lastSpecAt_some {as : List (Option Nat × Text)} {p : Nat} {t : Text}
    (h : lastSpecAt as p = some t) : ∃ a ∈ as, a.1.getD 0 - 1 = p ∧ a.2 = t := by
  have : ∀ (as : List (Option Nat × Text)) (acc : Option Text),
      as.foldl (fun acc a => if a.1.getD 0 - 1 = p then some a.2 else acc) acc = some t →
      acc = some t ∨ ∃ a ∈ as, a.1.getD 0 - 1 = p ∧ a.2 = t := by
    intro as
    induction as with
    | nil => intro acc h; left; exact h
    | cons x xs ih =>
      intro acc h
      simp only [List.foldl_cons] at h
      rcases ih _ h with h' | ⟨a, ha, hk, hat⟩
      · split at h'
        · rename_i hk
          right; exact ⟨x, by simp, hk, by simpa using h'⟩
        · left; exact h'
      · right; exact ⟨a, by simp [ha], hk, hat⟩
  rcases this as none h with h' | h'
  · cases h'
  · exact h'

/-- same number ⇒ same type -/
def Consistent (as : List (Option Nat × Text)) : Prop :=
  ∀ a ∈ as, ∀ a' ∈ as, a.1 = a'.1 → a.2 = a'.2

theorem lastSpecAt_perm {as as' : List (Option Nat × Text)} (hp : as.Perm as')
    (hc : Consistent as) (hord : ∀ a ∈ as, ∃ n, a.1 = some n ∧ n ≥ 1) (p : Nat) :
    lastSpecAt as p = lastSpecAt as' p := by
  cases h : lastSpecAt as p with
  | none =>
    symm
    rw [lastSpecAt_none_iff] at h ⊢
    intro a ha
    exact h a (hp.symm.subset ha)
  | some t =>
    obtain ⟨a, ha, hk, hat⟩ := lastSpecAt_some h
    cases h' : lastSpecAt as' p with
    | none =>
      rw [lastSpecAt_none_iff] at h'
      exact absurd hk (h' a (hp.subset ha))
    | some t' =>
      obtain ⟨a', ha', hk', hat'⟩ := lastSpecAt_some h'
      have ha'' := hp.symm.subset ha'
      obtain ⟨n, hn, hn1⟩ := hord a ha
      obtain ⟨n', hn', hn1'⟩ := hord a' ha''
      have : a.1 = a'.1 := by
        rw [hn, hn']
        rw [hn] at hk; rw [hn'] at hk'
        simp only [Option.getD_some] at hk hk'
        congr 1; omega
      rw [← hat, ← hat', hc a ha a' ha'' this]

/-- **Ordered arguments may be reordered**: two token lists with the same multiset of tokens
    (offsets ignored), consisting of `%%` and ordered arguments only, the same number always
    carrying the same type, have the same specifier list. -/
theorem specsSpec_reorder (ts ts' : List (Nat × ATok)) (hwf : WFToks ts)
    (hperm : (ts.map (·.2)).Perm (ts'.map (·.2)))
    (hord : ∀ t ∈ ts, t.2 = ATok.pct ∨ ∃ n sp, t.2 = ATok.arg (some n) sp)
    (hcons : Consistent (argsOf ts)) :
    specsSpec ts = specsSpec ts' := by
  have hargs : (argsOf ts).Perm (argsOf ts') := by
    rw [argsOf_eq_filterMap', argsOf_eq_filterMap']
    exact hperm.filterMap _
  have hord' : ∀ t ∈ ts', t.2 = ATok.pct ∨ ∃ n sp, t.2 = ATok.arg (some n) sp := by
    intro t ht
    have : t.2 ∈ ts.map (·.2) := hperm.symm.subset (List.mem_map_of_mem ht)
    obtain ⟨t0, ht0, he⟩ := List.mem_map.mp this
    rw [← he]; exact hord t0 ht0
  have hargsOrd : ∀ {l : List (Nat × ATok)}, (∀ t ∈ l, t.2 = ATok.pct ∨ ∃ n sp, t.2 = ATok.arg (some n) sp) →
      ∀ a ∈ argsOf l, ∃ n, a.1 = some n := by
    intro l hl a ha
    rw [argsOf_eq_filterMap', List.mem_filterMap] at ha
    obtain ⟨tok, htok, hat⟩ := ha
    obtain ⟨t, ht, rfl⟩ := List.mem_map.mp htok
    rcases hl t ht with h | ⟨n, sp, h⟩
    · rw [h] at hat; simp [argOfTok] at hat
    · rw [h] at hat; simp only [argOfTok, Option.some.injEq] at hat
      exact ⟨n, by rw [← hat]⟩
  have hscan : ∀ {l : List (Nat × ATok)}, (∀ t ∈ l, t.2 = ATok.pct ∨ ∃ n sp, t.2 = ATok.arg (some n) sp) →
      scanErr l none = none := by
    intro l hl
    cases hs : scanErr l none with
    | none => rfl
    | some e =>
      rcases (scanErr_some_iff l none).mp ⟨e, hs⟩ with ⟨p, hp⟩ | ⟨a, _, h⟩ | ⟨_, ⟨a, ha, h⟩⟩
      · rcases hl _ hp with h | ⟨_, _, h⟩ <;> cases h
      · cases h
      · obtain ⟨n, hn⟩ := hargsOrd hl a ha
        rw [hn] at h; cases h
  have hordArgs : ∀ a ∈ argsOf ts, ∃ n, a.1 = some n ∧ n ≥ 1 := by
    intro a ha
    obtain ⟨n, hn⟩ := hargsOrd hord a ha
    refine ⟨n, hn, ?_⟩
    rw [argsOf_eq_filterMap', List.mem_filterMap] at ha
    obtain ⟨tok, htok, hat⟩ := ha
    obtain ⟨t, ht, rfl⟩ := List.mem_map.mp htok
    obtain ⟨p, tk⟩ := t
    cases tk with
    | lone => simp [argOfTok] at hat
    | pct => simp [argOfTok] at hat
    | arg num spec =>
      simp only [argOfTok, Option.some.injEq] at hat
      have := (hwf p num spec ht).2 n (by rw [← hat] at hn; exact hn)
      exact this
  have hpos : positional (argsOf ts) = positional (argsOf ts') := by
    unfold positional
    rw [maxNum_perm hargs]
    apply List.map_congr_left
    intro p _
    exact lastSpecAt_perm hargs hcons hordArgs p
  unfold specsSpec
  rw [hscan hord, hscan hord']
  simp only
  cases ha : argsOf ts with
  | nil =>
    have : argsOf ts' = [] := by
      have := hargs.length_eq; rw [ha] at this
      exact List.eq_nil_of_length_eq_zero this.symm
    rw [this]
  | cons a as =>
    obtain ⟨n, hn, _⟩ := hordArgs a (by rw [ha]; simp)
    cases ha' : argsOf ts' with
    | nil =>
      have := hargs.length_eq; rw [ha, ha'] at this; simp at this
    | cons a' as' =>
      obtain ⟨n', hn'⟩ := hargsOrd hord' a' (by rw [ha']; simp)
      obtain ⟨an, asp⟩ := a
      obtain ⟨an', asp'⟩ := a'
      simp only at hn hn'
      subst hn; subst hn'
      simp only
      rw [ha, ha'] at hpos
      rw [hpos]

end PropCk

/- C02 (extension), DTD: a printed list of `<!ENTITY key "value">` records walks to exactly the entities and the
   one-newline white-space entries. -/
import CLModel.Proofs.C02XRx
namespace C02X
open Rx P Gen.Pat

/-! ### the shape of the generated key regex (the big XML name classes are named, not unfolded) -/

def dtdWs : List ClsItem := [.ch 32, .ch 9, .ch 13, .ch 10]

/-- XML NameStartChar as generated from `DTDParser.NameStartChar` -/
def dtdNameStart : List ClsItem :=
  [.ch 58, .range 65 90, .ch 95, .range 97 122, .range 192 214, .range 216 246, .range 248 767, .range 880 893,
   .range 895 8191, .range 8204 8205, .range 8304 8591, .range 11264 12271, .range 12289 55295, .range 63744 64975,
   .range 65008 65533]

/-- XML NameChar as generated from `DTDParser.NameChar` -/
def dtdNameChar : List ClsItem :=
  [.ch 58, .range 65 90, .ch 95, .range 97 122, .range 192 214, .range 216 246, .range 248 767, .range 880 893,
   .range 895 8191, .range 8204 8205, .range 8304 8591, .range 11264 12271, .range 12289 55295, .range 63744 64975,
   .range 65008 65533, .ch 45, .ch 46, .range 48 57, .ch 183, .range 768 879, .range 8255 8256]

/-- `<!ENTITY[ws]+(?P<key>NameStart NameChar*)[ws]+(?P<val>"[^"]*"|'[^']*'?)[ws]*>` — if the source regex changes this
    `rfl` (and everything below) breaks -/
theorem dtd_reKey_shape : DTDParser_reKey =
    (Re.seq (Re.lit 60) (Re.seq (Re.lit 33) (Re.seq (Re.lit 69) (Re.seq (Re.lit 78) (Re.seq (Re.lit 84) (Re.seq (Re.lit 73)
    (Re.seq (Re.lit 84) (Re.seq (Re.lit 89) (Re.seq (Re.rep 1 none true (Re.cls false dtdWs))
    (Re.seq (Re.group 1 (Re.seq (Re.cls false dtdNameStart) (Re.rep 0 none true (Re.cls false dtdNameChar))))
    (Re.seq (Re.rep 1 none true (Re.cls false dtdWs))
    (Re.seq (Re.group 2 (Re.alt (Re.seq (Re.lit 34) (Re.seq (Re.rep 0 none true (Re.notLit 34)) (Re.lit 34)))
                                (Re.seq (Re.lit 39) (Re.seq (Re.rep 0 none true (Re.notLit 39)) (Re.alt (Re.lit 39) Re.eps)))))
    (Re.seq (Re.rep 0 none true (Re.cls false dtdWs)) (Re.lit 62)))))))))))))) := rfl

/-! ### safe key characters: membership by evaluating `ClsItem.has` on the ASCII ranges only -/

def asciiLetter (c : Nat) : Bool := (65 ≤ c && c ≤ 90) || (97 ≤ c && c ≤ 122)

/-- ASCII letters, digits, `.`, `-` -/
def dtdKeyChar (c : Nat) : Bool := asciiLetter c || (48 ≤ c && c ≤ 57) || c == 46 || c == 45

theorem inC_of_has (items : List ClsItem) (it : ClsItem) (c : Nat) (hm : it ∈ items) (hh : it.has c = true) :
    inC false items c = true := by
  have : items.any (·.has c) = true := List.any_eq_true.mpr ⟨it, hm, hh⟩
  simp [inC, this]

theorem nameStart_of_letter (c : Nat) (h : asciiLetter c = true) : inC false dtdNameStart c = true := by
  simp only [asciiLetter, Bool.or_eq_true, Bool.and_eq_true, decide_eq_true_eq] at h
  rcases h with h | h
  · exact inC_of_has _ (.range 65 90) c (by simp [dtdNameStart]) (by simp [ClsItem.has, h])
  · exact inC_of_has _ (.range 97 122) c (by simp [dtdNameStart]) (by simp [ClsItem.has, h])

theorem nameChar_of_keyChar (c : Nat) (h : dtdKeyChar c = true) : inC false dtdNameChar c = true := by
  simp only [dtdKeyChar, asciiLetter, Bool.or_eq_true, Bool.and_eq_true, decide_eq_true_eq, beq_iff_eq] at h
  rcases h with (((h | h) | h) | h) | h
  · exact inC_of_has _ (.range 65 90) c (by simp [dtdNameChar]) (by simp [ClsItem.has, h])
  · exact inC_of_has _ (.range 97 122) c (by simp [dtdNameChar]) (by simp [ClsItem.has, h])
  · exact inC_of_has _ (.range 48 57) c (by simp [dtdNameChar]) (by simp [ClsItem.has, h])
  · exact inC_of_has _ (.ch 46) c (by simp [dtdNameChar]) (by simp [ClsItem.has, h])
  · exact inC_of_has _ (.ch 45) c (by simp [dtdNameChar]) (by simp [ClsItem.has, h])

theorem nameChar_32 : inC false dtdNameChar 32 = false := by decide

theorem ws_of_letter (c : Nat) (h : asciiLetter c = true) : inC false dtdWs c = false := by
  simp only [asciiLetter, Bool.or_eq_true, Bool.and_eq_true, decide_eq_true_eq] at h
  have : c ≠ 32 ∧ c ≠ 9 ∧ c ≠ 13 ∧ c ≠ 10 := by omega
  simp [inC, dtdWs, ClsItem.has, this]

/-! ### one record -/

/-- `<!ENTITY ` -/
def dtdPrefix : List Nat := [60, 33, 69, 78, 84, 73, 84, 89, 32]

/-- the text at `off`: `<!ENTITY `, key, ` "`, value, `">` -/
structure DtdRecAt (s : Array Nat) (off klen vlen : Nat) : Prop where
  pre : ∀ i, (hi : i < 9) → s[off + i]? = some (dtdPrefix[i]'(by simpa [dtdPrefix] using hi))
  klen_pos : 0 < klen
  key0 : ∃ c, s[off + 9]? = some c ∧ asciiLetter c = true
  key : ∀ j, j < klen → ∃ c, s[off + 9 + j]? = some c ∧ dtdKeyChar c = true
  sep : s[off + 9 + klen]? = some 32
  q1 : s[off + 9 + klen + 1]? = some 34
  val : ∀ j, j < vlen → ∃ c, s[off + 9 + klen + 2 + j]? = some c ∧ c ≠ 34
  q2 : s[off + 9 + klen + 2 + vlen]? = some 34
  gt : s[off + 9 + klen + 2 + vlen + 1]? = some 62

/-- length of the printed record without its newline -/
def dtdLen (klen vlen : Nat) : Nat := 9 + klen + 2 + vlen + 2

/-- the entity `DTDParser.getNext` must produce: the value span is the quoted text WITHOUT the quotes -/
def dtdEntity (off klen vlen : Nat) : Entry :=
  { kind := .entity, full := off, s := off, e := off + dtdLen klen vlen, ks := (off + 9 : Nat), ke := (off + 9 + klen : Nat),
    vs := (off + 9 + klen + 2 : Nat), ve := (off + 9 + klen + 2 + vlen : Nat), pc := none }

theorem orElse_of_some {α} {a : Option α} {f : Unit → Option α} {r : α} (h : a = some r) : a.orElse f = some r := by
  subst h; rfl

theorem dtd_key_match (s : Array Nat) (off klen vlen : Nat) (h : DtdRecAt s off klen vlen) :
    matchAt s DTDParser_reKey off =
      some ⟨off + dtdLen klen vlen,
        [(2, off + 9 + klen + 1, off + 9 + klen + 2 + vlen + 1), (1, off + 9, off + 9 + klen)]⟩ := by
  have hkp := h.klen_pos
  obtain ⟨c0, hc0, hl0⟩ := h.key0
  have p0 := h.pre 0 (by omega); have p1 := h.pre 1 (by omega); have p2 := h.pre 2 (by omega)
  have p3 := h.pre 3 (by omega); have p4 := h.pre 4 (by omega); have p5 := h.pre 5 (by omega)
  have p6 := h.pre 6 (by omega); have p7 := h.pre 7 (by omega); have p8 := h.pre 8 (by omega)
  simp only [dtdPrefix, List.getElem_cons_zero, List.getElem_cons_succ, Nat.add_zero] at p0 p1 p2 p3 p4 p5 p6 p7 p8
  have hsz := getElem?_some_lt h.gt
  unfold dtdLen
  rw [dtd_reKey_shape]
  simp only [matchAt, m_seq, m_group, m_rep, m_alt, m_eps, m_cls_charStep, m_notLit_charStep]
  rw [lit_ok s off 60 [] p0, lit_ok s _ 33 [] p1, lit_ok s _ 69 [] p2, lit_ok s _ 78 [] p3, lit_ok s _ 84 [] p4,
    lit_ok s _ 73 [] p5, lit_ok s _ 84 [] p6, lit_ok s _ 89 [] p7]
  simp only [show off + 1 + 1 + 1 + 1 + 1 + 1 + 1 + 1 = off + 8 by omega]
  -- `[ws]+` : the one blank
  apply charLoop_hit s _ [] _ _ 1 _ (off + 8) 1 (by omega) (by omega)
  · intro j hj
    have : j = 0 := by omega
    subst this
    exact ⟨32, p8, by decide⟩
  · right
    exact ⟨c0, by rw [show off + 8 + 1 = off + 9 by omega]; exact hc0, ws_of_letter c0 hl0⟩
  simp only [show off + 8 + 1 = off + 9 by omega]
  -- NameStartChar
  rw [charStep_ok s _ (off + 9) c0 [] hc0 (nameStart_of_letter c0 hl0)]
  -- NameChar*
  apply charLoop_hit s _ [] _ _ (klen - 1) _ (off + 9 + 1) 0 (by simp only []; omega) (by omega)
  · intro j hj
    obtain ⟨c, hc, hk⟩ := h.key (j + 1) (by omega)
    exact ⟨c, by rw [show off + 9 + 1 + j = off + 9 + (j + 1) by omega]; exact hc, nameChar_of_keyChar c hk⟩
  · right
    exact ⟨32, by rw [show off + 9 + 1 + (klen - 1) = off + 9 + klen by omega]; exact h.sep, nameChar_32⟩
  simp only [show off + 9 + 1 + (klen - 1) = off + 9 + klen by omega]
  -- `[ws]+` : the one blank
  apply charLoop_hit s _ _ _ _ 1 _ (off + 9 + klen) 1 (by omega) (by omega)
  · intro j hj
    have : j = 0 := by omega
    subst this
    exact ⟨32, h.sep, by decide⟩
  · right
    exact ⟨34, h.q1, by decide⟩
  -- the quoted value
  apply orElse_of_some
  rw [lit_ok s _ 34 _ h.q1]
  apply charLoop_hit s _ _ _ _ vlen _ (off + 9 + klen + 1 + 1) 0 (by simp only []; omega) (by omega)
  · intro j hj
    obtain ⟨c, hc, hne⟩ := h.val j hj
    exact ⟨c, by rw [show off + 9 + klen + 1 + 1 + j = off + 9 + klen + 2 + j by omega]; exact hc, by simp [hne]⟩
  · right
    exact ⟨34, by rw [show off + 9 + klen + 1 + 1 + vlen = off + 9 + klen + 2 + vlen by omega]; exact h.q2, by decide⟩
  simp only [show off + 9 + klen + 1 + 1 + vlen = off + 9 + klen + 2 + vlen by omega]
  rw [lit_ok s _ 34 _ h.q2]
  -- `[ws]*>`
  apply charLoop_hit s _ _ _ _ 0 _ (off + 9 + klen + 2 + vlen + 1) 0 (by simp only []; omega) (by omega)
  · intro j hj; omega
  · right
    exact ⟨62, h.gt, by decide⟩
  simp only [Nat.add_zero]
  rw [lit_ok s _ 62 _ h.gt]
  simp; omega

theorem dtd_comment_none (s : Array Nat) (off : Nat)
    (h : s[off]? ≠ some 60 ∨ (s[off]? = some 60 ∧ s[off + 1]? = some 33 ∧ s[off + 2]? ≠ some 45)) :
    matchAt s DTDParser_reComment off = none := by
  simp only [matchAt, DTDParser_reComment, m_seq]
  rcases h with h | ⟨h0, h1, h2⟩
  · exact lit_fail s off 60 [] h _
  · rw [lit_ok s off 60 [] h0, lit_ok s _ 33 [] h1]
    exact lit_fail s _ 45 [] h2 _

theorem dtd_header_none (s : Array Nat) (h : s[0]? ≠ some 65279) : matchAt s DTDParser_reHeader 0 = none := by
  simp only [matchAt, DTDParser_reHeader, m_seq, m_bol]
  simp only [beq_self_eq_true, Bool.true_or, if_true]
  exact lit_fail s 0 65279 [] h _

theorem dtd_entity_at (s : Array Nat) (off klen vlen : Nat) (h : DtdRecAt s off klen vlen) :
    dtdGetNext s off = dtdEntity off klen vlen := by
  have p0 := h.pre 0 (by omega); have p1 := h.pre 1 (by omega); have p2 := h.pre 2 (by omega)
  simp only [dtdPrefix, List.getElem_cons_zero, List.getElem_cons_succ, Nat.add_zero] at p0 p1 p2
  have hoff : (if off == 0 && (matchAt s DTDParser_reHeader 0).isSome then off + 1 else off) = off := by
    by_cases h0 : off = 0
    · subst h0
      rw [dtd_header_none s (by rw [p0]; decide)]
      simp
    · simp [h0]
  have hcm := dtd_comment_none s off (Or.inr ⟨p0, p1, by rw [p2]; decide⟩)
  have hws := ws_none s off 60 p0 (by decide) (by decide) (by decide) (by decide)
  have hkm := dtd_key_match s off klen vlen h
  unfold dtdGetNext
  simp only [hoff]
  unfold getNext
  simp only [dtdCfg, hcm, hws, hkm]
  simp [dtdEntity, spanI, St.group, capOf, DTDParser_reKey_g_key, DTDParser_reKey_g_val]
  omega

theorem dtd_ws_at (s : Array Nat) (nl : Nat) (hpos : nl ≠ 0) (h0 : s[nl]? = some 10)
    (h1 : s[nl + 1]? = none ∨ ∃ c, s[nl + 1]? = some c ∧ c ≠ 32 ∧ c ≠ 9 ∧ c ≠ 13 ∧ c ≠ 10) :
    dtdGetNext s nl = wsEntry nl := by
  have hcm := dtd_comment_none s nl (Or.inl (by rw [h0]; decide))
  unfold dtdGetNext
  simp only [show (nl == 0) = false by simp [hpos], Bool.false_and, Bool.false_eq_true, if_false]
  rw [base_ws_at dtdCfg rfl s nl hcm h0 h1]
  simp [wsEntry]

/-! ### a printed list of records -/

abbrev DRec := List Nat × List Nat

/-- `<!ENTITY key "value">⏎` -/
def printDtdRec (r : DRec) : List Nat := dtdPrefix ++ (r.1 ++ ([32, 34] ++ (r.2 ++ [34, 62, 10])))

def printDtd (rs : List DRec) : List Nat := (rs.map printDtdRec).flatten

/-- key: an ASCII letter followed by ASCII letters / digits / `.` / `-`; value: no `"` (it would end the value) and no
    `&` (the value of such a text goes through the external `html.unescape`, which is not modelled) -/
structure SafeDtdRec (r : DRec) : Prop where
  key_ne : r.1 ≠ []
  key_head : ∀ c, r.1.head? = some c → asciiLetter c = true
  key : ∀ c ∈ r.1, dtdKeyChar c = true
  val : ∀ c ∈ r.2, c ≠ 34 ∧ c ≠ 38

theorem printDtdRec_length (r : DRec) : (printDtdRec r).length = dtdLen r.1.length r.2.length + 1 := by
  simp [printDtdRec, dtdLen, dtdPrefix]; omega

theorem dtdRecAt_of_drop (s : Array Nat) (off : Nat) (r : DRec) (rest : List Nat) (hs : SafeDtdRec r)
    (h : s.toList.drop off = printDtdRec r ++ rest) : DtdRecAt s off r.1.length r.2.length := by
  have hkl : 0 < r.1.length := List.length_pos_iff.mpr hs.key_ne
  have h1 : s.toList.drop off = dtdPrefix ++ (r.1 ++ ([32, 34] ++ (r.2 ++ ([34, 62, 10] ++ rest)))) := by
    simp [h, printDtdRec]
  have h2 : s.toList.drop (off + 9) = r.1 ++ ([32, 34] ++ (r.2 ++ ([34, 62, 10] ++ rest))) := drop_app s off _ _ h1
  have h3 : s.toList.drop (off + 9 + r.1.length) = [32, 34] ++ (r.2 ++ ([34, 62, 10] ++ rest)) := drop_app s _ _ _ h2
  have h4 : s.toList.drop (off + 9 + r.1.length + 2) = r.2 ++ ([34, 62, 10] ++ rest) := drop_app s _ _ _ h3
  have h5 : s.toList.drop (off + 9 + r.1.length + 2 + r.2.length) = [34, 62, 10] ++ rest := drop_app s _ _ _ h4
  refine ⟨?_, hkl, ?_, ?_, ?_, ?_, ?_, ?_, ?_⟩
  · intro i hi
    exact get_app_left s off _ _ h1 i (by simpa [dtdPrefix] using hi)
  · have hh : r.1.head? = some r.1[0] := by rw [List.head?_eq_getElem?]; simp [hkl]
    exact ⟨r.1[0], by simpa using get_app_left s _ _ _ h2 0 hkl, hs.key_head _ hh⟩
  · intro j hj
    exact ⟨r.1[j], get_app_left s _ _ _ h2 j hj, hs.key _ (List.getElem_mem hj)⟩
  · simpa using get_app_left s _ _ _ h3 0 (by simp)
  · simpa using get_app_left s _ _ _ h3 1 (by simp)
  · intro j hj
    exact ⟨r.2[j], get_app_left s _ _ _ h4 j hj, (hs.val _ (List.getElem_mem hj)).1⟩
  · simpa using get_app_left s _ _ _ h5 0 (by simp)
  · simpa using get_app_left s _ _ _ h5 1 (by simp)

def dtdExpEntries : Nat → List DRec → List Entry
  | _, [] => []
  | off, r :: rs =>
    dtdEntity off r.1.length r.2.length :: wsEntry (off + dtdLen r.1.length r.2.length) ::
      dtdExpEntries (off + dtdLen r.1.length r.2.length + 1) rs

theorem printDtdRec_head (r : DRec) (rest : List Nat) : (printDtdRec r ++ rest)[0]? = some 60 := by
  simp [printDtdRec, dtdPrefix]

theorem walk_dtd_from (s : Array Nat) :
    ∀ (rs : List DRec) (off fuel : Nat), s.toList.drop off = printDtd rs → (∀ r ∈ rs, SafeDtdRec r) →
      2 * rs.length ≤ fuel →
      walkFrom (fun (_ : Unit) o => (dtdGetNext s o, ())) s.size fuel () off = .done (dtdExpEntries off rs) := by
  intro rs
  induction rs with
  | nil =>
    intro off fuel h _ _
    exact walk_end _ _ _ _ _ (size_le_of_drop_nil s off (by simpa [printDtd] using h))
  | cons r rs ih =>
    intro off fuel h hsafe hfuel
    have hpp : printDtd (r :: rs) = printDtdRec r ++ printDtd rs := by simp [printDtd]
    rw [hpp] at h
    have hrec := dtdRecAt_of_drop s off r _ (hsafe r (by simp)) h
    obtain ⟨f, rfl⟩ : ∃ f, fuel = f + 1 + 1 := ⟨fuel - 2, by simp at hfuel; omega⟩
    have hlen := printDtdRec_length r
    have hdrop : s.toList.drop (off + dtdLen r.1.length r.2.length + 1) = printDtd rs := by
      have := drop_app s off _ _ h
      rw [hlen] at this
      rw [← this]; congr 1
    have hnl : s[off + dtdLen r.1.length r.2.length]? = some 10 := by
      have h1 : s.toList.drop off = (dtdPrefix ++ r.1 ++ [32, 34] ++ r.2 ++ [34, 62]) ++ (10 :: printDtd rs) := by
        simp [h, printDtdRec]
      have := get_app_right s off _ _ h1 0
      simp only [List.length_append, List.length_cons, List.length_nil, dtdPrefix, Nat.add_zero] at this
      rw [show off + dtdLen r.1.length r.2.length = off + (0 + 1 + 1 + 1 + 1 + 1 + 1 + 1 + 1 + 1 + r.1.length + (0 + 1 + 1) + r.2.length + (0 + 1 + 1)) by
        unfold dtdLen; omega, this]
      simp
    have hnlt := getElem?_some_lt hnl
    have hnext : s[off + dtdLen r.1.length r.2.length + 1]? = none ∨
        ∃ c, s[off + dtdLen r.1.length r.2.length + 1]? = some c ∧ c ≠ 32 ∧ c ≠ 9 ∧ c ≠ 13 ∧ c ≠ 10 := by
      have g := get_of_drop s (off + dtdLen r.1.length r.2.length + 1) 0 _ hdrop
      simp only [Nat.add_zero] at g
      rw [g]
      cases rs with
      | nil => left; simp [printDtd]
      | cons r' rs' =>
        right
        have : printDtd (r' :: rs') = printDtdRec r' ++ printDtd rs' := by simp [printDtd]
        rw [this, printDtdRec_head]
        exact ⟨60, rfl, by decide, by decide, by decide, by decide⟩
    have e1 := dtd_entity_at s off _ _ hrec
    have e2 := dtd_ws_at s (off + dtdLen r.1.length r.2.length) (by unfold dtdLen; omega) hnl hnext
    rw [walk_step _ _ _ () () off (dtdEntity off r.1.length r.2.length) (by omega) (by simp only [e1]),
      show (dtdEntity off r.1.length r.2.length).e = off + dtdLen r.1.length r.2.length from rfl,
      walk_step _ _ _ () () _ (wsEntry (off + dtdLen r.1.length r.2.length)) (by omega) (by simp only [e2]),
      show (wsEntry (off + dtdLen r.1.length r.2.length)).e = off + dtdLen r.1.length r.2.length + 1 from rfl,
      ih _ f hdrop (fun r' hr' => hsafe r' (by simp [hr'])) (by simp at hfuel; omega)]
    simp [WalkResult.cons, dtdExpEntries]

theorem printDtd_length_ge (rs : List DRec) : 2 * rs.length ≤ (printDtd rs).length := by
  induction rs with
  | nil => simp
  | cons r rs ih =>
    have : printDtd (r :: rs) = printDtdRec r ++ printDtd rs := by simp [printDtd]
    rw [this, List.length_append, printDtdRec_length]
    unfold dtdLen
    simp; omega

theorem walk_dtd_printed (rs : List DRec) (h : ∀ r ∈ rs, SafeDtdRec r) :
    walk .dtd (printDtd rs).toArray = .done (dtdExpEntries 0 rs) := by
  unfold walk
  simp only []
  apply walk_dtd_from
  · simp
  · exact h
  · have := printDtd_length_ge rs
    simp; omega

/-! ### views -/

theorem entView_dtdEntity (s : Array Nat) (off : Nat) (r : DRec) (rest : List Nat) (hs : SafeDtdRec r)
    (h : s.toList.drop off = printDtdRec r ++ rest) :
    entView .dtd s (dtdEntity off r.1.length r.2.length) = expectedView r := by
  have hlen : (printDtdRec r ++ rest).length = s.size - off := by rw [← h]; simp
  rw [List.length_append, printDtdRec_length] at hlen
  unfold dtdLen at hlen
  have h1 : s.toList.drop off = dtdPrefix ++ (r.1 ++ ([32, 34] ++ (r.2 ++ ([34, 62, 10] ++ rest)))) := by
    simp [h, printDtdRec]
  have h2 : s.toList.drop (off + 9) = r.1 ++ ([32, 34] ++ (r.2 ++ ([34, 62, 10] ++ rest))) := drop_app s off _ _ h1
  have h3 : s.toList.drop (off + 9 + r.1.length) = [32, 34] ++ (r.2 ++ ([34, 62, 10] ++ rest)) := drop_app s _ _ _ h2
  have h4 : s.toList.drop (off + 9 + r.1.length + 2) = r.2 ++ ([34, 62, 10] ++ rest) := drop_app s _ _ _ h3
  have hk : slice s (off + 9) (off + 9 + r.1.length) = r.1 := by
    rw [slice_take s (off + 9) r.1.length _ h2 (by simp)]
    simp
  have hv : slice s (off + 9 + r.1.length + 2) (off + 9 + r.1.length + 2 + r.2.length) = r.2 := by
    rw [slice_take s _ r.2.length _ h4 (by simp)]
    simp
  have hamp : r.2.contains 38 = false := by
    cases hc : r.2.contains 38 with
    | false => rfl
    | true =>
      have : 38 ∈ r.2 := by simpa using hc
      exact absurd rfl (hs.val 38 this).2
  have e1 := pySlice_nat s (off + 9) (off + 9 + r.1.length) (by omega) (by omega)
  have e2 := pySlice_nat s (off + 9 + r.1.length + 2) (off + 9 + r.1.length + 2 + r.2.length) (by omega) (by omega)
  simp only [entView, dtdEntity, expectedView, e1, e2, hk, hv, hamp]
  simp

theorem entitiesOf_dtdExpEntries (s : Array Nat) :
    ∀ (rs : List DRec) (off : Nat), s.toList.drop off = printDtd rs → (∀ r ∈ rs, SafeDtdRec r) →
      entitiesOf .dtd s (dtdExpEntries off rs) = rs.map expectedView ∧ junkOf s (dtdExpEntries off rs) = [] := by
  intro rs
  induction rs with
  | nil => intro off _ _; simp [entitiesOf, junkOf, dtdExpEntries]
  | cons r rs ih =>
    intro off h hsafe
    have hpp : printDtd (r :: rs) = printDtdRec r ++ printDtd rs := by simp [printDtd]
    rw [hpp] at h
    have hdrop : s.toList.drop (off + dtdLen r.1.length r.2.length + 1) = printDtd rs := by
      have := drop_app s off _ _ h
      rw [printDtdRec_length] at this
      rw [← this]; congr 1
    obtain ⟨ih1, ih2⟩ := ih _ hdrop (fun r' hr' => hsafe r' (by simp [hr']))
    have hv := entView_dtdEntity s off r _ (hsafe r (by simp)) h
    constructor
    · simp only [entitiesOf] at ih1 ⊢
      simp only [dtdExpEntries, List.map_cons]
      rw [List.filter_cons_of_pos (by simp [dtdEntity]), List.filter_cons_of_neg (by simp [wsEntry]),
        List.map_cons, hv, ih1]
    · simp only [junkOf] at ih2 ⊢
      simp only [dtdExpEntries]
      rw [List.filter_cons_of_neg (by simp [dtdEntity]), List.filter_cons_of_neg (by simp [wsEntry]), ih2]

end C02X

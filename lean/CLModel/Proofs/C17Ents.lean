/-
C17 helper lemmas, part 7 (round 4): what `Pipe.parseFile` (the parse stage of the composed pipeline, C05) guarantees
about the spans of the localizable entries it returns, and which offset the position attached to a checker result
resolves to (`Pos.resolveCheckPos` composed with the checker models).
-/
import CLModel.Proofs.C17Checkers
import CLModel.Proofs.C17Spans
import CLModel.Props.C01
namespace C17P
open Pos Pipe

/-- the facts about one localizable entry of `parseFile fmt s _` that the position claims rest on -/
structure EntFacts (fmt : P.Fmt) (s : Array Nat) (pe : PEnt) : Prop where
  shape : SpanShape pe.entry
  full_le : pe.entry.full ≤ pe.entry.e
  e_le : pe.entry.e ≤ s.size
  s_le_e : pe.entry.s ≤ pe.entry.e
  kind : (pe.junk = true ∧ pe.entry.kind = .junk) ∨ (pe.junk = false ∧ pe.entry.kind = .entity)
  all_eq : pe.all = P.slice s pe.entry.full pe.entry.e
  junk_val : pe.junk = true → pe.val = P.slice s pe.entry.s pe.entry.e
  raw_eq : pe.junk = false → pe.raw = P.pySlice s pe.entry.vs pe.entry.ve
  val_in : pe.junk = false → C01.ValInsideFor fmt pe.entry
  key_str : fmt ≠ .po → ∃ t, pe.key = .str t

theorem mkEnt_facts (ext : Ext) (f : P.Fmt) (s : Array Nat) (h : Hist.Ent) (pe : PEnt) (hmk : mkEnt ext f s h = .ok pe) :
    pe.entry = h.entry ∧ pe.junk = h.jid.isSome ∧
    (h.jid.isSome = true → pe.all = P.slice s h.entry.s h.entry.e ∧ pe.val = P.slice s h.entry.s h.entry.e) ∧
    (h.jid.isSome = false → pe.all = P.Entry.all s h.entry ∧ pe.raw = P.pySlice s h.entry.vs h.entry.ve) := by
  unfold mkEnt at hmk
  cases hj : h.jid with
  | some id =>
    simp only [hj] at hmk
    cases hmk
    simp [mkJunk]
  | none =>
    simp only [hj] at hmk
    split at hmk
    · cases hmk
    · rename_i v hv
      split at hmk
      · cases hmk
      · cases hmk
        refine ⟨rfl, rfl, by simp, fun _ => ⟨rfl, ?_⟩⟩
        -- `raw` of the view is the python slice of the value span, for every format
        unfold P.entView at hv
        cases f <;> simp only at hv
        · cases hv; rfl
        · cases hv; rfl
        · cases hv; rfl
        · cases hv; rfl
        · split at hv
          · cases hv
          · split at hv
            · cases hv; rfl
            · cases hv

/-- **the parse stage**: every localizable entry `parseFile` returns (ini, inc, po, properties) has the facts, whatever
    the external functions `ext` are (these four formats never consult them) -/
theorem parseFile_facts (ext : Ext) (fmt : P.Fmt) (hf : fmt ≠ .dtd) (s : Array Nat) (junkid : Nat) (ents : List PEnt) (n : Nat)
    (hp : parseFile ext fmt s junkid = .ok (ents, n)) : ∀ pe ∈ ents, EntFacts fmt s pe := by
  unfold parseFile at hp
  cases hw : P.walk fmt s with
  | stuck o es => rw [hw] at hp; cases hp
  | done es =>
    rw [hw] at hp
    simp only at hp
    split at hp
    · cases hp
    · rename_i ents' hmap
      cases hp
      intro pe hpe
      obtain ⟨h, hh, hmk⟩ := (mapE_mem hmap).1 pe hpe
      simp only [List.mem_filter] at hh
      obtain ⟨hmem, hloc⟩ := hh
      have hentry : h.entry ∈ es := assign_entry_mem fmt s 0 es junkid 0 h hmem
      have hwf := Hist.assign_wf fmt s 0 es junkid 0 h hmem
      obtain ⟨he, hjunk, hJ, hE⟩ := mkEnt_facts ext fmt s h pe hmk
      have hshape := walk_shape fmt hf s es hw h.entry hentry
      have htiles : ∃ b, P.Tiles s.size b 0 es := by
        cases fmt
        · obtain ⟨es', h1, h2, _⟩ := C01.walk_lossless_properties s; rw [hw] at h1; cases h1; exact ⟨_, h2⟩
        · exact absurd rfl hf
        · obtain ⟨es', h1, h2, _⟩ := C01.walk_lossless_ini s; rw [hw] at h1; cases h1; exact ⟨_, h2⟩
        · obtain ⟨es', h1, h2, _⟩ := C01.walk_lossless_inc s; rw [hw] at h1; cases h1; exact ⟨_, h2⟩
        · obtain ⟨es', h1, h2, _⟩ := C01.walk_lossless_po s; rw [hw] at h1; cases h1; exact ⟨_, h2⟩
      obtain ⟨b, htiles⟩ := htiles
      obtain ⟨hfe, hesz⟩ := tiles_bounds htiles h.entry hentry
      have hkind : (h.entry.kind = .junk ∧ h.jid.isSome = true) ∨ (h.entry.kind = .entity ∧ h.jid.isSome = false) := by
        simp only [P.Entry.localizable, Bool.or_eq_true, beq_iff_eq] at hloc
        rcases hloc with hk | hk
        · right; exact ⟨hk, by rw [hwf, hk]; rfl⟩
        · left; exact ⟨hk, by rw [hwf, hk]; rfl⟩
      have hsle : h.entry.s ≤ h.entry.e := by
        rcases hkind with ⟨hk, _⟩ | ⟨hk, _⟩
        · have := hshape.2.1 hk; omega
        · have := C01.key_inside fmt s es hw h.entry hentry hk; omega
      refine
        { shape := by rw [he]; exact hshape
          full_le := by rw [he]; exact hfe
          e_le := by rw [he]; exact hesz
          s_le_e := by rw [he]; exact hsle
          kind := ?_
          all_eq := ?_
          junk_val := ?_
          raw_eq := ?_
          val_in := ?_
          key_str := ?_ }
      · rcases hkind with ⟨hk, hj⟩ | ⟨hk, hj⟩
        · left; exact ⟨by rw [hjunk, hj], by rw [he, hk]⟩
        · right; exact ⟨by rw [hjunk, hj], by rw [he, hk]⟩
      · rcases hkind with ⟨hk, hj⟩ | ⟨hk, hj⟩
        · rw [(hJ hj).1, he, hshape.2.1 hk]
        · rw [(hE hj).1, he]; rfl
      · intro hpj
        rw [hjunk] at hpj
        rw [(hJ hpj).2, he]
      · intro hpj
        rw [hjunk] at hpj
        rw [(hE hpj).2, he]
      · intro hpj
        rw [hjunk] at hpj
        rcases hkind with ⟨_, hj⟩ | ⟨hk, _⟩
        · rw [hj] at hpj; cases hpj
        · rw [he]; exact C01.val_inside_fmt fmt s es hw h.entry hentry hk
      · intro hpo
        obtain ⟨pe', hpe', hwf'⟩ := mkEnt_ok ext fmt s h hwf hloc (fun hfpo => absurd hfpo hpo)
        rw [hmk] at hpe'
        cases hpe'
        exact hwf'.2.1 hpo

end C17P

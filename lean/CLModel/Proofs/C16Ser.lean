/-
C16: closed form of the entities `serialize` emits.  Core Lean only.
-/
import CLModel.Serialize.Serializer
import CLModel.Proofs.C16Merge
namespace C16L
open AR Ser

/-! ### small list lemmas -/

theorem filterMap_congr' {γ δ : Type} {l : List γ} {f g : γ → Option δ} (h : ∀ x ∈ l, f x = g x) :
    l.filterMap f = l.filterMap g := by
  induction l with
  | nil => rfl
  | cons x xs ih =>
    rw [List.filterMap_cons, List.filterMap_cons, h x List.mem_cons_self,
      ih (fun y hy => h y (List.mem_cons_of_mem _ hy))]

theorem filter_map_filter {γ δ : Type} (l : List γ) (f : γ → δ) (p : γ → Bool) (q : δ → Bool)
    (h : ∀ x ∈ l, q (f x) = true → p x = true) :
    (l.map f).filter q = ((l.filter p).map f).filter q := by
  induction l with
  | nil => rfl
  | cons x xs ih =>
    have ih' := ih (fun y hy => h y (List.mem_cons_of_mem _ hy))
    rw [List.map_cons, List.filter_cons (xs := xs.map f), List.filter_cons (xs := xs)]
    by_cases hq : q (f x) = true
    · have hp := h x List.mem_cons_self hq
      simp only [hq, hp, if_true, List.map_cons, List.filter_cons, ih']
    · simp only [hq, Bool.false_eq_true, if_false]
      by_cases hp : p x = true
      · simp only [hp, if_true, List.map_cons, List.filter_cons, hq, Bool.false_eq_true, if_false, ih']
      · simp only [hp, Bool.false_eq_true, if_false, ih']

theorem filterMap_map_filter {γ δ ε : Type} (l : List γ) (f : γ → Option δ) (g : δ → ε) (q : ε → Bool) :
    ((l.filterMap f).map g).filter q
      = l.filterMap (fun k => (f k).bind (fun x => if q (g x) then some (g x) else none)) := by
  induction l with
  | nil => rfl
  | cons x xs ih =>
    rw [List.filterMap_cons, List.filterMap_cons]
    cases hf : f x with
    | none => simpa using ih
    | some y =>
      simp only [Option.bind_some, List.map_cons, List.filter_cons]
      by_cases hq : q (g y) = true
      · simp only [hq, if_true, ih]
      · simp only [hq, Bool.false_eq_true, if_false, ih]

theorem filterMap_filter_of_none {γ δ : Type} (l : List γ) (G : γ → Option δ) (p : γ → Bool)
    (h : ∀ x ∈ l, p x = false → G x = none) : l.filterMap G = (l.filter p).filterMap G := by
  induction l with
  | nil => rfl
  | cons x xs ih =>
    have ih' := ih (fun y hy => h y (List.mem_cons_of_mem _ hy))
    rw [List.filter_cons]
    by_cases hp : p x = true
    · simp only [hp, if_true, List.filterMap_cons, ih']
    · have := h x List.mem_cons_self (by simpa using hp)
      simp only [hp, Bool.false_eq_true, if_false, List.filterMap_cons, this, ih']

theorem filterMap_comp_of_none {γ δ ε : Type} (l : List γ) (G : γ → Option δ) (s : γ → Option ε) (c : ε → γ)
    (hs : ∀ k e, s k = some e → c e = k) (h : ∀ x ∈ l, s x = none → G x = none) :
    l.filterMap G = (l.filterMap s).filterMap (fun e => G (c e)) := by
  induction l with
  | nil => rfl
  | cons x xs ih =>
    have ih' := ih (fun y hy => h y (List.mem_cons_of_mem _ hy))
    rw [List.filterMap_cons, List.filterMap_cons (f := s)]
    cases hsx : s x with
    | none =>
      rw [h x List.mem_cons_self hsx]
      exact ih'
    | some e =>
      simp only [List.filterMap_cons, hs x e hsx, ih']

/-! ### kind / key consistency of the dicts merge.py builds -/

/-- keyed by `.key`: neither Comment nor Whitespace -/
def strKeyed (e : Ent) : Bool := !e.isComment && !e.isWs

def strOf : MKey → Option (List Nat)
  | .str s => some s
  | _ => none

def keyOK (p : MKey × Ent) : Bool :=
  match p.1 with
  | .str s => strKeyed p.2 && p.2.key == s
  | .cmt v _ => p.2.isComment && p.2.key == v
  | .ws _ _ => p.2.isWs

theorem pairsOf_keyOK (src : Nat) (cnt : List (List Nat × Nat)) (i : Nat) (es : List Ent) :
    ∀ p ∈ pairsOf src cnt i es, keyOK p = true := by
  induction es generalizing cnt i with
  | nil => simp [pairsOf]
  | cons e es ih =>
    intro p hp
    unfold pairsOf at hp
    by_cases hc : e.isComment = true
    · simp only [hc, if_true, List.mem_cons] at hp
      rcases hp with rfl | hp
      · simp [keyOK, hc]
      · exact ih _ _ p hp
    · by_cases hw : e.isWs = true
      · simp only [hc, Bool.false_eq_true, if_false, hw, if_true, List.mem_cons] at hp
        rcases hp with rfl | hp
        · simp [keyOK, hw]
        · exact ih _ _ p hp
      · simp only [hc, Bool.false_eq_true, if_false, hw, List.mem_cons] at hp
        rcases hp with rfl | hp
        · simp [keyOK, strKeyed, hc, hw]
        · exact ih _ _ p hp

theorem parseResource_keyOK (src : Nat) (es : List Ent) : ∀ p ∈ parseResource src es, keyOK p = true := by
  intro p hp
  unfold parseResource mkDict at hp
  rcases mem_foldl_dset _ _ p hp with h | h
  · simp at h
  · exact pairsOf_keyOK _ _ _ _ p h

theorem parseResource_keys_nodup (src : Nat) (es : List Ent) : (dkeys (parseResource src es)).Nodup := by
  unfold parseResource mkDict dkeys
  exact mkDict_keys_nodup _

theorem lastMatch_pairsOf (src : Nat) (cnt : List (List Nat × Nat)) (i : Nat) (es : List Ent) (s : List Nat) :
    lastMatch (fun p => p.1 == MKey.str s) (pairsOf src cnt i es)
      = (lastMatch (fun e => strKeyed e && e.key == s) es).map (fun e => (MKey.str s, e)) := by
  induction es generalizing cnt i with
  | nil => rfl
  | cons e es ih =>
    unfold pairsOf
    by_cases hc : e.isComment = true
    · simp only [hc, if_true, lastMatch, ih]
      cases lastMatch (fun e => strKeyed e && e.key == s) es with
      | some y => rfl
      | none => simp [strKeyed, hc]
    · by_cases hw : e.isWs = true
      · simp only [hc, Bool.false_eq_true, if_false, hw, if_true, lastMatch, ih]
        cases lastMatch (fun e => strKeyed e && e.key == s) es with
        | some y => rfl
        | none => simp [strKeyed, hw]
      · simp only [hc, Bool.false_eq_true, if_false, hw, lastMatch, ih]
        cases lastMatch (fun e => strKeyed e && e.key == s) es with
        | some y => rfl
        | none =>
          by_cases hk : e.key = s
          · subst hk; simp [strKeyed, hc, hw]
          · simp [strKeyed, hc, hw, hk]

/-- `parse_resource(es)[key]` is the last entry keyed by `key` -/
theorem dget_parseResource_str (src : Nat) (es : List Ent) (s : List Nat) :
    dget (parseResource src es) (MKey.str s) = lastMatch (fun e => strKeyed e && e.key == s) es := by
  unfold parseResource mkDict
  rw [dget_foldl_dset, lastMatch_pairsOf]
  cases lastMatch (fun e => strKeyed e && e.key == s) es <;> rfl

theorem pairsOf_strKeys (src : Nat) (cnt : List (List Nat × Nat)) (i : Nat) (es : List Ent) :
    ((pairsOf src cnt i es).map (·.1)).filterMap strOf = (es.filter strKeyed).map (·.key) := by
  induction es generalizing cnt i with
  | nil => rfl
  | cons e es ih =>
    unfold pairsOf
    by_cases hc : e.isComment = true
    · simp only [hc, if_true, List.map_cons, List.filterMap_cons, strOf, ih]
      simp [strKeyed, hc]
    · by_cases hw : e.isWs = true
      · simp only [hc, Bool.false_eq_true, if_false, hw, if_true, List.map_cons, List.filterMap_cons, strOf, ih]
        simp [strKeyed, hw]
      · simp only [hc, Bool.false_eq_true, if_false, hw, List.map_cons, List.filterMap_cons, strOf, ih]
        simp [strKeyed, hc, hw]

theorem strOf_inj : ∀ a a' b, strOf a = some b → strOf a' = some b → a = a' := by
  intro a a' b h1 h2
  cases a <;> cases a' <;> simp_all [strOf]

/-- the `.key`-keyed part of the key order of `parse_resource(es)` -/
theorem parseResource_strKeys (src : Nat) (es : List Ent) :
    (dkeys (parseResource src es)).filterMap strOf = firstOcc ((es.filter strKeyed).map (·.key)) := by
  unfold parseResource mkDict dkeys
  rw [mkDict_keys, ← firstOcc_filterMap' strOf strOf_inj, pairsOf_strKeys]

/-! ### specification vocabulary -/

/-- keys of the reference entries that are keyed by `.key` (junk dropped), first occurrences in order -/
def refKeys (ref : List Ent) : List (List Nat) :=
  firstOcc (((ref.filter (fun e => !e.isJunk)).filter strKeyed).map (·.key))

/-- what the old localization holds under key `s`: the last non-junk entry keyed by `s` -/
def oldEntry (old : List Ent) (s : List Nat) : Option Ent :=
  lastMatch (fun e => strKeyed e && e.key == s) (old.filter (fun e => !e.isJunk))

/-- `s in new_data and new_data[s] is None` -/
def removed (nd : NewData) (s : List Nat) : Bool :=
  match dget nd s with
  | some none => true
  | _ => false

/-- `s in ref_mapping` -/
def known (ref : List Ent) (s : List Nat) : Bool := ((refMapping ref).map (·.1)).contains s

/-- the entity created for a new value: `ref_mapping[s].wrap(new_data[s])` -/
def newValue (ref : List Ent) (nd : NewData) (s : List Nat) : Option Ent :=
  match dget nd s with
  | some (some v) => (dget (refMapping ref) s).map (fun r => wrap r v)
  | _ => none

/-- the entity the serializer emits for reference key `s`, if any -/
def chosen (ref old : List Ent) (nd : NewData) (s : List Nat) : Option Ent :=
  match newValue ref nd s with
  | some l => some l
  | none =>
    match oldEntry old s with
    | some e => if e.isReal && known ref s && !removed nd s then some e else none
    | none => none

/-! ### the pieces of `serialize` -/

def plOf (ref : List Ent) : List Ent := (ref.filter (fun e => !e.isJunk)).map placeholder
def osOf (ref old : List Ent) (nd : NewData) : List Ent := sanitizeOld ((refMapping ref).map (·.1)) old nd
def nlOf (ref : List Ent) (nd : NewData) : List Ent := newL10n (refMapping ref) nd
def d0Of (ref : List Ent) : Dict := parseResource 0 (plOf ref)
def d1Of (ref old : List Ent) (nd : NewData) : Dict := parseResource 1 (osOf ref old nd)
def d2Of (ref : List Ent) (nd : NewData) : Dict := parseResource 2 (nlOf ref nd)
def m1Of (ref old : List Ent) (nd : NewData) : Dict := mergeTwo (d0Of ref) (d1Of ref old nd) false
def m2Of (ref old : List Ent) (nd : NewData) : Dict := mergeTwo (m1Of ref old nd) (d2Of ref nd) false

theorem serializeEnts_eq (ref old : List Ent) (nd : NewData) :
    serializeEnts ref old nd = prunePlaceholders ((m2Of ref old nd).map (·.2)) := by
  simp [serializeEnts, mergeResources, m2Of, m1Of, d0Of, d1Of, d2Of, plOf, osOf, nlOf, List.zipIdx]

theorem isReal_not_ws {e : Ent} (h : e.isReal = true) : e.isWs = false := by
  cases e with | mk kind key val all pre post => cases kind <;> simp_all [Ent.isReal, Ent.isWs]

theorem isReal_not_ph {e : Ent} (h : e.isReal = true) : e.isPlaceholder = false := by
  cases e with | mk kind key val all pre post => cases kind <;> simp_all [Ent.isReal, Ent.isPlaceholder]

theorem isReal_strKeyed {e : Ent} (h : e.isReal = true) : strKeyed e = true := by
  cases e with | mk kind key val all pre post => cases kind <;> simp_all [Ent.isReal, strKeyed, Ent.isWs, Ent.isComment]

theorem isReal_not_sticky {e : Ent} (h : e.isReal = true) : e.isSticky = false := by
  cases e with | mk kind key val all pre post => cases kind <;> simp_all [Ent.isReal, Ent.isSticky]

/-- (A) the real entities of the output are those of the second merge -/
theorem out_real (ref old : List Ent) (nd : NewData) :
    (serializeEnts ref old nd).filter Ent.isReal = ((m2Of ref old nd).map (·.2)).filter Ent.isReal := by
  rw [serializeEnts_eq]
  have h1 : ∀ l : List Ent, l.filter Ent.isReal = (l.filter (fun e => !e.isWs)).filter Ent.isReal := by
    intro l
    rw [List.filter_filter]
    apply List.filter_congr
    intro e _
    cases h : e.isReal
    · rfl
    · simp [isReal_not_ws h]
  rw [h1, prunePlaceholders_nonws, List.filter_filter]
  apply List.filter_congr
  intro e _
  cases h : e.isReal
  · rfl
  · simp [isReal_not_ws h, isReal_not_ph h]

/-! ### facts about the three resources -/

theorem refMapping_get (ref : List Ent) (s : List Nat) :
    dget (refMapping ref) s = lastMatch (fun e => e.key == s) (ref.filter Ent.isEntity) := by
  have : refMapping ref = ((ref.filter Ent.isEntity).map (fun e => (e.key, e))).foldl (fun d p => dset d p.1 p.2) [] := by
    unfold refMapping
    rw [List.foldl_map]
  rw [this, dget_foldl_dset, lastMatch_map (fun e => e.key == s) _ _ _ (fun _ _ => rfl)]
  cases lastMatch (fun e => e.key == s) (ref.filter Ent.isEntity) <;> rfl

theorem refMapping_some {ref : List Ent} {s : List Nat} {r : Ent} (h : dget (refMapping ref) s = some r) :
    r ∈ ref ∧ r.isEntity = true ∧ r.key = s := by
  rw [refMapping_get] at h
  have := lastMatch_some h
  rw [List.mem_filter] at this
  exact ⟨this.1.1, this.1.2, by simpa using this.2⟩

theorem known_iff (ref : List Ent) (s : List Nat) : known ref s = true ↔ (dget (refMapping ref) s).isSome = true := by
  unfold known
  rw [dget_isSome_iff]
  simp

theorem isEntity_not_junk {e : Ent} (h : e.isEntity = true) : e.isJunk = false := by
  cases e with | mk kind key val all pre post => cases kind <;> simp_all [Ent.isEntity, Ent.isJunk]

theorem isEntity_strKeyed {e : Ent} (h : e.isEntity = true) : strKeyed e = true := by
  cases e with | mk kind key val all pre post => cases kind <;> simp_all [Ent.isEntity, strKeyed, Ent.isWs, Ent.isComment]

theorem placeholder_key (e : Ent) : (placeholder e).key = e.key := by
  unfold placeholder; split <;> rfl

theorem placeholder_strKeyed (e : Ent) : strKeyed (placeholder e) = strKeyed e := by
  unfold placeholder
  split
  · rename_i h
    rw [isEntity_strKeyed h]
    rfl
  · rfl

theorem placeholder_not_real (e : Ent) : (placeholder e).isReal = false := by
  unfold placeholder
  split
  · rfl
  · rename_i h
    cases e with | mk kind key val all pre post => cases kind <;> simp_all [Ent.isEntity, Ent.isReal]

/-- a key of `ref_mapping` is a key of the template dict -/
theorem known_mem_d0 {ref : List Ent} {s : List Nat} (h : known ref s = true) : MKey.str s ∈ dkeys (d0Of ref) := by
  rw [known_iff] at h
  cases hr : dget (refMapping ref) s with
  | none => rw [hr] at h; simp at h
  | some r =>
    obtain ⟨hm, he, hk⟩ := refMapping_some hr
    unfold dkeys
    rw [← dget_isSome_iff, d0Of, dget_parseResource_str]
    cases hl : lastMatch (fun e => strKeyed e && e.key == s) (plOf ref) with
    | some _ => rfl
    | none =>
      exfalso
      have := lastMatch_none hl (placeholder r) (by
        unfold plOf
        rw [List.mem_map]
        exact ⟨r, by rw [List.mem_filter]; exact ⟨hm, by simp [isEntity_not_junk he]⟩, rfl⟩)
      rw [placeholder_strKeyed, placeholder_key, isEntity_strKeyed he, hk] at this
      simp at this

theorem pairsOf_mem (src : Nat) (cnt : List (List Nat × Nat)) (i : Nat) (es : List Ent) :
    ∀ p ∈ pairsOf src cnt i es, p.2 ∈ es := by
  induction es generalizing cnt i with
  | nil => simp [pairsOf]
  | cons e es ih =>
    intro p hp
    unfold pairsOf at hp
    split at hp
    · rw [List.mem_cons] at hp
      rcases hp with rfl | hp
      · exact List.mem_cons_self
      · exact List.mem_cons_of_mem _ (ih _ _ p hp)
    · split at hp
      · rw [List.mem_cons] at hp
        rcases hp with rfl | hp
        · exact List.mem_cons_self
        · exact List.mem_cons_of_mem _ (ih _ _ p hp)
      · rw [List.mem_cons] at hp
        rcases hp with rfl | hp
        · exact List.mem_cons_self
        · exact List.mem_cons_of_mem _ (ih _ _ p hp)

theorem parseResource_mem {src : Nat} {es : List Ent} {p : MKey × Ent} (h : p ∈ parseResource src es) : p.2 ∈ es := by
  unfold parseResource mkDict at h
  rcases mem_foldl_dset _ _ p h with h | h
  · simp at h
  · exact pairsOf_mem _ _ _ _ p h

/-- entries of `new_l10n` -/
theorem mem_nl {ref : List Ent} {nd : NewData} {e : Ent} (h : e ∈ nlOf ref nd) :
    e.isReal = true ∧ known ref e.key = true ∧
      ∃ v r, (e.key, some v) ∈ nd ∧ dget (refMapping ref) e.key = some r ∧ e = wrap r v := by
  unfold nlOf newL10n at h
  rw [List.mem_filterMap] at h
  obtain ⟨⟨key, ov⟩, hm, hf⟩ := h
  cases ov with
  | none => simp at hf
  | some v =>
    simp only at hf
    cases hr : dget (refMapping ref) key with
    | none => rw [hr] at hf; simp at hf
    | some r =>
      rw [hr] at hf
      simp only [Option.some.injEq] at hf
      have hk := (refMapping_some hr).2.2
      subst hf
      have hkey : (wrap r v).key = key := hk
      refine ⟨rfl, ?_, v, r, ?_, ?_, rfl⟩
      · rw [known_iff, hkey, hr]; rfl
      · rw [hkey]; exact hm
      · rw [hkey]; exact hr

/-- `new_l10n` has only `.key` keys -/
theorem d2_get_nonstr (ref : List Ent) (nd : NewData) (k : MKey) (hk : strOf k = none) : dget (d2Of ref nd) k = none := by
  cases hg : dget (d2Of ref nd) k with
  | none => rfl
  | some l =>
    exfalso
    have hm := dget_some_mem' hg
    have hok := parseResource_keyOK _ _ _ hm
    have hl := (mem_nl (parseResource_mem hm)).1
    cases k with
    | str s => simp [strOf] at hk
    | cmt v n =>
      simp only [keyOK, Bool.and_eq_true] at hok
      have := isReal_strKeyed hl
      simp [strKeyed, hok.1] at this
    | ws a b =>
      simp only [keyOK] at hok
      rw [isReal_not_ws hl] at hok
      simp at hok

theorem d2_get_str (ref : List Ent) (nd : NewData) (s : List Nat) :
    dget (d2Of ref nd) (MKey.str s) = lastMatch (fun e => e.key == s) (nlOf ref nd) := by
  rw [d2Of, dget_parseResource_str]
  apply lastMatch_congr
  intro e he
  rw [isReal_strKeyed (mem_nl he).1]
  rfl

theorem d2_some {ref : List Ent} {nd : NewData} {k : MKey} {l : Ent} (h : dget (d2Of ref nd) k = some l) :
    l.isReal = true ∧ k = MKey.str l.key ∧ known ref l.key = true := by
  have hm := dget_some_mem' h
  have hl := mem_nl (parseResource_mem hm)
  refine ⟨hl.1, ?_, hl.2.1⟩
  cases k with
  | str s =>
    have hok := parseResource_keyOK _ _ _ hm
    simp only [keyOK, Bool.and_eq_true, beq_iff_eq] at hok
    rw [hok.2]
  | cmt v n => rw [d2_get_nonstr ref nd _ rfl] at h; simp at h
  | ws a b => rw [d2_get_nonstr ref nd _ rfl] at h; simp at h

/-! ### the second merge: new values override -/

/-- value the second merge keeps for a pair of the first one -/
def pick (D2 : Dict) (k : MKey) (e : Ent) : Ent :=
  match dget D2 k with
  | none => e
  | some l => if l.isSticky then e else l

def pkE (D2 : Dict) (p : MKey × Ent) : Ent := pick D2 p.1 p.2
def nonwsP (p : MKey × Ent) : Bool := !p.2.isWs

theorem mergeTwo_nonws' (N O : Dict) (hN : (dkeys N).Nodup) (hO : (dkeys O).Nodup) :
    (mergeTwo N O false).filter nonwsP = (olderPairs N O).filter nonwsP := mergeTwo_nonws N O hN hO

theorem getOlder_of_left {N O : Dict} {k : MKey} (hk : k ∈ dkeys N) : ∃ e, getOlder N O k = some e := by
  have hs : (dget N k).isSome = true := by rw [dget_isSome_iff]; exact hk
  cases hn : dget N k with
  | none => rw [hn] at hs; simp at hs
  | some e0 =>
    unfold getOlder
    cases ho : dget O k with
    | none => exact ⟨e0, hn⟩
    | some e1 =>
      simp only
      split
      · exact ⟨e0, hn⟩
      · exact ⟨e1, rfl⟩

/-- when the older dict only has keys of the newer one, merging is a pointwise override -/
theorem olderPairs_of_subset (N O : Dict) (hN : (dkeys N).Nodup) (hO : (dkeys O).Nodup)
    (hsub : ∀ k ∈ dkeys O, k ∈ dkeys N) :
    olderPairs N O = N.map (fun p => (p.1, pick O p.1 p.2)) := by
  unfold olderPairs
  rw [addRemove_keys_of_subset _ _ hN hO hsub]
  unfold dkeys
  rw [List.filterMap_map, ← List.filterMap_eq_map]
  apply filterMap_congr'
  intro p hp
  have hg : dget N p.1 = some p.2 := dget_of_mem_nodup hN hp
  simp only [Function.comp, getOlder, pick, hg]
  cases dget O p.1 with
  | none => rfl
  | some l => simp only; split <;> rfl

theorem keyOK_ws {p : MKey × Ent} (h : keyOK p = true) (hw : p.2.isWs = true) : strOf p.1 = none := by
  obtain ⟨k, e⟩ := p
  cases k with
  | str s =>
    simp only [keyOK, Bool.and_eq_true, strKeyed] at h
    simp only at hw
    simp [hw] at h
  | cmt v n => rfl
  | ws a b => rfl

theorem keyOK_nonstr {p : MKey × Ent} (h : keyOK p = true) (hs : strOf p.1 = none) : p.2.isReal = false := by
  obtain ⟨k, e⟩ := p
  cases hr : e.isReal with
  | false => rfl
  | true =>
    exfalso
    cases k with
    | str s => simp [strOf] at hs
    | cmt v n =>
      simp only [keyOK, Bool.and_eq_true] at h
      have := isReal_strKeyed hr
      simp [strKeyed, h.1] at this
    | ws a b =>
      simp only [keyOK] at h
      rw [isReal_not_ws hr] at h
      simp at h

theorem keyOK_str {k : MKey} {e : Ent} (h : keyOK (k, e) = true) (hs : strKeyed e = true) : k = MKey.str e.key := by
  cases k with
  | str s =>
    simp only [keyOK, Bool.and_eq_true, beq_iff_eq] at h
    rw [h.2]
  | cmt v n =>
    simp only [keyOK, Bool.and_eq_true] at h
    simp [strKeyed, h.1] at hs
  | ws a b =>
    simp only [keyOK] at h
    simp [strKeyed, h] at hs

/-- a whitespace entry is never replaced by a real entity in the second merge -/
theorem pick_real_nonws (ref : List Ent) (nd : NewData) {p : MKey × Ent} (hok : keyOK p = true)
    (h : (pkE (d2Of ref nd) p).isReal = true) : nonwsP p = true := by
  unfold nonwsP
  cases hw : p.2.isWs with
  | false => rfl
  | true =>
    exfalso
    have hs := keyOK_ws hok hw
    unfold pkE pick at h
    rw [d2_get_nonstr ref nd _ hs] at h
    simp only at h
    rw [isReal_not_ws h] at hw
    simp at hw

theorem d0_keyOK (ref : List Ent) : ∀ p ∈ d0Of ref, keyOK p = true := parseResource_keyOK _ _
theorem d1_keyOK (ref old : List Ent) (nd : NewData) : ∀ p ∈ d1Of ref old nd, keyOK p = true := parseResource_keyOK _ _
theorem d0_nodup (ref : List Ent) : (dkeys (d0Of ref)).Nodup := parseResource_keys_nodup _ _
theorem d1_nodup (ref old : List Ent) (nd : NewData) : (dkeys (d1Of ref old nd)).Nodup := parseResource_keys_nodup _ _
theorem d2_nodup (ref : List Ent) (nd : NewData) : (dkeys (d2Of ref nd)).Nodup := parseResource_keys_nodup _ _
theorem m1_nodup (ref old : List Ent) (nd : NewData) : (dkeys (m1Of ref old nd)).Nodup := mergeTwo_keys_nodup _ _ _

theorem olderPairs01_keyOK (ref old : List Ent) (nd : NewData) :
    ∀ p ∈ olderPairs (d0Of ref) (d1Of ref old nd), keyOK p = true := by
  intro p hp
  rcases getOlder_mem (mem_olderPairs hp) with h | h
  · exact d0_keyOK ref p h
  · exact d1_keyOK ref old nd p h

theorem m1_keyOK (ref old : List Ent) (nd : NewData) : ∀ p ∈ m1Of ref old nd, keyOK p = true := by
  intro p hp
  exact olderPairs01_keyOK ref old nd p ((mergeTwo_sublist _ _ (d0_nodup ref) (d1_nodup ref old nd)).subset hp)

/-- `.key` keys of the template survive the first merge -/
theorem d0_str_mem_m1 (ref old : List Ent) (nd : NewData) {s : List Nat} (h : MKey.str s ∈ dkeys (d0Of ref)) :
    MKey.str s ∈ dkeys (m1Of ref old nd) := by
  obtain ⟨e, he⟩ := getOlder_of_left (O := d1Of ref old nd) h
  have hks : MKey.str s ∈ (addRemove (dkeys (d0Of ref)) (dkeys (d1Of ref old nd))).map (·.2) := by
    rw [(addRemove_keys_perm _ _ (d0_nodup ref) (d1_nodup ref old nd)).mem_iff]
    exact List.mem_append_left _ h
  have hp : (MKey.str s, e) ∈ olderPairs (d0Of ref) (d1Of ref old nd) := by
    unfold olderPairs
    rw [List.mem_filterMap]
    exact ⟨MKey.str s, hks, by rw [he]; rfl⟩
  have hok := olderPairs01_keyOK ref old nd _ hp
  have hnw : nonwsP (MKey.str s, e) = true := by
    unfold nonwsP
    cases hw : e.isWs with
    | false => rfl
    | true => have := keyOK_ws hok hw; simp [strOf] at this
  have : (MKey.str s, e) ∈ (m1Of ref old nd).filter nonwsP := by
    rw [m1Of, mergeTwo_nonws' _ _ (d0_nodup ref) (d1_nodup ref old nd), List.mem_filter]
    exact ⟨hp, hnw⟩
  rw [List.mem_filter] at this
  unfold dkeys
  rw [List.mem_map]
  exact ⟨_, this.1, rfl⟩

theorem d2_sub_m1 (ref old : List Ent) (nd : NewData) :
    ∀ k ∈ dkeys (d2Of ref nd), k ∈ dkeys (m1Of ref old nd) := by
  intro k hk
  unfold dkeys at hk
  rw [← dget_isSome_iff] at hk
  cases hg : dget (d2Of ref nd) k with
  | none => rw [hg] at hk; simp at hk
  | some l =>
    obtain ⟨_, hkk, hkn⟩ := d2_some hg
    rw [hkk]
    exact d0_str_mem_m1 ref old nd (known_mem_d0 hkn)

/-- what the two merges leave for a key of the diff of template and old localization -/
def gOf (ref old : List Ent) (nd : NewData) (k : MKey) : Option Ent :=
  (getOlder (d0Of ref) (d1Of ref old nd) k).bind
    (fun e => if (pick (d2Of ref nd) k e).isReal then some (pick (d2Of ref nd) k e) else none)

/-- (B, C) the real entities after both merges, along the key diff of the first -/
theorem m2_real (ref old : List Ent) (nd : NewData) :
    ((m2Of ref old nd).map (·.2)).filter Ent.isReal
      = ((addRemove (dkeys (d0Of ref)) (dkeys (d1Of ref old nd))).map (·.2)).filterMap (gOf ref old nd) := by
  have hM1 := m1_nodup ref old nd
  have hD2 := d2_nodup ref nd
  have hD0 := d0_nodup ref
  have hD1 := d1_nodup ref old nd
  have snd_ws : ∀ l : List (MKey × Ent), (l.map (·.2)).filter Ent.isReal = ((l.filter nonwsP).map (·.2)).filter Ent.isReal := by
    intro l
    apply filter_map_filter
    intro p _ h
    simp [nonwsP, isReal_not_ws h]
  calc ((m2Of ref old nd).map (·.2)).filter Ent.isReal
      = (((m2Of ref old nd).filter nonwsP).map (·.2)).filter Ent.isReal := snd_ws _
    _ = (((olderPairs (m1Of ref old nd) (d2Of ref nd)).filter nonwsP).map (·.2)).filter Ent.isReal := by
          rw [m2Of, mergeTwo_nonws' _ _ hM1 hD2]
    _ = ((olderPairs (m1Of ref old nd) (d2Of ref nd)).map (·.2)).filter Ent.isReal := (snd_ws _).symm
    _ = ((m1Of ref old nd).map (pkE (d2Of ref nd))).filter Ent.isReal := by
          rw [olderPairs_of_subset _ _ hM1 hD2 (d2_sub_m1 ref old nd), List.map_map]
          rfl
    _ = (((m1Of ref old nd).filter nonwsP).map (pkE (d2Of ref nd))).filter Ent.isReal := by
          apply filter_map_filter
          intro p hp h
          exact pick_real_nonws ref nd (m1_keyOK ref old nd p hp) h
    _ = (((olderPairs (d0Of ref) (d1Of ref old nd)).filter nonwsP).map (pkE (d2Of ref nd))).filter Ent.isReal := by
          rw [m1Of, mergeTwo_nonws' _ _ hD0 hD1]
    _ = ((olderPairs (d0Of ref) (d1Of ref old nd)).map (pkE (d2Of ref nd))).filter Ent.isReal := by
          symm
          apply filter_map_filter
          intro p hp h
          exact pick_real_nonws ref nd (olderPairs01_keyOK ref old nd p hp) h
    _ = _ := by
          unfold olderPairs
          rw [filterMap_map_filter]
          apply filterMap_congr'
          intro k _
          unfold gOf
          cases getOlder (d0Of ref) (d1Of ref old nd) k <;> rfl

/-! ### the old localization -/

/-- the per-entry map of `sanitize_old` -/
def sanOf (ref : List Ent) (nd : NewData) (e : Ent) : Ent :=
  if shouldPlaceholder ((refMapping ref).map (·.1)) nd e then placeholder e else e

theorem osOf_eq (ref old : List Ent) (nd : NewData) :
    osOf ref old nd = (old.filter (fun e => !e.isJunk)).map (sanOf ref nd) := rfl

theorem sanOf_key (ref : List Ent) (nd : NewData) (e : Ent) : (sanOf ref nd e).key = e.key := by
  unfold sanOf; split
  · exact placeholder_key e
  · rfl

theorem sanOf_strKeyed (ref : List Ent) (nd : NewData) (e : Ent) : strKeyed (sanOf ref nd e) = strKeyed e := by
  unfold sanOf; split
  · exact placeholder_strKeyed e
  · rfl

theorem isReal_isEntity {e : Ent} (h : e.isReal = true) : e.isEntity = true := by
  cases e with | mk kind key val all pre post => cases kind <;> simp_all [Ent.isEntity, Ent.isReal]

theorem shouldPlaceholder_real (ref : List Ent) (nd : NewData) {e : Ent} (h : e.isReal = true) :
    shouldPlaceholder ((refMapping ref).map (·.1)) nd e = (!known ref e.key || removed nd e.key) := by
  unfold shouldPlaceholder known removed
  simp only [isReal_isEntity h, Bool.not_true, Bool.false_eq_true, if_false]
  cases ((refMapping ref).map (·.1)).contains e.key
  · rfl
  · simp only [Bool.not_true, Bool.false_eq_true, if_false, Bool.false_or]
    cases dget nd e.key with
    | none => rfl
    | some ov => cases ov <;> rfl

theorem sanOf_real (ref : List Ent) (nd : NewData) (e : Ent) :
    (sanOf ref nd e).isReal = (e.isReal && known ref e.key && !removed nd e.key) ∧
      ((sanOf ref nd e).isReal = true → sanOf ref nd e = e) := by
  cases hr : e.isReal with
  | true =>
    unfold sanOf
    rw [shouldPlaceholder_real ref nd hr]
    cases known ref e.key <;> cases removed nd e.key <;> simp [placeholder_not_real, hr]
  | false =>
    unfold sanOf
    split
    · simp [placeholder_not_real]
    · simp [hr]

theorem sanOf_sticky {ref : List Ent} {nd : NewData} {e : Ent} (h : (sanOf ref nd e).isSticky = true) :
    e.isReal = false := by
  cases hr : e.isReal with
  | false => rfl
  | true =>
    exfalso
    unfold sanOf at h
    split at h
    · unfold placeholder at h
      rw [if_pos (isReal_isEntity hr)] at h
      simp [mkPlaceholder, Ent.isSticky] at h
    · rw [isReal_not_sticky hr] at h
      simp at h

theorem d1_get_str (ref old : List Ent) (nd : NewData) (s : List Nat) :
    dget (d1Of ref old nd) (MKey.str s) = (oldEntry old s).map (sanOf ref nd) := by
  rw [d1Of, dget_parseResource_str, osOf_eq, oldEntry]
  apply lastMatch_map
  intro e _
  rw [sanOf_strKeyed, sanOf_key]

/-- real entities of the sanitized old localization are known and not removed -/
theorem os_real {ref old : List Ent} {nd : NewData} {e : Ent} (h : e ∈ osOf ref old nd) (hr : e.isReal = true) :
    known ref e.key = true := by
  rw [osOf_eq, List.mem_map] at h
  obtain ⟨e0, _, rfl⟩ := h
  have := sanOf_real ref nd e0
  rw [sanOf_key]
  rw [this.1] at hr
  simp only [Bool.and_eq_true] at hr
  exact hr.1.2

/-! ### (D) keys that are not template keys emit nothing -/

theorem gOf_not_d0 (ref old : List Ent) (nd : NewData) (k : MKey) (hk : k ∉ dkeys (d0Of ref)) :
    gOf ref old nd k = none := by
  have h0 : dget (d0Of ref) k = none := dget_none_of_not_mem hk
  have h2 : dget (d2Of ref nd) k = none := by
    cases hg : dget (d2Of ref nd) k with
    | none => rfl
    | some l =>
      exfalso
      obtain ⟨_, hkk, hkn⟩ := d2_some hg
      exact hk (hkk ▸ known_mem_d0 hkn)
  unfold gOf getOlder pick
  rw [h0, h2]
  cases h1 : dget (d1Of ref old nd) k with
  | none => rfl
  | some e =>
    simp only
    split
    · rfl
    · simp only [Option.bind_some]
      cases hr : e.isReal with
      | false => rfl
      | true =>
        exfalso
        have hm := dget_some_mem' h1
        have hok := d1_keyOK ref old nd _ hm
        have hkk := keyOK_str hok (isReal_strKeyed hr)
        have := os_real (parseResource_mem hm) hr
        exact hk (hkk ▸ known_mem_d0 this)

/-! ### (E) comment and whitespace keys emit nothing -/

theorem gOf_nonstr (ref old : List Ent) (nd : NewData) (k : MKey) (hs : strOf k = none) :
    gOf ref old nd k = none := by
  unfold gOf
  cases hg : getOlder (d0Of ref) (d1Of ref old nd) k with
  | none => rfl
  | some e =>
    simp only [Option.bind_some, pick, d2_get_nonstr ref nd k hs]
    have hok : keyOK (k, e) = true := by
      rcases getOlder_mem hg with h | h
      · exact d0_keyOK ref _ h
      · exact d1_keyOK ref old nd _ h
    have := keyOK_nonstr hok hs
    simp only at this
    simp [this]

theorem d0_strKeys (ref : List Ent) : (dkeys (d0Of ref)).filterMap strOf = refKeys ref := by
  rw [d0Of, parseResource_strKeys, refKeys, plOf]
  congr 1
  rw [List.filter_map, List.map_map]
  have : (strKeyed ∘ placeholder) = strKeyed := by funext e; exact placeholder_strKeyed e
  rw [this]
  apply List.map_congr_left
  intro e _
  exact placeholder_key e

/-! ### (F) what a template key emits -/

theorem nl_lookup (ref : List Ent) (nd : NewData) (hnd : (nd.map (·.1)).Nodup) (s : List Nat) :
    lastMatch (fun e => e.key == s) (nlOf ref nd) = newValue ref nd s := by
  have key : ∀ e ∈ nlOf ref nd, e.key = s → newValue ref nd s = some e := by
    intro e he hk
    obtain ⟨_, _, v, r, hm, hr, rfl⟩ := mem_nl he
    rw [hk] at hm hr
    unfold newValue
    rw [dget_of_mem_nodup hnd hm, hr]
    rfl
  cases hv : newValue ref nd s with
  | none =>
    rw [lastMatch_eq_none_iff]
    intro e he
    cases hk : e.key == s with
    | false => rfl
    | true => have := key e he (eq_of_beq hk); rw [hv] at this; simp at this
  | some l =>
    have hl : l ∈ nlOf ref nd ∧ l.key = s := by
      unfold newValue at hv
      cases hd : dget nd s with
      | none => rw [hd] at hv; simp at hv
      | some ov =>
        cases ov with
        | none => rw [hd] at hv; simp at hv
        | some v =>
          rw [hd] at hv
          simp only at hv
          cases hr : dget (refMapping ref) s with
          | none => rw [hr] at hv; simp at hv
          | some r =>
            rw [hr] at hv
            simp only [Option.map_some, Option.some.injEq] at hv
            subst hv
            refine ⟨?_, (refMapping_some hr).2.2⟩
            unfold nlOf newL10n
            rw [List.mem_filterMap]
            exact ⟨(s, some v), dget_some_mem' hd, by simp [hr]⟩
    apply lastMatch_unique hl.1 (by simp [hl.2])
    intro e he hk
    have := key e he (eq_of_beq hk)
    rw [hv] at this
    exact (Option.some.inj this).symm

theorem gOf_str (ref old : List Ent) (nd : NewData) (hnd : (nd.map (·.1)).Nodup) (s : List Nat)
    (hs : MKey.str s ∈ dkeys (d0Of ref)) : gOf ref old nd (MKey.str s) = chosen ref old nd s := by
  -- the template entry under `s` is never a real entity
  have h0 : ∃ p0, dget (d0Of ref) (MKey.str s) = some p0 ∧ p0.isReal = false := by
    have : (dget (d0Of ref) (MKey.str s)).isSome = true := by rw [dget_isSome_iff]; exact hs
    cases hg : dget (d0Of ref) (MKey.str s) with
    | none => rw [hg] at this; simp at this
    | some p0 =>
      refine ⟨p0, rfl, ?_⟩
      have hm := parseResource_mem (dget_some_mem' hg)
      unfold plOf at hm
      rw [List.mem_map] at hm
      obtain ⟨e, _, rfl⟩ := hm
      exact placeholder_not_real e
  obtain ⟨p0, hp0, hp0r⟩ := h0
  have h2 : dget (d2Of ref nd) (MKey.str s) = newValue ref nd s := by rw [d2_get_str, nl_lookup ref nd hnd]
  have h1 := d1_get_str ref old nd s
  unfold gOf getOlder pick chosen
  rw [h2, h1, hp0]
  cases hv : newValue ref nd s with
  | some l =>
    have hl : l.isReal = true := (d2_some (h2.trans hv)).1
    simp only [isReal_not_sticky hl, Bool.false_eq_true, if_false, hl, if_true]
    cases (oldEntry old s).map (sanOf ref nd) with
    | none => rfl
    | some e1 => simp only; split <;> rfl
  | none =>
    simp only
    cases ho : oldEntry old s with
    | none => simp [hp0r]
    | some e0 =>
      have hk : e0.key = s := by
        have := (lastMatch_some ho).2
        simp only [Bool.and_eq_true, beq_iff_eq] at this
        exact this.2
      simp only [Option.map_some]
      by_cases hst : (sanOf ref nd e0).isSticky = true
      · simp only [hst, if_true, Option.bind_some, hp0r, Bool.false_eq_true, if_false]
        rw [sanOf_sticky hst]
        simp
      · simp only [hst, Bool.false_eq_true, if_false, Option.bind_some]
        have hsr := sanOf_real ref nd e0
        rw [hk] at hsr
        by_cases hr : (sanOf ref nd e0).isReal = true
        · rw [if_pos hr, hsr.2 hr, if_pos (by rw [← hsr.1]; exact hr)]
        · rw [if_neg hr, if_neg (by rw [← hsr.1]; exact hr)]

/-! ### the closed form -/

/-- For every reference, old localization and new-data dict: the real (non-placeholder) entities of the
    serialized entry list are, for each reference key in reference order, the entity `chosen` for it. -/
theorem serialized_entities (ref old : List Ent) (nd : NewData) (hnd : (nd.map (·.1)).Nodup) :
    (serializeEnts ref old nd).filter Ent.isReal = (refKeys ref).filterMap (chosen ref old nd) := by
  rw [out_real, m2_real]
  have hD0 := d0_nodup ref
  have hD1 := d1_nodup ref old nd
  rw [filterMap_filter_of_none _ (gOf ref old nd) (fun k => (dkeys (d0Of ref)).contains k)
        (fun k _ hk => gOf_not_d0 ref old nd k (by simpa using hk)),
    addRemove_keys_filter_left _ _ hD0 hD1,
    filterMap_comp_of_none (dkeys (d0Of ref)) (gOf ref old nd) strOf MKey.str
      (by intro k e h; cases k <;> simp_all [strOf])
      (fun k _ hk => gOf_nonstr ref old nd k hk),
    ← d0_strKeys]
  apply filterMap_congr'
  intro s hs
  apply gOf_str ref old nd hnd
  rw [List.mem_filterMap] at hs
  obtain ⟨k, hk, hks⟩ := hs
  cases k <;> simp_all [strOf]

end C16L

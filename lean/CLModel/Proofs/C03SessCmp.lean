/-
C03 round 4 — the comparison loop of the session model (`Sess.stepEnt`, on the Observer model) computes the same
`stats` as the loop of Compare/Content.lean (`Cmp.step`, one verdict function), the verdict being what
`ObserverList.notify` returns for the entity key given the filters of the project observers.  So every theorem of
Props/C03.lean about `compareEntities` describes the stats a job of a session pushes.
-/
import CLModel.Proofs.C03Sess
import CLModel.Proofs.C03
namespace C03S
open ObsM Sess

def toV : Ret → Cmp.Verdict
  | .error => .error
  | .warning => .warning
  | .ignore => .ignore

/-- what `ObserverList.notify("missingEntity" | "obsoleteEntity", file, key)` returns, given the project observers' filters -/
def verdictOf (F : List (Option Filter)) (file : File) (k : Cmp.Key) : Cmp.Verdict :=
  toV (listRet (F.map (fun flt => rvOf flt .missingEntity file (Pipe.keyData k))))

theorem tell_rv {l l' : ObsList} {c : Cat} {f : File} {d : Data} {rv : Ret} (h : tell l c f d = .ok (l', rv)) :
    rv = listRet (l.filters.map (fun flt => rvOf flt c f d)) := by
  have := (list_notify_spec (tell_tr h).2).1
  rw [this, ObsList.filters, List.map_map]
  rfl

theorem tell_inv {l l' : ObsList} {c : Cat} {f : File} {d : Data} {rv : Ret} (h : tell l c f d = .ok (l', rv))
    (hown : l.own.filter = none) : l'.own.filter = none ∧ l'.filters = l.filters :=
  (tr_own (tell_tr h).1 hown).2

theorem rvOf_obsolete (flt : Option Filter) (f : File) (d : Data) : rvOf flt .obsoleteEntity f d = rvOf flt .missingEntity f d := by
  cases flt <;> rfl

theorem lookup_cmp {es : List Cmp.Ent} {k : Cmp.Key} {e : Cmp.Ent} (h : lookup es k = .ok e) : Cmp.lookup es k = .ok e := by
  unfold lookup at h
  unfold Cmp.lookup
  cases hi : AR.keyedIndex (es.map (·.key)) k with
  | none => rw [hi] at h; cases h
  | some i =>
    rw [hi] at h
    simp only at h ⊢
    cases he : es[i]? with
    | none => rw [he] at h; cases h
    | some x => rw [he] at h; simpa using h

theorem checkLoop_inv (file : File) (cs : List (Bool × Text)) (l l' : ObsList) (h : checkLoop file cs l = .ok l')
    (hown : l.own.filter = none) : l'.own.filter = none ∧ l'.filters = l.filters := by
  obtain ⟨evs, t, _⟩ := checkLoop_tr file cs l l' h
  exact (tr_own t hown).2

/-- one iteration: the same stats as `Cmp.step` under the verdict of the list -/
theorem stepEnt_refines (file : File) (j : EntJob) (l : ObsList) (hown : l.own.filter = none) (s : Cmp.Stats)
    (p : AR.Label × Cmp.Key) (l' : ObsList) (s' : Cmp.Stats) (h : stepEnt file j (l, s) p = .ok (l', s')) (notes : List Cmp.Note) :
    (∃ notes', Cmp.step j.ref j.l10n (verdictOf l.filters file) ⟨s, notes⟩ p = .ok ⟨s', notes'⟩) ∧
      l'.own.filter = none ∧ l'.filters = l.filters := by
  obtain ⟨a, k⟩ := p
  cases a with
  | delete =>
    simp only [stepEnt] at h
    cases hr : lookup j.ref k with
    | error e => rw [hr] at h; cases h
    | ok refent =>
      rw [hr] at h
      simp only at h
      simp only [Cmp.step, lookup_cmp hr, bind, Except.bind, pure, Except.pure]
      split at h
      · rename_i hj
        cases ht : tell l Cat.warning file (Data.str Gen.Tables.cmpRefJunkMsg) with
        | error e => rw [ht] at h; cases h
        | ok r =>
          obtain ⟨l1, rv⟩ := r
          rw [ht] at h
          simp only [Except.ok.injEq, Prod.mk.injEq] at h
          obtain ⟨rfl, rfl⟩ := h
          exact ⟨⟨notes ++ [Cmp.Note.warning Cmp.Msg.refJunk], by simp [hj, Cmp.notifyMsg]⟩, tell_inv ht hown⟩
      · rename_i hj
        cases ht : tell l Cat.missingEntity file (Pipe.keyData k) with
        | error e => rw [ht] at h; cases h
        | ok r =>
          obtain ⟨l1, rv⟩ := r
          rw [ht] at h
          have hrv := tell_rv ht
          have hv : verdictOf l.filters file k = toV rv := by rw [hrv]; rfl
          simp only [hj, Bool.false_eq_true, if_false, Cmp.notifyEntity, hv]
          cases rv <;> simp only [toV, Except.ok.injEq, Prod.mk.injEq] at h ⊢ <;> obtain ⟨rfl, rfl⟩ := h <;>
            exact ⟨⟨_, rfl⟩, tell_inv ht hown⟩
  | add =>
    simp only [stepEnt] at h
    cases hr : lookup j.l10n k with
    | error e => rw [hr] at h; cases h
    | ok l10nent =>
      rw [hr] at h
      simp only at h
      simp only [Cmp.step, lookup_cmp hr, bind, Except.bind, pure, Except.pure]
      split at h
      · rename_i hj
        cases hm : j.msgs[l10nent.msg]? with
        | none => rw [hm] at h; cases h
        | some msg =>
          rw [hm] at h
          simp only at h
          cases ht : tell l Cat.error file (Data.str msg) with
          | error e => rw [ht] at h; cases h
          | ok r =>
            obtain ⟨l1, rv⟩ := r
            rw [ht] at h
            simp only [Except.ok.injEq, Prod.mk.injEq] at h
            obtain ⟨rfl, rfl⟩ := h
            exact ⟨⟨notes ++ [Cmp.Note.error (Cmp.Msg.junk l10nent.msg)], by simp [hj, Cmp.notifyMsg]⟩, tell_inv ht hown⟩
      · rename_i hj
        cases ht : tell l Cat.obsoleteEntity file (Pipe.keyData k) with
        | error e => rw [ht] at h; cases h
        | ok r =>
          obtain ⟨l1, rv⟩ := r
          rw [ht] at h
          have hrv := tell_rv ht
          have hv : verdictOf l.filters file k = toV rv := by
            rw [hrv]; unfold verdictOf; simp only [rvOf_obsolete]
          simp only [hj, Bool.false_eq_true, if_false, Cmp.notifyEntity, hv]
          cases rv <;> simp only [toV] at h ⊢ <;>
            simp +decide only [if_true, if_false, Except.ok.injEq, Prod.mk.injEq] at h ⊢ <;>
            obtain ⟨rfl, rfl⟩ := h <;> exact ⟨⟨_, rfl⟩, tell_inv ht hown⟩
  | equal =>
    simp only [stepEnt] at h
    cases hr : lookup j.ref k with
    | error e => rw [hr] at h; cases h
    | ok refent =>
      cases hl : lookup j.l10n k with
      | error e => rw [hr, hl] at h; cases h
      | ok l10nent =>
        rw [hr, hl] at h
        simp only at h
        simp only [Cmp.step, lookup_cmp hr, lookup_cmp hl, bind, Except.bind, pure, Except.pure]
        split at h
        · cases h
        · rename_i st hst
          cases hc : checkLoop file (checksOf j k) l with
          | error e => rw [hc] at h; cases h
          | ok l1 =>
            rw [hc] at h
            simp only [Except.ok.injEq, Prod.mk.injEq] at h
            obtain ⟨rfl, rfl⟩ := h
            refine ⟨?_, checkLoop_inv file _ l l1 hc hown⟩
            by_cases hk : Cmp.keyMatch k = true
            · simp only [hk, if_true, Except.ok.injEq] at hst ⊢
              subst hst; exact ⟨_, rfl⟩
            · simp only [hk, Bool.false_eq_true, if_false] at hst ⊢
              by_cases hj : refent.junk = true
              · simp [hj] at hst
              · simp only [hj, Bool.false_eq_true, if_false] at hst
                by_cases hcl : (refent.cls == l10nent.cls) = true
                · simp only [hcl, if_true, Except.ok.injEq] at hst ⊢
                  subst hst; exact ⟨_, rfl⟩
                · simp only [hcl, Bool.false_eq_true, if_false, Except.ok.injEq] at hst ⊢
                  subst hst; exact ⟨_, rfl⟩

theorem foldE_refines (file : File) (j : EntJob) (F : List (Option Filter)) : ∀ (ar : List (AR.Label × Cmp.Key))
    (l : ObsList) (s : Cmp.Stats) (st' : ObsList × Cmp.Stats) (notes : List Cmp.Note),
    l.own.filter = none → l.filters = F → Pipe.foldE (stepEnt file j) ar (l, s) = .ok st' →
    ∃ notes', ar.foldlM (Cmp.step j.ref j.l10n (verdictOf F file)) ⟨s, notes⟩ = .ok ⟨st'.2, notes'⟩
  | [], l, s, st', notes, _, _, h => by
    simp only [Pipe.foldE, Except.ok.injEq] at h
    subst h
    exact ⟨notes, rfl⟩
  | p :: rest, l, s, st', notes, hown, hF, h => by
    simp only [Pipe.foldE] at h
    cases hs : stepEnt file j (l, s) p with
    | error e => rw [hs] at h; cases h
    | ok st1 =>
      obtain ⟨l1, s1⟩ := st1
      rw [hs] at h
      simp only at h
      obtain ⟨⟨n1, hc⟩, hown1, hF1⟩ := stepEnt_refines file j l hown s p l1 s1 hs notes
      rw [hF] at hc hF1
      obtain ⟨n2, h2⟩ := foldE_refines file j F rest l1 s1 st' n1 hown1 hF1 h
      exact ⟨n2, by simp only [List.foldlM_cons, hc, bind, Except.bind]; exact h2⟩

/-- a comparison of a session: notifications about the localized file, then ONE stats event, whose stats are those of
    `Cmp.compareEntities` under the verdicts of the project observers' filters -/
theorem compareEnts_refines (file : File) (j : EntJob) (l l' : ObsList) (hown : l.own.filter = none)
    (h : compareEnts file j l = .ok l') :
    ∃ evs s notes, Tr l l' (evs ++ [.stats file (Pipe.statsList s)]) ∧ NotifyOn file evs ∧
      Cmp.compareEntities j.ref j.l10n (verdictOf l.filters file) = .ok { updates := [s.toDict], notes := notes } := by
  simp only [compareEnts] at h
  cases h1 : notifyDups file .warning (Hist.findDuplicates (j.ref.map (·.key))) l with
  | error e => rw [h1] at h; cases h
  | ok l1 =>
    rw [h1] at h
    simp only at h
    cases h2 : notifyDups file .error (Hist.findDuplicates (j.l10n.map (·.key))) l1 with
    | error e => rw [h2] at h; cases h
    | ok l2 =>
      rw [h2] at h
      simp only at h
      cases h3 : Pipe.foldE (stepEnt file j) (AR.addRemove (j.ref.map (·.key)) (j.l10n.map (·.key))) (l2, {}) with
      | error e => rw [h3] at h; cases h
      | ok st =>
        rw [h3] at h
        simp only [Except.ok.injEq] at h
        subst h
        obtain ⟨e1, t1, n1⟩ := notifyDups_tr file _ _ l l1 h1
        obtain ⟨e2, t2, n2⟩ := notifyDups_tr file _ _ l1 l2 h2
        obtain ⟨e3, t3, n3⟩ := foldE_tr file j _ _ st h3
        obtain ⟨_, hown1, hF1⟩ := tr_own t1 hown
        obtain ⟨_, hown2, hF2⟩ := tr_own t2 hown1
        obtain ⟨notes, hc⟩ := foldE_refines file j l.filters _ l2 {} st
          ([] ++ (Cmp.findDuplicates j.ref).map Cmp.Note.warning ++ (Cmp.findDuplicates j.l10n).map Cmp.Note.error)
          hown2 (by rw [hF2, hF1]) h3
        refine ⟨e1 ++ e2 ++ e3, st.2, notes, ((t1.trans t2).trans t3).trans (push_tr _ _ _), (n1.append n2).append n3, ?_⟩
        unfold Cmp.compareEntities
        simp only [bind, Except.bind, pure, Except.pure, Cmp.foldl_notify]
        rw [hc]

/-! ### what the block of a comparison adds to the counters -/

theorem statsList_eq (s : Cmp.Stats) : Pipe.statsList s =
    [(.missing, s.missing), (.missing_w, s.missing_w), (.report, s.report), (.obsolete, s.obsolete), (.changed, s.changed),
     (.changed_w, s.changed_w), (.unchanged, s.unchanged), (.unchanged_w, s.unchanged_w), (.keys, s.keys)] := by
  simp [Pipe.statsList, Cmp.Stats.toDict, Pipe.statKeyOf, StatKey.all, StatKey.name, List.filterMap]

/-- the value the `stats` dict of a comparison holds for a summary key (`errors` / `warnings` are not in it) -/
def statOf (s : Cmp.Stats) : StatKey → Nat
  | .errors => 0 | .warnings => 0
  | .missing => s.missing | .missing_w => s.missing_w | .report => s.report | .obsolete => s.obsolete
  | .changed => s.changed | .changed_w => s.changed_w | .unchanged => s.unchanged | .unchanged_w => s.unchanged_w
  | .keys => s.keys

theorem statSum_statsList (s : Cmp.Stats) (key : StatKey) : statSum (Pipe.statsList s) key = statOf s key := by
  rw [statsList_eq]
  cases key <;> simp +decide [statSum, statOf]

theorem notifyOn_count (ign : Ev → Bool) (file : File) (evs : List Ev) (h : NotifyOn file evs) (L : Option Text) (key : StatKey)
    (hk1 : key ≠ .errors) (hk2 : key ≠ .warnings) : countSpec ign L key evs = 0 := by
  unfold countSpec
  induction evs with
  | nil => rfl
  | cons ev rest ih =>
    obtain ⟨c, d, rfl⟩ := h ev (by simp)
    have h0 : contrib ign L key (.notify c file d) = 0 := by
      unfold contrib
      split
      · rfl
      · have : countKey c ≠ some key := by
          cases c <;> simp [countKey] <;> first | exact fun h => hk1 h.symm | exact fun h => hk2 h.symm
        simp [this]
    simp only [List.map_cons, List.sum_cons, h0, Nat.zero_add]
    exact ih (fun e he => h e (by simp [he]))

/-- notifications about `file`, then its stats: the nine counters of `file`'s locale grow by the stats, nothing else moves -/
theorem block_count (F : List (Option Filter)) (file : File) (evs : List Ev) (hn : NotifyOn file evs) (s : Cmp.Stats)
    (L : Option Text) (key : StatKey) (hk1 : key ≠ .errors) (hk2 : key ≠ .warnings) :
    countSpec (ignList F) L key (evs ++ [.stats file (Pipe.statsList s)]) = if file.locale = L then statOf s key else 0 := by
  rw [countSpec_append, notifyOn_count _ file evs hn L key hk1 hk2]
  simp [countSpec, contrib, ignList, statSum_statsList]

theorem verdictOf_unfiltered (F : List (Option Filter)) (file : File) (hne : F ≠ []) (hall : ∀ x ∈ F, x = none) :
    verdictOf F file = Cmp.noFilter := by
  funext k
  unfold verdictOf Cmp.noFilter
  have hmap : F.map (fun flt => rvOf flt .missingEntity file (Pipe.keyData k)) = F.map (fun _ => Ret.error) := by
    apply List.map_congr_left
    intro x hx
    rw [hall x hx]; rfl
  rw [hmap]
  cases F with
  | nil => exact absurd rfl hne
  | cons a rest => simp +decide [listRet, toV]

theorem toDict_inj {a b : Cmp.Stats} (h : a.toDict = b.toDict) : a = b := by
  cases a; cases b
  simp only [Cmp.Stats.toDict, List.cons.injEq, Prod.mk.injEq, true_and, and_true] at h
  obtain ⟨h1, h2, h3, h4, h5, h6, h7, h8, h9⟩ := h
  subst h1; subst h2; subst h3; subst h4; subst h5; subst h6; subst h7; subst h8; subst h9
  rfl

end C03S

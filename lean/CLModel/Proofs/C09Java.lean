import CLModel.Proofs.C09Check
import CLModel.Proofs.C09Params
namespace C09P
open Android Android.Spec

/-! ### the Java `Formatter` numbering as a relation (independent of the function `uses`) -/

/-- `Numbered n ts us`: `us` pairs every specifier of `ts` with the argument it addresses when the next ordinary
    (sequential) index is `n`: `k$` addresses argument `k` and leaves the sequential index alone; an ordinary specifier
    takes the sequential index and advances it. -/
inductive Numbered : Nat → List Tok → List (Nat × Tok) → Prop
  | nil (n : Nat) : Numbered n [] []
  | explicit {n o : Nat} {t : Tok} {ts : List Tok} {us : List (Nat × Tok)} :
      t.order = some o → Numbered n ts us → Numbered n (t :: ts) ((o, t) :: us)
  | ordinary {n : Nat} {t : Tok} {ts : List Tok} {us : List (Nat × Tok)} :
      t.order = none → Numbered (n + 1) ts us → Numbered n (t :: ts) ((n, t) :: us)

/-- `FirstUse us p f`: the first specifier that addresses argument `p` has conversion `f` -/
inductive FirstUse : List (Nat × Tok) → Nat → List Nat → Prop
  | here {p : Nat} {t : Tok} {us : List (Nat × Tok)} : FirstUse ((p, t) :: us) p t.fmt
  | later {q p : Nat} {t : Tok} {us : List (Nat × Tok)} {f : List Nat} :
      q ≠ p → FirstUse us p f → FirstUse ((q, t) :: us) p f

theorem numbered_uses (n : Nat) (ts : List Tok) : Numbered n ts (uses n ts) := by
  induction ts generalizing n with
  | nil => exact .nil n
  | cons t ts ih =>
    unfold uses
    cases h : t.order with
    | some o => exact .explicit h (ih n)
    | none => exact .ordinary h (ih (n + 1))

theorem numbered_unique {n : Nat} {ts : List Tok} {us : List (Nat × Tok)} (h : Numbered n ts us) : us = uses n ts := by
  induction h with
  | nil n => rfl
  | explicit ho _ ih => simp [uses, ho, ih]
  | ordinary ho _ ih => simp [uses, ho, ih]

theorem numbered_iff (n : Nat) (ts : List Tok) (us : List (Nat × Tok)) : Numbered n ts us ↔ us = uses n ts :=
  ⟨numbered_unique, fun h => h ▸ numbered_uses n ts⟩

theorem firstUse_iff (us : List (Nat × Tok)) (p : Nat) (f : List Nat) : FirstUse us p f ↔ firstFmt us p = some f := by
  induction us with
  | nil =>
    constructor
    · intro h; cases h
    · intro h; simp [firstFmt] at h
  | cons u us ih =>
    obtain ⟨q, t⟩ := u
    by_cases hq : q = p
    · subst hq
      constructor
      · intro h
        cases h with
        | here => simp [firstFmt]
        | later hne _ => exact absurd rfl hne
      · intro h
        simp [firstFmt] at h
        subst h
        exact .here
    · have hb : (q == p) = false := by simp [hq]
      have hff : firstFmt ((q, t) :: us) p = firstFmt us p := by simp [firstFmt, hb]
      rw [hff, ← ih]
      constructor
      · intro h
        cases h with
        | here => exact absurd rfl hq
        | later _ h' => exact h'
      · intro h; exact .later hq h

theorem uses_length (n : Nat) (ts : List Tok) : (uses n ts).length = ts.length := by
  induction ts generalizing n with
  | nil => rfl
  | cons t ts ih => unfold uses; cases t.order <;> simp [ih]

theorem mem_conflictsOf (us : List (Nat × Tok)) (e : Msg × Nat) :
    e ∈ conflictsOf us ↔ ∃ u f, u ∈ us ∧ FirstUse us u.1 f ∧ f ≠ u.2.fmt ∧ e = (Msg.conflict u.1 u.2.fmt f, u.2.pos) := by
  unfold conflictsOf
  simp only [List.mem_filterMap]
  constructor
  · rintro ⟨u, hu, h⟩
    cases hf : firstFmt us u.1 with
    | none => simp [hf] at h
    | some f =>
      simp only [hf] at h
      by_cases hfe : (f == u.2.fmt) = true
      · simp [hfe] at h
      · simp [hfe] at h
        exact ⟨u, f, hu, (firstUse_iff us u.1 f).mpr hf, by simpa using hfe, h.symm⟩
  · rintro ⟨u, f, hu, hf, hne, rfl⟩
    refine ⟨u, hu, ?_⟩
    rw [(firstUse_iff us u.1 f).mp hf]
    have : (f == u.2.fmt) = false := by simp [hne]
    simp [this]

end C09P

/- C08/C07 CSS (extension C), part 3: the two models of `CSSCheckMixin.parse_css_spec`
   (`Ftl.parseCssSpec` in Checks/Fluent.lean, `Dtd.parseCssSpec` in Checks/Dtd.lean) agree on every text,
   so theorems about one transfer to the other.  They differ in representation only (unit as `Option`,
   errors as an inductive vs. a record, `dictSet` vs. `dset`, `a != b` vs. `a < b` for "prop is non-empty");
   the differences vanish on what the regex engine can return for `_css_spec`: whenever group `prop` is set it
   is non-empty and group `unit` is set too. -/
import CLModel.Checks.Dtd
import CLModel.Checks.Fluent
import CLModel.Proofs.Captures
import CLModel.Proofs.RxSearch
import CLModel.Proofs.C07Model
import CLModel.Proofs.C08CGrammar
namespace C08C
open Rx

def toFtlMap (m : List (Text × Text)) : Ftl.CssMap := m.map (fun p => (p.1, some p.2))

def toFtlErr (e : Dtd.CssErr) : Ftl.CssErr :=
  match e.code with
  | .badContent => .badContent e.pos
  | .missingSemicolon => .missingSemicolon e.pos

/-! ### what a match of `_css_spec` can capture -/

/-- the first alternative of `_css_spec` -/
def specA : Re :=
  match Gen.Pat.CSSCheckMixin__css_spec with
  | .alt a _ => a
  | _ => .eps

theorem spec_alt : Gen.Pat.CSSCheckMixin__css_spec = .alt specA .eos := rfl

/-- group `prop`, if set, is non-empty and comes with group `unit` -/
def MOK (st : St) : Prop :=
  match st.group Gen.Pat.CSSCheckMixin__css_spec_g_prop with
  | none => True
  | some (a, b) => a < b ∧ (st.group Gen.Pat.CSSCheckMixin__css_spec_g_unit).isSome = true

theorem group_of_mem {new : List (Nat × Nat × Nat)} {g : Nat} (h : ∃ c ∈ new, c.1 = g) :
    ∃ a b, capOf new g = some (a, b) ∧ (g, a, b) ∈ new := by
  obtain ⟨c, hc, hg⟩ := h
  cases hf : new.find? (·.1 == g) with
  | none =>
    have := List.find?_eq_none.mp hf c hc
    simp [hg] at this
  | some c' =>
    obtain ⟨i, a, b⟩ := c'
    have hi : i = g := by simpa using List.find?_some hf
    subst hi
    exact ⟨a, b, by simp [capOf, hf], List.mem_of_find?_eq_some hf⟩

theorem spec_caps (s : Array Nat) (p : Nat) (k : K) (hk : ∀ x r, k x = some r → r = x) (st : St)
    (h : m s Gen.Pat.CSSCheckMixin__css_spec ⟨p, []⟩ k = some st) : MOK st := by
  rw [spec_alt] at h
  simp only [m_alt] at h
  rcases orElse_some h with h | ⟨_, h⟩
  · -- the declaration alternative
    obtain ⟨st3, ⟨_, new3, e3, _, m3⟩, hk3⟩ := m_caps s 3 specA (by decide) ⟨p, []⟩ k st h
    have := hk _ _ hk3; subst this
    obtain ⟨st1, ⟨_, new1, e1, c1⟩, hk1⟩ := m_capsL s 1 1 specA (by decide) (by decide) ⟨p, []⟩ k st h
    have := hk _ _ hk1; subst this
    simp only [List.append_nil] at e1 e3
    obtain ⟨a, b, hg1, hm1⟩ := group_of_mem (g := 1) (new := new1) (by
      obtain ⟨_, ⟨_, n, e, _, mm⟩, hk'⟩ := m_caps s 1 specA (by decide) ⟨p, []⟩ k st h
      have := hk _ _ hk'; subst this
      simp only [List.append_nil] at e
      rw [e1] at e; subst e
      exact mm (by decide))
    obtain ⟨c, d, hg3, _⟩ := group_of_mem (g := 3) (new := new3) (m3 (by decide))
    have hlen := (c1 _ hm1).2.2.2 rfl
    simp only [MOK, St.group, Gen.Pat.CSSCheckMixin__css_spec_g_prop, Gen.Pat.CSSCheckMixin__css_spec_g_unit]
    rw [e1, hg1]
    simp only []
    have hlen' : a + 1 ≤ b := hlen
    refine ⟨by omega, ?_⟩
    rw [← e1, e3, hg3]; rfl
  · -- `\Z`
    simp only [m] at h
    split at h
    · have := hk _ _ h; subst this
      simp [MOK, St.group, capOf]
    · cases h

theorem finditer_mok (s : Array Nat) : ∀ p ∈ finditer s Gen.Pat.CSSCheckMixin__css_spec, MOK p.2 := by
  intro p hp
  rcases (finditer_sound s _ p hp).2 with h | h
  · exact spec_caps s p.1 some (by intro x r h; cases h; rfl) p.2 h
  · refine spec_caps s p.1 _ ?_ p.2 h
    intro x r h
    split at h
    · cases h
    · cases h; rfl

/-! ### the dict assignment -/

theorem dset_cons_eq (k v v' : Text) (r : List (Text × Text)) (hn : k ∉ r.map Prod.fst) :
    Dtd.dset ((k, v') :: r) k v = (k, v) :: r := by
  have hnot : ∀ p ∈ r, (p.1 == k) = false := by
    intro p hp
    simp only [beq_eq_false_iff_ne, ne_eq]
    intro he
    exact hn (List.mem_map.mpr ⟨p, hp, he⟩)
  have hmap : r.map (fun p => if (p.1 == k) = true then (k, v) else p) = r := by
    conv => rhs; rw [← List.map_id r]
    apply List.map_congr_left
    intro p hp
    rw [hnot p hp]; rfl
  unfold Dtd.dset
  rw [if_pos (by simp)]
  rw [List.map_cons, hmap]
  simp

theorem dset_cons_ne (k k' v v' : Text) (r : List (Text × Text)) (hne : (k' == k) = false) :
    Dtd.dset ((k', v') :: r) k v = (k', v') :: Dtd.dset r k v := by
  unfold Dtd.dset
  by_cases h : r.any (·.1 == k) = true
  · rw [if_pos (by simp only [List.any_cons, hne, Bool.false_or]; exact h), if_pos h, List.map_cons]
    simp only [hne, Bool.false_eq_true, if_false]
  · rw [if_neg (by simp only [List.any_cons, hne, Bool.false_or]; exact h), if_neg h]
    rfl

theorem dictSet_toFtl : ∀ (d : List (Text × Text)) (k v : Text), (d.map Prod.fst).Nodup →
    Ftl.dictSet (toFtlMap d) k (some v) = toFtlMap (Dtd.dset d k v)
  | [], k, v, _ => by simp [toFtlMap, Ftl.dictSet, Dtd.dset]
  | (k', v') :: r, k, v, hn => by
    simp only [List.map_cons, List.nodup_cons] at hn
    have ih := dictSet_toFtl r k v hn.2
    by_cases hk : k' = k
    · subst hk
      rw [dset_cons_eq k' v v' r hn.1]
      simp [toFtlMap, Ftl.dictSet]
    · have hne : (k' == k) = false := by simpa using hk
      rw [dset_cons_ne k k' v v' r hne]
      simp only [toFtlMap, List.map_cons, Ftl.dictSet, hne, Bool.false_eq_true, if_false]
      simp only [toFtlMap] at ih
      rw [ih]

/-! ### the loops -/

def resOf (r : Option Dtd.CssState) : Option Ftl.CssMap × Option (List Ftl.CssErr) :=
  match r with
  | some stt => (stt.refMap.map toFtlMap, stt.errors.map (·.map toFtlErr))
  | none => (none, none)

theorem slice_eq (s : Array Nat) (a b : Nat) : Ftl.slice s a b = Dtd.slice s a b := rfl

/-- one iteration of the two loops -/
theorem step_agree (s : Array Nat) (q : Nat) (st : St) (rest : List (Nat × St)) (endp : Nat)
    (dm : Option (List (Text × Text))) (de : Option (List Dtd.CssErr)) (hst : MOK st) (hnd : Dtd.mapNodup dm) :
    Ftl.cssLoop s ((q, st) :: rest) endp (dm.map toFtlMap) (de.map (·.map toFtlErr)) =
      match Dtd.cssStep s ⟨dm, de, endp⟩ (q, st) with
      | none => (none, none)
      | some stt' => Ftl.cssLoop s rest stt'.end_ (stt'.refMap.map toFtlMap) (stt'.errors.map (·.map toFtlErr)) := by
  conv => lhs; unfold Ftl.cssLoop
  unfold Dtd.cssStep
  simp only []
  generalize matchAt (s.extract 0 q) Gen.Pat.CSSCheckMixin__css_sep endp = msep
  by_cases h0 : (endp == 0 && q == st.pos) = true
  · simp [h0]
  · simp only [h0, Bool.false_eq_true, if_false]
    cases hg1 : st.group Gen.Pat.CSSCheckMixin__css_spec_g_prop with
    | none =>
      simp only [Bool.and_false, Bool.or_false]
      cases msep <;> cases de <;> by_cases hq : q > endp <;> simp [hq, toFtlErr]
    | some ab =>
      obtain ⟨a, b⟩ := ab
      simp only [MOK, hg1] at hst
      obtain ⟨hab, hu⟩ := hst
      cases hg3 : st.group Gen.Pat.CSSCheckMixin__css_spec_g_unit with
      | none => rw [hg3] at hu; cases hu
      | some cd =>
        obtain ⟨c, d⟩ := cd
        have hne : (a != b) = true := by simp; omega
        have heq : (a == b) = false := by simp; omega
        simp only [hne, hab, decide_true, Bool.and_true, heq, Bool.false_eq_true, if_false, if_true, Option.map_some,
          slice_eq]
        have hfin : ∀ (fm : Ftl.CssMap) (dmap : List (Text × Text)), fm = toFtlMap dmap →
            Ftl.cssLoop s rest st.pos (some fm)
              (if (decide (q > endp) || decide (endp > 0)) = true then
                match msep with
                | none => some ((match Option.map (fun x => List.map toFtlErr x) de with | some l => l | none => []) ++
                    [Ftl.CssErr.badContent endp])
                | some sp =>
                  if (decide (endp > 0) && (sp.group Gen.Pat.CSSCheckMixin__css_sep_g_semi).isNone) = true then
                    some ((match Option.map (fun x => List.map toFtlErr x) de with | some l => l | none => []) ++
                      [Ftl.CssErr.missingSemicolon endp])
                  else Option.map (fun x => List.map toFtlErr x) de
              else Option.map (fun x => List.map toFtlErr x) de) =
            Ftl.cssLoop s rest st.pos (some (toFtlMap dmap))
              (Option.map (fun x => List.map toFtlErr x)
                (if (decide (q > endp) || decide (endp > 0)) = true then
                  match msep with
                  | none => some ((match de with | some l => l | none => []) ++ [⟨endp, Dtd.CssCode.badContent⟩])
                  | some sp =>
                    if (decide (endp > 0) && (sp.group Gen.Pat.CSSCheckMixin__css_sep_g_semi).isNone) = true then
                      some ((match de with | some l => l | none => []) ++ [⟨endp, Dtd.CssCode.missingSemicolon⟩])
                    else de
                else de)) := by
          intro fm dmap hfm
          subst hfm
          cases msep with
          | none => cases de <;> by_cases hq : (decide (q > endp) || decide (endp > 0)) = true <;> simp [hq, toFtlErr]
          | some sp =>
            cases de <;> by_cases hq : (decide (q > endp) || decide (endp > 0)) = true <;>
              by_cases hs : (decide (endp > 0) && (sp.group Gen.Pat.CSSCheckMixin__css_sep_g_semi).isNone) = true <;>
              simp [hq, hs, toFtlErr]
        cases dm with
        | none =>
          simp only [Option.map_none]
          exact hfin _ _ (by simp [toFtlMap, Ftl.dictSet, Dtd.dset])
        | some l =>
          simp only [Option.map_some]
          exact hfin _ _ (dictSet_toFtl l _ _ (by simpa [Dtd.mapNodup] using hnd))

theorem cssLoop_agree (s : Array Nat) : ∀ (ms : List (Nat × St)) (endp : Nat) (dm : Option (List (Text × Text)))
    (de : Option (List Dtd.CssErr)), (∀ p ∈ ms, MOK p.2) → Dtd.mapNodup dm →
    Ftl.cssLoop s ms endp (dm.map toFtlMap) (de.map (·.map toFtlErr)) = resOf (Dtd.cssLoop s ms ⟨dm, de, endp⟩)
  | [], endp, dm, de, _, _ => by simp [Ftl.cssLoop, Dtd.cssLoop, resOf]
  | (q, st) :: rest, endp, dm, de, hok, hnd => by
    have hst : MOK st := hok (q, st) (by simp)
    have hrest : ∀ p ∈ rest, MOK p.2 := fun p hp => hok p (by simp [hp])
    rw [step_agree s q st rest endp dm de hst hnd]
    conv => rhs; unfold Dtd.cssLoop
    cases hstep : Dtd.cssStep s ⟨dm, de, endp⟩ (q, st) with
    | none => simp [resOf]
    | some stt' =>
      simp only []
      have hnd' := Dtd.cssStep_nodup s _ stt' _ hstep hnd
      exact cssLoop_agree s rest stt'.end_ stt'.refMap stt'.errors hrest hnd'

/-- **css_models_agree**: the Fluent-side and the DTD-side model of `parse_css_spec` return the same map and the
    same errors on every text -/
theorem css_models_agree (v : Text) :
    Ftl.parseCssSpec v =
      ((Dtd.parseCssSpec v).1.map toFtlMap, (Dtd.parseCssSpec v).2.map (·.map toFtlErr)) := by
  unfold Ftl.parseCssSpec Dtd.parseCssSpec
  simp only []
  have := cssLoop_agree v.toArray (finditer v.toArray Gen.Pat.CSSCheckMixin__css_spec) 0 none none
    (finditer_mok v.toArray) (by simp [Dtd.mapNodup])
  simp only [Option.map_none] at this
  rw [this]
  cases Dtd.cssLoop v.toArray (finditer v.toArray Gen.Pat.CSSCheckMixin__css_spec) ⟨none, none, 0⟩ <;> rfl

/-! ### consequences of the grammar theorem -/

theorem dset_ne_nil (d : List (Text × Text)) (k v : Text) : Dtd.dset d k v ≠ [] := by
  unfold Dtd.dset
  split
  · rename_i h
    intro hc
    have : d = [] := by simpa using hc
    subst this
    simp at h
  · simp

theorem foldDecls_ne_nil : ∀ (ds : List Decl) (mp : List (Text × Text)), mp ≠ [] → foldDecls mp ds ≠ []
  | [], mp, h => h
  | d :: ds, mp, _ => by
    simp only [foldDecls, List.foldl_cons]
    exact foldDecls_ne_nil ds _ (dset_ne_nil _ _ _)

theorem declMap_ne_nil {ds : List Decl} (h : ds ≠ []) : declMap ds ≠ [] := by
  cases ds with
  | nil => exact absurd rfl h
  | cons d ds =>
    simp only [declMap, List.foldl_cons]
    exact foldDecls_ne_nil ds _ (dset_ne_nil _ _ _)

theorem declsText_ne_nil {ds : List Decl} {t : Text} (h : DeclsText ds t) : ds ≠ [] := by
  cases h <;> simp

theorem cssSpec_ne_nil {ds : List Decl} {v : Text} (h : CssSpec ds v) : ds ≠ [] := by
  cases h with
  | mk lead t trail ds _ hdt _ => exact declsText_ne_nil hdt

theorem dset_append_new (mp : List (Text × Text)) (k v : Text) (h : k ∉ mp.map Prod.fst) :
    Dtd.dset mp k v = mp ++ [(k, v)] := by
  unfold Dtd.dset
  rw [if_neg]
  intro hc
  obtain ⟨p, hp, he⟩ := List.any_eq_true.mp hc
  exact h (List.mem_map.mpr ⟨p, hp, by simpa using he⟩)

/-- with pairwise distinct property names the dict is just the list of (property, unit) pairs -/
theorem foldDecls_distinct : ∀ (ds : List Decl) (mp : List (Text × Text)),
    (mp.map Prod.fst ++ ds.map (·.prop)).Nodup → foldDecls mp ds = mp ++ ds.map (fun d => (d.prop, d.unit))
  | [], mp, _ => by simp [foldDecls]
  | d :: ds, mp, h => by
    simp only [foldDecls, List.foldl_cons]
    have hk : d.prop ∉ mp.map Prod.fst := by
      intro hc
      rw [List.nodup_append] at h
      exact h.2.2 _ hc _ (by simp) rfl
    rw [dset_append_new mp _ _ hk]
    have := foldDecls_distinct ds (mp ++ [(d.prop, d.unit)]) (by
      simpa [List.map_append, List.append_assoc] using h)
    simp only [foldDecls] at this
    rw [this]
    simp

theorem declMap_distinct (ds : List Decl) (h : (ds.map (·.prop)).Nodup) :
    declMap ds = ds.map (fun d => (d.prop, d.unit)) := by
  have := foldDecls_distinct ds [] (by simpa using h)
  simpa [foldDecls, declMap] using this

/-- **css_grammar_accepts** (model of checks/fluent.py), transferred through `css_models_agree` -/
theorem css_grammar_accepts_ftl (ds : List Decl) (v : Text) (h : CssSpec ds v) :
    Ftl.parseCssSpec v = (some (toFtlMap (declMap ds)), none) := by
  rw [css_models_agree, css_grammar_accepts_dtd ds v h]
  rfl

end C08C

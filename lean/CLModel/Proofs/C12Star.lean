/- Group indices of a compiled matcher regex are unique; what star and double star groups capture. -/
import CLModel.Proofs.C11Shape
namespace PM
open Rx

def gidx (r : Re) : List Nat := (groups r).map (·.1)

theorem gidx_group (i r) : gidx (.group i r) = i :: gidx r := by simp [gidx, groups]
theorem gidx_seq (a b) : gidx (.seq a b) = gidx a ++ gidx b := by simp [gidx, groups]
theorem gidx_alt (a b) : gidx (.alt a b) = gidx a ++ gidx b := by simp [gidx, groups]
theorem gidx_rep (a b c r) : gidx (.rep a b c r) = gidx r := by simp [gidx, groups]
theorem gidx_look (a b r) : gidx (.look a b r) = gidx r := by simp [gidx, groups]

theorem wfRe_count (r : Re) : ∀ d o d' o', wfRe r (d, o) = some (d', o') →
    ∀ j, d'.count j = (gidx r).count j + d.count j := by
  induction r with
  | group i r ih =>
    intro d o d' o' h j
    simp only [wfRe] at h
    split at h
    · cases h
    · split at h
      · rename_i d1 o1 h1
        simp only [Option.some.injEq, Prod.mk.injEq] at h
        obtain ⟨rfl, _⟩ := h
        have := ih _ _ _ _ h1 j
        rw [this, gidx_group, List.count_cons, List.count_cons]
        omega
      · cases h
  | backref i =>
    intro d o d' o' h j
    simp only [wfRe] at h
    split at h
    · simp only [Option.some.injEq, Prod.mk.injEq] at h
      obtain ⟨rfl, _⟩ := h
      simp [gidx, groups]
    · cases h
  | seq a b iha ihb =>
    intro d o d' o' h j
    simp only [wfRe] at h
    split at h
    · rename_i s' hs
      obtain ⟨d1, o1⟩ := s'
      have h1 := iha _ _ _ _ hs j
      have h2 := ihb _ _ _ _ h j
      rw [h2, h1, gidx_seq, List.count_append]; omega
    · cases h
  | alt a b iha ihb =>
    intro d o d' o' h j
    simp only [wfRe] at h
    split at h
    · rename_i s' hs
      obtain ⟨d1, o1⟩ := s'
      have h1 := iha _ _ _ _ hs j
      have h2 := ihb _ _ _ _ h j
      rw [h2, h1, gidx_alt, List.count_append]; omega
    · cases h
  | rep mn mx g r ih =>
    intro d o d' o' h j
    simp only [wfRe] at h
    rw [gidx_rep]; exact ih _ _ _ _ h j
  | look a n r ih =>
    intro d o d' o' h j
    simp only [wfRe] at h
    rw [gidx_look]; exact ih _ _ _ _ h j
  | _ =>
    intro d o d' o' h j
    simp only [wfRe, Option.some.injEq, Prod.mk.injEq] at h
    obtain ⟨rfl, _⟩ := h
    simp [gidx, groups]

theorem wfRe_nodup (r : Re) : ∀ d o d' o', wfRe r (d, o) = some (d', o') →
    (∀ j, d.count j ≤ 1) → ∀ j, d'.count j ≤ 1 := by
  induction r with
  | group i r ih =>
    intro d o d' o' h hd
    simp only [wfRe] at h
    split at h
    · cases h
    · rename_i hc
      split at h
      · rename_i d1 o1 h1
        simp only [Option.some.injEq, Prod.mk.injEq] at h
        obtain ⟨rfl, _⟩ := h
        refine ih _ _ _ _ h1 ?_
        intro j
        rw [List.count_cons]
        have hci : d.count i = 0 := by
          apply List.count_eq_zero.mpr
          intro hmem
          apply hc
          simpa using hmem
        by_cases hij : (i == j) = true
        · have : i = j := by simpa using hij
          subst this; simp [hci]
        · simp [hij]; exact hd j
      · cases h
  | backref i =>
    intro d o d' o' h hd
    simp only [wfRe] at h
    split at h
    · simp only [Option.some.injEq, Prod.mk.injEq] at h
      obtain ⟨rfl, _⟩ := h; exact hd
    · cases h
  | seq a b iha ihb =>
    intro d o d' o' h hd
    simp only [wfRe] at h
    split at h
    · rename_i s' hs
      obtain ⟨d1, o1⟩ := s'
      exact ihb _ _ _ _ h (iha _ _ _ _ hs hd)
    · cases h
  | alt a b iha ihb =>
    intro d o d' o' h hd
    simp only [wfRe] at h
    split at h
    · rename_i s' hs
      obtain ⟨d1, o1⟩ := s'
      exact ihb _ _ _ _ h (iha _ _ _ _ hs hd)
    · cases h
  | rep mn mx g r ih => intro d o d' o' h hd; simp only [wfRe] at h; exact ih _ _ _ _ h hd
  | look a n r ih => intro d o d' o' h hd; simp only [wfRe] at h; exact ih _ _ _ _ h hd
  | _ =>
    intro d o d' o' h hd
    simp only [wfRe, Option.some.injEq, Prod.mk.injEq] at h
    obtain ⟨rfl, _⟩ := h; exact hd

/-- in a regex that `re.compile` accepts every group index occurs once -/
theorem wfRe_unique {re : Re} (h : (wfRe re ([], [])).isSome = true) : ∀ j, (gidx re).count j ≤ 1 := by
  cases hw : wfRe re ([], []) with
  | none => simp [hw] at h
  | some p =>
    obtain ⟨d', o'⟩ := p
    intro j
    have h1 := wfRe_count re _ _ _ _ hw j
    have h2 := wfRe_nodup re _ _ _ _ hw (by intro j; simp) j
    simp at h1
    omega

theorem unique_body : ∀ {l : List (Nat × Re)} {i : Nat} {b1 b2 : Re},
    (l.map (·.1)).count i ≤ 1 → (i, b1) ∈ l → (i, b2) ∈ l → b1 = b2
  | [], _, _, _, _, h1, _ => by cases h1
  | (k, b) :: l, i, b1, b2, hc, h1, h2 => by
    simp only [List.map_cons, List.count_cons] at hc
    simp only [List.mem_cons, Prod.mk.injEq] at h1 h2
    have hmem : ∀ {x}, (i, x) ∈ l → 1 ≤ (l.map (·.1)).count i := by
      intro x hx
      apply List.count_pos_iff.mpr
      exact List.mem_map.mpr ⟨(i, x), hx, rfl⟩
    rcases h1 with ⟨rfl, rfl⟩ | h1
    · rcases h2 with ⟨_, rfl⟩ | h2
      · rfl
      · have := hmem h2; simp at hc; omega
    · rcases h2 with ⟨rfl, rfl⟩ | h2
      · have := hmem h1; simp at hc; omega
      · exact unique_body (by omega) h1 h2

/-! ### repetition of a one-character body -/

theorem sem_rep_all {s : Array Nat} {P : Nat → Prop} {body : Re}
    (hbody : ∀ x y, BSem s body x y → ∀ j, x.pos ≤ j → j < y.pos → P j) :
    ∀ {r x y}, BSem s r x y → ∀ {mn mx g}, r = Re.rep mn mx g body → ∀ j, x.pos ≤ j → j < y.pos → P j := by
  intro r x y h
  induction h with
  | repNil => intro _ _ _ _ j h1 h2; omega
  | @repCons mn mx mn' mx' g r st st1 st2 h1 _ _ ih2 =>
    intro mn0 mx0 g0 hr j hj1 hj2
    injection hr with _ _ _ hb
    subst hb
    by_cases hlt : j < st1.pos
    · exact hbody _ _ h1 j hj1 hlt
    · exact ih2 (mn := mn') (mx := mx') (g := g) rfl j (by omega) hj2
  | _ => intro _ _ _ hr; cases hr

theorem sem_notLit {s : Array Nat} {c : Nat} {x y : St} (h : BSem s (.notLit c) x y) :
    y.pos = x.pos + 1 ∧ ∃ d, s[x.pos]? = some d ∧ d ≠ c := by
  cases h with
  | notLit hd hne => exact ⟨rfl, _, hd, hne⟩

theorem mem_slice {s : Array Nat} {a b x : Nat} (h : x ∈ slice s a b) :
    ∃ j, a ≤ j ∧ j < b ∧ s[j]? = some x := by
  unfold slice at h
  obtain ⟨i, hi⟩ := List.mem_iff_getElem?.mp h
  rw [Array.getElem?_toList, Array.getElem?_extract] at hi
  split at hi
  · rename_i hlt
    exact ⟨a + i, by omega, by omega, hi⟩
  · cases hi

end PM

namespace PM
open Rx

/-- a capture reported after a successful match is a `BSem`-match of the body of *the* group with that index -/
theorem cap_of_group {m : Matcher} {path : Text} {re names st} (hre : m.regexOf = .ok (re, names))
    (hst : matchAt path.toArray re 0 = some st) {i : Nat} {body : Re} {a b : Nat}
    (hg : (i, body) ∈ groups re) (hc : capOf st.caps i = some (a, b)) :
    ∃ x y, BSem path.toArray body x y ∧ x.pos = a ∧ y.pos = b := by
  obtain ⟨items, _, _, hwf⟩ := regexOf_inv hre
  have hsem := matchAt_sem hst
  have hcf := hsem.capsFrom (G := groups re) (fun p hp => hp) (capsFrom_nil _ _)
  obtain ⟨body', hb', x, y, hxy, hx, hy⟩ := hcf _ (capOf_mem hc)
  have : body' = body := unique_body (wfRe_unique hwf _) hb' hg
  subst this
  exact ⟨x, y, hxy, hx, hy⟩

theorem node_item_groups {m : Matcher} {re names} (hre : m.regexOf = .ok (re, names)) {n : Node}
    (hn : n ∈ m.pattern.nodes) :
    ∃ a na, rxNode (rxVal (fuelFor m.env)) n m.env = .ok (a, na) ∧ ∀ x ∈ a, ∀ p ∈ groups x, p ∈ groups re := by
  obtain ⟨items, hrx, rfl, _⟩ := regexOf_inv hre
  obtain ⟨root, citems, _, hch, rfl⟩ := rxPat_inv hrx
  obtain ⟨a, na, h1, h2, _⟩ := rxChildren_mem hch hn
  refine ⟨a, na, h1, ?_⟩
  intro x hx p hp
  rw [groups_seqOf]
  apply List.mem_flatMap.mpr
  exact ⟨x, by simp [h2 x hx], hp⟩

theorem star_group_mem {m : Matcher} {re names} (hre : m.regexOf = .ok (re, names)) {n : Nat}
    (hn : Node.star n ∈ m.pattern.nodes) :
    (encName (sname n), Gen.Pat.matcher_frag_star) ∈ groups re := by
  obtain ⟨a, na, h1, h2⟩ := node_item_groups hre hn
  simp only [rxNode, pure, Except.pure, Except.ok.injEq, Prod.mk.injEq] at h1
  obtain ⟨rfl, _⟩ := h1
  exact h2 (Re.group (encName (sname n)) Gen.Pat.matcher_frag_star) (List.mem_singleton.mpr rfl) _
    (by simp [groups])

theorem starstar_group_mem {m : Matcher} {re names} (hre : m.regexOf = .ok (re, names)) {n : Nat} {sfx : Text}
    (hn : Node.starstar n sfx ∈ m.pattern.nodes) :
    (encName (sname n), seqOf (Gen.Pat.matcher_frag_starstar :: sfx.map Re.lit)) ∈ groups re := by
  obtain ⟨a, na, h1, h2⟩ := node_item_groups hre hn
  simp only [rxNode, pure, Except.pure, Except.ok.injEq, Prod.mk.injEq] at h1
  obtain ⟨rfl, _⟩ := h1
  exact h2 (Re.alt (Re.group (encName (sname n)) (seqOf (Gen.Pat.matcher_frag_starstar :: sfx.map Re.lit))) Re.eps)
    (List.mem_singleton.mpr rfl) _ (by simp [groups])

theorem groupText_some {s : Array Nat} {st : St} {i : Nat} {v : Text} (h : groupText s st i = some v) :
    ∃ a b, capOf st.caps i = some (a, b) ∧ v = slice s a b := by
  unfold groupText St.group at h
  split at h
  · rename_i a b hc
    simp at h
    exact ⟨a, b, hc, h.symm⟩
  · cases h

end PM

/-
Helper lemmas for C15, part 2: `prune`, the closed form of `merge_two`, the key diff restricted
to non-object keys.  Core Lean only.
-/
import CLModel.Proofs.C15Dict
namespace AR

variable {α : Type} [BEq α] [LawfulBEq α]

omit [LawfulBEq α] in
theorem anchors_mem' (l r : List α) (cur : Option α) :
    ∀ p ∈ anchors l r cur, p.1 = cur ∨ ∃ y ∈ r, l.contains y ∧ p.1 = some y := by
  induction r generalizing cur with
  | nil => simp [anchors]
  | cons x xs ih =>
    intro p hp
    simp only [anchors] at hp
    split at hp
    · rename_i hx
      rcases ih _ p hp with h | ⟨y, hy, h⟩
      · exact .inr ⟨x, by simp, hx, h⟩
      · exact .inr ⟨y, by simp [hy], h⟩
    · rw [List.mem_cons] at hp
      rcases hp with rfl | hp
      · exact .inl rfl
      · rcases ih _ p hp with h | ⟨y, hy, h⟩
        · exact .inl h
        · exact .inr ⟨y, by simp [hy], h⟩

omit [LawfulBEq α] in
theorem anchors_snd_not_mem (l r : List α) (cur : Option α) :
    ∀ p ∈ anchors l r cur, l.contains p.2 = false ∧ p.2 ∈ r := by
  induction r generalizing cur with
  | nil => simp [anchors]
  | cons x xs ih =>
    intro p hp
    simp only [anchors] at hp
    split at hp
    · have := ih _ p hp
      exact ⟨this.1, by simp [this.2]⟩
    · rename_i hx
      rw [List.mem_cons] at hp
      rcases hp with rfl | hp
      · exact ⟨by simpa using hx, by simp⟩
      · have := ih _ p hp
        exact ⟨this.1, by simp [this.2]⟩

/-- dropping, on both sides, keys that are never shared commutes with `anchors` -/
theorem anchors_filter (q : α → Bool) (l r : List α) (cur : Option α)
    (H : ∀ x ∈ r, q x = false → l.contains x = false) :
    (anchors l r cur).filter (fun p => q p.2) = anchors (l.filter q) (r.filter q) cur := by
  induction r generalizing cur with
  | nil => simp [anchors]
  | cons x xs ih =>
    have H' : ∀ y ∈ xs, q y = false → l.contains y = false := fun y hy => H y (by simp [hy])
    simp only [anchors]
    by_cases hx : l.contains x = true
    · have hq : q x = true := by
        cases hqx : q x
        · rw [H x (by simp) hqx] at hx; exact absurd hx (by simp)
        · rfl
      have hx' : (l.filter q).contains x = true := by
        simp only [List.contains_iff_mem, List.mem_filter] at hx ⊢
        exact ⟨hx, hq⟩
      rw [if_pos hx, List.filter_cons, if_pos hq, anchors, if_pos hx', ih _ H']
    · have hx' : ¬ (l.filter q).contains x = true := by
        simp only [List.contains_iff_mem, List.mem_filter] at hx ⊢
        exact fun h => hx h.1
      rw [if_neg hx, List.filter_cons]
      by_cases hq : q x = true
      · rw [if_pos hq, List.filter_cons, if_pos hq, anchors, if_neg hx', ih _ H']
      · rw [if_neg hq, List.filter_cons, if_neg hq, ih _ H']

omit [LawfulBEq α] in
theorem spec_keys' (l r : List α) :
    specKeys l r =
      ((anchors l r none).filter (fun p => p.1 == none)).map (·.2) ++
        l.flatMap (fun k => k :: ((anchors l r none).filter (fun p => p.1 == some k)).map (·.2)) :=
  spec_keys l r

omit [BEq α] [LawfulBEq α] in
theorem filter_flatMap' {γ : Type} (q : α → Bool) (l : List α) (F : α → List γ) :
    (l.filter q).flatMap F = l.flatMap (fun k => if q k = true then F k else []) := by
  induction l with
  | nil => rfl
  | cons x xs ih =>
    rw [List.filter_cons]
    by_cases hq : q x = true
    · simp [hq, ih]
    · simp [hq, ih]

/-- the closed form restricted to keys satisfying `q`, when keys failing `q` are never shared -/
theorem specKeys_filter (q : α → Bool) (l r : List α)
    (H1 : ∀ x ∈ r, q x = false → l.contains x = false)
    (H2 : ∀ x ∈ l, q x = false → r.contains x = false) :
    (specKeys l r).filter q = specKeys (l.filter q) (r.filter q) := by
  have hA := anchors_filter q l r none H1
  have hadds : ∀ a : Option α,
      (((anchors l r none).filter (fun p => p.1 == a)).map (·.2)).filter q
        = ((anchors (l.filter q) (r.filter q) none).filter (fun p => p.1 == a)).map (·.2) := by
    intro a
    rw [← hA, List.filter_map, List.filter_filter, List.filter_filter]
    congr 1
    apply List.filter_congr
    intro p _
    simp [Bool.and_comm]
  rw [spec_keys', spec_keys', List.filter_append, hadds, List.filter_flatMap, filter_flatMap']
  congr 1
  apply flatMap_congr'
  intro k hk
  rw [List.filter_cons]
  by_cases hq : q k = true
  · rw [if_pos hq, if_pos hq, hadds]
  · rw [if_neg hq, if_neg hq, hadds]
    have hq' : q k = false := by simpa using hq
    have hkr : ¬ k ∈ r := by
      have := H2 k hk hq'
      simpa using this
    rw [List.map_eq_nil_iff, List.filter_eq_nil_iff]
    intro p hp
    rcases anchors_mem' _ _ _ p hp with h | ⟨y, hy, _, h⟩
    · simp [h]
    · have hy' : y ∈ r := (List.mem_filter.1 hy).1
      simp only [h, beq_iff_eq, Option.some.injEq]
      intro e; subst e; exact hkr hy'

theorem specKeys_nodup (l r : List α) (hl : l.Nodup) (hr : r.Nodup) : (specKeys l r).Nodup := by
  rw [specKeys, ← addRemove_eq_spec l r hl hr]
  exact addRemove_keys_nodup l r hl hr

theorem specKeys_mem (l r : List α) (hl : l.Nodup) (hr : r.Nodup) (k : α) :
    k ∈ specKeys l r ↔ k ∈ l ∨ k ∈ r := by
  rw [specKeys, ← addRemove_eq_spec l r hl hr, (addRemove_keys_perm l r hl hr).mem_iff]
  simp only [List.mem_append, List.mem_filter]
  constructor
  · rintro (h | h)
    · exact .inl h
    · exact .inr h.1
  · rintro (h | h)
    · exact .inl h
    · by_cases hk : k ∈ l
      · exact .inl hk
      · exact .inr ⟨h, by simpa using hk⟩

/-- the left sequence keeps its order -/
theorem specKeys_left (l r : List α) : (specKeys l r).filter (fun k => l.contains k) = l := by
  have hadd : ∀ a : Option α,
      (((anchors l r none).filter (fun p => p.1 == a)).map (·.2)).filter (fun k => l.contains k) = [] := by
    intro a
    rw [List.filter_eq_nil_iff]
    intro k hk
    rw [List.mem_map] at hk
    obtain ⟨p, hp, rfl⟩ := hk
    have := (anchors_snd_not_mem l r none p (List.mem_filter.1 hp).1).1
    simpa using this
  rw [spec_keys', List.filter_append, hadd, List.nil_append, List.filter_flatMap]
  have : ∀ x ∈ l, (x :: ((anchors l r none).filter (fun p => p.1 == some x)).map (·.2)).filter
      (fun k => l.contains k) = [x] := by
    intro x hx
    rw [List.filter_cons, hadd]
    simp [hx]
  rw [flatMap_congr' this]
  exact List.flatMap_singleton' l

omit [LawfulBEq α] in
/-- merging a sequence with itself (or with any sub-collection of itself) changes nothing -/
theorem specKeys_of_subset (l r : List α) (h : ∀ x ∈ r, l.contains x = true) : specKeys l r = l := by
  have hA : ∀ cur, anchors l r cur = [] := by
    induction r with
    | nil => intro cur; rfl
    | cons x xs ih =>
      intro cur
      simp only [anchors]
      rw [if_pos (h x (by simp))]
      exact ih (fun y hy => h y (by simp [hy])) _
  rw [spec_keys', hA]
  simp

end AR

namespace Merge
open AR

/-! ### `prune` -/

/-- the non-`None` entries of the flat sequence -/
def somes (cs : List (Key × Option Ent)) : List (Key × Ent) :=
  cs.filterMap (fun c => c.2.map (fun e => (c.1, e)))

theorem nws_append (a b : List (Key × Ent)) : nws (a ++ b) = nws a ++ nws b := List.filter_append ..

theorem prune_step_nws (acc : List (Key × Ent)) (c : Key × Option Ent) :
    nws (prune acc c).reverse = nws acc.reverse ++ nws (somes [c]) := by
  obtain ⟨k, oe⟩ := c
  cases oe with
  | none => simp [prune, somes, nws]
  | some e =>
    have hs : somes [(k, some e)] = [(k, e)] := rfl
    rw [hs]
    unfold prune
    simp only
    by_cases hw : e.isWs = true
    · rw [if_pos hw]
      have hnil : nws [(k, e)] = [] := by simp [nws, hw]
      cases acc with
      | nil => simp [nws, hw]
      | cons p t =>
        obtain ⟨pk, prev⟩ := p
        simp only [List.head?_cons, List.tail_cons]
        by_cases hp : prev.isWs = true
        · rw [if_pos hp]
          split
          · simp [nws, hw, hp, List.filter_append]
          · rw [hnil]; simp
        · rw [if_neg hp, List.reverse_cons, nws_append]
    · rw [if_neg hw]
      simp only [List.reverse_cons, nws_append]

theorem prune_fold_nws (cs : List (Key × Option Ent)) (acc : List (Key × Ent)) :
    nws (cs.foldl prune acc).reverse = nws acc.reverse ++ nws (somes cs) := by
  induction cs generalizing acc with
  | nil => simp [somes, nws]
  | cons c cs ih =>
    rw [List.foldl_cons, ih, prune_step_nws]
    have : somes (c :: cs) = somes [c] ++ somes cs := by
      simp only [somes, List.filterMap_cons, List.filterMap_nil]
      cases c.2 <;> simp
    rw [this, nws_append, List.append_assoc]

/-- Whitespace entries of the flat sequence are keyed by themselves -/
def SelfKeyed (cs : List (Key × Option Ent)) : Prop :=
  ∀ c ∈ cs, ∀ e, c.2 = some e → e.isWs = true → c.1 = Key.obj e.oid.1 e.oid.2

theorem prune_step_sublist (acc : List (Key × Ent)) (c : Key × Option Ent) (H : SelfKeyed [c]) :
    (prune acc c).reverse.Sublist (acc.reverse ++ somes [c]) := by
  obtain ⟨k, oe⟩ := c
  cases oe with
  | none => simp [prune, somes]
  | some e =>
    have hs : somes [(k, some e)] = [(k, e)] := rfl
    rw [hs]
    unfold prune
    simp only
    by_cases hw : e.isWs = true
    · rw [if_pos hw]
      have hk : k = Key.obj e.oid.1 e.oid.2 := H (k, some e) (by simp) e rfl hw
      cases acc with
      | nil => simp
      | cons p t =>
        obtain ⟨pk, prev⟩ := p
        simp only [List.head?_cons, List.tail_cons]
        by_cases hp : prev.isWs = true
        · rw [if_pos hp]
          split
          · rw [← hk, List.reverse_cons, List.reverse_cons, List.append_assoc]
            exact List.Sublist.append_left (List.Sublist.cons _ (List.Sublist.refl _)) _
          · exact List.sublist_append_left _ _
        · rw [if_neg hp, List.reverse_cons]
          exact List.Sublist.refl _
    · rw [if_neg hw, List.reverse_cons]
      exact List.Sublist.refl _

theorem prune_fold_sublist (cs : List (Key × Option Ent)) (acc : List (Key × Ent)) (H : SelfKeyed cs) :
    (cs.foldl prune acc).reverse.Sublist (acc.reverse ++ somes cs) := by
  induction cs generalizing acc with
  | nil => simp [somes]
  | cons c cs ih =>
    rw [List.foldl_cons]
    have h1 := ih (prune acc c) (fun c' hc' => H c' (List.mem_cons_of_mem _ hc'))
    have h2 := prune_step_sublist acc c (fun c' hc' => H c' (by simp at hc'; simp [hc']))
    have : somes (c :: cs) = somes [c] ++ somes cs := by
      simp only [somes, List.filterMap_cons, List.filterMap_nil]
      cases c.2 <;> simp
    rw [this, ← List.append_assoc]
    exact h1.trans (List.Sublist.append_right h2 _)

/-! ### `merge_two` -/

/-- the flat sequence `contents` of `merge_two`, with the diff in closed form -/
def contentsOf (n o : Dict) : List (Key × Option Ent) :=
  (specKeys (keysOf n) (keysOf o)).map (fun k => (k, getNewerEntity n o k))

theorem getNewer_some_mem (n o : Dict) (k : Key) (e : Ent) (h : getNewerEntity n o k = some e) :
    (k, e) ∈ n ∨ (k, e) ∈ o := by
  unfold getNewerEntity at h
  split at h
  · rename_i e' he'
    cases h
    exact .inl (dget_mem n k e he')
  · exact .inr (dget_mem o k e h)

theorem getNewer_eq_none (n o : Dict) (k : Key) (h1 : k ∉ keysOf n) (h2 : k ∉ keysOf o) :
    getNewerEntity n o k = none := by
  unfold getNewerEntity
  rw [dget_eq_none h1, dget_eq_none h2]

theorem getNewer_left (n o : Dict) (k : Key) (h : k ∈ keysOf n) :
    getNewerEntity n o k = dget n k := by
  unfold getNewerEntity
  have := (dget_isSome_iff n k).2 h
  cases hd : dget n k with
  | none => rw [hd] at this; simp at this
  | some e => rfl

theorem getNewer_right (n o : Dict) (k : Key) (h : k ∉ keysOf n) :
    getNewerEntity n o k = dget o k := by
  unfold getNewerEntity
  rw [dget_eq_none h]

theorem getNewer_isSome (n o : Dict) (k : Key) (h : k ∈ keysOf n ∨ k ∈ keysOf o) :
    ∃ e, getNewerEntity n o k = some e := by
  by_cases hn : k ∈ keysOf n
  · rw [getNewer_left n o k hn]
    have := (dget_isSome_iff n k).2 hn
    cases hd : dget n k with
    | none => rw [hd] at this; simp at this
    | some e => exact ⟨e, rfl⟩
  · rw [getNewer_right n o k hn]
    have ho : k ∈ keysOf o := h.resolve_left hn
    have := (dget_isSome_iff o k).2 ho
    cases hd : dget o k with
    | none => rw [hd] at this; simp at this
    | some e => exact ⟨e, rfl⟩

theorem mem_somes_map (ks : List Key) (f : Key → Option Ent) (p : Key × Ent) :
    p ∈ somes (ks.map (fun k => (k, f k))) ↔ p.1 ∈ ks ∧ f p.1 = some p.2 := by
  simp only [somes, List.mem_filterMap, List.mem_map]
  constructor
  · rintro ⟨c, ⟨k, hk, rfl⟩, h⟩
    simp only [Option.map_eq_some_iff] at h
    obtain ⟨e, he, rfl⟩ := h
    exact ⟨hk, he⟩
  · rintro ⟨hk, hf⟩
    exact ⟨(p.1, f p.1), ⟨p.1, hk, rfl⟩, by simp [hf]⟩

theorem somes_map_keys (ks : List Key) (f : Key → Option Ent) :
    (somes (ks.map (fun k => (k, f k)))).map (·.1) = ks.filter (fun k => (f k).isSome) := by
  induction ks with
  | nil => rfl
  | cons k ks ih =>
    simp only [somes, List.map_cons, List.filterMap_cons, List.filter_cons] at ih ⊢
    cases hf : f k with
    | none => simpa using ih
    | some e => simpa using ih

theorem nws_somes_map_keys (ks : List Key) (f : Key → Option Ent)
    (H : ∀ k ∈ ks, ∃ e, f k = some e ∧ e.isWs = k.isObj) :
    (nws (somes (ks.map (fun k => (k, f k))))).map (·.1) = ks.filter (fun k => !k.isObj) := by
  induction ks with
  | nil => rfl
  | cons k ks ih =>
    obtain ⟨e, he, hw⟩ := H k (by simp)
    have ih' := ih (fun k' hk' => H k' (by simp [hk']))
    simp only [somes, nws, List.map_cons, List.filterMap_cons, he, Option.map_some,
      List.filter_cons] at ih' ⊢
    rw [hw]
    cases k.isObj
    · simpa using ih'
    · simpa using ih'

theorem selfKeyed_contents (n o : Dict) (hn : WF n) (ho : WF o) : SelfKeyed (contentsOf n o) := by
  intro c hc e he hw
  simp only [contentsOf, List.mem_map] at hc
  obtain ⟨k, _, rfl⟩ := hc
  rcases getNewer_some_mem n o k e he with h | h
  · exact (hn.ok _ h).1 hw
  · exact (ho.ok _ h).1 hw

theorem mergeTwo_unfold (n o : Dict) (hn : WF n) (ho : WF o) :
    mergeTwo n o = orderedDict ((contentsOf n o).foldl prune []).reverse := by
  unfold mergeTwo contentsOf specKeys keysOf
  rw [addRemove_eq_spec _ _ hn.nodup ho.nodup, List.map_map]
  rfl

theorem contents_keys_nodup (n o : Dict) (hn : WF n) (ho : WF o) :
    ((somes (contentsOf n o)).map (·.1)).Nodup := by
  rw [contentsOf, somes_map_keys]
  exact (specKeys_nodup _ _ hn.nodup ho.nodup).filter _

/-- closed form of `merge_two`: the pruned flat sequence -/
theorem mergeTwo_eq (n o : Dict) (hn : WF n) (ho : WF o) :
    mergeTwo n o = ((contentsOf n o).foldl prune []).reverse := by
  rw [mergeTwo_unfold n o hn ho, orderedDict_eq]
  have hsub := prune_fold_sublist (contentsOf n o) [] (selfKeyed_contents n o hn ho)
  rw [List.reverse_nil, List.nil_append] at hsub
  rw [odFrom_of_nodup]
  · simp
  · simp only [List.map_nil, List.nil_append]
    exact (contents_keys_nodup n o hn ho).sublist (hsub.map _)

theorem mergeTwo_sublist (n o : Dict) (hn : WF n) (ho : WF o) :
    (mergeTwo n o).Sublist (somes (contentsOf n o)) := by
  rw [mergeTwo_eq n o hn ho]
  have hsub := prune_fold_sublist (contentsOf n o) [] (selfKeyed_contents n o hn ho)
  simpa using hsub

theorem mergeTwo_mem (n o : Dict) (hn : WF n) (ho : WF o) (p : Key × Ent) (hp : p ∈ mergeTwo n o) :
    p ∈ n ∨ p ∈ o := by
  have h := (mergeTwo_sublist n o hn ho).subset hp
  rw [contentsOf, mem_somes_map] at h
  exact getNewer_some_mem n o p.1 p.2 h.2

theorem mergeTwo_wf (n o : Dict) (hn : WF n) (ho : WF o) : WF (mergeTwo n o) := by
  constructor
  · exact (contents_keys_nodup n o hn ho).sublist ((mergeTwo_sublist n o hn ho).map _)
  · intro p hp
    rcases mergeTwo_mem n o hn ho p hp with h | h
    · exact hn.ok p h
    · exact ho.ok p h

theorem mergeTwo_nws (n o : Dict) (hn : WF n) (ho : WF o) :
    nws (mergeTwo n o) = nws (somes (contentsOf n o)) := by
  rw [mergeTwo_eq n o hn ho, prune_fold_nws]
  simp [nws]

theorem specKeys_mem_dict (n o : Dict) (hn : WF n) (ho : WF o) (k : Key) :
    k ∈ specKeys (keysOf n) (keysOf o) ↔ k ∈ keysOf n ∨ k ∈ keysOf o :=
  specKeys_mem _ _ hn.nodup ho.nodup k

/-- Whitespace objects are never shared between the two dicts -/
def Disj (n o : Dict) : Prop := ∀ k, k.isObj = true → k ∈ keysOf n → k ∉ keysOf o

theorem verDisj (j : Nat) (n o : Dict) (hn : WF n) (ho : WF o) (h1 : VerLt j n) (h2 : VerEq j o) :
    Disj n o := by
  intro k hk hkn hko
  simp only [keysOf, List.mem_map] at hkn hko
  obtain ⟨p, hp, rfl⟩ := hkn
  obtain ⟨q, hq, hpq⟩ := hko
  have hpw : p.2.isWs = true := by
    cases h : p.2.isWs
    · rw [(hn.ok p hp).2 h] at hk; exact absurd hk (by simp)
    · rfl
  have hqw : q.2.isWs = true := by
    cases h : q.2.isWs
    · rw [← hpq, (ho.ok q hq).2 h] at hk; exact absurd hk (by simp)
    · rfl
  have e1 := (hn.ok p hp).1 hpw
  have e2 := (ho.ok q hq).1 hqw
  rw [e1, e2] at hpq
  injection hpq with ha _
  have := h1 p hp hpw
  have := h2 q hq hqw
  omega

theorem nwKeys_eq_filter (d : Dict) (hd : WF d) : nwKeys d = (keysOf d).filter (fun k => !k.isObj) := by
  unfold nwKeys nws keysOf
  rw [List.filter_map]
  congr 1
  apply List.filter_congr
  intro p hp
  simp only [Function.comp]
  cases h : p.2.isWs
  · rw [(hd.ok p hp).2 h]
  · rw [(hd.ok p hp).1 h]; rfl

/-- key order of `merge_two` on the entries that are not Whitespace: the C20 closed form of the
    two dicts' non-Whitespace keys -/
theorem mergeTwo_nwKeys (n o : Dict) (hn : WF n) (ho : WF o) (hd : Disj n o) :
    nwKeys (mergeTwo n o) = specKeys (nwKeys n) (nwKeys o) := by
  rw [nwKeys, mergeTwo_nws n o hn ho, contentsOf, nws_somes_map_keys, nwKeys_eq_filter n hn,
    nwKeys_eq_filter o ho]
  · apply specKeys_filter
    · intro x hx hq
      have hq' : x.isObj = true := by simpa using hq
      cases hc : (keysOf n).contains x
      · rfl
      · exact absurd hx (hd x hq' (by simpa using hc))
    · intro x hx hq
      have hq' : x.isObj = true := by simpa using hq
      cases hc : (keysOf o).contains x
      · rfl
      · exact absurd (by simpa using hc) (hd x hq' hx)
  · intro k hk
    rw [specKeys_mem_dict n o hn ho] at hk
    obtain ⟨e, he⟩ := getNewer_isSome n o k hk
    refine ⟨e, he, ?_⟩
    have hok : KeyOK (k, e) := by
      rcases getNewer_some_mem n o k e he with h | h
      · exact hn.ok _ h
      · exact ho.ok _ h
    cases hw : e.isWs
    · exact (hok.2 hw).symm
    · have e1 : k = Key.obj e.oid.1 e.oid.2 := hok.1 hw
      rw [e1]; rfl

/-- value of `merge_two` under a key that is not a Whitespace object: newer first, else older -/
theorem mergeTwo_dget (n o : Dict) (hn : WF n) (ho : WF o) (k : Key) (hk : k.isObj = false) :
    dget (mergeTwo n o) k = getNewerEntity n o k := by
  have hwf := mergeTwo_wf n o hn ho
  cases hg : getNewerEntity n o k with
  | none =>
    cases hd : dget (mergeTwo n o) k with
    | none => rfl
    | some e =>
      have hm := dget_mem _ _ _ hd
      have h := (mergeTwo_sublist n o hn ho).subset hm
      rw [contentsOf, mem_somes_map] at h
      rw [hg] at h
      exact absurd h.2 (by simp)
  | some e =>
    rw [dget_eq_some_iff _ hwf.nodup]
    have hok : KeyOK (k, e) := by
      rcases getNewer_some_mem n o k e hg with h | h
      · exact hn.ok _ h
      · exact ho.ok _ h
    have hw : e.isWs = false := by
      cases h : e.isWs
      · rfl
      · have e1 : k = Key.obj e.oid.1 e.oid.2 := hok.1 h
        rw [e1] at hk; exact absurd hk (by simp [Key.isObj])
    have hin : (k, e) ∈ nws (somes (contentsOf n o)) := by
      rw [nws, List.mem_filter, contentsOf, mem_somes_map]
      refine ⟨⟨?_, hg⟩, by simp [hw]⟩
      rw [specKeys_mem_dict n o hn ho]
      rcases getNewer_some_mem n o k e hg with h | h
      · exact .inl (List.mem_map.2 ⟨_, h, rfl⟩)
      · exact .inr (List.mem_map.2 ⟨_, h, rfl⟩)
    rw [← mergeTwo_nws n o hn ho] at hin
    exact (List.mem_filter.1 hin).1

theorem mergeTwo_verLt (j : Nat) (n o : Dict) (hn : WF n) (ho : WF o) (h1 : VerLt j n) (h2 : VerEq j o) :
    VerLt (j + 1) (mergeTwo n o) := by
  intro p hp hw
  rcases mergeTwo_mem n o hn ho p hp with h | h
  · have := h1 p h hw; omega
  · have := h2 p h hw; omega

end Merge

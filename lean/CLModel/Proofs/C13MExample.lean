/- C13M helper lemmas and data for the non-vacuity examples and negation witnesses of Props/C13.lean (namespace `C13M`):
   a tiny project given as pattern TEXTS — two rules, one excluded config, four files. -/
import CLModel.Proofs.C13MContracts
import CLModel.Proofs.C12RExample
namespace PFM
open PF PM

theorem newM_ok {specs : List MSpec} {locale : Option Loc} {projects : List Config} {mb : Bool} {o : Obj}
    (h : newM specs locale projects mb = .ok o) :
    Built specs o.ms ∧ o.env = menv o.ms ∧ PF.new (menv o.ms) locale projects mb = .ok o.pf := by
  unfold newM at h
  split at h
  · cases h
  · rename_i ms hms
    split at h
    · cases h
    · rename_i hu
      split at h
      · cases h
      · simp only at h
        split at h
        · cases h
        · rename_i pf hpf
          simp only [Except.ok.injEq] at h
          subst h
          exact ⟨⟨hms, by simpa using hu⟩, rfl, hpf⟩

/-- `iterM` returns the enumeration of the model unless a `sub` call raised -/
theorem iterM_ok {o : Obj} {fs : FS} {its : List Item} (h : o.iterM fs = .ok its) : its = o.pf.iter o.env fs := by
  unfold Obj.iterM at h
  simp only at h
  split at h
  · simp only [Except.ok.injEq] at h; exact h.symm
  · cases h

theorem matchM_ok {o : Obj} {p : Path} {r : Option Item} (h : o.matchM p = .ok r) : r = o.pf.matchPath o.env p := by
  unfold Obj.matchM at h
  split at h
  · rename_i hn; simp only [Except.ok.injEq] at h; rw [hn, h]
  · rename_i it hs
    split at h
    · simp only [Except.ok.injEq] at h; rw [hs, h]
    · cases h

/-! ### comparing matcher tables by evaluation -/

def sameMs : List Matcher → List Matcher → Bool
  | [], [] => true
  | a :: as, b :: bs => a.pattern == b.pattern && a.env == b.env && sameMs as bs
  | _, _ => false

theorem sameMs_eq : ∀ {l1 l2 : List Matcher}, sameMs l1 l2 = true → l1 = l2
  | [], [], _ => rfl
  | a :: as, b :: bs, h => by
    simp only [sameMs, Bool.and_eq_true, beq_iff_eq] at h
    obtain ⟨⟨h1, h2⟩, h3⟩ := h
    rw [sameMs_eq h3]
    cases a; cases b
    simp only at h1 h2
    subst h1; subst h2; rfl
  | [], _ :: _, h => by simp [sameMs] at h
  | _ :: _, [], h => by simp [sameMs] at h

theorem buildAll_is {specs : List MSpec} {ms : List Matcher}
    (h : (match buildAll specs with | .ok l => sameMs l ms | .error _ => false) = true) : buildAll specs = .ok ms := by
  split at h
  · rename_i l hl; rw [hl, sameMs_eq h]
  · cases h

/-- `a.match(q)` is a dictionary -/
def matchesB (a : Matcher) (q : Text) : Bool :=
  match a.match q with
  | .ok (some _) => true
  | _ => false

theorem matchesB_false {a : Matcher} {q : Text} {d : GroupDict} (h : matchesB a q = false)
    (hm : a.match q = .ok (some d)) : False := by
  simp [matchesB, hm] at h

/-- result of an operation on the constructed object, `none` if the constructor raised -/
def onOkM (r : Except MErr Obj) (f : Obj → α) : Option α :=
  match r with
  | .ok o => some (f o)
  | .error _ => none

def okOf : Except MErr α → Option α
  | .ok a => some a
  | .error _ => none

/-! ### the tiny project -/

def de : Loc := T "de"

/-- matcher table as texts:
    0 `Matcher("{l}browser/**/*.ftl", {l: "{l10n_base}/{locale}/", l10n_base: "/l10n"}).with_env({locale: "de"})`,
    1 `Matcher("browser/locales/en-US/**/*.ftl")` (its reference),
    2 `Matcher("{l10n_base}/de/README", {l10n_base: "/l10n"})` (wildcard-free),
    3 `Matcher("/l10n/de/browser/x/*.ftl")` (rule of the excluded config) -/
def tinySpecs : List MSpec := [
  { pattern := T "{l}browser/**/*.ftl", env := [(T "l", T "{l10n_base}/{locale}/"), (T "l10n_base", T "/l10n")],
    root := none, withEnv := some [(localeName, T "de")] },
  { pattern := T "browser/locales/en-US/**/*.ftl", env := [], root := none, withEnv := none },
  { pattern := T "{l10n_base}/de/README", env := [(T "l10n_base", T "/l10n")], root := none, withEnv := none },
  { pattern := T "/l10n/de/browser/x/*.ftl", env := [], root := none, withEnv := none }]

def litMatcher : Matcher :=
  { pattern := { nodes := [.var (T "l10n_base") false, .lit (T "/de/README")], root := none, prefixLen := 2 },
    env := [(T "l10n_base", .pat { nodes := [.lit (T "/l10n")], root := none, prefixLen := 1 })] }

def exMatcher : Matcher :=
  { pattern := { nodes := [.lit (T "/l10n/de/browser/x/"), .star 1, .lit (T ".ftl")], root := none, prefixLen := 1 },
    env := [] }

def tinyMs : List Matcher := [C11R.wildMatcher, C11R.refMatcher, litMatcher, exMatcher]

/-- main config: rule A (`l10n` 0, `reference` 1, test 7), then rule B (`l10n` 2, no reference); it excludes a config
    with the rule `l10n` 3 -/
def tinyCfg : Config :=
  .mk 0 (some [de]) [
    { l10n := 0, reference := some 1, merge := 0, test := some [7], locales := none },
    { l10n := 2, reference := none, merge := 2, test := none, locales := none }] []
    [.mk 1 (some [de]) [{ l10n := 3, reference := none, merge := 3, test := none, locales := none }] [] []]

def fRef : Path := T "browser/locales/en-US/a/b/c.d.ftl"
def fL10n : Path := T "/l10n/de/browser/a/b/c.d.ftl"
def fLit : Path := T "/l10n/de/README"
def fExcl : Path := T "/l10n/de/browser/x/y.ftl"

def tinyFS : FS := { files := [fRef, fL10n, fLit, fExcl] }

theorem tiny_built : Built tinySpecs tinyMs :=
  ⟨buildAll_is (by decide +kernel), by decide +kernel⟩

theorem tiny_get0 : tinyMs[0]? = some C11R.wildMatcher := rfl
theorem tiny_get1 : tinyMs[1]? = some C11R.refMatcher := rfl
theorem tiny_get2 : tinyMs[2]? = some litMatcher := rfl
theorem tiny_get3 : tinyMs[3]? = some exMatcher := rfl

theorem tiny_cases {m : MId} {a : Matcher} (h : tinyMs[m]? = some a) :
    (m = 0 ∧ a = C11R.wildMatcher) ∨ (m = 1 ∧ a = C11R.refMatcher) ∨ (m = 2 ∧ a = litMatcher) ∨ (m = 3 ∧ a = exMatcher) := by
  match m, h with
  | 0, h => left; exact ⟨rfl, by simpa [tinyMs] using h.symm⟩
  | 1, h => right; left; exact ⟨rfl, by simpa [tinyMs] using h.symm⟩
  | 2, h => right; right; left; exact ⟨rfl, by simpa [tinyMs] using h.symm⟩
  | 3, h => right; right; right; exact ⟨rfl, by simpa [tinyMs] using h.symm⟩
  | n + 4, h => simp [tinyMs] at h

theorem tiny_rooted (m : MId) (hm : m < 4) : Rooted tinyMs m := by
  have h : ∀ m < 4, ((menv tinyMs).pfx m).contains 47 = true := by decide +kernel
  unfold Rooted
  simpa using h m hm

theorem tiny_literalBound (m : MId) : LiteralBound tinyMs m := by
  intro a ha hlen
  rcases tiny_cases ha with ⟨_, rfl⟩ | ⟨_, rfl⟩ | ⟨_, rfl⟩ | ⟨_, rfl⟩
  · simp [C11R.wildMatcher] at hlen
  · simp [C11R.refMatcher] at hlen
  · exact fullyBound_spec (by decide +kernel)
  · simp [exMatcher] at hlen

/-- rule A is in the pattern class for `sub` on the tiny tree: the only reference file its reference matcher matches is
    `fRef`, the pattern filled with `**/` = "a/b/", `*` = "c.d" (`C11R.refMatcher_ok`, `C11R.wildMatcher_ok`) -/
theorem tiny_subClass : SubClassOn tinyMs tinyFS { l10n := 0, reference := some 1, merge := none, test := [7] } := by
  intro rm a q d hrr ha hq hm
  simp only [Option.some.injEq] at hrr
  subst hrr
  have : a = C11R.refMatcher := by simpa [tinyMs] using ha.symm
  subst this
  simp only [tinyFS, List.mem_cons, List.not_mem_nil, or_false] at hq
  obtain ⟨⟨na, fa⟩, _⟩ := C11R.refMatcher_ok
  obtain ⟨⟨nb, fb⟩, eb⟩ := C11R.wildMatcher_ok
  rcases hq with rfl | rfl | rfl | rfl
  · exact ⟨C11R.wildMatcher, C11R.wildVals, na, nb, [], [], rfl, fa, fb, eb, fun k hk => (C11R.wild_same k).mpr hk,
      C11R.ref_fill.symm⟩
  · exact (matchesB_false (by decide +kernel) hm).elim
  · exact (matchesB_false (by decide +kernel) hm).elim
  · exact (matchesB_false (by decide +kernel) hm).elim

end PFM

/-
C18 (round 4): `multi_file_union` for the Observer's aggregation (details tree and summaries), on the C10 models
(`ObsM.Obs.run`, `TreeM.find`, `ObsM.getCount`).  A multi-file run hands the observer one block of events per file
pair; the closed forms of C10 (`C10.details_spec`, `C10.summary_counts`) make the result per path / per counter a
function of the blocks that is invariant under every permutation of the blocks, and equal to what the single-file
runs store.
-/
import CLModel.Props.C10
namespace C18M
open TreeM ObsM

/-- the event history of a multi-file run: the blocks one after the other -/
def flat (bs : List (File × List Ev)) : List Ev := (bs.map (·.2)).flatten

/-- every block reports on its own file -/
def OwnFile (bs : List (File × List Ev)) : Prop := ∀ b ∈ bs, ∀ ev ∈ b.2, ev.file = b.1

/-- the files of two blocks have different tree paths -/
def SepPath (a b : File × List Ev) : Prop := ∀ p, ¬ (hasParts a.1 p = true ∧ hasParts b.1 p = true)

theorem detailsSpec_other (q : Nat) (flt : Option Filter) (b : File × List Ev) (hown : ∀ ev ∈ b.2, ev.file = b.1)
    (p : List Part) (hp : hasParts b.1 p = false) : detailsSpec q flt b.2 p = [] := by
  unfold detailsSpec
  rw [List.filterMap_eq_nil_iff]
  intro ev hev
  have hf := hown ev hev
  cases ev with
  | notify cat f d =>
    simp only [Ev.file] at hf
    subst hf
    simp [evDetail, hp]
  | stats f st => rfl

theorem detailsSpec_flat (q : Nat) (flt : Option Filter) (bs : List (File × List Ev)) (p : List Part) :
    detailsSpec q flt (flat bs) p = (bs.map (fun b => detailsSpec q flt b.2 p)).flatten := by
  unfold detailsSpec flat
  rw [List.filterMap_flatten, List.map_map]
  rfl

/-- a concatenation in which at most one piece is non-empty does not depend on the order of the pieces -/
theorem flatten_perm_eq {α β : Type} (g : α → List β) {l l' : List α} (hp : l.Perm l')
    (hs : l.Pairwise (fun a b => g a = [] ∨ g b = [])) : (l.map g).flatten = (l'.map g).flatten := by
  induction hp with
  | nil => rfl
  | cons x _ ih =>
    simp only [List.map_cons, List.flatten_cons]
    rw [ih (List.pairwise_cons.mp hs).2]
  | swap x y l =>
    simp only [List.map_cons, List.flatten_cons]
    have hyx := (List.pairwise_cons.mp hs).1 x (by simp)
    rcases hyx with h | h <;> simp [h]
  | trans h1 _ ih1 ih2 =>
    have hsym : ∀ a b : α, (g a = [] ∨ g b = []) → (g b = [] ∨ g a = []) := fun _ _ h => h.symm
    rw [ih1 hs, ih2 ((h1.pairwise_iff (fun {a b} h => hsym a b h)).mp hs)]

theorem countSpec_flat (ign : Ev → Bool) (loc : Option Text) (key : StatKey) (bs : List (File × List Ev)) :
    countSpec ign loc key (flat bs) = (bs.map (fun b => countSpec ign loc key b.2)).sum := by
  unfold countSpec flat
  induction bs with
  | nil => rfl
  | cons b t ih => simp only [List.map_cons, List.flatten_cons, List.map_append, List.sum_append, List.sum_cons, ih]

theorem find_eq_of_spec {o o' : Obs} {p : List Part} {l : List Detail}
    (h : (find o.details p).getD [] = l ∧ (find o.details p = none ↔ l = []))
    (h' : (find o'.details p).getD [] = l ∧ (find o'.details p = none ↔ l = [])) :
    find o.details p = find o'.details p := by
  obtain ⟨h1, h2⟩ := h
  obtain ⟨h1', h2'⟩ := h'
  cases hf : find o.details p with
  | none =>
    have := h2.mp hf
    rw [h2'.mpr this]
  | some x =>
    cases hf' : find o'.details p with
    | none =>
      have := h2'.mp hf'
      have := h2.mpr this
      rw [hf] at this; cases this
    | some y =>
      rw [hf] at h1; rw [hf'] at h1'
      simp only [Option.getD_some] at h1 h1'
      rw [h1, h1']

/-- Order independence of the Observer's aggregation: whatever order the file pairs of a project are compared in,
    the details stored for every path and every summary number are the same. -/
theorem observer_order_independent (q : Nat) (flt : Option Filter) (bs bs' : List (File × List Ev))
    (hown : OwnFile bs) (hsep : bs.Pairwise SepPath) (hperm : bs.Perm bs') (o o' : Obs)
    (hr : (Obs.init q flt).run (flat bs) = .ok o) (hr' : (Obs.init q flt).run (flat bs') = .ok o') :
    (∀ p, find o.details p = find o'.details p) ∧
    (∀ loc key, getCount o.summary loc key = getCount o'.summary loc key) := by
  constructor
  · intro p
    have hspec : detailsSpec q flt (flat bs) p = detailsSpec q flt (flat bs') p := by
      rw [detailsSpec_flat, detailsSpec_flat]
      apply flatten_perm_eq (fun b => detailsSpec q flt b.2 p) hperm
      have hmem : ∀ a ∈ bs, ∀ b ∈ bs, SepPath a b →
          (detailsSpec q flt a.2 p = [] ∨ detailsSpec q flt b.2 p = []) := by
        intro a ha b hb hab
        cases hpa : hasParts a.1 p with
        | false => exact Or.inl (detailsSpec_other q flt a (hown a ha) p hpa)
        | true =>
          cases hpb : hasParts b.1 p with
          | false => exact Or.inr (detailsSpec_other q flt b (hown b hb) p hpb)
          | true => exact absurd ⟨hpa, hpb⟩ (hab p)
      exact List.Pairwise.imp_of_mem (fun {a b} ha hb hab => hmem a ha b hb hab) hsep
    have h1 := C10.details_spec q flt (flat bs) o hr p
    have h2 := C10.details_spec q flt (flat bs') o' hr' p
    rw [← hspec] at h2
    exact find_eq_of_spec h1 h2
  · intro loc key
    rw [C10.summary_counts q flt (flat bs) o hr loc key, C10.summary_counts q flt (flat bs') o' hr' loc key,
      countSpec_flat, countSpec_flat]
    exact List.Perm.sum_nat (hperm.map _)

theorem single_counts (q : Nat) (flt : Option Filter) (bs : List (File × List Ev)) (obOf : File × List Ev → Obs)
    (hf : ∀ b ∈ bs, (Obs.init q flt).run b.2 = .ok (obOf b)) (loc : Option Text) (key : StatKey) :
    bs.map (fun b => countSpec (ignObs flt) loc key b.2) = bs.map (fun b => getCount (obOf b).summary loc key) := by
  apply List.map_congr_left
  intro b hb
  exact (C10.summary_counts q flt b.2 (obOf b) (hf b hb) loc key).symm

/-- … and it is the union of the single-file runs: the details of a path are what the run over that file pair
    alone stores, every summary number is the sum over the single-file runs. -/
theorem observer_union (q : Nat) (flt : Option Filter) (bs : List (File × List Ev))
    (hown : OwnFile bs) (hsep : bs.Pairwise SepPath) (o : Obs) (hr : (Obs.init q flt).run (flat bs) = .ok o) :
    (∀ b ∈ bs, ∀ ob, (Obs.init q flt).run b.2 = .ok ob → ∀ p, hasParts b.1 p = true →
        find o.details p = find ob.details p) ∧
    (∀ (obOf : File × List Ev → Obs), (∀ b ∈ bs, (Obs.init q flt).run b.2 = .ok (obOf b)) →
        ∀ loc key, getCount o.summary loc key = (bs.map (fun b => getCount (obOf b).summary loc key)).sum) := by
  constructor
  · intro b hb ob hrb p hp
    -- move the block to the front
    obtain ⟨rest, hperm⟩ : ∃ rest, bs.Perm (b :: rest) := by
      obtain ⟨l1, l2, rfl⟩ := List.append_of_mem hb
      exact ⟨l1 ++ l2, List.perm_middle⟩
    have hspec : detailsSpec q flt (flat bs) p = detailsSpec q flt b.2 p := by
      rw [detailsSpec_flat]
      have hpw : bs.Pairwise (fun a c => detailsSpec q flt a.2 p = [] ∨ detailsSpec q flt c.2 p = []) := by
        refine List.Pairwise.imp_of_mem (fun {a c} ha hc hac => ?_) hsep
        cases hpa : hasParts a.1 p with
        | false => exact Or.inl (detailsSpec_other q flt a (hown a ha) p hpa)
        | true =>
          cases hpc : hasParts c.1 p with
          | false => exact Or.inr (detailsSpec_other q flt c (hown c hc) p hpc)
          | true => exact absurd ⟨hpa, hpc⟩ (hac p)
      rw [flatten_perm_eq (fun b => detailsSpec q flt b.2 p) hperm hpw]
      simp only [List.map_cons, List.flatten_cons]
      have hrest : ((rest.map (fun b => detailsSpec q flt b.2 p)).flatten) = [] := by
        rw [List.flatten_eq_nil_iff]
        intro l hl
        rw [List.mem_map] at hl
        obtain ⟨c, hc, rfl⟩ := hl
        have hcbs : c ∈ bs := hperm.symm.subset (List.mem_cons_of_mem _ hc)
        have hsep' : (b :: rest).Pairwise SepPath :=
          (hperm.pairwise_iff (fun {x y} (h : SepPath x y) => (fun p hh => h p ⟨hh.2, hh.1⟩ : SepPath y x))).mp hsep
        have hbc := (List.pairwise_cons.mp hsep').1 c hc
        cases hpc : hasParts c.1 p with
        | false => exact detailsSpec_other q flt c (hown c hcbs) p hpc
        | true => exact absurd ⟨hp, hpc⟩ (hbc p)
      rw [hrest, List.append_nil]
    have h1 := C10.details_spec q flt (flat bs) o hr p
    have h2 := C10.details_spec q flt b.2 ob hrb p
    rw [hspec] at h1
    exact find_eq_of_spec h1 h2
  · intro obOf hf loc key
    rw [C10.summary_counts q flt (flat bs) o hr loc key, countSpec_flat, single_counts q flt bs obOf hf loc key]

end C18M

/-
Helper lemmas for C15, part 4: the C20 closed form of a concatenation whose halves do not
share keys crosswise, and of three small blocks.  Core Lean only.
-/
import CLModel.Proofs.C15Merge
namespace AR

variable {α : Type} [BEq α] [LawfulBEq α]

omit [LawfulBEq α] in
theorem anchors_congr_left (l l' r : List α) (cur : Option α)
    (h : ∀ x ∈ r, l.contains x = l'.contains x) : anchors l r cur = anchors l' r cur := by
  induction r generalizing cur with
  | nil => rfl
  | cons x xs ih =>
    have hx := h x (by simp)
    have ih' := fun c => ih c (fun y hy => h y (by simp [hy]))
    simp only [anchors, hx, ih']

/-- the anchor in force after walking `r` -/
def lastShared (l : List α) : List α → Option α → Option α
  | [], cur => cur
  | x :: xs, cur => if l.contains x then lastShared l xs (some x) else lastShared l xs cur

omit [LawfulBEq α] in
theorem anchors_append (l r1 r2 : List α) (cur : Option α) :
    anchors l (r1 ++ r2) cur = anchors l r1 cur ++ anchors l r2 (lastShared l r1 cur) := by
  induction r1 generalizing cur with
  | nil => rfl
  | cons x xs ih =>
    simp only [List.cons_append, anchors, lastShared]
    split
    · exact ih _
    · rw [ih]; rfl

/-- `r2` is empty or starts with a key of `l2` -/
def HeadShared (l2 r2 : List α) : Prop := match r2 with
  | [] => True
  | h :: _ => l2.contains h = true

omit [LawfulBEq α] in
theorem anchors_headShared (l r : List α) (cur : Option α) (h : HeadShared l r) :
    anchors l r cur = anchors l r none := by
  cases r with
  | nil => rfl
  | cons x xs =>
    simp only [HeadShared] at h
    simp only [anchors, h, if_true]

omit [LawfulBEq α] in
theorem anchors_headShared_fst (l r : List α) (h : HeadShared l r) :
    ∀ p ∈ anchors l r none, ∃ y ∈ r, l.contains y = true ∧ p.1 = some y := by
  cases r with
  | nil => simp [anchors]
  | cons x xs =>
    simp only [HeadShared] at h
    intro p hp
    simp only [anchors, h, if_true] at hp
    rcases anchors_mem' l xs (some x) p hp with e | ⟨y, hy, hc, e⟩
    · exact ⟨x, by simp, h, e⟩
    · exact ⟨y, by simp [hy], hc, e⟩

theorem contains_append_left_of (l1 l2 : List α) (x : α) (h : ¬ x ∈ l2) :
    (l1 ++ l2).contains x = l1.contains x := by
  rw [Bool.eq_iff_iff]
  simp only [List.contains_iff_mem, List.mem_append]
  constructor
  · rintro (h1 | h1)
    · exact h1
    · exact absurd h1 h
  · exact .inl

theorem contains_append_right_of (l1 l2 : List α) (x : α) (h : ¬ x ∈ l1) :
    (l1 ++ l2).contains x = l2.contains x := by
  rw [Bool.eq_iff_iff]
  simp only [List.contains_iff_mem, List.mem_append]
  constructor
  · rintro (h1 | h1)
    · exact absurd h1 h
    · exact h1
  · exact .inr

/-- closed form of a concatenation whose halves share no keys crosswise and whose right half
    starts with a shared key -/
theorem specKeys_append (l1 l2 r1 r2 : List α)
    (h12 : ∀ x ∈ r1, ¬ x ∈ l2) (h21 : ∀ x ∈ r2, ¬ x ∈ l1) (hh : HeadShared l2 r2) :
    specKeys (l1 ++ l2) (r1 ++ r2) = specKeys l1 r1 ++ specKeys l2 r2 := by
  have hA : anchors (l1 ++ l2) (r1 ++ r2) none = anchors l1 r1 none ++ anchors l2 r2 none := by
    rw [anchors_append]
    congr 1
    · exact anchors_congr_left _ _ _ _ (fun x hx => contains_append_left_of l1 l2 x (h12 x hx))
    · have hh' : HeadShared (l1 ++ l2) r2 := by
        cases r2 with
        | nil => trivial
        | cons x xs =>
          simp only [HeadShared] at hh ⊢
          rw [contains_append_right_of l1 l2 x (h21 x (by simp))]; exact hh
      rw [anchors_headShared _ _ _ hh']
      exact anchors_congr_left _ _ _ _ (fun x hx => contains_append_right_of l1 l2 x (h21 x hx))
  have h2none : (anchors l2 r2 none).filter (fun p => p.1 == none) = [] := by
    rw [List.filter_eq_nil_iff]
    intro p hp
    obtain ⟨y, _, _, e⟩ := anchors_headShared_fst l2 r2 hh p hp
    simp [e]
  have h2some : ∀ k ∈ l1, (anchors l2 r2 none).filter (fun p => p.1 == some k) = [] := by
    intro k hk
    rw [List.filter_eq_nil_iff]
    intro p hp
    obtain ⟨y, hy, _, e⟩ := anchors_headShared_fst l2 r2 hh p hp
    simp only [e, beq_iff_eq, Option.some.injEq]
    intro e'; subst e'; exact h21 y hy hk
  have h1some : ∀ k ∈ l2, (anchors l1 r1 none).filter (fun p => p.1 == some k) = [] := by
    intro k hk
    rw [List.filter_eq_nil_iff]
    intro p hp
    rcases anchors_mem' l1 r1 none p hp with e | ⟨y, hy, _, e⟩
    · simp [e]
    · simp only [e, beq_iff_eq, Option.some.injEq]
      intro e'; subst e'; exact h12 y hy hk
  rw [spec_keys', spec_keys' l1 r1, spec_keys' l2 r2, hA, List.filter_append, h2none, List.append_nil,
    List.flatMap_append, List.map_nil, List.nil_append, List.append_assoc]
  congr 2
  · apply flatMap_congr'
    intro k hk
    rw [List.filter_append, h2some k hk, List.append_nil]
  · apply flatMap_congr'
    intro k hk
    rw [List.filter_append, h1some k hk, List.nil_append]

/-! three small blocks -/

theorem specKeys_block1 (w w' : α) (h : w ≠ w') : specKeys [w] [w'] = [w', w] := by
  have h' : ¬ w' = w := fun e => h e.symm
  simp [specKeys, spec, anchors, h, h']

theorem specKeys_block3 (x : α) : specKeys [x] [x] = [x] := by
  simp [specKeys, spec, anchors]

theorem specKeys_block2 (x w w' : α) (h1 : x ≠ w) (h2 : x ≠ w') (h3 : w ≠ w') :
    specKeys [x, w] [x, w'] = [x, w', w] := by
  have h1' : ¬ w = x := fun e => h1 e.symm
  have h2' : ¬ w' = x := fun e => h2 e.symm
  have h3' : ¬ w' = w := fun e => h3 e.symm
  simp [specKeys, spec, anchors, h1, h2, h3, h1', h2', h3']

end AR

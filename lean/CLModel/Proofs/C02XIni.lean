/- C02 (extension), ini: a section header followed by a printed list of safe records walks to exactly the section
   entry, the entities and the white-space entries. -/
import CLModel.Proofs.C02XRx
namespace C02X
open Rx P Gen.Pat

/-- key: non-empty, no newline and no `=`, not starting with `[ ; #` or white-space; value: no newline -/
structure SafeIniRec (r : PRec) : Prop where
  key_ne : r.1 ≠ []
  key : ∀ c ∈ r.1, c ≠ 10 ∧ c ≠ 61
  key_head : ∀ c, r.1.head? = some c → c ≠ 91 ∧ c ≠ 59 ∧ c ≠ 35 ∧ c ≠ 32 ∧ c ≠ 9 ∧ c ≠ 13
  val : ∀ c ∈ r.2, c ≠ 10

/-- `[sec]⏎` then `key=value⏎` … -/
def printIni (sec : List Nat) (rs : List PRec) : List Nat := 91 :: (sec ++ 93 :: 10 :: printProps rs)

def iniSectionEntry (n : Nat) : Entry :=
  { kind := .section, full := 0, s := 0, e := n + 2, ks := (1 : Nat), ke := (n + 1 : Nat), vs := (1 : Nat), ve := (n + 1 : Nat) }

def iniRecEntries : Nat → List PRec → List Entry
  | _, [] => []
  | off, r :: rs =>
    iniEntity off r.1.length r.2.length :: wsEntry (off + r.1.length + 1 + r.2.length) ::
      iniRecEntries (off + r.1.length + 1 + r.2.length + 1) rs

/-- what the walk over `printIni sec rs` must yield -/
def iniExpEntries (sec : List Nat) (rs : List PRec) : List Entry :=
  iniSectionEntry sec.length :: wsEntry (sec.length + 2) :: iniRecEntries (sec.length + 3) rs

theorem iniRecAt_of_drop (s : Array Nat) (off : Nat) (r : PRec) (rest : List Nat) (hs : SafeIniRec r)
    (h : s.toList.drop off = printRec r ++ rest) : IniRecAt s off r.1.length r.2.length := by
  have hkl : 0 < r.1.length := List.length_pos_iff.mpr hs.key_ne
  have h' : s.toList.drop off = r.1 ++ (61 :: (r.2 ++ (10 :: rest))) := by simp [h, printRec]
  have hd2 : s.toList.drop (off + r.1.length + 1) = r.2 ++ (10 :: rest) := by
    have := drop_app s off _ _ h'
    have := congrArg (List.drop 1) this
    rw [List.drop_drop] at this
    simpa using this
  refine ⟨hkl, ?_, ?_, ?_, ?_, ?_⟩
  · have hh : r.1.head? = some r.1[0] := by rw [List.head?_eq_getElem?]; simp [hkl]
    have a := hs.key_head _ hh
    have b := hs.key _ (List.getElem_mem hkl)
    refine ⟨r.1[0], ?_, a.1, a.2.1, a.2.2.1, a.2.2.2.1, a.2.2.2.2.1, a.2.2.2.2.2, b.1⟩
    simpa using get_app_left s off _ _ h' 0 hkl
  · intro j hj
    exact ⟨r.1[j], get_app_left s off _ _ h' j hj, hs.key _ (List.getElem_mem hj)⟩
  · have := get_app_right s off _ _ h' 0
    simpa using this
  · intro j hj
    exact ⟨r.2[j], get_app_left s _ _ _ hd2 j hj, hs.val _ (List.getElem_mem hj)⟩
  · right
    have := get_app_right s _ _ _ hd2 0
    simpa using this

theorem ini_section_none (s : Array Nat) (off c : Nat) (h0 : s[off]? = some c) (h1 : c ≠ 91) :
    matchAt s IniParser_reSection off = none := by
  simp only [matchAt, IniParser_reSection, m_seq, m_lit]
  simp [h0, h1]

theorem ini_ws_at (s : Array Nat) (nl : Nat) (h0 : s[nl]? = some 10)
    (h1 : s[nl + 1]? = none ∨ ∃ c, s[nl + 1]? = some c ∧ c ≠ 32 ∧ c ≠ 9 ∧ c ≠ 13 ∧ c ≠ 10) :
    iniGetNext s nl = wsEntry nl := by
  unfold iniGetNext
  simp only [ini_section_none s nl 10 h0 (by decide)]
  exact base_ws_at iniCfg rfl s nl (ini_comment_none s nl 10 h0 (by decide) (by decide)) h0 h1

/-- the section header `[sec]` at offset 0 -/
theorem ini_section_at (s : Array Nat) (sec rest : List Nat) (hsec : ∀ c ∈ sec, c ≠ 93 ∧ c ≠ 10)
    (h : s.toList = 91 :: (sec ++ 93 :: rest)) : iniGetNext s 0 = iniSectionEntry sec.length := by
  have h' : s.toList.drop 0 = [91] ++ (sec ++ 93 :: rest) := by simpa using h
  have hd1 : s.toList.drop 1 = sec ++ 93 :: rest := by simpa using drop_app s 0 _ _ h'
  have g0 : s[0]? = some 91 := by simpa using get_app_left s 0 _ _ h' 0 (by simp)
  have gsec : ∀ j, (hj : j < sec.length) → s[1 + j]? = some sec[j] := fun j hj => get_app_left s 1 _ _ hd1 j hj
  have gend : s[1 + sec.length]? = some 93 := by simpa using get_app_right s 1 _ _ hd1 0
  have hsz : 1 + sec.length < s.size := getElem?_some_lt gend
  have hm : matchAt s IniParser_reSection 0 = some ⟨sec.length + 2, [(1, 1, 1 + sec.length)]⟩ := by
    simp only [matchAt, IniParser_reSection, m_seq, m_group, m_rep, m_any_charStep]
    rw [lit_ok s 0 91 [] g0]
    simp only [Nat.zero_add]
    have hfuel : s.size + 2 - 1 = (s.size + 1 - sec.length) + sec.length := by omega
    rw [hfuel, loop_lazy_skip_step s _ [] _ sec.length _ 1]
    · obtain ⟨f, hf⟩ : ∃ f, s.size + 1 - sec.length = f + 1 := ⟨s.size - sec.length, by omega⟩
      rw [hf]
      apply loop_lazy_stop
      rw [lit_ok s _ 93 _ gend]
      simp; omega
    · intro j hj
      have hc := hsec _ (List.getElem_mem hj)
      refine ⟨⟨sec[j], gsec j hj, by simp [hc.2]⟩, ?_⟩
      apply lit_fail
      rw [gsec j hj]
      simp [hc.1]
  unfold iniGetNext
  simp only [hm]
  simp [iniSectionEntry, spanI, St.group, capOf, IniParser_reSection_g_val]
  omega

theorem walk_ini_from (s : Array Nat) :
    ∀ (rs : List PRec) (off fuel : Nat), s.toList.drop off = printProps rs → (∀ r ∈ rs, SafeIniRec r) →
      2 * rs.length ≤ fuel →
      walkFrom (fun (_ : Unit) o => (iniGetNext s o, ())) s.size fuel () off = .done (iniRecEntries off rs) := by
  intro rs
  induction rs with
  | nil =>
    intro off fuel h _ _
    exact walk_end _ _ _ _ _ (size_le_of_drop_nil s off (by simpa [printProps] using h))
  | cons r rs ih =>
    intro off fuel h hsafe hfuel
    have hpp : printProps (r :: rs) = printRec r ++ printProps rs := by simp [printProps]
    rw [hpp] at h
    have hrec := iniRecAt_of_drop s off r _ (hsafe r (by simp)) h
    obtain ⟨f, rfl⟩ : ∃ f, fuel = f + 1 + 1 := ⟨fuel - 2, by simp at hfuel; omega⟩
    have hdrop : s.toList.drop (off + r.1.length + 1 + r.2.length + 1) = printProps rs := by
      have := drop_app s off _ _ h
      rw [printRec_length] at this
      rw [← this]; congr 1; omega
    have hnl : s[off + r.1.length + 1 + r.2.length]? = some 10 := by
      have h2 : s.toList.drop off = (r.1 ++ [61] ++ r.2) ++ (10 :: printProps rs) := by simp [h, printRec]
      have := get_app_right s off _ _ h2 0
      simp only [List.length_append, List.length_cons, List.length_nil, Nat.add_zero] at this
      rw [show off + r.1.length + 1 + r.2.length = off + (r.1.length + (0 + 1) + r.2.length) by omega, this]
      simp
    have hnlt := getElem?_some_lt hnl
    have hnext : s[off + r.1.length + 1 + r.2.length + 1]? = none ∨
        ∃ c, s[off + r.1.length + 1 + r.2.length + 1]? = some c ∧ c ≠ 32 ∧ c ≠ 9 ∧ c ≠ 13 ∧ c ≠ 10 := by
      have g := get_of_drop s (off + r.1.length + 1 + r.2.length + 1) 0 _ hdrop
      simp only [Nat.add_zero] at g
      cases rs with
      | nil => left; simpa [printProps] using g
      | cons r' rs' =>
        right
        have hs' := hsafe r' (by simp)
        have hkl : 0 < r'.1.length := List.length_pos_iff.mpr hs'.key_ne
        have hh : r'.1.head? = some r'.1[0] := by rw [List.head?_eq_getElem?]; simp [hkl]
        have a := hs'.key_head _ hh
        have b := hs'.key _ (List.getElem_mem hkl)
        refine ⟨r'.1[0], ?_, a.2.2.2.1, a.2.2.2.2.1, a.2.2.2.2.2, b.1⟩
        rw [g]
        simp [printProps, printRec, List.getElem?_append_left hkl]
    have e1 : iniGetNext s off = iniEntity off r.1.length r.2.length := ini_entity_at s off _ _ hrec
    have e2 := ini_ws_at s (off + r.1.length + 1 + r.2.length) hnl hnext
    rw [walk_step _ _ _ () () off (iniEntity off r.1.length r.2.length) (by omega) (by simp only [e1]),
      show (iniEntity off r.1.length r.2.length).e = off + r.1.length + 1 + r.2.length from rfl,
      walk_step _ _ _ () () _ (wsEntry (off + r.1.length + 1 + r.2.length)) (by omega) (by simp only [e2]),
      show (wsEntry (off + r.1.length + 1 + r.2.length)).e = off + r.1.length + 1 + r.2.length + 1 from rfl,
      ih _ f hdrop (fun r' hr' => hsafe r' (by simp [hr'])) (by simp at hfuel; omega)]
    simp [WalkResult.cons, iniRecEntries]

theorem printProps_length_ge (rs : List PRec) : 2 * rs.length ≤ (printProps rs).length := by
  induction rs with
  | nil => simp
  | cons r rs ih =>
    have : printProps (r :: rs) = printRec r ++ printProps rs := by simp [printProps]
    rw [this, List.length_append, printRec_length]
    simp; omega

theorem walk_ini_printed (sec : List Nat) (rs : List PRec) (hsec : ∀ c ∈ sec, c ≠ 93 ∧ c ≠ 10)
    (h : ∀ r ∈ rs, SafeIniRec r) :
    walk .ini (printIni sec rs).toArray = .done (iniExpEntries sec rs) := by
  unfold walk
  simp only []
  generalize hs : (printIni sec rs).toArray = s
  have hl : s.toList = printIni sec rs := by rw [← hs]
  have hsize : s.size = sec.length + 3 + (printProps rs).length := by
    rw [← hs]; simp [printIni]; omega
  have h0 : s.toList.drop 0 = ([91] ++ sec ++ [93]) ++ (10 :: printProps rs) := by simp [hl, printIni]
  have hnl : s[sec.length + 2]? = some 10 := by
    have := get_app_right s 0 _ _ h0 0
    simp at this
    rw [show sec.length + 2 = sec.length + 1 + 1 by omega]; exact this
  have hdrop : s.toList.drop (sec.length + 3) = printProps rs := by
    have := drop_app s 0 _ _ h0
    have := congrArg (List.drop 1) this
    rw [List.drop_drop] at this
    simp at this
    rw [show sec.length + 3 = sec.length + 1 + 1 + 1 by omega]; exact this
  have hnext : s[sec.length + 2 + 1]? = none ∨
      ∃ c, s[sec.length + 2 + 1]? = some c ∧ c ≠ 32 ∧ c ≠ 9 ∧ c ≠ 13 ∧ c ≠ 10 := by
    have g := get_of_drop s (sec.length + 3) 0 _ hdrop
    simp only [Nat.add_zero] at g
    rw [show sec.length + 2 + 1 = sec.length + 3 by omega]
    cases rs with
    | nil => left; simpa [printProps] using g
    | cons r' rs' =>
      right
      have hs' := h r' (by simp)
      have hkl : 0 < r'.1.length := List.length_pos_iff.mpr hs'.key_ne
      have hh : r'.1.head? = some r'.1[0] := by rw [List.head?_eq_getElem?]; simp [hkl]
      have a := hs'.key_head _ hh
      have b := hs'.key _ (List.getElem_mem hkl)
      refine ⟨r'.1[0], ?_, a.2.2.2.1, a.2.2.2.2.1, a.2.2.2.2.2, b.1⟩
      rw [g]
      simp [printProps, printRec, List.getElem?_append_left hkl]
  have e1 := ini_section_at s sec (10 :: printProps rs) hsec (by rw [hl, printIni])
  have e2 := ini_ws_at s (sec.length + 2) hnl hnext
  have hge := printProps_length_ge rs
  obtain ⟨f, hf⟩ : ∃ f, s.size + 1 = f + 1 + 1 := ⟨s.size - 1, by omega⟩
  rw [hf, walk_step _ _ _ () () 0 (iniSectionEntry sec.length) (by omega) (by simp only [e1]),
    show (iniSectionEntry sec.length).e = sec.length + 2 from rfl,
    walk_step _ _ _ () () _ (wsEntry (sec.length + 2)) (by omega) (by simp only [e2]),
    show (wsEntry (sec.length + 2)).e = sec.length + 3 from rfl,
    walk_ini_from s rs _ f hdrop h (by omega)]
  simp [WalkResult.cons, iniExpEntries]

/-! ### views -/

theorem entView_iniEntity (s : Array Nat) (off : Nat) (r : PRec) (rest : List Nat)
    (h : s.toList.drop off = printRec r ++ rest) :
    entView .ini s (iniEntity off r.1.length r.2.length) = expectedView r := by
  have hlen : (printRec r ++ rest).length = s.size - off := by rw [← h]; simp
  rw [List.length_append, printRec_length] at hlen
  have hk : slice s off (off + r.1.length) = r.1 := by
    rw [slice_take s off r.1.length _ h (by rw [List.length_append, printRec_length]; omega)]
    simp [printRec]
  have hd2 : s.toList.drop (off + r.1.length + 1) = r.2 ++ ([10] ++ rest) := by
    have := congrArg (List.drop (r.1.length + 1)) h
    rw [List.drop_drop] at this
    rw [show off + r.1.length + 1 = off + (r.1.length + 1) by omega, this]
    simp [printRec, List.drop_append]
  have hv : slice s (off + r.1.length + 1) (off + r.1.length + 1 + r.2.length) = r.2 := by
    rw [slice_take s _ r.2.length _ hd2 (by simp)]
    simp
  simp only [entView, iniEntity, expectedView]
  rw [pySlice_nat s off (off + r.1.length) (by omega) (by omega),
    pySlice_nat s (off + r.1.length + 1) (off + r.1.length + 1 + r.2.length) (by omega) (by omega), hk, hv]
  rfl

theorem entitiesOf_iniRecEntries (s : Array Nat) :
    ∀ (rs : List PRec) (off : Nat), s.toList.drop off = printProps rs →
      entitiesOf .ini s (iniRecEntries off rs) = rs.map expectedView ∧ junkOf s (iniRecEntries off rs) = [] := by
  intro rs
  induction rs with
  | nil => intro off _; simp [entitiesOf, junkOf, iniRecEntries]
  | cons r rs ih =>
    intro off h
    have hpp : printProps (r :: rs) = printRec r ++ printProps rs := by simp [printProps]
    rw [hpp] at h
    have hdrop : s.toList.drop (off + r.1.length + 1 + r.2.length + 1) = printProps rs := by
      have := drop_app s off _ _ h
      rw [printRec_length] at this
      rw [← this]; congr 1; omega
    obtain ⟨ih1, ih2⟩ := ih _ hdrop
    have hv := entView_iniEntity s off r _ h
    constructor
    · simp only [entitiesOf] at ih1 ⊢
      simp only [iniRecEntries, List.map_cons]
      rw [List.filter_cons_of_pos (by simp [iniEntity]), List.filter_cons_of_neg (by simp [wsEntry]),
        List.map_cons, hv, ih1]
    · simp only [junkOf] at ih2 ⊢
      simp only [iniRecEntries]
      rw [List.filter_cons_of_neg (by simp [iniEntity]), List.filter_cons_of_neg (by simp [wsEntry]), ih2]

theorem entitiesOf_iniExpEntries (sec : List Nat) (rs : List PRec) :
    entitiesOf .ini (printIni sec rs).toArray (iniExpEntries sec rs) = rs.map expectedView ∧
      junkOf (printIni sec rs).toArray (iniExpEntries sec rs) = [] := by
  have hdrop : (printIni sec rs).toArray.toList.drop (sec.length + 3) = printProps rs := by
    have h0 : (printIni sec rs).toArray.toList.drop 0 = ([91] ++ sec ++ [93, 10]) ++ printProps rs := by
      simp [printIni]
    have := drop_app _ 0 _ _ h0
    simp at this
    rw [show sec.length + 3 = sec.length + 1 + 2 by omega]
    simpa using this
  obtain ⟨h1, h2⟩ := entitiesOf_iniRecEntries (printIni sec rs).toArray rs (sec.length + 3) hdrop
  constructor
  · simp only [entitiesOf] at h1 ⊢
    simp only [iniExpEntries]
    rw [List.filter_cons_of_neg (by simp [iniSectionEntry]), List.filter_cons_of_neg (by simp [wsEntry]), h1]
  · simp only [junkOf] at h2 ⊢
    simp only [iniExpEntries]
    rw [List.filter_cons_of_neg (by simp [iniSectionEntry]), List.filter_cons_of_neg (by simp [wsEntry]), h2]

end C02X

/- `match_has_prefix` without the restriction to patterns free of repeated variables: a syntactic
   relation "this regex spells this text" that includes back-references to groups of the compiled
   pattern `G`, sound for the engine under the invariant that every capture of such a group spans its text. -/
import CLModel.Proofs.C12Prefix
import CLModel.Proofs.C12Star
namespace PM
open Rx

inductive SpellsRe (G : List (Nat × Re)) : Re → Text → Prop
  | eps : SpellsRe G .eps []
  | lit {c} : SpellsRe G (.lit c) [c]
  | seq {a b ta tb} : SpellsRe G a ta → SpellsRe G b tb → SpellsRe G (.seq a b) (ta ++ tb)
  | group {i r t} : SpellsRe G r t → SpellsRe G (.group i r) t
  | backref {i r t} : (i, r) ∈ G → SpellsRe G r t → SpellsRe G (.backref i) t

inductive SpellsL (G : List (Nat × Re)) : List Re → Text → Prop
  | nil : SpellsL G [] []
  | cons {x rest tx t} : SpellsRe G x tx → SpellsL G rest t → SpellsL G (x :: rest) (tx ++ t)

def UniqueG (G : List (Nat × Re)) : Prop := ∀ i, (G.map (·.1)).count i ≤ 1

theorem SpellsRe.functional {G : List (Nat × Re)} (hU : UniqueG G) {r : Re} {t : Text} (h : SpellsRe G r t) :
    ∀ {t'}, SpellsRe G r t' → t = t' := by
  induction h with
  | eps => intro t' h'; cases h'; rfl
  | lit => intro t' h'; cases h'; rfl
  | seq _ _ iha ihb =>
    intro t' h'
    cases h' with
    | seq ha hb => rw [iha ha, ihb hb]
  | group _ ih => intro t' h'; cases h' with | group hr => exact ih hr
  | backref hm _ ih =>
    intro t' h'
    cases h' with
    | backref hm' hr' =>
      have := unique_body (hU _) hm hm'
      subst this
      exact ih hr'

theorem SpellsL.append {G : List (Nat × Re)} {a b : List Re} {ta tb : Text} (ha : SpellsL G a ta) (hb : SpellsL G b tb) :
    SpellsL G (a ++ b) (ta ++ tb) := by
  induction ha with
  | nil => simpa using hb
  | cons hx _ ih => simpa [List.append_assoc] using SpellsL.cons hx ih

theorem SpellsL.toRe {G : List (Nat × Re)} : ∀ {l : List Re} {t : Text}, SpellsL G l t → SpellsRe G (seqOf l) t
  | [], _, h => by cases h; exact SpellsRe.eps
  | [x], _, h => by
    cases h with
    | cons hx hr => cases hr; simpa [seqOf] using hx
  | x :: y :: rest, _, h => by
    cases h with
    | cons hx hr => exact SpellsRe.seq hx (SpellsL.toRe hr)

theorem spellsL_lits {G : List (Nat × Re)} : ∀ (t : Text), SpellsL G (t.map Re.lit) t
  | [] => SpellsL.nil
  | c :: t => by simpa using SpellsL.cons (SpellsRe.lit (c := c)) (spellsL_lits t)

/-- "group `i` of the compiled pattern stands for the text `t`" -/
def Stands (G : List (Nat × Re)) (i : Nat) (t : Text) : Prop := ∃ r, (i, r) ∈ G ∧ SpellsRe G r t

theorem Stands.functional {G : List (Nat × Re)} (hU : UniqueG G) {i : Nat} {t t' : Text}
    (h : Stands G i t) (h' : Stands G i t') : t = t' := by
  obtain ⟨r, hm, hs⟩ := h
  obtain ⟨r', hm', hs'⟩ := h'
  have := unique_body (hU _) hm hm'
  subst this
  exact hs.functional hU hs'

/-- every capture of a group that stands for a text spans that text -/
def CapInv (s : Array Nat) (G : List (Nat × Re)) (C : List (Nat × Nat × Nat)) : Prop :=
  ∀ e ∈ C, ∀ t, Stands G e.1 t → TextAt s e.2.1 t ∧ e.2.2 = e.2.1 + t.length

theorem spellsRe_sound {s : Array Nat} {G : List (Nat × Re)} (hU : UniqueG G) {r : Re} {t : Text}
    (h : SpellsRe G r t) : (∀ p ∈ groups r, p ∈ G) → ∀ {st st' : St}, CapInv s G st.caps → BSem s r st st' →
      TextAt s st.pos t ∧ st'.pos = st.pos + t.length ∧ CapInv s G st'.caps := by
  induction h with
  | eps =>
    intro _ st st' hi hs
    cases hs
    exact ⟨fun j hj => by simp at hj, by simp, hi⟩
  | @lit c =>
    intro _ st st' hi hs
    cases hs with
    | lit hc =>
      refine ⟨?_, by simp, hi⟩
      intro j hj
      have : j = 0 := by simpa using hj
      subst this; simpa using hc
  | seq _ _ iha ihb =>
    intro hg st st' hi hs
    cases hs with
    | seq h1 h2 =>
      obtain ⟨t1, p1, i1⟩ := iha (fun p hp => hg p (by simp [groups, hp])) hi h1
      obtain ⟨t2, p2, i2⟩ := ihb (fun p hp => hg p (by simp [groups, hp])) i1 h2
      exact ⟨TextAt.append t1 (by rw [← p1]; exact t2), by simp [p2, p1]; omega, i2⟩
  | @group i r t hr ih =>
    intro hg st st' hi hs
    cases hs with
    | @group _ _ _ st0 h1 =>
      obtain ⟨t1, p1, i1⟩ := ih (fun p hp => hg p (by simp [groups, hp])) hi h1
      refine ⟨t1, p1, ?_⟩
      intro e he t' hst
      simp only [List.mem_cons] at he
      rcases he with rfl | he
      · have hthis : Stands G i t := ⟨r, hg _ (by simp [groups]), hr⟩
        have := Stands.functional hU hst hthis
        subst this
        exact ⟨t1, p1⟩
      · exact i1 e he t' hst
  | @backref i r t hm hr _ =>
    intro _ st st' hi hs
    cases hs with
    | @backref _ a b _ hcap hall =>
      obtain ⟨hta, hb⟩ := hi _ (capOf_mem hcap) t ⟨r, hm, hr⟩
      simp only at hta hb
      have hlen : b - a = t.length := by omega
      refine ⟨?_, by simp [hlen], hi⟩
      intro j hj
      rw [← (hall j (by omega)).1]
      exact hta j hj

theorem spellsL_sound {s : Array Nat} {G : List (Nat × Re)} (hU : UniqueG G) :
    ∀ {items : List Re} {t : Text}, SpellsL G items t → (∀ x ∈ items, ∀ p ∈ groups x, p ∈ G) →
      ∀ {rest : List Re} {st st' : St}, CapInv s G st.caps → SemL s (items ++ rest) st st' →
        TextAt s st.pos t ∧ ∃ mid, mid.pos = st.pos + t.length ∧ CapInv s G mid.caps ∧ SemL s rest mid st' := by
  intro items t h
  induction h with
  | nil =>
    intro _ rest st st' hi hs
    exact ⟨fun j hj => by simp at hj, st, by simp, hi, by simpa using hs⟩
  | @cons x xs tx t hx _ ih =>
    intro hg rest st st' hi hs
    cases hs with
    | cons h1 h2 =>
      obtain ⟨t1, p1, i1⟩ := spellsRe_sound hU hx (hg x (by simp)) hi h1
      obtain ⟨t2, mid, p2, i2, h3⟩ := ih (fun y hy => hg y (by simp [hy])) i1 h2
      exact ⟨TextAt.append t1 (by rw [← p1]; exact t2), mid, by simp [p2, p1]; omega, i2, h3⟩

/-! ### the regex items of an expandable node spell its expansion -/

/-- every repeated occurrence has a first occurrence among its siblings (what `PatternParser` produces) -/
def RepOK (ns : List Node) : Prop :=
  (∀ name, Node.var name true ∈ ns → Node.var name false ∈ ns) ∧
  (Node.android true ∈ ns → Node.android false ∈ ns)

def ValOK' : Val → Prop
  | .str _ => False
  | .pat p => p.root = none ∧ RepOK p.nodes

def EnvOK' (env : Env) : Prop := ∀ k v, (k, v) ∈ env → ValOK' v

theorem EnvOK'.derase {env : Env} (h : EnvOK' env) (k : Text) : EnvOK' (derase env k) :=
  fun k' v hm => h k' v (List.mem_filter.mp hm).1

theorem EnvOK'.lookup {env : Env} (h : EnvOK' env) {k : Text} {v : Val} (hl : env.lookup k = some v) : ValOK' v :=
  h k v (lookup_mem hl)

def HS (G : List (Nat × Re)) (fE fR : Nat) : Prop :=
  ∀ v env t items names, ValOK' v → EnvOK' env → expandVal fE v env true = .ok t →
    rxVal fR v env = .ok (items, names) → (∀ x ∈ items, ∀ p ∈ groups x, p ∈ G) → SpellsL G items t

theorem groups_sub_of_group {G : List (Nat × Re)} {i : Nat} {body : List Re}
    (h : ∀ p ∈ groups (Re.group i (seqOf body)), p ∈ G) : ∀ x ∈ body, ∀ p ∈ groups x, p ∈ G := by
  intro x hx p hp
  apply h
  simp only [groups, List.mem_cons]
  right
  rw [groups_seqOf]
  exact List.mem_flatMap.mpr ⟨x, hx, hp⟩

/-- one node of a sibling list `all` whose regex items belong to the compiled pattern -/
theorem spells_node {G : List (Nat × Re)} {fE fR : Nat} (ih : HS G fE fR) {env : Env} (henv : EnvOK' env)
    {all : List Node} {allItems : List Re} {allNames : List Text} (hrep : RepOK all)
    (hall : rxChildren (rxVal fR) all env = .ok (allItems, allNames))
    (hG : ∀ x ∈ allItems, ∀ p ∈ groups x, p ∈ G)
    {c : Node} (hc : c ∈ all) {t : Text} {items names}
    (he : expandNode (expandVal fE) c env true = .ok t)
    (hr : rxNode (rxVal fR) c env = .ok (items, names)) : SpellsL G items t := by
  have hitems : ∀ x ∈ items, ∀ p ∈ groups x, p ∈ G := by
    obtain ⟨a, na, h1, h2, _⟩ := rxChildren_mem hall hc
    rw [hr] at h1
    simp only [Except.ok.injEq, Prod.mk.injEq] at h1
    obtain ⟨rfl, _⟩ := h1
    exact fun x hx => hG x (h2 x hx)
  cases c with
  | lit s =>
    simp only [expandNode, rxNode, pure, Except.pure, Except.ok.injEq, Prod.mk.injEq] at he hr
    obtain ⟨rfl, _⟩ := hr
    subst he
    exact spellsL_lits _
  | var name rep =>
    simp only [expandNode] at he
    cases hl : env.lookup name with
    | none => simp [hl] at he
    | some v =>
      simp only [hl] at he
      cases rep with
      | false =>
        simp only [rxNode, hl, Bool.false_eq_true, if_false, bind, Except.bind] at hr
        split at hr
        · cases hr
        · rename_i w hw
          obtain ⟨body, ns⟩ := w
          simp only [pure, Except.pure, Except.ok.injEq, Prod.mk.injEq] at hr
          obtain ⟨rfl, _⟩ := hr
          have hb := ih v _ t body ns (henv.lookup hl) (henv.derase name) he hw
            (groups_sub_of_group (hitems _ (List.mem_singleton.mpr rfl)))
          simpa using SpellsL.cons (SpellsRe.group (i := encName name) hb.toRe) SpellsL.nil
      | true =>
        simp only [rxNode, if_true, pure, Except.pure, Except.ok.injEq, Prod.mk.injEq] at hr
        obtain ⟨rfl, _⟩ := hr
        -- the first occurrence among the siblings
        have hfirst := hrep.1 name hc
        obtain ⟨a, na, h1, h2, _⟩ := rxChildren_mem hall hfirst
        simp only [rxNode, hl, Bool.false_eq_true, if_false, bind, Except.bind] at h1
        split at h1
        · cases h1
        · rename_i w hw
          obtain ⟨body, ns⟩ := w
          simp only [pure, Except.pure, Except.ok.injEq, Prod.mk.injEq] at h1
          obtain ⟨rfl, _⟩ := h1
          have hgin : ∀ p ∈ groups (Re.group (encName name) (seqOf body)), p ∈ G :=
            hG _ (h2 _ (List.mem_singleton.mpr rfl))
          have hb := ih v _ t body ns (henv.lookup hl) (henv.derase name) he hw (groups_sub_of_group hgin)
          have hm : (encName name, seqOf body) ∈ G := hgin _ (by simp [groups])
          simpa using SpellsL.cons (SpellsRe.backref hm hb.toRe) SpellsL.nil
  | android rep =>
    simp only [expandNode, bind, Except.bind] at he
    cases hg : getAndroidLocale (expandVal fE) env with
    | error e => simp [hg] at he
    | ok oa =>
      cases oa with
      | none => simp [hg] at he
      | some a =>
        simp only [hg, pure, Except.pure, Except.ok.injEq] at he
        subst he
        -- the regex of the first occurrence is built from the same Android code
        have hfirst : ∀ {its nms}, rxNode (rxVal fR) (Node.android false) env = .ok (its, nms) →
            its = [Re.group (encName androidName) (seqOf (a.map Re.lit))] := by
          intro its nms h1
          simp only [rxNode, Bool.false_eq_true, if_false, bind, Except.bind] at h1
          have hne : getAndroidLocale (expandVal (fuelFor env)) env ≠ .error .recursion := by
            intro hcn
            simp [hcn] at h1
          have := android_same hg rfl hne
          simp only [this, pure, Except.pure, Except.ok.injEq, Prod.mk.injEq] at h1
          exact h1.1.symm
        have hlit : SpellsRe G (seqOf (a.map Re.lit)) a := (spellsL_lits a).toRe
        cases rep with
        | false =>
          have := hfirst hr
          subst this
          simpa using SpellsL.cons (SpellsRe.group (i := encName androidName) hlit) SpellsL.nil
        | true =>
          simp only [rxNode, if_true, pure, Except.pure, Except.ok.injEq, Prod.mk.injEq] at hr
          obtain ⟨rfl, _⟩ := hr
          obtain ⟨a', na, h1, h2, _⟩ := rxChildren_mem hall (hrep.2 hc)
          have := hfirst h1
          subst this
          have hm : (encName androidName, seqOf (a.map Re.lit)) ∈ G :=
            hG _ (h2 _ (List.mem_singleton.mpr rfl)) _ (by simp [groups])
          simpa using SpellsL.cons (SpellsRe.backref hm hlit) SpellsL.nil
  | star n =>
    simp only [expandNode] at he
    split at he
    · cases he
    · rename_i s hs
      exact absurd (henv.lookup hs) (by simp [ValOK'])
    · cases he
  | starstar n sfx =>
    simp only [expandNode] at he
    split at he
    · cases he
    · rename_i s hs
      exact absurd (henv.lookup hs) (by simp [ValOK'])
    · cases he

end PM

namespace PM
open Rx

theorem spells_children {G : List (Nat × Re)} {fE fR : Nat} (ih : HS G fE fR) {env : Env} (henv : EnvOK' env)
    {all : List Node} {allItems : List Re} {allNames : List Text} (hrep : RepOK all)
    (hall : rxChildren (rxVal fR) all env = .ok (allItems, allNames))
    (hG : ∀ x ∈ allItems, ∀ p ∈ groups x, p ∈ G) :
    ∀ {ns : List Node} {t : Text} {items names}, (∀ n ∈ ns, n ∈ all) →
      expandChildren (expandVal fE) ns env true = .ok t →
      rxChildren (rxVal fR) ns env = .ok (items, names) → SpellsL G items t
  | [], t, items, names, _, he, hr => by
    simp only [expandChildren, rxChildren, pure, Except.pure, Except.ok.injEq, Prod.mk.injEq] at he hr
    obtain ⟨rfl, _⟩ := hr
    subst he
    exact SpellsL.nil
  | c :: cs, t, items, names, hsub, he, hr => by
    obtain ⟨a, na, b, nb, h1, h2, rfl, rfl⟩ := rxChildren_cons hr
    rcases expandChildren_cons_ok he with ⟨_, hrm, _⟩ | ⟨ta, tb, h3, h4, rfl⟩
    · cases hrm
    · exact (spells_node ih henv hrep hall hG (hsub c (by simp)) h3 h1).append
        (spells_children ih henv hrep hall hG (fun n hn => hsub n (by simp [hn])) h4 h2)

/-- with truncation at the first unbound variable: an initial part of the items spells the (truncated) text -/
theorem spells_children_trunc {G : List (Nat × Re)} {fE fR : Nat} (ih : HS G fE fR) {env : Env} (henv : EnvOK' env)
    {all : List Node} {allItems : List Re} {allNames : List Text} (hrep : RepOK all)
    (hall : rxChildren (rxVal fR) all env = .ok (allItems, allNames))
    (hG : ∀ x ∈ allItems, ∀ p ∈ groups x, p ∈ G) :
    ∀ {ns : List Node} {t : Text} {items names}, (∀ n ∈ ns, n ∈ all) →
      expandChildren (expandVal fE) ns env false = .ok t →
      rxChildren (rxVal fR) ns env = .ok (items, names) →
      ∃ a b, items = a ++ b ∧ SpellsL G a t ∧ ∀ x ∈ a, ∀ p ∈ groups x, p ∈ G
  | [], t, items, names, _, he, hr => by
    simp only [expandChildren, pure, Except.pure, Except.ok.injEq] at he
    subst he
    exact ⟨[], items, rfl, SpellsL.nil, fun x hx => by cases hx⟩
  | c :: cs, t, items, names, hsub, he, hr => by
    obtain ⟨a, na, b, nb, h1, h2, rfl, rfl⟩ := rxChildren_cons hr
    rcases expandChildren_cons_ok he with ⟨_, _, rfl⟩ | ⟨ta, tb, h3, h4, rfl⟩
    · exact ⟨[], a ++ b, rfl, SpellsL.nil, fun x hx => by cases hx⟩
    · obtain ⟨a', b', hab, hsp, hga⟩ :=
        spells_children_trunc ih henv hrep hall hG (fun n hn => hsub n (by simp [hn])) h4 h2
      subst hab
      refine ⟨a ++ a', b', by simp, (spells_node ih henv hrep hall hG (hsub c (by simp)) h3 h1).append hsp, ?_⟩
      intro x hx
      rcases List.mem_append.mp hx with hx | hx
      · obtain ⟨a0, na0, h10, h20, _⟩ := rxChildren_mem hall (hsub c (by simp))
        rw [h1] at h10
        simp only [Except.ok.injEq, Prod.mk.injEq] at h10
        obtain ⟨rfl, _⟩ := h10
        exact hG x (h20 x hx)
      · exact hga x hx

theorem spells_val {G : List (Nat × Re)} : ∀ fR fE, HS G fE fR
  | 0, _ => by
    intro v env t items names hv _ _ hr _
    cases v with
    | str s => exact absurd hv (by simp [ValOK'])
    | pat p => simp [rxVal] at hr
  | fR + 1, 0 => by
    intro v env t items names hv _ he _ _
    cases v with
    | str s => exact absurd hv (by simp [ValOK'])
    | pat p => simp [expandVal] at he
  | fR + 1, fE + 1 => by
    intro v env t items names hv henv he hr hG
    cases v with
    | str s => exact absurd hv (by simp [ValOK'])
    | pat p =>
      obtain ⟨hroot, hrep⟩ := hv
      simp only [expandVal, rxVal] at he hr
      obtain ⟨root, citems, h1, h2, rfl⟩ := rxPat_inv hr
      rw [rootOf_none hroot] at h1
      simp only [Except.ok.injEq] at h1
      subst h1
      simp only [expandPat, rootOf_none hroot, bind, Except.bind] at he
      split at he
      · cases he
      · rename_i body hb
        simp only [pure, Except.pure, Except.ok.injEq, List.nil_append] at he
        subst he
        have hG' : ∀ x ∈ citems, ∀ p ∈ groups x, p ∈ G := by simpa using hG
        simpa using spells_children (spells_val fR fE) henv hrep h2 hG' (fun n hn => hn) hb h2

end PM

namespace PM
open Rx

/-! ### patterns produced by `PatternParser` satisfy `RepOK` -/

def ParseInv (ps : PState) : Prop :=
  RepOK ps.nodes ∧
  ∀ name ∈ ps.known, (name = androidName → Node.android false ∈ ps.nodes) ∧
    (name ≠ androidName → Node.var name false ∈ ps.nodes)

theorem RepOK.append_other {ns : List Node} {n : Node} (h : RepOK ns)
    (hv : ∀ name, n ≠ Node.var name true) (ha : n ≠ Node.android true) : RepOK (ns ++ [n]) := by
  refine ⟨?_, ?_⟩
  · intro name hm
    rcases List.mem_append.mp hm with hm | hm
    · exact List.mem_append.mpr (Or.inl (h.1 name hm))
    · simp only [List.mem_singleton] at hm
      exact absurd hm.symm (hv name)
  · intro hm
    rcases List.mem_append.mp hm with hm | hm
    · exact List.mem_append.mpr (Or.inl (h.2 hm))
    · simp only [List.mem_singleton] at hm
      exact absurd hm.symm ha

theorem ParseInv.add_other {ps : PState} (h : ParseInv ps) {n : Node}
    (hv : ∀ name, n ≠ Node.var name true) (ha : n ≠ Node.android true) :
    ParseInv { ps with nodes := ps.nodes ++ [n] } := by
  refine ⟨h.1.append_other hv ha, ?_⟩
  intro name hk
  obtain ⟨h1, h2⟩ := h.2 name hk
  exact ⟨fun e => List.mem_append.mpr (Or.inl (h1 e)), fun e => List.mem_append.mpr (Or.inl (h2 e))⟩

theorem ParseInv.mem_mono {ps : PState} (h : ParseInv ps) {n : Node} {known' : List Text}
    (hk : ∀ nm ∈ known', nm ∈ ps.known ∨
      ((nm = androidName → Node.android false ∈ ps.nodes ++ [n]) ∧ (nm ≠ androidName → Node.var nm false ∈ ps.nodes ++ [n])))
    (hr : RepOK (ps.nodes ++ [n])) {star cursor pl} :
    ParseInv { nodes := ps.nodes ++ [n], star := star, known := known', cursor := cursor, prefixLen := pl } := by
  refine ⟨hr, ?_⟩
  intro nm hm
  rcases hk nm hm with hold | hnew
  · obtain ⟨h1, h2⟩ := h.2 nm hold
    exact ⟨fun e => List.mem_append.mpr (Or.inl (h1 e)), fun e => List.mem_append.mpr (Or.inl (h2 e))⟩
  · exact hnew

theorem stepVariable_inv {s : Array Nat} {st : St} {ps ps' : PState} (h : ParseInv ps)
    (hs : stepVariable s st ps = .ok ps') : ParseInv ps' := by
  unfold stepVariable at hs
  split at hs
  · cases hs
  · rename_i name _
    simp only [pure, Except.pure, Except.ok.injEq] at hs
    subst hs
    cases hk : ps.known.contains name with
    | true =>
      have hmem : name ∈ ps.known := by simpa using hk
      obtain ⟨h1, h2⟩ := h.2 name hmem
      apply h.mem_mono
      · intro nm hm
        simp only [List.mem_cons] at hm
        rcases hm with rfl | hm
        · exact Or.inl hmem
        · exact Or.inl hm
      · refine ⟨?_, ?_⟩
        · intro nm hm
          rcases List.mem_append.mp hm with hm | hm
          · exact List.mem_append.mpr (Or.inl (h.1.1 nm hm))
          · simp only [List.mem_singleton] at hm
            by_cases hand : name = androidName
            · subst hand
              simp only [beq_self_eq_true, if_true] at hm
              cases hm
            · have hne : (name == androidName) = false := by simpa using hand
              simp only [hne, Bool.false_eq_true, if_false, Node.var.injEq] at hm
              obtain ⟨rfl, _⟩ := hm
              exact List.mem_append.mpr (Or.inl (h2 hand))
        · intro hm
          rcases List.mem_append.mp hm with hm | hm
          · exact List.mem_append.mpr (Or.inl (h.1.2 hm))
          · by_cases hand : name = androidName
            · exact List.mem_append.mpr (Or.inl (h1 hand))
            · have hne : (name == androidName) = false := by simpa using hand
              simp only [List.mem_singleton, hne, Bool.false_eq_true, if_false] at hm
              cases hm
    | false =>
      by_cases hand : name = androidName
      · subst hand
        simp only [beq_self_eq_true, if_true]
        apply h.mem_mono (n := Node.android false)
        · intro nm hm
          simp only [List.mem_cons] at hm
          rcases hm with rfl | hm
          · exact Or.inr ⟨fun _ => List.mem_append.mpr (Or.inr (List.mem_singleton.mpr rfl)), fun e => absurd rfl e⟩
          · exact Or.inl hm
        · exact h.1.append_other (fun _ hc => Node.noConfusion hc) (fun hc => by cases hc)
      · have hne : (name == androidName) = false := by simpa using hand
        simp only [hne, Bool.false_eq_true, if_false]
        apply h.mem_mono (n := Node.var name false)
        · intro nm hm
          simp only [List.mem_cons] at hm
          rcases hm with rfl | hm
          · exact Or.inr ⟨fun e => absurd e hand, fun _ => List.mem_append.mpr (Or.inr (List.mem_singleton.mpr rfl))⟩
          · exact Or.inl hm
        · exact h.1.append_other (fun _ hc => by cases hc) (fun hc => Node.noConfusion hc)

theorem stepWildcard_inv {s : Array Nat} {st : St} {ps ps' : PState} (h : ParseInv ps)
    (hs : stepWildcard s st ps = .ok ps') : ParseInv ps' := by
  unfold stepWildcard at hs
  have h1 : ParseInv (markPrefix ps) := by
    unfold markPrefix
    split
    · exact ⟨h.1, h.2⟩
    · exact h
  generalize markPrefix ps = psw at h1 hs
  simp only at hs
  split at hs
  · simp only [pure, Except.pure, Except.ok.injEq] at hs
    subst hs
    exact h1.mem_mono (n := Node.star psw.star) (fun nm hm => Or.inl hm)
      (h1.1.append_other (fun _ hc => Node.noConfusion hc) (fun hc => Node.noConfusion hc))
  · split at hs
    · rename_i sfx _
      simp only [pure, Except.pure, Except.ok.injEq] at hs
      subst hs
      exact h1.mem_mono (n := Node.starstar psw.star sfx) (fun nm hm => Or.inl hm)
        (h1.1.append_other (fun _ hc => Node.noConfusion hc) (fun hc => Node.noConfusion hc))
    · cases hs

theorem parseStep_inv {s : Array Nat} {ps ps' : PState} {q : Nat} {st : St} (h : ParseInv ps)
    (hs : parseStep s ps q st = .ok ps') : ParseInv ps' := by
  have h0 : ParseInv (if q > ps.cursor then { ps with nodes := ps.nodes ++ [.lit (slice s ps.cursor q)] } else ps) := by
    split
    · exact h.add_other (fun _ hc => Node.noConfusion hc) (fun hc => Node.noConfusion hc)
    · exact h
  simp only [parseStep, bind, Except.bind] at hs
  generalize (if q > ps.cursor then { ps with nodes := ps.nodes ++ [.lit (slice s ps.cursor q)] } else ps) = ps0 at h0 hs
  by_cases hvar : truthy (groupText s st gVariable) = true
  · simp only [hvar, if_true] at hs
    cases hsv : stepVariable s st ps0 with
    | error e => simp [hsv] at hs
    | ok ps1 =>
      simp only [hsv, pure, Except.pure, Except.ok.injEq] at hs
      subst hs
      have := stepVariable_inv h0 hsv
      exact ⟨this.1, this.2⟩
  · simp only [hvar, Bool.false_eq_true, if_false] at hs
    cases hsv : stepWildcard s st ps0 with
    | error e => simp [hsv] at hs
    | ok ps1 =>
      simp only [hsv, pure, Except.pure, Except.ok.injEq] at hs
      subst hs
      have := stepWildcard_inv h0 hsv
      exact ⟨this.1, this.2⟩

theorem parseLoop_inv {s : Array Nat} : ∀ (ms : List (Nat × St)) {ps ps' : PState}, ParseInv ps →
    parseLoop s ms ps = .ok ps' → ParseInv ps'
  | [], ps, ps', h, hs => by
    simp only [parseLoop, pure, Except.pure, Except.ok.injEq] at hs
    subst hs; exact h
  | (q, st) :: rest, ps, ps', h, hs => by
    simp only [parseLoop, bind, Except.bind] at hs
    split at hs
    · cases hs
    · rename_i ps1 h1
      exact parseLoop_inv rest (parseStep_inv h h1) hs

theorem parsePattern_repOK {t : Text} {p : Pattern} (h : parsePattern t = .ok p) : RepOK p.nodes := by
  simp only [parsePattern, bind, Except.bind] at h
  split at h
  · cases h
  · rename_i ps hps
    simp only [pure, Except.pure, Except.ok.injEq] at h
    subst h
    have hinit : ParseInv { nodes := [], star := 1, known := [], cursor := 0, prefixLen := none } := by
      refine ⟨⟨?_, ?_⟩, ?_⟩
      · intro _ hm; simp at hm
      · intro hm; simp at hm
      · intro _ hm; simp at hm
    have hinv : ParseInv ps := parseLoop_inv _ hinit hps
    exact hinv.1.append_other (fun _ hc => Node.noConfusion hc) (fun hc => Node.noConfusion hc)

end PM

namespace PM
open Rx

theorem realEnv_ok' : ∀ {env : List (Text × Text)} {e : Env}, realEnv env = .ok e → EnvOK' e
  | [], e, h, k, v, hm => by
    simp only [realEnv, pure, Except.pure, Except.ok.injEq] at h
    subst h; cases hm
  | (a, b) :: rest, e, h, k, v, hm => by
    simp only [realEnv, bind, Except.bind] at h
    split at h
    · cases h
    · rename_i p hp
      split at h
      · cases h
      · rename_i e' he'
        simp only [pure, Except.pure, Except.ok.injEq] at h
        subst h
        simp only [List.mem_cons, Prod.mk.injEq] at hm
        rcases hm with ⟨_, rfl⟩ | hm
        · exact ⟨parsePattern_root hp, parsePattern_repOK hp⟩
        · exact realEnv_ok' he' k v hm

/-- a matcher built by `Matcher(pattern, env, root)` has the shape the prefix theorem needs -/
theorem mkMatcher_shape {pat : Text} {env : List (Text × Text)} {root : Option Text} {m : Matcher}
    (h : mkMatcher pat env root = .ok m) : EnvOK' m.env ∧ RepOK m.pattern.nodes := by
  simp only [mkMatcher, bind, Except.bind] at h
  split at h
  · cases h
  · rename_i e he
    split at h
    · cases h
    · rename_i p hp
      simp only [pure, Except.pure, Except.ok.injEq] at h
      subst h
      exact ⟨realEnv_ok' he, by simpa using parsePattern_repOK hp⟩

/-- every matched path starts with the prefix -/
theorem prefix_of_match {m : Matcher} {path : Text} {d : GroupDict} {pre : Text}
    (henv : EnvOK' m.env) (hrep : RepOK m.pattern.nodes)
    (h : m.match path = .ok (some d)) (hp : m.prefix = .ok pre) : pre <+: path := by
  obtain ⟨re, names, st, hre, hst, _⟩ := match_inv h
  obtain ⟨items, hrx, hreq, hwf⟩ := regexOf_inv hre
  obtain ⟨root, citems, hroot, hch, hitems⟩ := rxPat_inv hrx
  have hU : UniqueG (groups re) := wfRe_unique hwf
  have hG : ∀ x ∈ citems, ∀ p ∈ groups x, p ∈ groups re := by
    intro x hx p hp'
    rw [hreq, groups_seqOf, hitems]
    exact List.mem_flatMap.mpr ⟨x, by simp [hx], hp'⟩
  simp only [Matcher.prefix, expandTop, expandPat, bind, Except.bind] at hp
  split at hp
  · cases hp
  · rename_i root' hroot'
    split at hp
    · cases hp
    · rename_i body hbody
      simp only [pure, Except.pure, Except.ok.injEq] at hp
      subst hp
      have hsame : root' = root := by
        cases hk : m.pattern.nodes.take m.pattern.prefixLen with
        | nil =>
          cases hrt : m.pattern.root with
          | none =>
            rw [rootOf_none hrt] at hroot
            rw [rootOf_none (p := m.prefixPattern) (by simpa [Matcher.prefixPattern] using hrt)] at hroot'
            simp only [Except.ok.injEq] at hroot hroot'
            rw [← hroot, ← hroot']
          | some r => simp [rootOf, Matcher.prefixPattern, hrt, hk] at hroot'
        | cons n0 tl =>
          have : rootOf (expandVal (fuelFor m.env)) m.prefixPattern m.env =
              rootOf (expandVal (fuelFor m.env)) m.pattern m.env := by
            unfold rootOf
            simp only [Matcher.prefixPattern]
            cases m.pattern.root with
            | none => rfl
            | some r =>
              simp only [hk]
              have hn : ∃ tl', m.pattern.nodes = n0 :: tl' := by
                cases hns : m.pattern.nodes with
                | nil => simp [hns] at hk
                | cons a as =>
                  cases hpl : m.pattern.prefixLen with
                  | zero => simp [hpl] at hk
                  | succ k =>
                    simp only [hns, hpl, List.take_succ_cons, List.cons.injEq] at hk
                    exact ⟨as, by rw [hk.1]⟩
              obtain ⟨tl', htl'⟩ := hn
              simp only [htl']
          rw [this, hroot] at hroot'
          simpa using hroot'.symm
      subst hsame
      have hsplit : m.pattern.nodes = m.pattern.nodes.take m.pattern.prefixLen ++ m.pattern.nodes.drop m.pattern.prefixLen :=
        (List.take_append_drop _ _).symm
      have hch2 := hch
      rw [hsplit] at hch2
      obtain ⟨ia, na, ib, nb, hA, _, hcit, _⟩ := rxChildren_append hch2
      obtain ⟨a, b, hab, hsp, hga⟩ := spells_children_trunc (G := groups re) (spells_val _ _) henv hrep hch hG
        (fun n hn => List.mem_of_mem_take hn) (by simpa [Matcher.prefixPattern] using hbody) hA
      have hsem := sem_seqOf _ (hreq ▸ matchAt_sem hst)
      rw [hitems, hcit, hab] at hsem
      have hsem' : SemL path.toArray (root'.map Re.lit ++ (a ++ (b ++ ib ++ [Gen.Pat.matcher_frag_anchor]))) ⟨0, []⟩ st := by
        simpa [List.append_assoc] using hsem
      obtain ⟨h1, h2⟩ := semL_lits root' hsem'
      obtain ⟨h3, _⟩ := spellsL_sound hU hsp hga (s := path.toArray) (fun e he => by cases he) h2
      have := (TextAt.append h1 (by simpa using h3)).prefix
      simpa using this

end PM

namespace PM

theorem mem_dset {β} {d : List (Text × β)} {a : Text} {b : β} {x : Text × β} (h : x ∈ dset d a b) :
    x ∈ d ∨ x = (a, b) := by
  unfold dset at h
  split at h
  · obtain ⟨y, hy, rfl⟩ := List.mem_map.mp h
    split
    · exact Or.inr rfl
    · exact Or.inl hy
  · rcases List.mem_append.mp h with h | h
    · exact Or.inl h
    · exact Or.inr (List.mem_singleton.mp h)

theorem EnvOK'.dupdate {d : Env} (hd : EnvOK' d) : ∀ {other : Env}, EnvOK' other → EnvOK' (dupdate d other) := by
  intro other
  induction other generalizing d with
  | nil => intro _; simpa [PM.dupdate] using hd
  | cons x xs ih =>
    intro ho
    have hstep : PM.dupdate d (x :: xs) = PM.dupdate (dset d x.1 x.2) xs := by simp [PM.dupdate]
    rw [hstep]
    apply ih
    · intro k v hm
      rcases mem_dset hm with hm | hm
      · exact hd k v hm
      · simp only [Prod.mk.injEq] at hm
        obtain ⟨rfl, rfl⟩ := hm
        exact ho x.1 x.2 (by simp)
    · exact fun k v hm => ho k v (by simp [hm])

/-- `matcher.with_env(environ)` keeps the shape -/
theorem withEnv_shape {m m' : Matcher} {env : List (Text × Text)} (hs : EnvOK' m.env ∧ RepOK m.pattern.nodes)
    (h : m.withEnv env = .ok m') : EnvOK' m'.env ∧ RepOK m'.pattern.nodes := by
  simp only [Matcher.withEnv, bind, Except.bind] at h
  split at h
  · cases h
  · rename_i e he
    simp only [pure, Except.pure, Except.ok.injEq] at h
    subst h
    exact ⟨hs.1.dupdate (realEnv_ok' he), hs.2⟩

end PM

/- C13M helper lemmas: the code `encode : List Nat → Nat` of Paths/ProjectFilesM.lean is injective (`decode` inverts it). -/
import CLModel.Paths.ProjectFilesM
namespace PFM

theorem lt_pow_bitsF : ∀ (f n : Nat), n ≤ f → n < 2 ^ bitsF f n
  | 0, n, h => by
    have : n = 0 := by omega
    subst this; simp [bitsF]
  | f + 1, n, h => by
    unfold bitsF
    by_cases hn : n = 0
    · subst hn; simp
    · have hne : (n == 0) = false := by simpa using hn
      simp only [hne, Bool.false_eq_true, if_false]
      have ih := lt_pow_bitsF f (n / 2) (by omega)
      rw [Nat.pow_succ]
      omega

theorem lt_pow_bits (n : Nat) : n < 2 ^ bits n := lt_pow_bitsF n n (Nat.le_refl _)

theorem tzF_pow : ∀ (k f x : Nat), k < f → tzF f (2 ^ k * (2 * x + 1)) = k
  | 0, f, x, h => by
    obtain ⟨f', rfl⟩ : ∃ f', f = f' + 1 := ⟨f - 1, by omega⟩
    unfold tzF
    have : (2 ^ 0 * (2 * x + 1)) % 2 = 1 := by rw [Nat.pow_zero, Nat.one_mul]; omega
    rw [this]; rfl
  | k + 1, f, x, h => by
    obtain ⟨f', rfl⟩ : ∃ f', f = f' + 1 := ⟨f - 1, by omega⟩
    unfold tzF
    have he : 2 ^ (k + 1) * (2 * x + 1) = 2 * (2 ^ k * (2 * x + 1)) := by
      rw [Nat.pow_succ, Nat.mul_comm (2 ^ k) 2, Nat.mul_assoc]
    rw [he]
    have h1 : (2 * (2 ^ k * (2 * x + 1))) % 2 = 0 := by omega
    have h2 : (2 * (2 ^ k * (2 * x + 1))) / 2 = 2 ^ k * (2 * x + 1) := by omega
    simp only [h1, h2]
    have ih := tzF_pow k f' x (by omega)
    simp [ih]

theorem le_maxOf : ∀ {l : List Nat} {c : Nat}, c ∈ l → c ≤ maxOf l
  | a :: as, c, h => by
    simp only [List.mem_cons] at h
    unfold maxOf
    rcases h with rfl | h
    · exact Nat.le_max_left _ _
    · exact Nat.le_trans (le_maxOf h) (Nat.le_max_right _ _)

theorem length_le_encBody {B : Nat} (hB : 1 ≤ B) : ∀ (l : List Nat), l.length ≤ encBody B l
  | [] => by simp [encBody]
  | c :: cs => by
    have ih := length_le_encBody hB cs
    have : encBody B cs ≤ B * encBody B cs := Nat.le_mul_of_pos_left _ hB
    simp only [encBody, List.length_cons]
    omega

theorem decBody_encBody {B : Nat} : ∀ (l : List Nat) (f : Nat), (∀ c ∈ l, c + 1 < B) → l.length ≤ f →
    decBody B f (encBody B l) = l
  | [], f, _, _ => by
    cases f <;> simp [decBody, encBody]
  | c :: cs, f, hc, hf => by
    obtain ⟨f', rfl⟩ : ∃ f', f = f' + 1 := ⟨f - 1, by simp at hf; omega⟩
    have hcB : c + 1 < B := hc c (by simp)
    have hpos : 0 < B := by omega
    have hne : ((c + 1 + B * encBody B cs) == 0) = false := by
      simp only [beq_eq_false_iff_ne]; omega
    have hmod : (c + 1 + B * encBody B cs) % B = c + 1 := by
      rw [Nat.add_mul_mod_self_left, Nat.mod_eq_of_lt hcB]
    have hdiv : (c + 1 + B * encBody B cs) / B = encBody B cs := by
      rw [Nat.add_mul_div_left _ _ hpos, Nat.div_eq_of_lt hcB, Nat.zero_add]
    simp only [encBody, decBody, hne, Bool.false_eq_true, if_false, hmod, hdiv]
    rw [decBody_encBody cs f' (fun c' h' => hc c' (by simp [h'])) (by simp at hf; omega)]
    simp

/-- `decode` inverts `encode`: the code is injective on all lists of natural numbers -/
theorem decode_encode (l : List Nat) : decode (encode l) = l := by
  have hB := lt_pow_bits (maxOf l + 2)
  generalize hk : bits (maxOf l + 2) = k at hB
  generalize hBd : maxOf l + 2 = B at hB hk
  have hB2 : 2 ≤ B := by omega
  have hpow : 0 < 2 ^ k := Nat.pos_of_ne_zero (by simp)
  have hg : encode l = 2 ^ k * (2 * (encBody B l * 2 ^ k + B) + 1) := by
    unfold encode
    rw [hBd, hk, Nat.mul_comm _ (2 ^ k), Nat.mul_comm _ 2]
  have hlt : k < encode l := by
    rw [hg]
    calc k < 2 ^ k := Nat.lt_two_pow_self
      _ ≤ 2 ^ k * (2 * (encBody B l * 2 ^ k + B) + 1) := Nat.le_mul_of_pos_right _ (by omega)
  unfold decode
  have htz : tzF (encode l) (encode l) = k := by
    conv => lhs; arg 2; rw [hg]
    exact tzF_pow k _ _ hlt
  simp only [htz]
  have h1 : encode l / 2 ^ k / 2 = encBody B l * 2 ^ k + B := by
    rw [hg, Nat.mul_div_cancel_left _ hpow]; omega
  rw [h1]
  have h2 : (encBody B l * 2 ^ k + B) % 2 ^ k = B := by
    rw [Nat.add_comm, Nat.add_mul_mod_self_right, Nat.mod_eq_of_lt hB]
  have h3 : (encBody B l * 2 ^ k + B) / 2 ^ k = encBody B l := by
    rw [Nat.add_comm, Nat.add_mul_div_right _ _ hpow, Nat.div_eq_of_lt hB, Nat.zero_add]
  rw [h2, h3]
  apply decBody_encBody
  · intro c hc
    have := le_maxOf hc
    omega
  · exact length_le_encBody (by omega) l

theorem encode_injective {a b : List Nat} (h : encode a = encode b) : a = b := by
  rw [← decode_encode a, ← decode_encode b, h]

end PFM

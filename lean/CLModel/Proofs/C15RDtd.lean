/-
C15S, part 3: DTD (`<!ENTITY key "value">⏎` per record, the printed class of `C02.roundtrip_dtd`) and .inc
(`#define key value⏎`, the class of `C02.roundtrip_inc`): what the merge sees of a printed version.  Core Lean only.
-/
import CLModel.Proofs.C15RGen
import CLModel.Proofs.C02XDtd
import CLModel.Proofs.C02XInc
namespace C15S
open AR Merge C16R C15R C02X
open P (PRec)

/-! ### DTD -/

def dtdL : LineFmt where
  body := fun r => dtdPrefix ++ (r.1 ++ ([32, 34] ++ (r.2 ++ [34, 62])))
  val := fun k all => (all.drop (9 + k.length + 2)).take (all.length - (9 + k.length + 2) - 2)

theorem dtdL_val (r : PRec) : dtdL.val r.1 (dtdL.body r) = r.2 := by
  simp only [dtdL, dtdPrefix]
  have e : [60, 33, 69, 78, 84, 73, 84, 89, 32] ++ (r.1 ++ ([32, 34] ++ (r.2 ++ [34, 62])))
      = ([60, 33, 69, 78, 84, 73, 84, 89, 32] ++ r.1 ++ [32, 34]) ++ (r.2 ++ [34, 62]) := by simp
  rw [e, List.drop_left' (by simp; omega)]
  simp only [List.length_append, List.length_cons, List.length_nil]
  rw [show 9 + r.1.length + (0 + 1 + 1) + (r.2.length + (0 + 1 + 1)) - (9 + r.1.length + 2) - 2 = r.2.length by omega]
  simp

theorem printL_dtd (rs : List PRec) : printL dtdL rs = printDtd rs := by
  unfold printL printDtd
  congr 1
  apply List.map_congr_left
  intro r _
  simp [dtdL, printDtdRec]

theorem toEnt_dtdEntity (s : Array Nat) (off : Nat) (r : PRec) (rest : List Nat) (ver idx : Nat)
    (h : s.toList.drop off = printDtdRec r ++ rest) :
    toEnt .dtd s ver idx (dtdEntity off r.1.length r.2.length) = .ok (gE dtdL ver idx r) := by
  have h1 : s.toList.drop off = dtdPrefix ++ (r.1 ++ ([32, 34] ++ (r.2 ++ ([34, 62, 10] ++ rest)))) := by
    simp [h, printDtdRec]
  have h2 : s.toList.drop (off + 9) = r.1 ++ ([32, 34] ++ (r.2 ++ ([34, 62, 10] ++ rest))) := drop_app s off _ _ h1
  have hk : P.slice s (off + 9) (off + 9 + r.1.length) = r.1 := by
    rw [P.slice_take s (off + 9) r.1.length _ h2 (by simp)]
    simp
  have hall : P.slice s off (off + dtdLen r.1.length r.2.length) = dtdL.body r := by
    rw [P.slice_take s off _ _ h (by rw [List.length_append, printDtdRec_length]; omega)]
    have : printDtdRec r ++ rest = dtdL.body r ++ (10 :: rest) := by simp [printDtdRec, dtdL]
    rw [this, List.take_left' (by simp [dtdL, dtdLen, dtdPrefix]; omega)]
  have e1 : ((off : Int) + 9).toNat = off + 9 := by omega
  have e2 : ((off : Int) + 9 + (r.1.length : Int)).toNat = off + 9 + r.1.length := by omega
  simp [toEnt, ekeyOf, dtdEntity, P.Entry.all, gE, hall, e1, e2, hk]

theorem dtd_after (s : Array Nat) (off : Nat) (r : PRec) (rs : List PRec)
    (h : s.toList.drop off = printDtdRec r ++ printDtd rs) :
    s.toList.drop (off + dtdLen r.1.length r.2.length + 1) = printDtd rs ∧
    s[off + dtdLen r.1.length r.2.length]? = some 10 := by
  constructor
  · have := drop_app s off _ _ h
    rw [printDtdRec_length] at this
    rw [← this, Nat.add_assoc]
  · have h1 : s.toList.drop off = dtdL.body r ++ (10 :: printDtd rs) := by
      rw [h]; simp [printDtdRec, dtdL]
    have := drop_app s off _ _ h1
    have hl : (dtdL.body r).length = dtdLen r.1.length r.2.length := by simp [dtdL, dtdLen, dtdPrefix]; omega
    rw [hl] at this
    have hlt : off + dtdLen r.1.length r.2.length < s.toList.length := by
      have := congrArg List.length this
      simp at this
      simp; omega
    have e := List.drop_eq_getElem_cons hlt
    rw [this] at e
    simp only [List.cons.injEq] at e
    rw [Array.getElem?_eq_getElem (by simpa using hlt)]
    have e1 := e.1
    simp only [Array.getElem_toList] at e1
    rw [← e1]

theorem toEnts_dtdExp (s : Array Nat) (ver : Nat) :
    ∀ (rs : List PRec) (off n : Nat), s.toList.drop off = printDtd rs →
      toEnts .dtd s ver ((dtdExpEntries off rs).zipIdx n) = .ok (gents dtdL ver n rs) := by
  intro rs
  induction rs with
  | nil => intro off n _; rfl
  | cons r rs ih =>
    intro off n h
    have hpp : printDtd (r :: rs) = printDtdRec r ++ printDtd rs := by simp [printDtd]
    rw [hpp] at h
    obtain ⟨hdrop, hnl⟩ := dtd_after s off r rs h
    simp only [dtdExpEntries, List.zipIdx_cons, toEnts, gents]
    rw [toEnt_dtdEntity s off r _ ver n h, toEnt_ws .dtd rfl s _ ver (n + 1) hnl, ih _ (n + 1 + 1) hdrop]

theorem walkEnts_dtd_printed (ver : Nat) (rs : List PRec) (h : ∀ r ∈ rs, SafeDtdRec r) :
    walkEnts .dtd ver (printDtd rs).toArray = .ok (gents dtdL ver 0 rs) := by
  unfold walkEnts
  rw [walk_dtd_printed rs h]
  exact toEnts_dtdExp _ ver rs 0 0 (by simp)

/-! ### .inc -/

def incL : LineFmt where
  body := fun r => defPrefix ++ (r.1 ++ (if r.2.isEmpty then [] else 32 :: r.2))
  val := fun k all => all.drop (8 + k.length + 1)

theorem incL_val (r : PRec) : incL.val r.1 (incL.body r) = r.2 := by
  simp only [incL, defPrefix]
  by_cases hv : r.2 = []
  · rw [hv]
    simp
    omega
  · have e : [35, 100, 101, 102, 105, 110, 101, 32] ++ (r.1 ++ (if r.2.isEmpty = true then [] else 32 :: r.2))
        = ([35, 100, 101, 102, 105, 110, 101, 32] ++ r.1 ++ [32]) ++ r.2 := by simp [hv]
    rw [e, List.drop_left' (by simp; omega)]

theorem printL_inc (rs : List PRec) : printL incL rs = printInc rs := by
  unfold printL printInc
  congr 1
  apply List.map_congr_left
  intro r _
  simp [incL, printIncRec]

theorem incL_body_length (r : PRec) : (incL.body r).length = incLen r.1.length r.2.length := by
  unfold incLen
  by_cases hv : r.2 = []
  · simp [incL, defPrefix, hv]; omega
  · have : r.2.length ≠ 0 := by simpa using hv
    simp [incL, defPrefix, hv, this]; omega

theorem toEnt_incEntity (s : Array Nat) (off : Nat) (r : PRec) (rest : List Nat) (ver idx : Nat)
    (h : s.toList.drop off = printIncRec r ++ rest) :
    toEnt .inc s ver idx (incEntity off r.1.length r.2.length) = .ok (gE incL ver idx r) := by
  have h1 : s.toList.drop off = defPrefix ++ (r.1 ++ (((if r.2.isEmpty then [] else 32 :: r.2) ++ [10]) ++ rest)) := by
    simp [h, printIncRec]
  have h2 : s.toList.drop (off + 8) = r.1 ++ (((if r.2.isEmpty then [] else 32 :: r.2) ++ [10]) ++ rest) :=
    drop_app s off _ _ h1
  have hk : P.slice s (off + 8) (off + 8 + r.1.length) = r.1 := by
    rw [P.slice_take s (off + 8) r.1.length _ h2 (by simp)]
    simp
  have hall : P.slice s off (off + incLen r.1.length r.2.length) = incL.body r := by
    rw [P.slice_take s off _ _ h (by rw [List.length_append, printIncRec_length]; omega)]
    have : printIncRec r ++ rest = incL.body r ++ (10 :: rest) := by simp [printIncRec, incL]
    rw [this, List.take_left' (incL_body_length r)]
  have hkind : (incEntity off r.1.length r.2.length).kind = .entity := by unfold incEntity; split <;> rfl
  have hfull : (incEntity off r.1.length r.2.length).full = off := by unfold incEntity; split <;> rfl
  have hks : (incEntity off r.1.length r.2.length).ks = ((off + 8 : Nat) : Int) := by unfold incEntity; split <;> rfl
  have hke : (incEntity off r.1.length r.2.length).ke = ((off + 8 + r.1.length : Nat) : Int) := by
    unfold incEntity; split <;> rfl
  have he := incEntity_e off r.1.length r.2.length
  simp only [toEnt, ekeyOf, hkind, P.Entry.all, hfull, he, hks, hke, hall, Int.toNat_natCast, hk, gE]
  simp

theorem inc_after (s : Array Nat) (off : Nat) (r : PRec) (rs : List PRec)
    (h : s.toList.drop off = printIncRec r ++ printInc rs) :
    s.toList.drop (off + incLen r.1.length r.2.length + 1) = printInc rs ∧
    s[off + incLen r.1.length r.2.length]? = some 10 := by
  constructor
  · have := drop_app s off _ _ h
    rw [printIncRec_length] at this
    rw [← this, Nat.add_assoc]
  · have h1 : s.toList.drop off = incL.body r ++ (10 :: printInc rs) := by
      rw [h]; simp [printIncRec, incL]
    have := drop_app s off _ _ h1
    rw [incL_body_length] at this
    have hlt : off + incLen r.1.length r.2.length < s.toList.length := by
      have := congrArg List.length this
      simp at this
      simp; omega
    have e := List.drop_eq_getElem_cons hlt
    rw [this] at e
    simp only [List.cons.injEq] at e
    rw [Array.getElem?_eq_getElem (by simpa using hlt)]
    have e1 := e.1
    simp only [Array.getElem_toList] at e1
    rw [← e1]

theorem toEnts_incExp (s : Array Nat) (ver : Nat) :
    ∀ (rs : List PRec) (off n : Nat), s.toList.drop off = printInc rs →
      toEnts .inc s ver ((incExpEntries off rs).zipIdx n) = .ok (gents incL ver n rs) := by
  intro rs
  induction rs with
  | nil => intro off n _; rfl
  | cons r rs ih =>
    intro off n h
    have hpp : printInc (r :: rs) = printIncRec r ++ printInc rs := by simp [printInc]
    rw [hpp] at h
    obtain ⟨hdrop, hnl⟩ := inc_after s off r rs h
    simp only [incExpEntries, List.zipIdx_cons, toEnts, gents]
    rw [toEnt_incEntity s off r _ ver n h, toEnt_ws .inc rfl s _ ver (n + 1) hnl, ih _ (n + 1 + 1) hdrop]

theorem walkEnts_inc_printed (ver : Nat) (rs : List PRec) (h : ∀ r ∈ rs, SafeIncRec r) :
    walkEnts .inc ver (printInc rs).toArray = .ok (gents incL ver 0 rs) := by
  unfold walkEnts
  rw [walk_inc_printed rs h]
  exact toEnts_incExp _ ver rs 0 0 (by simp)

end C15S

/- C14 composed with the Matcher model: the lazy, raising transliteration `FiltM.filterS` agrees with the abstract
   `Filt.filter` of the instantiated configuration (`FiltM.evalS`). -/
import CLModel.Paths.FilterM
import CLModel.Proofs.C14Filter
namespace C14M
open Filt FiltM

/-! ### `Except` plumbing -/

theorem bind_ok {ε α β : Type} {x : Except ε α} {f : α → Except ε β} {b : β}
    (h : (x >>= f) = .ok b) : ∃ a, x = .ok a ∧ f a = .ok b := by
  cases x with
  | error e => simp [bind, Except.bind] at h
  | ok a => exact ⟨a, rfl, by simpa [bind, Except.bind] using h⟩

theorem ok_bind {ε α β : Type} {x : Except ε α} {f : α → Except ε β} {a : α}
    (h : x = .ok a) : (x >>= f) = f a := by
  subst h; rfl

/-! ### one matcher -/

theorem evalMatcher_inv {m : PM.Matcher} {loc fp : Text} {pm : PathM} (h : evalMatcher m loc fp = .ok pm) :
    ∃ b r, m.withEnv (localeEnv loc) = .ok b ∧ matchesS b fp = .ok r ∧ pm = ⟨fun _ _ => r⟩ := by
  unfold evalMatcher at h
  obtain ⟨b, hb, h⟩ := bind_ok h
  obtain ⟨r, hr, h⟩ := bind_ok h
  simp only [pure, Except.pure, Except.ok.injEq] at h
  exact ⟨b, r, hb, hr, h.symm⟩

/-! ### the l10n paths: `cache` and the covered test -/

theorem enabledFor_eq (m : PathM) (ls : Option (List Text)) (loc : Text) :
    PathEntry.enabledFor ⟨m, ls⟩ loc = enabledFor ls loc := by
  cases ls <;> rfl

theorem evalPaths_inv {loc fp : Text} : ∀ {paths : List PathEntryS} {ps : List PathEntry},
    evalPaths loc fp paths = .ok ps →
    ps.map (·.locales) = paths.map (·.locales) ∧
    ∃ l : List (PM.Matcher × BoundM),
      cachePaths loc paths = .ok (l.map (·.1)) ∧
      (ps.filter (fun p => p.enabledFor loc)).map (fun p => p.l10n.withLocale loc) = l.map (·.2) ∧
      ∀ p ∈ l, matchesS p.1 fp = .ok (p.2.matchPath fp)
  | [], ps, h => by
    simp only [evalPaths, pure, Except.pure, Except.ok.injEq] at h
    subst h
    exact ⟨rfl, [], rfl, rfl, fun p hp => by cases hp⟩
  | p :: rest, ps, h => by
    simp only [evalPaths] at h
    obtain ⟨pm, hpm, h⟩ := bind_ok h
    obtain ⟨ps', hps', h⟩ := bind_ok h
    simp only [pure, Except.pure, Except.ok.injEq] at h
    subst h
    obtain ⟨b, r, hb, hr, rfl⟩ := evalMatcher_inv hpm
    obtain ⟨hloc, l, hc, hmap, hall⟩ := evalPaths_inv hps'
    refine ⟨by simp [hloc], ?_⟩
    by_cases hen : enabledFor p.locales loc = true
    · refine ⟨(b, ⟨fun _ => r⟩) :: l, ?_, ?_, ?_⟩
      · simp only [cachePaths, hen, Bool.not_true, Bool.false_eq_true, if_false, hb, hc, bind, Except.bind,
          pure, Except.pure, List.map_cons]
      · have : PathEntry.enabledFor ⟨⟨fun _ _ => r⟩, p.locales⟩ loc = true := by
          rw [enabledFor_eq]; exact hen
        simp only [List.filter_cons, this, if_true, List.map_cons, hmap]
        rfl
      · intro q hq
        rcases List.mem_cons.mp hq with rfl | hq
        · exact hr
        · exact hall q hq
    · have hen' : enabledFor p.locales loc = false := by simpa using hen
      refine ⟨l, ?_, ?_, hall⟩
      · simp only [cachePaths, hen', Bool.not_false, if_true, hc]
      · have : PathEntry.enabledFor ⟨⟨fun _ _ => r⟩, p.locales⟩ loc = false := by
          rw [enabledFor_eq]; exact hen'
        simp only [List.filter_cons, this, Bool.false_eq_true, if_false, hmap]

theorem anyMatchS_pairs {fp : Text} : ∀ (l : List (PM.Matcher × BoundM)),
    (∀ p ∈ l, matchesS p.1 fp = .ok (p.2.matchPath fp)) →
    anyMatchS fp (l.map (·.1)) = .ok ((l.map (·.2)).any (fun p => p.matchPath fp))
  | [], _ => rfl
  | p :: rest, h => by
    have h1 := h p (by simp)
    have ih := anyMatchS_pairs rest (fun q hq => h q (by simp [hq]))
    simp only [List.map_cons, anyMatchS, h1, bind, Except.bind, List.any_cons]
    cases p.2.matchPath fp with
    | true => simp [pure, Except.pure]
    | false => simpa using ih

/-! ### the rules: `cache` and the reverse scan -/

/-- a bound `Matcher` rule and the abstract cached rule it stands for -/
def RelR (fp : Text) (a : CachedRuleS) (b : CachedRule) : Prop :=
  matchesS a.path fp = .ok (b.path.matchPath fp) ∧ a.key = b.key ∧ a.action = b.action

theorem evalRules_inv {loc fp : Text} : ∀ {rules : List RuleS} {rs : List Rule},
    evalRules loc fp rules = .ok rs →
    ∃ l : List (CachedRuleS × CachedRule),
      cacheRules loc rules = .ok (l.map (·.1)) ∧
      rs.map (fun r => (⟨r.path.withLocale loc, r.key, r.action⟩ : CachedRule)) = l.map (·.2) ∧
      ∀ p ∈ l, RelR fp p.1 p.2
  | [], rs, h => by
    simp only [evalRules, pure, Except.pure, Except.ok.injEq] at h
    subst h
    exact ⟨[], rfl, rfl, fun p hp => by cases hp⟩
  | r :: rest, rs, h => by
    simp only [evalRules] at h
    obtain ⟨pm, hpm, h⟩ := bind_ok h
    obtain ⟨rs', hrs', h⟩ := bind_ok h
    simp only [pure, Except.pure, Except.ok.injEq] at h
    subst h
    obtain ⟨b, x, hb, hx, rfl⟩ := evalMatcher_inv hpm
    obtain ⟨l, hc, hmap, hall⟩ := evalRules_inv hrs'
    refine ⟨(⟨b, r.key, r.action⟩, ⟨⟨fun _ => x⟩, r.key, r.action⟩) :: l, ?_, ?_, ?_⟩
    · simp only [cacheRules, hb, hc, bind, Except.bind, pure, Except.pure, List.map_cons]
    · simp only [List.map_cons, hmap]; rfl
    · intro q hq
      rcases List.mem_cons.mp hq with rfl | hq
      · exact ⟨hx, rfl, rfl⟩
      · exact hall q hq

theorem scanRulesS_pairs {fp : Text} (ent : Option Text) : ∀ (l : List (CachedRuleS × CachedRule)),
    (∀ p ∈ l, RelR fp p.1 p.2) →
    scanRulesS fp ent (l.map (·.1)) = .ok (scanRules fp ent (l.map (·.2)))
  | [], _ => rfl
  | p :: rest, h => by
    obtain ⟨h1, h2, h3⟩ := h p (by simp)
    have ih := scanRulesS_pairs ent rest (fun q hq => h q (by simp [hq]))
    simp only [List.map_cons, scanRulesS, scanRules, h1, bind, Except.bind, h2, h3]
    cases p.2.path.matchPath fp with
    | false => simpa using ih
    | true =>
      simp only [Bool.not_true, Bool.false_eq_true, if_false]
      by_cases hk : (p.2.key.isSome != ent.isSome) = true
      · simp only [hk, if_true]; exact ih
      · simp only [hk]
        cases hkey : p.2.key with
        | none => cases ent <;> simp [pure, Except.pure]
        | some k =>
          cases ent with
          | none => simp [pure, Except.pure]
          | some e =>
            simp only
            cases k.matches e with
            | true => simp [pure, Except.pure]
            | false => simpa using ih

/-! ### the own step of `_filter` -/

theorem ownStepS_eq {paths : List PathEntryS} {rules : List RuleS} {ps : List PathEntry} {rs : List Rule}
    (file : File) (ent : Option Text) (acts : List (Option Action))
    (hp : evalPaths file.locale file.fullpath paths = .ok ps)
    (hr : evalRules file.locale file.fullpath rules = .ok rs) :
    ownStepS paths rules file ent acts = .ok
      (pick (if (buildCache ps rs file.locale).l10nPaths.any (fun p => p.matchPath file.fullpath) then
          acts ++ [some (scanRules file.fullpath ent (buildCache ps rs file.locale).rules.reverse)]
        else acts)) := by
  obtain ⟨_, lp, hcp, hmp, hallp⟩ := evalPaths_inv hp
  obtain ⟨lr, hcr, hmr, hallr⟩ := evalRules_inv hr
  have hany := anyMatchS_pairs lp hallp
  have hscan := scanRulesS_pairs ent lr.reverse (fun p hp => hallr p (List.mem_reverse.mp hp))
  simp only [List.map_reverse] at hscan
  simp only [ownStepS, cacheS, hcp, hcr, bind, Except.bind, pure, Except.pure, hany, buildCache, hmp, hmr]
  cases (lp.map (·.2)).any (fun p => p.matchPath file.fullpath) with
  | false => simp
  | true => simp [hscan]

/-! ### `all_locales` -/

theorem ownLocalesS_eq {loc fp : Text} {locales : Option (List Text)} {paths : List PathEntryS} {ps : List PathEntry}
    (hp : evalPaths loc fp paths = .ok ps) : ownLocalesS locales paths = ownLocales locales ps := by
  obtain ⟨hloc, _⟩ := evalPaths_inv hp
  unfold ownLocalesS ownLocales
  congr 1
  have h1 : paths.flatMap (fun p => optLocales p.locales) = (paths.map (·.locales)).flatMap optLocales := by
    rw [List.flatMap_map]
  have h2 : ps.flatMap (fun p => optLocales p.locales) = (ps.map (·.locales)).flatMap optLocales := by
    rw [List.flatMap_map]
  rw [h1, h2, hloc]

theorem evalS_inv {locales : Option (List Text)} {paths : List PathEntryS} {rules : List RuleS}
    {children excludes : List ConfigS} {loc fp : Text} {c : Config}
    (h : evalS (.mk locales paths rules children excludes) loc fp = .ok c) :
    ∃ ps rs cs es, evalPaths loc fp paths = .ok ps ∧ evalRules loc fp rules = .ok rs ∧
      evalListS children loc fp = .ok cs ∧ evalListS excludes loc fp = .ok es ∧
      c = .mk locales ps rs cs es := by
  rw [evalS] at h
  obtain ⟨ps, hps, h⟩ := bind_ok h
  obtain ⟨rs, hrs, h⟩ := bind_ok h
  obtain ⟨cs, hcs, h⟩ := bind_ok h
  obtain ⟨es, hes, h⟩ := bind_ok h
  simp only [pure, Except.pure, Except.ok.injEq] at h
  exact ⟨ps, rs, cs, es, hps, hrs, hcs, hes, h.symm⟩

theorem evalListS_cons_inv {s : ConfigS} {ss : List ConfigS} {loc fp : Text} {cs : List Config}
    (h : evalListS (s :: ss) loc fp = .ok cs) :
    ∃ c cs', evalS s loc fp = .ok c ∧ evalListS ss loc fp = .ok cs' ∧ cs = c :: cs' := by
  rw [evalListS] at h
  obtain ⟨c, hc, h⟩ := bind_ok h
  obtain ⟨cs', hcs', h⟩ := bind_ok h
  simp only [pure, Except.pure, Except.ok.injEq] at h
  exact ⟨c, cs', hc, hcs', h.symm⟩

theorem evalListS_nil_inv {loc fp : Text} {cs : List Config} (h : evalListS [] loc fp = .ok cs) : cs = [] := by
  rw [evalListS] at h
  simp only [pure, Except.pure, Except.ok.injEq] at h
  exact h.symm

mutual
theorem allLocalesS_eq : ∀ (s : ConfigS) (loc fp : Text) (c : Config), evalS s loc fp = .ok c →
    allLocalesS s = allLocales c
  | .mk locales paths rules children excludes, loc, fp, c, h => by
    obtain ⟨ps, rs, cs, es, hps, _, hcs, _, rfl⟩ := evalS_inv h
    rw [allLocalesS, allLocales, ownLocalesS_eq hps, allLocalesListS_eq children loc fp cs hcs]
theorem allLocalesListS_eq : ∀ (ss : List ConfigS) (loc fp : Text) (cs : List Config),
    evalListS ss loc fp = .ok cs → allLocalesListS ss = allLocalesList cs
  | [], loc, fp, cs, h => by
    rw [evalListS_nil_inv h]; rfl
  | s :: ss, loc, fp, cs, h => by
    obtain ⟨c, cs', hc, hcs', rfl⟩ := evalListS_cons_inv h
    rw [allLocalesListS, allLocalesList, allLocalesS_eq s loc fp c hc, allLocalesListS_eq ss loc fp cs' hcs']
end

/-! ### the recursion -/

mutual
theorem filterInnerS_eq : ∀ (s : ConfigS) (file : File) (ent : Option Text) (c : Config),
    evalS s file.locale file.fullpath = .ok c → filterInnerS s file ent = .ok (filterInner c file ent)
  | .mk locales paths rules children excludes, file, ent, c, h => by
    obtain ⟨ps, rs, cs, es, hps, hrs, hcs, hes, rfl⟩ := evalS_inv h
    have h1 := anyExcludeErrorS_eq excludes file es hes
    have h2 := childActionsS_eq children file ent cs hcs
    rw [filterInnerS, filterInner]
    simp only [h1, h2, bind, Except.bind]
    cases anyExcludeError es file with
    | true => simp [pure, Except.pure]
    | false =>
      simp only [Bool.false_eq_true, if_false]
      by_cases herr : (childActions cs file ent).contains (some Action.error) = true
      · simp only [herr, if_true, pure, Except.pure]
      · simp only [herr]
        exact ownStepS_eq file ent _ hps hrs
theorem childActionsS_eq : ∀ (ss : List ConfigS) (file : File) (ent : Option Text) (cs : List Config),
    evalListS ss file.locale file.fullpath = .ok cs → childActionsS ss file ent = .ok (childActions cs file ent)
  | [], file, ent, cs, h => by
    rw [evalListS_nil_inv h]; rfl
  | s :: ss, file, ent, cs, h => by
    obtain ⟨c, cs', hc, hcs', rfl⟩ := evalListS_cons_inv h
    rw [childActionsS, childActions]
    simp only [filterInnerS_eq s file ent c hc, childActionsS_eq ss file ent cs' hcs', bind, Except.bind,
      pure, Except.pure]
theorem anyExcludeErrorS_eq : ∀ (ss : List ConfigS) (file : File) (cs : List Config),
    evalListS ss file.locale file.fullpath = .ok cs → anyExcludeErrorS ss file = .ok (anyExcludeError cs file)
  | [], file, cs, h => by
    rw [evalListS_nil_inv h]; rfl
  | s :: ss, file, cs, h => by
    obtain ⟨c, cs', hc, hcs', rfl⟩ := evalListS_cons_inv h
    rw [anyExcludeErrorS, anyExcludeError]
    rw [allLocalesS_eq s _ _ c hc]
    have ih := anyExcludeErrorS_eq ss file cs' hcs'
    cases hl : (allLocales c).contains file.locale with
    | false => simpa [bind, Except.bind, pure, Except.pure] using ih
    | true =>
      simp only [Bool.not_true, Bool.false_eq_true, if_false, filterInnerS_eq s file none c hc, bind, Except.bind]
      cases filterInner c file none with
      | none => simpa [pure, Except.pure] using ih
      | some a =>
        simp only [pure, Except.pure]
        cases a == Action.error with
        | true => simp
        | false => simpa using ih
end

theorem filterS_eq {s : ConfigS} {file : File} (ent : Option Text) {c : Config}
    (h : evalS s file.locale file.fullpath = .ok c) : filterS s file ent = .ok (filter c file ent) := by
  unfold filterS filter
  rw [allLocalesS_eq s _ _ c h]
  cases (allLocales c).contains file.locale with
  | false => simp [pure, Except.pure]
  | true =>
    simp only [Bool.not_true, Bool.false_eq_true, if_false, filterInnerS_eq s file ent c h, bind, Except.bind]
    cases filterInner c file ent <;> rfl

theorem filterM_eq {cfg : ConfigM} {file : File} (ent : Option Text) {c : Config}
    (h : instantiate cfg file.locale file.fullpath = .ok c) : filterM cfg file ent = .ok (filter c file ent) := by
  unfold instantiate at h
  obtain ⟨s, hs, h⟩ := bind_ok h
  unfold filterM
  rw [ok_bind hs]
  exact filterS_eq ent h

end C14M

/-
Bridge between the five-format pipeline model of C05 (CLModel/Compare/Pipeline.lean: DTD covered, external library
functions a parameter `Pipe.Ext`, checker object `Pipe.CkCtx`, entity class `Pipe.Cls`) and the properties that were
built on the four-format pipeline (C03 sessions, C10 composed world, C17 positions).

What the old API said implicitly and the dependents still rely on:

* for ini / inc / po / properties (`Pipe.plainFmt`) NO external function is consulted: `mkEnt`, `parseFile`,
  `envOf … |> compareParsed`, `compareFiles`, `compareTexts`, `lintParsed`, `lintText`, `addFile` give the same result for
  every two values of `ext` — so fixing `ext := default` in a driver operation whose wire format carries no table of
  externals (as `Ops/C05.lean` does when no table is sent) loses nothing for these formats;
* for these formats the class is `.plain` and `Pipe.resolvePos` / `Pipe.junkMessage` / `Pipe.entEquals` are the base
  `Entity` behaviour the old model hard-wired (`Pos.resolveCheckPos … .plain`, `Pos.junkMessagePositions`, key + val);
* `count_words()` of an entity built by the regex parsers (`Pipe.mkEnt`) is `Cmp.countWords` of its `val` — the new field
  `PEnt.words` exists because a Fluent entity counts words on its AST.

Helper lemmas only (core Lean).
-/
import CLModel.Compare.Pipeline
namespace PipeBridge
open Pipe

/-! ### formats -/

theorem plainFmt_iff (f : P.Fmt) : plainFmt f = true ↔ f ≠ .dtd := by cases f <;> simp [plainFmt]

theorem clsOf_plain {f : P.Fmt} (h : f ≠ .dtd) : clsOf f = .plain := by
  cases f <;> first | rfl | exact absurd rfl h

theorem checkerOf_plain {f : P.Fmt} (h : f ≠ .dtd) : checkerOf f = .base ∨ checkerOf f = .properties := by
  cases f <;> first | exact Or.inl rfl | exact Or.inr rfl | exact absurd rfl h

/-! ### parse: no external function outside DTD -/

/-- `Entity.val` is the value of the view (the old `v.val`) outside DTD -/
theorem entVal_plain (ext : Ext) {f : P.Fmt} (h : f ≠ .dtd) (v : P.EntView) : entVal ext f v = v.val := by
  cases f <;> first | rfl | exact absurd rfl h

theorem mkEnt_ext_irrel (ext ext' : Ext) {f : P.Fmt} (h : f ≠ .dtd) (s : Array Nat) (he : Hist.Ent) :
    mkEnt ext f s he = mkEnt ext' f s he := by
  unfold mkEnt
  simp only [entVal_plain ext h, entVal_plain ext' h]

theorem parseFile_ext_irrel (ext ext' : Ext) {f : P.Fmt} (h : f ≠ .dtd) (s : Array Nat) (junkid : Nat) :
    parseFile ext f s junkid = parseFile ext' f s junkid := by
  unfold parseFile
  have : mkEnt ext f s = mkEnt ext' f s := funext (mkEnt_ext_irrel ext ext' h s)
  rw [this]

/-- `count_words()` of what the regex parsers build: the words of the VALUE (every format, every `ext`); a Junk has the
    default 0 (`compare` / `add` never count a Junk) -/
theorem mkEnt_words (ext : Ext) (f : P.Fmt) (s : Array Nat) (he : Hist.Ent) (e : PEnt) (h : mkEnt ext f s he = .ok e) :
    (e.junk = false → e.words = Cmp.countWords e.val) ∧ (e.junk = true → e.words = 0) := by
  unfold mkEnt at h
  cases hj : he.jid with
  | some id =>
    simp only [hj] at h
    cases h
    simp [mkJunk]
  | none =>
    simp only [hj] at h
    split at h
    · cases h
    · split at h
      · cases h
      · cases h
        simp

theorem mapE_mem_src {α β : Type} {g : α → Except PyErr β} : ∀ {l : List α} {ys : List β}, mapE g l = .ok ys →
    ∀ y ∈ ys, ∃ x ∈ l, g x = .ok y
  | [], ys, h => by
    simp only [mapE, Except.ok.injEq] at h
    subst h
    intro y hy; cases hy
  | x :: xs, ys, h => by
    simp only [mapE] at h
    split at h
    · cases h
    · rename_i y hy
      split at h
      · cases h
      · rename_i ys' hys
        cases h
        intro z hz
        rcases List.mem_cons.1 hz with rfl | hz
        · exact ⟨x, by simp, hy⟩
        · obtain ⟨x', hx', hg⟩ := mapE_mem_src hys z hz
          exact ⟨x', by simp [hx'], hg⟩

/-- every entity `parseFile` returns counts the words of its value -/
theorem parseFile_words (ext : Ext) (f : P.Fmt) (s : Array Nat) (junkid : Nat) (ents : List PEnt) (n : Nat)
    (h : parseFile ext f s junkid = .ok (ents, n)) : ∀ e ∈ ents, e.junk = false → e.words = Cmp.countWords e.val := by
  unfold parseFile at h
  split at h
  · cases h
  · simp only at h
    split at h
    · cases h
    · rename_i ents' hm
      cases h
      intro e he hj
      obtain ⟨x, _, hx⟩ := mapE_mem_src hm e he
      exact (mkEnt_words ext f s x e hx).1 hj

/-! ### the base `Entity` class: what `Cls.plain` unfolds to -/

theorem resolvePos_plain (s : Array Nat) (e : PEnt) (p : Pos.CheckPos) :
    resolvePos s .plain e p = Pos.resolveCheckPos s .plain e.entry p := rfl

theorem junkMessage_plain (s : Array Nat) (j : PEnt) :
    junkMessage s .plain j =
      (match Pos.junkMessagePositions s j.entry with
       | none => .error .indexError
       | some (l1, c1, l2, c2) =>
         .ok (Lint.interleave Gen.Tables.junkMessageParts
           [j.val, Lint.showInt l1, Lint.showInt c1, Lint.showInt l2, Lint.showInt c2])) := rfl

/-- `Entry.equals`: key and val — for every class but Fluent's -/
theorem entEquals_of_ne_fluent {cls : Cls} (h : cls ≠ .fluent) (a b : PEnt) :
    entEquals cls a b = .ok (a.key == b.key && a.val == b.val) := by
  cases cls <;> first | rfl | exact absurd rfl h

theorem spanOf_plain (e : PEnt) : spanOf .plain e = some (e.entry.s, e.entry.e) := rfl

/-! ### the checkers of the four formats read neither the XML parser nor the reference values -/

theorem runChecker_irrel (c c' : CkCtx) (hk : c.kind = c'.kind) (hl : c.locale = c'.locale)
    (hb : c.kind = .base ∨ c.kind = .properties) (r l : PEnt) : runChecker c r l = runChecker c' r l := by
  unfold runChecker
  rcases hb with hb | hb
  · rw [← hk, hb]
  · rw [← hk, hb]; simp only [hl]

/-- two environments that differ in the part of the checker object only `DTDChecker` reads -/
structure EnvSim (a b : Env) : Prop where
  caps : a.caps = b.caps
  cls : a.cls = b.cls
  kind : a.ck.kind = b.ck.kind
  locale : a.ck.locale = b.ck.locale
  plain : a.ck.kind = .base ∨ a.ck.kind = .properties
  file : a.file = b.file
  mergeOn : a.mergeOn = b.mergeOn
  l10nText : a.l10nText = b.l10nText

theorem notify_sim {a b : Env} (h : EnvSim a b) : notify a = notify b := by
  funext obs cat d
  simp only [notify, h.file]

theorem checkLoop_sim {a b : Env} (h : EnvSim a b) (r l : PEnt) :
    ∀ (cs : List CheckRes) (st : ObsM.ObsList × List PEnt), checkLoop a r l cs st = checkLoop b r l cs st
  | [], st => by simp only [checkLoop]
  | c :: cs, (obs, skips) => by
    simp only [checkLoop, h.l10nText, h.cls, h.mergeOn, notify_sim h]
    split
    · rfl
    · split
      · rfl
      · exact checkLoop_sim h r l cs _

theorem step_sim {a b : Env} (h : EnvSim a b) (ref l10n : List PEnt) : step a ref l10n = step b ref l10n := by
  funext st p
  have hck : ∀ r l, runChecker a.ck r l = runChecker b.ck r l :=
    fun r l => runChecker_irrel a.ck b.ck h.kind h.locale h.plain r l
  have hcl : ∀ r l cs st, checkLoop a r l cs st = checkLoop b r l cs st := fun r l => checkLoop_sim h r l
  unfold step
  simp only [notify_sim h, h.l10nText, h.cls, h.mergeOn, hck, hcl]

theorem notifyDups_sim {a b : Env} (h : EnvSim a b) (cat : ObsM.Cat) :
    ∀ (l : List (Cmp.Key × Nat)) (obs : ObsM.ObsList), notifyDups a cat l obs = notifyDups b cat l obs
  | [], obs => by simp only [notifyDups]
  | (k, n) :: rest, obs => by
    simp only [notifyDups, notify_sim h]
    split
    · rfl
    · exact notifyDups_sim h cat rest _

theorem doMerge_sim {a b : Env} (h : EnvSim a b) (ref : List PEnt) (ms : List Cmp.Key) (sk : List PEnt) :
    doMerge a ref ms sk = doMerge b ref ms sk := by
  unfold doMerge
  simp only [h.mergeOn, h.cls, h.caps, h.l10nText]

theorem compareParsed_sim {a b : Env} (h : EnvSim a b) (ref l10n : List PEnt) (obs0 : ObsM.ObsList) :
    compareParsed a ref l10n obs0 = compareParsed b ref l10n obs0 := by
  unfold compareParsed
  simp only [notifyDups_sim h, step_sim h, doMerge_sim h, h.file]

theorem envOf_sim (ext ext' : Ext) {fmt : P.Fmt} (hf : fmt ≠ .dtd) (file : ObsM.File) (mergeOn : Bool) (ref : List PEnt)
    (l10nText : Array Nat) : EnvSim (envOf ext fmt file mergeOn ref l10nText) (envOf ext' fmt file mergeOn ref l10nText) :=
  { caps := rfl, cls := rfl, kind := rfl, locale := rfl, plain := checkerOf_plain hf, file := rfl, mergeOn := rfl,
    l10nText := rfl }

/-- the environment of `compare` for a plain format is the one the four-format model built: class `.plain`, the checker
    of the format with `locale = file.locale`; what else the checker object holds is never read -/
theorem envOf_plain (ext : Ext) {fmt : P.Fmt} (hf : fmt ≠ .dtd) (file : ObsM.File) (mergeOn : Bool) (ref : List PEnt)
    (l10nText : Array Nat) :
    EnvSim (envOf ext fmt file mergeOn ref l10nText)
      { caps := capsOf fmt, cls := .plain, ck := { kind := checkerOf fmt, locale := file.locale }, file := file,
        mergeOn := mergeOn, l10nText := l10nText } :=
  { caps := rfl, cls := clsOf_plain hf, kind := rfl, locale := rfl, plain := checkerOf_plain hf, file := rfl,
    mergeOn := rfl, l10nText := rfl }

/-! ### whole pipelines: `ext` is not consulted for ini / inc / po / properties -/

theorem compareFiles_ext_irrel (ext ext' : Ext) {fmt : P.Fmt} (hf : fmt ≠ .dtd) (file : ObsM.File) (obs0 : ObsM.ObsList)
    (refText l10nText : Array Nat) (mergeOn : Bool) :
    compareFiles ext fmt file obs0 refText l10nText mergeOn = compareFiles ext' fmt file obs0 refText l10nText mergeOn := by
  unfold compareFiles
  rw [parseFile_ext_irrel ext ext' hf refText 0]
  split
  · rfl
  · rename_i ref n1 _
    rw [parseFile_ext_irrel ext ext' hf l10nText n1]
    split
    · rfl
    · rw [compareParsed_sim (envOf_sim ext ext' hf file mergeOn ref l10nText)]

theorem compareTexts_ext_irrel (ext ext' : Ext) {fmt : P.Fmt} (hf : fmt ≠ .dtd) (refText l10nText : Array Nat)
    (mergeOn : Bool) : compareTexts ext fmt refText l10nText mergeOn = compareTexts ext' fmt refText l10nText mergeOn :=
  compareFiles_ext_irrel ext ext' hf _ _ _ _ _

theorem addFile_ext_irrel (ext ext' : Ext) {fmt : P.Fmt} (hf : fmt ≠ .dtd) (file : ObsM.File) (obs0 : ObsM.ObsList)
    (refText : Array Nat) (mergeOn : Bool) :
    addFile ext fmt file obs0 refText mergeOn = addFile ext' fmt file obs0 refText mergeOn := by
  unfold addFile
  rw [parseFile_ext_irrel ext ext' hf refText 0]

theorem toLintEnt_irrel (c c' : CkCtx) (hk : c.kind = c'.kind) (hl : c.locale = c'.locale)
    (hb : c.kind = .base ∨ c.kind = .properties) (cls : Cls) (vals : List Text) :
    toLintEnt c cls vals = toLintEnt c' cls vals := by
  funext e
  unfold toLintEnt
  rw [runChecker_irrel c c' hk hl hb e e]

theorem lintParsed_ext_irrel (ext ext' : Ext) (path : Text) (kind : CheckerKind) (hb : kind = .base ∨ kind = .properties)
    (cls : Cls) (reference : Option (List PEnt)) (curText : Array Nat) (cur : List PEnt) :
    lintParsed ext path kind cls reference curText cur = lintParsed ext' path kind cls reference curText cur := by
  unfold lintParsed
  simp only
  rw [toLintEnt_irrel { kind := kind, locale := some referenceLocale, xml := ext.xml, refVals := cur.map (·.raw) }
    { kind := kind, locale := some referenceLocale, xml := ext'.xml, refVals := cur.map (·.raw) } rfl rfl hb]

theorem lintText_ext_irrel (ext ext' : Ext) {fmt : P.Fmt} (hf : fmt ≠ .dtd) (refText : Option (Array Nat))
    (curText : Array Nat) : lintText ext fmt refText curText = lintText ext' fmt refText curText := by
  unfold lintText
  cases refText with
  | none =>
    simp only
    rw [parseFile_ext_irrel ext ext' hf curText 0]
    split
    · rfl
    · exact lintParsed_ext_irrel ext ext' _ _ (checkerOf_plain hf) _ _ _ _
  | some t =>
    simp only
    rw [parseFile_ext_irrel ext ext' hf t 0]
    split
    · rfl
    · rename_i ref n1 _
      rw [parseFile_ext_irrel ext ext' hf curText n1]
      split
      · rfl
      · exact lintParsed_ext_irrel ext ext' _ _ (checkerOf_plain hf) _ _ _ _

end PipeBridge

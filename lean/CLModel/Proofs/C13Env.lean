/-
C13 helper lemmas: `dict.update` on the association-list model (TOMLParser.processEnv).
-/
import CLModel.Paths.ProjectFiles
namespace PF

theorem dictGet_set (d : List (Nat × Nat)) (k' v k : Nat) :
    dictGet (dictSet d k' v) k = if k' = k then some v else dictGet d k := by
  unfold dictSet
  by_cases hany : (d.any (·.1 == k')) = true
  · rw [if_pos hany]
    have hf : ((fun (x : Nat × Nat) => x.1 == k) ∘ fun (p : Nat × Nat) => if (p.1 == k') = true then (k', v) else p)
        = fun x => x.1 == k := by
      funext p
      simp only [Function.comp]
      split
      · rename_i h; simp only [beq_iff_eq] at h; simp [h]
      · rfl
    unfold dictGet
    rw [List.find?_map, hf]
    by_cases hk : k' = k
    · subst hk
      rw [if_pos rfl]
      obtain ⟨x, hx, hxk⟩ := List.any_eq_true.1 hany
      cases hfind : d.find? (fun x => x.1 == k') with
      | none => exact absurd hxk (List.find?_eq_none.1 hfind x hx)
      | some y =>
        have := List.find?_some hfind
        simp only [beq_iff_eq] at this
        simp [this]
    · rw [if_neg hk]
      cases hfind : d.find? (fun x => x.1 == k) with
      | none => simp
      | some y =>
        have := List.find?_some hfind
        simp only [beq_iff_eq] at this
        have hne : ¬ y.1 = k' := by
          intro e; exact hk (e ▸ this)
        simp [hne]
  · rw [if_neg hany]
    unfold dictGet
    rw [List.find?_append]
    by_cases hk : k' = k
    · subst hk
      have : d.find? (fun p => p.1 == k') = none := by
        rw [List.find?_eq_none]
        intro x hx hxk
        exact hany (List.any_eq_true.2 ⟨x, hx, hxk⟩)
      simp [this]
    · have : (k' == k) = false := by simpa using hk
      simp [hk, this]

theorem dictGet_update : ∀ (o d : List (Nat × Nat)) (k : Nat),
    dictGet (dictUpdate d o) k = (dictGet o.reverse k).or (dictGet d k)
  | [], d, k => by simp [dictUpdate, dictGet]
  | x :: xs, d, k => by
    have ih := dictGet_update xs (dictSet d x.1 x.2) k
    simp only [dictUpdate, List.foldl_cons] at ih ⊢
    rw [ih, dictGet_set]
    simp only [List.reverse_cons, dictGet, List.find?_append, List.find?_cons, List.find?_nil]
    cases hf : xs.reverse.find? (fun p => p.1 == k) with
    | some y => simp
    | none =>
      by_cases hk : x.1 = k
      · simp [hk]
      · have : (x.1 == k) = false := by simpa using hk
        simp [hk, this]

end PF

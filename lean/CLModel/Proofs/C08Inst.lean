/-
C08, round 4: (1) a stable sort commutes with every filter — used to show that the order in which a Python set
iteration delivers the `Missing attribute:` errors is invisible outside that run; (2) one FluentChecker instance over a
sequence of calls; (3) `FluentEntity.equals` is reflexive.
-/
import CLModel.Proofs.C08
import CLModel.Checks.FluentExt
namespace C08I
open Ftl Gen.Tables

/-! ### stable sort and filters -/

theorem insBy_filter_comm {α : Type} (le : α → α → Bool)
    (trans : ∀ a b c, le a b = true → le b c = true → le a c = true)
    (p : α → Bool) (x : α) (l : List α) (hs : l.Pairwise (fun a b => le a b = true)) :
    (insBy le x l).filter p = if p x then insBy le x (l.filter p) else l.filter p := by
  induction l with
  | nil => by_cases hx : p x = true <;> simp [insBy, hx]
  | cons y r ih =>
    rw [List.pairwise_cons] at hs
    have ih' := ih hs.2
    simp only [insBy]
    by_cases hxy : le x y = true
    · simp only [hxy, if_true]
      by_cases hx : p x = true
      · rw [List.filter_cons_of_pos hx, if_pos hx]
        -- every element of the filtered tail is above x
        have hall : ∀ z ∈ (y :: r).filter p, le x z = true := by
          intro z hz
          have hz' := (List.mem_filter.mp hz).1
          rcases List.mem_cons.mp hz' with rfl | hz'
          · exact hxy
          · exact trans _ _ _ hxy (hs.1 z hz')
        generalize (y :: r).filter p = fl at hall ⊢
        cases fl with
        | nil => simp [insBy]
        | cons z zs =>
          have : le x z = true := hall z List.mem_cons_self
          simp [insBy, this]
      · rw [List.filter_cons_of_neg hx, if_neg hx]
    · simp only [hxy, Bool.false_eq_true, if_false]
      by_cases hy : p y = true
      · simp only [List.filter_cons, hy, if_true, ih']
        by_cases hx : p x = true
        · simp [hx, insBy, hxy]
        · simp [hx]
      · simp only [List.filter_cons, hy, Bool.false_eq_true, if_false, ih']

/-- `list.sort` is stable, so it commutes with taking any sub-selection of the elements -/
theorem sortBy_filter_comm {α : Type} (le : α → α → Bool)
    (total : ∀ a b, le a b = true ∨ le b a = true) (trans : ∀ a b c, le a b = true → le b c = true → le a c = true)
    (p : α → Bool) (l : List α) : (sortBy le l).filter p = sortBy le (l.filter p) := by
  induction l with
  | nil => rfl
  | cons x r ih =>
    simp only [sortBy]
    rw [insBy_filter_comm le trans p x _ (sortBy_pairwise le total trans r), ih]
    by_cases hx : p x = true <;> simp [hx, sortBy]

def posLe (a b : Msg) : Bool := decide (a.pos ≤ b.pos)

theorem posLe_total (a b : Msg) : posLe a b = true ∨ posLe b a = true := by
  simp only [posLe, decide_eq_true_eq]; omega

theorem posLe_trans (a b c : Msg) : posLe a b = true → posLe b c = true → posLe a c = true := by
  simp only [posLe, decide_eq_true_eq]; omega

theorem sortBy_perm_congr {α : Type} (le : α → α → Bool) (l l' : List α) (h : l.Perm l') : (sortBy le l).Perm (sortBy le l') :=
  ((sortBy_perm le l).trans h).trans (sortBy_perm le l').symm

/-- replacing a run `ms` of the unsorted message list by a permutation of it changes the sorted list only inside that run -/
theorem run_order_irrelevant (pre ms ms' post : List Msg) (h : ms.Perm ms') :
    (sortBy posLe (pre ++ ms ++ post)).Perm (sortBy posLe (pre ++ ms' ++ post)) ∧
    ∀ p : Msg → Bool, (∀ m ∈ ms, p m = false) →
      (sortBy posLe (pre ++ ms ++ post)).filter p = (sortBy posLe (pre ++ ms' ++ post)).filter p := by
  refine ⟨sortBy_perm_congr _ _ _ ((h.append_left pre).append_right post), ?_⟩
  intro p hp
  rw [sortBy_filter_comm posLe posLe_total posLe_trans, sortBy_filter_comm posLe posLe_total posLe_trans]
  have h1 : ms.filter p = [] := by
    rw [List.filter_eq_nil_iff]; intro m hm; simp [hp m hm]
  have h2 : ms'.filter p = [] := by
    rw [List.filter_eq_nil_iff]; intro m hm; simp [hp m (h.mem_iff.mpr hm)]
  simp [List.filter_append, h1, h2]

/-! ### one checker instance -/

/-- the result a FRESH checker for the same locale gives for an action (`none` for set_reference) -/
def freshResult (locale : Option Str) (a : Action) : Option (Except Unit (List Out)) := ((Checker.new locale).step a).1

def lastRef : List Action → Option (List Str) → Option (List Str)
  | [], r => r
  | .setRef keys :: rest, _ => lastRef rest (some keys)
  | .case _ _ _ _ :: rest, r => lastRef rest r

theorem run_spec (c : Checker) (acts : List Action) :
    (c.run acts).1 = acts.filterMap (freshResult c.locale) ∧
    (c.run acts).2 = { c with reference := lastRef acts c.reference } := by
  induction acts generalizing c with
  | nil => exact ⟨rfl, rfl⟩
  | cons a rest ih =>
    cases a with
    | setRef keys =>
      have := ih { c with reference := some keys }
      simp only [Checker.run, Checker.step, List.filterMap_cons, freshResult, Checker.new, lastRef]
      exact ⟨this.1, this.2⟩
    | case key all ref l10n =>
      have := ih c
      simp only [Checker.run, Checker.step, List.filterMap_cons, freshResult, Checker.new, lastRef]
      exact ⟨by rw [this.1], this.2⟩

/-! ### FluentEntity.equals is reflexive -/

theorem namedEqv_refl (l : List NamedArg) : namedEqv l l = true := by
  induction l with
  | nil => rfl
  | cons a r ih => simp [namedEqv, NamedArg.eqv, ih]

theorem vkey_eqv_refl (k : VKey) : VKey.eqv k k = true := by
  cases k <;> simp [VKey.eqv, VKey.equals]

theorem optStrEq_refl (a : Option Str) : optStrEq a a = true := by
  cases a <;> simp [optStrEq]

mutual
  theorem pattern_eqv_refl : ∀ p : Pattern, p.eqv p = true
    | .mk s els => by
      simp only [Pattern.eqv]
      exact elems_eqv_refl els
  theorem elems_eqv_refl : ∀ els : List Elem, elemsEqv els els = true
    | [] => by simp only [elemsEqv]
    | e :: r => by
      simp only [elemsEqv]
      rw [elem_eqv_refl e, elems_eqv_refl r]; rfl
  theorem elem_eqv_refl : ∀ e : Elem, e.eqv e = true
    | .text v => by simp only [Elem.eqv]; simp
    | .placeable e => by simp only [Elem.eqv]; exact expr_eqv_refl e
  theorem expr_eqv_refl : ∀ e : Expr, e.eqv e = true
    | .strLit v => by simp only [Expr.eqv]; simp
    | .numLit v => by simp only [Expr.eqv]; simp
    | .varRef v => by simp only [Expr.eqv]; simp
    | .msgRef s i a => by simp only [Expr.eqv]; simp [optStrEq_refl]
    | .termRef s i a none => by simp only [Expr.eqv, optArgsEqv]; simp [optStrEq_refl]
    | .termRef s i a (some c) => by
      simp only [Expr.eqv, optArgsEqv]
      simp [optStrEq_refl, args_eqv_refl c]
    | .funRef i c => by simp only [Expr.eqv]; simp [args_eqv_refl c]
    | .select sel vs => by
      simp only [Expr.eqv]
      rw [expr_eqv_refl sel, variants_eqv_refl vs]; rfl
    | .placeable e => by simp only [Expr.eqv]; exact expr_eqv_refl e
  theorem variants_eqv_refl : ∀ vs : List Variant, variantsEqv vs vs = true
    | [] => by simp only [variantsEqv]
    | v :: r => by
      simp only [variantsEqv]
      rw [variant_eqv_refl v, variants_eqv_refl r]; rfl
  theorem variant_eqv_refl : ∀ v : Variant, v.eqv v = true
    | .mk k p d => by
      simp only [Variant.eqv]
      simp [vkey_eqv_refl, pattern_eqv_refl p]
  theorem args_eqv_refl : ∀ c : CallArgs, c.eqv c = true
    | .mk pos named => by
      simp only [CallArgs.eqv]
      simp [exprs_eqv_refl pos, namedEqv_refl]
  theorem exprs_eqv_refl : ∀ es : List Expr, exprsEqv es es = true
    | [] => by simp only [exprsEqv]
    | e :: r => by
      simp only [exprsEqv]
      rw [expr_eqv_refl e, exprs_eqv_refl r]; rfl
end

theorem attrsEqv_refl (l : List Attribute) : attrsEqv l l = true := by
  induction l with
  | nil => rfl
  | cons a r ih => simp [attrsEqv, Attribute.eqv, pattern_eqv_refl, ih]

theorem entityEquals_refl (e : Entry) : entityEquals e e = true := by
  cases e with
  | message m => cases hv : m.value <;> simp [entityEquals, Entry.id, Entry.value, Entry.attributes, optPatternEqv, hv, pattern_eqv_refl, attrsEqv_refl]
  | term t => simp [entityEquals, Entry.id, Entry.value, optPatternEqv, pattern_eqv_refl]

end C08I

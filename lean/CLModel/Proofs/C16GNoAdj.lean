/-
C16G, part 1 (generic): after the white-space folding reduce (`merge_two.prune`, `prune_whitespace`) no two
white-space entries are adjacent.
-/
import CLModel.Proofs.C16Ser
namespace C16G
open C16L

section
variable {γ : Type}

/-- no two adjacent elements are both white space -/
def NoAdj (w : γ → Bool) (l : List γ) : Prop := ∀ a b, [a, b] <:+: l → ¬ (w a = true ∧ w b = true)

theorem infix2_cons (a b x : γ) (l : List γ) :
    [a, b] <:+: x :: l ↔ (a = x ∧ l.head? = some b) ∨ [a, b] <:+: l := by
  rw [List.infix_cons_iff]
  constructor
  · rintro (h | h)
    · left
      obtain ⟨t, ht⟩ := h
      simp only [List.cons_append, List.nil_append, List.cons.injEq] at ht
      obtain ⟨rfl, rfl⟩ := ht
      exact ⟨rfl, rfl⟩
    · exact .inr h
  · rintro (⟨rfl, h⟩ | h)
    · left
      cases l with
      | nil => simp at h
      | cons y t =>
        simp only [List.head?_cons, Option.some.injEq] at h
        subst h
        exact ⟨t, rfl⟩
    · exact .inr h

theorem noAdj_nil (w : γ → Bool) : NoAdj w [] := by
  intro a b h
  simp at h

theorem noAdj_cons (w : γ → Bool) (x : γ) (l : List γ) :
    NoAdj w (x :: l) ↔ (∀ y, l.head? = some y → ¬ (w x = true ∧ w y = true)) ∧ NoAdj w l := by
  constructor
  · intro h
    refine ⟨fun y hy => h x y ((infix2_cons _ _ _ _).2 (.inl ⟨rfl, hy⟩)), ?_⟩
    intro a b hab
    exact h a b ((infix2_cons _ _ _ _).2 (.inr hab))
  · rintro ⟨h1, h2⟩ a b hab
    rcases (infix2_cons _ _ _ _).1 hab with ⟨rfl, hb⟩ | hab
    · exact h1 b hb
    · exact h2 a b hab

theorem noAdj_reverse (w : γ → Bool) (l : List γ) (h : NoAdj w l) : NoAdj w l.reverse := by
  intro a b hab
  have : [b, a] <:+: l := by
    have := List.reverse_infix.2 hab
    simpa using this
  have := h b a this
  intro ⟨ha, hb⟩
  exact this ⟨hb, ha⟩

theorem noAdj_genStep (w : γ → Bool) (len : γ → Nat) (racc : List γ) (x : γ) (h : NoAdj w racc) :
    NoAdj w (genStep w len racc x) := by
  cases racc with
  | nil =>
    show NoAdj w [x]
    rw [noAdj_cons]
    exact ⟨by intro y hy; simp at hy, noAdj_nil w⟩
  | cons prev rest =>
    obtain ⟨hp, hr⟩ := (noAdj_cons w prev rest).1 h
    by_cases hb : (w x && w prev) = true
    · have hb' := hb
      rw [Bool.and_eq_true] at hb'
      by_cases hl : len x > len prev
      · have e : genStep w len (prev :: rest) x = x :: rest := by simp [genStep, hb'.1, hb'.2, hl]
        rw [e, noAdj_cons]
        refine ⟨?_, hr⟩
        intro y hy ⟨_, hwy⟩
        exact hp y hy ⟨hb'.2, hwy⟩
      · have e : genStep w len (prev :: rest) x = prev :: rest := by simp [genStep, hb'.1, hb'.2, hl]
        rw [e]; exact h
    · have e : genStep w len (prev :: rest) x = x :: prev :: rest := by
        simp only [genStep, hb, Bool.false_eq_true, if_false]
      rw [e, noAdj_cons]
      refine ⟨?_, h⟩
      intro y hy ⟨hx, hwy⟩
      simp only [List.head?_cons, Option.some.injEq] at hy
      subst hy
      exact hb (by simp [hx, hwy])

theorem noAdj_genFold (w : γ → Bool) (len : γ → Nat) (xs racc : List γ) (h : NoAdj w racc) :
    NoAdj w (xs.foldl (genStep w len) racc) := by
  induction xs generalizing racc with
  | nil => exact h
  | cons x xs ih => exact ih _ (noAdj_genStep w len racc x h)

end

/-- `prune_placeholders` leaves no two adjacent white-space entries (for ALL entry lists) -/
theorem noAdj_prunePlaceholders (es : List Ser.Ent) : NoAdj Ser.Ent.isWs (Ser.prunePlaceholders es) := by
  rw [prunePlaceholders_eq]
  exact noAdj_reverse _ _ (noAdj_genFold _ _ _ [] (noAdj_nil _))

theorem noAdj_serializeEnts (ref old : List Ser.Ent) (nd : Ser.NewData) :
    NoAdj Ser.Ent.isWs (Ser.serializeEnts ref old nd) := by
  rw [C16L.serializeEnts_eq]
  exact noAdj_prunePlaceholders _

end C16G

/-
Helper lemmas for C15, part 7: from the walk of a text to the entry lists (`toEnts`, `walkAll`,
`mergeTexts`).  Core Lean only.
-/
import CLModel.Proofs.C15Single
namespace Merge
open AR P

theorem toEnts_cons_ok (f : Fmt) (s : Array Nat) (v : Nat) (e : Entry) (i : Nat) (rest : List (Entry × Nat))
    (ents : List Ent) (h : toEnts f s v ((e, i) :: rest) = .ok ents) :
    ∃ x xs, toEnt f s v i e = .ok x ∧ toEnts f s v rest = .ok xs ∧ ents = x :: xs := by
  rw [toEnts] at h
  cases h1 : toEnt f s v i e with
  | error err => rw [h1] at h; simp at h
  | ok x =>
    cases h2 : toEnts f s v rest with
    | error err => rw [h1, h2] at h; simp at h
    | ok xs =>
      rw [h1, h2] at h
      simp only [Except.ok.injEq] at h
      exact ⟨x, xs, rfl, rfl, h.symm⟩

theorem toEnt_all (f : Fmt) (s : Array Nat) (v i : Nat) (e : Entry) (x : Ent) (h : toEnt f s v i e = .ok x) :
    x.all = e.all s := by
  unfold toEnt at h
  split at h
  · simp at h
  · simp only [Except.ok.injEq] at h
    rw [← h]

theorem toEnts_all (f : Fmt) (s : Array Nat) (v : Nat) (l : List (Entry × Nat)) (ents : List Ent)
    (h : toEnts f s v l = .ok ents) : ents.map (·.all) = l.map (fun p => p.1.all s) := by
  induction l generalizing ents with
  | nil =>
    rw [toEnts] at h
    simp only [Except.ok.injEq] at h
    rw [← h]; rfl
  | cons p rest ih =>
    obtain ⟨e, i⟩ := p
    obtain ⟨x, xs, h1, h2, rfl⟩ := toEnts_cons_ok f s v e i rest ents h
    rw [List.map_cons, List.map_cons, ih xs h2, toEnt_all f s v i e x h1]

/-- without Junk the entries do not depend on the version number, except for the identities -/
theorem toEnt_ver (f : Fmt) (s : Array Nat) (v v' i : Nat) (e : Entry) (x : Ent) (hj : e.kind ≠ .junk)
    (h : toEnt f s v i e = .ok x) : ∃ x', toEnt f s v' i e = .ok x' ∧ SameBut x' x := by
  have hk : ekeyOf f s v' i e = ekeyOf f s v i e := by
    unfold ekeyOf
    cases hkind : e.kind <;> simp_all
  unfold toEnt at h ⊢
  rw [hk]
  split at h
  · simp at h
  · rename_i k hk'
    simp only [Except.ok.injEq] at h
    exact ⟨_, rfl, by rw [← h]; exact ⟨rfl, rfl, rfl, rfl⟩⟩

theorem toEnts_ver (f : Fmt) (s : Array Nat) (v v' : Nat) (l : List (Entry × Nat)) (ents : List Ent)
    (hj : ∀ p ∈ l, p.1.kind ≠ .junk) (h : toEnts f s v l = .ok ents) :
    ∃ ents', toEnts f s v' l = .ok ents' ∧ All2 SameBut ents' ents := by
  induction l generalizing ents with
  | nil =>
    rw [toEnts] at h
    simp only [Except.ok.injEq] at h
    exact ⟨[], by rw [toEnts], by rw [← h]; exact .nil⟩
  | cons p rest ih =>
    obtain ⟨e, i⟩ := p
    obtain ⟨x, xs, h1, h2, rfl⟩ := toEnts_cons_ok f s v e i rest ents h
    obtain ⟨x', hx', hs⟩ := toEnt_ver f s v v' i e x (hj (e, i) (by simp)) h1
    obtain ⟨xs', hxs', hss⟩ := ih xs (fun p hp => hj p (List.mem_cons_of_mem _ hp)) h2
    refine ⟨x' :: xs', ?_, .cons hs hss⟩
    rw [toEnts, hx', hxs']

/-! ### `merge_resources` only looks at the entries up to object identity -/

theorem stampFrom_congr (v n : Nat) (es es' : List Ent) (h : All2 SameBut es es') :
    stampFrom v n es = stampFrom v n es' := by
  induction h generalizing n with
  | nil => rfl
  | @cons a b _ _ hab _ ih =>
    rw [stampFrom_cons, stampFrom_cons, ih]
    congr 1
    obtain ⟨h1, h2, h3, h4⟩ := hab
    cases a; cases b
    simp_all

theorem versionDicts_congr (rs rs' : List (List Ent)) (h : All2 (All2 SameBut) rs rs') (j : Nat) :
    (rs.zipIdx j).map (fun p => versionDict p.2 p.1) = (rs'.zipIdx j).map (fun p => versionDict p.2 p.1) := by
  induction h generalizing j with
  | nil => rfl
  | @cons a b _ _ hab _ ih =>
    rw [List.zipIdx_cons, List.zipIdx_cons, List.map_cons, List.map_cons, ih]
    congr 1
    simp only [versionDict, stamp_eq]
    rw [stampFrom_congr _ _ _ _ hab]

theorem mergeResources_congr (rs rs' : List (List Ent)) (h : All2 (All2 SameBut) rs rs') :
    mergeResources rs = mergeResources rs' := by
  rw [mergeResources_eq, mergeResources_eq, versionDicts, versionDicts, versionDicts_congr rs rs' h 0]

/-! ### `walkAll` on copies of one text -/

theorem walkAll_replicate (f : Fmt) (s : Array Nat) (es : List Entry) (ents : List Ent)
    (hw : walk f s = .done es) (he : toEnts f s 0 es.zipIdx = .ok ents) (hj : ∀ e ∈ es, e.kind ≠ .junk) :
    ∀ (m j : Nat), ∃ vs, walkAll f ((List.replicate m s).zipIdx j) = .ok vs ∧
      All2 (All2 SameBut) vs (List.replicate m ents) := by
  intro m
  induction m with
  | zero => intro j; exact ⟨[], by simp [walkAll], .nil⟩
  | succ m ih =>
    intro j
    obtain ⟨vs, hvs, hall⟩ := ih (j + 1)
    have hj' : ∀ p ∈ es.zipIdx, p.1.kind ≠ .junk := by
      intro p hp
      have : p.1 ∈ es := by
        have := List.mem_map_of_mem (f := Prod.fst) hp
        rwa [List.zipIdx_map_fst] at this
      exact hj _ this
    obtain ⟨ents', he', hs⟩ := toEnts_ver f s 0 j es.zipIdx ents hj' he
    refine ⟨ents' :: vs, ?_, ?_⟩
    · rw [List.replicate_succ, List.zipIdx_cons, walkAll, hvs]
      simp only [walkEnts, hw, he']
    · rw [List.replicate_succ]
      exact .cons hs hall

/-! ### the errors the text-level merge can end in -/

theorem ekeyOf_err (f : Fmt) (s : Array Nat) (v i : Nat) (e : Entry) (x : Err) (h : ekeyOf f s v i e = .error x) :
    x = .internal := by
  unfold ekeyOf at h
  split at h
  · simp at h
  · simp at h
  · split at h
    · split at h
      · simp at h
      · simp only [Except.error.injEq] at h; exact h.symm
    · simp at h

theorem toEnt_err (f : Fmt) (s : Array Nat) (v i : Nat) (e : Entry) (x : Err) (h : toEnt f s v i e = .error x) :
    x = .internal := by
  unfold toEnt at h
  split at h
  · rename_i y hy
    simp only [Except.error.injEq] at h
    subst h
    exact ekeyOf_err f s v i e _ hy
  · simp at h

theorem toEnts_err (f : Fmt) (s : Array Nat) (v : Nat) (l : List (Entry × Nat)) (x : Err)
    (h : toEnts f s v l = .error x) : x = .internal := by
  induction l with
  | nil => simp [toEnts] at h
  | cons p rest ih =>
    obtain ⟨e, i⟩ := p
    rw [toEnts] at h
    cases h1 : toEnt f s v i e with
    | error y =>
      rw [h1] at h
      simp only [Except.error.injEq] at h
      subst h
      exact toEnt_err f s v i e _ h1
    | ok y =>
      cases h2 : toEnts f s v rest with
      | error z =>
        rw [h1, h2] at h
        simp only [Except.error.injEq] at h
        subst h
        exact ih h2
      | ok zs => rw [h1, h2] at h; simp at h

theorem walkEnts_err (f : Fmt) (v : Nat) (s : Array Nat) (x : Err) (h : walkEnts f v s = .error x) :
    x = .internal ∨ x = .hang := by
  unfold walkEnts at h
  split at h
  · exact .inl (toEnts_err f s v _ x h)
  · simp only [Except.error.injEq] at h; exact .inr h.symm

theorem walkAll_err (f : Fmt) (l : List (Array Nat × Nat)) (x : Err) (h : walkAll f l = .error x) :
    x = .internal ∨ x = .hang := by
  induction l with
  | nil => simp [walkAll] at h
  | cons p rest ih =>
    obtain ⟨s, v⟩ := p
    rw [walkAll] at h
    cases h1 : walkEnts f v s with
    | error y =>
      rw [h1] at h
      simp only [Except.error.injEq] at h
      subst h
      exact walkEnts_err f v s _ h1
    | ok y =>
      cases h2 : walkAll f rest with
      | error z =>
        rw [h1, h2] at h
        simp only [Except.error.injEq] at h
        subst h
        exact ih h2
      | ok zs => rw [h1, h2] at h; simp at h

theorem mergeTexts_not_refused (f : Fmt) (texts : List (Array Nat)) :
    mergeTexts f texts ≠ .error .mergeNotSupported := by
  intro h
  unfold mergeTexts at h
  split at h
  · rename_i x hx
    simp only [Except.error.injEq] at h
    subst h
    rcases walkAll_err f _ _ hx with e | e <;> cases e
  · split at h
    · simp at h
    · simp at h

end Merge

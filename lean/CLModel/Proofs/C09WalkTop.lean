import CLModel.Proofs.C09WalkTotal
namespace C09P
open AndroidP

theorem documentElement?_mem {l : List DNode} {n : DNode} (h : documentElement? l = some n) :
    n ∈ l ∧ n.isElement = true := by
  induction l with
  | nil => simp [documentElement?] at h
  | cons x xs ih =>
    unfold documentElement? at h
    split at h
    · simp at h; subst h; simp_all
    · obtain ⟨h1, h2⟩ := ih h; exact ⟨by simp [h1], h2⟩

theorem printable_of_mem {l : List DNode} (hp : printableList l = true) {n : DNode} (hn : n ∈ l) :
    n.printable = true := by
  induction l with
  | nil => cases hn
  | cons x xs ih =>
    simp [printableList] at hp
    rcases List.mem_cons.mp hn with rfl | h
    · exact hp.1
    · exact ih hp.2 h

theorem entityKV_core (e : Entry) : entityKV (core e) = entityKV e := by
  cases e <;> rfl

theorem entityKV_notLoc {e : Entry} (h : isLoc e = false) : entityKV e = none := by
  cases e <;> simp [isLoc, Entry.isEntity, Entry.isJunk] at h <;> rfl

theorem filterMap_entityKV (es : List Entry) :
    es.filterMap entityKV = ((es.filter isLoc).map core).filterMap entityKV := by
  induction es with
  | nil => rfl
  | cons e es ih =>
    by_cases h : isLoc e = true
    · simp [h, entityKV_core, List.filterMap_cons, ih]
    · have h' : isLoc e = false := by simpa using h
      simp [h', List.filterMap_cons, entityKV_notLoc h', ih]

theorem entityKV_elemEntry (n : DNode) (he : n.isElement = true) :
    entityKV (elemEntry none none n) = if isStringElem n then some (nameOf n, rawOf n) else none := by
  cases n <;> simp [DNode.isElement] at he
  rename_i name attrs cs
  by_cases hs : isStringElem (.element name attrs cs) = true <;> simp [elemEntry, hs, entityKV, rawOf]

theorem filterMap_elems (cs : List DNode) :
    ((cs.filter DNode.isElement).map (elemEntry none none)).filterMap entityKV =
      (cs.filter isStringElem).map (fun n => (nameOf n, rawOf n)) := by
  induction cs with
  | nil => rfl
  | cons n cs ih =>
    by_cases he : n.isElement = true
    · by_cases hs : isStringElem n = true
      · simp [he, hs, entityKV_elemEntry n he, ih]
      · simp [he, hs, entityKV_elemEntry n he, ih]
    · have hs : isStringElem n = false := by
        cases n <;> simp [DNode.isElement, isStringElem] at he ⊢
      simp [he, hs, ih]

theorem filterLoc_wrappers (attrs : List (List Nat × List Nat)) : (attrs.map attrWrapper).filter isLoc = [] := by
  induction attrs with
  | nil => rfl
  | cons a as ih => simp [attrWrapper, isLoc, Entry.isEntity, Entry.isJunk] at ih ⊢; exact ih

theorem allText_append (a b : List Entry) : allText (a ++ b) = allText a ++ allText b := by
  simp [allText]

theorem allText_wrappers (attrs : List (List Nat × List Nat)) :
    allText (attrs.map attrWrapper) = attrs.flatMap rawAttr := by
  induction attrs with
  | nil => rfl
  | cons a as ih =>
    simp only [allText] at ih
    simp [allText, rawAttr, ih]

/-- the shape of `walk` for a parsed document whose root is `<resources>` -/
theorem walk_resources {contents : List Nat} {docChildren : List DNode} {name : List Nat}
    {attrs : List (List Nat × List Nat)} {children : List DNode} (ol : Bool)
    (hroot : documentElement? docChildren = some (.element name attrs children))
    (hname : name = Gen.TablesAndroid.resources_tag) :
    walk (some (contents, .doc docChildren)) ol =
      (walkLoop ol (children.length + 1) children).map (fun body =>
        (if ol then [] else
          [Entry.wrapper Gen.TablesAndroid.open_key Gen.TablesAndroid.open_all] ++ attrs.map attrWrapper ++
          [Entry.wrapper Gen.TablesAndroid.gt_key Gen.TablesAndroid.gt_all]) ++ body ++
        (if ol then [] else [Entry.wrapper Gen.TablesAndroid.close_key Gen.TablesAndroid.close_all])) := by
  simp [walk, hroot, hname]

end C09P

/-
Helper lemmas for C08: structure of the message list produced by the Fluent checker model.
-/
import CLModel.Proofs.C08Basic
namespace Ftl
open Gen.Tables

def AllWarn (l : List Msg) : Prop := ∀ m ∈ l, m.sev = sevWarning
def errsOf (l : List Msg) : List Msg := l.filter (fun m => m.sev == sevError)

theorem errsOf_append (a b : List Msg) : errsOf (a ++ b) = errsOf a ++ errsOf b := by
  simp [errsOf]

theorem errsOf_nil : errsOf [] = [] := rfl

theorem errsOf_of_allWarn {l : List Msg} (h : AllWarn l) : errsOf l = [] := by
  simp only [errsOf, List.filter_eq_nil_iff]
  intro m hm
  have := h m hm
  simp [this, sevWarning_ne_sevError]

theorem AllWarn.append {a b : List Msg} (ha : AllWarn a) (hb : AllWarn b) : AllWarn (a ++ b) := by
  intro m hm
  rcases List.mem_append.mp hm with h | h
  · exact ha m h
  · exact hb m h

theorem allWarn_nil : AllWarn [] := by intro m hm; simp at hm

theorem allWarn_flatMap {α : Type} (l : List α) (f : α → List Msg) (h : ∀ x ∈ l, AllWarn (f x)) :
    AllWarn (l.flatMap f) := by
  intro m hm
  rcases List.mem_flatMap.mp hm with ⟨x, hx, hmx⟩
  exact h x hx m hmx

/-! ### GenericL10nChecks only warns -/

theorem checkDuplicateAttributes_warn (attrs : List Attribute) : AllWarn (checkDuplicateAttributes attrs) := by
  intro m hm
  simp only [checkDuplicateAttributes, List.mem_map] at hm
  obtain ⟨a, _, rfl⟩ := hm
  rfl

theorem checkPlurals_warn (kp : Option (List Str)) (keys : List VKey) : AllWarn (checkPlurals kp keys) := by
  intro m hm
  unfold checkPlurals at hm
  split at hm
  · simp at hm
  · split at hm
    · simp at hm
    · simp only at hm
      split at hm
      · split at hm
        · simp at hm
        · split at hm
          · simp at hm
          · simp at hm
            subst hm
            rfl
      · simp at hm

theorem checkVariants_warn (kp : Option (List Str)) (keys : List VKey) : AllWarn (checkVariants kp keys) := by
  unfold checkVariants
  apply AllWarn.append
  · intro m hm
    simp only [List.mem_map] at hm
    obtain ⟨a, _, rfl⟩ := hm
    rfl
  · exact checkPlurals_warn kp keys

/-! ### TermVisitor -/

theorem foldl_termStep_warn (kp : Option (List Str)) (evs : List Ev) (msgs : List Msg) (h : AllWarn msgs) :
    AllWarn (evs.foldl (termStep kp) msgs) := by
  induction evs generalizing msgs with
  | nil => simpa using h
  | cons e r ih =>
    simp only [List.foldl_cons]
    apply ih
    unfold termStep
    split
    · exact h.append (checkVariants_warn kp _)
    · exact h

theorem checkTerm_warn (kp : Option (List Str)) (t : Term) : AllWarn (checkTerm kp t) := by
  unfold checkTerm
  simp only
  have h0 := foldl_termStep_warn kp (evPattern true t.value) _ (checkDuplicateAttributes_warn t.attributes)
  generalize List.foldl (termStep kp) (checkDuplicateAttributes t.attributes) (evPattern true t.value) = m0 at h0
  induction t.attributes generalizing m0 with
  | nil => simpa using h0
  | cons a r ih =>
    simp only [List.foldl_cons]
    exact ih _ (foldl_termStep_warn kp _ _ h0)

/-! ### the l10n visitor on one pattern -/

/-- what visiting one node appends to `messages` (it depends on the reference's refs of the slot only) -/
def evMsgs (kp : Option (List Str)) (rr : List Str) (e : Ev) : List Msg :=
  match e with
  | .select keys => checkVariants kp keys
  | .msgRef s _ _ =>
    match e.refKey with
    | some (r, _) => if rr.contains r then [] else [⟨sevWarning, s, fmt fluentMsg_obsolete_msg_ref [r]⟩]
    | none => []
  | .termRef s _ _ =>
    match e.refKey with
    | some (r, _) => if rr.contains r then [] else [⟨sevWarning, s, fmt fluentMsg_obsolete_term_ref [r]⟩]
    | none => []

/-- what visiting one node does to `self.refs` -/
def evRefs (refs : List Str) (e : Ev) : List Str :=
  match e.refKey with
  | some (r, _) => setAdd refs r
  | none => refs

theorem evMsgs_warn (kp : Option (List Str)) (rr : List Str) (e : Ev) : AllWarn (evMsgs kp rr e) := by
  unfold evMsgs
  split
  · exact checkVariants_warn kp _
  · split
    · split
      · exact allWarn_nil
      · intro m hm; simp at hm; subst hm; rfl
    · exact allWarn_nil
  · split
    · split
      · exact allWarn_nil
      · intro m hm; simp at hm; subst hm; rfl
    · exact allWarn_nil

theorem l10nStep_eq (kp : Option (List Str)) (rr : List Str) (acc : List Str × List Msg) (e : Ev) :
    l10nStep kp rr acc e = (evRefs acc.1 e, acc.2 ++ evMsgs kp rr e) := by
  cases e with
  | select keys => simp [l10nStep, evRefs, evMsgs, Ev.refKey]
  | msgRef s i a =>
    simp only [l10nStep, evRefs, evMsgs, Ev.refKey]
    split <;> simp <;> split <;> simp
  | termRef s i a =>
    simp only [l10nStep, evRefs, evMsgs, Ev.refKey]
    cases a <;> simp <;> split <;> simp

theorem foldl_l10nStep (kp : Option (List Str)) (rr : List Str) (evs : List Ev) (acc : List Str × List Msg) :
    evs.foldl (l10nStep kp rr) acc = (evs.foldl evRefs acc.1, acc.2 ++ evs.flatMap (evMsgs kp rr)) := by
  induction evs generalizing acc with
  | nil => simp
  | cons e r ih =>
    simp only [List.foldl_cons, List.flatMap_cons]
    rw [ih, l10nStep_eq]
    simp [List.append_assoc]

/-- the reference's recorded refs of a slot, as the l10n visitor reads them -/
def rrOf (rer : List (Slot × RefDict)) (slot : Slot) : List Str := dictKeys (ddGet rer slot)

theorem ddGet_dictSet_self {ν : Type} (d : List (Slot × List ν)) (slot slot' : Slot) :
    ddGet (dictSet d slot (ddGet d slot)) slot' = ddGet d slot' := by
  simp only [ddGet, dictGet?_dictSet]
  by_cases h : (slot == slot') = true
  · have : slot = slot' := by simpa using h
    subst this
    simp only [BEq.rfl, if_true]
  · simp [h]

theorem rrOf_dictSet_self (rer : List (Slot × RefDict)) (slot : Slot) :
    rrOf (dictSet rer slot (ddGet rer slot)) = rrOf rer := by
  funext s
  simp [rrOf, ddGet_dictSet_self]

theorem l10nVisitPattern_eq (kp : Option (List Str)) (st : L10nState) (slot : Slot) (p : Pattern) :
    l10nVisitPattern kp st slot p =
      { st with
        entryRefs := dictSet st.entryRefs slot ((evPattern false p).foldl evRefs (ddGet st.entryRefs slot)),
        messages := st.messages ++ (evPattern false p).flatMap (evMsgs kp (rrOf st.refEntryRefs slot)),
        refEntryRefs := dictSet st.refEntryRefs slot (ddGet st.refEntryRefs slot) } := by
  simp only [l10nVisitPattern, foldl_l10nStep, rrOf]

/-- the `style` part of L10nMessageVisitor.visit_Attribute: the appended messages and
    `reference.css_styles` afterwards; it depends on the attribute and `reference.css_styles` only -/
def cssCheck (rc : CssVal) (a : Attribute) : List Msg × CssVal :=
  if a.name != sStyle then ([], rc) else
  match patternVariants a.value with
  | [] => ([], rc)
  | t :: _ =>
    let lm := (parseCssSpec t).1
    let ce := (parseCssSpec t).2
    match rc with
    | .map rm => ((checkStyle rm lm ce).1, .map (checkStyle rm lm ce).2)
    | _ => ((checkStyle [] lm ce).1, rc)

theorem l10nVisitAttribute_eq (kp : Option (List Str)) (st : L10nState) (a : Attribute) :
    ∃ cs ce, l10nVisitAttribute kp st a =
      { entryRefs := dictSet st.entryRefs (some a.name)
          ((evPattern false a.value).foldl evRefs (ddGet st.entryRefs (some a.name))),
        hasValue := st.hasValue,
        attrPos := dictSet st.attrPos a.name a.start,
        css := cs, cssErrors := ce,
        refEntryRefs := dictSet st.refEntryRefs (some a.name) (ddGet st.refEntryRefs (some a.name)),
        refCss := (cssCheck st.refCss a).2,
        messages := st.messages ++ (evPattern false a.value).flatMap (evMsgs kp (rrOf st.refEntryRefs (some a.name)))
          ++ (cssCheck st.refCss a).1 } := by
  unfold l10nVisitAttribute cssCheck
  simp only [l10nVisitPattern_eq]
  by_cases hn : (a.name != sStyle) = true
  · simp only [hn, if_true]
    exact ⟨st.css, st.cssErrors, by simp⟩
  · simp only [hn, Bool.false_eq_true, if_false]
    unfold styleOf
    simp only
    cases hpv : patternVariants a.value with
    | nil => exact ⟨.skip, st.cssErrors, by simp⟩
    | cons t r =>
      simp only
      rcases hps : parseCssSpec t with ⟨lm, ce⟩
      cases lm with
      | none =>
        simp only
        cases hrc : st.refCss with
        | none => exact ⟨.none, ce, by simp⟩
        | skip => exact ⟨.none, ce, by simp⟩
        | map rm => exact ⟨.none, ce, by simp⟩
      | some m =>
        simp only
        cases hrc : st.refCss with
        | none => exact ⟨.map m, ce, by simp⟩
        | skip => exact ⟨.map m, ce, by simp⟩
        | map rm => exact ⟨.map m, ce, by simp⟩

/-! ### the l10n visitor over the attributes -/

def attrsMsgs (kp : Option (List Str)) (rr : Slot → List Str) : CssVal → List Attribute → List Msg
  | _, [] => []
  | rc, a :: r =>
    (evPattern false a.value).flatMap (evMsgs kp (rr (some a.name))) ++ (cssCheck rc a).1
      ++ attrsMsgs kp rr (cssCheck rc a).2 r

def attrsPos (d : List (Str × Nat)) (attrs : List Attribute) : List (Str × Nat) :=
  attrs.foldl (fun d a => dictSet d a.name a.start) d

def attrsRefs (er : List (Slot × List Str)) (attrs : List Attribute) : List (Slot × List Str) :=
  attrs.foldl (fun er a => dictSet er (some a.name) ((evPattern false a.value).foldl evRefs (ddGet er (some a.name)))) er

/-- slots the l10n visitor creates in the reference's defaultdict: they hold no refs -/
def touch (rer : List (Slot × RefDict)) (slots : List Slot) : List (Slot × RefDict) :=
  slots.foldl (fun d s => dictSet d s (ddGet d s)) rer

theorem rrOf_touch (rer : List (Slot × RefDict)) (slots : List Slot) : rrOf (touch rer slots) = rrOf rer := by
  induction slots generalizing rer with
  | nil => rfl
  | cons s r ih =>
    simp only [touch, List.foldl_cons] at ih ⊢
    rw [ih, rrOf_dictSet_self]

theorem foldl_l10nVisitAttribute (kp : Option (List Str)) (attrs : List Attribute) (st : L10nState) :
    (attrs.foldl (l10nVisitAttribute kp) st).messages
        = st.messages ++ attrsMsgs kp (rrOf st.refEntryRefs) st.refCss attrs ∧
    (attrs.foldl (l10nVisitAttribute kp) st).attrPos = attrsPos st.attrPos attrs ∧
    (attrs.foldl (l10nVisitAttribute kp) st).hasValue = st.hasValue ∧
    (attrs.foldl (l10nVisitAttribute kp) st).entryRefs = attrsRefs st.entryRefs attrs ∧
    (attrs.foldl (l10nVisitAttribute kp) st).refEntryRefs = touch st.refEntryRefs (attrs.map (fun a => some a.name)) := by
  induction attrs generalizing st with
  | nil => simp [attrsMsgs, attrsPos, attrsRefs, touch]
  | cons a r ih =>
    simp only [List.foldl_cons]
    obtain ⟨cs, ce, h⟩ := l10nVisitAttribute_eq kp st a
    have ih' := ih (l10nVisitAttribute kp st a)
    rw [h] at ih' ⊢
    simp only at ih'
    obtain ⟨h1, h2, h3, h4, h5⟩ := ih'
    refine ⟨?_, ?_, ?_, ?_, ?_⟩
    · rw [h1]
      simp only [attrsMsgs, rrOf_dictSet_self, List.append_assoc]
    · rw [h2]; simp [attrsPos]
    · rw [h3]
    · rw [h4]; simp [attrsRefs]
    · rw [h5]; simp [touch]

/-! ### the reference visitor: value presence and attribute positions -/

theorem foldl_refVisitAttribute (attrs : List Attribute) (st : RefState) :
    (attrs.foldl refVisitAttribute st).hasValue = st.hasValue ∧
    (attrs.foldl refVisitAttribute st).attrPos = attrsPos st.attrPos attrs := by
  induction attrs generalizing st with
  | nil => simp [attrsPos]
  | cons a r ih =>
    simp only [List.foldl_cons]
    obtain ⟨h1, h2⟩ := ih (refVisitAttribute st a)
    rw [h1, h2]
    unfold refVisitAttribute
    simp only
    split <;> simp [attrsPos]

theorem refVisit_hasValue (hv : Bool) (value : Option Pattern) (attrs : List Attribute) :
    (refVisit hv value attrs).hasValue = hv := by
  unfold refVisit
  simp only [(foldl_refVisitAttribute attrs _).1]
  cases value <;> rfl

theorem refVisit_attrPos (hv : Bool) (value : Option Pattern) (attrs : List Attribute) :
    (refVisit hv value attrs).attrPos = attrsPos [] attrs := by
  unfold refVisit
  simp only [(foldl_refVisitAttribute attrs _).2]
  cases value <;> rfl

/-! ### the message list of check_message -/

def valueErrs (refHas : Bool) (v : Option Pattern) : List Msg :=
  (match v with
    | some p => if !refHas then [⟨sevError, p.start, fmt fluentMsg_obsolete_value []⟩] else []
    | none => []) ++
  (if !v.isSome && refHas then [⟨sevError, 0, fmt fluentMsg_missing_value []⟩] else [])

def valueMsgs (kp : Option (List Str)) (rr : Slot → List Str) (v : Option Pattern) : List Msg :=
  match v with
  | some p => (evPattern false p).flatMap (evMsgs kp (rr none))
  | none => []

def missingAttrErrs (refAttrs l10nAttrs : List Str) : List Msg :=
  (refAttrs.filter (fun n => !l10nAttrs.contains n)).map (fun n => ⟨sevError, 0, fmt fluentMsg_missing_attribute [n]⟩)

def obsoleteAttrErrs (refAttrs : List Str) (l10nPos : List (Str × Nat)) : List Msg :=
  (l10nPos.filter (fun p => !refAttrs.contains p.1)).map (fun p => ⟨sevError, p.2, fmt fluentMsg_obsolete_attribute [p.1]⟩)

theorem l10nVisitMessage_messages (kp : Option (List Str)) (ref : RefState) (m : Message) :
    (l10nVisitMessage kp ref m).messages =
      checkDuplicateAttributes m.attributes
      ++ valueMsgs kp (rrOf ref.entryRefs) m.value
      ++ attrsMsgs kp (rrOf ref.entryRefs) ref.css m.attributes
      ++ valueErrs ref.hasValue m.value
      ++ missingAttrErrs (dictKeys ref.attrPos) (dictKeys (attrsPos [] m.attributes))
      ++ obsoleteAttrErrs (dictKeys ref.attrPos) (attrsPos [] m.attributes) := by
  unfold l10nVisitMessage
  cases hv : m.value with
  | none =>
    simp only [l10nInit, Option.isSome_none]
    obtain ⟨h1, h2, h3, _, _⟩ := foldl_l10nVisitAttribute kp m.attributes
      { entryRefs := [(none, [])], hasValue := false, attrPos := [], css := .none, cssErrors := none,
        refEntryRefs := ref.entryRefs, refCss := ref.css, messages := checkDuplicateAttributes m.attributes }
    simp only [h1, h2, h3]
    cases hh : ref.hasValue <;>
      simp [valueMsgs, valueErrs, missingAttrErrs, obsoleteAttrErrs, List.append_assoc]
  | some p =>
    simp only [l10nInit, Option.isSome_some, l10nVisitPattern_eq]
    obtain ⟨h1, h2, h3, _, _⟩ := foldl_l10nVisitAttribute kp m.attributes
      { entryRefs := dictSet [(none, [])] none ((evPattern false p).foldl evRefs (ddGet [(none, [])] none)),
        hasValue := true, attrPos := [], css := .none, cssErrors := none,
        refEntryRefs := dictSet ref.entryRefs none (ddGet ref.entryRefs none), refCss := ref.css,
        messages := checkDuplicateAttributes m.attributes ++ (evPattern false p).flatMap (evMsgs kp (rrOf ref.entryRefs none)) }
    simp only [h1, h2, h3, rrOf_dictSet_self]
    cases hh : ref.hasValue <;>
      simp [valueMsgs, valueErrs, missingAttrErrs, obsoleteAttrErrs, List.append_assoc]

/-! ### errors of the style check -/

/-- the error yielded by check_style -/
def cssError : Msg := ⟨sevError, 0, fmt checkStyleStr_1 []⟩

/-- `parse_css_spec` result that check_style refuses: no spec found (`None`), or syntax errors collected -/
def cssBadP : Option CssMap × Option (List CssErr) → Bool
  | (none, _) => true
  | (some [], _) => true
  | (some (_ :: _), some (_ :: _)) => true
  | _ => false

/-- the text is not a parseable CSS size spec (as parse_css_spec + check_style see it) -/
def cssBad (t : Str) : Bool := cssBadP (parseCssSpec t)

/-- a `style` attribute whose value is a single text element that is not a parseable CSS spec -/
def badStyle (a : Attribute) : Bool :=
  a.name == sStyle && (match patternVariants a.value with | t :: _ => cssBad t | [] => false)

theorem checkStyle_errs (rm : CssMap) (lm : Option CssMap) (ce : Option (List CssErr)) :
    errsOf (checkStyle rm lm ce).1 = if cssBadP (lm, ce) then [cssError] else [] := by
  have e0 : fmt checkStyleStr_0 [] = sevError := by decide
  have e3 : fmt checkStyleStr_3 [] = sevError := by decide
  have e4 : fmt checkStyleStr_4 [] = fmt checkStyleStr_1 [] := by decide
  have e9 : fmt checkStyleStr_9 [] = sevWarning := by decide
  unfold checkStyle
  split
  · simp [cssBadP, errsOf, cssError, e0]
  · simp [cssBadP, errsOf, cssError, e0]
  · rename_i lm' hne
    cases lm' with
    | nil => exact absurd rfl hne
    | cons p r =>
      cases ce with
      | none =>
        simp only [cssBadP]
        simp only [Bool.false_eq_true, if_false]
        split <;> simp [errsOf, e9, sevWarning_ne_sevError]
      | some l =>
        cases l with
        | nil =>
          simp only [cssBadP]
          simp only [Bool.false_eq_true, if_false]
          split <;> simp [errsOf, e9, sevWarning_ne_sevError]
        | cons c cs =>
          simp [cssBadP, errsOf, cssError, e3, e4]

theorem cssCheck_errs (rc : CssVal) (a : Attribute) :
    errsOf (cssCheck rc a).1 = if badStyle a then [cssError] else [] := by
  unfold cssCheck badStyle
  by_cases hn : (a.name != sStyle) = true
  · have : (a.name == sStyle) = false := by simpa using hn
    simp [hn, this, errsOf]
  · have hs : (a.name == sStyle) = true := by simpa using hn
    simp only [hn, Bool.false_eq_true, if_false, hs, Bool.true_and]
    cases patternVariants a.value with
    | nil => simp [errsOf]
    | cons t r =>
      simp only [cssBad]
      have heta : ((parseCssSpec t).fst, (parseCssSpec t).snd) = parseCssSpec t := rfl
      cases rc <;> (rw [checkStyle_errs, heta]; rfl)

theorem attrsMsgs_errs (kp : Option (List Str)) (rr : Slot → List Str) (rc : CssVal) (attrs : List Attribute) :
    errsOf (attrsMsgs kp rr rc attrs) = (attrs.filter badStyle).map (fun _ => cssError) := by
  induction attrs generalizing rc with
  | nil => simp [attrsMsgs, errsOf]
  | cons a r ih =>
    simp only [attrsMsgs, errsOf_append, ih, cssCheck_errs]
    rw [errsOf_of_allWarn (allWarn_flatMap _ _ (fun e _ => evMsgs_warn kp _ e))]
    by_cases hb : badStyle a = true <;> simp [hb]

theorem valueMsgs_warn (kp : Option (List Str)) (rr : Slot → List Str) (v : Option Pattern) :
    AllWarn (valueMsgs kp rr v) := by
  unfold valueMsgs
  split
  · exact allWarn_flatMap _ _ (fun e _ => evMsgs_warn kp _ e)
  · exact allWarn_nil

theorem errsOf_of_allErr {l : List Msg} (h : ∀ m ∈ l, m.sev = sevError) : errsOf l = l := by
  simp only [errsOf, List.filter_eq_self]
  intro m hm
  simp [h m hm]

theorem valueErrs_err (rh : Bool) (v : Option Pattern) : errsOf (valueErrs rh v) = valueErrs rh v := by
  apply errsOf_of_allErr
  intro m hm
  unfold valueErrs at hm
  cases v <;> cases rh <;> simp at hm <;> (try subst hm) <;> rfl

theorem missingAttrErrs_err (a b : List Str) : errsOf (missingAttrErrs a b) = missingAttrErrs a b := by
  apply errsOf_of_allErr
  intro m hm
  simp only [missingAttrErrs, List.mem_map] at hm
  obtain ⟨_, _, rfl⟩ := hm
  rfl

theorem obsoleteAttrErrs_err (a : List Str) (b : List (Str × Nat)) : errsOf (obsoleteAttrErrs a b) = obsoleteAttrErrs a b := by
  apply errsOf_of_allErr
  intro m hm
  simp only [obsoleteAttrErrs, List.mem_map] at hm
  obtain ⟨_, _, rfl⟩ := hm
  rfl

theorem missingRefs_warn (rer : List (Slot × RefDict)) (ler : List (Slot × List Str)) : AllWarn (missingRefs rer ler) := by
  unfold missingRefs
  apply allWarn_flatMap
  intro x _ m hm
  simp only [List.mem_map] at hm
  obtain ⟨_, _, rfl⟩ := hm
  rfl

/-- the errors of check_message, in the order in which they are appended -/
theorem checkMessage_errs (kp : Option (List Str)) (ref : Entry) (m : Message) :
    errsOf (checkMessage kp ref m) =
      (m.attributes.filter badStyle).map (fun _ => cssError)
      ++ valueErrs (refVisitEntry ref).hasValue m.value
      ++ missingAttrErrs (dictKeys (refVisitEntry ref).attrPos) (dictKeys (attrsPos [] m.attributes))
      ++ obsoleteAttrErrs (dictKeys (refVisitEntry ref).attrPos) (attrsPos [] m.attributes) := by
  unfold checkMessage
  simp only [errsOf_append, l10nVisitMessage_messages, attrsMsgs_errs, valueErrs_err, missingAttrErrs_err,
    obsoleteAttrErrs_err, errsOf_of_allWarn (missingRefs_warn _ _),
    errsOf_of_allWarn (checkDuplicateAttributes_warn _), errsOf_of_allWarn (valueMsgs_warn _ _ _)]
  simp

/-! ### attribute positions: the dict's keys are the attribute names, the value the last start -/

theorem mem_dictKeys_attrsPos (d : List (Str × Nat)) (attrs : List Attribute) (n : Str) :
    n ∈ dictKeys (attrsPos d attrs) ↔ n ∈ dictKeys d ∨ n ∈ attrs.map (·.name) := by
  induction attrs generalizing d with
  | nil => simp [attrsPos]
  | cons a r ih =>
    simp only [attrsPos, List.foldl_cons] at ih ⊢
    rw [ih, dictKeys_dictSet, mem_setAdd]
    simp only [List.map_cons, List.mem_cons]
    constructor
    · rintro ((h | h) | h)
      · exact Or.inl h
      · exact Or.inr (Or.inl h)
      · exact Or.inr (Or.inr h)
    · rintro (h | h | h)
      · exact Or.inl (Or.inl h)
      · exact Or.inl (Or.inr h)
      · exact Or.inr h

theorem nodup_dictKeys_attrsPos (d : List (Str × Nat)) (attrs : List Attribute) (h : (dictKeys d).Nodup) :
    (dictKeys (attrsPos d attrs)).Nodup := by
  induction attrs generalizing d with
  | nil => simpa [attrsPos] using h
  | cons a r ih =>
    simp only [attrsPos, List.foldl_cons] at ih ⊢
    apply ih
    rw [dictKeys_dictSet]
    exact nodup_setAdd _ _ h

/-- start of the last attribute with the given name -/
def lastStart : List Attribute → Str → Option Nat
  | [], _ => none
  | a :: r, n =>
    match lastStart r n with
    | some s => some s
    | none => if a.name == n then some a.start else none

theorem dictGet?_attrsPos (d : List (Str × Nat)) (attrs : List Attribute) (n : Str) :
    dictGet? (attrsPos d attrs) n = match lastStart attrs n with
      | some s => some s
      | none => dictGet? d n := by
  induction attrs generalizing d with
  | nil => simp [attrsPos, lastStart]
  | cons a r ih =>
    simp only [attrsPos, List.foldl_cons] at ih ⊢
    rw [ih, lastStart, dictGet?_dictSet]
    cases lastStart r n with
    | some s => simp
    | none =>
      simp only
      by_cases h : (a.name == n) = true <;> simp [h]

theorem ne_nil_iff_exists {α : Type} (l : List α) : l ≠ [] ↔ ∃ x, x ∈ l := by
  cases l <;> simp

theorem append_ne_nil {α : Type} (a b : List α) : a ++ b ≠ [] ↔ a ≠ [] ∨ b ≠ [] := by
  cases a <;> simp

theorem map_filter_ne_nil {α β : Type} (l : List α) (p : α → Bool) (f : α → β) :
    (l.filter p).map f ≠ [] ↔ ∃ x ∈ l, p x = true := by
  rw [ne_nil_iff_exists]
  constructor
  · rintro ⟨y, hy⟩
    obtain ⟨x, hx, _⟩ := List.mem_map.mp hy
    exact ⟨x, (List.mem_filter.mp hx).1, (List.mem_filter.mp hx).2⟩
  · rintro ⟨x, hx, hp⟩
    exact ⟨f x, List.mem_map.mpr ⟨x, List.mem_filter.mpr ⟨hx, hp⟩, rfl⟩⟩

theorem mem_dict_iff {κ ν : Type} [BEq κ] [LawfulBEq κ] (d : List (κ × ν)) (h : (dictKeys d).Nodup) (k : κ) (v : ν) :
    (k, v) ∈ d ↔ dictGet? d k = some v := by
  induction d with
  | nil => simp [dictGet?]
  | cons p r ih =>
    obtain ⟨k0, v0⟩ := p
    simp only [dictKeys, List.map_cons, List.nodup_cons] at h
    simp only [dictGet?, List.mem_cons, Prod.mk.injEq]
    by_cases hk : (k0 == k) = true
    · have : k0 = k := by simpa using hk
      subst this
      simp only [BEq.rfl, if_true, Option.some.injEq]
      constructor
      · rintro (hv | hm)
        · exact hv.2.symm
        · exact absurd (List.mem_map.mpr ⟨(k0, v), hm, rfl⟩) h.1
      · rintro rfl
        exact Or.inl ⟨trivial, rfl⟩
    · have hne : k0 ≠ k := by simpa using hk
      simp only [hk, Bool.false_eq_true, if_false]
      rw [← ih (by simpa [dictKeys] using h.2)]
      constructor
      · rintro (⟨rfl, _⟩ | hm)
        · exact absurd rfl hne
        · exact hm
      · exact Or.inr

/-- `∃ error` in a message list, through `errsOf` -/
theorem exists_err_iff (l : List Msg) : (∃ m ∈ l, m.sev = sevError) ↔ errsOf l ≠ [] := by
  rw [ne_nil_iff_exists]
  constructor
  · rintro ⟨m, hm, hs⟩
    exact ⟨m, List.mem_filter.mpr ⟨hm, by simp [hs]⟩⟩
  · rintro ⟨m, hm⟩
    have := List.mem_filter.mp hm
    exact ⟨m, this.1, by simpa using this.2⟩

theorem valueErrs_ne_nil (rh : Bool) (v : Option Pattern) : valueErrs rh v ≠ [] ↔ rh ≠ v.isSome := by
  unfold valueErrs
  cases v <;> cases rh <;> simp

theorem refVisitEntry_message_hasValue (ref : Message) : (refVisitEntry (.message ref)).hasValue = ref.value.isSome := by
  simp [refVisitEntry, refVisit_hasValue]

theorem refVisitEntry_message_attrPos (ref : Message) : (refVisitEntry (.message ref)).attrPos = attrsPos [] ref.attributes := by
  simp [refVisitEntry, refVisit_attrPos]

theorem refVisitEntry_term_hasValue (t : Term) : (refVisitEntry (.term t)).hasValue = false := by
  simp [refVisitEntry, refVisit_hasValue]

theorem refVisitEntry_term_attrPos (t : Term) : (refVisitEntry (.term t)).attrPos = attrsPos [] t.attributes := by
  simp [refVisitEntry, refVisit_attrPos]

theorem mem_keys_attrsPos_nil (attrs : List Attribute) (n : Str) :
    n ∈ dictKeys (attrsPos [] attrs) ↔ n ∈ attrs.map (·.name) := by
  rw [mem_dictKeys_attrsPos]; simp [dictKeys]

theorem nodup_keys_attrsPos_nil (attrs : List Attribute) : (dictKeys (attrsPos [] attrs)).Nodup :=
  nodup_dictKeys_attrsPos [] attrs (by simp [dictKeys])

/-- an error exists iff value presence differs, an attribute name is on one side only, or a bad style -/
theorem checkMessage_hasErr_iff_gen (kp : Option (List Str)) (refE : Entry) (refHas : Bool) (refAttrs : List Attribute)
    (hH : (refVisitEntry refE).hasValue = refHas) (hP : (refVisitEntry refE).attrPos = attrsPos [] refAttrs)
    (l10n : Message) :
    (∃ m ∈ checkMessage kp refE l10n, m.sev = sevError) ↔
      (refHas ≠ l10n.value.isSome
        ∨ (∃ n ∈ refAttrs.map (·.name), n ∉ l10n.attributes.map (·.name))
        ∨ (∃ n ∈ l10n.attributes.map (·.name), n ∉ refAttrs.map (·.name))
        ∨ ∃ a ∈ l10n.attributes, badStyle a = true) := by
  rw [exists_err_iff, checkMessage_errs, hH, hP]
  rw [append_ne_nil, append_ne_nil, append_ne_nil]
  have hA : (l10n.attributes.filter badStyle).map (fun _ => cssError) ≠ [] ↔ ∃ a ∈ l10n.attributes, badStyle a = true :=
    map_filter_ne_nil _ _ _
  have hB := valueErrs_ne_nil refHas l10n.value
  have hC : missingAttrErrs (dictKeys (attrsPos [] refAttrs)) (dictKeys (attrsPos [] l10n.attributes)) ≠ [] ↔
      ∃ n ∈ refAttrs.map (·.name), n ∉ l10n.attributes.map (·.name) := by
    unfold missingAttrErrs
    rw [map_filter_ne_nil]
    constructor
    · rintro ⟨n, hn, hc⟩
      refine ⟨n, (mem_keys_attrsPos_nil _ _).mp hn, ?_⟩
      intro hmem
      have := (mem_keys_attrsPos_nil l10n.attributes n).mpr hmem
      simp [this] at hc
    · rintro ⟨n, hn, hc⟩
      refine ⟨n, (mem_keys_attrsPos_nil _ _).mpr hn, ?_⟩
      have : n ∉ dictKeys (attrsPos [] l10n.attributes) := fun h => hc ((mem_keys_attrsPos_nil _ _).mp h)
      simp [this]
  have hD : obsoleteAttrErrs (dictKeys (attrsPos [] refAttrs)) (attrsPos [] l10n.attributes) ≠ [] ↔
      ∃ n ∈ l10n.attributes.map (·.name), n ∉ refAttrs.map (·.name) := by
    unfold obsoleteAttrErrs
    rw [map_filter_ne_nil]
    constructor
    · rintro ⟨p, hp, hc⟩
      have hk : p.1 ∈ dictKeys (attrsPos [] l10n.attributes) := List.mem_map.mpr ⟨p, hp, rfl⟩
      refine ⟨p.1, (mem_keys_attrsPos_nil _ _).mp hk, ?_⟩
      intro hmem
      have := (mem_keys_attrsPos_nil refAttrs p.1).mpr hmem
      simp [this] at hc
    · rintro ⟨n, hn, hc⟩
      have hk := (mem_keys_attrsPos_nil l10n.attributes n).mpr hn
      obtain ⟨p, hp, rfl⟩ := List.mem_map.mp hk
      refine ⟨p, hp, ?_⟩
      have : p.1 ∉ dictKeys (attrsPos [] refAttrs) := fun h => hc ((mem_keys_attrsPos_nil _ _).mp h)
      simp [this]
  rw [hA, hB, hC, hD]
  constructor
  · rintro (((h | h) | h) | h)
    · exact Or.inr (Or.inr (Or.inr h))
    · exact Or.inl h
    · exact Or.inr (Or.inl h)
    · exact Or.inr (Or.inr (Or.inl h))
  · rintro (h | h | h | h)
    · exact Or.inl (Or.inl (Or.inr h))
    · exact Or.inl (Or.inr h)
    · exact Or.inr h
    · exact Or.inl (Or.inl (Or.inl h))

theorem checkMessage_hasErr_iff (kp : Option (List Str)) (ref l10n : Message) :
    (∃ m ∈ checkMessage kp (.message ref) l10n, m.sev = sevError) ↔
      (ref.value.isSome ≠ l10n.value.isSome
        ∨ (∃ n ∈ ref.attributes.map (·.name), n ∉ l10n.attributes.map (·.name))
        ∨ (∃ n ∈ l10n.attributes.map (·.name), n ∉ ref.attributes.map (·.name))
        ∨ ∃ a ∈ l10n.attributes, badStyle a = true) :=
  checkMessage_hasErr_iff_gen kp _ _ _ (refVisitEntry_message_hasValue ref) (refVisitEntry_message_attrPos ref) l10n

/-! ### FluentChecker.check: the U+FFFD scan, the sort, relative positions -/

/-- a visitor message as yielded by `check` for an entry starting at `start` -/
def toOut (start : Nat) (m : Msg) : Out :=
  ⟨m.sev, if m.pos != 0 then (m.pos : Int) - (start : Int) else 0, m.text, catFluent⟩

theorem finish_eq (start : Nat) (msgs : List Msg) :
    finish start msgs = (sortBy (fun a b => decide (a.pos ≤ b.pos)) msgs).map (toOut start) := rfl

theorem finish_perm (start : Nat) (msgs : List Msg) : (finish start msgs).Perm (msgs.map (toOut start)) := by
  rw [finish_eq]
  exact (sortBy_perm _ msgs).map _

theorem checkEncoding_warn (key all : Str) : ∀ o ∈ checkEncoding key all, o.sev = sevWarning := by
  intro o ho
  simp only [checkEncoding, List.mem_map] at ho
  obtain ⟨_, _, rfl⟩ := ho
  show fmt baseCheckStr_0 [] = sevWarning
  decide

/-- the visitor messages that `check` sorts -/
def entryMsgs (kp : Option (List Str)) (ref l10n : Entry) : List Msg :=
  match l10n with
  | .message m => checkMessage kp ref m
  | .term t => checkTerm kp t

theorem checkWith_eq (kp : Option (List Str)) (key all : Str) (ref l10n : Entry) :
    checkWith kp key all ref l10n = checkEncoding key all ++ finish l10n.start (entryMsgs kp ref l10n) := by
  cases l10n <;> rfl

theorem checkWith_hasError_iff (kp : Option (List Str)) (key all : Str) (ref l10n : Entry) :
    (∃ o ∈ checkWith kp key all ref l10n, o.sev = sevError) ↔ ∃ m ∈ entryMsgs kp ref l10n, m.sev = sevError := by
  rw [checkWith_eq]
  constructor
  · rintro ⟨o, ho, hs⟩
    rcases List.mem_append.mp ho with h | h
    · have := checkEncoding_warn key all o h
      rw [this] at hs
      exact absurd hs sevWarning_ne_sevError
    · obtain ⟨m, hm, rfl⟩ := List.mem_map.mp ((finish_perm _ _).mem_iff.mp h)
      exact ⟨m, hm, hs⟩
  · rintro ⟨m, hm, hs⟩
    exact ⟨toOut l10n.start m, List.mem_append.mpr (Or.inr ((finish_perm _ _).mem_iff.mpr (List.mem_map.mpr ⟨m, hm, rfl⟩))), hs⟩

/-! ### plurals.get_plural never raises on the generated tables -/

theorem dictGet?_mem {κ ν : Type} [BEq κ] (d : List (κ × ν)) (k : κ) (v : ν) (h : dictGet? d k = some v) :
    ∃ k', (k', v) ∈ d := by
  induction d with
  | nil => simp [dictGet?] at h
  | cons p r ih =>
    obtain ⟨k0, v0⟩ := p
    simp only [dictGet?] at h
    split at h
    · cases h
      exact ⟨k0, List.mem_cons_self⟩
    · obtain ⟨k', hk⟩ := ih h
      exact ⟨k', List.mem_cons_of_mem _ hk⟩

theorem pluralIndex_valid_all :
    categoriesByLocale.all (fun e => decide (e.2 < categoriesByIndex.length)) = true := by
  set_option maxRecDepth 20000 in decide

theorem pluralIndex_valid : ∀ e ∈ categoriesByLocale, e.2 < categoriesByIndex.length := by
  intro e he
  have := List.all_eq_true.mp pluralIndex_valid_all e he
  simpa using this

theorem getPlural_ok (locale : Option Str) : ∃ kp, getPlural locale = .ok kp := by
  unfold getPlural
  cases h : getPluralRule locale with
  | none => exact ⟨none, rfl⟩
  | some i =>
    have hi : i < categoriesByIndex.length := by
      unfold getPluralRule at h
      split at h
      · cases h
      · split at h
        · rename_i l j hj
          cases h
          obtain ⟨k', hk⟩ := dictGet?_mem _ _ _ hj
          exact pluralIndex_valid _ hk
        · obtain ⟨k', hk⟩ := dictGet?_mem _ _ _ h
          exact pluralIndex_valid _ hk
    simp only
    rw [List.getElem?_eq_getElem hi]
    exact ⟨_, rfl⟩

theorem check_ok (locale : Option Str) (key all : Str) (ref l10n : Entry) :
    ∃ kp, getPlural locale = .ok kp ∧ check locale key all ref l10n = .ok (checkWith kp key all ref l10n) := by
  obtain ⟨kp, h⟩ := getPlural_ok locale
  exact ⟨kp, h, by simp [check, h]⟩

end Ftl

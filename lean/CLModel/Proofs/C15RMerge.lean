/-
C15R, part 1 (entry level): the cross-channel merge keeps the shape "every entry that is not whitespace is directly
followed by a whitespace entry" (`C16R.Alt`) — through the closed form of `AddRemove`, `prune` and the fold over the
versions — and every entry of the merge is an entry of some version.  Core Lean only.
-/
import CLModel.Proofs.C16RAlt
import CLModel.Proofs.C15Text
import CLModel.Proofs.C15Newest
namespace C15R
open AR Merge C16R

/-- the dict entry is a Whitespace object -/
def pws (p : Key × Ent) : Bool := p.2.isWs

theorem keyOK_isObj {p : Key × Ent} (h : KeyOK p) : p.1.isObj = p.2.isWs := by
  cases hw : p.2.isWs
  · exact h.2 hw
  · rw [h.1 hw]; rfl

/-! ### `prune` keeps the shape -/

theorem alt_pruneFold (cs : List (Key × Option Ent)) (acc : List (Key × Ent))
    (h : Alt pws (acc.reverse ++ somes cs)) : Alt pws ((cs.foldl prune acc).reverse) := by
  induction cs generalizing acc with
  | nil => simpa [somes] using h
  | cons c cs ih =>
    rw [List.foldl_cons]
    apply ih
    obtain ⟨k, oe⟩ := c
    have hs : somes ((k, oe) :: cs) = somes [(k, oe)] ++ somes cs := by
      simp only [somes, List.filterMap_cons, List.filterMap_nil]
      cases oe <;> simp
    rw [hs] at h
    cases oe with
    | none => simpa [prune, somes] using h
    | some e =>
      have hs1 : somes [(k, some e)] = [(k, e)] := rfl
      rw [hs1] at h
      unfold prune
      simp only
      by_cases hw : e.isWs = true
      · rw [if_pos hw]
        cases acc with
        | nil => simpa using h
        | cons p t =>
          obtain ⟨pk, prev⟩ := p
          simp only [List.head?_cons, List.tail_cons]
          have h' : Alt pws (t.reverse ++ (pk, prev) :: (k, e) :: somes cs) := by simpa using h
          by_cases hp : prev.isWs = true
          · rw [if_pos hp]
            split
            · simpa using alt_drop_first t.reverse (pk, prev) (k, e) (Key.obj e.oid.1 e.oid.2, e) (somes cs) hw h'
            · simpa using alt_drop_second t.reverse (pk, prev) (k, e) (somes cs) hp h'
          · rw [if_neg hp]
            simpa using h'
      · rw [if_neg hw]
        simpa using h

/-- `prune` never touches a first element that is not whitespace -/
theorem pruneFold_bottom (x : Key × Ent) (hx : x.2.isWs = false) (cs : List (Key × Option Ent)) :
    ∀ (acc R : List (Key × Ent)), acc.reverse = x :: R → ∃ R', (cs.foldl prune acc).reverse = x :: R' := by
  induction cs with
  | nil => intro acc R h; exact ⟨R, h⟩
  | cons c cs ih =>
    intro acc R h
    rw [List.foldl_cons]
    obtain ⟨k, oe⟩ := c
    cases oe with
    | none => exact ih _ R (by simpa [prune] using h)
    | some e =>
      unfold prune
      simp only
      by_cases hw : e.isWs = true
      · rw [if_pos hw]
        cases acc with
        | nil => simp at h
        | cons p t =>
          obtain ⟨pk, prev⟩ := p
          simp only [List.head?_cons, List.tail_cons]
          by_cases hp : prev.isWs = true
          · rw [if_pos hp]
            split
            · rw [List.reverse_cons] at h
              cases hr : t.reverse with
              | nil =>
                rw [hr] at h
                simp only [List.nil_append, List.cons.injEq] at h
                rw [← h.1] at hx
                rw [hx] at hp
                exact absurd hp (by simp)
              | cons a A =>
                rw [hr] at h
                simp only [List.cons_append, List.cons.injEq] at h
                exact ih _ (A ++ [(Key.obj e.oid.1 e.oid.2, e)]) (by rw [List.reverse_cons, hr, ← h.1]; rfl)
            · exact ih _ R h
          · rw [if_neg hp]
            exact ih _ (R ++ [(k, e)]) (by rw [List.reverse_cons, h]; rfl)
      · rw [if_neg hw]
        exact ih _ (R ++ [(k, e)]) (by rw [List.reverse_cons, h]; rfl)

/-! ### `merge_two` keeps the shape -/

theorem alt_keysOf (d : Dict) (hd : WF d) (h : Alt pws d) : Alt Key.isObj (keysOf d) := by
  unfold keysOf
  apply alt_map (w := pws) _ _ _ h
  intro p hp hw
  rw [keyOK_isObj (hd.ok p hp)]; exact hw

theorem somes_contents (n o : Dict) :
    somes (contentsOf n o)
      = (specKeys (keysOf n) (keysOf o)).filterMap (fun k => (getNewerEntity n o k).map (fun e => (k, e))) := by
  unfold somes contentsOf
  rw [List.filterMap_map]
  rfl

theorem alt_mergeTwo (n o : Dict) (hn : WF n) (ho : WF o) (hd : Disj n o) (han : Alt pws n) (hao : Alt pws o) :
    Alt pws (mergeTwo n o) := by
  rw [mergeTwo_eq n o hn ho]
  apply alt_pruneFold
  rw [List.reverse_nil, List.nil_append, somes_contents]
  apply alt_filterMap (w := Key.isObj)
  · intro k hk hobj
    rw [specKeys_mem_dict n o hn ho] at hk
    obtain ⟨e, he⟩ := getNewer_isSome n o k hk
    refine ⟨(k, e), by rw [he]; rfl, ?_⟩
    have hok : KeyOK (k, e) := by
      rcases getNewer_some_mem n o k e he with h | h
      · exact hn.ok _ h
      · exact ho.ok _ h
    show e.isWs = true
    rw [← keyOK_isObj hok]; exact hobj
  · unfold specKeys
    apply alt_spec Key.isObj _ _ _ (alt_keysOf n hn han) (alt_keysOf o ho hao)
    intro y hyo hyn
    cases hy : y.isObj
    · rfl
    · exact absurd hyo (hd y hy hyn)

/-! ### the fold over the versions -/

theorem fold_alt (ds : List Dict) (j : Nat) (acc : Dict) (hacc : WF acc) (hlt : VerLt j acc) (hs : Stamped j ds)
    (ha : Alt pws acc) (hds : ∀ d ∈ ds, Alt pws d) : Alt pws (ds.foldl mergeTwo acc) := by
  induction ds generalizing j acc with
  | nil => exact ha
  | cons d ds ih =>
    rw [List.foldl_cons]
    exact ih (j + 1) _ (mergeTwo_wf acc d hacc hs.1) (mergeTwo_verLt j acc d hacc hs.1 hlt hs.2.1) hs.2.2
      (alt_mergeTwo acc d hacc hs.1 (verDisj j acc d hacc hs.1 hlt hs.2.1) ha (hds d (by simp)))
      (fun d' hd' => hds d' (by simp [hd']))

theorem fold_mem (ds : List Dict) (j : Nat) (acc : Dict) (hacc : WF acc) (hlt : VerLt j acc) (hs : Stamped j ds) :
    ∀ p ∈ ds.foldl mergeTwo acc, p ∈ acc ∨ ∃ d ∈ ds, p ∈ d := by
  induction ds generalizing j acc with
  | nil => intro p hp; exact .inl hp
  | cons d ds ih =>
    intro p hp
    rw [List.foldl_cons] at hp
    rcases ih (j + 1) _ (mergeTwo_wf acc d hacc hs.1) (mergeTwo_verLt j acc d hacc hs.1 hlt hs.2.1) hs.2.2 p hp with h | ⟨d', hd', h⟩
    · rcases mergeTwo_mem acc d hacc hs.1 p h with h | h
      · exact .inl h
      · exact .inr ⟨d, by simp, h⟩
    · exact .inr ⟨d', by simp [hd'], h⟩

/-- The merged dict: every entry is an entry of the dict of some version; if in every version's dict each entry that is
    not whitespace is directly followed by a whitespace entry, the same holds for the merge. -/
theorem merged_alt (rs : List (List Ent)) (d : Dict) (h : mergeResources rs = some d) :
    WF d ∧ (∀ p ∈ d, ∃ dv ∈ versionDicts rs, p ∈ dv) ∧
      ((∀ dv ∈ versionDicts rs, Alt pws dv) → Alt pws d) := by
  rw [mergeResources_eq] at h
  have hst := stamped_versionDicts rs
  cases hvd : versionDicts rs with
  | nil => rw [hvd] at h; simp at h
  | cons d0 ds =>
    rw [hvd] at h hst
    simp only [Option.some.injEq] at h
    subst h
    have hlt := verEq_lt 0 d0 hst.2.1
    refine ⟨fold_wf ds 1 d0 hst.1 hlt hst.2.2, ?_, ?_⟩
    · intro p hp
      rcases fold_mem ds 1 d0 hst.1 hlt hst.2.2 p hp with h | ⟨d', hd', h⟩
      · exact ⟨d0, by simp, h⟩
      · exact ⟨d', by simp [hd'], h⟩
    · intro hall
      exact fold_alt ds 1 d0 hst.1 hlt hst.2.2 (hall d0 (by simp)) (fun d' hd' => hall d' (by simp [hd']))

/-! ### the first entry -/

/-- if the newer dict starts with an entry that is not whitespace and the older dict is empty or starts with the same
    key, the merge starts with the newer dict's first entry -/
theorem mergeTwo_head (n o : Dict) (hn : WF n) (ho : WF o) (k : Key) (S : Ent) (n' : Dict) (hne : n = (k, S) :: n')
    (hoe : ∀ x, (keysOf o).head? = some x → x = k) (hw : S.isWs = false) :
    ∃ M, mergeTwo n o = (k, S) :: M := by
  rw [mergeTwo_eq n o hn ho]
  have hkeys : keysOf n = k :: keysOf n' := by rw [hne]; rfl
  obtain ⟨K, hK⟩ : ∃ K, specKeys (keysOf n) (keysOf o) = k :: K := by
    rw [hkeys]
    apply spec_head
    intro x hx
    rw [hoe x hx]
    simp
  have hget : getNewerEntity n o k = some S := by
    rw [hne]; simp [getNewerEntity, dget]
  unfold contentsOf
  rw [hK, List.map_cons, List.foldl_cons, hget]
  have : prune [] (k, some S) = [(k, S)] := by simp [prune, hw]
  rw [this]
  exact pruneFold_bottom (k, S) hw _ [(k, S)] [] rfl

theorem fold_head (ds : List Dict) (j : Nat) (acc : Dict) (hacc : WF acc) (hlt : VerLt j acc) (hs : Stamped j ds)
    (k : Key) (S : Ent) (acc' : Dict) (hae : acc = (k, S) :: acc') (hw : S.isWs = false)
    (hds : ∀ d ∈ ds, ∀ x, (keysOf d).head? = some x → x = k) :
    ∃ M, ds.foldl mergeTwo acc = (k, S) :: M := by
  induction ds generalizing j acc acc' with
  | nil => exact ⟨acc', hae⟩
  | cons d ds ih =>
    rw [List.foldl_cons]
    obtain ⟨M, hM⟩ := mergeTwo_head acc d hacc hs.1 k S acc' hae (hds d (by simp)) hw
    exact ih (j + 1) _ (mergeTwo_wf acc d hacc hs.1) (mergeTwo_verLt j acc d hacc hs.1 hlt hs.2.1) hs.2.2 M hM
      (fun d' hd' => hds d' (by simp [hd']))

/-- the merged dict starts with the first entry of the newest version when every version's dict starts with that key -/
theorem merged_head (rs : List (List Ent)) (d : Dict) (h : mergeResources rs = some d) (k : Key) (S : Ent)
    (hw : S.isWs = false)
    (h0 : ∃ d0 ds d0', versionDicts rs = d0 :: ds ∧ d0 = (k, S) :: d0')
    (hall : ∀ dv ∈ versionDicts rs, ∀ x, (keysOf dv).head? = some x → x = k) :
    ∃ M, d = (k, S) :: M := by
  rw [mergeResources_eq] at h
  have hst := stamped_versionDicts rs
  obtain ⟨d0, ds, d0', hvd, hd0⟩ := h0
  rw [hvd] at h hst hall
  simp only [Option.some.injEq] at h
  subst h
  exact fold_head ds 1 d0 hst.1 (verEq_lt 0 d0 hst.2.1) hst.2.2 k S d0' hd0 hw
    (fun d' hd' => hall d' (by simp [hd']))

/-! ### the dict of one version -/

theorem alt_all2 {α β : Type} {R : α → β → Prop} {w : α → Bool} {w' : β → Bool} {a : List α} {b : List β}
    (h : All2 R a b) (hR : ∀ x y, R x y → w x = w' y) (hb : Alt w' b) : Alt w a := by
  induction h with
  | nil => trivial
  | @cons x y as bs hxy hrest ih =>
    obtain ⟨h1, h2⟩ := hb
    refine ⟨?_, ih h2⟩
    rcases h1 with h1 | h1
    · exact .inl (by rw [hR x y hxy]; exact h1)
    · right
      cases hrest with
      | nil => simp [hw] at h1
      | @cons x' y' _ _ hxy' _ =>
        simp only [hw] at h1 ⊢
        rw [hR x' y' hxy']; exact h1

/-- the dict of a version without repeated keys has the shape of its entry list -/
theorem alt_versionDict (i : Nat) (es : List Ent) (hk : NodupKeys es) (h : Alt Ent.isWs es) :
    Alt pws (versionDict i es) := by
  rw [versionDict_eq i es hk]
  apply alt_of_map (w' := Ent.isWs) (fun p : Key × Ent => p.2)
  rw [pairs_map_snd, stamp_eq]
  exact alt_all2 (stampFrom_same i 0 es) (fun x y hxy => sameBut_isWs x y hxy) h

/-- a keyed entry is stored under its own `entity.key` -/
theorem pairs_key_of_keyed (es : List Ent) (c : List (List Nat × Nat)) :
    ∀ p ∈ pairs es c, p.2.keyed = true → p.1 = Key.ent p.2.ekey := by
  induction es generalizing c with
  | nil => simp [pairs]
  | cons e es ih =>
    intro p hp hkeyed
    simp only [pairs, List.mem_cons] at hp
    rcases hp with rfl | hp
    · have h1 : e.kind ≠ .comment := by
        intro h; rw [getKeyValue_snd] at hkeyed; simp [Ent.keyed, h] at hkeyed
      have h2 : e.kind ≠ .whitespace := by
        intro h; rw [getKeyValue_snd] at hkeyed; simp [Ent.keyed, h] at hkeyed
      rw [getKeyValue_ent e c h1 h2]
    · exact ih _ p hp hkeyed

/-- every entry of a version's dict is (up to object identity) an entry of the version, stored under its key -/
theorem versionDict_mem_inv (i : Nat) (es : List Ent) (p : Key × Ent) (hp : p ∈ versionDict i es) :
    ∃ e ∈ es, SameBut p.2 e ∧ (e.keyed = true → p.1 = Key.ent e.ekey) := by
  have hp' := parseResource_mem _ p hp
  obtain ⟨e, he, hs⟩ := stamp_mem_inv i es p.2 (pairs_snd_mem _ _ p hp')
  refine ⟨e, he, hs, ?_⟩
  intro hkeyed
  rw [← hs.2.1]
  exact pairs_key_of_keyed _ _ p hp' (by rw [sameBut_keyed _ _ hs]; exact hkeyed)

end C15R

/- match_sound for nested environment values and repeated variables: the soundness walk (`walkX`) over arbitrary
   group bodies and back-references, and `sub` onto the same matcher (`sub_selfX`). -/
import CLModel.Proofs.C11RNest
import CLModel.Proofs.C12PrefixFull
namespace C11X
open Rx PM C11R

/-! ### group names and group indices go together, for every value -/

def HN (rec : RxRec) : Prop := ∀ v env items names, rec v env = .ok (items, names) → names.map encName = items.flatMap gidx

theorem gidx_lits (t : Text) : (t.map Re.lit).flatMap gidx = [] := flatMap_gidx_lits t

theorem names_gidx_node {rec : RxRec} (hr : HN rec) {n : Node} {env : Env} {a : List Re} {na : List Text}
    (h : rxNode rec n env = .ok (a, na)) : na.map encName = a.flatMap gidx := by
  cases n with
  | lit t =>
    simp only [rxNode, pure, Except.pure, Except.ok.injEq, Prod.mk.injEq] at h
    obtain ⟨rfl, rfl⟩ := h
    rw [gidx_lits]; rfl
  | var name rep =>
    cases rep with
    | true =>
      simp only [rxNode, if_true, pure, Except.pure, Except.ok.injEq, Prod.mk.injEq] at h
      obtain ⟨rfl, rfl⟩ := h
      simp [gidx, groups]
    | false =>
      simp only [rxNode, Bool.false_eq_true, if_false] at h
      cases hl : env.lookup name with
      | some v =>
        simp only [hl, bind, Except.bind] at h
        cases hv : rec v (derase env name) with
        | error e => simp [hv] at h
        | ok w =>
          obtain ⟨body, ns⟩ := w
          simp only [hv, pure, Except.pure, Except.ok.injEq, Prod.mk.injEq] at h
          obtain ⟨rfl, rfl⟩ := h
          simp [gidx_group, gidx_seqOf, hr _ _ _ _ hv]
      | none =>
        simp only [hl, pure, Except.pure, Except.ok.injEq, Prod.mk.injEq] at h
        obtain ⟨rfl, rfl⟩ := h
        simp [gidx, groups, Gen.Pat.matcher_frag_var]
  | android rep =>
    cases rep with
    | true =>
      simp only [rxNode, if_true, pure, Except.pure, Except.ok.injEq, Prod.mk.injEq] at h
      obtain ⟨rfl, rfl⟩ := h
      simp [gidx, groups]
    | false =>
      simp only [rxNode, Bool.false_eq_true, if_false, bind, Except.bind] at h
      cases hg : getAndroidLocale (expandVal (fuelFor env)) env with
      | error e => simp [hg] at h
      | ok o =>
        cases o with
        | some al =>
          simp only [hg, pure, Except.pure, Except.ok.injEq, Prod.mk.injEq] at h
          obtain ⟨rfl, rfl⟩ := h
          simp [gidx_group, gidx_seqOf, gidx_lits]
        | none =>
          simp only [hg, pure, Except.pure, Except.ok.injEq, Prod.mk.injEq] at h
          obtain ⟨rfl, rfl⟩ := h
          simp [gidx, groups, Gen.Pat.matcher_frag_var]
  | star k =>
    simp only [rxNode, pure, Except.pure, Except.ok.injEq, Prod.mk.injEq] at h
    obtain ⟨rfl, rfl⟩ := h
    simp [gidx, groups, Gen.Pat.matcher_frag_star]
  | starstar k sfx =>
    simp only [rxNode, pure, Except.pure, Except.ok.injEq, Prod.mk.injEq] at h
    obtain ⟨rfl, rfl⟩ := h
    have : (sfx.map Re.lit).flatMap groups = [] := by
      have := gidx_lits sfx
      unfold gidx at this
      induction sfx with
      | nil => rfl
      | cons c t ih => simp [groups]
    simp [gidx, groups, Gen.Pat.matcher_frag_starstar, groups_seqOf, this]

theorem names_gidx_children {rec : RxRec} (hr : HN rec) {env : Env} : ∀ {ns : List Node} {items names},
    rxChildren rec ns env = .ok (items, names) → names.map encName = items.flatMap gidx
  | [], items, names, h => by
    simp only [rxChildren, pure, Except.pure, Except.ok.injEq, Prod.mk.injEq] at h
    obtain ⟨rfl, rfl⟩ := h; rfl
  | c :: cs, items, names, h => by
    obtain ⟨a, na, b, nb, h1, h2, rfl, rfl⟩ := rxChildren_cons h
    simp [List.map_append, names_gidx_node hr h1, names_gidx_children hr h2]

theorem names_gidx_val : ∀ f, HN (rxVal f)
  | 0 => by
    intro v env items names h
    cases v with
    | str s =>
      simp only [rxVal, pure, Except.pure, Except.ok.injEq, Prod.mk.injEq] at h
      obtain ⟨rfl, rfl⟩ := h
      rw [gidx_lits]; rfl
    | pat p => simp [rxVal] at h
  | f + 1 => by
    intro v env items names h
    cases v with
    | str s =>
      simp only [rxVal, pure, Except.pure, Except.ok.injEq, Prod.mk.injEq] at h
      obtain ⟨rfl, rfl⟩ := h
      rw [gidx_lits]; rfl
    | pat p =>
      simp only [rxVal] at h
      obtain ⟨root, citems, _, hch, rfl⟩ := rxPat_inv h
      simp [List.flatMap_append, gidx_lits, names_gidx_children (names_gidx_val f) hch]

/-! ### the soundness walk, for nested values and repeated variables -/

/-- the part of the path a top-level node stands for, read off the final captures -/
def pieceX (s : Array Nat) (C : List (Nat × Nat × Nat)) : Node → Text
  | .lit t => t
  | .var name _ => capText s C (encName name)
  | .star k => capText s C (encName (sname k))
  | .starstar k _ => capText s C (encName (sname k))
  | .android _ => []

/-- the group the piece of a node is read from -/
def depIdx : Node → List Nat
  | .var name _ => [encName name]
  | .star k => [encName (sname k)]
  | .starstar k _ => [encName (sname k)]
  | _ => []

theorem pieceX_congr {s : Array Nat} {C C' : List (Nat × Nat × Nat)} {c : Node}
    (h : ∀ i ∈ depIdx c, capOf C i = capOf C' i) : pieceX s C c = pieceX s C' c := by
  cases c with
  | lit t => rfl
  | var name r =>
    have := h (encName name) (by simp [depIdx])
    simp only [pieceX, capText, this]
  | star k =>
    have := h (encName (sname k)) (by simp [depIdx])
    simp only [pieceX, capText, this]
  | starstar k sfx =>
    have := h (encName (sname k)) (by simp [depIdx])
    simp only [pieceX, capText, this]
  | android r => rfl

/-- no `{android_locale}` at top level -/
def NoAndroidNode : Node → Prop
  | .android _ => False
  | _ => True

/-- a node that is not a repeated variable reads its piece from a group it defines itself -/
def IsRep : Node → Prop
  | .var _ true => True
  | _ => False

theorem backref_text {s : Array Nat} {x y pos : Nat}
    (hall : ∀ j, j < y - x → s[x + j]? = s[pos + j]? ∧ pos + j < s.size) :
    TextAt s pos (slice s x y) ∧ (slice s x y).length = y - x := by
  have hx : ∀ j, j < y - x → x + j < s.size := by
    intro j hj
    obtain ⟨h1, h2⟩ := hall j hj
    have hs : s[pos + j]? = some s[pos + j] := by simp [h2]
    rw [hs] at h1
    exact getElem?_some_lt h1
  have hlen : (slice s x y).length = y - x := by
    simp only [slice, Array.length_toList, Array.size_extract]
    by_cases h0 : y - x = 0
    · omega
    · have := hx (y - x - 1) (by omega)
      omega
  refine ⟨?_, hlen⟩
  intro j hj
  rw [hlen] at hj
  rw [← (hall j hj).1]
  simp only [slice, Array.getElem?_toList, Array.getElem?_extract]
  have := hx j hj
  rw [if_pos (by omega)]

theorem stepX {s : Array Nat} {env : Env} {rec : RxRec} {c : Node} (hc : NoAndroidNode c)
    {a : List Re} {na : List Text} (hr : rxNode rec c env = .ok (a, na))
    {rest : List Re} {st st' : St} (h : SemL s (a ++ rest) st st') (hpos : st.pos ≤ s.size)
    (hnone : ∀ i ∈ a.flatMap gidx, capOf st.caps i = none) :
    (¬ IsRep c → ∀ i ∈ depIdx c, i ∈ a.flatMap gidx) ∧ (IsRep c → a.flatMap gidx = []) ∧
    ∃ m1, SemL s rest m1 st' ∧ TextAt s st.pos (pieceX s m1.caps c) ∧
      m1.pos = st.pos + (pieceX s m1.caps c).length ∧ m1.pos ≤ s.size ∧
      (∀ j, j ∉ a.flatMap gidx → capOf m1.caps j = capOf st.caps j) := by
  -- a single capturing group: the piece is the span of the group
  have hgroup : ∀ (i : Nat) (B : Re), a = [Re.group i B] → depIdx c = [i] → (∀ C, pieceX s C c = capText s C i) →
      ∃ m1, SemL s rest m1 st' ∧ TextAt s st.pos (pieceX s m1.caps c) ∧
        m1.pos = st.pos + (pieceX s m1.caps c).length ∧ m1.pos ≤ s.size ∧
        (∀ j, j ∉ a.flatMap gidx → capOf m1.caps j = capOf st.caps j) := by
    intro i B ha _ hp
    subst ha
    obtain ⟨m1, h1, h2, h3, h4, h5, _⟩ := step_group (by simpa using h) hpos
    obtain ⟨hta, hlen⟩ := textAt_slice h2 h3
    refine ⟨m1, h1, ?_, ?_, h3, ?_⟩
    · simpa [hp, capText, h4] using hta
    · simp [hp, capText, h4, hlen]; omega
    · intro j hj
      exact h5 j (by simpa using hj)
  cases c with
  | lit t =>
    simp only [rxNode, pure, Except.pure, Except.ok.injEq, Prod.mk.injEq] at hr
    obtain ⟨rfl, _⟩ := hr
    obtain ⟨h1, h2⟩ := semL_lits t h
    refine ⟨by intro _ i hi; simp [depIdx] at hi, by intro hh; exact absurd hh (by simp [IsRep]), _, h2, h1, rfl, ?_, fun j _ => rfl⟩
    by_cases ht : t.length = 0
    · simp [ht]; exact hpos
    · have hlast := h1 (t.length - 1) (by omega)
      have : t[t.length - 1]? = some t[t.length - 1] := List.getElem?_eq_getElem (by omega)
      rw [this] at hlast
      have := getElem?_some_lt hlast
      simp; omega
  | var name rep =>
    cases rep with
    | false =>
      have hB : ∃ B, a = [Re.group (encName name) B] := by
        simp only [rxNode, Bool.false_eq_true, if_false] at hr
        cases hl : env.lookup name with
        | some v =>
          simp only [hl, bind, Except.bind] at hr
          cases hv : rec v (derase env name) with
          | error e => simp [hv] at hr
          | ok w =>
            obtain ⟨body, ns⟩ := w
            simp only [hv, pure, Except.pure, Except.ok.injEq, Prod.mk.injEq] at hr
            exact ⟨_, hr.1.symm⟩
        | none =>
          simp only [hl, pure, Except.pure, Except.ok.injEq, Prod.mk.injEq] at hr
          exact ⟨_, hr.1.symm⟩
      obtain ⟨B, hB⟩ := hB
      refine ⟨?_, by intro hh; exact absurd hh (by simp [IsRep]), hgroup _ B hB rfl (fun _ => rfl)⟩
      intro _ i hi
      simp only [depIdx, List.mem_singleton] at hi
      subst hi; subst hB
      simp [gidx_group]
    | true =>
      simp only [rxNode, if_true, pure, Except.pure, Except.ok.injEq, Prod.mk.injEq] at hr
      obtain ⟨rfl, _⟩ := hr
      refine ⟨by intro hh; exact absurd trivial hh, by intro _; simp [gidx, groups], ?_⟩
      have h' : SemL s (Re.backref (encName name) :: rest) st st' := by simpa using h
      cases h' with
      | cons hx hrest =>
        cases hx with
        | @backref _ x y _ hcap hall =>
          obtain ⟨hta, hlen⟩ := backref_text hall
          refine ⟨_, hrest, ?_, ?_, ?_, fun j _ => rfl⟩
          · simpa [pieceX, capText, hcap] using hta
          · simp [pieceX, capText, hcap, hlen]
          · simp only
            by_cases h0 : y - x = 0
            · omega
            · have := (hall (y - x - 1) (by omega)).2
              omega
  | star k =>
    simp only [rxNode, pure, Except.pure, Except.ok.injEq, Prod.mk.injEq] at hr
    obtain ⟨rfl, _⟩ := hr
    refine ⟨?_, by intro hh; exact absurd hh (by simp [IsRep]), hgroup _ _ rfl rfl (fun _ => rfl)⟩
    intro _ i hi
    simp only [depIdx, List.mem_singleton] at hi
    subst hi
    simp [gidx_group]
  | starstar k sfx =>
    simp only [rxNode, pure, Except.pure, Except.ok.injEq, Prod.mk.injEq] at hr
    obtain ⟨rfl, _⟩ := hr
    have hgb : gidx (seqOf (Gen.Pat.matcher_frag_starstar :: sfx.map Re.lit)) = [] := by
      unfold gidx
      rw [groups_seqOf]
      simp only [List.flatMap_cons]
      have : groups Gen.Pat.matcher_frag_starstar = [] := by simp [groups, Gen.Pat.matcher_frag_starstar]
      rw [this]
      have := flatMap_gidx_lits sfx
      unfold gidx at this
      simpa [List.map_flatMap] using this
    have hgi : gidx (Re.alt (Re.group (encName (sname k)) (seqOf (Gen.Pat.matcher_frag_starstar :: sfx.map Re.lit))) Re.eps)
        = [encName (sname k)] := by
      rw [gidx_alt, gidx_group, hgb]; simp [gidx, groups]
    refine ⟨?_, by intro hh; exact absurd hh (by simp [IsRep]), ?_⟩
    · intro _ i hi
      simp only [depIdx, List.mem_singleton] at hi
      subst hi
      simp [hgi]
    have h' : SemL s (Re.alt (Re.group (encName (sname k)) (seqOf (Gen.Pat.matcher_frag_starstar :: sfx.map Re.lit))) Re.eps :: rest) st st' := by
      simpa using h
    cases h' with
    | cons hx hrest =>
      cases hx with
      | altL hg =>
        obtain ⟨m1, h1, h2, h3, h4, h5, _⟩ := step_group (SemL.cons hg hrest) hpos
        obtain ⟨hta, hlen⟩ := textAt_slice h2 h3
        refine ⟨m1, h1, ?_, ?_, h3, ?_⟩
        · simpa [pieceX, capText, h4] using hta
        · simp [pieceX, capText, h4, hlen]; omega
        · intro j hj
          exact h5 j (by simpa [gidx_group, hgb, hgi] using hj)
      | altR he =>
        cases he
        have hn := hnone (encName (sname k)) (by simp [hgi])
        refine ⟨st, hrest, ?_, ?_, hpos, fun j _ => rfl⟩
        · simp [pieceX, capText, hn]; intro j hj; simp at hj
        · simp [pieceX, capText, hn]
  | android r => exact absurd hc (by simp [NoAndroidNode])

/-- group index a first occurrence of a variable defines -/
def defIdx : Node → List Nat
  | .var name false => [encName name]
  | _ => []

/-- every repeated variable has an earlier first occurrence (`kn` = indices of the variables seen so far) -/
def RepX : List Nat → List Node → Prop
  | _, [] => True
  | kn, c :: r => (IsRep c → ∀ i ∈ depIdx c, i ∈ kn) ∧ RepX (defIdx c ++ kn) r

theorem walkX {s : Array Nat} {env : Env} {rec : RxRec} :
    ∀ {ns : List Node} {items : List Re} {names : List Text} {kn : List Nat}, (∀ n ∈ ns, NoAndroidNode n) → RepX kn ns →
      rxChildren rec ns env = .ok (items, names) →
      (∀ i, (items.flatMap gidx).count i ≤ 1) → (∀ i ∈ kn, i ∉ items.flatMap gidx) →
      ∀ {rest : List Re} {st st' : St}, SemL s (items ++ rest) st st' → st.pos ≤ s.size →
        (∀ i ∈ items.flatMap gidx, capOf st.caps i = none) →
        ∃ mid, SemL s rest mid st' ∧ TextAt s st.pos (ns.flatMap (pieceX s mid.caps)) ∧
          mid.pos = st.pos + (ns.flatMap (pieceX s mid.caps)).length ∧ mid.pos ≤ s.size ∧
          (∀ j, j ∉ items.flatMap gidx → capOf mid.caps j = capOf st.caps j)
  | [], items, names, kn, _, _, hr, _, _, rest, st, st', h, hpos, _ => by
    simp only [rxChildren, pure, Except.pure, Except.ok.injEq, Prod.mk.injEq] at hr
    obtain ⟨rfl, _⟩ := hr
    exact ⟨st, by simpa using h, fun j hj => by simp at hj, by simp, hpos, fun j _ => rfl⟩
  | c :: cs, items, names, kn, hs, hrep, hr, hcount, hkn, rest, st, st', h, hpos, hnone => by
    obtain ⟨a, na, b, nb, h1, h2, rfl, rfl⟩ := rxChildren_cons hr
    have hfm : (a ++ b).flatMap gidx = a.flatMap gidx ++ b.flatMap gidx := by simp
    rw [hfm] at hcount hnone hkn
    rw [List.append_assoc] at h
    obtain ⟨hown, hrepnil, m1, hm1, hta, hp1, hb1, hfr1⟩ := stepX (hs c (by simp)) h1 h hpos
      (fun i hi => hnone i (List.mem_append.mpr (Or.inl hi)))
    have hdisjab : ∀ i, i ∈ a.flatMap gidx → i ∉ b.flatMap gidx := by
      intro i hia hib
      have := hcount i
      rw [List.count_append] at this
      have h1' := List.count_pos_iff.mpr hia
      have h2' := List.count_pos_iff.mpr hib
      omega
    -- the group the head's piece is read from is not touched by the rest
    have hdep : ∀ i ∈ depIdx c, i ∉ b.flatMap gidx := by
      intro i hi hib
      by_cases hr' : IsRep c
      · exact hkn i (hrep.1 hr' i hi) (List.mem_append.mpr (Or.inr hib))
      · exact hdisjab i (hown hr' i hi) hib
    have hkn' : ∀ i ∈ defIdx c ++ kn, i ∉ b.flatMap gidx := by
      intro i hi hib
      rcases List.mem_append.mp hi with hd | hk
      · cases c with
        | var name rep =>
          cases rep with
          | false =>
            simp only [defIdx, List.mem_singleton] at hd
            subst hd
            exact hdisjab _ (hown (by simp [IsRep]) _ (by simp [depIdx])) hib
          | true => simp [defIdx] at hd
        | lit t => simp [defIdx] at hd
        | star k => simp [defIdx] at hd
        | starstar k sfx => simp [defIdx] at hd
        | android r => simp [defIdx] at hd
      · exact hkn i hk (List.mem_append.mpr (Or.inr hib))
    obtain ⟨mid, hmid, htb, hp2, hb2, hfr2⟩ := walkX (fun n hn => hs n (by simp [hn])) hrep.2 h2
      (fun i => by have := hcount i; rw [List.count_append] at this; omega) hkn' hm1 hb1
      (fun i hi => by
        rw [hfr1 i (fun hia => hdisjab i hia hi)]
        exact hnone i (List.mem_append.mpr (Or.inr hi)))
    have hpc : pieceX s mid.caps c = pieceX s m1.caps c := by
      apply pieceX_congr
      intro i hi
      exact hfr2 i (hdep i hi)
    refine ⟨mid, hmid, ?_, ?_, hb2, ?_⟩
    · simp only [List.flatMap_cons, hpc]
      exact TextAt.append hta (by rw [← hp1]; exact htb)
    · simp only [List.flatMap_cons, hpc, List.length_append]
      rw [hp2, hp1]; omega
    · intro j hj
      rw [hfm] at hj
      have hja : j ∉ a.flatMap gidx := fun hc' => hj (List.mem_append.mpr (Or.inl hc'))
      have hjb : j ∉ b.flatMap gidx := fun hc' => hj (List.mem_append.mpr (Or.inr hc'))
      rw [hfr2 j hjb, hfr1 j hja]

/-- every repeated variable has an earlier first occurrence (`kn` = the variable names seen so far): what the parser makes -/
def RepN : List Text → List Node → Prop
  | _, [] => True
  | kn, .var name false :: r => RepN (name :: kn) r
  | kn, .var name true :: r => name ∈ kn ∧ RepN kn r
  | kn, _ :: r => RepN kn r

theorem repX_of_repN : ∀ {ns : List Node} {kn : List Text}, RepN kn ns → RepX (kn.map encName) ns
  | [], _, _ => trivial
  | c :: cs, kn, h => by
    cases c with
    | var name rep =>
      cases rep with
      | false =>
        refine ⟨by intro hh; exact absurd hh (by simp [IsRep]), ?_⟩
        have := repX_of_repN (ns := cs) (kn := name :: kn) h
        simpa [defIdx] using this
      | true =>
        refine ⟨?_, by simpa [defIdx] using repX_of_repN (ns := cs) h.2⟩
        intro _ i hi
        simp only [depIdx, List.mem_singleton] at hi
        subst hi
        exact List.mem_map.mpr ⟨name, h.1, rfl⟩
    | lit t => exact ⟨by intro hh; exact absurd hh (by simp [IsRep]), by simpa [defIdx] using repX_of_repN (ns := cs) h⟩
    | star k => exact ⟨by intro hh; exact absurd hh (by simp [IsRep]), by simpa [defIdx] using repX_of_repN (ns := cs) h⟩
    | starstar k sfx =>
      exact ⟨by intro hh; exact absurd hh (by simp [IsRep]), by simpa [defIdx] using repX_of_repN (ns := cs) h⟩
    | android r => exact ⟨by intro hh; exact absurd hh (by simp [IsRep]), by simpa [defIdx] using repX_of_repN (ns := cs) h⟩

theorem repN_first {name : Text} : ∀ {ns : List Node} {kn : List Text}, RepN kn ns →
    Node.var name true ∈ ns → name ∈ kn ∨ Node.var name false ∈ ns
  | [], _, _, h => by cases h
  | c :: cs, kn, hc, h => by
    rcases List.mem_cons.mp h with he | hm
    · subst he; exact Or.inl hc.1
    · cases c with
      | lit t => exact (repN_first (ns := cs) hc hm).imp id (fun h' => List.mem_cons_of_mem _ h')
      | star k => exact (repN_first (ns := cs) hc hm).imp id (fun h' => List.mem_cons_of_mem _ h')
      | starstar k sfx => exact (repN_first (ns := cs) hc hm).imp id (fun h' => List.mem_cons_of_mem _ h')
      | android r => exact (repN_first (ns := cs) hc hm).imp id (fun h' => List.mem_cons_of_mem _ h')
      | var nm rep =>
        cases rep with
        | true => exact (repN_first (ns := cs) hc.2 hm).imp id (fun h' => List.mem_cons_of_mem _ h')
        | false =>
          rcases repN_first (ns := cs) hc hm with h' | h'
          · rcases List.mem_cons.mp h' with e | h'
            · subst e; exact Or.inr (by simp)
            · exact Or.inl h'
          · exact Or.inr (List.mem_cons_of_mem _ h')

/-- the path is the root followed by the pieces of the top-level nodes (any environment, repeated variables allowed) -/
theorem match_piecesX {m : Matcher} {path : Text} {d : GroupDict}
    (hs : ∀ n ∈ m.pattern.nodes, NoAndroidNode n) (hrep : RepN [] m.pattern.nodes) (h : m.match path = .ok (some d)) :
    ∃ re names st root citems, m.regexOf = .ok (re, names) ∧ matchAt path.toArray re 0 = some st ∧
      rootOf (expandVal (fuelFor m.env)) m.pattern m.env = .ok root ∧
      rxChildren (rxVal (fuelFor m.env)) m.pattern.nodes m.env = .ok (citems, names) ∧
      (∀ i, (citems.flatMap gidx).count i ≤ 1) ∧
      (d = groupDict path.toArray st names ∨
       ∃ l, d = groupDict path.toArray st names ++ [(localeName, some l)] ∧
         (groupDict path.toArray st names).any (·.1 == localeName) = false) ∧
      path = root ++ m.pattern.nodes.flatMap (pieceX path.toArray st.caps) := by
  obtain ⟨re, names, st, hre, hst, hd⟩ := match_inv' h
  obtain ⟨items, hrx, hreq, hwf⟩ := regexOf_inv hre
  obtain ⟨root, citems, hroot, hch, hitems⟩ := rxPat_inv hrx
  have hcount : ∀ i, (citems.flatMap gidx).count i ≤ 1 := by
    intro i
    have := wfRe_unique hwf i
    rw [hreq, gidx_seqOf, hitems] at this
    simp only [List.flatMap_append, List.count_append] at this
    omega
  refine ⟨re, names, st, root, citems, hre, hst, hroot, hch, hcount, hd, ?_⟩
  have hsem := sem_seqOf _ (hreq ▸ matchAt_sem hst)
  rw [hitems, List.append_assoc] at hsem
  obtain ⟨htr, hrest⟩ := semL_lits root hsem
  have hfin : st.pos ≤ path.toArray.size := (matchAt_sem hst).pos_bound (Nat.zero_le _)
  have hp1 : (0 : Nat) + root.length ≤ path.toArray.size := Nat.le_trans hrest.pos_le hfin
  obtain ⟨mid, hmid, hta, hpm, _, _⟩ := walkX (s := path.toArray) hs (by simpa using repX_of_repN hrep) hch hcount
    (by intro i hi; cases hi) hrest hp1 (fun i _ => by simp [capOf])
  cases hmid with
  | cons ha hn =>
    cases hn
    have hanchor : Gen.Pat.matcher_frag_anchor = Re.eos := rfl
    rw [hanchor] at ha
    cases ha with
    | eos hc =>
      have hall := TextAt.append htr (by simpa using hta)
      simp only at hpm
      have := textAt_all hall (by simp only [List.length_append]; omega)
      simpa using this

/-- the group of a bound top-level variable captures exactly the expansion of its value -/
theorem bound_capture {m : Matcher} {path : Text} {re : Re} {names : List Text} {st : St} {name : Text} {v : Val} {t : Text}
    (henv : EnvOK m.env) (hre : m.regexOf = .ok (re, names)) (hst : matchAt path.toArray re 0 = some st)
    (hn : Node.var name false ∈ m.pattern.nodes) (hl : m.env.lookup name = some v)
    (ht : expandVal (fuelFor m.env) v (derase m.env name) true = .ok t) :
    groupText path.toArray st (encName name) = some t := by
  obtain ⟨items, hrx, hreq, _⟩ := regexOf_inv hre
  obtain ⟨root, citems, _, hch, hitems⟩ := rxPat_inv hrx
  obtain ⟨a, na, hnode, hsub, hnames⟩ := rxChildren_mem hch hn
  simp only [rxNode, hl, Bool.false_eq_true, if_false, bind, Except.bind] at hnode
  split at hnode
  · cases hnode
  · rename_i w hw
    obtain ⟨body, ns⟩ := w
    simp only [pure, Except.pure, Except.ok.injEq, Prod.mk.injEq] at hnode
    obtain ⟨rfl, rfl⟩ := hnode
    have hex : Exact body t := exact_val _ _ v _ t body ns (henv.lookup hl) (henv.derase name) ht hw
    have hgi : Re.group (encName name) (seqOf body) ∈ items ++ [Gen.Pat.matcher_frag_anchor] := by
      rw [hitems]; simp [hsub _ (List.mem_singleton.mpr rfl)]
    have hg : (encName name, seqOf body) ∈ groups re := by
      rw [hreq, groups_seqOf]
      exact List.mem_flatMap.mpr ⟨_, hgi, by simp [groups]⟩
    have hsem := matchAt_sem hst
    rw [hreq] at hsem
    obtain ⟨a', b', hmem⟩ := (sem_seqOf _ hsem).group_cap hgi
    obtain ⟨a'', b'', hcap⟩ := capOf_of_mem hmem
    obtain ⟨x, y, hxy, rfl, rfl⟩ := cap_of_group hre hst hg hcap
    have hl' := sem_seqOf body hxy
    obtain ⟨hta, mid, hmid, hnil⟩ := hex _ [] x y (by simpa using hl')
    cases hnil
    simp only [groupText, St.group, hcap, hmid]
    rw [slice_textAt hta]

theorem capText_of_groupText {s : Array Nat} {st : St} {i : Nat} {t : Text} (h : groupText s st i = some t) :
    capText s st.caps i = t := by
  unfold groupText St.group at h
  unfold capText
  cases hc : capOf st.caps i with
  | none => simp [hc] at h
  | some p => obtain ⟨a, b⟩ := p; simpa [hc] using h

/-- the variables a pattern uses directly are unbound (captured from the path) or bound to a fully bound value -/
def BoundOK (m : Matcher) : Prop :=
  ∀ name rep v, Node.var name rep ∈ m.pattern.nodes → m.env.lookup name = some v →
    ∃ t, expandVal (fuelFor m.env) v (derase m.env name) true = .ok t

/-- `a.sub(a, path)` re-assembles the matched path: nested values, repeated variables -/
theorem sub_selfX {m : Matcher} {path : Text} {d : GroupDict} (henv : EnvOK m.env) (hgood : GoodEnv m.env)
    (hko : KeysOnce m.env) (hs : ∀ n ∈ m.pattern.nodes, NoAndroidNode n) (hrep : RepN [] m.pattern.nodes)
    (hb : BoundOK m) (hw : ∀ k, m.env.lookup (sname k) = none)
    (h : m.match path = .ok (some d)) :
    expandTop m.pattern (subEnv d m.env) = .ok path := by
  obtain ⟨re, names, st, root, citems, hre, hst, hroot, hch, hcount, hd, hpath⟩ := match_piecesX hs hrep h
  suffices hq : expandTop m.pattern (subEnv d m.env) =
      .ok (root ++ m.pattern.nodes.flatMap (pieceX path.toArray st.caps)) by rw [hq, ← hpath]
  have hnames := names_gidx_children (names_gidx_val (fuelFor m.env)) hch
  have hnonce : ∀ k, names.count k ≤ 1 := names_once (by rw [hnames]; exact hcount)
  have hdk : KeysOnce d ∧ ∀ k ∈ names, d.lookup k = some (groupText path.toArray st (encName k)) := by
    rcases hd with rfl | ⟨l, rfl, hany⟩
    · refine ⟨?_, fun k hk => lookup_map_mem _ k names hk⟩
      intro k; rw [keys_groupDict]; exact hnonce k
    · refine ⟨?_, fun k hk => lookup_append_left _ _ _ (lookup_map_mem _ k names hk)⟩
      intro k
      rw [List.map_append, keys_groupDict, List.count_append]
      simp only [List.map_cons, List.map_nil, List.count_cons, List.count_nil]
      by_cases hkl : (localeName == k) = true
      · have : localeName = k := by simpa using hkl
        subst this
        have : names.count localeName = 0 := by
          apply List.count_eq_zero.mpr
          intro hmem
          have : (groupDict path.toArray st names).any (·.1 == localeName) = true := by
            apply List.any_eq_true.mpr
            refine ⟨(localeName, groupText path.toArray st (encName localeName)), ?_, by simp⟩
            unfold groupDict
            exact List.mem_map.mpr ⟨localeName, hmem, rfl⟩
          rw [hany] at this; cases this
        simp [this]
      · simp [hkl]; exact hnonce k
  obtain ⟨hdonce, hdl⟩ := hdk
  have hlk := fun k => subEnv_lookup (d := d) (env := m.env) hdonce hko k
  have hext : Ext m.env (subEnv d m.env) := by
    intro k v hl; rw [hlk k, hl]
  have hsafe : AndroidSafe (subEnv d m.env) := by
    intro p hp
    rw [hlk localeName] at hp
    cases hl : m.env.lookup localeName with
    | some v =>
      simp only [hl, Option.some.injEq] at hp
      subst hp
      exact (hgood.lookup hl).2
    | none =>
      simp only [hl] at hp
      cases hdl' : d.lookup localeName with
      | none => simp [hdl'] at hp
      | some x => simp [hdl', capsVal] at hp
  -- a first occurrence of every variable that occurs
  have hfirst : ∀ name rep, Node.var name rep ∈ m.pattern.nodes → Node.var name false ∈ m.pattern.nodes := by
    intro name rep hn
    cases rep with
    | false => exact hn
    | true =>
      rcases repN_first hrep hn with h' | h'
      · cases h'
      · exact h'
  obtain ⟨g, hg⟩ := fuelFor_pos (subEnv d m.env)
  have hnode : ∀ n ∈ m.pattern.nodes, ∀ rm,
      expandNode (expandVal (fuelFor (subEnv d m.env))) n (subEnv d m.env) rm = .ok (pieceX path.toArray st.caps n) := by
    intro n hn rm
    have hsn := hs n hn
    cases n with
    | lit t => rfl
    | var name rep =>
      have hn1 := hfirst name rep hn
      cases hl : m.env.lookup name with
      | some v =>
        obtain ⟨t, ht⟩ := hb name rep v hn hl
        have ht' : expandNode (expandVal (fuelFor m.env)) (.var name rep) m.env true = .ok t := by
          simp only [expandNode, hl]; exact ht
        rw [var_expand_ext hext hgood hsafe ht' rm]
        have := bound_capture henv hre hst hn1 hl ht
        simp only [pieceX, capText_of_groupText this]
      | none =>
        obtain ⟨a, na, hrn, _, hsub⟩ := rxChildren_mem hch hn1
        simp only [rxNode, hl, Bool.false_eq_true, if_false, pure, Except.pure, Except.ok.injEq, Prod.mk.injEq] at hrn
        obtain ⟨_, rfl⟩ := hrn
        have hmem : name ∈ names := hsub name (by simp)
        simp only [expandNode, pieceX, hlk name, hl, hdl name hmem, Option.map_some, capsVal_groupText, hg, expandVal, pure,
          Except.pure]
    | star k =>
      obtain ⟨a, na, hrn, _, hsub⟩ := rxChildren_mem hch hn
      simp only [rxNode, pure, Except.pure, Except.ok.injEq, Prod.mk.injEq] at hrn
      obtain ⟨_, rfl⟩ := hrn
      have hmem : sname k ∈ names := hsub _ (by simp)
      simp only [expandNode, pieceX, hlk (sname k), hw k, hdl _ hmem, Option.map_some, capsVal_groupText, pure, Except.pure]
    | starstar k sfx =>
      obtain ⟨a, na, hrn, _, hsub⟩ := rxChildren_mem hch hn
      simp only [rxNode, pure, Except.pure, Except.ok.injEq, Prod.mk.injEq] at hrn
      obtain ⟨_, rfl⟩ := hrn
      have hmem : sname k ∈ names := hsub _ (by simp)
      simp only [expandNode, pieceX, hlk (sname k), hw k, hdl _ hmem, Option.map_some, capsVal_groupText, pure, Except.pure]
    | android r => exact absurd hsn (by simp [NoAndroidNode])
  have hroot' : rootOf (expandVal (fuelFor (subEnv d m.env))) m.pattern (subEnv d m.env) = .ok root := by
    cases hrt : m.pattern.root with
    | none =>
      rw [rootOf_none hrt] at hroot ⊢
      exact hroot
    | some r =>
      cases hns : m.pattern.nodes with
      | nil => simp [rootOf, hrt, hns] at hroot
      | cons n0 tl =>
        have hn0 : n0 ∈ m.pattern.nodes := by simp [hns]
        have hsn := hs n0 hn0
        simp only [rootOf, hrt, hns] at hroot ⊢
        rw [hnode n0 hn0 false]
        have hsame : expandNode (expandVal (fuelFor m.env)) n0 m.env false = .ok (pieceX path.toArray st.caps n0) := by
          cases n0 with
          | lit t => rfl
          | var name rep =>
            cases hl : m.env.lookup name with
            | some v =>
              obtain ⟨t, ht⟩ := hb name rep v hn0 hl
              have ht' : expandNode (expandVal (fuelFor m.env)) (.var name rep) m.env true = .ok t := by
                simp only [expandNode, hl]; exact ht
              have hsafe0 : AndroidSafe m.env := fun p hp => (hgood.lookup hp).2
              rw [var_expand_ext (fun _ _ h => h) hgood hsafe0 ht' false]
              have := bound_capture henv hre hst (hfirst name rep hn0) hl ht
              simp only [pieceX, capText_of_groupText this]
            | none => simp [expandNode, hl] at hroot
          | star k => simp [expandNode, hw k] at hroot
          | starstar k sfx => simp [expandNode, hw k] at hroot
          | android r => exact absurd hsn (by simp [NoAndroidNode])
        rw [hsame] at hroot
        exact hroot
  simp only [expandTop, expandPat, hroot', bind, Except.bind,
    expandChildren_of_nodes (pc := pieceX path.toArray st.caps) m.pattern.nodes (fun n hn => hnode n hn true),
    pure, Except.pure]


/-- appending a node keeps the order property, provided a repeated variable has its first occurrence in front of it -/
theorem repN_snoc : ∀ {ns : List Node} {kn : List Text} (n : Node), RepN kn ns →
    (∀ name, n = .var name true → name ∈ kn ∨ Node.var name false ∈ ns) → RepN kn (ns ++ [n])
  | [], kn, n, _, hn => by
    cases n with
    | var name rep =>
      cases rep with
      | true =>
        rcases hn name rfl with h | h
        · exact ⟨h, trivial⟩
        · cases h
      | false => trivial
    | lit t => trivial
    | star k => trivial
    | starstar k sfx => trivial
    | android r => trivial
  | c :: cs, kn, n, h, hn => by
    cases c with
    | var nm rep =>
      cases rep with
      | false =>
        refine repN_snoc (ns := cs) (kn := nm :: kn) n h ?_
        intro name e
        rcases hn name e with h' | h'
        · exact Or.inl (List.mem_cons_of_mem _ h')
        · rcases List.mem_cons.mp h' with e' | h'
          · cases e'; exact Or.inl (by simp)
          · exact Or.inr h'
      | true =>
        refine ⟨h.1, repN_snoc (ns := cs) n h.2 ?_⟩
        intro name e
        rcases hn name e with h' | h'
        · exact Or.inl h'
        · rcases List.mem_cons.mp h' with e' | h'
          · cases e'
          · exact Or.inr h'
    | lit t =>
      refine repN_snoc (ns := cs) n h ?_
      intro name e
      rcases hn name e with h' | h'
      · exact Or.inl h'
      · rcases List.mem_cons.mp h' with e' | h'
        · cases e'
        · exact Or.inr h'
    | star k =>
      refine repN_snoc (ns := cs) n h ?_
      intro name e
      rcases hn name e with h' | h'
      · exact Or.inl h'
      · rcases List.mem_cons.mp h' with e' | h'
        · cases e'
        · exact Or.inr h'
    | starstar k sfx =>
      refine repN_snoc (ns := cs) n h ?_
      intro name e
      rcases hn name e with h' | h'
      · exact Or.inl h'
      · rcases List.mem_cons.mp h' with e' | h'
        · cases e'
        · exact Or.inr h'
    | android r =>
      refine repN_snoc (ns := cs) n h ?_
      intro name e
      rcases hn name e with h' | h'
      · exact Or.inl h'
      · rcases List.mem_cons.mp h' with e' | h'
        · cases e'
        · exact Or.inr h'

/-- what the parser maintains: the nodes so far are in order, and every known (non-Android) variable name has its first
    occurrence among them -/
def PInv (ps : PState) : Prop :=
  RepN [] ps.nodes ∧ ∀ name ∈ ps.known, name ≠ androidName → Node.var name false ∈ ps.nodes

theorem pinv_other {ps : PState} (h : PInv ps) (n : Node) (hn : ∀ name r, n ≠ .var name r) :
    PInv { ps with nodes := ps.nodes ++ [n] } :=
  ⟨repN_snoc n h.1 (fun name e => absurd e (hn name true)), fun name hk hne => List.mem_append.mpr (Or.inl (h.2 name hk hne))⟩

theorem stepVariable_pinv {s : Array Nat} {st : St} {ps ps' : PState} (h : PInv ps)
    (hs : stepVariable s st ps = .ok ps') : PInv ps' := by
  unfold stepVariable at hs
  split at hs
  · cases hs
  · rename_i name _
    simp only [pure, Except.pure, Except.ok.injEq] at hs
    subst hs
    by_cases hand : name = androidName
    · subst hand
      simp only [beq_self_eq_true, if_true]
      refine ⟨repN_snoc _ h.1 (fun nm e => by cases e), ?_⟩
      intro nm hk hne
      simp only [List.mem_cons] at hk
      rcases hk with rfl | hk
      · exact absurd rfl hne
      · exact List.mem_append.mpr (Or.inl (h.2 nm hk hne))
    · have hne : (name == androidName) = false := by simpa using hand
      simp only [hne, Bool.false_eq_true, if_false]
      refine ⟨repN_snoc _ h.1 ?_, ?_⟩
      · intro nm e
        simp only [Node.var.injEq] at e
        obtain ⟨e1, hk⟩ := e
        subst e1
        right
        exact h.2 _ (by simpa using hk) hand
      · intro nm hk hne'
        simp only [List.mem_cons] at hk
        rcases hk with rfl | hk
        · by_cases hkn : ps.known.contains nm = true
          · exact List.mem_append.mpr (Or.inl (h.2 nm (by simpa using hkn) hne'))
          · have hnk : nm ∉ ps.known := by simpa using hkn
            simp [hnk]
        · exact List.mem_append.mpr (Or.inl (h.2 nm hk hne'))

theorem stepWildcard_pinv {s : Array Nat} {st : St} {ps ps' : PState} (h : PInv ps)
    (hs : stepWildcard s st ps = .ok ps') : PInv ps' := by
  unfold stepWildcard at hs
  have h1 : PInv (markPrefix ps) := by
    unfold markPrefix
    split
    · exact ⟨h.1, h.2⟩
    · exact h
  generalize markPrefix ps = psw at h1 hs
  simp only at hs
  split at hs
  · simp only [pure, Except.pure, Except.ok.injEq] at hs
    subst hs
    exact pinv_other ⟨h1.1, h1.2⟩ (Node.star psw.star) (fun _ _ hc => Node.noConfusion hc)
  · split at hs
    · rename_i sfx _
      simp only [pure, Except.pure, Except.ok.injEq] at hs
      subst hs
      exact pinv_other ⟨h1.1, h1.2⟩ (Node.starstar psw.star sfx) (fun _ _ hc => Node.noConfusion hc)
    · cases hs

theorem parseStep_pinv {s : Array Nat} {ps ps' : PState} {q : Nat} {st : St} (h : PInv ps)
    (hs : parseStep s ps q st = .ok ps') : PInv ps' := by
  have h0 : PInv (if q > ps.cursor then { ps with nodes := ps.nodes ++ [.lit (slice s ps.cursor q)] } else ps) := by
    split
    · exact pinv_other h _ (fun _ _ hc => Node.noConfusion hc)
    · exact h
  simp only [parseStep, bind, Except.bind] at hs
  generalize (if q > ps.cursor then { ps with nodes := ps.nodes ++ [.lit (slice s ps.cursor q)] } else ps) = ps0 at h0 hs
  by_cases hvar : truthy (groupText s st gVariable) = true
  · simp only [hvar, if_true] at hs
    cases hsv : stepVariable s st ps0 with
    | error e => simp [hsv] at hs
    | ok ps1 =>
      simp only [hsv, pure, Except.pure, Except.ok.injEq] at hs
      subst hs
      have := stepVariable_pinv h0 hsv
      exact ⟨this.1, this.2⟩
  · simp only [hvar, Bool.false_eq_true, if_false] at hs
    cases hsv : stepWildcard s st ps0 with
    | error e => simp [hsv] at hs
    | ok ps1 =>
      simp only [hsv, pure, Except.pure, Except.ok.injEq] at hs
      subst hs
      have := stepWildcard_pinv h0 hsv
      exact ⟨this.1, this.2⟩

theorem parseLoop_pinv {s : Array Nat} : ∀ (ms : List (Nat × St)) {ps ps' : PState}, PInv ps →
    parseLoop s ms ps = .ok ps' → PInv ps'
  | [], ps, ps', h, hs => by
    simp only [parseLoop, pure, Except.pure, Except.ok.injEq] at hs
    subst hs; exact h
  | (q, st) :: rest, ps, ps', h, hs => by
    simp only [parseLoop, bind, Except.bind] at hs
    split at hs
    · cases hs
    · rename_i ps1 h1
      exact parseLoop_pinv rest (parseStep_pinv h h1) hs

/-- **the parser puts every repeated variable after its first occurrence** -/
theorem parsePattern_repN {t : Text} {p : Pattern} (h : parsePattern t = .ok p) : RepN [] p.nodes := by
  simp only [parsePattern, bind, Except.bind] at h
  split at h
  · cases h
  · rename_i ps hps
    simp only [pure, Except.pure, Except.ok.injEq] at h
    subst h
    have hinit : PInv { nodes := [], star := 1, known := [], cursor := 0, prefixLen := none } :=
      ⟨trivial, fun _ hm => by simp at hm⟩
    have hinv : PInv ps := parseLoop_pinv _ hinit hps
    exact repN_snoc _ hinv.1 (fun _ e => by cases e)

theorem mkMatcher_repN {pat : Text} {env : List (Text × Text)} {root : Option Text} {m : Matcher}
    (h : mkMatcher pat env root = .ok m) : RepN [] m.pattern.nodes := by
  simp only [mkMatcher, bind, Except.bind] at h
  split at h
  · cases h
  · split at h
    · cases h
    · rename_i p hp
      simp only [pure, Except.pure, Except.ok.injEq] at h
      subst h
      exact parsePattern_repN (p := p) hp

end C11X

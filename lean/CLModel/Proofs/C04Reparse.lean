/- C04, re-parse of the staged text (properties): records separated by arbitrary runs of blank lines parse back
   to exactly the records.  Builds on the single-record lemmas of C02 (`props_entity_at`, `recAt_of_drop`). -/
import CLModel.Compare.Merge
import CLModel.Proofs.C02Roundtrip
namespace C04R
open P Rx Gen.Pat

/-- `n` newlines -/
def nls (n : Nat) : List Nat := List.replicate n 10

/-- the white-space entry covering `n` characters from `a` -/
def wsRun (a n : Nat) : Entry :=
  { kind := .whitespace, full := a, s := a, e := a + n, ks := (a : Nat), ke := (a + n : Nat),
    vs := (a : Nat), ve := (a + n : Nat) }

/-- the text does not start with a white-space character (it may be empty) -/
def NoWsHead (rest : List Nat) : Prop := ∀ c, rest.head? = some c → c ≠ 32 ∧ c ≠ 9 ∧ c ≠ 13 ∧ c ≠ 10

theorem noWsHead_nil : NoWsHead [] := by intro c h; simp at h

theorem runLen_nls : ∀ (n : Nat) (rest : List Nat), NoWsHead rest →
    runLen (inC false ws4) none (nls n ++ rest) = n := by
  intro n
  induction n with
  | zero =>
    intro rest h
    cases rest with
    | nil => simp [nls, runLen]
    | cons c t =>
      obtain ⟨a1, a2, a3, a4⟩ := h c (by simp)
      have : inC false ws4 c = false := by simp [inC, ws4, ClsItem.has, a1, a2, a3, a4]
      simp [nls, runLen, this]
  | succ n ih =>
    intro rest h
    have e10 : inC false ws4 10 = true := by decide
    have : nls (n + 1) ++ rest = 10 :: (nls n ++ rest) := by simp [nls, List.replicate_succ]
    rw [this]
    simp only [runLen, show ((none : Option Nat) == some 0) = false from rfl, Bool.false_eq_true, if_false, e10, if_true,
      Option.map_none]
    rw [ih rest h]; omega

/-- a run of `n ≥ 1` newlines followed by the end of the text or a non-blank character is ONE white-space entry -/
theorem props_ws_run (s : Array Nat) (a n : Nat) (rest : List Nat) (hn : 0 < n)
    (h : s.toList.drop a = nls n ++ rest) (hr : NoWsHead rest) : propsGetNext s a = wsRun a n := by
  have h0 : s[a]? = some 10 := by
    have := get_of_drop s a 0 _ h
    obtain ⟨k, rfl⟩ : ∃ k, n = k + 1 := ⟨n - 1, by omega⟩
    simpa [nls, List.replicate_succ] using this
  have hlen : n ≤ s.size - a := by
    have := congrArg List.length h
    simp [nls] at this
    omega
  have hcm := comment_none s a 10 h0 (by decide) (by decide)
  have hrun : runLen (inC false ws4) none (s.toList.drop a) = n := by rw [h]; exact runLen_nls n rest hr
  have hws : matchAt s Parser_reWhitespace a = some ⟨a + n, []⟩ := by
    simp only [matchAt, Parser_reWhitespace, m_rep]
    have hf : runLen (inC false ws4) none (s.toList.drop a) < s.size + 2 - a := by rw [hrun]; omega
    have := loop_greedy_total s false ws4 [] some (by intro st; simp) (s.size + 2 - a) 1 none a hf
    rw [hrun] at this
    simpa [ws4, show ¬ n < 1 by omega] using this
  unfold propsGetNext
  simp only [hcm, hws]
  simp [wsRun]

/-- one step of the walk -/
theorem walk_step (s : Array Nat) (fuel off : Nat) (e : Entry) (hoff : off < s.size)
    (he : propsGetNext s off = e) :
    walkFrom (fun (_ : Unit) o => (propsGetNext s o, ())) s.size (fuel + 1) () off =
      (walkFrom (fun (_ : Unit) o => (propsGetNext s o, ())) s.size fuel () e.e).cons e := by
  rw [walkFrom]
  simp only [show ¬ off ≥ s.size by omega, if_false, he]

theorem walk_end (s : Array Nat) (fuel off : Nat) (hoff : s.size ≤ off) :
    walkFrom (fun (_ : Unit) o => (propsGetNext s o, ())) s.size fuel () off = .done [] := by
  cases fuel <;> simp [walkFrom, hoff]

/-! ### records with gaps -/

/-- records printed as `key=value⏎`, each followed by `g` further newlines -/
def printGapped : List (PRec × Nat) → List Nat
  | [] => []
  | (r, g) :: rest => printRec r ++ (nls g ++ printGapped rest)

theorem noWsHead_printGapped (gs : List (PRec × Nat)) (h : ∀ p ∈ gs, SafeRec p.1) : NoWsHead (printGapped gs) := by
  cases gs with
  | nil => exact noWsHead_nil
  | cons p gs' =>
    obtain ⟨r, g⟩ := p
    have hs := h (r, g) (by simp)
    have hkl : 0 < r.1.length := List.length_pos_iff.mpr hs.key_ne
    have f0 := keyChar_facts (hs.key r.1[0] (List.getElem_mem _))
    intro c hc
    have : c = r.1[0] := by
      have e : (printGapped ((r, g) :: gs')).head? = some r.1[0] := by
        rw [List.head?_eq_getElem?]
        simp [printGapped, printRec, List.getElem?_append_left hkl]
      rw [e] at hc; cases hc; rfl
    subst this
    exact ⟨f0.2.2.1, f0.2.2.2.1, f0.2.2.2.2.1, f0.2.2.2.2.2.1⟩

theorem printGapped_length (gs : List (PRec × Nat)) : 2 * gs.length ≤ (printGapped gs).length := by
  induction gs with
  | nil => simp
  | cons p gs ih =>
    obtain ⟨r, g⟩ := p
    simp only [printGapped, List.length_append, printRec_length, List.length_cons]
    omega

theorem walk_gapped_from (s : Array Nat) :
    ∀ (gs : List (PRec × Nat)) (off fuel : Nat), s.toList.drop off = printGapped gs → (∀ p ∈ gs, SafeRec p.1) →
      2 * gs.length ≤ fuel →
      ∃ es, walkFrom (fun (_ : Unit) o => (propsGetNext s o, ())) s.size fuel () off = .done es ∧
        entitiesOf .properties s es = gs.map (fun p => expectedView p.1) ∧ junkOf s es = [] := by
  intro gs
  induction gs with
  | nil =>
    intro off fuel h _ _
    have hge : s.size ≤ off := by
      have h' : s.toList.drop off = [] := by simpa [printGapped] using h
      have := List.drop_eq_nil_iff.mp h'
      simpa using this
    exact ⟨[], walk_end s fuel off hge, by simp [entitiesOf], by simp [junkOf]⟩
  | cons p gs ih =>
    obtain ⟨r, g⟩ := p
    intro off fuel h hsafe hfuel
    have hs : SafeRec r := hsafe (r, g) (by simp)
    simp only [printGapped] at h
    have hrec := recAt_of_drop s off r _ hs h
    obtain ⟨f, rfl⟩ : ∃ f, fuel = f + 2 := ⟨fuel - 2, by simp at hfuel; omega⟩
    have hnlt := getElem?_some_lt hrec.nl
    -- the text after the entity: the record's newline, the gap, the other records
    have hd1 : s.toList.drop (off + r.1.length + 1 + r.2.length) = nls (g + 1) ++ printGapped gs := by
      have := congrArg (List.drop (r.1.length + 1 + r.2.length)) h
      rw [List.drop_drop] at this
      rw [show off + r.1.length + 1 + r.2.length = off + (r.1.length + 1 + r.2.length) by omega, this]
      have e : printRec r = (r.1 ++ 61 :: r.2) ++ [10] := by simp [printRec]
      rw [e, List.append_assoc, List.drop_left' (by simp; omega)]
      simp [nls, List.replicate_succ]
    have hd2 : s.toList.drop (off + r.1.length + 1 + r.2.length + (g + 1)) = printGapped gs := by
      have := congrArg (List.drop (g + 1)) hd1
      rw [List.drop_drop, List.drop_left' (by simp [nls])] at this
      exact this
    have hsafe' : ∀ p ∈ gs, SafeRec p.1 := fun p hp => hsafe p (by simp [hp])
    have e1 : propsGetNext s off = propsEntity_c02 off r.1.length r.2.length := props_entity_at s off _ _ hrec
    have e2 := props_ws_run s (off + r.1.length + 1 + r.2.length) (g + 1) _ (by omega) hd1 (noWsHead_printGapped gs hsafe')
    obtain ⟨es, hw, hen, hj⟩ := ih (off + r.1.length + 1 + r.2.length + (g + 1)) f hd2 hsafe' (by simp at hfuel; omega)
    refine ⟨propsEntity_c02 off r.1.length r.2.length :: wsRun (off + r.1.length + 1 + r.2.length) (g + 1) :: es, ?_, ?_, ?_⟩
    · rw [walk_step s (f + 1) off _ (by omega) e1]
      rw [show (propsEntity_c02 off r.1.length r.2.length).e = off + r.1.length + 1 + r.2.length from rfl,
        walk_step s f _ _ (by omega) e2]
      rw [show (wsRun (off + r.1.length + 1 + r.2.length) (g + 1)).e = off + r.1.length + 1 + r.2.length + (g + 1) from rfl, hw]
      rfl
    · have hv := entView_propsEntity s off r _ hs h
      simp only [entitiesOf] at hen ⊢
      rw [List.filter_cons_of_pos (by simp [propsEntity_c02]), List.filter_cons_of_neg (by simp [wsRun]),
        List.map_cons, hv, hen]
      rfl
    · simp only [junkOf] at hj ⊢
      rw [List.filter_cons_of_neg (by simp [propsEntity_c02]), List.filter_cons_of_neg (by simp [wsRun]), hj]

/-- a text that starts with `g0` newlines and continues with gapped records -/
theorem walk_gapped (g0 : Nat) (gs : List (PRec × Nat)) (h : ∀ p ∈ gs, SafeRec p.1) :
    ∃ es, walk .properties (nls g0 ++ printGapped gs).toArray = .done es ∧
      entitiesOf .properties (nls g0 ++ printGapped gs).toArray es = gs.map (fun p => expectedView p.1) ∧
      junkOf (nls g0 ++ printGapped gs).toArray es = [] := by
  have hlen := printGapped_length gs
  unfold walk
  simp only []
  by_cases hg : g0 = 0
  · subst hg
    exact walk_gapped_from _ gs 0 _ (by simp [nls]) h (by simp [nls]; omega)
  · have e0 := props_ws_run (nls g0 ++ printGapped gs).toArray 0 g0 (printGapped gs) (by omega) (by simp)
      (noWsHead_printGapped gs h)
    obtain ⟨es, hw, hen, hj⟩ := walk_gapped_from (nls g0 ++ printGapped gs).toArray gs g0
      ((nls g0 ++ printGapped gs).toArray.size) (by simp [nls]) h (by simp [nls]; omega)
    refine ⟨wsRun 0 g0 :: es, ?_, ?_, ?_⟩
    · rw [walk_step _ _ 0 _ (by simp [nls]; omega) e0]
      rw [show (wsRun 0 g0).e = g0 by simp [wsRun], hw]
      rfl
    · simp only [entitiesOf] at hen ⊢
      rw [List.filter_cons_of_neg (by simp [wsRun]), hen]
    · simp only [junkOf] at hj ⊢
      rw [List.filter_cons_of_neg (by simp [wsRun]), hj]

/-! ### texts assembled from records and extra newlines -/

inductive Tok
  | record (r : PRec)
  | nl

def printToks : List Tok → List Nat
  | [] => []
  | .record r :: t => printRec r ++ printToks t
  | .nl :: t => 10 :: printToks t

def recsOf : List Tok → List PRec
  | [] => []
  | .record r :: t => r :: recsOf t
  | .nl :: t => recsOf t

/-- leading newlines, then the records each with the number of extra newlines that follow it -/
def norm : List Tok → Nat × List (PRec × Nat)
  | [] => (0, [])
  | .nl :: t => ((norm t).1 + 1, (norm t).2)
  | .record r :: t => (0, (r, (norm t).1) :: (norm t).2)

theorem printToks_norm : ∀ t, printToks t = nls (norm t).1 ++ printGapped (norm t).2 := by
  intro t
  induction t with
  | nil => simp [printToks, norm, nls, printGapped]
  | cons x t ih =>
    cases x with
    | nl => simp [printToks, norm, ih, nls, List.replicate_succ]
    | record r => simp [printToks, norm, ih, nls, printGapped]

theorem norm_recs : ∀ t, (norm t).2.map (·.1) = recsOf t := by
  intro t
  induction t with
  | nil => simp [norm, recsOf]
  | cons x t ih => cases x <;> simp [norm, recsOf, ih]

theorem printToks_append (a b : List Tok) : printToks (a ++ b) = printToks a ++ printToks b := by
  induction a with
  | nil => simp [printToks]
  | cons x a ih => cases x <;> simp [printToks, ih]

theorem recsOf_append (a b : List Tok) : recsOf (a ++ b) = recsOf a ++ recsOf b := by
  induction a with
  | nil => simp [recsOf]
  | cons x a ih => cases x <;> simp [recsOf, ih]

theorem printToks_recs (rs : List PRec) : printToks (rs.map .record) = printProps rs := by
  induction rs with
  | nil => simp [printToks, printProps]
  | cons r rs ih =>
    simp only [List.map_cons, printToks, ih]
    simp [printProps]

theorem recsOf_recs (rs : List PRec) : recsOf (rs.map .record) = rs := by
  induction rs with
  | nil => simp [recsOf]
  | cons r rs ih => simp [recsOf, ih]

/-- every text assembled from printed safe records and newlines parses back to exactly the records, without junk -/
theorem walk_toks (t : List Tok) (h : ∀ r ∈ recsOf t, SafeRec r) :
    ∃ es, walk .properties (printToks t).toArray = .done es ∧
      entitiesOf .properties (printToks t).toArray es = (recsOf t).map expectedView ∧
      junkOf (printToks t).toArray es = [] := by
  have hs : ∀ p ∈ (norm t).2, SafeRec p.1 := by
    intro p hp
    apply h
    rw [← norm_recs]
    exact List.mem_map.mpr ⟨p, hp, rfl⟩
  obtain ⟨es, h1, h2, h3⟩ := walk_gapped (norm t).1 (norm t).2 hs
  rw [printToks_norm t]
  refine ⟨es, h1, ?_, h3⟩
  rw [h2, ← norm_recs, List.map_map]
  rfl

end C04R

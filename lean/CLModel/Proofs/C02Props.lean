/- C02, properties unescape: the regex substitution `escape.sub(unescape, raw_val)` equals the documented
   one-pass rules for all texts. -/
import CLModel.Parser.Values
import CLModel.Proofs.C02Rx
import CLModel.Proofs.Walk
namespace Rx
theorem m_seq (s a b st k) : m s (.seq a b) st k = m s a st (fun st' => m s b st' k) := by rw [m]
theorem m_alt (s a b st k) : m s (.alt a b) st k = (m s a st k).orElse (fun _ => m s b st k) := by rw [m]
theorem m_group (s i r st k) :
    m s (.group i r) st k = m s r st (fun st' => k { st' with caps := (i, st.pos, st'.pos) :: st'.caps }) := by rw [m]
theorem m_lit (s c st k) :
    m s (.lit c) st k = if s[st.pos]? == some c then k { st with pos := st.pos + 1 } else none := by rw [m]
theorem m_rep (s mn mx g r st k) :
    m s (.rep mn mx g r) st k = loop (m s r) g (s.size + 2 - st.pos) mn mx st k := by rw [m]
theorem m_any_some (s da st k d) (h : s[st.pos]? = some d) :
    m s (.any da) st k = if da || d != 10 then k { st with pos := st.pos + 1 } else none := by rw [m]; simp [h]
theorem m_any_none (s da st k) (h : s[st.pos]? = none) : m s (.any da) st k = none := by rw [m]; simp [h]
theorem m_eps (s st k) : m s .eps st k = k st := by rw [m]
theorem m_eos (s st k) : m s .eos st k = if st.pos == s.size then k st else none := by rw [m]
end Rx

namespace P
open Rx Gen.Pat

theorem drop2_view (s : Array Nat) (pos c d : Nat) (rest : List Nat) (h : s.toList.drop pos = c :: d :: rest) :
    s[pos]? = some c ∧ s[pos + 1]? = some d ∧ s.toList.drop (pos + 1) = d :: rest ∧
      s.toList.drop (pos + 2) = rest ∧ pos + 2 ≤ s.size := by
  rcases drop_view s pos with ⟨_, _, hd⟩ | ⟨c', h0, hlt, hd⟩
  · rw [hd] at h; cases h
  · rw [hd] at h
    injection h with hc ht
    subst hc
    rcases drop_view s (pos + 1) with ⟨_, _, hd1⟩ | ⟨d', h1, hlt1, hd1⟩
    · rw [hd1] at ht; cases ht
    · rw [hd1] at ht
      injection ht with hc1 ht1
      subst hc1
      exact ⟨h0, h1, by rw [hd1, ht1], ht1, by omega⟩

/-! ### hex digits -/

theorem hexCls_eq : inC false [ClsItem.range 48 57, ClsItem.range 97 102, ClsItem.range 65 70] = isHex := by
  funext c
  simp [inC, ClsItem.has, isHex, Bool.or_assoc]

theorem blankCls_eq : inC false [ClsItem.ch 32, ClsItem.ch 9] = (fun c => c == 32 || c == 9) := by
  funext c
  simp [inC, ClsItem.has]

theorem runLen_hex : ∀ (l : List Nat) (n : Nat), runLen isHex (some n) l = (takeHex n l).length := by
  intro l
  induction l with
  | nil => intro n; cases n <;> simp [runLen, takeHex]
  | cons c t ih =>
    intro n
    cases n with
    | zero => simp [runLen, takeHex]
    | succ n =>
      simp only [runLen, takeHex]
      by_cases hc : isHex c
      · simp [hc, ih n]; omega
      · simp [hc]

theorem takeHex_prefix : ∀ (n : Nat) (l : List Nat), takeHex n l = l.take (takeHex n l).length := by
  intro n
  induction n with
  | zero => intro l; simp [takeHex]
  | succ n ih =>
    intro l
    cases l with
    | nil => simp [takeHex]
    | cons c t =>
      simp only [takeHex]
      by_cases hc : isHex c
      · simp only [hc, if_true, List.length_cons, List.take_succ_cons]
        rw [← ih t]
      · simp [hc]

theorem takeHex_all : ∀ (n : Nat) (l : List Nat), ∀ c ∈ takeHex n l, isHex c = true := by
  intro n
  induction n with
  | zero => intro l c h; simp [takeHex] at h
  | succ n ih =>
    intro l c h
    cases l with
    | nil => simp [takeHex] at h
    | cons d t =>
      simp only [takeHex] at h
      by_cases hd : isHex d
      · simp only [hd, if_true, List.mem_cons] at h
        rcases h with rfl | h
        · exact hd
        · exact ih t c h
      · simp [hd] at h

theorem hexDigitVal_of_isHex (c : Nat) (h : isHex c = true) : hexDigitVal c = some (hexDigit c) := by
  unfold isHex at h
  unfold hexDigitVal hexDigit
  by_cases h1 : (48 ≤ c && c ≤ 57) = true
  · simp [h1]
  · by_cases h2 : (97 ≤ c && c ≤ 102) = true
    · simp [h1, h2]
    · have h3 : (65 ≤ c && c ≤ 70) = true := by simpa [h1, h2] using h
      simp [h1, h2, h3]

theorem foldlM_hex : ∀ (l : List Nat) (acc : Nat), (∀ c ∈ l, isHex c = true) →
    l.foldlM (fun acc c => (hexDigitVal c).map (fun d => acc * 16 + d)) acc =
      some (l.foldl (fun acc c => acc * 16 + hexDigit c) acc) := by
  intro l
  induction l with
  | nil => intro acc _; rfl
  | cons c t ih =>
    intro acc h
    simp only [List.foldlM_cons, List.foldl_cons]
    rw [hexDigitVal_of_isHex c (h c (by simp))]
    simp only [Option.map_some, Option.bind_eq_bind, Option.bind_some]
    exact ih _ (fun d hd => h d (by simp [hd]))

theorem intBase16_takeHex (n : Nat) (l : List Nat) (h : (takeHex n l).isEmpty = false) :
    intBase16 (takeHex n l) = some (hexValue (takeHex n l)) := by
  unfold intBase16 hexValue
  simp only [h, Bool.false_eq_true, if_false]
  exact foldlM_hex _ 0 (takeHex_all n l)

theorem drop_runLen_blank : ∀ (l : List Nat), l.drop (runLen (fun c => c == 32 || c == 9) none l) = dropBlank l := by
  intro l
  induction l with
  | nil => simp [runLen, dropBlank]
  | cons c t ih =>
    simp only [runLen, dropBlank]
    by_cases hc : (c == 32 || c == 9) = true
    · simp only [hc, if_true]
      have : (none : Option Nat).map (· - 1) = none := rfl
      rw [this]
      simp only [show ((none : Option Nat) == some 0) = false from rfl, Bool.false_eq_true, if_false]
      rw [show 1 + runLen (fun c => c == 32 || c == 9) none t = runLen (fun c => c == 32 || c == 9) none t + 1 by omega]
      simpa using ih
    · simp [hc]

/-! ### one match of the escape regex -/

theorem escape_nomatch_ne (s : Array Nat) (pos : Nat) (h : s[pos]? ≠ some 92) :
    matchAt s PropertiesEntityMixin_escape pos = none := by
  simp only [matchAt, PropertiesEntityMixin_escape, m_seq, m_lit]
  simp [h]

theorem escape_nomatch_end (s : Array Nat) (pos : Nat) (h1 : s[pos + 1]? = none) :
    matchAt s PropertiesEntityMixin_escape pos = none := by
  simp only [matchAt, PropertiesEntityMixin_escape, m_seq, m_lit, m_group, m_alt, m_rep]
  split
  · simp [h1, m_any_none]
  · rfl

/-! ### the specification, unfolded -/

theorem spec_cons_ne (c : Nat) (rest : List Nat) (h : c ≠ 92) :
    propsUnescapeSpec (c :: rest) = c :: propsUnescapeSpec rest := by
  rw [propsUnescapeSpec.eq_def]; simp [h]

theorem spec_lone : propsUnescapeSpec [92] = [92] := by
  rw [propsUnescapeSpec.eq_def]; simp

theorem spec_esc (d : Nat) (rest' : List Nat) :
    propsUnescapeSpec (92 :: d :: rest') =
      if d = 117 then
        if (takeHex 4 rest').isEmpty then 117 :: propsUnescapeSpec rest'
        else hexValue (takeHex 4 rest') :: propsUnescapeSpec (rest'.drop (takeHex 4 rest').length)
      else if d = 10 then propsUnescapeSpec (dropBlank rest')
      else specEscape d :: propsUnescapeSpec rest' := by
  rw [propsUnescapeSpec.eq_def]; simp


theorem knownEscape_spec (d : Nat) : knownEscape [d] = [specEscape d] := by
  simp only [knownEscape, Gen.Tables.knownEscapes, specEscape, List.find?]
  by_cases h1 : d = 92
  · subst h1; decide
  · by_cases h2 : d = 110
    · subst h2; decide
    · by_cases h3 : d = 114
      · subst h3; decide
      · by_cases h4 : d = 116
        · subst h4; decide
        · have e1 : (92 == d) = false := by simp; omega
          have e2 : (110 == d) = false := by simp; omega
          have e3 : (114 == d) = false := by simp; omega
          have e4 : (116 == d) = false := by simp; omega
          simp [e1, e2, e3, e4, h2, h3, h4]

theorem slice_take (s : Array Nat) (a n : Nat) (l : List Nat) (h : s.toList.drop a = l) (_hn : n ≤ l.length) :
    slice s a (a + n) = l.take n := by
  have e : slice s a (a + n) = (s.toList.drop a).take (a + n - a) := by
    unfold slice; rw [Array.toList_extract]
  rw [e, h]
  congr 1; omega

theorem escape_match (s : Array Nat) (pos d : Nat) (rest' : List Nat)
    (h : s.toList.drop pos = 92 :: d :: rest') :
    ∃ st a, matchAt s PropertiesEntityMixin_escape pos = some st ∧ pos < st.pos ∧ st.pos ≤ s.size ∧
      propsUnescapeCb s pos st = some a ∧
      a ++ propsUnescapeSpec (s.toList.drop st.pos) = propsUnescapeSpec (92 :: d :: rest') := by
  obtain ⟨h0, h1, hd1, hd2, hsz⟩ := drop2_view s pos 92 d rest' h
  have hlen : rest'.length = s.size - (pos + 2) := by rw [← hd2]; simp
  have hfH : runLen (inC false [ClsItem.range 48 57, ClsItem.range 97 102, ClsItem.range 65 70]) (some 4)
      (s.toList.drop (pos + 1 + 1)) < s.size + 2 - (pos + 1 + 1) := by
    have := runLen_le (inC false [ClsItem.range 48 57, ClsItem.range 97 102, ClsItem.range 65 70]) (s.toList.drop (pos + 1 + 1)) (some 4)
    simp at this ⊢; omega
  have hfB : runLen (inC false [ClsItem.ch 32, ClsItem.ch 9]) none
      (s.toList.drop (pos + 1 + 1)) < s.size + 2 - (pos + 1 + 1) := by
    have := runLen_le (inC false [ClsItem.ch 32, ClsItem.ch 9]) (s.toList.drop (pos + 1 + 1)) none
    simp at this ⊢; omega
  simp only [matchAt, PropertiesEntityMixin_escape, m_seq, m_lit, m_group, m_alt, m_rep, h0, h1,
    m_any_some s false ⟨pos + 1, []⟩ _ d h1]
  rw [loop_greedy_total s false _ [] _ (by intro st; simp) _ _ _ _ hfH,
      loop_greedy_total s false _ [] _ (by intro st; simp) _ _ _ _ hfB]
  rw [hexCls_eq, blankCls_eq, show pos + 1 + 1 = pos + 2 by omega, hd2, runLen_hex]
  have hdrop : ∀ n, s.toList.drop (pos + 2 + n) = rest'.drop n := by
    intro n; rw [← hd2, List.drop_drop]
  have hs1 : slice s (pos + 1) (pos + 2) = [d] := by
    have := slice_take s (pos + 1) 1 (d :: rest') hd1 (by simp)
    simpa using this
  rw [spec_esc]
  by_cases hu : d = 117
  · subst hu
    by_cases he : (takeHex 4 rest').isEmpty
    · have hl : (takeHex 4 rest').length = 0 := by simpa using he
      refine ⟨_, [117], by simp [hl]; rfl, ?_, ?_, ?_, ?_⟩
      · simp
      · simp; omega
      · simp [propsUnescapeCb, St.group, capOf, PropertiesEntityMixin_escape_g_uni, PropertiesEntityMixin_escape_g_nl,
          PropertiesEntityMixin_escape_g_single, hs1]
        decide
      · simp [he, hdrop 0]
    · have hl : 0 < (takeHex 4 rest').length := by
        cases hh : takeHex 4 rest' with
        | nil => simp [hh] at he
        | cons a b => simp
      have hle : (takeHex 4 rest').length ≤ rest'.length := by
        have := runLen_le isHex rest' (some 4)
        rw [runLen_hex] at this; exact this
      refine ⟨_, [hexValue (takeHex 4 rest')], by simp [show ¬ (takeHex 4 rest').length < 1 by omega]; rfl, ?_, ?_, ?_, ?_⟩
      · simp; omega
      · simp; omega
      · have hsl : slice s (pos + 1 + 1) (pos + 2 + (takeHex 4 rest').length) = takeHex 4 rest' := by
          have := slice_take s (pos + 2) (takeHex 4 rest').length rest' hd2 hle
          rw [← takeHex_prefix] at this
          simpa using this
        have hne : (takeHex 4 rest').isEmpty = false := by simpa using he
        have hne2 : ¬ (pos + 1 = pos + 2 + (takeHex 4 rest').length) := by omega
        simp [propsUnescapeCb, St.group, capOf, PropertiesEntityMixin_escape_g_uni, hsl, intBase16_takeHex 4 rest' hne, hne2]
      · simp [he, hdrop]
  · by_cases hn : d = 10
    · subst hn
      refine ⟨_, [], by simp; rfl, ?_, ?_, ?_, ?_⟩
      · simp; omega
      · have := runLen_le (fun c => c == 32 || c == 9) rest' none
        simp; omega
      · have hne2 : ¬ (pos + 1 = pos + 2 + runLen (fun c => c == 32 || c == 9) none rest') := by omega
        simp [propsUnescapeCb, St.group, capOf, PropertiesEntityMixin_escape_g_uni, PropertiesEntityMixin_escape_g_nl, hne2]
      · simp [hdrop, drop_runLen_blank]
    · refine ⟨_, [specEscape d], by simp [hu, hn]; rfl, ?_, ?_, ?_, ?_⟩
      · simp
      · simp; omega
      · simp [propsUnescapeCb, St.group, capOf, PropertiesEntityMixin_escape_g_uni, PropertiesEntityMixin_escape_g_nl,
          PropertiesEntityMixin_escape_g_single, hs1, knownEscape_spec]
      · simp [hu, hn, hdrop 0]

theorem spec_nil : propsUnescapeSpec [] = [] := by rw [propsUnescapeSpec.eq_def]

theorem slice_snoc (s : Array Nat) (last pos c : Nat) (h : s[pos]? = some c) (hl : last ≤ pos) :
    slice s last (pos + 1) = slice s last pos ++ [c] := by
  have hlt := getElem?_some_lt h
  have e : ∀ b, slice s last b = (s.toList.drop last).take (b - last) := by
    intro b; unfold slice; rw [Array.toList_extract]
  rw [e, e, show pos + 1 - last = (pos - last) + 1 by omega, List.take_add_one]
  congr 1
  have : (s.toList.drop last)[pos - last]? = some c := by
    rw [List.getElem?_drop, show last + (pos - last) = pos by omega]
    simpa using h
  simp [this]

theorem finditer_at_end (s : Array Nat) (f : Nat) :
    finditerAux s PropertiesEntityMixin_escape (f + 1) s.size false = [] := by
  rw [finditerAux]
  have hm : matchAt s PropertiesEntityMixin_escape s.size = none := escape_nomatch_ne s s.size (by simp)
  simp [hm, search_gt s _ (s.size + 1) (by omega)]

theorem sub_spec (s : Array Nat) :
    ∀ n pos fuel last, s.size - pos ≤ n → pos ≤ s.size → n + 1 ≤ fuel → last ≤ pos →
      subGo s (propsUnescapeCb s) (finditerAux s PropertiesEntityMixin_escape fuel pos false) last =
        some (slice s last pos ++ propsUnescapeSpec (s.toList.drop pos)) := by
  intro n
  induction n with
  | zero =>
    intro pos fuel last h1 h2 h3 h4
    have hp : pos = s.size := by omega
    subst hp
    obtain ⟨f, rfl⟩ : ∃ f, fuel = f + 1 := ⟨fuel - 1, by omega⟩
    have hdn : s.toList.drop s.size = [] := List.drop_eq_nil_of_le (by simp)
    rw [finditer_at_end, subGo, hdn, spec_nil]
    simp
  | succ n ih =>
    intro pos fuel last h1 h2 h3 h4
    obtain ⟨f, rfl⟩ : ∃ f, fuel = f + 1 := ⟨fuel - 1, by omega⟩
    rcases drop_view s pos with ⟨_, hge, hd⟩ | ⟨c, h0, hlt, hd⟩
    · have hp : pos = s.size := by omega
      subst hp
      rw [finditer_at_end, subGo, hd, spec_nil]
      simp
    · -- a character at pos
      have skip : matchAt s PropertiesEntityMixin_escape pos = none →
          propsUnescapeSpec (c :: s.toList.drop (pos + 1)) = c :: propsUnescapeSpec (s.toList.drop (pos + 1)) →
          subGo s (propsUnescapeCb s) (finditerAux s PropertiesEntityMixin_escape (f + 1) pos false) last =
            some (slice s last pos ++ propsUnescapeSpec (s.toList.drop pos)) := by
        intro hm hs
        rw [finditerAux_skip s _ f pos hm h2, ih (pos + 1) (f + 1) last (by omega) (by omega) (by omega) (by omega)]
        rw [hd, hs, slice_snoc s last pos c h0 h4]
        simp
      by_cases hc : c = 92
      · subst hc
        rcases drop_view s (pos + 1) with ⟨h1n, _, hd1⟩ | ⟨d, h1s, _, hd1⟩
        · refine skip (escape_nomatch_end s pos h1n) ?_
          rw [hd1, spec_lone, spec_nil]
        · have hdd : s.toList.drop pos = 92 :: d :: s.toList.drop (pos + 1 + 1) := by rw [hd, hd1]
          obtain ⟨st, a, hm, hgt, hle, hcb, hspec⟩ := escape_match s pos d _ hdd
          rw [finditerAux]
          simp only [show ¬ pos > s.size by omega, if_false, Bool.false_eq_true, hm]
          have hne : (st.pos == pos) = false := by simp; omega
          rw [hne, subGo, hcb, ih st.pos f st.pos (by omega) hle (by omega) (Nat.le_refl _)]
          simp only []
          rw [hdd, ← hspec]
          simp [slice]
      · exact skip (escape_nomatch_ne s pos (by simp [h0, hc])) (spec_cons_ne c _ hc)

theorem propsVal_eq_spec (v : List Nat) : propsVal v = some (propsUnescapeSpec v) := by
  unfold propsVal subWithOpt finditer
  have := sub_spec v.toArray v.toArray.size 0 (2 * v.toArray.size + 3) 0 (by omega) (by omega) (by omega) (by omega)
  simp only [this]
  simp [slice]
end P

/-
C16G, part 2 (generic in the record syntax): files printed as `pre(key) ++ value ++ post ++ ⏎` per record.
What `serialize` returns for two such files, as TEXT: an optional leading newline followed by the printed expected
records (`out_text`).  Instances: `.dtd` (`<!ENTITY k "v">`), `.inc` (`#define k v`), `.properties` (`k=v`).
-/
import CLModel.Proofs.C16RText
import CLModel.Proofs.C16GNoAdj
namespace C16G
open AR Ser C16L C16R
open P (PRec)

/-- the syntax of one record: the text before the value (a function of the key) and the text after it -/
structure RFmt where
  pre : List Nat → List Nat
  post : List Nat

/-- the entry-level view of the entity parsed from a printed record -/
def entF (F : RFmt) (r : PRec) : Ent :=
  { kind := .entity, key := r.1, val := r.2, all := F.pre r.1 ++ r.2 ++ F.post, pre := F.pre r.1, post := F.post }

/-- entries of a printed file: per record the entity and the white-space entry of its newline -/
def entsF (F : RFmt) (rs : List PRec) : List Ent := mkList (entF F) rs

def recText (F : RFmt) (r : PRec) : List Nat := F.pre r.1 ++ r.2 ++ F.post

/-- the printed file -/
def printF (F : RFmt) (rs : List PRec) : List Nat := (rs.map (fun r => recText F r ++ [10])).flatten

theorem entsF_cons (F : RFmt) (r : PRec) (rs : List PRec) : entsF F (r :: rs) = entF F r :: entW :: entsF F rs :=
  mkList_cons _ r rs

theorem mem_entsF {F : RFmt} {rs : List PRec} {e : Ent} (h : e ∈ entsF F rs) : e = entW ∨ ∃ r ∈ rs, e = entF F r := by
  unfold entsF mkList at h
  rw [List.mem_flatMap] at h
  obtain ⟨r, hr, he⟩ := h
  simp only [List.mem_cons, List.not_mem_nil, or_false] at he
  rcases he with rfl | rfl
  · exact .inr ⟨r, hr, rfl⟩
  · exact .inl rfl

theorem mem_entsF_of {F : RFmt} {rs : List PRec} {r : PRec} (h : r ∈ rs) : entF F r ∈ entsF F rs := by
  unfold entsF mkList
  rw [List.mem_flatMap]
  exact ⟨r, h, by simp⟩

/-! ### the shape -/

theorem map_entsF (F : RFmt) (g : Ent → Ent) (hg : g entW = entW) (rs : List PRec) :
    ((entsF F rs).filter (fun e => !e.isJunk)).map g = mkList (fun r => g (entF F r)) rs := by
  induction rs with
  | nil => rfl
  | cons r rs ih =>
    rw [entsF_cons, mkList_cons]
    have h1 : (fun e : Ent => !e.isJunk) (entF F r) = true := rfl
    have h2 : (fun e : Ent => !e.isJunk) entW = true := rfl
    simp only [List.filter_cons, h1, h2, if_true, List.map_cons, hg]
    rw [ih]

theorem alt_d0F (F : RFmt) (rs : List PRec) (hn : (rs.map (·.1)).Nodup) : Alt wsKey (dkeys (d0Of (entsF F rs))) := by
  unfold d0Of plOf
  rw [map_entsF F placeholder rfl]
  apply alt_parseResource_mkList _ _ _ rs hn
  intro r
  exact ⟨rfl, rfl, rfl⟩

theorem sanOf_entF (F : RFmt) (ref : List Ent) (nd : NewData) (r : PRec) :
    sanOf ref nd (entF F r) = entF F r ∨ sanOf ref nd (entF F r) = mkPlaceholder r.1 := by
  unfold sanOf
  split
  · exact .inr rfl
  · exact .inl rfl

theorem sanOf_entW (ref : List Ent) (nd : NewData) : sanOf ref nd entW = entW := by
  unfold sanOf shouldPlaceholder; rfl

theorem alt_d1F (F : RFmt) (ref : List Ent) (rs : List PRec) (nd : NewData) (hn : (rs.map (·.1)).Nodup) :
    Alt wsKey (dkeys (d1Of ref (entsF F rs) nd)) := by
  unfold d1Of
  rw [osOf_eq, map_entsF F (sanOf ref nd) (sanOf_entW ref nd)]
  apply alt_parseResource_mkList _ _ _ rs hn
  intro r
  rcases sanOf_entF F ref nd r with h | h <;> rw [h] <;> exact ⟨rfl, rfl, rfl⟩

/-- what the proofs need of the OLD entry list `oldE` holding the records `oldRecs` (instances: a printed file; a printed
    file after one leading newline) -/
structure OldOKF (F : RFmt) (ref : List Ent) (nd : NewData) (oldE : List Ent) (oldRecs : List PRec) : Prop where
  alt : Alt wsKey (dkeys (d1Of ref oldE nd))
  mem : ∀ e ∈ oldE, e = entW ∨ ∃ r ∈ oldRecs, e = entF F r
  entry : ∀ s, oldEntry oldE s = (oldRecs.find? (fun o => o.1 == s)).map (entF F)

theorem alt_outF (F : RFmt) (refRecs : List PRec) (nd : NewData) (oldE : List Ent) (oldRecs : List PRec)
    (hrk : (refRecs.map (·.1)).Nodup) (ho : OldOKF F (entsF F refRecs) nd oldE oldRecs) :
    Alt Ent.isWs (serializeEnts (entsF F refRecs) oldE nd) :=
  serializeEnts_alt _ _ _ (alt_d0F F refRecs hrk) ho.alt

/-! ### the entries of the output, one by one -/

/-- a one-newline white-space entry, or an entity whose text is the printed record of its key and value -/
def GoodF (F : RFmt) (Sf : PRec → Prop) (e : Ent) : Prop :=
  (e.isWs = true ∧ e.all = [10]) ∨
  (e.isWs = false ∧ e.isReal = true ∧ Sf (recOf e) ∧ e.all = recText F (recOf e))

theorem good_outF (F : RFmt) (Sf : PRec → Prop) (refRecs : List PRec) (nd : NewData) (oldE : List Ent) (oldRecs : List PRec)
    (ho : OldOKF F (entsF F refRecs) nd oldE oldRecs)
    (hold : ∀ r ∈ oldRecs, Sf r)
    (hv : ∀ r ∈ refRecs, ∀ v, (r.1, some v) ∈ nd → Sf (r.1, v)) :
    ∀ e ∈ serializeEnts (entsF F refRecs) oldE nd, GoodF F Sf e := by
  intro e he
  obtain ⟨_, _, h⟩ := C16L.nothing_foreign _ _ nd e he
  rcases h with h | ⟨h, _⟩ | ⟨h, hne⟩
  · obtain ⟨_, _, v, r, hm, hr, rfl⟩ := mem_nl (ref := entsF F refRecs) h
    obtain ⟨hrm, hre, hrk⟩ := refMapping_some hr
    rcases mem_entsF hrm with rfl | ⟨r', hr', rfl⟩
    · exact absurd hre (by decide)
    · have hk : (wrap (entF F r') v).key = r'.1 := rfl
      rw [hk] at hm
      exact .inr ⟨rfl, rfl, hv r' hr' v hm, rfl⟩
  · rcases ho.mem _ h with rfl | ⟨r', hr', rfl⟩
    · exact .inl ⟨rfl, rfl⟩
    · exact .inr ⟨rfl, rfl, hold r' hr', rfl⟩
  · rcases mem_entsF h with rfl | ⟨r', _, rfl⟩
    · exact .inl ⟨rfl, rfl⟩
    · exact absurd hne (by simp [entF, Ent.isEntity])

/-! ### the entities of the output -/

theorem strKeys_entsF (F : RFmt) (rs : List PRec) :
    (((entsF F rs).filter (fun e => !e.isJunk)).filter strKeyed).map (·.key) = rs.map (·.1) := by
  induction rs with
  | nil => rfl
  | cons r rs ih =>
    rw [entsF_cons]
    have h1 : (fun e : Ent => !e.isJunk) (entF F r) = true := rfl
    have h2 : (fun e : Ent => !e.isJunk) entW = true := rfl
    have h3 : strKeyed (entF F r) = true := rfl
    have h4 : strKeyed entW = false := rfl
    simp only [List.filter_cons, h1, h2, h3, h4, if_true, Bool.false_eq_true, if_false, List.map_cons]
    rw [ih]
    rfl

theorem refKeys_entsF (F : RFmt) (rs : List PRec) (hn : (rs.map (·.1)).Nodup) : refKeys (entsF F rs) = rs.map (·.1) := by
  unfold refKeys
  rw [strKeys_entsF, firstOcc_of_nodup _ hn]

theorem entities_entsF (F : RFmt) (rs : List PRec) : (entsF F rs).filter Ent.isEntity = rs.map (entF F) := by
  induction rs with
  | nil => rfl
  | cons r rs ih =>
    rw [entsF_cons]
    have h1 : (entF F r).isEntity = true := rfl
    have h2 : entW.isEntity = false := rfl
    simp only [List.filter_cons, h1, h2, if_true, Bool.false_eq_true, if_false, List.map_cons, ih]

theorem refMapping_entsF (F : RFmt) (rs : List PRec) (hn : (rs.map (·.1)).Nodup) (r : PRec) (hr : r ∈ rs) :
    dget (refMapping (entsF F rs)) r.1 = some (entF F r) := by
  rw [refMapping_get, entities_entsF]
  apply lastMatch_unique (List.mem_map.2 ⟨r, hr, rfl⟩) (by simp [entF])
  intro y hy hk
  rw [List.mem_map] at hy
  obtain ⟨r', hr', rfl⟩ := hy
  have : r'.1 = r.1 := by simpa [entF] using hk
  rw [eq_of_key hn hr' hr this]

theorem oldEntry_entsF (F : RFmt) (rs : List PRec) (hn : (rs.map (·.1)).Nodup) (s : List Nat) :
    oldEntry (entsF F rs) s = (rs.find? (fun o => o.1 == s)).map (entF F) := by
  unfold oldEntry
  cases hf : rs.find? (fun o => o.1 == s) with
  | none =>
    rw [Option.map_none, lastMatch_eq_none_iff]
    intro e he
    rcases mem_entsF (List.mem_filter.1 he).1 with rfl | ⟨r', hr', rfl⟩
    · rfl
    · have := List.find?_eq_none.1 hf r' hr'
      simp only [beq_iff_eq] at this
      simp [strKeyed, entF, Ent.isComment, Ent.isWs, this]
  | some o =>
    have ho := List.mem_of_find?_eq_some hf
    have hk : o.1 = s := by simpa using List.find?_some hf
    rw [Option.map_some]
    apply lastMatch_unique
    · rw [List.mem_filter]
      exact ⟨mem_entsF_of ho, rfl⟩
    · simp [strKeyed, entF, Ent.isComment, Ent.isWs, hk]
    · intro y hy hp
      rcases mem_entsF (List.mem_filter.1 hy).1 with rfl | ⟨r', hr', rfl⟩
      · simp [strKeyed, entW, Ent.isComment, Ent.isWs] at hp
      · have : r'.1 = s := by simpa [strKeyed, entF, Ent.isComment, Ent.isWs] using hp
        rw [eq_of_key hn hr' ho (this.trans hk.symm)]

theorem chosen_entsF (F : RFmt) (refRecs : List PRec) (nd : NewData) (oldE : List Ent) (oldRecs : List PRec)
    (hrk : (refRecs.map (·.1)).Nodup) (ho : OldOKF F (entsF F refRecs) nd oldE oldRecs) (r : PRec) (hr : r ∈ refRecs) :
    (chosen (entsF F refRecs) oldE nd r.1).map recOf = expectedRec oldRecs nd r := by
  have hrm := refMapping_entsF F refRecs hrk r hr
  have hkn : known (entsF F refRecs) r.1 = true := by rw [known_iff, hrm]; rfl
  unfold chosen newValue expectedRec removed
  rw [hrm, ho.entry, hkn]
  cases hd : dget nd r.1 with
  | none =>
    simp only
    cases hf : oldRecs.find? (fun o => o.1 == r.1) with
    | none => rfl
    | some o =>
      have hk : o.1 = r.1 := by simpa using List.find?_some hf
      simp [entF, Ent.isReal, recOf]
  | some ov =>
    cases ov with
    | none =>
      simp only
      cases oldRecs.find? (fun o => o.1 == r.1) <;> simp
    | some v => simp [wrap, entF, recOf]

theorem out_recordsF (F : RFmt) (refRecs : List PRec) (nd : NewData) (oldE : List Ent) (oldRecs : List PRec)
    (hrk : (refRecs.map (·.1)).Nodup) (ho : OldOKF F (entsF F refRecs) nd oldE oldRecs) (hnd : (nd.map (·.1)).Nodup) :
    ((serializeEnts (entsF F refRecs) oldE nd).filter Ent.isReal).map recOf
      = expectedRecs refRecs oldRecs nd := by
  rw [C16L.serialized_entities _ _ _ hnd, refKeys_entsF F refRecs hrk, List.map_filterMap, List.filterMap_map]
  unfold expectedRecs
  apply filterMap_congr'
  intro r hr
  exact chosen_entsF F refRecs nd oldE oldRecs hrk ho r hr

/-! ### the two shapes of old file -/

/-- a printed old file -/
theorem oldOK_entsF (F : RFmt) (ref : List Ent) (nd : NewData) (oldRecs : List PRec) (hok : (oldRecs.map (·.1)).Nodup) :
    OldOKF F ref nd (entsF F oldRecs) oldRecs where
  alt := alt_d1F F ref oldRecs nd hok
  mem := fun _ he => mem_entsF he
  entry := oldEntry_entsF F oldRecs hok

theorem lastMatch_cons_false {γ : Type} (p : γ → Bool) (x : γ) (l : List γ) (h : p x = false) :
    lastMatch p (x :: l) = lastMatch p l := by
  rw [lastMatch]
  cases lastMatch p l <;> simp [h]

/-- the dict of the sanitized old file `⏎` + printed records -/
theorem d1_lead (F : RFmt) (ref : List Ent) (nd : NewData) (rs : List PRec) (hn : (rs.map (·.1)).Nodup) :
    d1Of ref (entW :: entsF F rs) nd = (MKey.ws 1 0, entW) :: pk 1 (fun r => sanOf ref nd (entF F r)) 1 rs := by
  have hX : ∀ r, (sanOf ref nd (entF F r)).isComment = false ∧ (sanOf ref nd (entF F r)).isWs = false ∧
      (sanOf ref nd (entF F r)).key = r.1 := by
    intro r
    rcases sanOf_entF F ref nd r with h | h <;> rw [h] <;> exact ⟨rfl, rfl, rfl⟩
  unfold d1Of
  rw [osOf_eq]
  have h2 : (fun e : Ent => !e.isJunk) entW = true := rfl
  simp only [List.filter_cons, h2, if_true]
  rw [List.map_cons, sanOf_entW, map_entsF F (sanOf ref nd) (sanOf_entW ref nd)]
  unfold parseResource mkDict
  rw [pairsOf]
  have hc : entW.isComment = false := rfl
  have hw : entW.isWs = true := rfl
  simp only [hc, hw, Bool.false_eq_true, if_false, if_true]
  rw [pairsOf_mkList 1 _ hX]
  apply mkDict_of_nodup
  simp only [List.map_cons, List.nodup_cons, List.mem_map, Nat.zero_add]
  refine ⟨?_, pk_keys_nodup 1 _ rs 1 hn⟩
  rintro ⟨p, hp, hk⟩
  rcases mem_pk 1 _ rs 1 p hp with ⟨r', _, h⟩ | ⟨j, hj, h⟩
  · rw [h] at hk; simp at hk
  · rw [h] at hk
    simp only [MKey.ws.injEq] at hk
    omega

/-- a printed old file after one leading newline (what re-parsing an output with a leading blank line yields) -/
theorem oldOK_lead (F : RFmt) (ref : List Ent) (nd : NewData) (oldRecs : List PRec) (hok : (oldRecs.map (·.1)).Nodup) :
    OldOKF F ref nd (entW :: entsF F oldRecs) oldRecs where
  alt := by
    rw [d1_lead F ref nd oldRecs hok]
    exact ⟨.inl rfl, alt_pk 1 _ oldRecs 1⟩
  mem := by
    intro e he
    rcases List.mem_cons.1 he with rfl | he
    · exact .inl rfl
    · exact mem_entsF he
  entry := by
    intro s
    rw [← oldEntry_entsF F oldRecs hok s]
    unfold oldEntry
    have h2 : (fun e : Ent => !e.isJunk) entW = true := rfl
    simp only [List.filter_cons, h2, if_true]
    exact lastMatch_cons_false _ _ _ rfl

/-! ### from entries to text -/

/-- a list of good entries in which every entity is followed by a white-space entry and no two white-space entries are
    adjacent is, as text, an optional newline followed by the printed records of its entities -/
theorem text_of_alt (F : RFmt) (Sf : PRec → Prop) : ∀ out : List Ent, Alt Ent.isWs out → NoAdj Ent.isWs out →
    (∀ e ∈ out, GoodF F Sf e) →
    serializeLegacy out = (if hw Ent.isWs out then [10] else []) ++ printF F ((out.filter Ent.isReal).map recOf) := by
  intro out
  induction out with
  | nil => intro _ _ _; rfl
  | cons e rest ih =>
    intro ha hn hg
    obtain ⟨hn1, hn2⟩ := (noAdj_cons _ _ _).1 hn
    have ih' := ih ha.2 hn2 (fun x hx => hg x (List.mem_cons_of_mem _ hx))
    have hsl : serializeLegacy (e :: rest) = e.all ++ serializeLegacy rest := by simp [serializeLegacy]
    rcases hg e List.mem_cons_self with ⟨hw1, hall⟩ | ⟨hw1, hr, _, hall⟩
    · -- a newline; the next entry is not white space
      have hrest : hw Ent.isWs rest = false := by
        cases rest with
        | nil => rfl
        | cons y t =>
          cases hy : y.isWs with
          | false => simpa [hw] using hy
          | true => exact absurd ⟨hw1, hy⟩ (hn1 y rfl)
      rw [hsl, hall, ih', hrest, List.filter_cons_of_neg (by simp [isWs_not_real hw1])]
      simp [hw, hw1]
    · have hh : hw Ent.isWs rest = true := by
        rcases ha.1 with h | h
        · rw [hw1] at h; exact absurd h (by simp)
        · exact h
      rw [hsl, hall, ih', hh, List.filter_cons_of_pos hr, List.map_cons]
      simp [hw, hw1, printF]

/-- WHAT `serialize` RETURNS, AS TEXT, for a reference printed from records in the syntax `F` and an old entry list `oldE`
    holding the records `oldRecs`: an optional newline (present iff the pruned entry list starts with a white-space entry)
    and then exactly the printed expected records -/
theorem out_textG (F : RFmt) (Sf : PRec → Prop) (refRecs : List PRec) (nd : NewData) (oldE : List Ent) (oldRecs : List PRec)
    (ho : OldOKF F (entsF F refRecs) nd oldE oldRecs)
    (hold : ∀ r ∈ oldRecs, Sf r)
    (hrk : (refRecs.map (·.1)).Nodup) (hnd : (nd.map (·.1)).Nodup)
    (hv : ∀ r ∈ refRecs, ∀ v, (r.1, some v) ∈ nd → Sf (r.1, v)) :
    serializeOut (entsF F refRecs) oldE nd
      = (if hw Ent.isWs (serializeEnts (entsF F refRecs) oldE nd) then [10] else [])
        ++ printF F (expectedRecs refRecs oldRecs nd) ∧
    ∀ r ∈ expectedRecs refRecs oldRecs nd, Sf r := by
  have hg := good_outF F Sf refRecs nd oldE oldRecs ho hold hv
  have ha := alt_outF F refRecs nd oldE oldRecs hrk ho
  have hn := noAdj_serializeEnts (entsF F refRecs) oldE nd
  have ht := text_of_alt F Sf _ ha hn hg
  rw [out_recordsF F refRecs nd oldE oldRecs hrk ho hnd] at ht
  refine ⟨ht, ?_⟩
  intro r hr
  rw [← out_recordsF F refRecs nd oldE oldRecs hrk ho hnd, List.mem_map] at hr
  obtain ⟨e, he, rfl⟩ := hr
  rw [List.mem_filter] at he
  rcases hg e he.1 with ⟨hw1, _⟩ | ⟨_, _, hs, _⟩
  · rw [isWs_not_real hw1] at he; exact absurd he.2 (by simp)
  · exact hs

/-- … for two printed files -/
theorem out_text (F : RFmt) (Sf : PRec → Prop) (refRecs oldRecs : List PRec) (nd : NewData)
    (hold : ∀ r ∈ oldRecs, Sf r)
    (hrk : (refRecs.map (·.1)).Nodup) (hok : (oldRecs.map (·.1)).Nodup) (hnd : (nd.map (·.1)).Nodup)
    (hv : ∀ r ∈ refRecs, ∀ v, (r.1, some v) ∈ nd → Sf (r.1, v)) :
    serializeOut (entsF F refRecs) (entsF F oldRecs) nd
      = (if hw Ent.isWs (serializeEnts (entsF F refRecs) (entsF F oldRecs) nd) then [10] else [])
        ++ printF F (expectedRecs refRecs oldRecs nd) ∧
    ∀ r ∈ expectedRecs refRecs oldRecs nd, Sf r :=
  out_textG F Sf refRecs nd _ oldRecs (oldOK_entsF F _ nd oldRecs hok) hold hrk hnd hv

end C16G

/-
C05 pipeline, properties files: `PropCk.check` (C06 model of PropertiesChecker.check) never raises.
The only piece C06 left to the correspondence — totality of the unescape model `PropCk.unescape` — is proved here by
showing that it IS the unescape model of C02 (`P.propsVal`, total by `propsVal_eq_spec`) on every text.
Core Lean only.
-/
import CLModel.Checks.Properties
import CLModel.Parser.Values
import CLModel.Proofs.Captures
import CLModel.Proofs.C02Props
import CLModel.Proofs.RxSearch
import CLModel.Proofs.C05Pipe
import CLModel.Proofs.C05Lint
import CLModel.Props.C06
namespace Pipe
open Rx

theorem hexVal_eq (c : Nat) : PropCk.hexVal c = P.hexDigitVal c := by
  unfold PropCk.hexVal P.hexDigitVal
  by_cases h1 : 48 ≤ c ∧ c ≤ 57
  · simp [h1]
  · by_cases h2 : 97 ≤ c ∧ c ≤ 102
    · simp [h1, h2]
    · by_cases h3 : 65 ≤ c ∧ c ≤ 70
      · simp [h1, h2, h3]
      · simp [h1, h2, h3]

theorem hexFold_gen (f : Option Nat → Nat → Option Nat)
    (hf : ∀ acc c, f acc c = acc.bind (fun n => (P.hexDigitVal c).map (fun d => n * 16 + d))) (t : List Nat) :
    ∀ (acc : Option Nat), t.foldl f acc
      = acc.bind (fun a => t.foldlM (fun acc c => (P.hexDigitVal c).map (fun d => acc * 16 + d)) a) := by
  induction t with
  | nil => intro acc; cases acc <;> rfl
  | cons c cs ih =>
    intro acc
    simp only [List.foldl_cons, List.foldlM_cons]
    rw [ih, hf]
    cases acc with
    | none => rfl
    | some a =>
      cases P.hexDigitVal c <;> rfl

theorem hexOf_eq (t : List Nat) : PropCk.hexOf t = P.intBase16 t := by
  unfold PropCk.hexOf P.intBase16
  split
  · rfl
  · rw [hexFold_gen]
    · rfl
    · intro acc c
      rw [hexVal_eq]
      cases acc <;> cases P.hexDigitVal c <;> rfl

theorem lookup_eq_find (c : Nat) : ∀ (l : List (Nat × Nat)), (l.lookup c) = (l.find? (·.1 == c)).map (·.2) := by
  intro l
  induction l with
  | nil => rfl
  | cons p ps ih =>
    obtain ⟨a, b⟩ := p
    by_cases h : c = a
    · subst h; simp [List.lookup, List.find?]
    · have h1 : (c == a) = false := by simpa using h
      have h2 : (a == c) = false := by simpa using fun e : a = c => h e.symm
      simp only [List.lookup, h1, List.find?, h2]
      exact ih

theorem known_eq (c : Nat) : (match Gen.Tables.knownEscapes.lookup c with
         | some r => some [r]
         | none => some [c]) = some (P.knownEscape [c]) := by
  unfold P.knownEscape
  simp only
  rw [lookup_eq_find]
  cases Gen.Tables.knownEscapes.find? (·.1 == c) with
  | none => rfl
  | some p => rfl

theorem extract_cons (s : Array Nat) (a b : Nat) (h1 : a < b) (h2 : b ≤ s.size) :
    ∃ c, (s.extract a b).toList = c :: (s.extract (a + 1) b).toList := by
  have ha : a < s.toList.length := by simp; omega
  refine ⟨s.toList[a], ?_⟩
  rw [Array.toList_extract, Array.toList_extract]
  simp only [List.extract_eq_take_drop]
  have : b - a = (b - (a + 1)) + 1 := by omega
  rw [this, List.drop_eq_getElem_cons ha, List.take_succ_cons]

theorem extract_nil (s : Array Nat) (a : Nat) : (s.extract a a).toList = [] := by
  rw [Array.toList_extract]; simp [List.extract_eq_take_drop]

open Gen.Pat in
theorem unescapeOne_eq (s : Array Nat) (q : Nat) (st : St)
    (hu : ∀ a b, st.group PropertiesEntityMixin_escape_g_uni = some (a, b) → a ≤ b ∧ b ≤ s.size)
    (hn : ∀ a b, st.group PropertiesEntityMixin_escape_g_nl = some (a, b) → a ≤ b ∧ b ≤ s.size) :
    PropCk.unescapeOne s st = P.propsUnescapeCb s q st := by
  unfold PropCk.unescapeOne P.propsUnescapeCb PropCk.groupText
  simp only
  -- the `single` stage, whatever came before
  have single : ∀ (o : Option (Nat × Nat)), st.group PropertiesEntityMixin_escape_g_single = o →
      (match Option.map (PropCk.slice s) o with
        | some [c] => (match Gen.Tables.knownEscapes.lookup c with
                        | some r => some [r]
                        | none => some [c])
        | some t => some t
        | none => none) =
      (match o with
        | some (a, b) => some (P.knownEscape (P.slice s a b))
        | none => none) := by
    intro o _
    cases o with
    | none => rfl
    | some ab =>
      obtain ⟨a, b⟩ := ab
      simp only [Option.map_some, PropCk.slice, P.slice]
      cases hsl : (s.extract a b).toList with
      | nil => rfl
      | cons c t =>
        cases t with
        | nil => exact known_eq c
        | cons d t' => rfl
  have hsg := single _ rfl
  cases hs1 : st.group PropertiesEntityMixin_escape_g_uni with
  | some ab =>
    obtain ⟨a, b⟩ := ab
    obtain ⟨h1, h2⟩ := hu a b hs1
    by_cases hab : a = b
    · subst hab
      simp only [Option.map_some, PropCk.slice, extract_nil, bne_self_eq_false, Bool.false_eq_true, if_false]
      cases hs2 : st.group PropertiesEntityMixin_escape_g_nl with
      | some cd =>
        obtain ⟨c, d⟩ := cd
        obtain ⟨h3, h4⟩ := hn c d hs2
        by_cases hcd : c = d
        · subst hcd
          simp only [Option.map_some, PropCk.slice, extract_nil, bne_self_eq_false, Bool.false_eq_true, if_false]
          exact hsg
        · obtain ⟨x, hx⟩ := extract_cons s c d (by omega) h4
          have hne : (c != d) = true := by simpa using hcd
          simp only [Option.map_some, PropCk.slice, hx, hne, if_true]
      | none =>
        simp only [Option.map_none]
        exact hsg
    · obtain ⟨x, hx⟩ := extract_cons s a b (by omega) h2
      have hne : (a != b) = true := by simpa using hab
      simp only [Option.map_some, PropCk.slice, hx, hne, if_true, hexOf_eq, P.slice]
  | none =>
    simp only [Option.map_none]
    cases hs2 : st.group PropertiesEntityMixin_escape_g_nl with
    | some cd =>
      obtain ⟨c, d⟩ := cd
      obtain ⟨h3, h4⟩ := hn c d hs2
      by_cases hcd : c = d
      · subst hcd
        simp only [Option.map_some, PropCk.slice, extract_nil, bne_self_eq_false, Bool.false_eq_true, if_false]
        exact hsg
      · obtain ⟨x, hx⟩ := extract_cons s c d (by omega) h4
        have hne : (c != d) = true := by simpa using hcd
        simp only [Option.map_some, PropCk.slice, hx, hne, if_true]
    | none =>
      simp only [Option.map_none]
      exact hsg

/-- whatever a look-around-free regex captured lies inside the subject, for `matchAt` and for the
    must-advance variant `matchAtNE` alike -/
theorem group_bounds {s : Array Nat} {r : Re} {p : Nat} {st : St} (g : Nat) {a b : Nat}
    (h : matchAt s r p = some st ∨ matchAtNE s r p = some st) (hp : p ≤ s.size)
    (hn : noLook r = true) (hl : grpMin g 0 r = true)
    (hg : st.group g = some (a, b)) : a ≤ b ∧ b ≤ s.size := by
  have key : ∀ (k : K), (∀ x y, k x = some y → y = x) → m s r ⟨p, []⟩ k = some st → a ≤ b ∧ b ≤ s.size := by
    intro k hk hm
    obtain ⟨st1, ⟨_, new, e1, c1⟩, h3⟩ := m_capsL s g 0 r hn hl ⟨p, []⟩ k st hm
    obtain ⟨st2, _, hsz, h4⟩ := m_good s r ⟨p, []⟩ k st hm
    have e3 := hk _ _ h3
    have e4 := hk _ _ h4
    subst e3
    subst e4
    simp only [List.append_nil] at e1
    simp only [St.group, capOf, e1] at hg
    split at hg
    · rename_i i a' b' hf
      simp only [Option.some.injEq, Prod.mk.injEq] at hg
      obtain ⟨rfl, rfl⟩ := hg
      have hmem := List.mem_of_find?_eq_some hf
      have := c1 _ hmem
      have hsz' := hsz hp
      simp only at this hsz'
      exact ⟨by omega, by omega⟩
    · cases hg
  rcases h with h | h
  · exact key some (fun x y e => by cases e; rfl) h
  · refine key _ ?_ h
    intro x y e
    split at e
    · cases e
    · cases e; rfl

theorem go_eq (s : Array Nat) : ∀ (ms : List (Nat × St)) (last : Nat),
    (∀ p ∈ ms, PropCk.unescapeOne s p.2 = P.propsUnescapeCb s p.1 p.2) →
    PropCk.unescape.go s ms last = P.subGo s (P.propsUnescapeCb s) ms last := by
  intro ms
  induction ms with
  | nil => intro last _; rfl
  | cons p ps ih =>
    intro last h
    obtain ⟨q, st⟩ := p
    simp only [PropCk.unescape.go, P.subGo]
    rw [h (q, st) (by simp), ih st.pos (fun p hp => h p (by simp [hp]))]
    rfl

theorem unescape_eq_propsVal (raw : List Nat) : PropCk.unescape raw = P.propsVal raw := by
  unfold PropCk.unescape P.propsVal P.subWithOpt
  simp only
  apply go_eq
  intro p hp
  obtain ⟨hle, hm⟩ := finditer_sound _ _ p hp
  apply unescapeOne_eq
  · intro a b hg
    exact group_bounds _ hm hle (by decide) (by decide) hg
  · intro a b hg
    exact group_bounds _ hm hle (by decide) (by decide) hg

theorem unescape_total (raw : List Nat) : ∃ v, PropCk.unescape raw = some v :=
  ⟨_, (unescape_eq_propsVal raw).trans (P.propsVal_eq_spec raw)⟩

/-! ### `PropertiesChecker.check` never raises, and starts with the base check -/

theorem check_shape (e : PropCk.Ents) : ∃ rest, PropCk.check e = some (PropCk.baseCheck e ++ rest) := by
  obtain ⟨refValue, hr⟩ := unescape_total e.refRaw
  obtain ⟨l10nValue, hl⟩ := unescape_total e.l10nRaw
  cases hg : PropCk.pluralGate e.refComment e.refKey refValue with
  | true =>
    obtain ⟨known, pats, lpats, _, _, _, h⟩ := C06.plural_verdict e refValue l10nValue hr hl hg
    exact ⟨_, h⟩
  | false =>
    cases hR : PropCk.getPrintfSpecs refValue with
    | error err =>
      exact ⟨_, C06.check_no_reference_args e refValue l10nValue hr hl hg (Or.inr ⟨err, hR⟩)⟩
    | ok R =>
      cases R with
      | nil => exact ⟨_, C06.check_no_reference_args e refValue l10nValue hr hl hg (Or.inl hR)⟩
      | cons x xs =>
        obtain ⟨pf, _, h, _⟩ := C06.check_printf e refValue l10nValue (x :: xs) hr hl hg hR (by simp)
        exact ⟨_, by rw [h, List.append_assoc]⟩

/-- the properties checker answers for two Entities with `str` keys, with positions the localized Entity resolves -/
theorem runProps_ok (fmt : P.Fmt) (hf : fmt ≠ .po) (cls : Cls) (locale : Option Text) (r l : PEnt)
    (hr : PWf fmt r) (hl : PWf fmt l) (hrj : r.junk = false) (hlj : l.junk = false) :
    ∃ rs, runProps locale r l = .ok rs ∧ (∀ c ∈ rs, Resolvable cls l c.pos) ∧
      ∀ b ∈ runBase l, b ∈ rs := by
  obtain ⟨rk, hrk⟩ := hr.2.1 hf
  obtain ⟨lk, hlk⟩ := hl.2.1 hf
  generalize hE : ({ locale := locale, refComment := r.comment, refKey := rk, refRaw := r.raw,
                     l10nKey := lk, l10nAll := l.all, l10nRaw := l.raw } : PropCk.Ents) = E
  obtain ⟨rest, hc⟩ := check_shape E
  refine ⟨(PropCk.baseCheck E ++ rest).map ofFinding,
    by simp only [runProps, hrj, Bool.false_eq_true, if_false, hrk, hlk, hE, hc], ?_, ?_⟩
  · intro c hcm
    simp only [List.mem_map] at hcm
    obtain ⟨f, _, rfl⟩ := hcm
    cases hp : f.pos with
    | val n => exact Or.inr (Or.inl ⟨⟨n, by simp [ofFinding, hp]⟩, Or.inr ⟨hlj, hl.entity hlj⟩⟩)
    | ent n => exact Or.inl ⟨n, by simp [ofFinding, hp]⟩
  · intro b hb
    simp only [runBase, List.mem_map] at hb
    obtain ⟨x, hx, rfl⟩ := hb
    simp only [Checks.baseCheck, List.mem_map] at hx
    obtain ⟨m, hm, rfl⟩ := hx
    simp only [List.mem_map]
    refine ⟨⟨.warning, .ent m.1, PropCk.sInColon ++ lk, .encodings⟩, ?_, ?_⟩
    · apply List.mem_append_left
      subst hE
      simp only [PropCk.baseCheck, List.mem_map]
      exact ⟨m, hm, rfl⟩
    · simp only [ofFinding, catText, hlk, keyText]
      rfl

theorem checkerOK_props (fmt : P.Fmt) (hf : fmt ≠ .po) (env : Env) (h : env.ck.kind = .properties) (hc : env.cls = .plain)
    (ref l10n : List PEnt) (hwr : ∀ e ∈ ref, PWf fmt e) (hwl : ∀ e ∈ l10n, PWf fmt e) : CheckerOK env ref l10n := by
  intro r hr l hl hrj hlj
  obtain ⟨rs, h1, h2, _⟩ := runProps_ok fmt hf env.cls env.ck.locale r l (hwr r hr) (hwl l hl) hrj (hlj (by rw [h]; simp))
  exact ⟨⟨_, by rw [hc]; rfl⟩, rs, by simp only [runChecker, h, h1], h2⟩

/-- the properties checker, as the linter calls it -/
theorem lint_checker_props (fmt : P.Fmt) (hf : fmt ≠ .po) (c : CkCtx) (hc : c.kind = .properties) (cls : Cls)
    (e : PEnt) (hw : PWf fmt e) (hj : e.junk = false) :
    ∃ rs, runChecker c e e = .ok rs ∧ ∀ r ∈ rs, Resolvable cls e r.pos := by
  obtain ⟨rs, h1, h2, _⟩ := runProps_ok fmt hf cls c.locale e e hw hw hj hj
  exact ⟨rs, by simp only [runChecker, hc, h1], h2⟩

/-! ### the checkers of the formats whose checker needs nothing external (base `Checker`, `PropertiesChecker`) -/

/-- ini, inc, po, properties -/
def Internal (fmt : P.Fmt) : Prop := fmt ≠ .dtd

theorem internal_kind {fmt : P.Fmt} (h : Internal fmt) : checkerOf fmt = .base ∨ (checkerOf fmt = .properties ∧ fmt ≠ .po) := by
  cases fmt <;> simp [checkerOf, Internal] at h ⊢

theorem internal_cls {fmt : P.Fmt} (h : Internal fmt) : clsOf fmt = .plain := by
  cases fmt <;> simp [clsOf, Internal] at h ⊢

theorem checkerOK_internal (fmt : P.Fmt) (hi : Internal fmt) (env : Env) (hk : env.ck.kind = checkerOf fmt)
    (hc : env.cls = clsOf fmt)
    (ref l10n : List PEnt) (hwr : ∀ e ∈ ref, PWf fmt e) (hwl : ∀ e ∈ l10n, PWf fmt e) : CheckerOK env ref l10n := by
  rw [internal_cls hi] at hc
  rcases internal_kind hi with h | ⟨h, hf⟩
  · exact checkerOK_base env (hk.trans h) hc ref l10n
  · exact checkerOK_props fmt hf env (hk.trans h) hc ref l10n hwr hwl

/-- whatever the checker of such a format yields contains the results of the base check -/
theorem base_in_results (fmt : P.Fmt) (hi : Internal fmt) (c : CkCtx) (hk : c.kind = checkerOf fmt)
    (r l : PEnt) (hr : PWf fmt r) (hl : PWf fmt l) (hrj : r.junk = false) (hlj : c.kind ≠ .base → l.junk = false)
    (rs : List CheckRes) (h : runChecker c r l = .ok rs) : ∀ b ∈ runBase l, b ∈ rs := by
  rcases internal_kind hi with hb | ⟨hp, hf⟩
  · simp only [runChecker, hk.trans hb, Except.ok.injEq] at h
    subst h
    exact fun b hb => hb
  · obtain ⟨rs', h1, _, h3⟩ := runProps_ok fmt hf .plain c.locale r l hr hl hrj (hlj (by rw [hk, hp]; simp))
    simp only [runChecker, hk.trans hp] at h
    rw [h1] at h
    cases h
    exact h3

theorem lint_checker_internal (fmt : P.Fmt) (hi : Internal fmt) (c : CkCtx) (hk : c.kind = checkerOf fmt) (cls : Cls)
    (e : PEnt) (hw : PWf fmt e) (hj : e.junk = false) :
    ∃ rs, runChecker c e e = .ok rs ∧ ∀ r ∈ rs, Resolvable cls e r.pos := by
  rcases internal_kind hi with hb | ⟨hp, hf⟩
  · exact lint_checker_base c (hk.trans hb) cls e
  · exact lint_checker_props fmt hf c (hk.trans hp) cls e hw hj

end Pipe

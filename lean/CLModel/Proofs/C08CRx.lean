/- C08/C07 CSS (extension C), part 1: engine lemmas used to run the two CSS regexes on a grammatical spec.
   * a regex made of literals, sequences, alternatives and ε denotes a finite list of texts (`langOf`);
     on a prefix-free list its behaviour is deterministic (`m_lang_det`);
   * a greedy class star/plus whose continuation fails inside the run, or succeeds at its end;
   * one `finditer` step that skips unmatched positions (no assumption that the regex cannot match ε). -/
import CLModel.Rx.Basic
import CLModel.Gen.Regexes
import CLModel.Proofs.RxLemmas
import CLModel.Proofs.RxSearch
import CLModel.Proofs.RxStar
import CLModel.Proofs.C09Rx
namespace C08C
open Rx

abbrev Text := List Nat

/-! ### a text standing at a position -/

def textAt (s : Array Nat) : Nat → Text → Bool
  | _, [] => true
  | p, c :: t => s[p]? == some c && textAt s (p + 1) t

theorem textAt_append (s : Array Nat) : ∀ (a b : Text) (p : Nat),
    textAt s p (a ++ b) = (textAt s p a && textAt s (p + a.length) b)
  | [], b, p => by simp [textAt]
  | c :: a, b, p => by
    simp only [List.cons_append, textAt, textAt_append s a b (p + 1), List.length_cons, Bool.and_assoc]
    congr 3; omega

theorem drop_succ_of_cons {l : List Nat} {p c : Nat} {t : List Nat} (h : l.drop p = c :: t) : l.drop (p + 1) = t := by
  have : l.drop (p + 1) = (l.drop p).drop 1 := by rw [List.drop_drop]
  rw [this, h]; rfl

theorem get_of_drop_cons {s : Array Nat} {p c : Nat} {t : List Nat} (h : s.toList.drop p = c :: t) : s[p]? = some c := by
  have : (s.toList.drop p)[0]? = some c := by rw [h]; rfl
  simpa [List.getElem?_drop] using this

theorem textAt_of_drop (s : Array Nat) : ∀ (t rest : Text) (p : Nat), s.toList.drop p = t ++ rest → textAt s p t = true
  | [], _, _, _ => rfl
  | c :: t, rest, p, h => by
    simp only [textAt, get_of_drop_cons h, beq_self_eq_true, Bool.true_and]
    exact textAt_of_drop s t rest (p + 1) (drop_succ_of_cons h)

theorem drop_append_of_drop {l : List Nat} {p : Nat} {a b : List Nat} (h : l.drop p = a ++ b) :
    l.drop (p + a.length) = b := by
  have : l.drop (p + a.length) = (l.drop p).drop a.length := by rw [List.drop_drop]
  rw [this, h, List.drop_left]

theorem textAt_head_ne (s : Array Nat) (p h c : Nat) (t : Text) (hs : s[p]? = some c) (hne : c ≠ h) :
    textAt s p (h :: t) = false := by
  simp [textAt, hs, hne]

theorem textAt_none (s : Array Nat) (p h : Nat) (t : Text) (hs : s[p]? = none) : textAt s p (h :: t) = false := by
  simp [textAt, hs]

theorem textAt_prefix (s : Array Nat) : ∀ (a b : Text) (p : Nat), textAt s p a = true → textAt s p b = true →
    a <+: b ∨ b <+: a
  | [], b, _, _, _ => Or.inl (List.nil_prefix)
  | _ :: _, [], _, _, _ => Or.inr (List.nil_prefix)
  | x :: a, y :: b, p, ha, hb => by
    simp only [textAt, Bool.and_eq_true, beq_iff_eq] at ha hb
    have : x = y := by
      have := ha.1.symm.trans hb.1
      simpa using this
    subst this
    rcases textAt_prefix s a b (p + 1) ha.2 hb.2 with h | h
    · exact Or.inl ((List.prefix_cons_inj x).mpr h)
    · exact Or.inr ((List.prefix_cons_inj x).mpr h)

/-! ### regexes of literals: their finite language, in priority order -/

def langOf : Re → Option (List Text)
  | .lit c => some [[c]]
  | .eps => some [[]]
  | .seq a b =>
    match langOf a, langOf b with
    | some la, some lb => some (la.flatMap (fun x => lb.map (x ++ ·)))
    | _, _ => none
  | .alt a b =>
    match langOf a, langOf b with
    | some la, some lb => some (la ++ lb)
    | _, _ => none
  | _ => none

def firstSomeT (f : Text → Option St) : List Text → Option St
  | [] => none
  | t :: ts => (f t).orElse (fun _ => firstSomeT f ts)

theorem firstSomeT_append (f : Text → Option St) (a b : List Text) :
    firstSomeT f (a ++ b) = (firstSomeT f a).orElse (fun _ => firstSomeT f b) := by
  induction a with
  | nil => simp [firstSomeT]
  | cons x xs ih =>
    simp only [List.cons_append, firstSomeT, ih]
    cases f x <;> simp

theorem firstSomeT_map (f : Text → Option St) (g : Text → Text) (l : List Text) :
    firstSomeT f (l.map g) = firstSomeT (fun t => f (g t)) l := by
  induction l with
  | nil => rfl
  | cons x xs ih => simp [firstSomeT, ih]

theorem firstSomeT_none (f : Text → Option St) (l : List Text) (h : ∀ t ∈ l, f t = none) : firstSomeT f l = none := by
  induction l with
  | nil => rfl
  | cons x xs ih =>
    simp only [firstSomeT, h x (by simp)]
    simpa using ih (fun t ht => h t (by simp [ht]))

theorem firstSomeT_flatMap (f : Text → Option St) (g : Text → List Text) (l : List Text) :
    firstSomeT f (l.flatMap g) = firstSomeT (fun x => firstSomeT f (g x)) l := by
  induction l with
  | nil => rfl
  | cons x xs ih => simp only [List.flatMap_cons, firstSomeT_append, firstSomeT, ih]

/-- what the continuation sees after the text `t` -/
def after (st : St) (t : Text) : St := { st with pos := st.pos + t.length }

/-- exact behaviour of a literal regex: its texts are tried in order -/
theorem m_lang (s : Array Nat) : ∀ (r : Re) (l : List Text), langOf r = some l → ∀ (st : St) (k : K),
    m s r st k = firstSomeT (fun t => if textAt s st.pos t then k (after st t) else none) l := by
  intro r
  induction r with
  | lit c =>
    intro l hl st k
    simp only [langOf, Option.some.injEq] at hl
    subst hl
    simp only [m, firstSomeT, textAt, Bool.and_true, after, List.length_cons, List.length_nil, Nat.zero_add]
    split <;> simp_all
  | eps =>
    intro l hl st k
    simp only [langOf, Option.some.injEq] at hl
    subst hl
    simp [m, firstSomeT, textAt, after]
  | seq a b iha ihb =>
    intro l hl st k
    simp only [langOf] at hl
    split at hl
    · rename_i la lb ha hb
      simp only [Option.some.injEq] at hl
      subst hl
      simp only [m]
      rw [iha la ha, firstSomeT_flatMap]
      congr 1
      funext x
      rw [firstSomeT_map]
      by_cases hx : textAt s st.pos x = true
      · simp only [hx, if_true]
        rw [ihb lb hb]
        congr 1
        funext y
        simp only [textAt_append, hx, Bool.true_and, after, List.length_append, Nat.add_assoc]
      · simp only [hx]
        rw [firstSomeT_none]
        · rfl
        · intro y _
          simp [textAt_append, hx]
    · cases hl
  | alt a b iha ihb =>
    intro l hl st k
    simp only [langOf] at hl
    split at hl
    · rename_i la lb ha hb
      simp only [Option.some.injEq] at hl
      subst hl
      simp only [m]
      rw [iha la ha, ihb lb hb, firstSomeT_append]
    · cases hl
  | _ => intro l hl; simp [langOf] at hl

/-- no text of the list is a proper prefix of another one -/
def prefixFree (l : List Text) : Bool := l.all (fun a => l.all (fun b => !(a.isPrefixOf b) || a == b))

/-- on a prefix-free language the literal regex is deterministic: it consumes the one text that stands there -/
theorem m_lang_det (s : Array Nat) (r : Re) (l : List Text) (hl : langOf r = some l) (hpf : prefixFree l = true)
    (u : Text) (hu : u ∈ l) (st : St) (ht : textAt s st.pos u = true) (k : K) :
    m s r st k = k (after st u) := by
  rw [m_lang s r l hl]
  have huniq : ∀ t ∈ l, textAt s st.pos t = true → t = u := by
    intro t htl htt
    simp only [prefixFree, List.all_eq_true, Bool.or_eq_true, Bool.not_eq_true', beq_iff_eq] at hpf
    rcases textAt_prefix s t u st.pos htt ht with h | h
    · rcases hpf t htl u hu with h' | h'
      · have := List.isPrefixOf_iff_prefix.mpr h
        rw [this] at h'; cases h'
      · exact h'
    · rcases hpf u hu t htl with h' | h'
      · have := List.isPrefixOf_iff_prefix.mpr h
        rw [this] at h'; cases h'
      · exact h'.symm
  -- every entry of the list gives `none` or `k (after st u)`
  have key : ∀ (l' : List Text), (∀ t ∈ l', t ∈ l) → u ∈ l' →
      firstSomeT (fun t => if textAt s st.pos t then k (after st t) else none) l' = k (after st u) := by
    intro l'
    induction l' with
    | nil => intro _ h; cases h
    | cons x xs ih =>
      intro hsub hmem
      simp only [firstSomeT]
      by_cases hx : textAt s st.pos x = true
      · have := huniq x (hsub x (by simp)) hx
        subst this
        simp only [hx, if_true]
        cases hk : k (after st x) with
        | some r => rfl
        | none =>
          simp only [Option.orElse_none]
          by_cases hm : x ∈ xs
          · rw [ih (fun t ht => hsub t (by simp [ht])) hm, hk]
          · rw [firstSomeT_none]
            intro t ht'
            by_cases htt : textAt s st.pos t = true
            · have := huniq t (hsub t (by simp [ht'])) htt
              subst this; exact absurd ht' hm
            · simp [htt]
      · simp only [hx]
        have hne : u ≠ x := by rintro rfl; exact hx ht
        have hm : u ∈ xs := by
          rcases List.mem_cons.mp hmem with h | h
          · exact absurd h hne
          · exact h
        simpa using ih (fun t ht => hsub t (by simp [ht])) hm
  exact key l (fun _ h => h) hu

/-- no text of the language stands here: the literal regex fails -/
theorem m_lang_none (s : Array Nat) (r : Re) (l : List Text) (hl : langOf r = some l) (st : St)
    (h : ∀ t ∈ l, textAt s st.pos t = false) (k : K) : m s r st k = none := by
  rw [m_lang s r l hl]
  apply firstSomeT_none
  intro t ht
  simp [h t ht]

/-! ### repeats -/

theorem loop_fail_min (body : St → K → Option St) (g : Bool) (fuel mn : Nat) (mx : Option Nat) (st : St) (k : K)
    (h : ∀ k', body st k' = none) (hmn : mn > 0) : loop body g fuel mn mx st k = none := by
  cases fuel with
  | zero => rw [loop]
  | succ f => rw [loop]; simp [h, hmn]

theorem loop_fail_zero (body : St → K → Option St) (g : Bool) (f : Nat) (mx : Option Nat) (st : St) (k : K)
    (h : ∀ k', body st k' = none) : loop body g (f + 1) 0 mx st k = k st := by
  rw [loop]
  simp only [h]
  cases g <;> cases hk : k st <;> simp [hk]

theorem takeWhile_length_app (p : Nat → Bool) : ∀ (a rest : List Nat), a.all p = true →
    (∀ c, rest.head? = some c → p c = false) → ((a ++ rest).takeWhile p).length = a.length
  | [], rest, _, hr => by
    cases rest with
    | nil => rfl
    | cons c r => simp [List.takeWhile_cons, hr c rfl]
  | x :: a, rest, ha, hr => by
    simp only [List.all_cons, Bool.and_eq_true] at ha
    simp only [List.cons_append, List.takeWhile_cons, ha.1, if_true, List.length_cons,
      takeWhile_length_app p a rest ha.2 hr]

/-- greedy class star: if the continuation succeeds at the end of the maximal run, that is the result -/
theorem star_cls_hit (s : Array Nat) (neg : Bool) (items : List ClsItem) (caps) (k : K) (pos : Nat)
    (hpos : pos ≤ s.size) (r : St)
    (hk : k ⟨pos + ((s.toList.drop pos).takeWhile (inC neg items)).length, caps⟩ = some r) :
    loop (m s (.cls neg items)) true (s.size + 2 - pos) 0 none ⟨pos, caps⟩ k = some r := by
  have hrun := run_eq_takeWhile s neg items (s.size + 2 - pos) pos (by omega)
  have hle : ((s.toList.drop pos).takeWhile (inC neg items)).length ≤ s.size - pos := by
    have := (List.takeWhile_prefix (inC neg items) (l := s.toList.drop pos)).length_le
    simpa using this
  rw [star_greedy_cls s neg items caps k (s.size + 2 - pos) pos (by rw [hrun]; omega), hrun]
  generalize ((s.toList.drop pos).takeWhile (inC neg items)).length = n at hk
  cases n with
  | zero => simpa [downFrom, firstSome] using hk
  | succ n =>
    simp only [downFrom, firstSome]
    have e : pos + n + 1 = pos + (n + 1) := by omega
    rw [e, hk]; rfl

/-- greedy class star whose continuation fails inside the run: exactly the maximal run is taken -/
theorem star_cls_then (s : Array Nat) (neg : Bool) (items : List ClsItem) (caps) (k : K) (pos : Nat)
    (hpos : pos ≤ s.size)
    (hk : ∀ j c, s[j]? = some c → inC neg items c = true → k ⟨j, caps⟩ = none) :
    loop (m s (.cls neg items)) true (s.size + 2 - pos) 0 none ⟨pos, caps⟩ k =
      k ⟨pos + ((s.toList.drop pos).takeWhile (inC neg items)).length, caps⟩ := by
  have hrun := run_eq_takeWhile s neg items (s.size + 2 - pos) pos (by omega)
  have hle : ((s.toList.drop pos).takeWhile (inC neg items)).length ≤ s.size - pos := by
    have := (List.takeWhile_prefix (inC neg items) (l := s.toList.drop pos)).length_le
    simpa using this
  rw [star_greedy_cls s neg items caps k (s.size + 2 - pos) pos (by rw [hrun]; omega), hrun,
    firstSome_downFrom_last]
  intro j h1 h2
  obtain ⟨c, hc, hp⟩ := takeWhile_getElem? (p := inC neg items) (s.toList.drop pos) (j - pos) (by omega)
  have : s[j]? = some c := by
    rw [List.getElem?_drop] at hc
    have e : pos + (j - pos) = j := by omega
    rw [e] at hc; simpa using hc
  exact hk j c this hp

/-! ### one step of `finditer` -/

/-- the next match is at `q`: everything before is skipped (the regex may match the empty string) -/
theorem finditerAux_skip (s : Array Nat) (r : Re) (fuel pos q : Nat) (st : St) (hq1 : pos ≤ q) (hq2 : q ≤ s.size)
    (hnone : ∀ q', pos ≤ q' → q' < q → matchAt s r q' = none) (hm : matchAt s r q = some st) :
    finditerAux s r (fuel + 1) pos false = (q, st) :: finditerAux s r fuel st.pos (st.pos == q) := by
  simp only [finditerAux]
  rw [if_neg (by omega)]
  simp only [Bool.false_eq_true, if_false]
  by_cases hpq : pos = q
  · subst hpq
    rw [hm]
  · rw [hnone pos (Nat.le_refl _) (by omega)]
    simp only []
    obtain ⟨q', st', hs, hle⟩ := search_complete (pos := pos + 1) hm (by omega) hq2
    obtain ⟨h1, _, h3, _⟩ := search_spec hs
    have : q' = q := by
      rcases Nat.lt_or_ge q' q with h | h
      · rw [hnone q' (by omega) h] at h3; cases h3
      · omega
    subst this
    rw [hm] at h3
    cases h3
    rw [hs]

/-- after an empty match at the end of the text `finditer` stops -/
theorem finditerAux_end (s : Array Nat) (r : Re) (fuel : Nat) (h : matchAtNE s r s.size = none) :
    finditerAux s r fuel s.size true = [] := by
  cases fuel with
  | zero => rfl
  | succ f =>
    simp only [finditerAux]
    rw [if_neg (by omega)]
    simp only [if_true, h]
    have : search s r (s.size + 1) = none := by
      simp only [search]
      have e : s.size + 2 - (s.size + 1) = 1 := by omega
      rw [e]
      simp [searchFrom]
    rw [this]

end C08C

/-
C17 helper lemmas, part 3 (round 4): the explicit formula of `linecol`
  line = 1 + number of "\n" before o,  column = 1 + o − (index just after the last "\n" before o)
with the index written as a function (`nlEndBefore`, Python: `text.rfind("\n", 0, o) + 1`), the consequences
"a pair computed from an offset inside the text lies inside the text and identifies the character there",
and the line-table cache of `Parser.Context`.
-/
import CLModel.Proofs.C17
import CLModel.Parser.PositionCache
namespace C17P
open Pos

/-- `text.rfind("\n", 0, p) + 1`: the index just after the last newline among the first `p` characters
    (0 when there is none) -/
def nlEndBefore (l : List Nat) (p : Nat) : Nat :=
  (l.take p).length - ((l.take p).reverse.takeWhile (· != 10)).length

theorem takeWhile_length_le {α : Type} (q : α → Bool) (l : List α) : (l.takeWhile q).length ≤ l.length := by
  induction l with
  | nil => simp
  | cons x xs ih => simp only [List.takeWhile_cons]; split <;> simp <;> omega

theorem mem_takeWhile_sat {α : Type} (q : α → Bool) : ∀ (l : List α), ∀ x ∈ l.takeWhile q, q x = true := by
  intro l
  induction l with
  | nil => intro x hx; simp at hx
  | cons y ys ih =>
    intro x hx
    simp only [List.takeWhile_cons] at hx
    split at hx
    · rcases List.mem_cons.mp hx with rfl | h
      · assumption
      · exact ih x h
    · simp at hx

/-- a list splits into the part up to and including the last element failing `q`, and a tail of `q`-elements -/
theorem split_last_failing {α : Type} (q : α → Bool) (t : List α) :
    ∃ pre suf, t = pre ++ suf ∧ suf.length = (t.reverse.takeWhile q).length ∧ (∀ x ∈ suf, q x = true) ∧
      (pre = [] ∨ ∃ pre' x, pre = pre' ++ [x] ∧ q x = false) := by
  refine ⟨(t.reverse.dropWhile q).reverse, (t.reverse.takeWhile q).reverse, ?_, by simp, ?_, ?_⟩
  · have := List.takeWhile_append_dropWhile (p := q) (l := t.reverse)
    have h2 := congrArg List.reverse this
    simp only [List.reverse_append, List.reverse_reverse] at h2
    exact h2.symm
  · intro x hx
    exact mem_takeWhile_sat q _ x (List.mem_reverse.mp hx)
  · cases hd : t.reverse.dropWhile q with
    | nil => left; simp
    | cons x xs =>
      right
      refine ⟨xs.reverse, x, by simp, ?_⟩
      have := List.head_dropWhile_not q (l := t.reverse) (by simp [hd])
      simpa [hd] using this

theorem nlEndBefore_le (l : List Nat) (p : Nat) : nlEndBefore l p ≤ p := by
  unfold nlEndBefore
  have : (l.take p).length ≤ p := by simp; omega
  omega

/-- `nlEndBefore` is the line start in the sense of `IsLineStart` -/
theorem nlEndBefore_isLineStart (l : List Nat) (p : Nat) (hp : p ≤ l.length) :
    IsLineStart l p (nlEndBefore l p) := by
  obtain ⟨pre, suf, hsplit, hlen, hall, hpre⟩ := split_last_failing (· != 10) (l.take p)
  have htl : (l.take p).length = p := by simp [hp]
  have hb : nlEndBefore l p = pre.length := by
    unfold nlEndBefore
    rw [← hlen]
    have : (l.take p).length = pre.length + suf.length := by rw [hsplit]; simp
    omega
  have hpl : pre.length + suf.length = p := by
    have : (l.take p).length = pre.length + suf.length := by rw [hsplit]; simp
    omega
  have hget : ∀ j, j < p → l[j]? = (pre ++ suf)[j]? := by
    intro j hj
    rw [← hsplit, List.getElem?_take]
    simp [hj]
  rw [hb]
  refine ⟨by omega, ?_, ?_⟩
  · rcases hpre with h | ⟨pre', x, h, hx⟩
    · left; simp [h]
    · right
      have hx10 : x = 10 := by simpa using hx
      have hl : pre.length = pre'.length + 1 := by rw [h]; simp
      rw [hget _ (by omega), hl, h]
      simp [hx10]
  · intro j hj1 hj2
    rw [hget j hj2]
    rw [List.getElem?_append_right hj1]
    intro h
    have hmem : (10 : Nat) ∈ suf := List.mem_of_getElem? h
    have := hall 10 hmem
    simp at this

/-- **explicit formula of the cursor** for an offset inside the text -/
theorem cursor_formula (s : Array Nat) (p : Nat) (hp : p ≤ s.size) :
    cursor s p = (1 + (s.toList.take p).count 10, 1 + (p - nlEndBefore s.toList p)) := by
  obtain ⟨b, hb, hc⟩ := cursor_spec s p
  have hb' := nlEndBefore_isLineStart s.toList p (by simpa using hp)
  have : b = nlEndBefore s.toList p := IsLineStart_unique _ _ _ _ hb hb'
  subst this
  rw [hc]
  congr 1
  omega

/-- the number of characters of line `n` (0-based) of `l`, without its newline; `none` if there is no such line -/
def lineLen : List Nat → Nat → Option Nat
  | l, 0 => some (l.takeWhile (· != 10)).length
  | [], _ + 1 => none
  | c :: t, n + 1 => if c = 10 then lineLen t n else lineLen t (n + 1)

/-- number of lines of a text in the sense of `linecol`: one more than the number of newlines
    (a final newline opens a last, empty line: the end of the file is reported there) -/
def numLines (l : List Nat) : Nat := 1 + l.count 10

/-- a pair that `cursor` computed for an offset inside the text names a line of the text and a column inside that
    line (one past its last character at most), and the offset is recovered from the pair -/
theorem walkLC_in_text (l : List Nat) : ∀ p line col, p ≤ l.length →
    ∃ n len, (walkLC l p line col).1 = line + n ∧ n ≤ l.count 10 ∧ lineLen l n = some len ∧
      (if n = 0 then (walkLC l p line col).2 ≤ col + len ∧ col ≤ (walkLC l p line col).2
       else 1 ≤ (walkLC l p line col).2 ∧ (walkLC l p line col).2 ≤ len + 1) := by
  induction l with
  | nil =>
    intro p line col hp
    have : p = 0 := by simpa using hp
    subst this
    exact ⟨0, 0, by simp [walkLC], by simp, by simp [lineLen], by simp [walkLC]⟩
  | cons c t ih =>
    intro p line col hp
    cases p with
    | zero => exact ⟨0, _, by simp [walkLC], by simp, rfl, by simp [walkLC]⟩
    | succ p =>
      have hp' : p ≤ t.length := by simpa using hp
      by_cases hc : c = 10
      · obtain ⟨n, len, h1, h2, h3, h4⟩ := ih p (line + 1) 1 hp'
        refine ⟨n + 1, len, ?_, ?_, ?_, ?_⟩
        · simp only [walkLC, hc, if_true]; omega
        · simp [hc]; omega
        · simp [lineLen, hc, h3]
        · simp only [walkLC, hc, if_true, Nat.add_eq_zero_iff, Nat.one_ne_zero, and_false, if_false]
          split at h4 <;> omega
      · obtain ⟨n, len, h1, h2, h3, h4⟩ := ih p line (col + 1) hp'
        cases n with
        | zero =>
          refine ⟨0, len + 1, ?_, by simp, ?_, ?_⟩
          · simp only [walkLC, hc, if_false]; omega
          · simp only [lineLen] at h3 ⊢
            simp only [List.takeWhile_cons, bne_iff_ne, ne_eq, hc, not_false_eq_true, decide_true, if_true,
              List.length_cons]
            simp only [Option.some.injEq] at h3
            simp [h3]
          · simp only [walkLC, hc, if_false, if_true] at h4 ⊢
            omega
        | succ n =>
          refine ⟨n + 1, len, ?_, ?_, ?_, ?_⟩
          · simp only [walkLC, hc, if_false]; omega
          · rw [List.count_cons]; omega
          · simp [lineLen, hc, h3]
          · simpa [walkLC, hc] using h4

/-- **inside the text**: the pair reported for an offset `p ≤ len(text)` satisfies
    `1 ≤ line ≤ number of lines` and `1 ≤ column ≤ length of that line + 1`, and the pair denotes `p` again -/
theorem cursor_in_text (s : Array Nat) (p : Nat) (hp : p ≤ s.size) :
    1 ≤ (cursor s p).1 ∧ (cursor s p).1 ≤ numLines s.toList ∧ 1 ≤ (cursor s p).2 ∧
      (∃ len, lineLen s.toList ((cursor s p).1 - 1) = some len ∧ (cursor s p).2 ≤ len + 1) ∧
      offsetOf s (cursor s p) = some p := by
  obtain ⟨n, len, h1, h2, h3, h4⟩ := walkLC_in_text s.toList p 1 1 (by simpa using hp)
  have hone := cursor_one_based s p
  unfold cursor at hone ⊢
  refine ⟨hone.1, by unfold numLines; omega, hone.2, ⟨len, ?_, ?_⟩, offsetOf_cursor s p⟩
  · rw [h1]; simpa using h3
  · split at h4 <;> omega

/-! ### the line table is cached on the context -/

/-- the invariant of `Parser.Context._lines`: not built yet, or the line ends of the contents -/
def CacheOK (c : Ctx) : Prop := c.lines = none ∨ c.lines = some (lineEnds c.contents)

theorem ctx_linecol (c : Ctx) (h : CacheOK c) (x : Int) :
    (c.linecol x).1 = linecol c.contents x ∧ CacheOK (c.linecol x).2 ∧ (c.linecol x).2.contents = c.contents := by
  have hw : linecol c.contents x = linecolWith (lineEnds c.contents) x := rfl
  rcases h with h | h
  · simp [Ctx.linecol, h, hw, CacheOK]
  · simp [Ctx.linecol, h, hw, CacheOK]

/-- any sequence of `linecol` calls on ONE context (whatever call builds the table) gives what fresh contexts give -/
theorem ctx_linecolSeq (xs : List Int) : ∀ (c : Ctx), CacheOK c →
    (c.linecolSeq xs).1 = xs.map (linecol c.contents) ∧ CacheOK (c.linecolSeq xs).2 := by
  induction xs with
  | nil => intro c h; exact ⟨rfl, h⟩
  | cons x xs ih =>
    intro c h
    obtain ⟨h1, h2, h3⟩ := ctx_linecol c h x
    obtain ⟨h4, h5⟩ := ih _ h2
    simp only [Ctx.linecolSeq, List.map_cons]
    rw [h1, h4, h3]
    exact ⟨rfl, h5⟩

end C17P

/-
Helper lemmas for C20 (`AddRemove.__iter__`, `KeyedTuple`).  Core Lean only.
-/
import CLModel.Compare.AddRemove
namespace AR

variable {α : Type} [BEq α] [LawfulBEq α] {β : Type}

/-! ### the dict primitives -/

theorem dget_eq_none {d : List (α × β)} {k : α} (h : k ∉ d.map (·.1)) : dget d k = none := by
  simp only [dget, Option.map_eq_none_iff, List.find?_eq_none]
  intro p hp
  simp only [List.mem_map, not_exists, not_and] at h
  intro hk
  exact h p hp (by simpa using hk)

theorem dset_of_not_mem {d : List (α × β)} {k : α} (v : β) (h : k ∉ d.map (·.1)) :
    dset d k v = d ++ [(k, v)] := by
  have : d.any (·.1 == k) = false := by
    simp only [List.any_eq_false, beq_iff_eq]
    intro p hp hk
    exact h (List.mem_map.2 ⟨p, hp, hk⟩)
  simp [dset, this]

omit [LawfulBEq α] in
theorem dget_cons (p : α × β) (d : List (α × β)) (k : α) :
    dget (p :: d) k = if p.1 == k then some p.2 else dget d k := by
  simp only [dget, List.find?_cons]
  cases p.1 == k <;> simp

theorem dget_map_upd (d : List (α × β)) (k k' : α) (v : β) :
    dget (d.map (fun p => if p.1 == k then (k, v) else p)) k'
      = if k == k' then (if d.any (·.1 == k) then some v else none) else dget d k' := by
  induction d with
  | nil => simp [dget]
  | cons p d ih =>
    rw [List.map_cons, dget_cons, ih, dget_cons, List.any_cons]
    generalize d.any (·.1 == k) = b
    cases h2 : k == k'
    · cases h1 : p.1 == k
      · simp only [Bool.false_eq_true, if_false]
      · have hk := eq_of_beq h1
        have : (p.1 == k') = false := by rw [hk]; exact h2
        simp only [if_true, h2, this, Bool.false_eq_true, if_false]
    · have := eq_of_beq h2
      subst this
      cases h1 : p.1 == k <;> cases b <;> simp [h1]

theorem dget_dset (d : List (α × β)) (k k' : α) (v : β) :
    dget (dset d k v) k' = if k == k' then some v else dget d k' := by
  unfold dset
  split
  · rename_i h; rw [dget_map_upd, h]; simp
  · rename_i h
    simp only [dget, List.find?_append]
    by_cases h2 : k = k'
    · subst h2
      have : d.find? (·.1 == k) = none := by
        simp only [List.find?_eq_none]; intro p hp hk
        exact h (List.any_eq_true.2 ⟨p, hp, hk⟩)
      simp [this]
    · simp [h2]

/-! ### `leftMap` on a duplicate-free list -/

/-- the value stored for the `i`-th left key -/
def lval (p : α × Nat) : α × (Int × Int) := (p.1, ((p.2 : Int), -1))

theorem leftMap_fold (l : List α) (n : Nat) (d : List (α × (Int × Int))) (hl : l.Nodup)
    (hd : ∀ x ∈ l, x ∉ d.map (·.1)) :
    (l.zipIdx n).foldl (fun d (x, i) => dset d x ((i : Int), -1)) d = d ++ (l.zipIdx n).map lval := by
  induction l generalizing n d with
  | nil => simp
  | cons x xs ih =>
    rw [List.nodup_cons] at hl
    simp only [List.zipIdx_cons, List.foldl_cons, List.map_cons]
    rw [dset_of_not_mem _ (hd x List.mem_cons_self), ih (n + 1) _ hl.2]
    · simp [lval]
    · intro y hy
      have := hd y (List.mem_cons_of_mem _ hy)
      simp only [List.map_append, List.mem_append, not_or]
      refine ⟨this, ?_⟩
      simp only [List.map_cons, List.map_nil, List.mem_singleton]
      rintro rfl
      exact hl.1 hy

theorem leftMap_eq (l : List α) (hl : l.Nodup) : leftMap l = l.zipIdx.map lval := by
  have := leftMap_fold l 0 [] hl (by simp)
  rw [List.nil_append] at this
  exact this

theorem dget_left (l : List α) (n : Nat) (rest : List (α × (Int × Int))) (x : α) (hx : x ∈ l) :
    dget ((l.zipIdx n).map lval ++ rest) x = some (((n + l.idxOf x : Nat) : Int), -1) := by
  induction l generalizing n with
  | nil => simp at hx
  | cons y ys ih =>
    simp only [List.zipIdx_cons, List.map_cons, List.cons_append, dget_cons, List.idxOf_cons]
    cases h : y == x
    · have hne : ¬ x = y := fun e => by simp [e] at h
      have hx' : x ∈ ys := by simpa [hne] using hx
      simp only [lval, h, Bool.false_eq_true, if_false, cond_false]
      rw [ih (n + 1) hx']
      congr 3; omega
    · simp [lval, h]

omit [BEq α] [LawfulBEq α] in
theorem keys_left (l : List α) (n : Nat) : ((l.zipIdx n).map lval).map (·.1) = l := by
  rw [List.map_map]
  exact List.zipIdx_map_fst n l

/-! ### the loop over `right` -/

/-- entries appended to the order map by the loop over `right` (closed form) -/
def rightAdds (l : List α) : List α → Nat → Int → List (α × (Int × Int))
  | [], _, _ => []
  | x :: xs, n, lo =>
    if l.contains x then rightAdds l xs (n + 1) ((l.idxOf x : Nat) : Int)
    else (x, (lo, (n : Int))) :: rightAdds l xs (n + 1) lo

theorem rightStep_mem (l : List α) (acc : List (α × (Int × Int))) (lo : Int) (ri : List α)
    (x : α) (n : Nat) (hx : x ∈ l) :
    (rightStep (l.zipIdx.map lval ++ acc, lo, ri) (x, n)).1 = l.zipIdx.map lval ++ acc ∧
    (rightStep (l.zipIdx.map lval ++ acc, lo, ri) (x, n)).2.1 = ((l.idxOf x : Nat) : Int) := by
  have := dget_left l 0 acc x hx
  simp only [Nat.zero_add] at this
  simp only [rightStep, this, and_self]

theorem rightStep_not_mem (l : List α) (acc : List (α × (Int × Int))) (lo : Int) (ri : List α)
    (x : α) (n : Nat) (hx : x ∉ l) (hacc : x ∉ acc.map (·.1)) :
    (rightStep (l.zipIdx.map lval ++ acc, lo, ri) (x, n)).1
        = l.zipIdx.map lval ++ (acc ++ [(x, (lo, (n : Int)))]) ∧
    (rightStep (l.zipIdx.map lval ++ acc, lo, ri) (x, n)).2.1 = lo := by
  have hk : x ∉ (l.zipIdx.map lval ++ acc).map (·.1) := by
    rw [List.map_append, keys_left]
    simp only [List.mem_append, not_or]
    exact ⟨hx, hacc⟩
  simp only [rightStep, dget_eq_none hk, dset_of_not_mem _ hk, List.append_assoc, and_self]

theorem right_fold_fst (l r : List α) (n : Nat) (acc : List (α × (Int × Int))) (lo : Int)
    (ri : List α) (hr : r.Nodup) (hacc : ∀ x ∈ r, x ∉ acc.map (·.1)) :
    ((r.zipIdx n).foldl rightStep (l.zipIdx.map lval ++ acc, lo, ri)).1
      = l.zipIdx.map lval ++ (acc ++ rightAdds l r n lo) := by
  induction r generalizing n acc lo ri with
  | nil => simp [rightAdds]
  | cons x xs ih =>
    rw [List.nodup_cons] at hr
    simp only [List.zipIdx_cons, List.foldl_cons, rightAdds]
    by_cases hx : x ∈ l
    · obtain ⟨h1, h2⟩ := rightStep_mem l acc lo ri x n hx
      generalize rightStep (l.zipIdx.map lval ++ acc, lo, ri) (x, n) = st at h1 h2
      obtain ⟨d, lo', ri'⟩ := st
      simp only at h1 h2
      subst h1 h2
      rw [ih (n + 1) acc _ ri' hr.2 (fun y hy => hacc y (List.mem_cons_of_mem _ hy))]
      simp [hx]
    · obtain ⟨h1, h2⟩ := rightStep_not_mem l acc lo ri x n hx (hacc x List.mem_cons_self)
      generalize rightStep (l.zipIdx.map lval ++ acc, lo, ri) (x, n) = st at h1 h2
      obtain ⟨d, lo', ri'⟩ := st
      simp only at h1 h2
      subst h1 h2
      rw [ih (n + 1) _ _ ri' hr.2]
      · simp [hx]
      · intro y hy
        have := hacc y (List.mem_cons_of_mem _ hy)
        simp only [List.map_append, List.mem_append, not_or]
        refine ⟨this, ?_⟩
        simp only [List.map_cons, List.map_nil, List.mem_singleton]
        rintro rfl
        exact hr.1 hy

omit [LawfulBEq α] in
theorem rightStep_items (st : List (α × (Int × Int)) × Int × List α) (xi : α × Nat) :
    (rightStep st xi).2.2 = if st.2.2.contains xi.1 then st.2.2 else st.2.2 ++ [xi.1] := by
  obtain ⟨d, lo, ri⟩ := st
  obtain ⟨x, i⟩ := xi
  simp only [rightStep]
  split <;> rfl

theorem right_fold_items (xs : List (α × Nat)) (st : List (α × (Int × Int)) × Int × List α) (y : α) :
    y ∈ (xs.foldl rightStep st).2.2 ↔ y ∈ st.2.2 ∨ y ∈ xs.map (·.1) := by
  induction xs generalizing st with
  | nil => simp
  | cons xi xs ih =>
    rw [List.foldl_cons, ih, rightStep_items]
    by_cases h : st.2.2.contains xi.1
    · simp only [h, if_true, List.map_cons, List.mem_cons]
      have : xi.1 ∈ st.2.2 := by simpa using h
      constructor
      · rintro (h | h); exact .inl h; exact .inr (.inr h)
      · rintro (h | rfl | h); exact .inl h; exact .inl this; exact .inr h
    · simp only [h, Bool.false_eq_true, if_false, List.map_cons, List.mem_cons, List.mem_append,
        List.not_mem_nil, false_or, or_assoc]

/-! ### unfolding `addRemove` -/

/-- the label of a key, by membership -/
def lab (l r : List α) (x : α) : Label :=
  if l.contains x then (if r.contains x then Label.equal else Label.delete) else Label.add

theorem addRemove_eq (l r : List α) (hl : l.Nodup) (hr : r.Nodup) :
    addRemove l r = ((l.zipIdx.map lval ++ rightAdds l r 0 (-1)).mergeSort
      (fun a b => leKey a.2 b.2)).map (fun p => (lab l r p.1, p.1)) := by
  have h1 := right_fold_fst l r 0 [] (-1) [] hr (by simp)
  have h2 := right_fold_items r.zipIdx (l.zipIdx.map lval ++ [], (-1 : Int), []) 
  simp only [addRemove, leftMap_eq l hl, keys_left]
  rw [List.append_nil] at h1 h2
  rw [h1, List.nil_append]
  have h3 : ∀ y, (List.foldl rightStep (List.map lval l.zipIdx, -1, []) r.zipIdx).2.2.contains y
      = r.contains y := by
    intro y
    rw [Bool.eq_iff_iff, List.contains_iff_mem, List.contains_iff_mem, h2, List.zipIdx_map_fst]
    simp
  apply List.map_congr_left
  intro p _
  rw [h3, lab]
  cases l.contains p.1 <;> cases r.contains p.1 <;> rfl
/-! ### sorting a list by buckets -/

omit [BEq α] [LawfulBEq α] in
theorem flatMap_congr' {γ : Type} {l : List α} {f g : α → List γ} (h : ∀ x ∈ l, f x = g x) :
    l.flatMap f = l.flatMap g := by
  rw [List.flatMap_def, List.flatMap_def, List.map_congr_left h]

section bucket
variable {K : Type} [BEq K] [LawfulBEq K]

theorem bucket_perm (key : β → K) (ks : List K) (X : List β) (hks : ks.Nodup)
    (hX : ∀ x ∈ X, key x ∈ ks) :
    (ks.flatMap (fun k => X.filter (fun x => key x == k))).Perm X := by
  induction ks generalizing X with
  | nil =>
    cases X with
    | nil => simp
    | cons x X => exact absurd (hX x List.mem_cons_self) (by simp)
  | cons k ks ih =>
    rw [List.nodup_cons] at hks
    rw [List.flatMap_cons]
    have hcongr : ks.flatMap (fun k' => X.filter (fun x => key x == k'))
        = ks.flatMap (fun k' => (X.filter (fun x => !(key x == k))).filter (fun x => key x == k')) := by
      apply flatMap_congr'
      intro k' hk'
      rw [List.filter_filter]
      apply List.filter_congr
      intro x _
      by_cases h : key x = k'
      · have : ¬ k' = k := fun e => hks.1 (e ▸ hk')
        simp [h, this]
      · simp [h]
    rw [hcongr]
    refine (List.Perm.append_left _ (ih _ hks.2 ?_)).trans (List.filter_append_perm _ X)
    intro x hx
    rw [List.mem_filter] at hx
    have := hX x hx.1
    rw [List.mem_cons] at this
    rcases this with h | h
    · simp [h] at hx
    · exact h

theorem bucket_sorted (le : β → β → Bool) (key : β → K) (ltK : K → K → Prop) (ks : List K)
    (X : List β) (hks : ks.Pairwise ltK) (h1 : ∀ a b, ltK (key a) (key b) → le a b)
    (h2 : X.Pairwise (fun a b => key a = key b → le a b)) :
    (ks.flatMap (fun k => X.filter (fun x => key x == k))).Pairwise (fun a b => le a b) := by
  rw [List.pairwise_flatMap]
  constructor
  · intro k _
    refine List.Pairwise.imp_of_mem ?_ (h2.filter _)
    intro a b ha hb h
    rw [List.mem_filter] at ha hb
    exact h ((eq_of_beq ha.2).trans (eq_of_beq hb.2).symm)
  · refine hks.imp ?_
    intro k1 k2 hlt a ha b hb
    rw [List.mem_filter] at ha hb
    apply h1
    rw [eq_of_beq ha.2, eq_of_beq hb.2]
    exact hlt

theorem mergeSort_eq_bucket (le : β → β → Bool) (key : β → K) (ltK : K → K → Prop) (ks : List K)
    (X : List β)
    (trans : ∀ a b c, le a b → le b c → le a c) (total : ∀ a b, le a b || le b a)
    (antisymm : ∀ a ∈ X, ∀ b ∈ X, le a b → le b a → a = b)
    (hnd : ks.Nodup) (hks : ks.Pairwise ltK) (hX : ∀ x ∈ X, key x ∈ ks)
    (h1 : ∀ a b, ltK (key a) (key b) → le a b)
    (h2 : X.Pairwise (fun a b => key a = key b → le a b)) :
    X.mergeSort le = ks.flatMap (fun k => X.filter (fun x => key x == k)) := by
  have hp := bucket_perm key ks X hnd hX
  have hperm := (List.mergeSort_perm X le).trans hp.symm
  refine List.Perm.eq_of_pairwise (le := fun a b => le a b) ?_ (List.pairwise_mergeSort trans total X)
    (bucket_sorted le key ltK ks X hks h1 h2) hperm
  intro a b ha hb
  exact antisymm a ((List.mergeSort_perm X le).mem_iff.1 ha) b (hp.mem_iff.1 hb)

end bucket
/-! ### the order on the order pairs -/

theorem leKey_trans (a b c : Int × Int) : leKey a b → leKey b c → leKey a c := by
  simp only [leKey, Bool.or_eq_true, Bool.and_eq_true, decide_eq_true_eq, beq_iff_eq]
  omega

theorem leKey_total (a b : Int × Int) : (leKey a b || leKey b a) = true := by
  simp only [leKey, Bool.or_eq_true, Bool.and_eq_true, decide_eq_true_eq, beq_iff_eq]
  omega

theorem leKey_antisymm (a b : Int × Int) : leKey a b → leKey b a → a = b := by
  obtain ⟨a1, a2⟩ := a
  obtain ⟨b1, b2⟩ := b
  simp only [leKey, Bool.or_eq_true, Bool.and_eq_true, decide_eq_true_eq, beq_iff_eq, Prod.mk.injEq]
  omega

/-! ### shape of the order map -/

/-- strict order by (right index, left index): the order map is built in this order -/
def omLt (a b : α × (Int × Int)) : Prop := a.2.2 < b.2.2 ∨ (a.2.2 = b.2.2 ∧ a.2.1 < b.2.1)

omit [BEq α] [LawfulBEq α] in
theorem left_pairwise (l : List α) (n : Nat) :
    ((l.zipIdx n).map lval).Pairwise (fun a b => a.2.2 = b.2.2 ∧ a.2.1 < b.2.1) := by
  induction l generalizing n with
  | nil => simp
  | cons x xs ih =>
    simp only [List.zipIdx_cons, List.map_cons, List.pairwise_cons]
    refine ⟨?_, ih (n + 1)⟩
    intro b hb
    rw [List.mem_map] at hb
    obtain ⟨⟨y, i⟩, hy, rfl⟩ := hb
    have := (List.mem_zipIdx hy).1
    simp only [lval, true_and]
    omega

omit [LawfulBEq α] in
theorem rightAdds_pairwise (l r : List α) (n : Nat) (lo : Int) :
    (rightAdds l r n lo).Pairwise (fun a b => a.2.2 < b.2.2) ∧
    ∀ p ∈ rightAdds l r n lo, (n : Int) ≤ p.2.2 := by
  induction r generalizing n lo with
  | nil => simp [rightAdds]
  | cons x xs ih =>
    simp only [rightAdds]
    split
    · refine ⟨(ih (n + 1) _).1, fun p hp => ?_⟩
      have := (ih (n + 1) _).2 p hp
      omega
    · refine ⟨List.pairwise_cons.2 ⟨fun p hp => ?_, (ih (n + 1) _).1⟩, fun p hp => ?_⟩
      · have := (ih (n + 1) _).2 p hp
        simp only
        omega
      · rw [List.mem_cons] at hp
        rcases hp with rfl | hp
        · simp
        · have := (ih (n + 1) _).2 p hp
          omega

omit [LawfulBEq α] in
theorem om_pairwise (l r : List α) :
    (l.zipIdx.map lval ++ rightAdds l r 0 (-1)).Pairwise omLt := by
  rw [List.pairwise_append]
  refine ⟨(left_pairwise l 0).imp (fun h => .inr h),
    (rightAdds_pairwise l r 0 (-1)).1.imp (fun h => .inl h), ?_⟩
  intro a ha b hb
  left
  have := (rightAdds_pairwise l r 0 (-1)).2 b hb
  rw [List.mem_map] at ha
  obtain ⟨q, _, rfl⟩ := ha
  simp only [lval]
  omega

/-- the bucket keys: `-1`, then the left indices -/
def bkeys (l : List α) : List Int := -1 :: l.zipIdx.map (fun q => (q.2 : Int))

omit [BEq α] [LawfulBEq α] in
theorem bkeys_pairwise (l : List α) : (bkeys l).Pairwise (· < ·) := by
  rw [bkeys, List.pairwise_cons]
  constructor
  · intro k hk
    rw [List.mem_map] at hk
    obtain ⟨q, _, rfl⟩ := hk
    omega
  · rw [List.pairwise_map]
    have h := List.pairwise_lt_range' (s := 0) (n := l.length)
    rw [← List.zipIdx_map_snd 0 l, List.pairwise_map] at h
    exact h.imp (fun h => by omega)

theorem mem_bkeys_of_mem (l : List α) (y : α) (hy : y ∈ l) : ((l.idxOf y : Nat) : Int) ∈ bkeys l := by
  rw [bkeys]
  refine List.mem_cons_of_mem _ (List.mem_map.2 ⟨(y, l.idxOf y), ?_, rfl⟩)
  rw [List.mem_zipIdx_iff_getElem?]
  have h := List.idxOf_lt_length_of_mem hy
  simp only
  rw [List.getElem?_eq_getElem h, List.getElem_idxOf h]

/-- facts about the appended entries: key from `right` and not in `left`, left index is the
    initial offset or the index of a left key -/
theorem rightAdds_mem (l r : List α) (n : Nat) (lo : Int) :
    ∀ p ∈ rightAdds l r n lo, p.1 ∈ r ∧ p.1 ∉ l ∧ (p.2.1 = lo ∨ ∃ y ∈ l, p.2.1 = ((l.idxOf y : Nat) : Int)) := by
  induction r generalizing n lo with
  | nil => simp [rightAdds]
  | cons x xs ih =>
    intro p hp
    simp only [rightAdds] at hp
    split at hp
    · rename_i hx
      obtain ⟨h1, h2, h3⟩ := ih _ _ p hp
      refine ⟨List.mem_cons_of_mem _ h1, h2, ?_⟩
      rcases h3 with h3 | h3
      · exact .inr ⟨x, by simpa using hx, h3⟩
      · exact .inr h3
    · rename_i hx
      rw [List.mem_cons] at hp
      rcases hp with rfl | hp
      · exact ⟨List.mem_cons_self, by simpa using hx, .inl rfl⟩
      · obtain ⟨h1, h2, h3⟩ := ih _ _ p hp
        exact ⟨List.mem_cons_of_mem _ h1, h2, h3⟩

omit [BEq α] [LawfulBEq α] in
theorem left_filter (l : List α) (n : Nat) (q : α × Nat) (hq : q ∈ l.zipIdx n) :
    ((l.zipIdx n).map lval).filter (fun p => p.2.1 == (q.2 : Int)) = [lval q] := by
  induction l generalizing n with
  | nil => simp at hq
  | cons x xs ih =>
    rw [List.zipIdx_cons, List.mem_cons] at hq
    rw [List.zipIdx_cons, List.map_cons, List.filter_cons]
    have htail : ∀ p ∈ (xs.zipIdx (n + 1)).map lval, ((n : Int) + 1) ≤ p.2.1 := by
      intro p hp
      rw [List.mem_map] at hp
      obtain ⟨⟨y, i⟩, hy, rfl⟩ := hp
      have := (List.mem_zipIdx hy).1
      simp only [lval]
      omega
    rcases hq with rfl | hq
    · have : ((xs.zipIdx (n + 1)).map lval).filter (fun p => p.2.1 == ((x, n).2 : Int)) = [] := by
        rw [List.filter_eq_nil_iff]
        intro p hp
        have := htail p hp
        simp only [beq_iff_eq]
        omega
      rw [this]
      simp [lval]
    · have h := (List.mem_zipIdx hq).1
      have : ((lval (x, n)).2.1 == (q.2 : Int)) = false := by
        simp only [lval, beq_eq_false_iff_ne, ne_eq]
        omega
      rw [this]
      exact ih (n + 1) hq

theorem sort_om (l r : List α) :
    (l.zipIdx.map lval ++ rightAdds l r 0 (-1)).mergeSort (fun a b => leKey a.2 b.2)
      = (rightAdds l r 0 (-1)).filter (fun p => p.2.1 == (-1 : Int)) ++
        l.zipIdx.flatMap (fun q => lval q :: (rightAdds l r 0 (-1)).filter (fun p => p.2.1 == (q.2 : Int))) := by
  have hom := om_pairwise l r
  rw [mergeSort_eq_bucket (β := α × (Int × Int)) (K := Int) (fun a b => leKey a.2 b.2)
    (fun p => p.2.1) (· < ·) (bkeys l) (l.zipIdx.map lval ++ rightAdds l r 0 (-1))]
  · rw [bkeys, List.flatMap_cons, List.flatMap_map, List.filter_append]
    have h0 : (l.zipIdx.map lval).filter (fun p => p.2.1 == (-1 : Int)) = [] := by
      rw [List.filter_eq_nil_iff]
      intro p hp
      rw [List.mem_map] at hp
      obtain ⟨q, _, rfl⟩ := hp
      simp only [lval, beq_iff_eq]
      omega
    rw [h0, List.nil_append]
    congr 1
    apply flatMap_congr'
    intro q hq
    rw [List.filter_append, left_filter l 0 q hq]
    rfl
  · intro a b c; exact leKey_trans _ _ _
  · intro a b; exact leKey_total _ _
  · intro a ha b hb h1 h2
    have hv := leKey_antisymm _ _ h1 h2
    have hR : (l.zipIdx.map lval ++ rightAdds l r 0 (-1)).Pairwise (fun a b => a.2 = b.2 → a = b) := by
      refine hom.imp ?_
      intro a b h e
      rw [omLt, e] at h
      omega
    have hR' : (l.zipIdx.map lval ++ rightAdds l r 0 (-1)).Pairwise (flip fun a b => a.2 = b.2 → a = b) := by
      refine hom.imp ?_
      intro a b h e
      rw [omLt, e] at h
      omega
    exact List.Pairwise.forall_of_forall_of_flip (fun _ _ _ => rfl) hR hR' ha hb hv
  · exact (bkeys_pairwise l).imp (fun h => Int.ne_of_lt h)
  · exact bkeys_pairwise l
  · intro p hp
    rw [List.mem_append] at hp
    rcases hp with hp | hp
    · rw [List.mem_map] at hp
      obtain ⟨q, hq, rfl⟩ := hp
      exact List.mem_cons_of_mem _ (List.mem_map.2 ⟨q, hq, rfl⟩)
    · rcases (rightAdds_mem l r 0 (-1) p hp).2.2 with h | ⟨y, hy, h⟩
      · rw [h]; exact List.mem_cons_self
      · rw [h]; exact mem_bkeys_of_mem l y hy
  · intro a b h
    simp only [leKey, Bool.or_eq_true, decide_eq_true_eq]
    exact .inl h
  · refine hom.imp ?_
    intro a b h e
    simp only [leKey, Bool.or_eq_true, Bool.and_eq_true, decide_eq_true_eq, beq_iff_eq]
    rw [omLt] at h
    omega

/-! ### connection with `anchors` / `spec` -/

/-- the left index standing for an anchor -/
def code (l : List α) : Option α → Int
  | none => -1
  | some y => ((l.idxOf y : Nat) : Int)

omit [LawfulBEq α] in
theorem rightAdds_anchors (l r : List α) (n : Nat) (lo : Int) (cur : Option α) (h : lo = code l cur) :
    (rightAdds l r n lo).map (fun q => (q.2.1, q.1))
      = (anchors l r cur).map (fun p => (code l p.1, p.2)) := by
  induction r generalizing n lo cur with
  | nil => simp [rightAdds, anchors]
  | cons x xs ih =>
    simp only [rightAdds, anchors]
    split
    · exact ih _ _ (some x) rfl
    · rw [List.map_cons, List.map_cons, ih _ _ cur h, h]

omit [LawfulBEq α] in
theorem anchors_mem (l r : List α) (cur : Option α) :
    ∀ p ∈ anchors l r cur, p.1 = cur ∨ ∃ y, l.contains y ∧ p.1 = some y := by
  induction r generalizing cur with
  | nil => simp [anchors]
  | cons x xs ih =>
    intro p hp
    simp only [anchors] at hp
    split at hp
    · rename_i hx
      rcases ih _ p hp with h | h
      · exact .inr ⟨x, hx, h⟩
      · exact .inr h
    · rw [List.mem_cons] at hp
      rcases hp with rfl | hp
      · exact .inl rfl
      · exact ih _ p hp

theorem adds_eq (l r : List α) (c : Int) (a : Option α)
    (hc : ∀ o : Option α, (o = none ∨ ∃ y ∈ l, o = some y) → (code l o == c) = (o == a)) :
    ((rightAdds l r 0 (-1)).filter (fun p => p.2.1 == c)).map (fun p => (lab l r p.1, p.1))
      = ((anchors l r none).filter (fun p => p.1 == a)).map (fun p => (Label.add, p.2)) := by
  have h1 : ((rightAdds l r 0 (-1)).filter (fun p => p.2.1 == c)).map (fun p => (lab l r p.1, p.1))
      = (((rightAdds l r 0 (-1)).map (fun q => (q.2.1, q.1))).filter (fun p => p.1 == c)).map
          (fun p => (Label.add, p.2)) := by
    rw [List.filter_map, List.map_map]
    apply List.map_congr_left
    intro p hp
    have := (rightAdds_mem l r 0 (-1) p (List.mem_filter.1 hp).1).2.1
    simp [lab, this]
  rw [h1, rightAdds_anchors l r 0 (-1) none rfl, List.filter_map, List.map_map]
  have h2 : (anchors l r none).filter ((fun p => p.1 == c) ∘ fun p => (code l p.1, p.2))
      = (anchors l r none).filter (fun p => p.1 == a) := by
    apply List.filter_congr
    intro p hp
    apply hc
    rcases anchors_mem l r none p hp with h | ⟨y, hy, h⟩
    · exact .inl h
    · exact .inr ⟨y, by simpa using hy, h⟩
  rw [h2]
  rfl

theorem idxOf_eq_iff (l : List α) (hl : l.Nodup) (q : α × Nat) (hq : q ∈ l.zipIdx) (y : α)
    (hy : y ∈ l) : l.idxOf y = q.2 ↔ y = q.1 := by
  rw [List.mem_zipIdx_iff_getElem?, List.getElem?_eq_some_iff] at hq
  obtain ⟨hlt, hq⟩ := hq
  constructor
  · intro h
    have := List.getElem_idxOf (List.idxOf_lt_length_of_mem hy)
    rw [← this, ← hq]
    congr 1
  · intro h
    rw [h, ← hq]
    exact hl.idxOf_getElem _ hlt

theorem addRemove_eq_spec (l r : List α) (hl : l.Nodup) (hr : r.Nodup) :
    addRemove l r = spec l r := by
  rw [addRemove_eq l r hl hr, sort_om, List.map_append, List.map_flatMap, spec]
  simp only
  have hz : ∀ F : α → List (Label × α), l.flatMap F = l.zipIdx.flatMap (fun q => F q.1) := by
    intro F
    have : l.flatMap F = (l.zipIdx.map Prod.fst).flatMap F := by rw [List.zipIdx_map_fst]
    rw [this, List.flatMap_map]
  rw [hz]
  congr 1
  · apply adds_eq
    rintro o (rfl | ⟨y, _, rfl⟩)
    · rfl
    · simp only [code]
      have : ¬ ((l.idxOf y : Nat) : Int) = -1 := by omega
      simp [this]
  · apply flatMap_congr'
    intro q hq
    have hql : q.1 ∈ l := by
      have := List.mem_map_of_mem (f := Prod.fst) hq
      rwa [List.zipIdx_map_fst] at this
    rw [List.map_cons]
    congr 1
    · simp [lab, lval, hql]
    · apply adds_eq
      rintro o (rfl | ⟨y, hy, rfl⟩)
      · simp only [code]
        have : ¬ (-1 : Int) = (q.2 : Int) := by omega
        simp [this]
      · simp only [code]
        have := idxOf_eq_iff l hl q hq y hy
        rw [Bool.eq_iff_iff]
        simp only [beq_iff_eq, Option.some.injEq]
        rw [← this]
        omega

/-! ### corollaries -/

theorem addRemove_labels (l r : List α) (hl : l.Nodup) (hr : r.Nodup) :
    ∀ p ∈ addRemove l r, p.1 = lab l r p.2 := by
  intro p hp
  rw [addRemove_eq l r hl hr, List.mem_map] at hp
  obtain ⟨q, _, rfl⟩ := hp
  rfl

omit [LawfulBEq α] in
theorem rightAdds_keys (l r : List α) (n : Nat) (lo : Int) :
    (rightAdds l r n lo).map (·.1) = r.filter (fun x => !l.contains x) := by
  induction r generalizing n lo with
  | nil => simp [rightAdds]
  | cons x xs ih =>
    simp only [rightAdds, List.filter_cons]
    cases h : l.contains x
    · simp [ih]
    · simp [ih]

theorem addRemove_keys_perm (l r : List α) (hl : l.Nodup) (hr : r.Nodup) :
    ((addRemove l r).map (·.2)).Perm (l ++ r.filter (fun x => !l.contains x)) := by
  rw [addRemove_eq l r hl hr, List.map_map]
  have : ((fun p : Label × α => p.2) ∘ fun p : α × (Int × Int) => (lab l r p.1, p.1)) = (·.1) := rfl
  rw [this]
  refine ((List.mergeSort_perm _ _).map _).trans ?_
  rw [List.map_append, keys_left, rightAdds_keys]

theorem addRemove_keys_nodup (l r : List α) (hl : l.Nodup) (hr : r.Nodup) :
    ((addRemove l r).map (·.2)).Nodup := by
  rw [(addRemove_keys_perm l r hl hr).nodup_iff, List.nodup_append]
  refine ⟨hl, hr.filter _, ?_⟩
  intro a ha b hb e
  rw [List.mem_filter] at hb
  subst e
  simp [ha] at hb

omit [LawfulBEq α] in
theorem spec_left_order (l r : List α) :
    ((spec l r).filter (fun p => p.1 != Label.add)).map (·.2) = l := by
  have hadd : ∀ a : Option α,
      (((anchors l r none).filter (fun p => p.1 == a)).map (fun p => (Label.add, p.2))).filter
        (fun p => p.1 != Label.add) = [] := by
    intro a
    rw [List.filter_eq_nil_iff]
    intro p hp
    rw [List.mem_map] at hp
    obtain ⟨q, _, rfl⟩ := hp
    simp
  rw [spec]
  simp only
  rw [List.filter_append, hadd, List.nil_append, List.filter_flatMap, List.map_flatMap]
  have : ∀ x ∈ l, (((if r.contains x then Label.equal else Label.delete, x) ::
      ((anchors l r none).filter (fun p => p.1 == some x)).map (fun p => (Label.add, p.2))).filter
        (fun p => p.1 != Label.add)).map (·.2) = [x] := by
    intro x _
    rw [List.filter_cons, hadd]
    cases r.contains x <;> rfl
  rw [flatMap_congr' this]
  exact List.flatMap_singleton' l

omit [LawfulBEq α] in
theorem spec_keys (l r : List α) :
    (spec l r).map (·.2) =
      ((anchors l r none).filter (fun p => p.1 == none)).map (·.2) ++
        l.flatMap (fun k => k :: ((anchors l r none).filter (fun p => p.1 == some k)).map (·.2)) := by
  rw [spec]
  simp only [List.map_append, List.map_flatMap, List.map_cons, List.map_map]
  rfl

/-! ### `KeyedTuple` -/

theorem keyed_fold (keys : List α) (n : Nat) (d : List (α × Nat)) (k : α) :
    dget ((keys.zipIdx n).foldl (fun d (k, i) => dset d k i) d) k
      = if keys.contains k then some (n + (keys.length - 1 - keys.reverse.idxOf k)) else dget d k := by
  induction keys generalizing n d with
  | nil => simp
  | cons x xs ih =>
    rw [List.zipIdx_cons, List.foldl_cons, ih, dget_dset, List.reverse_cons, List.idxOf_append,
      List.contains_cons, List.length_cons]
    by_cases hk : k ∈ xs
    · have h1 : xs.contains k = true := by simpa using hk
      have h2 : k ∈ xs.reverse := by simpa using hk
      have h3 := List.idxOf_lt_length_of_mem h2
      rw [List.length_reverse] at h3
      simp only [h1, h2, if_true, Bool.or_true]
      congr 1
      omega
    · have h1 : xs.contains k = false := by simpa using hk
      have h2 : ¬ k ∈ xs.reverse := by simpa using hk
      simp only [h1, h2, if_false, Bool.or_false, Bool.false_eq_true, List.length_reverse]
      by_cases hx : x = k
      · subst hx
        simp
      · have h3 : (x == k) = false := by simpa using hx
        have h4 : (k == x) = false := by simpa using fun e : k = x => hx e.symm
        simp [h3, h4]

theorem keyedIndex_eq (keys : List α) (k : α) :
    keyedIndex keys k
      = if keys.contains k then some (keys.length - 1 - keys.reverse.idxOf k) else none := by
  have := keyed_fold keys 0 [] k
  rw [Nat.zero_add] at this
  exact this

theorem keyedContains_eq (keys : List α) (k : α) : keyedContains keys k = keys.contains k := by
  rw [keyedContains, ← keyedIndex, keyedIndex_eq]
  cases keys.contains k <;> rfl

end AR

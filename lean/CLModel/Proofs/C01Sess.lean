/- C01 round 4: facts about a parser object over a sequence of calls (`C01M.run`). -/
import CLModel.Parser.C01Sess
import CLModel.Proofs.WalkLoc
namespace C01P
open P C01M

theorem walkFromSt_full {σ : Type} (next : σ → Nat → Entry × σ) (size : Nat) :
    ∀ fuel c off, (walkFromSt next size false fuel c off).1 = walkFrom next size fuel c off := by
  intro fuel
  induction fuel with
  | zero => intro c off; simp only [walkFromSt, walkFrom]
  | succ fuel ih =>
    intro c off
    simp only [walkFromSt, walkFrom]
    split
    · rfl
    · simp [ih]

theorem walkFromSt_loc {σ : Type} (next : σ → Nat → Entry × σ) (size : Nat) :
    ∀ fuel c off, (walkFromSt next size true fuel c off).1 = walkFromLoc next size fuel c off := by
  intro fuel
  induction fuel with
  | zero => intro c off; simp only [walkFromSt, walkFromLoc]
  | succ fuel ih =>
    intro c off
    simp only [walkFromSt, walkFromLoc]
    split
    · rfl
    · simp only [Bool.not_true, Bool.false_or, ih]

/-- the context a walk leaves behind does not depend on the view -/
theorem walkFromSt_final {σ : Type} (next : σ → Nat → Entry × σ) (size : Nat) (l1 l2 : Bool) :
    ∀ fuel c off, (walkFromSt next size l1 fuel c off).2 = (walkFromSt next size l2 fuel c off).2 := by
  intro fuel
  induction fuel with
  | zero => intro c off; simp only [walkFromSt]
  | succ fuel ih =>
    intro c off
    simp only [walkFromSt]
    split
    · rfl
    · simp only [ih]

/-- the localizable-only walk of a context is the filtered full walk of a context IN THE SAME STATE -/
theorem walkFromSt_filter {σ : Type} (next : σ → Nat → Entry × σ) (size : Nat) (fuel : Nat) (c : σ) (off : Nat) :
    (walkFromSt next size true fuel c off).1 = (walkFromSt next size false fuel c off).1.filterLoc := by
  rw [walkFromSt_loc, walkFromSt_full, walkFromLoc_eq]

theorem walkSt_filter (f : Fmt) (s : Array Nat) (fel : Bool) :
    (walkSt f s true fel).1 = (walkSt f s false fel).1.filterLoc ∧
    (walkSt f s true fel).2 = (walkSt f s false fel).2 := by
  cases f <;> simp only [walkSt] <;> exact ⟨walkFromSt_filter _ _ _ _ _, by first | trivial | exact walkFromSt_final _ _ _ _ _ _ _⟩

/-- on a fresh context (`readUnicode`) the session walk is the walk of `P.walk` / `P.walkLoc` -/
theorem walkSt_fresh (f : Fmt) (s : Array Nat) :
    (walkSt f s false false).1 = walk f s ∧ (walkSt f s true false).1 = walkLoc f s := by
  cases f <;> simp only [walkSt, walk, walkLoc] <;> exact ⟨walkFromSt_full _ _ _ _ _, walkFromSt_loc _ _ _ _ _⟩

/-- only `DefinesParser` has per-context state: for the other formats a walk neither reads nor writes the flag -/
theorem walkSt_stateless (f : Fmt) (hf : f ≠ .inc) (s : Array Nat) (loc fel : Bool) :
    walkSt f s loc fel = ((walkSt f s loc false).1, fel) := by
  cases f <;> first | exact absurd rfl hf | rfl

theorem walkSt_fst_stateless (f : Fmt) (hf : f ≠ .inc) (s : Array Nat) (loc fel : Bool) :
    (walkSt f s loc fel).1 = (walkSt f s loc false).1 := by
  rw [walkSt_stateless f hf]

end C01P

/- C04, DTD: printed entities `<!ENTITY key "value">⏎` and blank lines parse back to exactly the entities (any runs of
   newlines in between, also at the start of the file); several whole-entity cuts in any order; the appended block. -/
import CLModel.Proofs.C04Multi
import CLModel.Proofs.C04Splice
import CLModel.Proofs.C02XDtd
namespace C04D
open P Rx Gen.Pat Merge C02X C04M

/-- a run of `n ≥ 1` newlines followed by the end of the text or a non-blank character is ONE white-space entry
    (also at offset 0: a newline is not the BOM header) -/
theorem dtd_ws_run (s : Array Nat) (a n : Nat) (rest : List Nat) (hn : 0 < n)
    (h : s.toList.drop a = C04R.nls n ++ rest) (hr : C04R.NoWsHead rest) : dtdGetNext s a = C04R.wsRun a n := by
  have h0 : s[a]? = some 10 := by
    have := get_of_drop s a 0 _ h
    obtain ⟨k, rfl⟩ : ∃ k, n = k + 1 := ⟨n - 1, by omega⟩
    simpa [C04R.nls, List.replicate_succ] using this
  have hlen : n ≤ s.size - a := by
    have := congrArg List.length h
    simp [C04R.nls] at this
    omega
  have hoff : (if a == 0 && (matchAt s DTDParser_reHeader 0).isSome then a + 1 else a) = a := by
    by_cases ha : a = 0
    · subst ha
      rw [dtd_header_none s (by rw [h0]; decide)]
      simp
    · simp [ha]
  have hcm := dtd_comment_none s a (Or.inl (by rw [h0]; decide))
  have hrun : runLen (inC false ws4) none (s.toList.drop a) = n := by rw [h]; exact C04R.runLen_nls n rest hr
  have hws : matchAt s Parser_reWhitespace a = some ⟨a + n, []⟩ := by
    simp only [matchAt, Parser_reWhitespace, m_rep]
    have hf : runLen (inC false ws4) none (s.toList.drop a) < s.size + 2 - a := by rw [hrun]; omega
    have := loop_greedy_total s false ws4 [] some (by intro st; simp) (s.size + 2 - a) 1 none a hf
    rw [hrun] at this
    simpa [ws4, show ¬ n < 1 by omega] using this
  unfold dtdGetNext
  simp only [hoff]
  unfold getNext
  simp only [dtdCfg, hcm, hws]
  simp [C04R.wsRun]

/-! ### records with gaps -/

/-- the entity text WITHOUT its newline: the span `DTDParser` reports -/
def dtdEntText (r : DRec) : List Nat := dtdPrefix ++ (r.1 ++ ([32, 34] ++ (r.2 ++ [34, 62])))

theorem dtdEntText_length (r : DRec) : (dtdEntText r).length = dtdLen r.1.length r.2.length := by
  simp [dtdEntText, dtdPrefix, dtdLen]; omega

theorem printDtdRec_eq (r : DRec) : printDtdRec r = dtdEntText r ++ [10] := by simp [printDtdRec, dtdEntText]


/-- entities printed as `<!ENTITY k "v">⏎`, each followed by `g` further newlines -/
def printGappedD : List (DRec × Nat) → List Nat
  | [] => []
  | (r, g) :: rest => printDtdRec r ++ (C04R.nls g ++ printGappedD rest)

theorem noWsHead_printGappedD (gs : List (DRec × Nat)) : C04R.NoWsHead (printGappedD gs) := by
  cases gs with
  | nil => exact C04R.noWsHead_nil
  | cons p gs' =>
    obtain ⟨r, g⟩ := p
    intro c hc
    have e : (printGappedD ((r, g) :: gs')).head? = some 60 := by
      simp [printGappedD, printDtdRec, dtdPrefix]
    rw [e] at hc; cases hc
    decide

theorem printGappedD_length (gs : List (DRec × Nat)) : 2 * gs.length ≤ (printGappedD gs).length := by
  induction gs with
  | nil => simp
  | cons p gs ih =>
    obtain ⟨r, g⟩ := p
    simp only [printGappedD, List.length_append, printDtdRec_length, List.length_cons]
    unfold dtdLen
    omega

theorem walk_gappedD_from (s : Array Nat) :
    ∀ (gs : List (DRec × Nat)) (off fuel : Nat), s.toList.drop off = printGappedD gs → (∀ p ∈ gs, SafeDtdRec p.1) →
      2 * gs.length ≤ fuel →
      ∃ es, walkFrom (fun (_ : Unit) o => (dtdGetNext s o, ())) s.size fuel () off = .done es ∧
        entitiesOf .dtd s es = gs.map (fun p => expectedView p.1) ∧ junkOf s es = [] := by
  intro gs
  induction gs with
  | nil =>
    intro off fuel h _ _
    exact ⟨[], C02X.walk_end _ _ _ _ _ (size_le_of_drop_nil s off (by simpa [printGappedD] using h)),
      by simp [entitiesOf], by simp [junkOf]⟩
  | cons p gs ih =>
    obtain ⟨r, g⟩ := p
    intro off fuel h hsafe hfuel
    have hs : SafeDtdRec r := hsafe (r, g) (by simp)
    simp only [printGappedD] at h
    have hrec := dtdRecAt_of_drop s off r _ hs h
    obtain ⟨f, rfl⟩ : ∃ f, fuel = f + 1 + 1 := ⟨fuel - 2, by simp at hfuel; omega⟩
    have hlenr := printDtdRec_length r
    -- the text after the entity: the record's newline, the gap, the other records
    have hd1 : s.toList.drop (off + dtdLen r.1.length r.2.length) = C04R.nls (g + 1) ++ printGappedD gs := by
      rw [printDtdRec_eq, List.append_assoc] at h
      have := drop_app s off _ _ h
      rw [dtdEntText_length] at this
      rw [this]
      simp [C04R.nls, List.replicate_succ]
    have hd2 : s.toList.drop (off + dtdLen r.1.length r.2.length + (g + 1)) = printGappedD gs := by
      have := drop_app s _ _ _ hd1
      simpa [C04R.nls] using this
    have hsafe' : ∀ p ∈ gs, SafeDtdRec p.1 := fun p hp => hsafe p (by simp [hp])
    have e1 := dtd_entity_at s off _ _ hrec
    have e2 := dtd_ws_run s (off + dtdLen r.1.length r.2.length) (g + 1) _ (by omega) hd1 (noWsHead_printGappedD gs)
    have hsz1 : off < s.size := by
      have := congrArg List.length h
      simp [hlenr] at this
      omega
    have hsz2 : off + dtdLen r.1.length r.2.length < s.size := by
      have := congrArg List.length hd1
      simp [C04R.nls] at this
      omega
    obtain ⟨es, hw, hen, hj⟩ := ih (off + dtdLen r.1.length r.2.length + (g + 1)) f hd2 hsafe' (by simp at hfuel; omega)
    refine ⟨dtdEntity off r.1.length r.2.length :: C04R.wsRun (off + dtdLen r.1.length r.2.length) (g + 1) :: es, ?_, ?_, ?_⟩
    · rw [C02X.walk_step _ _ _ () () off (dtdEntity off r.1.length r.2.length) hsz1 (by simp only [e1]),
        show (dtdEntity off r.1.length r.2.length).e = off + dtdLen r.1.length r.2.length from rfl,
        C02X.walk_step _ _ _ () () _ (C04R.wsRun (off + dtdLen r.1.length r.2.length) (g + 1)) hsz2 (by simp only [e2]),
        show (C04R.wsRun (off + dtdLen r.1.length r.2.length) (g + 1)).e = off + dtdLen r.1.length r.2.length + (g + 1) from rfl,
        hw]
      rfl
    · have hv := entView_dtdEntity s off r _ hs h
      simp only [entitiesOf] at hen ⊢
      rw [List.filter_cons_of_pos (by simp [dtdEntity]), List.filter_cons_of_neg (by simp [C04R.wsRun]),
        List.map_cons, hv, hen]
      rfl
    · simp only [junkOf] at hj ⊢
      rw [List.filter_cons_of_neg (by simp [dtdEntity]), List.filter_cons_of_neg (by simp [C04R.wsRun]), hj]

/-- a text that starts with `g0` newlines and continues with gapped entities -/
theorem walk_gappedD (g0 : Nat) (gs : List (DRec × Nat)) (h : ∀ p ∈ gs, SafeDtdRec p.1) :
    ∃ es, walk .dtd (C04R.nls g0 ++ printGappedD gs).toArray = .done es ∧
      entitiesOf .dtd (C04R.nls g0 ++ printGappedD gs).toArray es = gs.map (fun p => expectedView p.1) ∧
      junkOf (C04R.nls g0 ++ printGappedD gs).toArray es = [] := by
  have hlen := printGappedD_length gs
  unfold walk
  simp only []
  by_cases hg : g0 = 0
  · subst hg
    exact walk_gappedD_from _ gs 0 _ (by simp [C04R.nls]) h (by simp [C04R.nls]; omega)
  · have e0 := dtd_ws_run (C04R.nls g0 ++ printGappedD gs).toArray 0 g0 (printGappedD gs) (by omega) (by simp)
      (noWsHead_printGappedD gs)
    obtain ⟨es, hw, hen, hj⟩ := walk_gappedD_from (C04R.nls g0 ++ printGappedD gs).toArray gs g0
      ((C04R.nls g0 ++ printGappedD gs).toArray.size) (by simp [C04R.nls]) h (by simp [C04R.nls]; omega)
    refine ⟨C04R.wsRun 0 g0 :: es, ?_, ?_, ?_⟩
    · rw [C02X.walk_step _ _ _ () () 0 (C04R.wsRun 0 g0) (by simp [C04R.nls]; omega) (by simp only [e0]),
        show (C04R.wsRun 0 g0).e = g0 by simp [C04R.wsRun], hw]
      rfl
    · simp only [entitiesOf] at hen ⊢
      rw [List.filter_cons_of_neg (by simp [C04R.wsRun]), hen]
    · simp only [junkOf] at hj ⊢
      rw [List.filter_cons_of_neg (by simp [C04R.wsRun]), hj]

/-! ### token texts (shared token type of the properties development, printed the DTD way) -/

def printToksD : List C04R.Tok → List Nat
  | [] => []
  | .record r :: t => printDtdRec r ++ printToksD t
  | .nl :: t => 10 :: printToksD t

theorem printToksD_norm : ∀ t, printToksD t = C04R.nls (C04R.norm t).1 ++ printGappedD (C04R.norm t).2 := by
  intro t
  induction t with
  | nil => simp [printToksD, C04R.norm, C04R.nls, printGappedD]
  | cons x t ih =>
    cases x with
    | nl => simp [printToksD, C04R.norm, ih, C04R.nls, List.replicate_succ]
    | record r => simp [printToksD, C04R.norm, ih, C04R.nls, printGappedD]

theorem printToksD_append (a b : List C04R.Tok) : printToksD (a ++ b) = printToksD a ++ printToksD b := by
  induction a with
  | nil => simp [printToksD]
  | cons x a ih => cases x <;> simp [printToksD, ih]

theorem printToksD_recs (rs : List DRec) : printToksD (rs.map .record) = printDtd rs := by
  induction rs with
  | nil => simp [printToksD, printDtd]
  | cons r rs ih =>
    simp only [List.map_cons, printToksD, ih]
    simp [printDtd]

/-- every text assembled from printed safe DTD entities and newlines parses back to exactly the entities, without junk -/
theorem walk_toksD (t : List C04R.Tok) (h : ∀ r ∈ C04R.recsOf t, SafeDtdRec r) :
    ∃ es, walk .dtd (printToksD t).toArray = .done es ∧
      entitiesOf .dtd (printToksD t).toArray es = (C04R.recsOf t).map expectedView ∧
      junkOf (printToksD t).toArray es = [] := by
  have hs : ∀ p ∈ (C04R.norm t).2, SafeDtdRec p.1 := by
    intro p hp
    apply h
    rw [← C04R.norm_recs]
    exact List.mem_map.mpr ⟨p, hp, rfl⟩
  obtain ⟨es, h1, h2, h3⟩ := walk_gappedD (C04R.norm t).1 (C04R.norm t).2 hs
  rw [printToksD_norm t]
  refine ⟨es, h1, ?_, h3⟩
  rw [h2, ← C04R.norm_recs, List.map_map]
  rfl

/-! ### a printed DTD file with entities to skip -/

/-- one entity of the localization; `some rref`: it has an error-level check result, `rref` is the reference entity -/
abbrev DLine := DRec × Option DRec

def dlinePcs : DLine → List Pc
  | (r, none) => [.keep (printDtdRec r)]
  | (r, some rref) => [.cut (dtdEntText r) false (printDtdRec rref), .keep [10]]

def dlinesPcs : List DLine → List Pc
  | [] => []
  | l :: ls => dlinePcs l ++ dlinesPcs ls

def drefs : List DLine → List DRec
  | [] => []
  | (_, some rref) :: ls => rref :: drefs ls
  | (_, none) :: ls => drefs ls

def dtoks : List DLine → List C04R.Tok
  | [] => []
  | (r, none) :: ls => .record r :: dtoks ls
  | (_, some _) :: ls => .nl :: dtoks ls

theorem pcText_dlinesPcs : ∀ ls : List DLine, pcText (dlinesPcs ls) = printDtd (ls.map (·.1))
  | [] => rfl
  | (r, none) :: ls => by
    simp [dlinesPcs, dlinePcs, pcText, pcText_dlinesPcs ls, printDtd]
  | (r, some rref) :: ls => by
    simp [dlinesPcs, dlinePcs, pcText, pcText_dlinesPcs ls, printDtd, printDtdRec_eq]

theorem pcKept_dlinesPcs : ∀ ls : List DLine, pcKept (dlinesPcs ls) = printToksD (dtoks ls)
  | [] => rfl
  | (r, none) :: ls => by simp [dlinesPcs, dlinePcs, pcKept, dtoks, printToksD, pcKept_dlinesPcs ls]
  | (r, some rref) :: ls => by simp [dlinesPcs, dlinePcs, pcKept, dtoks, printToksD, pcKept_dlinesPcs ls]

theorem cutsNonempty_dlines (ls : List DLine) : CutsNonempty (dlinesPcs ls) := by
  induction ls with
  | nil => intro x j ra h; simp [dlinesPcs] at h
  | cons l ls ih =>
    intro x j ra h
    simp only [dlinesPcs, List.mem_append] at h
    rcases h with h | h
    · obtain ⟨r, bad⟩ := l
      cases bad with
      | none => simp [dlinePcs] at h
      | some rref =>
        simp [dlinePcs] at h
        obtain ⟨rfl, _, _⟩ := h
        simp [dtdEntText, dtdPrefix]
    · exact ih x j ra h

theorem drefs_of_skips : ∀ (ls : List DLine) (off : Nat),
    ((pcSkips off (dlinesPcs ls)).filter (fun s => !s.junk)).map (·.refAll) = (drefs ls).map printDtdRec
  | [], _ => rfl
  | (r, none) :: ls, off => by
    simp only [dlinesPcs, dlinePcs, List.cons_append, List.nil_append, pcSkips, drefs]
    exact drefs_of_skips ls _
  | (r, some rref) :: ls, off => by
    simp only [dlinesPcs, dlinePcs, List.cons_append, List.nil_append, pcSkips, drefs, List.map_cons]
    rw [List.filter_cons_of_pos (by simp), List.map_cons, drefs_of_skips ls _]

/-- every skip is the span of an entity the walk of the printed file reports -/
theorem dskips_are_entries : ∀ (ls : List DLine) (off : Nat) (sk : Skip), sk ∈ pcSkips off (dlinesPcs ls) →
    ∃ e ∈ dtdExpEntries off (ls.map (·.1)), e.kind = .entity ∧ sk.span = some (e.s, e.e) ∧ sk.junk = false
  | [], _, sk, h => by simp [dlinesPcs, pcSkips] at h
  | (r, none) :: ls, off, sk, h => by
    simp only [dlinesPcs, dlinePcs, List.cons_append, List.nil_append, pcSkips] at h
    rw [printDtdRec_length, show off + (dtdLen r.1.length r.2.length + 1) = off + dtdLen r.1.length r.2.length + 1 by omega] at h
    obtain ⟨e, he, h0, h1, h2⟩ := dskips_are_entries ls _ sk h
    exact ⟨e, by simp [dtdExpEntries, he], h0, h1, h2⟩
  | (r, some rref) :: ls, off, sk, h => by
    simp only [dlinesPcs, dlinePcs, List.cons_append, List.nil_append, pcSkips, List.mem_cons] at h
    rcases h with h | h
    · subst h
      refine ⟨dtdEntity off r.1.length r.2.length, by simp [dtdExpEntries], by simp [dtdEntity], ?_, rfl⟩
      simp [dtdEntity, dtdEntText_length]
    · rw [dtdEntText_length, show off + dtdLen r.1.length r.2.length + [10].length = off + dtdLen r.1.length r.2.length + 1 by simp] at h
      obtain ⟨e, he, h0, h1, h2⟩ := dskips_are_entries ls _ sk h
      exact ⟨e, by simp [dtdExpEntries, he], h0, h1, h2⟩

theorem ensureNewline_printDtdRec (r : DRec) : ensureNewline (printDtdRec r) = printDtdRec r := by
  simp [ensureNewline, printDtdRec, List.getLast?_append, List.getLast?_cons]

theorem flatten_ensure_printedD (ms : List DRec) :
    ((ms.map printDtdRec).map ensureNewline).flatten = printDtd ms := by
  induction ms with
  | nil => simp [printDtd]
  | cons r ms ih =>
    simp only [List.map_cons, List.flatten_cons, ih, ensureNewline_printDtdRec]
    simp [printDtd]

theorem trailing_dlines (ls : List DLine) (ms : List DRec) :
    trailing (ms.map printDtdRec) (pcSkips 0 (dlinesPcs ls)) = 10 :: printDtd (ms ++ drefs ls) := by
  have e2 : trailing (ms.map printDtdRec) (pcSkips 0 (dlinesPcs ls)) =
      ensureNewline [10] ++ ((ms.map printDtdRec ++ (drefs ls).map printDtdRec).map ensureNewline).flatten := by
    simp [trailing, drefs_of_skips]
  rw [e2, ← List.map_append, flatten_ensure_printedD]
  simp [ensureNewline]

/-- what `merge` stages for a printed DTD file: entities with errors cut out (skips in any order), then a newline, the
    missing reference entities and the reference entities of the skipped ones -/
theorem merge_dlines (ls : List DLine) (ms : List DRec) (perm : List Skip)
    (hp : perm.Perm (pcSkips 0 (dlinesPcs ls))) (hne : perm ≠ [] ∨ ms ≠ []) :
    C04R.staged (printDtd (ls.map (·.1))) (merge true Gen.Tables.cap_dtd (printDtd (ls.map (·.1))) perm (ms.map printDtdRec)) =
      some (printToksD (dtoks ls) ++ 10 :: printDtd (ms ++ drefs ls)) := by
  have hs := sortSkips_pieces (dlinesPcs ls) perm (cutsNonempty_dlines ls) hp
  have hc := chunks_pieces (dlinesPcs ls)
  rw [pcText_dlinesPcs, pcKept_dlinesPcs] at hc
  by_cases hemp : perm = []
  · subst hemp
    have hnil : pcSkips 0 (dlinesPcs ls) = [] := List.Perm.nil_eq hp |>.symm
    have hk := pcSkips_nil_kept (dlinesPcs ls) 0 hnil
    rw [pcText_dlinesPcs, pcKept_dlinesPcs] at hk
    have hms : ms ≠ [] := by rcases hne with h | h; exact absurd rfl h; exact h
    have hme : (ms.map printDtdRec).isEmpty = false := by cases ms <;> simp_all
    have ht := trailing_dlines ls ms
    rw [hnil] at ht
    simp only [merge, hasCap, Gen.Tables.cap_dtd, Gen.Tables.CAN_SKIP, Gen.Tables.CAN_MERGE, Gen.Tables.CAN_COPY,
      Gen.Tables.CAN_NONE, List.isEmpty_nil, hme]
    simp [C04R.staged, ht, hk]
  · have hemp' : perm.isEmpty = false := by cases perm <;> simp_all
    simp only [merge, hasCap, Gen.Tables.cap_dtd, Gen.Tables.CAN_SKIP, Gen.Tables.CAN_MERGE, Gen.Tables.CAN_COPY,
      Gen.Tables.CAN_NONE, hemp', hs]
    simp [C04R.staged, hc, trailing_dlines]

end C04D

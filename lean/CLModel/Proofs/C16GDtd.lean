/-
C16G, part 3: `.dtd` — `<!ENTITY key "value">⏎` per record (the class of C02X.walk_dtd_printed).
The serializer's output for two printed DTD files re-parses, junk-free, to exactly the expected records.
-/
import CLModel.Proofs.C16GFmt
import CLModel.Proofs.C02XDtd
namespace C16G
open AR Ser C16L C16R
open P (PRec)
open C02X (printDtd printDtdRec SafeDtdRec dtdPrefix dtdLen dtdEntity dtdExpEntries)

/-- `<!ENTITY key "` … `">` -/
def dtdF : RFmt := { pre := fun k => dtdPrefix ++ k ++ [32, 34], post := [34, 62] }

theorem printF_dtd (rs : List PRec) : printF dtdF rs = printDtd rs := by
  unfold printF printDtd
  congr 1
  apply List.map_congr_left
  intro r _
  simp [recText, dtdF, printDtdRec]

/-! ### the walk of a printed file, at the entry level -/

theorem ofEntry_dtdEntity (s : Array Nat) (off : Nat) (r : PRec) (rest : List Nat)
    (h : s.toList.drop off = printDtdRec r ++ rest) :
    ofEntry .dtd s (dtdEntity off r.1.length r.2.length) = entF dtdF r := by
  have hlen : (printDtdRec r ++ rest).length = s.size - off := by rw [← h]; simp
  rw [List.length_append, C02X.printDtdRec_length] at hlen
  unfold dtdLen at hlen
  have h1 : s.toList.drop off = dtdPrefix ++ (r.1 ++ ([32, 34] ++ (r.2 ++ ([34, 62, 10] ++ rest)))) := by
    simp [h, printDtdRec]
  have h2 : s.toList.drop (off + 9) = r.1 ++ ([32, 34] ++ (r.2 ++ ([34, 62, 10] ++ rest))) := C02X.drop_app s off _ _ h1
  have h3 : s.toList.drop (off + 9 + r.1.length) = [32, 34] ++ (r.2 ++ ([34, 62, 10] ++ rest)) := C02X.drop_app s _ _ _ h2
  have h4 : s.toList.drop (off + 9 + r.1.length + 2) = r.2 ++ ([34, 62, 10] ++ rest) := C02X.drop_app s _ _ _ h3
  have h5 : s.toList.drop (off + 9 + r.1.length + 2 + r.2.length) = [34, 62, 10] ++ rest := C02X.drop_app s _ _ _ h4
  have hk : P.slice s (off + 9) (off + 9 + r.1.length) = r.1 := by
    rw [P.slice_take s (off + 9) r.1.length _ h2 (by simp)]
    simp
  have hv : P.slice s (off + 9 + r.1.length + 2) (off + 9 + r.1.length + 2 + r.2.length) = r.2 := by
    rw [P.slice_take s _ r.2.length _ h4 (by simp)]
    simp
  have hall : P.slice s off (off + (9 + r.1.length + 2 + r.2.length + 2)) = dtdPrefix ++ r.1 ++ [32, 34] ++ r.2 ++ [34, 62] := by
    rw [P.slice_take s off _ _ h1 (by simp [dtdPrefix]; omega)]
    have : dtdPrefix ++ (r.1 ++ ([32, 34] ++ (r.2 ++ ([34, 62, 10] ++ rest))))
        = (dtdPrefix ++ r.1 ++ [32, 34] ++ r.2 ++ [34, 62]) ++ (10 :: rest) := by simp
    rw [this, List.take_left' (by simp [dtdPrefix]; omega)]
  have hpre : P.slice s off (off + (9 + r.1.length + 2)) = dtdPrefix ++ r.1 ++ [32, 34] := by
    rw [P.slice_take s off _ _ h1 (by simp [dtdPrefix]; omega)]
    have : dtdPrefix ++ (r.1 ++ ([32, 34] ++ (r.2 ++ ([34, 62, 10] ++ rest))))
        = (dtdPrefix ++ r.1 ++ [32, 34]) ++ (r.2 ++ ([34, 62, 10] ++ rest)) := by simp
    rw [this, List.take_left' (by simp [dtdPrefix]; omega)]
  have hpost : P.slice s (off + 9 + r.1.length + 2 + r.2.length) (off + 9 + r.1.length + 2 + r.2.length + 2) = [34, 62] := by
    rw [P.slice_take s _ 2 _ h5 (by simp)]
    rfl
  unfold ofEntry dtdEntity entF dtdF
  simp only [P.Entry.all, dtdLen]
  rw [C16L.pySlice_nat s (off + 9) (off + 9 + r.1.length) (by omega) (by omega),
    C16L.pySlice_nat s (off + 9 + r.1.length + 2) (off + 9 + r.1.length + 2 + r.2.length) (by omega) (by omega),
    C16L.pySlice_nat s off (off + 9 + r.1.length + 2) (by omega) (by omega),
    C16L.pySlice_nat s (off + 9 + r.1.length + 2 + r.2.length) (off + (9 + r.1.length + 2 + r.2.length + 2)) (by omega) (by omega),
    hk, hv, hall,
    show off + 9 + r.1.length + 2 = off + (9 + r.1.length + 2) by omega, hpre,
    show off + (9 + r.1.length + 2) + r.2.length = off + 9 + r.1.length + 2 + r.2.length by omega,
    show off + (9 + r.1.length + 2 + r.2.length + 2) = off + 9 + r.1.length + 2 + r.2.length + 2 by omega, hpost]

theorem map_ofEntry_dtdExpEntries (s : Array Nat) :
    ∀ (rs : List PRec) (off : Nat), s.toList.drop off = printDtd rs →
      (dtdExpEntries off rs).map (ofEntry .dtd s) = entsF dtdF rs := by
  intro rs
  induction rs with
  | nil => intro off _; rfl
  | cons r rs ih =>
    intro off h
    have hpp : printDtd (r :: rs) = printDtdRec r ++ printDtd rs := by simp [printDtd]
    rw [hpp] at h
    have hdrop : s.toList.drop (off + dtdLen r.1.length r.2.length + 1) = printDtd rs := by
      have := C02X.drop_app s off _ _ h
      rw [C02X.printDtdRec_length] at this
      rw [← this]; congr 1
    have hnl : s[off + dtdLen r.1.length r.2.length]? = some 10 := by
      have h1 : s.toList.drop off = (dtdPrefix ++ r.1 ++ [32, 34] ++ r.2 ++ [34, 62]) ++ (10 :: printDtd rs) := by
        simp [h, printDtdRec]
      have := C02X.get_app_right s off _ _ h1 0
      simp only [List.length_append, List.length_cons, List.length_nil, dtdPrefix, Nat.add_zero] at this
      rw [show off + dtdLen r.1.length r.2.length = off + (0 + 1 + 1 + 1 + 1 + 1 + 1 + 1 + 1 + 1 + r.1.length + (0 + 1 + 1) + r.2.length + (0 + 1 + 1)) by
        unfold dtdLen; omega, this]
      simp
    simp only [dtdExpEntries, List.map_cons, entsF_cons]
    rw [ofEntry_dtdEntity s off r _ h, ofEntry_ws .dtd s _ hnl, ih _ hdrop]

/-- what the serializer model sees of a printed DTD file -/
theorem walkEnts_printed_dtd (rs : List PRec) (h : ∀ r ∈ rs, SafeDtdRec r) :
    walkEnts .dtd (printDtd rs).toArray = some (entsF dtdF rs) := by
  unfold walkEnts
  rw [C02X.walk_dtd_printed rs h]
  simp only
  rw [map_ofEntry_dtdExpEntries _ rs 0 (by simp)]

/-! ### re-parsing: an optional leading newline, then printed records -/

theorem dtd_ws_at0 (s : Array Nat) (h0 : s[0]? = some 10)
    (h1 : s[1]? = none ∨ ∃ c, s[1]? = some c ∧ c ≠ 32 ∧ c ≠ 9 ∧ c ≠ 13 ∧ c ≠ 10) :
    P.dtdGetNext s 0 = P.wsEntry 0 := by
  have hcm := C02X.dtd_comment_none s 0 (Or.inl (by rw [h0]; decide))
  have hh := C02X.dtd_header_none s (by rw [h0]; decide)
  unfold P.dtdGetNext
  simp only [hh, Option.isSome_none, Bool.and_false, Bool.false_eq_true, if_false]
  rw [C02X.base_ws_at P.dtdCfg rfl s 0 hcm h0 (by simpa using h1)]
  simp [P.wsEntry]

theorem walk_dtd_lead (rs : List PRec) (h : ∀ r ∈ rs, SafeDtdRec r) :
    ∃ es, P.walk .dtd (10 :: printDtd rs).toArray = .done es ∧
      P.entitiesOf .dtd (10 :: printDtd rs).toArray es = rs.map P.expectedView ∧
      P.junkOf (10 :: printDtd rs).toArray es = [] := by
  let s : Array Nat := (10 :: printDtd rs).toArray
  have hs : s.toList = 10 :: printDtd rs := rfl
  have hd1 : s.toList.drop 1 = printDtd rs := by rw [hs]; rfl
  have h0 : s[0]? = some 10 := by
    have := P.get_of_drop s 0 0 _ (by rw [List.drop_zero, hs])
    simpa using this
  have h1 : s[1]? = none ∨ ∃ c, s[1]? = some c ∧ c ≠ 32 ∧ c ≠ 9 ∧ c ≠ 13 ∧ c ≠ 10 := by
    have g := P.get_of_drop s 1 0 _ hd1
    simp only [Nat.add_zero] at g
    rw [g]
    cases rs with
    | nil => left; simp [printDtd]
    | cons r' rs' =>
      right
      have : printDtd (r' :: rs') = printDtdRec r' ++ printDtd rs' := by simp [printDtd]
      rw [this, C02X.printDtdRec_head]
      exact ⟨60, rfl, by decide, by decide, by decide, by decide⟩
  have hsz : s.size = (printDtd rs).length + 1 := by
    have := congrArg List.length hs
    simpa using this
  have e1 := dtd_ws_at0 s h0 h1
  refine ⟨P.wsEntry 0 :: dtdExpEntries 1 rs, ?_, ?_, ?_⟩
  · show P.walk .dtd s = _
    unfold P.walk
    simp only []
    rw [C02X.walk_step _ _ _ () () 0 (P.wsEntry 0) (by omega) (by simp only [e1]),
      show (P.wsEntry 0).e = 1 from rfl,
      C02X.walk_dtd_from s rs 1 s.size hd1 h (by have := C02X.printDtd_length_ge rs; omega)]
    rfl
  · show P.entitiesOf .dtd s _ = _
    have := (C02X.entitiesOf_dtdExpEntries s rs 1 hd1 h).1
    simp only [P.entitiesOf] at this ⊢
    rw [List.filter_cons_of_neg (by simp [P.wsEntry])]
    exact this
  · show P.junkOf s _ = _
    have := (C02X.entitiesOf_dtdExpEntries s rs 1 hd1 h).2
    simp only [P.junkOf] at this ⊢
    rw [List.filter_cons_of_neg (by simp [P.wsEntry])]
    exact this

/-- RE-PARSE, `.dtd`: see `C16.serialize_reparses_dtd_partial` -/
theorem serialize_reparses_dtd (refRecs oldRecs : List PRec) (nd : NewData)
    (href : ∀ r ∈ refRecs, SafeDtdRec r) (hold : ∀ r ∈ oldRecs, SafeDtdRec r)
    (hrk : (refRecs.map (·.1)).Nodup) (hok : (oldRecs.map (·.1)).Nodup) (hnd : (nd.map (·.1)).Nodup)
    (hv : ∀ r ∈ refRecs, ∀ v, (r.1, some v) ∈ nd → SafeDtdRec (r.1, v)) :
    ∃ t es, serializeText .dtd (printDtd refRecs).toArray (printDtd oldRecs).toArray nd = some t ∧
      P.walk .dtd t.toArray = .done es ∧
      P.entitiesOf .dtd t.toArray es = (expectedRecs refRecs oldRecs nd).map P.expectedView ∧
      P.junkOf t.toArray es = [] := by
  obtain ⟨ht, hsafe⟩ := out_text dtdF SafeDtdRec refRecs oldRecs nd hold hrk hok hnd hv
  rw [printF_dtd] at ht
  have hst : serializeText .dtd (printDtd refRecs).toArray (printDtd oldRecs).toArray nd
      = some (serializeOut (entsF dtdF refRecs) (entsF dtdF oldRecs) nd) := by
    unfold serializeText
    rw [walkEnts_printed_dtd refRecs href, walkEnts_printed_dtd oldRecs hold]
  cases hh : hw Ent.isWs (serializeEnts (entsF dtdF refRecs) (entsF dtdF oldRecs) nd) with
  | false =>
    rw [hh] at ht
    simp only [Bool.false_eq_true, if_false, List.nil_append] at ht
    refine ⟨_, dtdExpEntries 0 (expectedRecs refRecs oldRecs nd), hst, ?_, ?_, ?_⟩
    · rw [ht]; exact C02X.walk_dtd_printed _ hsafe
    · rw [ht]; exact (C02X.entitiesOf_dtdExpEntries _ _ 0 (by simp) hsafe).1
    · rw [ht]; exact (C02X.entitiesOf_dtdExpEntries _ _ 0 (by simp) hsafe).2
  | true =>
    rw [hh] at ht
    simp only [if_true] at ht
    obtain ⟨es, h1, h2, h3⟩ := walk_dtd_lead (expectedRecs refRecs oldRecs nd) hsafe
    refine ⟨_, es, hst, ?_, ?_, ?_⟩
    · rw [ht]; exact h1
    · rw [ht]; exact h2
    · rw [ht]; exact h3

end C16G

/- Exact behaviour of a greedy single-class star. -/
import CLModel.Rx.Basic
namespace Rx

def inC (neg : Bool) (items : List ClsItem) (c : Nat) : Bool := (items.any (·.has c)) != neg

/-- length of the maximal run of class characters starting at `pos` (bounded by fuel) -/
def run (s : Array Nat) (neg : Bool) (items : List ClsItem) : Nat → Nat → Nat
  | 0, _ => 0
  | f + 1, pos =>
    match s[pos]? with
    | some c => if inC neg items c then 1 + run s neg items f (pos + 1) else 0
    | none => 0

def firstSome (k : Nat → Option St) : List Nat → Option St
  | [] => none
  | j :: js => (k j).orElse (fun _ => firstSome k js)

/-- positions pos+n, pos+n-1, …, pos -/
def downFrom (pos : Nat) : Nat → List Nat
  | 0 => [pos]
  | n + 1 => (pos + n + 1) :: downFrom pos n

theorem firstSome_append (k) (a b : List Nat) :
    firstSome k (a ++ b) = (firstSome k a).orElse (fun _ => firstSome k b) := by
  induction a with
  | nil => simp [firstSome]
  | cons x xs ih =>
    simp only [List.cons_append, firstSome, ih]
    cases k x <;> simp

theorem downFrom_succ (pos n : Nat) : downFrom pos (n + 1) = downFrom (pos + 1) n ++ [pos] := by
  induction n with
  | zero => simp [downFrom]
  | succ n ih =>
    rw [downFrom, ih]
    simp [downFrom]
    omega

theorem m_cls_apply (s : Array Nat) (neg items) (st : St) (k : K) :
    m s (.cls neg items) st k =
      match s[st.pos]? with
      | some c => if inC neg items c then k { st with pos := st.pos + 1 } else none
      | none => none := by
  simp only [m, inC]; rfl

/-- Exact behaviour of a greedy `[C]*`: try the continuation at the end of the maximal run,
    then at each shorter prefix, in that order. -/
theorem star_greedy_cls (s : Array Nat) (neg : Bool) (items : List ClsItem) (caps) (k : K) :
    ∀ fuel pos, run s neg items fuel pos < fuel →
      loop (m s (.cls neg items)) true fuel 0 none ⟨pos, caps⟩ k
        = firstSome (fun j => k ⟨j, caps⟩) (downFrom pos (run s neg items fuel pos)) := by
  intro fuel
  induction fuel with
  | zero => intro pos h; simp at h
  | succ f ih =>
    intro pos h
    rw [loop]
    simp only [m_cls_apply, run] at h ⊢
    rcases hc : s[pos]? with _ | c
    · simp [downFrom, firstSome]
    · simp only []
      by_cases hin : inC neg items c
      · simp only [hc, hin, ite_true] at h ⊢
        have hlt : run s neg items f (pos + 1) < f := by omega
        have := ih (pos + 1) hlt
        have e : (1 + run s neg items f (pos + 1)) = run s neg items f (pos + 1) + 1 := by omega
        rw [e, downFrom_succ, firstSome_append]
        simp only [show ¬ (pos + 1 ≤ pos) by omega, ite_false, Nat.lt_irrefl, gt_iff_lt,
          Nat.zero_sub, Option.map_none, show ((none : Option Nat) == some 0) = false from rfl,
          Bool.false_eq_true]
        rw [this]
        simp [firstSome]
      · simp [hc, hin, downFrom, firstSome]

end Rx

/-
C18 helper lemmas about the explicit global state: the junk counter is threaded monotonically, a higher
start value only shifts the ids, contexts are never overwritten.
-/
import CLModel.History.State
import CLModel.Proofs.C18Digits
import CLModel.Proofs.C18Natural
namespace Hist
open P

/-! ### `assign`: threading the counter through one walk -/

theorem Ent.shift_shift (d a d' a' : Nat) (e : Ent) :
    (e.shift d a).shift d' a' = e.shift (d + d') (a + a') := by
  cases e with
  | mk ctx entry jid =>
    cases jid <;> simp [Ent.shift, Nat.add_assoc]

theorem Ent.shift_zero (e : Ent) : e.shift 0 0 = e := by
  cases e with
  | mk ctx entry jid => cases jid <;> simp [Ent.shift]

theorem assign_shift (f : Fmt) (s : Array Nat) (ctx a d : Nat) :
    ∀ (es : List Entry) (n off : Nat),
      assign f s (ctx + a) (n + d) off es
        = ((assign f s ctx n off es).1 + d, (assign f s ctx n off es).2.map (Ent.shift d a)) := by
  intro es
  induction es with
  | nil => intro n off; rfl
  | cons e t ih =>
    intro n off
    simp only [assign]
    have : n + d + bumps f s off e = n + bumps f s off e + d := by omega
    rw [this, ih]
    simp only [List.map_cons, Ent.shift]
    cases e.kind == Kind.junk <;> simp

/-- ids handed out by one walk: all in `(n, n']`, strictly increasing -/
theorem assign_ids (f : Fmt) (s : Array Nat) (ctx : Nat) :
    ∀ (es : List Entry) (n off : Nat),
      n ≤ (assign f s ctx n off es).1 ∧
      (∀ i ∈ (assign f s ctx n off es).2.filterMap (·.jid), n < i ∧ i ≤ (assign f s ctx n off es).1) ∧
      ((assign f s ctx n off es).2.filterMap (·.jid)).Pairwise (· < ·) := by
  intro es
  induction es with
  | nil => intro n off; simp [assign]
  | cons e t ih =>
    intro n off
    obtain ⟨h1, h2, h3⟩ := ih (n + bumps f s off e) e.e
    simp only [assign]
    refine ⟨by omega, ?_, ?_⟩
    · intro i hi
      by_cases hj : e.kind == Kind.junk
      · have hb : bumps f s off e = 1 := by simp [bumps, hj]
        simp only [hj, if_true, List.filterMap_cons, List.mem_cons] at hi
        rcases hi with hi | hi
        · subst hi; omega
        · have := h2 i hi; omega
      · simp only [hj, Bool.false_eq_true, if_false, List.filterMap_cons] at hi
        have := h2 i hi; omega
    · by_cases hj : e.kind == Kind.junk
      · simp only [hj, if_true, List.filterMap_cons, List.pairwise_cons]
        refine ⟨fun i hi => (h2 i hi).1, h3⟩
      · simp only [hj, Bool.false_eq_true, if_false, List.filterMap_cons]
        exact h3

/-- an entry has an id iff it is a Junk -/
theorem assign_wf (f : Fmt) (s : Array Nat) (ctx : Nat) :
    ∀ (es : List Entry) (n off : Nat), ∀ e ∈ (assign f s ctx n off es).2,
      e.jid.isSome = (e.entry.kind == Kind.junk) := by
  intro es
  induction es with
  | nil => intro n off e he; simp [assign] at he
  | cons x t ih =>
    intro n off e he
    simp only [assign, List.mem_cons] at he
    rcases he with he | he
    · subst he
      cases x.kind == Kind.junk <;> simp
    · exact ih _ _ e he

theorem assign_ctx (f : Fmt) (s : Array Nat) (ctx : Nat) :
    ∀ (es : List Entry) (n off : Nat), ∀ e ∈ (assign f s ctx n off es).2, e.ctx = ctx := by
  intro es
  induction es with
  | nil => intro n off e he; simp [assign] at he
  | cons x t ih =>
    intro n off e he
    simp only [assign, List.mem_cons] at he
    rcases he with he | he
    · subst he; rfl
    · exact ih _ _ e he

/-! ### materialised entries -/

theorem Ent.key_shift (f : Fmt) (c : Array Nat) (d a : Nat) (e : Ent) :
    (e.shift d a).key f c = (e.key f c).shift d := by
  cases e with
  | mk ctx entry jid => cases jid <;> rfl

theorem kent_shift (f : Fmt) (c : Array Nat) (d a : Nat) (e : Ent) :
    kent f c (e.shift d a) = KEnt.mapKey (Key.shift d) (kent f c e) := by
  cases e with
  | mk ctx entry jid => cases jid <;> rfl

theorem kents_shift (f : Fmt) (c : Array Nat) (d a : Nat) (ents : List Ent) :
    kents f c (ents.map (Ent.shift d a)) = (kents f c ents).map (KEnt.mapKey (Key.shift d)) := by
  unfold kents
  rw [List.filter_map, List.map_map, List.map_map]
  apply List.map_congr_left
  intro e _
  exact kent_shift f c d a e

/-- the junk ids among materialised entries -/
def jids (K : List (KEnt Key)) : List Nat :=
  K.filterMap (fun x => match x.key with | .junk i _ _ => some i | .real _ => none)

def KWf (K : List (KEnt Key)) : Prop := ∀ x ∈ K, x.junk = x.key.isJunk

theorem kents_wf (f : Fmt) (c : Array Nat) (ents : List Ent) : KWf (kents f c ents) := by
  intro x hx
  unfold kents at hx
  rw [List.mem_map] at hx
  obtain ⟨e, _, rfl⟩ := hx
  cases e with
  | mk ctx entry jid => cases jid <;> rfl

theorem jids_kents (f : Fmt) (c : Array Nat) (ents : List Ent) :
    (jids (kents f c ents)).Sublist (ents.filterMap (·.jid)) := by
  unfold jids kents
  rw [List.filterMap_map]
  have e : ((fun x : KEnt Key => match x.key with | .junk i _ _ => some i | .real _ => none) ∘ kent f c)
      = (·.jid) := by
    funext e
    cases e with
    | mk ctx entry jid => cases jid <;> rfl
  rw [e]
  exact List.Sublist.filterMap _ List.filter_sublist

/-! ### which keys can show up in a report -/

section generic
set_option linter.unusedSectionVars false
variable {κ : Type} [BEq κ] [LawfulBEq κ]

theorem dget_some_mem {β : Type} (d : List (κ × β)) (k : κ) (c : β) (h : AR.dget d k = some c) : (k, c) ∈ d := by
  unfold AR.dget at h
  cases hf : d.find? (·.1 == k) with
  | none => rw [hf] at h; simp at h
  | some p =>
    rw [hf] at h
    simp at h
    have h1 := List.find?_some hf
    have h2 := List.mem_of_find?_eq_some hf
    simp at h1
    cases p with
    | mk a b => simp at h h1; subst h; subst h1; exact h2

theorem mem_dset {β : Type} (d : List (κ × β)) (k : κ) (v : β) (p : κ × β) (hp : p ∈ AR.dset d k v) :
    p = (k, v) ∨ p ∈ d := by
  unfold AR.dset at hp
  split at hp
  · rw [List.mem_map] at hp
    obtain ⟨q, hq, rfl⟩ := hp
    split
    · exact Or.inl rfl
    · exact Or.inr hq
  · rw [List.mem_append] at hp
    rcases hp with hp | hp
    · exact Or.inr hp
    · simp at hp; exact Or.inl hp

/-- a `Counter` never counts more occurrences than there are -/
theorem cfold_le : ∀ (xs pre : List κ) (d : List (κ × Nat)), (∀ p ∈ d, p.2 ≤ pre.count p.1) →
    ∀ p ∈ xs.foldl cstep d, p.2 ≤ (pre ++ xs).count p.1 := by
  intro xs
  induction xs with
  | nil => intro pre d hd p hp; simpa using hd p hp
  | cons x t ih =>
    intro pre d hd p hp
    simp only [List.foldl_cons] at hp
    have := ih (pre ++ [x]) (cstep d x) ?_ p hp
    · simpa [List.append_assoc] using this
    · intro q hq
      unfold cstep at hq
      rcases mem_dset d x _ q hq with hq | hq
      · subst hq
        simp only [List.count_append, List.count_singleton, beq_self_eq_true, if_true]
        cases hg : AR.dget d x with
        | none => simp
        | some c =>
          have := hd (x, c) (dget_some_mem d x c hg)
          simp at this ⊢
          omega
      · have := hd q hq
        rw [List.count_append]
        omega

theorem findDuplicates_count (keys : List κ) (k : κ) (c : Nat) (h : (k, c) ∈ findDuplicates keys) :
    1 < keys.count k := by
  unfold findDuplicates at h
  rw [List.mem_filter] at h
  obtain ⟨hm, hc⟩ := h
  have := cfold_le keys [] [] (by simp) (k, c) (by rw [counter_eq] at hm; exact hm)
  simp at this hc
  omega

theorem lookup_key (ents : List (KEnt κ)) (k : κ) (e : KEnt κ) (h : lookup ents k = some e) :
    e.key = k ∧ e ∈ ents := by
  unfold lookup at h
  rw [AR.keyedIndex_eq] at h
  split at h
  · rename_i i hi
    split at hi
    · rename_i hc
      simp at hi
      have hmem : k ∈ (ents.map (·.key)).reverse := by
        rw [List.mem_reverse]; simpa using hc
      have hlt := List.idxOf_lt_length_iff.mpr hmem
      have hget := List.getElem_idxOf hlt
      rw [List.getElem_reverse] at hget
      have hidx : i = (ents.map (·.key)).length - 1 - List.idxOf k (ents.map (·.key)).reverse := by
        simp only [List.length_map]; exact hi.symm
      have hk? : (ents.map (·.key))[i]? = some k := by
        rw [hidx]
        exact (List.getElem?_eq_getElem _).trans (congrArg some hget)
      rw [List.getElem?_map, h] at hk?
      simp at hk?
      exact ⟨hk?, List.mem_of_getElem? h⟩
    · simp at hi
  · simp at h

end generic

/-- keys mentioned by a message -/
def Msg.keys {κ : Type} : Msg κ → List κ
  | .dupRef k _ => [k] | .dupL10n k _ => [k] | .parserErrRef => [] | .missing k => [k]
  | .junkErr .. => [] | .obsolete k => [k] | .mochibake k _ r => [k, r]

def RealMsgs (msgs : List (Msg Key)) : Prop := ∀ m ∈ msgs, ∀ k ∈ m.keys, k.isJunk = false

theorem RealMsgs.append {a b : List (Msg Key)} (ha : RealMsgs a) (hb : RealMsgs b) : RealMsgs (a ++ b) := by
  intro m hm
  rw [List.mem_append] at hm
  rcases hm with hm | hm
  · exact ha m hm
  · exact hb m hm

/-- no junk key is a key of both files -/
def KDisjoint (ref l10n : List (KEnt Key)) : Prop :=
  ∀ k : Key, k.isJunk = true → k ∈ ref.map (·.key) → k ∈ l10n.map (·.key) → False

theorem compareStep_real (lc : Nat → Nat × Nat) (ref l10n : List (KEnt Key)) (hwr : KWf ref) (hwl : KWf l10n)
    (hdis : KDisjoint ref l10n) (acc acc' : Acc Key) (act : AR.Label × Key)
    (h : compareStep isKeyK lc ref l10n acc act = .ok acc') (hreal : RealMsgs acc.1) : RealMsgs acc'.1 := by
  obtain ⟨msgs, st⟩ := acc
  obtain ⟨lab, k⟩ := act
  unfold compareStep at h
  simp only at h hreal
  cases lab with
  | delete =>
    simp only at h
    cases hr : lookup ref k with
    | none => rw [hr] at h; simp at h
    | some r =>
      rw [hr] at h
      obtain ⟨hk, hmem⟩ := lookup_key ref k r hr
      simp only at h
      split at h
      · injection h with h; subst h
        exact hreal.append (by intro m hm; simp at hm; subst hm; simp [Msg.keys])
      · rename_i hj
        injection h with h; subst h
        refine hreal.append ?_
        intro m hm; simp at hm; subst hm
        intro k' hk'; simp [Msg.keys] at hk'; subst hk'
        have := hwr r hmem
        rw [hk] at this
        rw [← this]; simpa using hj
  | add =>
    simp only at h
    cases hl : lookup l10n k with
    | none => rw [hl] at h; simp at h
    | some l =>
      rw [hl] at h
      obtain ⟨hk, hmem⟩ := lookup_key l10n k l hl
      simp only at h
      split at h
      · injection h with h; subst h
        exact hreal.append (by intro m hm; simp at hm; subst hm; simp [Msg.keys])
      · rename_i hj
        injection h with h; subst h
        refine hreal.append ?_
        intro m hm; simp at hm; subst hm
        intro k' hk'; simp [Msg.keys] at hk'; subst hk'
        have := hwl l hmem
        rw [hk] at this
        rw [← this]; simpa using hj
  | equal =>
    simp only at h
    cases hr : lookup ref k with
    | none => rw [hr] at h; cases hl : lookup l10n k <;> rw [hl] at h <;> simp at h
    | some r =>
      cases hl : lookup l10n k with
      | none => rw [hr, hl] at h; simp at h
      | some l =>
        rw [hr, hl] at h
        obtain ⟨hkr, hmr⟩ := lookup_key ref k r hr
        obtain ⟨hkl, hml⟩ := lookup_key l10n k l hl
        have hkreal : k.isJunk = false := by
          cases hj : k.isJunk with
          | false => rfl
          | true =>
            exfalso
            exact hdis k hj (by rw [← hkr]; exact List.mem_map_of_mem hmr)
              (by rw [← hkl]; exact List.mem_map_of_mem hml)
        simp only at h
        split at h
        · simp at h
        · injection h with h; subst h
          refine hreal.append ?_
          intro m hm
          rw [List.mem_map] at hm
          obtain ⟨q, _, rfl⟩ := hm
          intro k' hk'
          simp [Msg.keys] at hk'
          rcases hk' with hk' | hk' <;> subst hk'
          · rw [hkl]; exact hkreal
          · rw [hkr]; exact hkreal

theorem foldlM_real (lc : Nat → Nat × Nat) (ref l10n : List (KEnt Key)) (hwr : KWf ref) (hwl : KWf l10n)
    (hdis : KDisjoint ref l10n) :
    ∀ (xs : List (AR.Label × Key)) (acc acc' : Acc Key),
      xs.foldlM (compareStep isKeyK lc ref l10n) acc = .ok acc' → RealMsgs acc.1 → RealMsgs acc'.1 := by
  intro xs
  induction xs with
  | nil => intro acc acc' h hr; simp [List.foldlM, pure, Except.pure] at h; subst h; exact hr
  | cons x t ih =>
    intro acc acc' h hr
    simp only [List.foldlM_cons, bind, Except.bind] at h
    cases hs : compareStep isKeyK lc ref l10n acc x with
    | error e => rw [hs] at h; simp at h
    | ok a =>
      rw [hs] at h
      exact ih a acc' h (compareStep_real lc ref l10n hwr hwl hdis acc a x hs hr)

/-- every junk key occurs at most once among the keys of one file -/
def JunkOnce (K : List (KEnt Key)) : Prop := ∀ k : Key, k.isJunk = true → (K.map (·.key)).count k ≤ 1

theorem compareG_real (lc : Nat → Nat × Nat) (ref l10n : List (KEnt Key)) (hwr : KWf ref) (hwl : KWf l10n)
    (hdis : KDisjoint ref l10n) (hor : JunkOnce ref) (hol : JunkOnce l10n) (acc : Acc Key)
    (h : compareG isKeyK lc ref l10n = .ok acc) : RealMsgs acc.1 := by
  unfold compareG at h
  refine foldlM_real lc ref l10n hwr hwl hdis _ _ acc h ?_
  simp only
  refine RealMsgs.append ?_ ?_
  · intro m hm
    rw [List.mem_map] at hm
    obtain ⟨p, hp, rfl⟩ := hm
    intro k hk
    simp [Msg.keys] at hk; subst hk
    have hc := findDuplicates_count _ p.1 p.2 hp
    cases hj : p.1.isJunk with
    | false => rfl
    | true => have := hor p.1 hj; omega
  · intro m hm
    rw [List.mem_map] at hm
    obtain ⟨p, hp, rfl⟩ := hm
    intro k hk
    simp [Msg.keys] at hk; subst hk
    have hc := findDuplicates_count _ p.1 p.2 hp
    cases hj : p.1.isJunk with
    | false => rfl
    | true => have := hol p.1 hj; omega

/-- on messages without junk keys the renaming of junk keys does nothing -/
theorem mapKey_real (d : Nat) (msgs : List (Msg Key)) (h : RealMsgs msgs) :
    msgs.map (Msg.mapKey (fun k => (k.shift d).render)) = msgs.map (Msg.mapKey Key.render) := by
  apply List.map_congr_left
  intro m hm
  have hk := h m hm
  have real : ∀ k : Key, k.isJunk = false → (k.shift d).render = k.render := by
    intro k hk; cases k <;> simp [Key.isJunk] at hk ⊢ <;> rfl
  cases m <;> simp [Msg.mapKey, Msg.keys] at hk ⊢
  all_goals first | exact real _ hk | exact ⟨real _ hk.1, real _ hk.2⟩ | skip

/-! ### one parse from any state -/

theorem doParse_ents (g : G) (f : Fmt) (t : Array Nat) :
    (doParse g f t).2.2 = (ents0 f t).map (Ent.shift g.junkid g.heap.length) := by
  have := assign_shift f t 0 g.heap.length g.junkid (entriesOf (walk f t)) 0 0
  simp only [Nat.zero_add] at this
  simp only [doParse, ents0, this]

theorem doParse_junkid (g : G) (f : Fmt) (t : Array Nat) :
    (doParse g f t).1.junkid = bump0 f t + g.junkid := by
  have := assign_shift f t 0 g.heap.length g.junkid (entriesOf (walk f t)) 0 0
  simp only [Nat.zero_add] at this
  simp only [doParse, bump0, this]

theorem doParse_heap (g : G) (f : Fmt) (t : Array Nat) :
    (doParse g f t).1.heap = g.heap ++ [{ contents := t }] := rfl

theorem doParse_stuck (g : G) (f : Fmt) (t : Array Nat) : (doParse g f t).2.1 = stuckAt (walk f t) := rfl

/-! ### junk ids of the two files of a compare -/

theorem jids_map_shift (b : Nat) (K : List (KEnt Key)) :
    jids (K.map (KEnt.mapKey (Key.shift b))) = (jids K).map (· + b) := by
  induction K with
  | nil => rfl
  | cons x t ih =>
    unfold jids at ih ⊢
    simp only [List.map_cons, List.filterMap_cons]
    cases hk : x.key with
    | real s => simp [KEnt.mapKey, hk, Key.shift, ih]
    | junk i s e => simp [KEnt.mapKey, hk, Key.shift, ih]

theorem kwf_map_shift (b : Nat) (K : List (KEnt Key)) (h : KWf K) : KWf (K.map (KEnt.mapKey (Key.shift b))) := by
  intro x hx
  rw [List.mem_map] at hx
  obtain ⟨y, hy, rfl⟩ := hx
  have := h y hy
  simp only [KEnt.mapKey]
  rw [this]
  cases y.key <;> rfl

theorem mem_jids (K : List (KEnt Key)) (i s e : Nat) (h : Key.junk i s e ∈ K.map (·.key)) : i ∈ jids K := by
  rw [List.mem_map] at h
  obtain ⟨x, hx, hk⟩ := h
  unfold jids
  rw [List.mem_filterMap]
  exact ⟨x, hx, by rw [hk]⟩

theorem junkOnce_of_pairwise : ∀ (K : List (KEnt Key)), (jids K).Pairwise (· < ·) → JunkOnce K := by
  intro K
  induction K with
  | nil => intro _ k _; simp
  | cons x t ih =>
    intro hp k hk
    have htail : (jids t).Pairwise (· < ·) := by
      unfold jids at hp ⊢
      simp only [List.filterMap_cons] at hp
      split at hp
      · exact hp
      · exact (List.pairwise_cons.mp hp).2
    simp only [List.map_cons, List.count_cons]
    by_cases hx : x.key = k
    · subst hx
      cases hkk : x.key with
      | real s => rw [hkk] at hk; simp [Key.isJunk] at hk
      | junk i s e =>
        have hnot : Key.junk i s e ∉ t.map (·.key) := by
          intro hm
          have hi := mem_jids t i s e hm
          unfold jids at hp
          simp only [List.filterMap_cons, hkk] at hp
          have := (List.pairwise_cons.mp hp).1 i hi
          omega
        have : (t.map (·.key)).count (Key.junk i s e) = 0 := List.count_eq_zero.mpr hnot
        simp [this]
    · have := ih htail k hk
      have hne : (x.key == k) = false := by simpa using hx
      simp [hne]; exact this

theorem kdisjoint_of_bounds (Kr Kl : List (KEnt Key)) (b : Nat) (hr : ∀ i ∈ jids Kr, i ≤ b)
    (hl : ∀ i ∈ jids Kl, b < i) : KDisjoint Kr Kl := by
  intro k hk h1 h2
  cases k with
  | real s => simp [Key.isJunk] at hk
  | junk i s e =>
    have := hr i (mem_jids Kr i s e h1)
    have := hl i (mem_jids Kl i s e h2)
    omega

theorem ents0_ids (f : Fmt) (t : Array Nat) :
    (∀ i ∈ (ents0 f t).filterMap (·.jid), 0 < i ∧ i ≤ bump0 f t) ∧
      ((ents0 f t).filterMap (·.jid)).Pairwise (· < ·) := by
  obtain ⟨_, h2, h3⟩ := assign_ids f t 0 (entriesOf (walk f t)) 0 0
  exact ⟨h2, h3⟩

theorem refK_facts (f : Fmt) (ref : Array Nat) :
    KWf (refK f ref) ∧ (jids (refK f ref)).Pairwise (· < ·) ∧ ∀ i ∈ jids (refK f ref), i ≤ bump0 f ref := by
  obtain ⟨h2, h3⟩ := ents0_ids f ref
  have hs := jids_kents f ref (ents0 f ref)
  exact ⟨kents_wf _ _ _, h3.sublist hs, fun i hi => (h2 i (hs.subset hi)).2⟩

theorem l10nK_facts (f : Fmt) (ref l10n : Array Nat) :
    KWf (l10nK f ref l10n) ∧ (jids (l10nK f ref l10n)).Pairwise (· < ·) ∧
      ∀ i ∈ jids (l10nK f ref l10n), bump0 f ref < i := by
  obtain ⟨h2, h3⟩ := ents0_ids f l10n
  have hs := jids_kents f l10n (ents0 f l10n)
  unfold l10nK
  rw [jids_map_shift]
  refine ⟨kwf_map_shift _ _ (kents_wf _ _ _), ?_, ?_⟩
  · rw [List.pairwise_map]
    exact (h3.sublist hs).imp (by intro a b h; omega)
  · intro i hi
    rw [List.mem_map] at hi
    obtain ⟨j, hj, rfl⟩ := hi
    have := (h2 j (hs.subset hj)).1
    omega

/-! ### the report of a compare does not depend on the state -/

theorem KEnt.mapKey_mapKey {α β γ : Type} (f : α → β) (g : β → γ) (x : KEnt α) :
    KEnt.mapKey g (KEnt.mapKey f x) = KEnt.mapKey (fun k => g (f k)) x := rfl

theorem Key.shift_shift (a b : Nat) (k : Key) : (k.shift a).shift b = k.shift (a + b) := by
  cases k <;> simp [Key.shift, Nat.add_assoc]

theorem phi_injOn (f : Fmt) (ref l10n : Array Nat) (h : NoJunkLikeKeys f ref l10n) (d : Nat) :
    InjOn (fun k : Key => (k.shift d).render) ((refK f ref).map (·.key) ++ (l10nK f ref l10n).map (·.key)) := by
  intro a ha b hb hab
  cases a with
  | real s =>
    cases b with
    | real t => simpa [Key.shift, Key.render] using hab
    | junk i x y =>
      exfalso
      exact h s ha ⟨i + d, x, y, by simpa [Key.shift, Key.render] using hab⟩
  | junk i x y =>
    cases b with
    | real t =>
      exfalso
      exact h t hb ⟨i + d, x, y, by simpa [Key.shift, Key.render] using hab.symm⟩
    | junk j x' y' =>
      simp only [Key.shift, Key.render] at hab
      obtain ⟨h1, h2, h3⟩ := junkKey_inj hab
      have : i = j := by omega
      subst this; subst h2; subst h3; rfl

theorem phi_isKey (d : Nat) (k : Key) : isKeyStr ((k.shift d).render) = isKeyK k := by
  cases k with
  | real t => rfl
  | junk i s e => exact isKeyStr_junkKey _ _ _

/-- the report of a compare, started in ANY state, is the rendering of the structured report of a fresh
    interpreter: the state does not show -/
theorem report_indep (g : G) (f : Fmt) (ref l10n : Array Nat) (h : NoJunkLikeKeys f ref l10n) :
    (step g (.compare f ref l10n)).2 =
      .report ((compareG isKeyK (linecolOf (lineEnds l10n)) (refK f ref) (l10nK f ref l10n)).map
        (accMap Key.render)) := by
  simp only [step]
  congr 1
  unfold reportStr
  have e1 : kents f ref (doParse g f ref).2.2
      = (refK f ref).map (KEnt.mapKey (Key.shift g.junkid)) := by
    rw [doParse_ents, kents_shift]; rfl
  have e2 : kents f l10n (doParse (doParse g f ref).1 f l10n).2.2
      = (l10nK f ref l10n).map (KEnt.mapKey (Key.shift g.junkid)) := by
    rw [doParse_ents, kents_shift, doParse_junkid]
    unfold l10nK
    rw [List.map_map]
    apply List.map_congr_left
    intro x _
    simp only [Function.comp, KEnt.mapKey_mapKey, Key.shift_shift]
  rw [e1, e2, List.map_map, List.map_map]
  have e3 : (KEnt.mapKey Key.render ∘ KEnt.mapKey (Key.shift g.junkid))
      = KEnt.mapKey (fun k : Key => (k.shift g.junkid).render) := rfl
  rw [e3]
  obtain ⟨wr, pr, br⟩ := refK_facts f ref
  obtain ⟨wl, pl, bl⟩ := l10nK_facts f ref l10n
  rw [compareG_nat (phi_injOn f ref l10n h g.junkid) isKeyK isKeyStr (fun k _ => phi_isKey g.junkid k)
    (linecolOf (lineEnds l10n)) (refK f ref) (l10nK f ref l10n)
    (fun e he => List.mem_append_left _ (List.mem_map_of_mem he))
    (fun e he => List.mem_append_right _ (List.mem_map_of_mem he))]
  cases hc : compareG isKeyK (linecolOf (lineEnds l10n)) (refK f ref) (l10nK f ref l10n) with
  | error e => rfl
  | ok acc =>
    have hreal := compareG_real _ _ _ wr wl (kdisjoint_of_bounds _ _ _ br bl)
      (junkOnce_of_pairwise _ pr) (junkOnce_of_pairwise _ pl) acc hc
    simp only [Except.map, accMap]
    rw [mapKey_real _ _ hreal]

theorem parse_out (g : G) (f : Fmt) (t : Array Nat) :
    (step g (.parse f t)).2 = .parsed (stuckAt (walk f t)) ((ents0 f t).map (Ent.shift g.junkid g.heap.length)) := by
  simp only [step]
  rw [doParse_ents]
  rfl

/-! ### whole histories -/

theorem step_closed_out (g g0 : G) (d a : Nat) (op : Op) (hc : op.closed)
    (hj : g.junkid = g0.junkid + d) (hh : g.heap.length = g0.heap.length + a) :
    (step g op).2 = ((step g0 op).2).shift d a := by
  cases op with
  | parse f t =>
    rw [parse_out, parse_out]
    simp only [Out.shift, List.map_map]
    congr 1
    apply List.map_congr_left
    intro e _
    simp only [Function.comp, Ent.shift_shift, hj, hh]
  | compare f ref l10n =>
    rw [report_indep g f ref l10n hc, report_indep g0 f ref l10n hc]
    rfl
  | reobs f e => exact absurd hc (by simp [Op.closed])

theorem step_closed_state (g g0 : G) (d a : Nat) (op : Op) (hc : op.closed)
    (hj : g.junkid = g0.junkid + d) (hh : g.heap.length = g0.heap.length + a) :
    (step g op).1.junkid = (step g0 op).1.junkid + d ∧
      (step g op).1.heap.length = (step g0 op).1.heap.length + a := by
  cases op with
  | parse f t =>
    simp only [step]
    rw [doParse_junkid, doParse_junkid, doParse_heap, doParse_heap]
    simp only [List.length_append, List.length_cons, List.length_nil]
    omega
  | compare f ref l10n =>
    simp only [step]
    rw [doParse_junkid, doParse_junkid, doParse_junkid, doParse_junkid,
      doParse_heap, doParse_heap, doParse_heap, doParse_heap]
    simp only [List.length_append, List.length_cons, List.length_nil]
    omega
  | reobs f e => exact absurd hc (by simp [Op.closed])

theorem run_shift : ∀ (ops : List Op) (g g0 : G) (d a : Nat), (∀ op ∈ ops, op.closed) →
    g.junkid = g0.junkid + d → g.heap.length = g0.heap.length + a →
    (run g ops).2 = ((run g0 ops).2).map (Out.shift d a) := by
  intro ops
  induction ops with
  | nil => intro g g0 d a _ _ _; rfl
  | cons op t ih =>
    intro g g0 d a hc hj hh
    have hop := hc op List.mem_cons_self
    obtain ⟨s1, s2⟩ := step_closed_state g g0 d a op hop hj hh
    simp only [run, List.map_cons]
    rw [step_closed_out g g0 d a op hop hj hh,
      ih (step g op).1 (step g0 op).1 d a (fun o ho => hc o (List.mem_cons_of_mem _ ho)) s1 s2]

theorem filterMap_jid_shift (d a : Nat) (es : List Ent) :
    (es.map (Ent.shift d a)).filterMap (·.jid) = (es.filterMap (·.jid)).map (· + d) := by
  induction es with
  | nil => rfl
  | cons e t ih =>
    cases e with
    | mk ctx entry jid =>
      cases jid with
      | none => simpa [Ent.shift] using ih
      | some i => simpa [Ent.shift] using ih

theorem doObs_junkid (g : G) (f : Fmt) (e : Ent) : (doObs g f e).1.junkid = g.junkid := by
  unfold doObs
  split <;> rfl

/-- the counter never decreases; the ids of the entries an operation returns lie between the old and the new
    counter value and increase -/
theorem step_ids (g : G) (op : Op) :
    g.junkid ≤ (step g op).1.junkid ∧
    (∀ i ∈ (step g op).2.ents.filterMap (·.jid), g.junkid < i ∧ i ≤ (step g op).1.junkid) ∧
    ((step g op).2.ents.filterMap (·.jid)).Pairwise (· < ·) := by
  cases op with
  | parse f t =>
    obtain ⟨h2, h3⟩ := ents0_ids f t
    simp only [step, Out.ents]
    rw [doParse_junkid, doParse_ents, filterMap_jid_shift]
    refine ⟨by omega, ?_, ?_⟩
    · intro i hi
      rw [List.mem_map] at hi
      obtain ⟨j, hj, rfl⟩ := hi
      have := h2 j hj
      omega
    · rw [List.pairwise_map]
      exact h3.imp (by intro a b h; omega)
  | compare f ref l10n =>
    simp only [step, Out.ents]
    rw [doParse_junkid, doParse_junkid]
    refine ⟨by omega, by simp, by simp⟩
  | reobs f e =>
    simp only [step, Out.ents]
    rw [doObs_junkid]
    refine ⟨by omega, by simp, by simp⟩

theorem run_ids : ∀ (ops : List Op) (g : G),
    (((run g ops).2.flatMap Out.ents).filterMap (·.jid)).Pairwise (· < ·) ∧
    ∀ i ∈ ((run g ops).2.flatMap Out.ents).filterMap (·.jid), g.junkid < i := by
  intro ops
  induction ops with
  | nil => intro g; simp [run]
  | cons op t ih =>
    intro g
    obtain ⟨m, b, p⟩ := step_ids g op
    obtain ⟨ip, ib⟩ := ih (step g op).1
    simp only [run, List.flatMap_cons, List.filterMap_append]
    refine ⟨?_, ?_⟩
    · rw [List.pairwise_append]
      refine ⟨p, ip, ?_⟩
      intro a ha c hc
      have := (b a ha).2
      have := ib c hc
      omega
    · intro i hi
      rw [List.mem_append] at hi
      rcases hi with hi | hi
      · exact (b i hi).1
      · have := ib i hi; omega

theorem keys_nodup_of_ids : ∀ (E : List Ent), (E.filterMap (·.jid)).Pairwise (· < ·) →
    (E.filterMap Ent.junkKeyStr).Nodup := by
  intro E
  induction E with
  | nil => intro _; simp
  | cons e t ih =>
    intro hp
    cases hj : e.jid with
    | none =>
      have : e.junkKeyStr = none := by simp [Ent.junkKeyStr, hj]
      simp only [List.filterMap_cons, hj, this] at hp ⊢
      exact ih hp
    | some i =>
      have hk : e.junkKeyStr = some (junkKey i e.entry.s e.entry.e) := by simp [Ent.junkKeyStr, hj]
      simp only [List.filterMap_cons, hj, hk] at hp ⊢
      obtain ⟨hlt, htail⟩ := List.pairwise_cons.mp hp
      rw [List.nodup_cons]
      refine ⟨?_, ih htail⟩
      intro hm
      rw [List.mem_filterMap] at hm
      obtain ⟨e', he', hk'⟩ := hm
      unfold Ent.junkKeyStr at hk'
      cases hj' : e'.jid with
      | none => rw [hj'] at hk'; simp at hk'
      | some i' =>
        rw [hj'] at hk'
        simp at hk'
        obtain ⟨h1, _, _⟩ := junkKey_inj hk'
        have : i' ∈ t.filterMap (·.jid) := List.mem_filterMap.mpr ⟨e', he', hj'⟩
        have := hlt i' this
        omega

/-! ### contexts are never overwritten -/

/-- a Context object later in time: same contents, the line cache at most filled in -/
def CellLe (c c' : Ctx) : Prop :=
  c'.contents = c.contents ∧ (c'.lines = c.lines ∨ (c.lines = none ∧ c'.lines = some (lineEnds c.contents)))

theorem CellLe.refl (c : Ctx) : CellLe c c := ⟨rfl, Or.inl rfl⟩

theorem CellLe.trans {a b c : Ctx} (h1 : CellLe a b) (h2 : CellLe b c) : CellLe a c := by
  obtain ⟨c1, l1⟩ := h1
  obtain ⟨c2, l2⟩ := h2
  refine ⟨c2.trans c1, ?_⟩
  rcases l1 with l1 | ⟨l1, l1'⟩ <;> rcases l2 with l2 | ⟨l2, l2'⟩
  · exact Or.inl (l2.trans l1)
  · exact Or.inr ⟨by rw [← l1]; exact l2, by rw [l2', c1]⟩
  · exact Or.inr ⟨l1, by rw [l2, l1']⟩
  · rw [l1'] at l2; simp at l2

theorem linecol_le (c : Ctx) (pos : Nat) : CellLe c (c.linecol pos).2 := by
  unfold Ctx.linecol
  cases h : c.lines with
  | some ls => simp only; exact CellLe.refl c
  | none => simp only; exact ⟨rfl, Or.inr ⟨h, rfl⟩⟩

def HeapLe (h h' : List Ctx) : Prop := ∀ (i : Nat) (c : Ctx), h[i]? = some c → ∃ c', h'[i]? = some c' ∧ CellLe c c'

theorem HeapLe.refl (h : List Ctx) : HeapLe h h := fun _ c hc => ⟨c, hc, CellLe.refl c⟩

theorem HeapLe.trans {a b c : List Ctx} (h1 : HeapLe a b) (h2 : HeapLe b c) : HeapLe a c := by
  intro i x hx
  obtain ⟨y, hy, l1⟩ := h1 i x hx
  obtain ⟨z, hz, l2⟩ := h2 i y hy
  exact ⟨z, hz, l1.trans l2⟩

theorem heapLe_append (h t : List Ctx) : HeapLe h (h ++ t) := by
  intro i c hc
  have hlt : i < h.length := by
    rw [List.getElem?_eq_some_iff] at hc
    exact hc.1
  exact ⟨c, by rw [List.getElem?_append_left hlt]; exact hc, CellLe.refl c⟩

theorem doObs_heap (g : G) (f : Fmt) (e : Ent) : HeapLe g.heap (doObs g f e).1.heap := by
  unfold doObs
  cases hc : g.heap[e.ctx]? with
  | none => exact HeapLe.refl _
  | some c =>
    simp only
    intro i x hx
    rw [List.getElem?_set]
    by_cases hi : e.ctx = i
    · subst hi
      have hlt : e.ctx < g.heap.length := by
        rw [List.getElem?_eq_some_iff] at hc
        exact hc.1
      rw [hc] at hx
      injection hx with hx
      subst hx
      simp only [if_true, hlt]
      exact ⟨_, rfl, (linecol_le c e.entry.s).trans (linecol_le _ e.entry.e)⟩
    · simp only [hi, if_false]
      exact ⟨x, hx, CellLe.refl x⟩

theorem step_heap (g : G) (op : Op) : HeapLe g.heap (step g op).1.heap := by
  cases op with
  | parse f t => simp only [step]; rw [doParse_heap]; exact heapLe_append _ _
  | compare f ref l10n =>
    simp only [step]
    rw [doParse_heap, doParse_heap]
    exact (heapLe_append _ _).trans (heapLe_append _ _)
  | reobs f e => simp only [step]; exact doObs_heap g f e

theorem run_heap : ∀ (ops : List Op) (g : G), HeapLe g.heap (run g ops).1.heap := by
  intro ops
  induction ops with
  | nil => intro g; exact HeapLe.refl _
  | cons op t ih =>
    intro g
    simp only [run]
    exact (step_heap g op).trans (ih _)

theorem obsPure_le (h h' : List Ctx) (hle : HeapLe h h') (f : Fmt) (e : Ent) (he : e.ctx < h.length) :
    obsPure h' f e = obsPure h f e := by
  unfold obsPure
  have hc : h[e.ctx]? = some h[e.ctx] := List.getElem?_eq_getElem he
  obtain ⟨c', hc', hcont, hlines⟩ := hle e.ctx _ hc
  rw [hc, hc']
  simp only [Option.map_some, hcont]
  rcases hlines with hl | ⟨hl, hl'⟩
  · rw [hl]
  · rw [hl, hl']

/-- reading an entry through `doObs` (which fills the cache) gives the pure observation -/
theorem doObs_eq (g : G) (f : Fmt) (e : Ent) : (doObs g f e).2 = obsPure g.heap f e := by
  unfold doObs obsPure
  cases hc : g.heap[e.ctx]? with
  | none => rfl
  | some c =>
    simp only [Option.map_some]
    unfold Ctx.linecol
    cases hl : c.lines with
    | some ls => simp [hl]
    | none => simp

/-- entries returned by a parse refer to the Context created by that parse -/
theorem doParse_ctx (g : G) (f : Fmt) (t : Array Nat) :
    ∀ e ∈ (doParse g f t).2.2, e.ctx < (doParse g f t).1.heap.length := by
  intro e he
  have := assign_ctx f t g.heap.length (entriesOf (walk f t)) g.junkid 0 e he
  rw [doParse_heap, this]
  simp

theorem junkShaped_head (t : List Nat) (h : JunkShaped t) : t.head? = some 95 := by
  obtain ⟨i, s, e, rfl⟩ := h
  rfl

end Hist

/-
C05 pipeline: from the history of notifications to what `observers.toJSON()` shows (uses the C10 theorems).
-/
import CLModel.Proofs.C05Pipe
import CLModel.Props.C10
namespace Pipe
open ObsM (Ev ObsList Obs)
open TreeM

/-- all events of a history concern one file -/
theorem history_prefix_free {h : List Ev} {file : ObsM.File} (hf : ∀ ev ∈ h, ev.file = file) :
    ∀ e1 ∈ h, ∀ e2 ∈ h, ∀ p1 p2, ObsM.partsOf e1.file = .ok p1 → ObsM.partsOf e2.file = .ok p2 → p1 <+: p2 → p1 = p2 := by
  intro e1 h1 e2 h2 p1 p2 hp1 hp2 _
  rw [hf e1 h1] at hp1
  rw [hf e2 h2] at hp2
  rw [hp1] at hp2
  cases hp2
  rfl

/-- Every item `toJSON()["details"]` shows was put there by one notification of the history, as `{category: data}`
    (file categories: `{category: filter result}`). -/
theorem report_details_from_history (q : Nat) (flts : List (Option ObsM.Filter)) (file : ObsM.File)
    (hm : ObsM.Modelled file) (h : List Ev) (obs' : ObsList)
    (hr : Reach (ObsList.init q (flts.map (Obs.init q))) file h obs') (m : Merge.Outcome) :
    ∀ leaf ∈ (reportOf obs' m).details, ∀ d ∈ leaf.2,
      ∃ cat f data rv, Ev.notify cat f data ∈ h ∧ d = ObsM.detailOf cat rv data := by
  intro leaf hleaf d hd
  obtain ⟨hown, _⟩ := C10.list_own_as_observer q _ h obs' hr.run
  generalize hh' : h.filter (fun ev => !ObsM.ignList ((flts.map (Obs.init q)).map (·.filter)) ev) = h' at hown
  have hsub : ∀ ev ∈ h', ev ∈ h := by
    intro ev hev; rw [← hh'] at hev; exact (List.mem_filter.1 hev).1
  have hfiles : ∀ ev ∈ h', ev.file = file := fun ev hev => hr.files ev (hsub ev hev)
  have hmod : ∀ ev ∈ h', ObsM.Modelled ev.file := fun ev hev => by rw [hfiles ev hev]; exact hm
  have hjson := C10.tojson_history q none h' obs'.own hown hmod (history_prefix_free hfiles)
  obtain ⟨_, hinv⟩ := C10.run_total q none h' hmod
  obtain ⟨o2, ho2, hinv2⟩ := C10.run_total q none h' hmod
  rw [hown] at ho2
  cases ho2
  -- the leaf is a value of the flattened tree
  have hmem : (joinSlash leaf.1, leaf.2) ∈ (flatten obs'.own.details).map (fun pv => (joinSlash pv.1, pv.2)) := by
    rw [← hjson]
    exact List.mem_map.2 ⟨leaf, hleaf, rfl⟩
  obtain ⟨pv, hpv, hpeq⟩ := List.mem_map.1 hmem
  have hv : pv.2 = leaf.2 := by
    have := congrArg Prod.snd hpeq
    simpa using this
  have hfind := (mem_flatten_iff_find obs'.own.details hinv2 pv.1 pv.2).1 hpv
  rw [ObsM.init_details hown pv.1] at hfind
  split at hfind
  · cases hfind
  · simp only [Option.some.injEq] at hfind
    rw [← hv, ← hfind] at hd
    simp only [ObsM.detailsSpec, List.mem_filterMap] at hd
    obtain ⟨ev, hev, hde⟩ := hd
    cases ev with
    | stats f st => simp [ObsM.evDetail] at hde
    | notify cat f data =>
      simp only [ObsM.evDetail] at hde
      split at hde
      · simp only [Option.some.injEq] at hde
        exact ⟨cat, f, data, _, hsub _ hev, hde.symm⟩
      · cases hde

theorem stdObs_eq : stdObs = ObsList.init 0 ([none].map (Obs.init 0)) := rfl

/-- With the one unfiltered observer nothing is ignored or hidden: every notification of an entity or message
    category is an item of `toJSON()["details"]`. -/
theorem report_has_detail (file : ObsM.File) (hm : ObsM.Modelled file) (h : List Ev) (obs' : ObsList)
    (hr : Reach stdObs file h obs') (m : Merge.Outcome) (cat : ObsM.Cat) (data : ObsM.Data)
    (hev : Ev.notify cat file data ∈ h)
    (hcat : cat = .error ∨ cat = .warning ∨ cat = .missingEntity ∨ cat = .obsoleteEntity) :
    ∃ leaf ∈ (reportOf obs' m).details, (cat, ObsM.DVal.data data) ∈ leaf.2 := by
  obtain ⟨hown, _⟩ := C10.list_own_as_observer 0 _ h obs' hr.run
  have hfilt : h.filter (fun ev => !ObsM.ignList ((([none] : List (Option ObsM.Filter)).map (Obs.init 0)).map (·.filter)) ev) = h := by
    apply List.filter_eq_self.2
    intro ev _
    cases ev with
    | stats f st => simp [ObsM.ignList]
    | notify c f d => simp [ObsM.ignList, ObsM.Obs.init, ObsM.rvOf]
  have hfilt' : h.filter (fun ev => !ObsM.ignList (List.map (fun x => x.filter) [Obs.init 0 none]) ev) = h := hfilt
  rw [hfilt'] at hown
  have hmod : ∀ ev ∈ h, ObsM.Modelled ev.file := fun ev hev => by rw [hr.files ev hev]; exact hm
  have hjson := C10.tojson_history 0 none h obs'.own hown hmod (history_prefix_free hr.files)
  obtain ⟨o2, ho2, hinv2⟩ := C10.run_total 0 none h hmod
  rw [hown] at ho2
  cases ho2
  obtain ⟨parts, hparts, _, _⟩ := ObsM.partsOf_ok hm
  have hd : (cat, ObsM.DVal.data data) ∈ ObsM.detailsSpec 0 none h parts := by
    simp only [ObsM.detailsSpec, List.mem_filterMap]
    refine ⟨_, hev, ?_⟩
    have hshow : ObsM.shows 0 cat = true := by rcases hcat with rfl | rfl | rfl | rfl <;> rfl
    have hnf : cat.isFile = false := by rcases hcat with rfl | rfl | rfl | rfl <;> rfl
    simp [ObsM.evDetail, ObsM.rvOf, hshow, ObsM.hasParts, hparts, ObsM.detailOf, hnf]
  have hfind := ObsM.init_details hown parts
  have hne : (ObsM.detailsSpec 0 none h parts).isEmpty = false := by
    cases hds : ObsM.detailsSpec 0 none h parts with
    | nil => rw [hds] at hd; cases hd
    | cons _ _ => rfl
  rw [hne] at hfind
  simp only [Bool.false_eq_true, if_false] at hfind
  have hflat := (mem_flatten_iff_find obs'.own.details hinv2 parts _).2 hfind
  have hmem : (joinSlash parts, ObsM.detailsSpec 0 none h parts) ∈
      (toJSON obs'.own.details).leaves.map (fun kv => (joinSlash kv.1, kv.2)) := by
    rw [hjson]
    exact List.mem_map.2 ⟨_, hflat, rfl⟩
  obtain ⟨leaf, hleaf, hleq⟩ := List.mem_map.1 hmem
  refine ⟨leaf, hleaf, ?_⟩
  have : leaf.2 = ObsM.detailsSpec 0 none h parts := by
    have := congrArg Prod.snd hleq
    simpa using this
  rw [this]
  exact hd

end Pipe

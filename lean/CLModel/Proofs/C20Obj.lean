/-
C20 (round 4) — the `AddRemove` object as a state machine: iterating does not change the state, the
state after a history is (last `set_left` argument, last `set_right` argument), and every iteration
observes the closed form of the CURRENT sides.  Helper lemmas.  Core Lean only.
-/
import CLModel.Compare.AddRemoveObj
import CLModel.Proofs.C20Dup
namespace C20P
open AR C20M

variable {α : Type} [BEq α]

omit [BEq α] in
theorem or_or_some (a b : Option (List α)) (l : List α) : ((a.or (some l)).or b) = a.or (some l) := by
  cases a <;> rfl

theorem final_cons (o : Obj α) (op : Op α) (ops : List (Op α)) :
    Obj.final o (op :: ops) = Obj.final (o.step op).1 ops := rfl

/-- `self.left` after a history: the argument of the last `set_left`, else the initial value -/
theorem final_left (o : Obj α) (ops : List (Op α)) :
    (Obj.final o ops).left = (curLeft ops).or o.left := by
  induction ops generalizing o with
  | nil => rfl
  | cons op ops ih =>
    rw [final_cons, ih]
    cases op with
    | setLeft l => simp only [Obj.step, curLeft, or_or_some]
    | setRight r => rfl
    | iterate => rfl

theorem final_right (o : Obj α) (ops : List (Op α)) :
    (Obj.final o ops).right = (curRight ops).or o.right := by
  induction ops generalizing o with
  | nil => rfl
  | cons op ops ih =>
    rw [final_cons, ih]
    cases op with
    | setLeft l => rfl
    | setRight r => simp only [Obj.step, curRight, or_or_some]
    | iterate => rfl

/-- the n-th observation is the n-th operation applied to the state reached by the first n -/
theorem trace_getElem? (o : Obj α) (ops : List (Op α)) (n : Nat) :
    (Obj.trace o ops)[n]? = (ops[n]?).map (fun op => ((Obj.final o (ops.take n)).step op).2) := by
  induction ops generalizing o n with
  | nil => simp [Obj.trace]
  | cons op ops ih =>
    cases n with
    | zero => simp [Obj.trace, Obj.final]
    | succ n =>
      rw [Obj.trace, List.getElem?_cons_succ, List.getElem?_cons_succ, ih, List.take_succ_cons, final_cons]

theorem trace_length (o : Obj α) (ops : List (Op α)) : (Obj.trace o ops).length = ops.length := by
  induction ops generalizing o with
  | nil => rfl
  | cons op ops ih => simp [Obj.trace, ih]

variable [LawfulBEq α]

/-- one iteration = the closed form of the two attributes -/
theorem iterate_eq_specOut (o : Obj α) : o.iterate = specOut o.left o.right := by
  unfold Obj.iterate specOut
  cases o.left with
  | none => rfl
  | some l =>
    cases o.right with
    | none => rfl
    | some r => simp only [addRemove_eq_specD]

end C20P

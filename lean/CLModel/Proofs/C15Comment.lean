/-
C15C: stand-alone comments.  `get_key_value` keys the n-th stand-alone comment with text `v` of a version by `(v, n)`
(the duplicate-comment counter), so the merge holds the n-th copy iff SOME version has at least n copies: the number of
copies of a comment text in the merge is the maximum over the versions.  Core Lean only.
-/
import CLModel.Proofs.C15Text
namespace C15C
open AR Merge

/-- number of stand-alone comments with text `v` in an entry list -/
def copies (v : List Nat) (es : List Ent) : Nat := (es.filter (fun e => e.kind == .comment && e.val == v)).length

theorem copies_cons (v : List Nat) (e : Ent) (es : List Ent) :
    copies v (e :: es) = (if e.kind = .comment ∧ e.val = v then 1 else 0) + copies v es := by
  unfold copies
  rw [List.filter_cons]
  by_cases h : e.kind = .comment ∧ e.val = v
  · have : (e.kind == P.Kind.comment && e.val == v) = true := by simp [h.1, h.2]
    rw [if_pos this, if_pos h, List.length_cons]; omega
  · have : ¬ ((e.kind == P.Kind.comment && e.val == v) = true) := by
      intro hh
      simp only [Bool.and_eq_true, beq_iff_eq] at hh
      exact h hh
    rw [if_neg this, if_neg h]; omega

/-- which comment keys `pairs` produces, starting from a counter `c` -/
theorem pairs_comment_mem (v : List Nat) (n : Nat) : ∀ (es : List Ent) (c : List (List Nat × Nat)),
    Key.comment v n ∈ (pairs es c).map (·.1) ↔ cnt c v < n ∧ n ≤ cnt c v + copies v es := by
  intro es
  induction es with
  | nil =>
    intro c
    simp only [pairs, copies, List.map_nil, List.not_mem_nil, List.filter_nil, List.length_nil, Nat.add_zero, false_iff]
    omega
  | cons e es ih =>
    intro c
    rw [copies_cons]
    by_cases h1 : e.kind = .comment
    · simp only [pairs, getKeyValue_comment e c h1, List.map_cons, List.mem_cons, ih, cnt_dset]
      by_cases hv : e.val = v
      · subst hv
        simp only [h1, true_and, if_true, beq_self_eq_true, Key.comment.injEq]
        constructor
        · rintro (h2 | ⟨h2, h3⟩)
          · omega
          · omega
        · rintro ⟨h2, h3⟩
          by_cases hn : n = cnt c e.val + 1
          · exact .inl hn
          · exact .inr ⟨by omega, by omega⟩
      · have hb : (e.val == v) = false := by simpa using hv
        simp only [h1, hv, and_false, if_false, hb, Bool.false_eq_true, Key.comment.injEq, Nat.zero_add]
        constructor
        · rintro (⟨h2, _⟩ | h2)
          · exact absurd h2.symm (by intro e'; exact hv e')
          · exact h2
        · intro h2; exact .inr h2
    · have hne : ¬ (e.kind = .comment ∧ e.val = v) := fun hh => h1 hh.1
      rw [if_neg hne, Nat.zero_add]
      by_cases h2 : e.kind = .whitespace
      · simp only [pairs, getKeyValue_ws e c h2, List.map_cons, List.mem_cons, ih]
        constructor
        · rintro (h | h)
          · cases h
          · exact h
        · intro h; exact .inr h
      · simp only [pairs, getKeyValue_ent e c h1 h2, List.map_cons, List.mem_cons, ih]
        constructor
        · rintro (h | h)
          · cases h
          · exact h
        · intro h; exact .inr h

theorem copies_sameBut (v : List Nat) (a b : List Ent) (h : All2 SameBut a b) : copies v a = copies v b := by
  induction h with
  | nil => rfl
  | @cons x y _ _ hxy _ ih =>
    rw [copies_cons, copies_cons, ih, hxy.1, hxy.2.2.1]

theorem copies_stamp (v : List Nat) (i : Nat) (es : List Ent) : copies v (stamp i es) = copies v es := by
  rw [stamp_eq]
  exact copies_sameBut v _ _ (stampFrom_same i 0 es)

/-- the dict of a version has the key `(v, n)` iff the version has at least `n` stand-alone comments with text `v` -/
theorem versionDict_comment (i : Nat) (es : List Ent) (v : List Nat) (n : Nat) :
    Key.comment v n ∈ keysOf (versionDict i es) ↔ 1 ≤ n ∧ n ≤ copies v es := by
  rw [versionDict_mem_keys, pairs_comment_mem, copies_stamp]
  simp [cnt, dget]
  omega

end C15C

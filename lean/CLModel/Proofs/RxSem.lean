/- A declarative (big-step, over-approximating) semantics of the regex engine and the soundness of
   the backtracking matcher with respect to it: whenever `m` succeeds, the continuation was entered
   in a state that is `BSem`-reachable.  Everything the matcher *accepts* can thus be analysed by
   inversion on `BSem`; nothing is claimed about what it rejects. -/
import CLModel.Rx.Basic
import CLModel.Proofs.RxLemmas
import CLModel.Proofs.RxStar
namespace Rx

inductive BSem (s : Array Nat) : Re → St → St → Prop
  | eps {st} : BSem s .eps st st
  | lit {c st} : s[st.pos]? = some c → BSem s (.lit c) st { st with pos := st.pos + 1 }
  | notLit {c d st} : s[st.pos]? = some d → d ≠ c → BSem s (.notLit c) st { st with pos := st.pos + 1 }
  | any {da d st} : s[st.pos]? = some d → (da = true ∨ d ≠ 10) → BSem s (.any da) st { st with pos := st.pos + 1 }
  | cls {neg items c st} : s[st.pos]? = some c → inC neg items c = true →
      BSem s (.cls neg items) st { st with pos := st.pos + 1 }
  | seq {a b st st1 st2} : BSem s a st st1 → BSem s b st1 st2 → BSem s (.seq a b) st st2
  | altL {a b st st'} : BSem s a st st' → BSem s (.alt a b) st st'
  | altR {a b st st'} : BSem s b st st' → BSem s (.alt a b) st st'
  | group {i r st st'} : BSem s r st st' →
      BSem s (.group i r) st { st' with caps := (i, st.pos, st'.pos) :: st'.caps }
  | backref {i a b st} : capOf st.caps i = some (a, b) →
      (∀ j, j < b - a → s[a + j]? = s[st.pos + j]? ∧ st.pos + j < s.size) →
      BSem s (.backref i) st { st with pos := st.pos + (b - a) }
  | bol {ml st} : BSem s (.bol ml) st st
  | eol {ml st} : (st.pos = s.size ∨ (ml = true ∧ s[st.pos]? = some 10) ∨
        (ml = false ∧ st.pos + 1 = s.size ∧ s[st.pos]? = some 10)) → BSem s (.eol ml) st st
  | eos {st} : st.pos = s.size → BSem s .eos st st
  | lookPos {r st st'} : BSem s r st st' → BSem s (.look true false r) st { st with caps := st'.caps }
  | lookOther {ahead neg r st} : (ahead = false ∨ neg = true) → BSem s (.look ahead neg r) st st
  | repNil {mn mx g r st} : BSem s (.rep mn mx g r) st st
  | repCons {mn mx mn' mx' g r st st1 st2} : BSem s r st st1 → BSem s (.rep mn' mx' g r) st1 st2 →
      BSem s (.rep mn mx g r) st st2

def Sound_c11 (s : Array Nat) (r : Re) (f : St → K → Option St) : Prop :=
  ∀ st k res, f st k = some res → ∃ st', BSem s r st st' ∧ k st' = some res

theorem loop_sound_c11 (s : Array Nat) (r : Re) (g : Bool) (hb : Sound_c11 s r (m s r)) :
    ∀ fuel mn mx st k res, loop (m s r) g fuel mn mx st k = some res →
      ∃ st', BSem s (.rep mn mx g r) st st' ∧ k st' = some res := by
  intro fuel
  induction fuel with
  | zero => intro mn mx st k res h; simp [loop] at h
  | succ fuel ih =>
    intro mn mx st k res h
    simp only [loop] at h
    generalize hmdef : (if mx == some 0 then none else
          m s r st (fun st' => if st'.pos ≤ st.pos then none else
            loop (m s r) g fuel (mn - 1) (mx.map (· - 1)) st' k)) = more at h
    have hmore : ∀ res, more = some res →
        ∃ st', BSem s (.rep mn mx g r) st st' ∧ k st' = some res := by
      intro res hm
      rw [← hmdef] at hm
      split at hm
      · cases hm
      · obtain ⟨st1, h1, h3⟩ := hb _ _ _ hm
        split at h3
        · cases h3
        · obtain ⟨st2, h4, h6⟩ := ih (mn - 1) (mx.map (· - 1)) st1 k res h3
          exact ⟨st2, BSem.repCons h1 h4, h6⟩
    split at h
    · exact hmore _ h
    · split at h
      · rcases orElse_some h with h' | ⟨_, h'⟩
        · exact hmore _ h'
        · exact ⟨st, BSem.repNil, h'⟩
      · rcases orElse_some h with h' | ⟨_, h'⟩
        · exact ⟨st, BSem.repNil, h'⟩
        · exact hmore _ h'

theorem m_sound_c11 (s : Array Nat) : ∀ r, Sound_c11 s r (m s r) := by
  intro r
  induction r with
  | eps => intro st k res h; exact ⟨st, BSem.eps, by simpa [m] using h⟩
  | lit c =>
    intro st k res h
    simp only [m] at h
    split at h
    · rename_i hc
      exact ⟨_, BSem.lit (by simpa using hc), h⟩
    · cases h
  | notLit c =>
    intro st k res h
    simp only [m] at h
    split at h
    · rename_i d hd
      split at h
      · rename_i hne
        exact ⟨_, BSem.notLit hd (by simpa using hne), h⟩
      · cases h
    · cases h
  | any da =>
    intro st k res h
    simp only [m] at h
    split at h
    · rename_i d hd
      split at h
      · rename_i hc
        refine ⟨_, BSem.any hd ?_, h⟩
        simpa using hc
      · cases h
    · cases h
  | cls neg items =>
    intro st k res h
    simp only [m] at h
    split at h
    · rename_i d hd
      split at h
      · rename_i hc
        exact ⟨_, BSem.cls hd (by simpa [inC] using hc), h⟩
      · cases h
    · cases h
  | seq a b iha ihb =>
    intro st k res h
    simp only [m] at h
    obtain ⟨st1, h1, h3⟩ := iha _ _ _ h
    obtain ⟨st2, h4, h6⟩ := ihb _ _ _ h3
    exact ⟨st2, BSem.seq h1 h4, h6⟩
  | alt a b iha ihb =>
    intro st k res h
    simp only [m] at h
    rcases orElse_some h with h' | ⟨_, h'⟩
    · obtain ⟨st1, h1, h3⟩ := iha _ _ _ h'
      exact ⟨st1, BSem.altL h1, h3⟩
    · obtain ⟨st1, h1, h3⟩ := ihb _ _ _ h'
      exact ⟨st1, BSem.altR h1, h3⟩
  | group i r ih =>
    intro st k res h
    simp only [m] at h
    obtain ⟨st1, h1, h3⟩ := ih _ _ _ h
    exact ⟨_, BSem.group h1, h3⟩
  | backref i =>
    intro st k res h
    simp only [m] at h
    split at h
    · rename_i a b hcap
      split at h
      · rename_i hall
        refine ⟨_, BSem.backref hcap ?_, h⟩
        intro j hj
        have := (List.all_eq_true.mp hall) j (by simpa using hj)
        simpa using this
      · cases h
    · cases h
  | bol ml =>
    intro st k res h; simp only [m] at h; split at h
    · exact ⟨st, BSem.bol, h⟩
    · cases h
  | eol ml =>
    intro st k res h; simp only [m] at h; split at h
    · rename_i hc
      refine ⟨st, BSem.eol ?_, h⟩
      simp only [Bool.or_eq_true, Bool.and_eq_true, beq_iff_eq, Bool.not_eq_true'] at hc
      rcases hc with (hc | hc) | hc
      · exact Or.inl hc
      · exact Or.inr (Or.inl hc)
      · exact Or.inr (Or.inr ⟨hc.1.1, hc.1.2, hc.2⟩)
    · cases h
  | eos =>
    intro st k res h; simp only [m] at h; split at h
    · rename_i hc
      exact ⟨st, BSem.eos (by simpa using hc), h⟩
    · cases h
  | look ahead neg r ih =>
    intro st k res h
    cases ahead with
    | true =>
      simp only [m] at h
      split at h
      · rename_i st' hm
        split at h
        · cases h
        · rename_i hneg
          have hn : neg = false := by simpa using hneg
          subst hn
          obtain ⟨st'', h1, h3⟩ := ih _ _ _ hm
          simp at h3; subst h3
          exact ⟨_, BSem.lookPos h1, h⟩
      · split at h
        · rename_i hneg
          exact ⟨st, BSem.lookOther (Or.inr hneg), h⟩
        · cases h
    | false =>
      simp only [m] at h
      split at h
      · split at h
        · cases h
        · exact ⟨st, BSem.lookOther (Or.inl rfl), h⟩
      · split at h
        · exact ⟨st, BSem.lookOther (Or.inl rfl), h⟩
        · cases h
  | rep mn mx g r ih =>
    intro st k res h
    simp only [m] at h
    exact loop_sound_c11 s r g ih _ mn mx st k res h

theorem matchAt_sem {s : Array Nat} {r : Re} {p : Nat} {st : St} (h : matchAt s r p = some st) :
    BSem s r ⟨p, []⟩ st := by
  obtain ⟨st', h1, h3⟩ := m_sound_c11 s r ⟨p, []⟩ some st h
  simp at h3; subst h3; exact h1

/-! ### positions only move forward and stay inside the subject -/

theorem BSem.pos_le {s : Array Nat} {r : Re} {st st' : St} (h : BSem s r st st') : st.pos ≤ st'.pos := by
  induction h with
  | seq _ _ iha ihb => exact Nat.le_trans iha ihb
  | repCons _ _ iha ihb => exact Nat.le_trans iha ihb
  | group _ ih => exact ih
  | altL _ ih => exact ih
  | altR _ ih => exact ih
  | lit _ => exact Nat.le_succ _
  | notLit _ _ => exact Nat.le_succ _
  | any _ _ => exact Nat.le_succ _
  | cls _ _ => exact Nat.le_succ _
  | backref _ _ => exact Nat.le_add_right _ _
  | _ => exact Nat.le_refl _

theorem BSem.pos_bound {s : Array Nat} {r : Re} {st st' : St} (h : BSem s r st st') :
    st.pos ≤ s.size → st'.pos ≤ s.size := by
  induction h with
  | seq _ _ iha ihb => exact fun hl => ihb (iha hl)
  | repCons _ _ iha ihb => exact fun hl => ihb (iha hl)
  | group _ ih => exact ih
  | altL _ ih => exact ih
  | altR _ ih => exact ih
  | lit hc => intro _; have := getElem?_some_lt hc; simp; omega
  | notLit hc _ => intro _; have := getElem?_some_lt hc; simp; omega
  | any hc _ => intro _; have := getElem?_some_lt hc; simp; omega
  | cls hc _ => intro _; have := getElem?_some_lt hc; simp; omega
  | @backref i a b st _ hall =>
    intro hl
    simp only
    by_cases hn : b - a = 0
    · omega
    · have := (hall (b - a - 1) (by omega)).2
      omega
  | _ => exact fun hl => hl

/-! ### where captures come from -/

/-- all `(index, body)` of the capturing groups of a regex, in pre-order -/
def groups : Re → List (Nat × Re)
  | .group i r => (i, r) :: groups r
  | .seq a b => groups a ++ groups b
  | .alt a b => groups a ++ groups b
  | .rep _ _ _ r => groups r
  | .look _ _ r => groups r
  | _ => []

/-- every recorded capture is the span of a `BSem`-match of the body of a group of `G` with that index -/
def CapsFrom (s : Array Nat) (G : List (Nat × Re)) (caps : List (Nat × Nat × Nat)) : Prop :=
  ∀ e ∈ caps, ∃ body, (e.1, body) ∈ G ∧ ∃ x y, BSem s body x y ∧ x.pos = e.2.1 ∧ y.pos = e.2.2

theorem BSem.capsFrom {s : Array Nat} {G : List (Nat × Re)} {r : Re} {st st' : St} (h : BSem s r st st') :
    (∀ p ∈ groups r, p ∈ G) → CapsFrom s G st.caps → CapsFrom s G st'.caps := by
  induction h with
  | seq _ _ iha ihb =>
    intro hg hc
    exact ihb (fun p hp => hg p (by simp [groups, hp])) (iha (fun p hp => hg p (by simp [groups, hp])) hc)
  | altL _ ih => intro hg hc; exact ih (fun p hp => hg p (by simp [groups, hp])) hc
  | altR _ ih => intro hg hc; exact ih (fun p hp => hg p (by simp [groups, hp])) hc
  | @group i r st st' hr ih =>
    intro hg hc
    have hin := ih (fun p hp => hg p (by simp [groups, hp])) hc
    intro e he
    simp only [List.mem_cons] at he
    rcases he with rfl | he
    · exact ⟨r, hg _ (by simp [groups]), st, st', hr, rfl, rfl⟩
    · exact hin e he
  | lookPos _ ih => intro hg hc; exact ih (fun p hp => hg p (by simp [groups, hp])) hc
  | repCons _ _ iha ihb =>
    intro hg hc
    exact ihb (fun p hp => hg p (by simpa [groups] using hp)) (iha (fun p hp => hg p (by simpa [groups] using hp)) hc)
  | _ => intro _ hc; exact hc

theorem capsFrom_nil (s : Array Nat) (G) : CapsFrom s G [] := by
  intro e he; cases he

theorem capOf_mem {caps : List (Nat × Nat × Nat)} {i a b : Nat} (h : capOf caps i = some (a, b)) :
    (i, a, b) ∈ caps := by
  unfold capOf at h
  split at h
  · rename_i j a' b' hf
    simp at h
    obtain ⟨rfl, rfl⟩ := h
    have h1 := List.find?_some hf
    have h2 := List.mem_of_find?_eq_some hf
    simp at h1
    subst h1
    exact h2
  · cases h

end Rx

/- C06 helper lemmas (round 4): sequences without a common element — `get_opcodes` is ONE `replace` over both
   (no matching block exists, so `find_longest_match` returns size 0 whatever the autojunk heuristic does), and the
   verdict of `checkPrintf` is one error without warning ("every argument retyped"). -/
import CLModel.Proofs.C06Verdict
namespace Difflib
variable {α : Type} [DecidableEq α]

theorem flm_disjoint (a b : List α) (hd : ∀ x ∈ a, x ∉ b) :
    ∃ x, findLongestMatch a b (chainB b) 0 a.length 0 b.length = some x ∧ x.k = 0 := by
  obtain ⟨x, hx, _, hm⟩ := flm_valid a b (chainB b) (chainB_sorted b) (chainB_sound b) 0 a.length 0 b.length
    (by omega) (by omega) (by omega) (by omega)
  refine ⟨x, hx, ?_⟩
  apply Classical.byContradiction
  intro hk
  obtain ⟨v, ha, hb⟩ := hm 0 (by omega)
  exact hd v (List.mem_of_getElem? ha) (List.mem_of_getElem? hb)

/-- **no common element: one `replace` over everything** (both sequences non-empty) -/
theorem opcodes_disjoint (a b : List α) (ha : a ≠ []) (hb : b ≠ []) (hd : ∀ x ∈ a, x ∉ b) :
    opcodes a b = some [⟨.replace, 0, a.length, 0, b.length⟩] := by
  obtain ⟨x, hx, hk⟩ := flm_disjoint a b hd
  have hla : 0 < a.length := List.length_pos_iff.mpr ha
  have hlb : 0 < b.length := List.length_pos_iff.mpr hb
  have hmb : mbLoop a b (chainB b) (2 * a.length + 2) [⟨0, a.length, 0, b.length⟩] [] = some [] := by
    simp only [mbLoop, hx, hk, ne_eq, not_true_eq_false, if_false, mbLoop_nil]
  unfold opcodes matchingBlocks
  simp only [hmb, List.mergeSort_nil, collapse]
  simp [opcodesGo, hla, hlb]

end Difflib

namespace PropCk
open Difflib

/-- the error text of one `replace` over both lists: position `i` "should be" the reference's type -/
def replaceListMsg (R L : List Spec) : Text :=
  join sCommaSp ((List.range (min R.length L.length)).map (fun i =>
    sArgument ++ decimal (i + 1) ++ sSpBt ++ showSpec (L[i]?).join ++ sBtShouldBe ++ showSpec (R[i]?).join ++ sBt))

/-- **no specifier in common** (every argument retyped, whatever the two lengths): exactly one error — one
    "should be" message per position of the shorter list — and NO warning, even when the localization is shorter -/
theorem specsVerdict_disjoint (R L : List Spec) (hR : R ≠ []) (hL : L ≠ []) (hd : ∀ x ∈ R, x ∉ L) :
    specsVerdict R L = some [⟨.error, .val 0, replaceListMsg R L, .printf⟩] := by
  have hne : R ≠ L := by
    rintro rfl
    obtain ⟨x, xs, rfl⟩ := List.exists_cons_of_ne_nil hR
    exact hd x (by simp) (by simp)
  have hla : 0 < R.length := List.length_pos_iff.mpr hR
  have hlb : 0 < L.length := List.length_pos_iff.mpr hL
  have hzip : (List.range' 0 (R.length - 0)).zip (List.range' 0 (L.length - 0)) =
      (List.range (min R.length L.length)).map (fun i => (i, i)) := by
    simp only [Nat.sub_zero, ← List.range_eq_range']
    apply List.ext_getElem
    · simp
    · intro i h1 h2
      simp
  have hstep : opcodeStep R L ([], none) ⟨.replace, 0, R.length, 0, L.length⟩ =
      some ((List.range (min R.length L.length)).map (fun i =>
        sArgument ++ decimal (i + 1) ++ sSpBt ++ showSpec (L[i]?).join ++ sBtShouldBe ++ showSpec (R[i]?).join ++ sBt),
        none) := by
    simp only [opcodeStep, hzip]
    rw [mapOpt_eq_map (replaceMsg R L) (fun p : Nat × Nat =>
      sArgument ++ decimal (p.2 + 1) ++ sSpBt ++ showSpec (L[p.2]?).join ++ sBtShouldBe ++ showSpec (R[p.1]?).join ++ sBt)]
    · simp [List.map_map, Function.comp_def]
    · intro p hp
      simp only [List.mem_map, List.mem_range] at hp
      obtain ⟨i, hi, rfl⟩ := hp
      have h1 : i < R.length := by omega
      have h2 : i < L.length := by omega
      simp [replaceMsg, List.getElem?_eq_getElem h1, List.getElem?_eq_getElem h2]
  have hnonempty : ((List.range (min R.length L.length)).map (fun i =>
        sArgument ++ decimal (i + 1) ++ sSpBt ++ showSpec (L[i]?).join ++ sBtShouldBe ++ showSpec (R[i]?).join ++ sBt)).isEmpty
      = false := by
    have : min R.length L.length = (min R.length L.length - 1) + 1 := by omega
    rw [this, List.range_succ]
    simp
  simp only [specsVerdict, ne_eq, hne, not_false_eq_true, if_true, opcodes_disjoint R L hR hL hd, opcodeFold, hstep,
    hnonempty, replaceListMsg]
  simp

end PropCk

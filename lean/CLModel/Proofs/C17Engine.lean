/-
C17 helper lemmas, part 1: the list of line ends computed by the regex engine
(`finditer` of the generated pattern `"\n"`) is the plain left-to-right scan `lineEndsL`.
-/
import CLModel.Parser.Position
import CLModel.Proofs.RxLemmas
namespace Pos
open Rx P

/-- offsets just after each newline of `l`, where `l` starts at absolute offset `i` -/
def lineEndsL : List Nat → Nat → List Nat
  | [], _ => []
  | c :: t, i => if c = 10 then (i + 1) :: lineEndsL t (i + 1) else lineEndsL t (i + 1)

theorem matchAt_nl (s : Array Nat) (p : Nat) :
    matchAt s (.lit 10) p = if s[p]? = some 10 then some ⟨p + 1, []⟩ else none := by
  simp [matchAt, m]

theorem matchAtNE_nl (s : Array Nat) (p : Nat) :
    matchAtNE s (.lit 10) p = if s[p]? = some 10 then some ⟨p + 1, []⟩ else none := by
  simp [matchAtNE, m]

theorem searchFrom_none (s : Array Nat) (r : Re) :
    ∀ fuel pos, searchFrom s r fuel pos = none → s.size + 1 - pos ≤ fuel →
      ∀ q, pos ≤ q → q ≤ s.size → matchAt s r q = none := by
  intro fuel
  induction fuel with
  | zero => intro pos _ hf q h1 h2; omega
  | succ fuel ih =>
    intro pos h hf q h1 h2
    simp only [searchFrom] at h
    split at h
    · omega
    · split at h
      · cases h
      · rename_i hm
        by_cases heq : q = pos
        · subst heq; exact hm
        · exact ih (pos + 1) h (by omega) q (by omega) h2

theorem search_none {s : Array Nat} {r : Re} {pos : Nat} (h : search s r pos = none) :
    ∀ q, pos ≤ q → q ≤ s.size → matchAt s r q = none :=
  searchFrom_none s r _ _ h (by omega)

/-- skipping a newline-free stretch -/
theorem lineEndsL_skip (pre : List Nat) (rest : List Nat) (i : Nat) (h : ∀ c ∈ pre, c ≠ 10) :
    lineEndsL (pre ++ 10 :: rest) i = (i + pre.length + 1) :: lineEndsL rest (i + pre.length + 1) := by
  induction pre generalizing i with
  | nil => simp [lineEndsL]
  | cons c t ih =>
    have hc : c ≠ 10 := h c (by simp)
    simp only [List.cons_append, lineEndsL, hc, if_false]
    rw [ih (i + 1) (fun c hc => h c (by simp [hc])), List.length_cons]
    have e : i + 1 + t.length + 1 = i + (t.length + 1) + 1 := by omega
    rw [e]

theorem lineEndsL_none (l : List Nat) (i : Nat) (h : ∀ c ∈ l, c ≠ 10) : lineEndsL l i = [] := by
  induction l generalizing i with
  | nil => rfl
  | cons c t ih =>
    have hc : c ≠ 10 := h c (by simp)
    simp only [lineEndsL, hc, if_false]
    exact ih (i + 1) (fun c hc => h c (by simp [hc]))

theorem drop_split (l : List Nat) (p q : Nat) (hpq : p ≤ q) (hq : q < l.length) :
    l.drop p = (l.drop p).take (q - p) ++ l[q] :: l.drop (q + 1) := by
  have h1 : l.drop p = (l.drop p).take (q - p) ++ (l.drop p).drop (q - p) := (List.take_append_drop _ _).symm
  have h2 : (l.drop p).drop (q - p) = l.drop q := by
    rw [List.drop_drop]; congr 1; omega
  rw [h2, List.drop_eq_getElem_cons hq] at h1
  exact h1

theorem finditerAux_nl (s : Array Nat) :
    ∀ fuel pos b, s.size - pos ≤ fuel →
      (finditerAux s (.lit 10) fuel pos b).map (fun p => p.2.pos) = lineEndsL (s.toList.drop pos) pos := by
  intro fuel
  induction fuel with
  | zero =>
    intro pos b hf
    have : s.toList.drop pos = [] := by
      apply List.drop_eq_nil_of_le; simp; omega
    simp [finditerAux, this, lineEndsL]
  | succ fuel ih =>
    intro pos b hf
    simp only [finditerAux]
    split
    · rename_i hgt
      have : s.toList.drop pos = [] := by
        apply List.drop_eq_nil_of_le; simp; omega
      simp [this, lineEndsL]
    · rename_i hle
      have hhere : (if b then matchAtNE s (.lit 10) pos else matchAt s (.lit 10) pos)
          = if s[pos]? = some 10 then some ⟨pos + 1, []⟩ else none := by
        cases b <;> simp [matchAt_nl, matchAtNE_nl]
      rw [hhere]
      by_cases hc : s[pos]? = some 10
      · have hlt : pos < s.size := getElem?_some_lt hc
        have hget : s.toList[pos] = 10 := by
          have := hc; simp [Array.getElem?_eq_getElem hlt] at this; simpa using this
        simp only [hc, if_true]
        have hd : s.toList.drop pos = 10 :: s.toList.drop (pos + 1) := by
          rw [List.drop_eq_getElem_cons (by simpa using hlt), hget]
        rw [List.map_cons, ih (pos + 1) _ (by omega), hd]
        simp [lineEndsL]
      · simp only [hc, if_false]
        cases hs : search s (.lit 10) (pos + 1) with
        | none =>
          simp only [List.map_nil]
          symm
          apply lineEndsL_none
          intro c hcm heq
          subst heq
          obtain ⟨j, hj, hjv⟩ := List.getElem_of_mem hcm
          rw [List.getElem_drop] at hjv
          have hjlt : pos + j < s.size := by simpa using (by simpa using hj : j < s.size - pos) |> fun h => by omega
          have hm : s[pos + j]? = some 10 := by
            rw [Array.getElem?_eq_getElem hjlt]; simpa using hjv
          by_cases hj0 : j = 0
          · subst hj0; exact hc (by simpa using hm)
          · have := search_none hs (pos + j) (by omega) (by omega)
            rw [matchAt_nl, hm] at this
            simp at this
        | some qs =>
          obtain ⟨q, st⟩ := qs
          obtain ⟨h1, h2, h3, h4⟩ := search_spec hs
          rw [matchAt_nl] at h3
          split at h3
          · rename_i hq
            simp at h3; subst h3
            have hqlt : q < s.size := getElem?_some_lt hq
            simp only [List.map_cons]
            rw [ih (q + 1) _ (by omega)]
            have hsplit := drop_split s.toList pos q (by omega) (by simpa using hqlt)
            have hqv : s.toList[q]'(by simpa using hqlt) = 10 := by
              have := hq; rw [Array.getElem?_eq_getElem hqlt] at this; simpa using this
            rw [hsplit, hqv, lineEndsL_skip]
            · have : (List.take (q - pos) (List.drop pos s.toList)).length = q - pos := by
                simp; omega
              rw [this]
              have e : pos + (q - pos) + 1 = q + 1 := by omega
              simp [e]
            · intro c hcm heq
              subst heq
              obtain ⟨j, hj, hjv⟩ := List.getElem_of_mem hcm
              rw [List.getElem_take, List.getElem_drop] at hjv
              have hjlt : j < q - pos := by
                have := hj; simp at this; omega
              have hm : s[pos + j]? = some 10 := by
                rw [Array.getElem?_eq_getElem (by omega)]; simpa using hjv
              by_cases hj0 : j = 0
              · subst hj0; exact hc (by simpa using hm)
              · have := h4 (pos + j) (by omega) (by omega)
                rw [matchAt_nl, hm] at this
                simp at this
          · cases h3

/-- the generated pattern compiled inside `linecol` is the single character "\n";
    if the code's regex changes, this proof (and everything built on it) stops checking -/
theorem lineEnds_eq (s : Array Nat) : lineEnds s = lineEndsL s.toList 0 := by
  have := finditerAux_nl s (2 * s.size + 3) 0 false (by omega)
  simpa [lineEnds, finditer, Gen.Pat.parser_base_Parser_Context_linecol_nl] using this

end Pos

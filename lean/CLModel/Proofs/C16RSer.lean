/-
C16R, part 2: the serializer keeps the shape "every entry that is not whitespace is directly followed by a whitespace
entry" — through `merge_two` (twice) and `prune_placeholders`.  Core Lean only.
-/
import CLModel.Proofs.C16RAlt
import CLModel.Proofs.C16Ser
import CLModel.Proofs.C16Cor
namespace C16R
open AR Ser C16L

/-- the dict key is a Whitespace object -/
def wsKey : MKey → Bool
  | .ws _ _ => true
  | _ => false

theorem keyOK_wsKey {p : MKey × Ent} (h : keyOK p = true) : wsKey p.1 = p.2.isWs := by
  obtain ⟨k, e⟩ := p
  cases k with
  | str s =>
    simp only [keyOK, Bool.and_eq_true, strKeyed, Bool.not_eq_true'] at h
    simp [wsKey, h.1.2]
  | cmt v n =>
    simp only [keyOK, Bool.and_eq_true] at h
    have : e.isWs = false := by
      have h1 := h.1
      cases e with | mk kind key val all pre post => cases kind <;> simp_all [Ent.isWs, Ent.isComment]
    simp [wsKey, this]
  | ws a b =>
    simp only [keyOK] at h
    simp [wsKey, h]

theorem mem_dkeys {d : Dict} {k : MKey} (h : k ∈ dkeys d) : ∃ e, (k, e) ∈ d := by
  unfold dkeys at h
  rw [List.mem_map] at h
  obtain ⟨p, hp, rfl⟩ := h
  exact ⟨p.2, hp⟩

/-- the flat sequence of `merge_two` (older values win) has the shape when both dicts have it and share no
    Whitespace object -/
theorem alt_olderPairs (N O : Dict) (hN : (dkeys N).Nodup) (hO : (dkeys O).Nodup)
    (hNok : ∀ p ∈ N, keyOK p = true) (hOok : ∀ p ∈ O, keyOK p = true)
    (hdis : ∀ k ∈ dkeys O, k ∈ dkeys N → wsKey k = false)
    (hNa : Alt wsKey (dkeys N)) (hOa : Alt wsKey (dkeys O)) : Alt pIsWs (olderPairs N O) := by
  unfold olderPairs
  apply alt_filterMap (w := wsKey)
  · intro k hk hwk
    have hmem : k ∈ dkeys N ∨ k ∈ dkeys O := by
      have := (addRemove_keys_perm _ _ hN hO).mem_iff.1 hk
      rw [List.mem_append] at this
      rcases this with h | h
      · exact .inl h
      · exact .inr (List.mem_filter.1 h).1
    have hsome : ∃ e, getOlder N O k = some e := by
      rcases hmem with h | h
      · exact getOlder_of_left h
      · obtain ⟨e, he⟩ := mem_dkeys h
        have hg : dget O k = some e := dget_of_mem_nodup hO he
        have hws : e.isWs = true := by rw [← keyOK_wsKey (hOok _ he)]; exact hwk
        have hst : e.isSticky = false := by
          cases e with | mk kind key val all pre post => cases kind <;> simp_all [Ent.isWs, Ent.isSticky]
        exact ⟨e, by simp [getOlder, hg, hst]⟩
    obtain ⟨e, he⟩ := hsome
    refine ⟨(k, e), by rw [he]; rfl, ?_⟩
    have hok : keyOK (k, e) = true := by
      rcases getOlder_mem he with h | h
      · exact hNok _ h
      · exact hOok _ h
    show e.isWs = true
    rw [← keyOK_wsKey hok]; exact hwk
  · exact alt_addRemove wsKey _ _ hN hO hdis hNa hOa

theorem alt_mergeTwo (N O : Dict) (hN : (dkeys N).Nodup) (hO : (dkeys O).Nodup)
    (hNok : ∀ p ∈ N, keyOK p = true) (hOok : ∀ p ∈ O, keyOK p = true)
    (hdis : ∀ k ∈ dkeys O, k ∈ dkeys N → wsKey k = false)
    (hNa : Alt wsKey (dkeys N)) (hOa : Alt wsKey (dkeys O)) : Alt pIsWs (mergeTwo N O false) := by
  rw [mergeTwo_eq N O hN hO]
  apply alt_genFold
  simpa using alt_olderPairs N O hN hO hNok hOok hdis hNa hOa

theorem alt_dkeys (d : Dict) (hok : ∀ p ∈ d, keyOK p = true) (h : Alt pIsWs d) : Alt wsKey (dkeys d) := by
  unfold dkeys
  apply alt_map (w := pIsWs) _ _ _ h
  intro p hp hw
  rw [keyOK_wsKey (hok p hp)]; exact hw

/-- Whitespace objects carry the number of the resource they were parsed from -/
theorem pairsOf_ws_src (src : Nat) (cnt : List (List Nat × Nat)) (i : Nat) (es : List Ent) :
    ∀ p ∈ pairsOf src cnt i es, ∀ a b, p.1 = MKey.ws a b → a = src := by
  induction es generalizing cnt i with
  | nil => simp [pairsOf]
  | cons e es ih =>
    intro p hp a b hk
    unfold pairsOf at hp
    split at hp
    · rw [List.mem_cons] at hp
      rcases hp with rfl | hp
      · simp at hk
      · exact ih _ _ p hp a b hk
    · split at hp
      · rw [List.mem_cons] at hp
        rcases hp with rfl | hp
        · simp only [MKey.ws.injEq] at hk; exact hk.1.symm
        · exact ih _ _ p hp a b hk
      · rw [List.mem_cons] at hp
        rcases hp with rfl | hp
        · simp at hk
        · exact ih _ _ p hp a b hk

theorem parseResource_ws_src (src : Nat) (es : List Ent) :
    ∀ k ∈ dkeys (parseResource src es), ∀ a b, k = MKey.ws a b → a = src := by
  intro k hk a b e
  obtain ⟨x, hx⟩ := mem_dkeys hk
  unfold parseResource mkDict at hx
  rcases mem_foldl_dset _ _ _ hx with h | h
  · simp at h
  · exact pairsOf_ws_src src [] 0 es _ h a b e

theorem isWs_not_ph {e : Ent} (h : e.isWs = true) : e.isPlaceholder = false := by
  cases e with | mk kind key val all pre post => cases kind <;> simp_all [Ent.isWs, Ent.isPlaceholder]

/-- The serialized entry list has the shape, whenever the template dict and the dict of the sanitized old
    localization have it (e.g. both files consist of entries each followed by a white-space entry). -/
theorem serializeEnts_alt (ref old : List Ent) (nd : NewData)
    (h0 : Alt wsKey (dkeys (d0Of ref))) (h1 : Alt wsKey (dkeys (d1Of ref old nd))) :
    Alt Ent.isWs (serializeEnts ref old nd) := by
  have hD0 := d0_nodup ref
  have hD1 := d1_nodup ref old nd
  have hD2 := d2_nodup ref nd
  have hM1 := m1_nodup ref old nd
  -- first merge
  have hm1 : Alt pIsWs (m1Of ref old nd) := by
    apply alt_mergeTwo _ _ hD0 hD1 (d0_keyOK ref) (d1_keyOK ref old nd) _ h0 h1
    intro k hk1 hk0
    cases k with
    | str s => rfl
    | cmt v n => rfl
    | ws a b =>
      have e0 := parseResource_ws_src 0 _ _ hk0 a b rfl
      have e1 := parseResource_ws_src 1 _ _ hk1 a b rfl
      omega
  -- second merge: pointwise override, whitespace untouched
  have hop : Alt pIsWs (olderPairs (m1Of ref old nd) (d2Of ref nd)) := by
    rw [olderPairs_of_subset _ _ hM1 hD2 (d2_sub_m1 ref old nd)]
    apply alt_map (w := pIsWs) _ _ _ hm1
    intro p hp hw
    have hs := keyOK_ws (m1_keyOK ref old nd p hp) hw
    show (pick (d2Of ref nd) p.1 p.2).isWs = true
    unfold pick
    rw [d2_get_nonstr ref nd _ hs]
    exact hw
  have hm2 : Alt pIsWs (m2Of ref old nd) := by
    rw [m2Of, mergeTwo_eq _ _ hM1 hD2]
    apply alt_genFold
    simpa using hop
  have hv : Alt Ent.isWs ((m2Of ref old nd).map (·.2)) :=
    alt_map (w := pIsWs) _ _ (fun p _ h => h) hm2
  rw [serializeEnts_eq, prunePlaceholders_eq]
  apply alt_genFold
  simp only [List.reverse_nil, List.nil_append]
  apply alt_filter _ _ _ hv
  intro e _ hw
  simp [isWs_not_ph hw]

/-- The first entry: if the template dict starts with an entry `S` (not whitespace, no entity to be replaced) and the
    dict of the sanitized old localization is empty or starts with the same entry under the same key, the output starts
    with `S`, and the rest of the output is drawn from the rest of the merged dict. -/
theorem serializeEnts_head (ref old : List Ent) (nd : NewData) (k : MKey) (S : Ent) (d0' : Dict)
    (h0 : d0Of ref = (k, S) :: d0')
    (h1 : d1Of ref old nd = [] ∨ ∃ d1', d1Of ref old nd = (k, S) :: d1')
    (hw : S.isWs = false) (hst : S.isSticky = false) (hph : S.isPlaceholder = false)
    (h2 : dget (d2Of ref nd) k = none) :
    ∃ m2' rest, m2Of ref old nd = (k, S) :: m2' ∧ serializeEnts ref old nd = S :: rest ∧
      rest.Sublist (m2'.map (·.2)) := by
  have hD0 := d0_nodup ref
  have hD1 := d1_nodup ref old nd
  have hD2 := d2_nodup ref nd
  have hM1 := m1_nodup ref old nd
  have hpw : pIsWs (k, S) = false := hw
  -- the key diff starts with `k`
  obtain ⟨K, hK⟩ : ∃ K, (addRemove (dkeys (d0Of ref)) (dkeys (d1Of ref old nd))).map (·.2) = k :: K := by
    have hn : (k :: dkeys d0').Nodup := by
      have := hD0
      rw [h0] at this
      exact this
    have hd : dkeys (d0Of ref) = k :: dkeys d0' := by rw [h0]; rfl
    rw [hd]
    apply addRemove_head k _ _ hn hD1
    intro x hx
    rcases h1 with h1 | ⟨d1', h1⟩
    · rw [h1] at hx; simp [dkeys] at hx
    · rw [h1] at hx
      simp only [dkeys, List.map_cons, List.head?_cons, Option.some.injEq] at hx
      subst hx
      simp
  have hget : getOlder (d0Of ref) (d1Of ref old nd) k = some S := by
    unfold getOlder
    rcases h1 with h1 | ⟨d1', h1⟩
    · rw [h1, h0]; simp [dget]
    · rw [h1]; simp [dget, hst]
  obtain ⟨P, hP⟩ : ∃ P, olderPairs (d0Of ref) (d1Of ref old nd) = (k, S) :: P := by
    unfold olderPairs
    rw [hK, List.filterMap_cons, hget]
    exact ⟨_, rfl⟩
  obtain ⟨M1, hM1e⟩ : ∃ M1, m1Of ref old nd = (k, S) :: M1 := by
    rw [m1Of, mergeTwo_eq _ _ hD0 hD1, hP]
    exact genFold_head pLen (k, S) hpw P
  obtain ⟨P2, hP2⟩ : ∃ P2, olderPairs (m1Of ref old nd) (d2Of ref nd) = (k, S) :: P2 := by
    rw [olderPairs_of_subset _ _ hM1 hD2 (d2_sub_m1 ref old nd), hM1e, List.map_cons]
    have : pick (d2Of ref nd) k S = S := by unfold pick; rw [h2]
    simp only [this]
    exact ⟨_, rfl⟩
  obtain ⟨M2, hM2e⟩ : ∃ M2, m2Of ref old nd = (k, S) :: M2 := by
    rw [m2Of, mergeTwo_eq _ _ hM1 hD2, hP2]
    exact genFold_head pLen (k, S) hpw P2
  obtain ⟨rest, hrest⟩ : ∃ rest, serializeEnts ref old nd = S :: rest := by
    rw [serializeEnts_eq, prunePlaceholders_eq, hM2e, List.map_cons,
      List.filter_cons_of_pos (by simp [hph])]
    exact genFold_head _ S hw _
  refine ⟨M2, rest, hM2e, hrest, ?_⟩
  have := prunePlaceholders_sublist ((m2Of ref old nd).map (·.2))
  rw [← serializeEnts_eq, hrest, hM2e, List.map_cons] at this
  exact List.cons_sublist_cons.1 this

end C16R

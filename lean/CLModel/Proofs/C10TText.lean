/-
Helper lemmas for the text renderings of C10 (core Lean only): `ObserverList.serializeDetails`.

* `detailText`, `lineOf`     — the line of one details item / the lines of one row of `getContent()`
* `serializeDetails_lines`   — the rendered text is the "\n"-join of the lines of all rows
* `history_good`             — after a history every stored list is non-empty and consists of displayable items
* `displayed`, `displayed_mono` — the (file, detail) pairs in display order only shrink when quiet is raised
-/
import CLModel.Compare.Tree
import CLModel.Compare.Observer
import CLModel.Proofs.C10Tree
import CLModel.Proofs.C10Obs
import CLModel.Proofs.C10TOrder
import CLModel.Proofs.C10TContent
namespace C10T
open TreeM ObsM

/-! ### one details item -/

/-- `serializeDetails` can render the item: it concatenates `str`s, so `item["error"]`/`item["warning"]` must be
    a `str`, `item["missingEntity"]`/`item["obsoleteEntity"]` a `str` or a tuple (PO keys) -/
def renderable (it : Detail) : Bool :=
  match it.1 with
  | .error | .warning => (dataText it.2).isSome
  | .missingEntity | .obsoleteEntity => (entityName it.2).isSome
  | _ => true

/-- the text of a details item after the indentation -/
def detailText : Detail → Text
  | (.error, .data (.str t)) => ofString "ERROR: " ++ t
  | (.warning, .data (.str t)) => ofString "WARNING: " ++ t
  | (.missingEntity, .data (.str t)) => ofString "+" ++ t
  | (.missingEntity, .data (.tuple ps)) => ofString "+" ++ joinBar (ps.filterMap id)
  | (.obsoleteEntity, .data (.str t)) => ofString "-" ++ t
  | (.obsoleteEntity, .data (.tuple ps)) => ofString "-" ++ joinBar (ps.filterMap id)
  | (.missingFile, _) => ofString "// add and localize this file"
  | (.obsoleteFile, _) => ofString "// remove this file"
  | _ => []

theorem itemLine_eq (indent : Text) (it : Detail) (ho : it.1 ≠ .other) :
    itemLine indent it = some (if renderable it then some (indent ++ detailText it) else none) := by
  obtain ⟨cat, v⟩ := it
  cases cat <;> first
    | exact absurd rfl ho
    | (cases v with
       | ret r => simp [itemLine, renderable, detailText, dataText, entityName]
       | data d => cases d <;> simp [itemLine, renderable, detailText, dataText, entityName])

/-! ### one row -/

/-- the lines of one tuple yielded by `getContent()`: the key, "/"-joined, indented by two spaces per level;
    one line per details item, indented one level more than the level of the value -/
def lineOf : Content Detail → List Text
  | .key d k => [spaces (2 * d) ++ joinSlash k]
  | .value d items => items.map (fun it => spaces (2 * (d + 1)) ++ detailText it)

theorem mapM_ok {α β ε : Type} {f : α → Except ε β} {g : α → β} : ∀ (l : List α), (∀ a ∈ l, f a = .ok (g a)) →
    l.mapM f = .ok (l.map g)
  | [], _ => rfl
  | a :: l, h => by
    rw [List.mapM_cons, h a (by simp), mapM_ok l (fun x hx => h x (by simp [hx]))]
    rfl

theorem mapM_error {α β ε : Type} {f : α → Except ε β} {e : ε} : ∀ (l : List α),
    (∀ a ∈ l, (∃ b, f a = .ok b) ∨ f a = .error e) → (∃ a ∈ l, f a = .error e) → l.mapM f = .error e
  | [], _, h => by obtain ⟨a, ha, _⟩ := h; cases ha
  | a :: l, hall, hex => by
    rw [List.mapM_cons]
    rcases hall a (by simp) with ⟨b, hb⟩ | he
    · rw [hb]
      have : ∃ x ∈ l, f x = .error e := by
        obtain ⟨x, hx, hxe⟩ := hex
        simp only [List.mem_cons] at hx
        rcases hx with rfl | hx
        · rw [hb] at hxe; cases hxe
        · exact ⟨x, hx, hxe⟩
      rw [mapM_error l (fun x hx => hall x (by simp [hx])) this]
      rfl
    · rw [he]; rfl

theorem tostr_key (d : Nat) (k : Key) : tostr (.key d k) = .ok (joinNl (lineOf (.key d k))) := rfl

theorem tostr_value (d : Nat) (items : List Detail)
    (hgood : ∀ it ∈ items, it.1 ≠ .other ∧ renderable it = true) :
    tostr (.value d items) = .ok (joinNl (lineOf (.value d items))) := by
  have hfm : items.filterMap (itemLine (spaces (2 * (d + 1))))
      = items.map (fun it => some (spaces (2 * (d + 1)) ++ detailText it)) := by
    induction items with
    | nil => rfl
    | cons it rest ih =>
      have h1 := hgood it (by simp)
      rw [List.filterMap_cons, itemLine_eq _ it h1.1, h1.2]
      simp only [↓reduceIte, List.map_cons]
      rw [ih (fun x hx => hgood x (by simp [hx]))]
  simp only [tostr, hfm, bind, Except.bind]
  rw [mapM_ok (g := fun l : Option Text => l.getD []) _ (by
    intro a ha
    simp only [List.mem_map] at ha
    obtain ⟨it, _, rfl⟩ := ha
    rfl)]
  simp only [lineOf, pure, Except.pure, List.map_map]
  rfl

/-- an item that is not a `str` where `serializeDetails` needs one: `TypeError` -/
theorem tostr_value_error (d : Nat) (items : List Detail)
    (hbad : ∃ it ∈ items, it.1 ≠ .other ∧ renderable it = false) :
    tostr (.value d items) = .error .typeError := by
  simp only [tostr, bind, Except.bind]
  rw [mapM_error (e := PyErr.typeError)]
  · intro a _
    cases a with
    | none => exact Or.inr rfl
    | some t => exact Or.inl ⟨t, rfl⟩
  · obtain ⟨it, hit, ho, hr⟩ := hbad
    refine ⟨none, ?_, rfl⟩
    simp only [List.mem_filterMap]
    exact ⟨it, hit, by rw [itemLine_eq _ it ho, hr]; rfl⟩

/-! ### `"\n".join` of `"\n".join`s -/

theorem joinNl_cons_cons (p q : Text) (r : List Text) : joinNl (p :: q :: r) = p ++ 10 :: joinNl (q :: r) := by
  simp [joinNl]

theorem joinNl_append : ∀ {a b : List Text}, a ≠ [] → b ≠ [] → joinNl (a ++ b) = joinNl a ++ 10 :: joinNl b
  | [], _, ha, _ => by cases ha rfl
  | [p], b, _, hb => by
    cases b with
    | nil => cases hb rfl
    | cons q r => simp [joinNl]
  | p :: q :: r, b, _, hb => by
    have := joinNl_append (a := q :: r) (b := b) (by simp) hb
    simp only [List.cons_append] at this ⊢
    rw [joinNl_cons_cons, this, joinNl_cons_cons]
    simp

/-- joining the joined groups is joining all lines, when no group is empty -/
theorem joinNl_map_joinNl : ∀ (ls : List (List Text)), (∀ l ∈ ls, l ≠ []) →
    joinNl (ls.map joinNl) = joinNl ls.flatten
  | [], _ => by simp [joinNl]
  | [k], _ => by simp [joinNl]
  | k :: k2 :: rest, h => by
    have ih := joinNl_map_joinNl (k2 :: rest) (fun x hx => h x (by simp [hx]))
    have hk : k ≠ [] := h k (by simp)
    have hk2 : k2 ≠ [] := h k2 (by simp)
    simp only [List.map_cons] at ih ⊢
    rw [joinNl_cons_cons, ih]
    simp only [List.flatten_cons]
    rw [joinNl_append hk (by simp [hk2])]

/-! ### the whole text -/

/-- every stored list is non-empty and consists of items `serializeDetails` has a branch and a `str` for -/
def GoodRows (c : List (Content Detail)) : Prop :=
  ∀ d items, Content.value d items ∈ c → items ≠ [] ∧ ∀ it ∈ items, it.1 ≠ .other ∧ renderable it = true

/-- `serializeDetails`: the "\n"-join of the lines of all rows of `getContent()` -/
theorem serializeDetails_lines (o : Obs) (hgood : GoodRows (getContent o.details 0)) :
    serializeDetails o = .ok (joinNl ((getContent o.details 0).flatMap lineOf)) := by
  simp only [serializeDetails, bind, Except.bind]
  rw [mapM_ok (g := fun row => joinNl (lineOf row))]
  · simp only [pure, Except.pure]
    have e : (getContent o.details 0).map (fun row => joinNl (lineOf row))
        = ((getContent o.details 0).map lineOf).map joinNl := by rw [List.map_map]; rfl
    rw [e, joinNl_map_joinNl, List.flatMap_def]
    intro l hl
    simp only [List.mem_map] at hl
    obtain ⟨row, hrow, rfl⟩ := hl
    cases row with
    | key d k => simp [lineOf]
    | value d items =>
      have := (hgood d items hrow).1
      simpa [lineOf] using this
  · intro row hrow
    cases row with
    | key d k => exact tostr_key d k
    | value d items => exact tostr_value d items (hgood d items hrow).2

/-- a stored list `serializeDetails` cannot render makes it raise `TypeError` -/
theorem serializeDetails_error (o : Obs)
    (hbad : ∃ d items, Content.value d items ∈ getContent o.details 0 ∧ ∃ it ∈ items, it.1 ≠ .other ∧ renderable it = false) :
    serializeDetails o = .error .typeError := by
  simp only [serializeDetails, bind, Except.bind]
  rw [mapM_error (e := PyErr.typeError)]
  · intro row _
    cases row with
    | key d k => exact Or.inl ⟨_, tostr_key d k⟩
    | value d items =>
      by_cases hb : ∃ it ∈ items, it.1 ≠ .other ∧ renderable it = false
      · exact Or.inr (tostr_value_error d items hb)
      · left
        -- all lines are texts
        simp only [tostr, bind, Except.bind]
        rw [mapM_ok (g := fun a : Option Text => a.getD [])]
        · exact ⟨_, rfl⟩
        · intro a ha
          simp only [List.mem_filterMap] at ha
          obtain ⟨it, hit, hline⟩ := ha
          by_cases ho : it.1 = .other
          · obtain ⟨cat, v⟩ := it
            simp only at ho
            subst ho
            simp [itemLine] at hline
          · rw [itemLine_eq _ it ho] at hline
            have hr : renderable it = true := by
              cases hrr : renderable it with
              | true => rfl
              | false => exact absurd ⟨it, hit, ho, hrr⟩ hb
            rw [hr] at hline
            simp only [↓reduceIte, Option.some.injEq] at hline
            subst hline
            rfl
  · obtain ⟨d, items, hrow, hb⟩ := hbad
    exact ⟨_, hrow, tostr_value_error d items hb⟩

/-! ### the stored lists after a history -/

/-- every ("value", v) tuple of `getContent` is a list stored in the tree -/
theorem getContent_values {V : Type} (t : Tree V) : ∀ (d d' : Nat) (v : List V),
    Content.value d' v ∈ getContent t d → ∃ p, (p, v) ∈ flatten t := by
  induction t using Tree.induction with
  | h br val ih =>
    intro d d' v hm
    rw [getContent_node] at hm
    rw [flatten_node]
    simp only [List.mem_append, List.mem_flatMap, List.mem_cons] at hm
    rcases hm with hm | ⟨kv, hkv, hm⟩
    · cases val with
      | none => simp at hm
      | some w =>
        simp only [List.mem_singleton, Content.value.injEq] at hm
        exact ⟨[], by simp [hm.2]⟩
    · rcases hm with hm | hm
      · cases hm
      · have hkv' : kv ∈ br := (sortByKey_perm br).mem_iff.1 hkv
        obtain ⟨p, hp⟩ := ih kv hkv' (d + 1) d' v hm
        refine ⟨kv.1 ++ p, ?_⟩
        simp only [List.mem_append, List.mem_flatMap, List.mem_map]
        exact Or.inr ⟨kv, hkv', (p, v), hp, rfl⟩

/-- the callers' contract on `data`: what `notify` gets for "error"/"warning" is a `str` (a message), for
    "missingEntity"/"obsoleteEntity" a `str` or a tuple (an entity key) -/
def TextData (h : List Ev) : Prop :=
  ∀ cat f d, Ev.notify cat f d ∈ h → renderable (cat, .data d) = true

theorem TextData.filter {h : List Ev} (htd : TextData h) (p : Ev → Bool) : TextData (h.filter p) :=
  fun cat f d hm => htd cat f d (List.mem_filter.1 hm).1

/-- an item of the specification list: raised by an event of the history, of a category that is shown -/
theorem detailsSpec_item {q flt h p item} (hm : item ∈ detailsSpec q flt h p) :
    ∃ cat f d, Ev.notify cat f d ∈ h ∧ rvOf flt cat f d ≠ .ignore ∧ shows q cat = true ∧
      item = detailOf cat (rvOf flt cat f d) d := by
  simp only [detailsSpec, List.mem_filterMap] at hm
  obtain ⟨ev, hev, hd⟩ := hm
  cases ev with
  | stats f st => simp [evDetail] at hd
  | notify cat f d =>
    simp only [evDetail] at hd
    split at hd
    · rename_i hc
      injection hd with hd
      exact ⟨cat, f, d, hev, hc.1, hc.2.1, hd.symm⟩
    · cases hd

/-- the exact condition: the data of every notification that is displayed (not ignored by the filter, not hidden
    by the quiet level) is textual -/
def ShownText (q : Nat) (flt : Option Filter) (h : List Ev) : Prop :=
  ∀ cat f d, Ev.notify cat f d ∈ h → rvOf flt cat f d ≠ .ignore → shows q cat = true →
    renderable (cat, .data d) = true

theorem TextData.shown {h : List Ev} (htd : TextData h) (q : Nat) (flt : Option Filter) : ShownText q flt h :=
  fun cat f d hev _ _ => htd cat f d hev

/-- after a history whose displayed data is textual everything stored can be rendered -/
theorem history_good {q : Nat} {flt : Option Filter} {h : List Ev} {o' : Obs}
    (hr : (Obs.init q flt).run h = .ok o') (htd : ShownText q flt h) : GoodRows (getContent o'.details 0) := by
  intro d items hrow
  obtain ⟨hinv, _, _⟩ := Obs.run_details h (Obs.init q flt) o' inv_empty hr
  obtain ⟨p, hp⟩ := getContent_values o'.details 0 d items hrow
  have hf := (mem_flatten_iff_find o'.details hinv p items).1 hp
  rw [init_details hr p] at hf
  by_cases he : (detailsSpec q flt h p).isEmpty = true
  · rw [if_pos he] at hf; cases hf
  · rw [if_neg he] at hf
    injection hf with hf
    subst hf
    refine ⟨fun e => he (by rw [e]; rfl), ?_⟩
    intro it hit
    obtain ⟨cat, f, dat, hev, hni, hsh, rfl⟩ := detailsSpec_item hit
    have hren := htd cat f dat hev hni hsh
    cases cat <;> simp_all [shows, detailOf, Cat.isFile, renderable]

/-! ### what is displayed, and quiet -/

/-- the `(path, list)` pairs in display order: every ("value", v) row with the concatenated keys above it -/
def shownRows (o : Obs) : List (List Part × List Detail) :=
  (outline (getContent o.details 0)).map (fun r => (r.1.flatten, r.2))

/-- the `(file path, detail line without indentation)` pairs in display order -/
def displayed (o : Obs) : List (Text × Text) :=
  (expand (shownRows o)).map (fun x => (joinSlash x.1, detailText x.2))

theorem shownRows_mem (o : Obs) (hinv : Inv o.details) (p : List Part) (l : List Detail) :
    (p, l) ∈ shownRows o ↔ find o.details p = some l := by
  unfold shownRows
  rw [outline_getContent, (rows_perm o.details).mem_iff]
  exact mem_flatten_iff_find o.details hinv p l

theorem shownRows_sorted (o : Obs) (hinv : Inv o.details) : ((shownRows o).map (·.1)).Pairwise pathLt := by
  unfold shownRows
  rw [outline_getContent, List.map_map]
  exact rows_sorted o.details hinv

theorem sublist_ne_nil {α : Type} {a b : List α} (h : a.Sublist b) (ha : a ≠ []) : b ≠ [] := by
  intro e; subst e; exact ha (List.sublist_nil.1 h)

/-- raising quiet: every displayed `(path, list)` has a counterpart with a longer list -/
theorem shownRows_mono {q q' : Nat} (hq : q ≤ q') {flt : Option Filter} {h : List Ev} {o1 o2 : Obs}
    (h1 : (Obs.init q flt).run h = .ok o1) (h2 : (Obs.init q' flt).run h = .ok o2) :
    ∀ b ∈ shownRows o2, ∃ a ∈ shownRows o1, a.1 = b.1 ∧ b.2.Sublist a.2 := by
  obtain ⟨i1, _, _⟩ := Obs.run_details h (Obs.init q flt) o1 inv_empty h1
  obtain ⟨i2, _, _⟩ := Obs.run_details h (Obs.init q' flt) o2 inv_empty h2
  intro b hb
  obtain ⟨p, l⟩ := b
  have hf2 := (shownRows_mem o2 i2 p l).1 hb
  rw [init_details h2 p] at hf2
  have hmono := detailsSpec_mono hq flt h p
  by_cases he : (detailsSpec q' flt h p).isEmpty = true
  · rw [if_pos he] at hf2; cases hf2
  · rw [if_neg he] at hf2
    injection hf2 with hf2
    subst hf2
    have hne : detailsSpec q flt h p ≠ [] := sublist_ne_nil hmono (fun e => he (by rw [e]; rfl))
    refine ⟨(p, detailsSpec q flt h p), ?_, rfl, hmono⟩
    rw [shownRows_mem o1 i1, init_details h1 p, if_neg]
    intro e
    exact hne (List.isEmpty_iff.1 e)

/-- raising quiet only removes `(file, detail)` pairs from what is displayed, and keeps their order -/
theorem displayed_mono {q q' : Nat} (hq : q ≤ q') {flt : Option Filter} {h : List Ev} {o1 o2 : Obs}
    (h1 : (Obs.init q flt).run h = .ok o1) (h2 : (Obs.init q' flt).run h = .ok o2) :
    (displayed o2).Sublist (displayed o1) ∧
      ((shownRows o2).map (·.1)).Sublist ((shownRows o1).map (·.1)) := by
  obtain ⟨i1, _, _⟩ := Obs.run_details h (Obs.init q flt) o1 inv_empty h1
  obtain ⟨i2, _, _⟩ := Obs.run_details h (Obs.init q' flt) o2 inv_empty h2
  have hm := shownRows_mono hq h1 h2
  have s1 := shownRows_sorted o1 i1
  have s2 := shownRows_sorted o2 i2
  constructor
  · exact (expand_sublist pathLt pathLt_irrefl (fun a b => pathLt_asymm) _ _ s1 s2 hm).map _
  · -- the same with one unit item per file
    have key := expand_sublist (δ := Unit) pathLt pathLt_irrefl (fun a b => pathLt_asymm)
      ((shownRows o1).map (fun r => (r.1, [()]))) ((shownRows o2).map (fun r => (r.1, [()])))
      (by rw [List.map_map]; exact s1) (by rw [List.map_map]; exact s2)
      (by
        intro b hb
        simp only [List.mem_map] at hb
        obtain ⟨b0, hb0, rfl⟩ := hb
        obtain ⟨a0, ha0, e, _⟩ := hm b0 hb0
        exact ⟨(a0.1, [()]), List.mem_map.2 ⟨a0, ha0, rfl⟩, e, List.Sublist.refl _⟩)
    have ex : ∀ l : List (List Part × List Detail),
        (expand (l.map (fun r => (r.1, [()])))).map (·.1) = l.map (·.1) := by
      intro l
      induction l with
      | nil => rfl
      | cons a l ih =>
        simp only [expand, List.map_cons, List.flatMap_cons, List.map_append, List.map_nil] at ih ⊢
        rw [ih]; rfl
    have := key.map (·.1)
    rw [ex, ex] at this
    exact this

/-- after a history the rows read from `getContent()` are: for every path with at least one displayed detail
    exactly its specification list, under keys that concatenate to that path -/
theorem history_rows {q : Nat} {flt : Option Filter} {h : List Ev} {o' : Obs}
    (hr : (Obs.init q flt).run h = .ok o') (p : List Part) (l : List Detail) :
    (∃ ks, (ks, l) ∈ outline (getContent o'.details 0) ∧ ks.flatten = p) ↔
      (l = detailsSpec q flt h p ∧ l ≠ []) := by
  obtain ⟨hinv, _, _⟩ := Obs.run_details h (Obs.init q flt) o' inv_empty hr
  have hm := shownRows_mem o' hinv p l
  have hex : (∃ ks, (ks, l) ∈ outline (getContent o'.details 0) ∧ ks.flatten = p) ↔ (p, l) ∈ shownRows o' := by
    unfold shownRows
    simp only [List.mem_map, Prod.mk.injEq]
    constructor
    · rintro ⟨ks, hks, rfl⟩; exact ⟨(ks, l), hks, rfl, rfl⟩
    · rintro ⟨r, hr, h1, h2⟩
      obtain ⟨ks, l'⟩ := r
      simp only at h1 h2
      subst h2
      exact ⟨ks, hr, h1⟩
  rw [hex, hm, init_details hr p]
  by_cases he : (detailsSpec q flt h p).isEmpty = true
  · rw [if_pos he]
    have : detailsSpec q flt h p = [] := List.isEmpty_iff.1 he
    constructor
    · intro h; cases h
    · rintro ⟨h1, h2⟩; rw [this] at h1; exact absurd h1 h2
  · rw [if_neg he]
    constructor
    · intro h
      injection h with h
      subst h
      exact ⟨rfl, fun e => he (by rw [e]; rfl)⟩
    · rintro ⟨h1, _⟩; rw [h1]

theorem outlineAux_value {V : Type} : ∀ (c : List (Content V)) (st : List Key) (ks : List Key) (v : List V),
    (ks, v) ∈ outlineAux st c → ∃ d, Content.value d v ∈ c
  | [], _, _, _, h => by simp [outlineAux] at h
  | .key d k :: rest, st, ks, v, h => by
    simp only [outlineAux] at h
    obtain ⟨d', hd'⟩ := outlineAux_value rest _ ks v h
    exact ⟨d', by simp [hd']⟩
  | .value d w :: rest, st, ks, v, h => by
    simp only [outlineAux, List.mem_cons, Prod.mk.injEq] at h
    rcases h with ⟨_, rfl⟩ | h
    · exact ⟨d, by simp⟩
    · obtain ⟨d', hd'⟩ := outlineAux_value rest _ ks v h
      exact ⟨d', by simp [hd']⟩

/-- a displayed notification whose data is not textual makes `serializeDetails` raise `TypeError` -/
theorem history_bad {q : Nat} {flt : Option Filter} {h : List Ev} {o' : Obs}
    (hr : (Obs.init q flt).run h = .ok o') (hm : ∀ ev ∈ h, Modelled ev.file) (hbad : ¬ ShownText q flt h) :
    serializeDetails o' = .error .typeError := by
  have hex : ∃ cat f d, Ev.notify cat f d ∈ h ∧ rvOf flt cat f d ≠ .ignore ∧ shows q cat = true ∧
      renderable (cat, .data d) = false := by
    apply Classical.byContradiction
    intro hne
    apply hbad
    intro cat f d hev hni hsh
    cases hr' : renderable (cat, .data d) with
    | true => rfl
    | false => exact absurd ⟨cat, f, d, hev, hni, hsh, hr'⟩ hne
  obtain ⟨cat, f, d, hev, hni, hsh, hren⟩ := hex
  obtain ⟨p, hp, _, _⟩ := partsOf_ok (hm _ hev)
  simp only [Ev.file] at hp
  -- the item is stored under the path of its file
  have hnf : cat.isFile = false := by cases cat <;> simp_all [renderable, Cat.isFile]
  have hitem : (cat, DVal.data d) ∈ detailsSpec q flt h p := by
    simp only [detailsSpec, List.mem_filterMap]
    refine ⟨.notify cat f d, hev, ?_⟩
    have hhp : hasParts f p = true := by simp [hasParts, hp]
    simp [evDetail, hni, hsh, hhp, detailOf, hnf]
  have hne : ¬ (detailsSpec q flt h p).isEmpty = true := by
    intro e
    rw [List.isEmpty_iff.1 e] at hitem
    cases hitem
  have hrow := (history_rows hr p (detailsSpec q flt h p)).2 ⟨rfl, fun e => hne (by rw [e]; rfl)⟩
  obtain ⟨ks, hks, _⟩ := hrow
  obtain ⟨dd, hdd⟩ := outlineAux_value _ _ ks _ hks
  apply serializeDetails_error
  refine ⟨dd, _, hdd, (cat, .data d), hitem, ?_, hren⟩
  intro e
  simp only at e
  subst e
  simp [shows] at hsh

end C10T

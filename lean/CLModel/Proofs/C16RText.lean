/-
C16R, part 4: the text the serializer produces for two printed `.properties` files re-parses to exactly the expected
records, without junk.
-/
import CLModel.Proofs.C16RProps
namespace C16R
open AR Ser C16L
open P (PRec printRec printProps SafeRec)

/-- key and raw value of an entry -/
def recOf (e : Ent) : PRec := (e.key, e.val)

/-- what the output must hold for the reference record `r`: the new value if `new_data` gives one; nothing if
    `new_data[key] is None`; otherwise the old localization's record with that key, if any -/
def expectedRec (oldRecs : List PRec) (nd : NewData) (r : PRec) : Option PRec :=
  match dget nd r.1 with
  | some (some v) => some (r.1, v)
  | some none => none
  | none => oldRecs.find? (fun o => o.1 == r.1)

/-- the records of the expected output: reference order, reference keys having a new value or an old value not
    marked for removal -/
def expectedRecs (refRecs oldRecs : List PRec) (nd : NewData) : List PRec :=
  refRecs.filterMap (expectedRec oldRecs nd)

/-! ### the entries of the output, one by one -/

/-- a one-newline white-space entry, or an entity whose text is `key=value` for a safe record -/
def GoodEnt (Sf : PRec → Prop) (e : Ent) : Prop :=
  (e.isWs = true ∧ e.all = [10]) ∨
  (e.isWs = false ∧ e.isReal = true ∧ Sf (recOf e) ∧ e.all = e.key ++ 61 :: e.val)

theorem good_entW (Sf : PRec → Prop) : GoodEnt Sf entW := .inl ⟨rfl, rfl⟩

theorem good_entE {Sf : PRec → Prop} {r : PRec} (h : Sf r) : GoodEnt Sf (entE r) := .inr ⟨rfl, rfl, h, rfl⟩

theorem good_out (refRecs oldRecs : List PRec) (nd : NewData)
    (hold : ∀ r ∈ oldRecs, SafeRec r)
    (hv : ∀ r ∈ refRecs, ∀ v, (r.1, some v) ∈ nd → SafeRec (r.1, v)) :
    ∀ e ∈ serializeEnts (entsOf refRecs) (entsOf oldRecs) nd, GoodEnt SafeRec e := by
  intro e he
  obtain ⟨_, _, h⟩ := C16L.nothing_foreign _ _ nd e he
  rcases h with h | ⟨h, _⟩ | ⟨h, hne⟩
  · obtain ⟨_, _, v, r, hm, hr, rfl⟩ := mem_nl (ref := entsOf refRecs) h
    obtain ⟨hrm, hre, hrk⟩ := refMapping_some hr
    rcases mem_entsOf hrm with rfl | ⟨r', hr', rfl⟩
    · exact absurd hre (by decide)
    · have hk : (wrap (entE r') v).key = r'.1 := rfl
      rw [hk] at hm
      refine .inr ⟨rfl, rfl, hv r' hr' v hm, ?_⟩
      simp [wrap, entE]
  · rcases mem_entsOf h with rfl | ⟨r', hr', rfl⟩
    · exact good_entW _
    · exact good_entE (hold r' hr')
  · rcases mem_entsOf h with rfl | ⟨r', _, rfl⟩
    · exact good_entW _
    · exact absurd hne (by simp [entE, Ent.isEntity])

/-! ### the entities of the output -/

theorem strKeys_entsOf (rs : List PRec) :
    (((entsOf rs).filter (fun e => !e.isJunk)).filter strKeyed).map (·.key) = rs.map (·.1) := by
  induction rs with
  | nil => rfl
  | cons r rs ih =>
    rw [entsOf_cons]
    have h1 : (fun e : Ent => !e.isJunk) (entE r) = true := rfl
    have h2 : (fun e : Ent => !e.isJunk) entW = true := rfl
    have h3 : strKeyed (entE r) = true := rfl
    have h4 : strKeyed entW = false := rfl
    simp only [List.filter_cons, h1, h2, h3, h4, if_true, Bool.false_eq_true, if_false, List.map_cons]
    rw [ih]
    rfl

theorem refKeys_entsOf (rs : List PRec) (hn : (rs.map (·.1)).Nodup) : refKeys (entsOf rs) = rs.map (·.1) := by
  unfold refKeys
  rw [strKeys_entsOf, firstOcc_of_nodup _ hn]

theorem entities_entsOf (rs : List PRec) : (entsOf rs).filter Ent.isEntity = rs.map entE := by
  induction rs with
  | nil => rfl
  | cons r rs ih =>
    rw [entsOf_cons]
    have h1 : (entE r).isEntity = true := rfl
    have h2 : entW.isEntity = false := rfl
    simp only [List.filter_cons, h1, h2, if_true, Bool.false_eq_true, if_false, List.map_cons, ih]

theorem refMapping_entsOf (rs : List PRec) (hn : (rs.map (·.1)).Nodup) (r : PRec) (hr : r ∈ rs) :
    dget (refMapping (entsOf rs)) r.1 = some (entE r) := by
  rw [refMapping_get, entities_entsOf]
  apply lastMatch_unique (List.mem_map.2 ⟨r, hr, rfl⟩) (by simp [entE])
  intro y hy hk
  rw [List.mem_map] at hy
  obtain ⟨r', hr', rfl⟩ := hy
  have : r'.1 = r.1 := by simpa [entE] using hk
  rw [eq_of_key hn hr' hr this]

theorem oldEntry_entsOf (rs : List PRec) (hn : (rs.map (·.1)).Nodup) (s : List Nat) :
    oldEntry (entsOf rs) s = (rs.find? (fun o => o.1 == s)).map entE := by
  unfold oldEntry
  cases hf : rs.find? (fun o => o.1 == s) with
  | none =>
    rw [Option.map_none, lastMatch_eq_none_iff]
    intro e he
    rcases mem_entsOf (List.mem_filter.1 he).1 with rfl | ⟨r', hr', rfl⟩
    · rfl
    · have := List.find?_eq_none.1 hf r' hr'
      simp only [beq_iff_eq] at this
      simp [strKeyed, entE, Ent.isComment, Ent.isWs, this]
  | some o =>
    have ho := List.mem_of_find?_eq_some hf
    have hk : o.1 = s := by simpa using List.find?_some hf
    rw [Option.map_some]
    apply lastMatch_unique
    · rw [List.mem_filter]
      refine ⟨?_, rfl⟩
      unfold entsOf
      rw [List.mem_flatMap]
      exact ⟨o, ho, by simp⟩
    · simp [strKeyed, entE, Ent.isComment, Ent.isWs, hk]
    · intro y hy hp
      rcases mem_entsOf (List.mem_filter.1 hy).1 with rfl | ⟨r', hr', rfl⟩
      · simp [strKeyed, entW, Ent.isComment, Ent.isWs] at hp
      · have : r'.1 = s := by simpa [strKeyed, entE, Ent.isComment, Ent.isWs] using hp
        rw [eq_of_key hn hr' ho (this.trans hk.symm)]

theorem chosen_entsOf (refRecs oldRecs : List PRec) (nd : NewData)
    (hrk : (refRecs.map (·.1)).Nodup) (hok : (oldRecs.map (·.1)).Nodup) (r : PRec) (hr : r ∈ refRecs) :
    (chosen (entsOf refRecs) (entsOf oldRecs) nd r.1).map recOf = expectedRec oldRecs nd r := by
  have hrm := refMapping_entsOf refRecs hrk r hr
  have hkn : known (entsOf refRecs) r.1 = true := by rw [known_iff, hrm]; rfl
  unfold chosen newValue expectedRec removed
  rw [hrm, oldEntry_entsOf oldRecs hok, hkn]
  cases hd : dget nd r.1 with
  | none =>
    simp only
    cases hf : oldRecs.find? (fun o => o.1 == r.1) with
    | none => rfl
    | some o =>
      have hk : o.1 = r.1 := by simpa using List.find?_some hf
      simp [entE, Ent.isReal, recOf]
  | some ov =>
    cases ov with
    | none =>
      simp only
      cases oldRecs.find? (fun o => o.1 == r.1) <;> simp
    | some v => simp [wrap, entE, recOf]

theorem out_records (refRecs oldRecs : List PRec) (nd : NewData)
    (hrk : (refRecs.map (·.1)).Nodup) (hok : (oldRecs.map (·.1)).Nodup) (hnd : (nd.map (·.1)).Nodup) :
    ((serializeEnts (entsOf refRecs) (entsOf oldRecs) nd).filter Ent.isReal).map recOf
      = expectedRecs refRecs oldRecs nd := by
  rw [C16L.serialized_entities _ _ _ hnd, refKeys_entsOf refRecs hrk, List.map_filterMap, List.filterMap_map]
  unfold expectedRecs
  apply filterMap_congr'
  intro r hr
  exact chosen_entsOf refRecs oldRecs nd hrk hok r hr

/-! ### from entries to text -/

theorem isWs_not_real {e : Ent} (h : e.isWs = true) : e.isReal = false := by
  cases e with | mk kind key val all pre post => cases kind <;> simp_all [Ent.isWs, Ent.isReal]

/-- a list of good entries in which every entity is followed by a white-space entry is, as text, a sequence of
    printed records and newlines -/
theorem toks_of_alt (Sf : PRec → Prop) : ∀ out : List Ent, Alt Ent.isWs out → (∀ e ∈ out, GoodEnt Sf e) →
    ∃ t : List C04R.Tok, C04R.printToks t = serializeLegacy out ∧
      C04R.recsOf t = (out.filter Ent.isReal).map recOf ∧
      (hw Ent.isWs out = true → ∃ t', t = C04R.Tok.nl :: t') := by
  intro out
  induction out with
  | nil => intro _ _; exact ⟨[], rfl, rfl, by intro h; simp [hw] at h⟩
  | cons e rest ih =>
    intro ha hg
    obtain ⟨t, h1, h2, h3⟩ := ih ha.2 (fun x hx => hg x (List.mem_cons_of_mem _ hx))
    have hsl : serializeLegacy (e :: rest) = e.all ++ serializeLegacy rest := by simp [serializeLegacy]
    rcases hg e List.mem_cons_self with ⟨hw1, hall⟩ | ⟨hw1, hr, _, hall⟩
    · refine ⟨C04R.Tok.nl :: t, ?_, ?_, fun _ => ⟨t, rfl⟩⟩
      · rw [hsl, hall, C04R.printToks, h1]; rfl
      · rw [C04R.recsOf, h2, List.filter_cons_of_neg (by simp [isWs_not_real hw1])]
    · have hh : hw Ent.isWs rest = true := by
        rcases ha.1 with h | h
        · rw [hw1] at h; exact absurd h (by simp)
        · exact h
      obtain ⟨t', rfl⟩ := h3 hh
      refine ⟨C04R.Tok.record (recOf e) :: t', ?_, ?_, ?_⟩
      · rw [hsl, hall, C04R.printToks, ← h1, C04R.printToks]
        simp [printRec, recOf]
      · rw [C04R.recsOf, List.filter_cons_of_pos hr, List.map_cons, ← h2, C04R.recsOf]
      · intro h
        simp only [hw] at h
        rw [hw1] at h
        exact absurd h (by simp)

/-! ### the theorem -/

theorem safe_records (Sf : PRec → Prop) (out : List Ent) (hg : ∀ e ∈ out, GoodEnt Sf e) :
    ∀ r ∈ (out.filter Ent.isReal).map recOf, Sf r := by
  intro r hr
  rw [List.mem_map] at hr
  obtain ⟨e, he, rfl⟩ := hr
  rw [List.mem_filter] at he
  rcases hg e he.1 with ⟨hw1, _⟩ | ⟨_, _, hs, _⟩
  · rw [isWs_not_real hw1] at he; exact absurd he.2 (by simp)
  · exact hs

/-- serializer output for two printed files: it re-parses, junk-free, to exactly the expected records -/
theorem serialize_reparses (refRecs oldRecs : List PRec) (nd : NewData)
    (href : ∀ r ∈ refRecs, SafeRec r) (hold : ∀ r ∈ oldRecs, SafeRec r)
    (hrk : (refRecs.map (·.1)).Nodup) (hok : (oldRecs.map (·.1)).Nodup) (hnd : (nd.map (·.1)).Nodup)
    (hv : ∀ r ∈ refRecs, ∀ v, (r.1, some v) ∈ nd → SafeRec (r.1, v)) :
    ∃ t es, serializeText .properties (printProps refRecs).toArray (printProps oldRecs).toArray nd = some t ∧
      P.walk .properties t.toArray = .done es ∧
      P.entitiesOf .properties t.toArray es = (expectedRecs refRecs oldRecs nd).map P.expectedView ∧
      P.junkOf t.toArray es = [] := by
  have hg := good_out refRecs oldRecs nd hold hv
  have ha := alt_out refRecs oldRecs nd hrk hok
  obtain ⟨t, h1, h2, _⟩ := toks_of_alt SafeRec _ ha hg
  have hsafe : ∀ r ∈ C04R.recsOf t, SafeRec r := by rw [h2]; exact safe_records SafeRec _ hg
  obtain ⟨es, hw1, hw2, hw3⟩ := C04R.walk_toks t hsafe
  refine ⟨serializeOut (entsOf refRecs) (entsOf oldRecs) nd, es, ?_, ?_, ?_, ?_⟩
  · unfold serializeText
    rw [walkEnts_printed refRecs href, walkEnts_printed oldRecs hold]
  · rw [serializeOut, ← h1]; exact hw1
  · rw [serializeOut, ← h1, hw2, h2, out_records refRecs oldRecs nd hrk hok hnd]
  · rw [serializeOut, ← h1]; exact hw3

end C16R

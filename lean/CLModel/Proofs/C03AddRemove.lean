/-
Helper lemmas for C03: facts about `AR.addRemove` that hold for ALL inputs (duplicates allowed):
every key of either side occurs exactly once, labels are decided by membership.
Core Lean only.
-/
import CLModel.Compare.AddRemove
import CLModel.Proofs.AddRemove
namespace AR

variable {α : Type} [BEq α] [LawfulBEq α] {β : Type}

/-- insertion into an insertion-ordered key list -/
def ins (ks : List α) (x : α) : List α := if ks.contains x then ks else ks ++ [x]

theorem dset_keys (d : List (α × β)) (k : α) (v : β) :
    (dset d k v).map (·.1) = ins (d.map (·.1)) k := by
  unfold dset ins
  have h : d.any (·.1 == k) = (d.map (·.1)).contains k := by
    rw [Bool.eq_iff_iff]
    simp [List.any_eq_true]
  rw [h]
  split
  · rw [List.map_map]
    apply List.map_congr_left
    intro p _
    simp only [Function.comp]
    split
    · rename_i hk; exact (eq_of_beq hk).symm
    · rfl
  · simp

theorem dget_isSome (d : List (α × β)) (k : α) : (dget d k).isSome = (d.map (·.1)).contains k := by
  induction d with
  | nil => simp [dget]
  | cons p d ih =>
    rw [dget_cons, List.map_cons, List.contains_cons]
    cases h : p.1 == k
    · have : (k == p.1) = false := by
        rw [beq_eq_false_iff_ne] at h ⊢
        exact fun e => h e.symm
      simp [ih, this]
    · have : (k == p.1) = true := by rw [beq_iff_eq] at h ⊢; exact h.symm
      simp [this]

theorem ins_nodup (ks : List α) (x : α) (h : ks.Nodup) : (ins ks x).Nodup := by
  unfold ins
  split
  · exact h
  · rename_i hx
    rw [List.nodup_append]
    refine ⟨h, by simp, ?_⟩
    intro a ha b hb e
    simp only [List.mem_singleton] at hb
    subst hb; subst e
    exact hx (by simpa using ha)

theorem mem_ins (ks : List α) (x y : α) : y ∈ ins ks x ↔ y ∈ ks ∨ y = x := by
  unfold ins
  split
  · rename_i hx
    have : x ∈ ks := by simpa using hx
    constructor
    · exact .inl
    · rintro (h | rfl); exact h; exact this
  · simp

theorem foldl_ins_nodup (xs ks : List α) (h : ks.Nodup) : (xs.foldl ins ks).Nodup := by
  induction xs generalizing ks with
  | nil => exact h
  | cons x xs ih => exact ih _ (ins_nodup ks x h)

theorem mem_foldl_ins (xs ks : List α) (y : α) : y ∈ xs.foldl ins ks ↔ y ∈ ks ∨ y ∈ xs := by
  induction xs generalizing ks with
  | nil => simp
  | cons x xs ih =>
    rw [List.foldl_cons, ih, mem_ins, List.mem_cons]
    constructor
    · rintro ((h | h) | h); exact .inl h; exact .inr (.inl h); exact .inr (.inr h)
    · rintro (h | h | h); exact .inl (.inl h); exact .inl (.inr h); exact .inr h

theorem leftMap_keys_fold (l : List α) (n : Nat) (d : List (α × (Int × Int))) :
    ((l.zipIdx n).foldl (fun d (x, i) => dset d x ((i : Int), -1)) d).map (·.1)
      = l.foldl ins (d.map (·.1)) := by
  induction l generalizing n d with
  | nil => simp
  | cons x xs ih =>
    simp only [List.zipIdx_cons, List.foldl_cons]
    rw [ih, dset_keys]

theorem leftMap_keys (l : List α) : (leftMap l).map (·.1) = l.foldl ins [] := by
  have := leftMap_keys_fold l 0 []
  simpa [leftMap] using this

theorem rightStep_keys (st : List (α × (Int × Int)) × Int × List α) (xi : α × Nat) :
    (rightStep st xi).1.map (·.1) = ins (st.1.map (·.1)) xi.1 := by
  obtain ⟨d, lo, ri⟩ := st
  obtain ⟨x, i⟩ := xi
  simp only [rightStep]
  have h := dget_isSome d x
  cases hg : dget d x with
  | some v =>
    rw [hg] at h
    simp only [ins, ← h, Option.isSome_some, if_true]
  | none =>
    rw [hg] at h
    simp only [dset_keys]

theorem right_fold_keys (xs : List (α × Nat)) (st : List (α × (Int × Int)) × Int × List α) :
    (xs.foldl rightStep st).1.map (·.1) = (xs.map (·.1)).foldl ins (st.1.map (·.1)) := by
  induction xs generalizing st with
  | nil => simp
  | cons xi xs ih =>
    rw [List.foldl_cons, ih, rightStep_keys, List.map_cons, List.foldl_cons]

/-- the final order map of `addRemove l r` -/
def orderMap (l r : List α) : List (α × (Int × Int)) :=
  ((r.zipIdx).foldl rightStep (leftMap l, (-1 : Int), [])).1

theorem orderMap_keys (l r : List α) : (orderMap l r).map (·.1) = (l ++ r).foldl ins [] := by
  rw [orderMap, right_fold_keys, List.zipIdx_map_fst, List.foldl_append]
  simp only [leftMap_keys]

theorem addRemove_gen (l r : List α) :
    addRemove l r = ((orderMap l r).mergeSort (fun a b => leKey a.2 b.2)).map
      (fun p => (lab l r p.1, p.1)) := by
  have h2 := right_fold_items r.zipIdx (leftMap l, (-1 : Int), [])
  have hl : ∀ y, ((leftMap l).map (·.1)).contains y = l.contains y := by
    intro y
    rw [Bool.eq_iff_iff, List.contains_iff_mem, List.contains_iff_mem, leftMap_keys, mem_foldl_ins]
    simp
  have hr : ∀ y, (List.foldl rightStep (leftMap l, (-1 : Int), []) r.zipIdx).2.2.contains y
      = r.contains y := by
    intro y
    rw [Bool.eq_iff_iff, List.contains_iff_mem, List.contains_iff_mem, h2, List.zipIdx_map_fst]
    simp
  simp only [addRemove, orderMap]
  apply List.map_congr_left
  intro p _
  rw [hl, hr, lab]
  cases l.contains p.1 <;> cases r.contains p.1 <;> rfl

/-- labels are decided by membership, for all inputs -/
theorem addRemove_labels_gen (l r : List α) : ∀ p ∈ addRemove l r, p.1 = lab l r p.2 := by
  intro p hp
  rw [addRemove_gen, List.mem_map] at hp
  obtain ⟨q, _, rfl⟩ := hp
  rfl

theorem addRemove_keys_perm_gen (l r : List α) :
    ((addRemove l r).map (·.2)).Perm ((l ++ r).foldl ins []) := by
  rw [addRemove_gen, List.map_map]
  have : ((fun p : Label × α => p.2) ∘ fun p : α × (Int × Int) => (lab l r p.1, p.1)) = (·.1) := rfl
  rw [this, ← orderMap_keys]
  exact (List.mergeSort_perm _ _).map _

/-- no key is yielded twice, for all inputs -/
theorem addRemove_keys_nodup_gen (l r : List α) : ((addRemove l r).map (·.2)).Nodup := by
  rw [(addRemove_keys_perm_gen l r).nodup_iff]
  exact foldl_ins_nodup _ _ List.nodup_nil

/-- the yielded keys are the keys of either side, for all inputs -/
theorem addRemove_keys_mem_gen (l r : List α) (k : α) :
    k ∈ (addRemove l r).map (·.2) ↔ k ∈ l ∨ k ∈ r := by
  rw [(addRemove_keys_perm_gen l r).mem_iff, mem_foldl_ins]
  simp

/-- the diff is its key list with the membership labels attached -/
theorem addRemove_eq_map_lab (l r : List α) :
    addRemove l r = ((addRemove l r).map (·.2)).map (fun k => (lab l r k, k)) := by
  rw [List.map_map]
  conv => lhs; rw [← List.map_id (addRemove l r)]
  apply List.map_congr_left
  intro p hp
  have := addRemove_labels_gen l r p hp
  simp only [Function.comp, id]
  rw [← this]

end AR

/- C02 round 5: complete passes after arbitrary histories on one parser object (over `C01M.stepG`). -/
import CLModel.Proofs.C01Gen
namespace C02H
open P C01M C01P

theorem lastRead_append (a b : List Op) : ∀ init, lastRead (a ++ b) init = lastRead b (lastRead a init) := by
  induction a with
  | nil => intro init; rfl
  | cons op a ih =>
    intro init
    cases op <;> simp only [List.cons_append, lastRead, ih]

theorem lastRead_noread (a : List Op) (h : ∀ op ∈ a, ∀ t, op ≠ .read t) : ∀ init, lastRead a init = init := by
  induction a with
  | nil => intro init; rfl
  | cons op a ih =>
    intro init
    have ht := ih (fun o ho => h o (by simp [ho]))
    cases op with
    | read t => exact absurd rfl (h (.read t) (by simp) t)
    | _ => simp only [lastRead, ht]

/-- history `h`, `readUnicode(t)`, then any generator operations `h2` (partial, interleaved, abandoned passes):
    a complete pass shows the fresh parse of `t` -/
theorem hist_recovers (f : Fmt) (h h2 : List Op) (t : Array Nat) (es : List Entry) (hw : walk f t = .done es)
    (hnr : ∀ op ∈ h2, ∀ t, op ≠ .read t) (loc : Bool) :
    runG f (execG f {} (h ++ [.read t] ++ h2)) [.mk loc, .drain (countMk (h ++ [.read t] ++ h2))] =
      [.full (.done (if loc then es.filter Entry.localizable else es))] := by
  have h1 := complete_pass f (h ++ [.read t] ++ h2) loc
  rw [h1, lastRead_append, lastRead_noread h2 hnr, lastRead_append]
  simp only [lastRead, view, hw, WalkResult.filterLoc]
  cases loc <;> simp

end C02H

/- Reference notions for the theorems about the Android PARSER model (`AndroidP`, Checks/AndroidParser.lean):
   what an element becomes on its own, which entries are "localizable", the shape of a clean child list. -/
import CLModel.Checks.AndroidParser
namespace C09P
open AndroidP

/-- entries that `walk(only_localizable=True)` keeps: AndroidEntity and XMLJunk -/
def isLoc (e : Entry) : Bool := e.isEntity || e.isJunk

/-- an entry without its attached comment and white-space -/
def core : Entry → Entry
  | .entity _ _ n a k r v => .entity none none n a k r v
  | e => e

/-- `<string name=…>` -/
def isStringElem : DNode → Bool
  | .element name attrs _ => name == Gen.TablesAndroid.string_tag && (getAttr? attrs Gen.TablesAndroid.name_attr).isSome
  | _ => false

/-- value of the `name` attribute of an element (`getAttribute("name")`, "" if absent) -/
def nameOf : DNode → List Nat
  | .element _ attrs _ => match getAttr? attrs Gen.TablesAndroid.name_attr with
    | some v => v
    | none => []
  | _ => []

/-- what `handleElement` makes of an element, apart from the attached comment / white-space (total: `toxml` without
    the ValueError guards) -/
def elemEntry (cc ws : Option Lit) : DNode → Entry
  | .element name attrs children =>
    let xml := (DNode.element name attrs children).toxml
    if isStringElem (.element name attrs children) then
      .entity cc ws (.element name attrs children) xml (nameOf (.element name attrs children))
        (Android.textContent (toNode name attrs children xml)) (toxmlList children)
    else .junk xml
  | n => .junk n.toxml

def _root_.AndroidP.Step.out : Step → List Entry
  | .stop o => o
  | .cont o _ => o

def _root_.AndroidP.Step.rest : Step → List DNode
  | .stop _ => []
  | .cont _ r => r

/-- at most `threshold` newlines: the white-space does not separate a comment from what follows -/
def shortC (d : List Nat) : Prop := ¬ count Gen.TablesAndroid.comment_nl d > Gen.TablesAndroid.comment_nl_threshold
def shortW (d : List Nat) : Prop := ¬ count Gen.TablesAndroid.walk_nl d > Gen.TablesAndroid.walk_nl_threshold

/-- concatenation of the `all` texts of a list of entries -/
def allText (es : List Entry) : List Nat := es.flatMap Entry.all

/-- `<string name=…>` element, text or comment.  (Other elements are excluded because a comment in front of them is
    dropped: `handleElement` makes an XMLJunk of the element alone.) -/
def isPlain : DNode → Bool
  | .element name attrs cs => isStringElem (.element name attrs cs)
  | .text _ => true
  | .comment _ => true
  | _ => false

/-- no two adjacent text nodes (the XML parser always fuses them) -/
def noAdjText : List DNode → Bool
  | .text _ :: .text _ :: _ => false
  | _ :: rest => noAdjText rest
  | [] => true

/-- the list ends with a comment followed by a text node with at most `threshold` newlines -/
def EndsCommentShort (cs : List DNode) : Prop :=
  ∃ pre c d, cs = pre ++ [.comment c, .text d] ∧ shortC d

/-- a child list from which `walk` loses nothing -/
structure Clean (cs : List DNode) : Prop where
  plain : ∀ n ∈ cs, isPlain n = true
  fused : noAdjText cs = true
  tail : ¬ EndsCommentShort cs

/-- key and value of an AndroidEntity -/
def entityKV : Entry → Option (List Nat × List Nat)
  | .entity _ _ _ _ k r _ => some (k, r)
  | _ => none

/-- `textContent` of an element given as a node summary -/
def rawOf : DNode → List Nat
  | .element name attrs cs => Android.textContent (toNode name attrs cs (DNode.element name attrs cs).toxml)
  | _ => []

/-- the text a DocumentWrapper stores for a root attribute -/
def rawAttr (a : List Nat × List Nat) : List Nat := (attrWrapper a).all

end C09P

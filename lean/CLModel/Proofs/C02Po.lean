/- C02, PO: `eval_stringlist` (one regex substitution with the generated `reEscape` and `escapes` table)
   is the documented one-pass unescape, for all texts. -/
import CLModel.Parser.Values
import CLModel.Proofs.C02Props
namespace P
open Rx Gen.Pat

/-- Generic: a substitution whose regex never matches the empty string equals a scanner `spec`, provided that at
    every position either there is no match and `spec` copies the character, or there is a match and `spec` jumps
    over it producing the callback's text. -/
theorem sub_spec_generic (s : Array Nat) (r : Re) (cb : Nat → St → Option (List Nat)) (spec : List Nat → List Nat)
    (hnil : spec [] = [])
    (hstep : ∀ pos c, s[pos]? = some c →
      (matchAt s r pos = none ∧ spec (c :: s.toList.drop (pos + 1)) = c :: spec (s.toList.drop (pos + 1))) ∨
      (∃ st a, matchAt s r pos = some st ∧ pos < st.pos ∧ st.pos ≤ s.size ∧ cb pos st = some a ∧
        a ++ spec (s.toList.drop st.pos) = spec (c :: s.toList.drop (pos + 1))))
    (hend : matchAt s r s.size = none) :
    ∀ n pos fuel last, s.size - pos ≤ n → pos ≤ s.size → n + 1 ≤ fuel → last ≤ pos →
      subGo s cb (finditerAux s r fuel pos false) last = some (slice s last pos ++ spec (s.toList.drop pos)) := by
  have at_end : ∀ f last, subGo s cb (finditerAux s r (f + 1) s.size false) last =
      some (slice s last s.size ++ spec (s.toList.drop s.size)) := by
    intro f last
    have hdn : s.toList.drop s.size = [] := List.drop_eq_nil_of_le (by simp)
    rw [finditerAux]
    simp [hend, search_gt s r (s.size + 1) (by omega), subGo, hdn, hnil]
  intro n
  induction n with
  | zero =>
    intro pos fuel last h1 h2 h3 h4
    have hp : pos = s.size := by omega
    subst hp
    obtain ⟨f, rfl⟩ : ∃ f, fuel = f + 1 := ⟨fuel - 1, by omega⟩
    exact at_end f last
  | succ n ih =>
    intro pos fuel last h1 h2 h3 h4
    obtain ⟨f, rfl⟩ : ∃ f, fuel = f + 1 := ⟨fuel - 1, by omega⟩
    rcases drop_view s pos with ⟨_, hge, _⟩ | ⟨c, h0, hlt, hd⟩
    · have hp : pos = s.size := by omega
      subst hp
      exact at_end f last
    · rcases hstep pos c h0 with ⟨hm, hs⟩ | ⟨st, a, hm, hgt, hle, hcb, hspec⟩
      · rw [finditerAux_skip s _ f pos hm h2, ih (pos + 1) (f + 1) last (by omega) (by omega) (by omega) (by omega)]
        rw [hd, hs, slice_snoc s last pos c h0 h4]
        simp
      · rw [finditerAux]
        simp only [show ¬ pos > s.size by omega, if_false, Bool.false_eq_true, hm]
        have hne : (st.pos == pos) = false := by simp; omega
        rw [hne, subGo, hcb, ih st.pos f st.pos (by omega) hle (by omega) (Nat.le_refl _)]
        simp only []
        rw [hd, ← hspec]
        simp [slice]

/-! ### the PO escape regex -/

def isPoEsc (d : Nat) : Bool := d == 92 || d == 116 || d == 114 || d == 110 || d == 34

theorem poEsc_cls (d : Nat) :
    inC false [ClsItem.ch 92, ClsItem.ch 116, ClsItem.ch 114, ClsItem.ch 110, ClsItem.ch 34] d = isPoEsc d := by
  simp [inC, ClsItem.has, isPoEsc, Bool.or_assoc]

theorem poOnePassText_esc (d : Nat) (rest : List Nat) (h : isPoEsc d = true) :
    poOnePassText (92 :: d :: rest) = poEscVal d :: poOnePassText rest := by
  rw [poOnePassText]
  have : (d == 92 || d == 116 || d == 114 || d == 110 || d == 34) = true := h
  simp [this]

theorem poOnePassText_copy (c : Nat) (rest : List Nat)
    (h : c ≠ 92 ∨ rest = [] ∨ ∃ d t, rest = d :: t ∧ isPoEsc d = false) :
    poOnePassText (c :: rest) = c :: poOnePassText rest := by
  cases rest with
  | nil => simp [poOnePassText]
  | cons d t =>
    rw [poOnePassText]
    rcases h with h | h | ⟨d', t', h, hd⟩
    · have : (c == 92) = false := by simp [h]
      simp [this]
    · cases h
    · cases h
      have : (d == 92 || d == 116 || d == 114 || d == 110 || d == 34) = false := hd
      simp [this]

theorem poEscapes_lookup (d : Nat) (h : isPoEsc d = true) :
    (Gen.Tables.poEscapes.find? (·.1 == d)).map (fun p => [p.2]) = some [poEscVal d] := by
  simp only [isPoEsc, Bool.or_eq_true, beq_iff_eq] at h
  rcases h with (((rfl | rfl) | rfl) | rfl) | rfl <;> decide

theorem po_step (s : Array Nat) (pos c : Nat) (h0 : s[pos]? = some c) :
    (matchAt s parser_po_reEscape pos = none ∧
      poOnePassText (c :: s.toList.drop (pos + 1)) = c :: poOnePassText (s.toList.drop (pos + 1))) ∨
    (∃ st a, matchAt s parser_po_reEscape pos = some st ∧ pos < st.pos ∧ st.pos ≤ s.size ∧
      poEscapeCb s pos st = some a ∧
      a ++ poOnePassText (s.toList.drop st.pos) = poOnePassText (c :: s.toList.drop (pos + 1))) := by
  by_cases hc : c = 92
  · subst hc
    rcases drop_view s (pos + 1) with ⟨h1, _, hd1⟩ | ⟨d, h1, hlt1, hd1⟩
    · left
      refine ⟨?_, ?_⟩
      · simp only [matchAt, parser_po_reEscape, m_seq, m_lit, m_group, h0]
        rw [m_cls_apply]
        simp [h1]
      · rw [hd1]; exact poOnePassText_copy 92 [] (Or.inr (Or.inl rfl))
    · by_cases hd : isPoEsc d = true
      · right
        have hs1 : slice s (pos + 1) (pos + 1 + 1) = [d] := by
          have := slice_take s (pos + 1) 1 _ hd1 (by simp)
          simpa using this
        refine ⟨⟨pos + 1 + 1, [(1, pos + 1, pos + 1 + 1)]⟩, [poEscVal d], ?_, by simp; omega, by simp; omega, ?_, ?_⟩
        · simp only [matchAt, parser_po_reEscape, m_seq, m_lit, m_group, h0]
          rw [m_cls_apply]
          simp [h1, poEsc_cls, hd]
        · simp [poEscapeCb, St.group, capOf, hs1, poEscapes_lookup d hd]
        · rw [hd1, poOnePassText_esc d _ hd]
          simp
      · left
        refine ⟨?_, ?_⟩
        · simp only [matchAt, parser_po_reEscape, m_seq, m_lit, m_group, h0]
          rw [m_cls_apply]
          simp [h1, poEsc_cls, hd]
        · rw [hd1]
          exact poOnePassText_copy 92 _ (Or.inr (Or.inr ⟨d, _, rfl, by simpa using hd⟩))
  · left
    refine ⟨?_, poOnePassText_copy c _ (Or.inl hc)⟩
    simp only [matchAt, parser_po_reEscape, m_seq, m_lit]
    simp [h0, hc]

/-- `eval_stringlist` on one fragment = the one-pass scanner, for ALL texts -/
theorem poUnescape_eq_spec (v : List Nat) : poUnescape v = some (poOnePassText v) := by
  unfold poUnescape subWithOpt finditer
  have hend : matchAt v.toArray parser_po_reEscape v.toArray.size = none := by
    simp only [matchAt, parser_po_reEscape, m_seq, m_lit]
    simp
  have := sub_spec_generic v.toArray parser_po_reEscape (poEscapeCb v.toArray) poOnePassText (by simp [poOnePassText])
    (po_step v.toArray) hend v.toArray.size 0 (2 * v.toArray.size + 3) 0 (by omega) (by omega) (by omega) (by omega)
  simp only [this]
  simp [slice]

/-! ### token level -/

/-- the token is one that `reListItem` accepts: an escape of `\\\\ t r n "` or a plain character other than quote, newline, backslash -/
def PoTok.wf : PoTok → Bool
  | .esc c => c == 92 || c == 116 || c == 114 || c == 110 || c == 34
  | .plain c => c != 34 && c != 10 && c != 92

theorem poOnePassText_render : ∀ (ts : List PoTok), (∀ t ∈ ts, t.wf = true) →
    poOnePassText (poRender ts) = poOnePass ts := by
  intro ts
  induction ts with
  | nil => intro _; simp [poRender, poOnePass, poOnePassText]
  | cons t rest ih =>
    intro hwf
    have ihh := ih (fun u hu => hwf u (by simp [hu]))
    have e : poRender (t :: rest) = t.render ++ poRender rest := by simp [poRender]
    have ht := hwf t (by simp)
    rw [e]
    cases t with
    | plain c =>
      simp only [PoTok.wf, Bool.and_eq_true, bne_iff_ne] at ht
      simp only [PoTok.render, List.cons_append, List.nil_append]
      rw [poOnePassText_copy c _ (Or.inl ht.2), ihh]
      simp [poOnePass, PoTok.value]
    | esc c =>
      have hc : isPoEsc c = true := by simpa [PoTok.wf, isPoEsc] using ht
      simp only [PoTok.render, List.cons_append, List.nil_append]
      rw [poOnePassText_esc c _ hc, ihh]
      simp [poOnePass, PoTok.value]

theorem poUnescape_render (ts : List PoTok) (hwf : ∀ t ∈ ts, t.wf = true) :
    poUnescape (poRender ts) = some (poOnePass ts) := by
  rw [poUnescape_eq_spec, poOnePassText_render ts hwf]

end P

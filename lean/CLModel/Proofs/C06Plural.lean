/- C06 helper lemmas, part 9: totality facts and the plural branch. -/
import CLModel.Checks.Properties
import CLModel.Proofs.C06RxPrintf
import CLModel.Proofs.C06SpecsCor
namespace PropCk
open Rx

theorem scanErr_printf {ts : List (Nat × ATok)} {mode : Option Bool} {e : PErr}
    (h : scanErr ts mode = some e) : ∃ msg pos, e = .printf msg pos := by
  induction ts generalizing mode with
  | nil => simp [scanErr] at h
  | cons t ts ih =>
    obtain ⟨p, tok⟩ := t
    cases tok with
    | lone => simp only [scanErr, Option.some.injEq] at h; exact ⟨_, _, h.symm⟩
    | pct => simp only [scanErr] at h; exact ih h
    | arg num spec =>
      simp only [scanErr] at h
      split at h
      · simp only [Option.some.injEq] at h; exact ⟨_, _, h.symm⟩
      · exact ih h

/-- `getPrintfSpecs` raises nothing but `PrintfException` -/
theorem getPrintfSpecs_not_other (val : Text) : getPrintfSpecs val ≠ .error .other := by
  obtain ⟨ts, hts⟩ := atoks_total val
  rw [getPrintfSpecs_eq_spec val ts hts]
  unfold specsSpec
  cases hs : scanErr ts none with
  | some e =>
    obtain ⟨msg, pos, rfl⟩ := scanErr_printf hs
    simp
  | none =>
    simp only
    split
    · simp
    · simp
    · split <;> simp

/-- the variable regex `#([0-9]+)` always captures a decimal numeral -/
theorem pluralVars_total (r : Re) (hr : r = Re.seq (Re.lit 35) (Re.group 1 (Re.rep 1 none true (Re.cls false [.range 48 57]))))
    (value : Text) : ∃ l, pluralVars r value = some l := by
  unfold pluralVars
  simp only
  have key : ∀ m ∈ finditer value.toArray r,
      (match groupText value.toArray m.2 1 with
        | some t => intOf t
        | none => none).isSome = true := by
    intro m hm
    have hsem := finditer_sem value.toArray r m hm
    rw [hr] at hsem
    obtain ⟨st1, h1, h2⟩ := sem_seq_inv hsem
    obtain ⟨_, rfl⟩ := sem_lit_inv h1
    obtain ⟨st2, h3, heq⟩ := sem_group_inv h2
    obtain ⟨r1, r2, r3⟩ := sem_rep_cls h3 _ _ _ rfl
    simp only at r1 r2 r3
    have hd : DigitsFrom 48 value.toArray (m.1 + 1) st2.pos := by
      refine ⟨by omega, ?_, ?_⟩
      · obtain ⟨c, hc, hin⟩ := r3 (m.1 + 1) (by omega) (by omega)
        exact ⟨c, hc, (inC_range.mp hin).1, (inC_range.mp hin).2⟩
      · intro p hp1 hp2
        obtain ⟨c, hc, hin⟩ := r3 p (by omega) hp2
        exact ⟨c, hc, inC_range.mp hin⟩
    obtain ⟨d, ds, hsl, hlo, hhi, hds⟩ := slice_of_digits hd
    obtain ⟨n, hn⟩ := intOf_digits0 ⟨hlo, hhi⟩ hds
    simp only [groupText, St.group, heq, capOf_cons, if_true, Option.map_some, hsl, hn, Option.isSome_some]
  obtain ⟨l, hl, _⟩ := mapOpt_total _ _ key
  exact ⟨l, hl⟩

/-! ### the verdict of `check_plural` -/

/-- verdict on the variables: a function of the two *sets* of variable numbers -/
def varsVerdict (pats lpats : List Nat) : List Finding :=
  if pats.length = 0 then []
  else if pats.any (fun x => !lpats.contains x) then [⟨.warning, .val 0, sNotAllVars, .plural⟩]
  else if lpats.any (fun x => !pats.contains x) then [⟨.error, .val 0, sUnreplaced, .plural⟩]
  else []

/-- verdict on the number of forms -/
def formsVerdict (known : Option (List Text)) (semicolons : Nat) : List Finding :=
  match known with
  | some (c :: cs) =>
    if (c :: cs).length ≠ semicolons + 1 then
      [⟨.warning, .val 0, sExpecting ++ decimal (c :: cs).length ++ sPluralsFound ++ decimal (semicolons + 1), .plural⟩]
    else []
  | _ => []

theorem forms_eq (known : Option (List Text)) (l10nValue : Text) :
    formsFindings known l10nValue = formsVerdict known (l10nValue.count 59) := by
  cases known with
  | none => rfl
  | some l =>
    cases l with
    | nil => rfl
    | cons c cs =>
      simp only [formsVerdict, formsFindings]
      by_cases h1 : (c :: cs).length > l10nValue.count 59 + 1
      · have h2 : ¬ (c :: cs).length < l10nValue.count 59 + 1 := by omega
        have h3 : (c :: cs).length ≠ l10nValue.count 59 + 1 := by omega
        simp only [h1, h2, h3, if_true, if_false, ne_eq, not_false_eq_true, List.append_nil]
      · by_cases h2 : (c :: cs).length < l10nValue.count 59 + 1
        · have h3 : (c :: cs).length ≠ l10nValue.count 59 + 1 := by omega
          simp only [h1, h2, h3, if_true, if_false, ne_eq, not_false_eq_true, List.nil_append]
        · have h3 : ¬ ((c :: cs).length ≠ l10nValue.count 59 + 1) := by omega
          simp only [h1, h2, h3, if_false, List.append_nil]

theorem checkPlural_eq (locale : Option Text) (refValue l10nValue : Text) (known : Option (List Text))
    (pats lpats : List Nat) (hk : getPlural locale = some known)
    (hp : pluralVars Gen.Pat.checks_properties_PropertiesChecker_check_plural_0 refValue = some pats)
    (hl : pluralVars Gen.Pat.checks_properties_PropertiesChecker_check_plural_1 l10nValue = some lpats) :
    checkPlural locale refValue l10nValue =
      some (formsVerdict known (l10nValue.count 59) ++ varsVerdict pats lpats) := by
  have hforms := forms_eq known l10nValue
  unfold checkPlural
  simp only [hk, hp, hl]
  rw [hforms]
  unfold varsVerdict
  split
  · simp
  · split
    · rfl
    · split
      · rfl
      · simp

/-- the variable verdict depends on the sets only -/
theorem varsVerdict_congr (pats pats' lpats lpats' : List Nat)
    (h1 : ∀ x, x ∈ pats ↔ x ∈ pats') (h2 : ∀ x, x ∈ lpats ↔ x ∈ lpats') :
    varsVerdict pats lpats = varsVerdict pats' lpats' := by
  have e0 : (pats.length = 0) ↔ (pats'.length = 0) := by
    constructor
    · intro h
      have : pats = [] := List.eq_nil_of_length_eq_zero h
      subst this
      cases pats' with
      | nil => rfl
      | cons x xs => exact absurd ((h1 x).mpr (by simp)) (by simp)
    · intro h
      have : pats' = [] := List.eq_nil_of_length_eq_zero h
      subst this
      cases pats with
      | nil => rfl
      | cons x xs => exact absurd ((h1 x).mp (by simp)) (by simp)
  have e1 : pats.any (fun x => !lpats.contains x) = pats'.any (fun x => !lpats'.contains x) := by
    rw [Bool.eq_iff_iff]
    simp only [List.any_eq_true, Bool.not_eq_true', List.contains_eq_mem, decide_eq_false_iff_not]
    constructor
    · rintro ⟨x, hx, hn⟩; exact ⟨x, (h1 x).mp hx, fun h => hn ((h2 x).mpr h)⟩
    · rintro ⟨x, hx, hn⟩; exact ⟨x, (h1 x).mpr hx, fun h => hn ((h2 x).mp h)⟩
  have e2 : lpats.any (fun x => !pats.contains x) = lpats'.any (fun x => !pats'.contains x) := by
    rw [Bool.eq_iff_iff]
    simp only [List.any_eq_true, Bool.not_eq_true', List.contains_eq_mem, decide_eq_false_iff_not]
    constructor
    · rintro ⟨x, hx, hn⟩; exact ⟨x, (h2 x).mp hx, fun h => hn ((h1 x).mpr h)⟩
    · rintro ⟨x, hx, hn⟩; exact ⟨x, (h2 x).mpr hx, fun h => hn ((h1 x).mp h)⟩
  unfold varsVerdict
  rw [e1, e2]
  by_cases h : pats.length = 0
  · simp [h, e0.mp h]
  · have h' : ¬ pats'.length = 0 := fun hh => h (e0.mpr hh)
    simp [h, h']

/-- the verdict written out with set notions -/
theorem varsVerdict_spec (pats lpats : List Nat) :
    varsVerdict pats lpats =
      if pats = [] then []
      else if ∃ x ∈ pats, x ∉ lpats then [⟨.warning, .val 0, sNotAllVars, .plural⟩]
      else if ∃ x ∈ lpats, x ∉ pats then [⟨.error, .val 0, sUnreplaced, .plural⟩]
      else [] := by
  unfold varsVerdict
  have e0 : (pats.length = 0) ↔ pats = [] := List.length_eq_zero_iff
  have e1 : pats.any (fun x => !lpats.contains x) = true ↔ ∃ x ∈ pats, x ∉ lpats := by simp
  have e2 : lpats.any (fun x => !pats.contains x) = true ↔ ∃ x ∈ lpats, x ∉ pats := by simp
  simp only [e0, e1, e2]

/-! ### `contains` is the substring test -/

theorem contains_iff (needle hay : Text) : contains needle hay = true ↔ needle <:+: hay := by
  induction hay with
  | nil =>
    simp only [contains]
    constructor
    · intro h
      have := List.isPrefixOf_iff_prefix.mp h
      exact this.isInfix
    · intro h
      have : needle = [] := List.eq_nil_of_infix_nil h
      subst this; rfl
  | cons c hay ih =>
    simp only [contains, Bool.or_eq_true, ih]
    constructor
    · rintro (h | h)
      · exact (List.isPrefixOf_iff_prefix.mp h).isInfix
      · obtain ⟨s, t, hst⟩ := h
        exact ⟨c :: s, t, by simp [← hst]⟩
    · rintro ⟨s, t, hst⟩
      cases s with
      | nil =>
        left
        exact List.isPrefixOf_iff_prefix.mpr ⟨t, by simpa using hst⟩
      | cons x xs =>
        right
        simp only [List.cons_append, List.cons.injEq] at hst
        exact ⟨xs, t, by simpa using hst.2⟩

/-- findings of the encoding check and of the escape check are warnings of their own categories -/
theorem base_esc_warnings (e : Ents) :
    ∀ f ∈ baseCheck e ++ escapeWarnings e.l10nRaw, f.sev = .warning ∧ f.cat ≠ .printf ∧ f.cat ≠ .plural := by
  intro f hf
  rcases List.mem_append.mp hf with hf | hf
  · simp only [baseCheck, List.mem_map] at hf
    obtain ⟨m, _, rfl⟩ := hf
    simp
  · simp only [escapeWarnings, List.mem_filterMap] at hf
    obtain ⟨m, _, hm⟩ := hf
    cases hs : groupText e.l10nRaw.toArray m.2 Gen.Pat.PropertiesEntityMixin_escape_g_single with
    | none => simp [hs] at hm
    | some t =>
      cases t with
      | nil => simp [hs] at hm
      | cons c cs =>
        simp only [hs] at hm
        by_cases hk : isKnownEscape (c :: cs) = true
        · simp [hk] at hm
        · simp only [hk, Bool.not_false, Bool.false_eq_true, not_false_eq_true, if_true, Option.some.injEq,
            Bool.not_eq_true] at hm
          subst hm; simp

end PropCk

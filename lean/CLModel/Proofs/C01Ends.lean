/-
C01 round 4 (complexity guard, part 1): the "list of successes" semantics of the backtracking
engine `Rx.m`.

`ends s r st` is the list of ALL states the engine hands to its continuation when it matches `r`
from `st`, in the order in which it tries them.  `m_eq_ends` proves that the engine is exactly
"first continuation success over that list", so the length of `ends` is the number of
backtracking alternatives and the size of the search tree is a function of these lists
(`steps`, part 2).
-/
import CLModel.Rx.Basic
namespace C01P
open Rx

/-- outcomes of the repeat loop, in engine order (`Rx.loop`) -/
def loopE (body : St → List St) (greedy : Bool) : Nat → Nat → Option Nat → St → List St
  | 0, _, _, _ => []
  | fuel + 1, mn, mx, st =>
    let more : List St :=
      if mx == some 0 then [] else
      (body st).flatMap (fun st' =>
        if st'.pos ≤ st.pos then [] else loopE body greedy fuel (mn - 1) (mx.map (· - 1)) st')
    if mn > 0 then more
    else if greedy then more ++ [st]
    else st :: more

/-- all outcomes of matching `r` from `st`, in the order the engine tries them -/
def ends (s : Array Nat) : Re → St → List St
  | .eps, st => [st]
  | .lit c, st => if s[st.pos]? == some c then [{ st with pos := st.pos + 1 }] else []
  | .notLit c, st =>
      match s[st.pos]? with
      | some d => if d != c then [{ st with pos := st.pos + 1 }] else []
      | none => []
  | .any dotall, st =>
      match s[st.pos]? with
      | some d => if dotall || d != 10 then [{ st with pos := st.pos + 1 }] else []
      | none => []
  | .cls neg items, st =>
      match s[st.pos]? with
      | some c => if (items.any (·.has c)) != neg then [{ st with pos := st.pos + 1 }] else []
      | none => []
  | .seq a b, st => (ends s a st).flatMap (fun st' => ends s b st')
  | .alt a b, st => ends s a st ++ ends s b st
  | .group i r, st =>
      (ends s r st).map (fun st' => { st' with caps := (i, st.pos, st'.pos) :: st'.caps })
  | .backref i, st =>
      match capOf st.caps i with
      | some (a, b) =>
          let n := b - a
          if (List.range n).all (fun j => s[a + j]? == s[st.pos + j]? && (st.pos + j < s.size)) then
            [{ st with pos := st.pos + n }] else []
      | none => []
  | .bol ml, st =>
      if st.pos == 0 || (ml && s[st.pos - 1]? == some 10) then [st] else []
  | .eol ml, st =>
      if st.pos == s.size || (ml && s[st.pos]? == some 10) ||
         (!ml && st.pos + 1 == s.size && s[st.pos]? == some 10) then [st] else []
  | .eos, st => if st.pos == s.size then [st] else []
  | .look true neg r, st =>
      match (ends s r st).head? with
      | some st' => if neg then [] else [{ st with caps := st'.caps }]
      | none => if neg then [st] else []
  | .look false neg r, st =>
      let ok := if st.pos == 0 then none else
        ((ends s r { st with pos := st.pos - 1 }).filter (fun st' => st'.pos == st.pos)).head?
      match ok with
      | some _ => if neg then [] else [st]
      | none => if neg then [st] else []
  | .rep mn mx greedy r, st =>
      loopE (fun st' => ends s r st') greedy (s.size + 2 - st.pos) mn mx st

theorem orElse_eq_or {α} (a b : Option α) : (a.orElse fun _ => b) = a.or b := by
  cases a <;> rfl

theorem findSome?_flatMap' {α β γ} (l : List α) (f : α → List β) (g : β → Option γ) :
    (l.flatMap f).findSome? g = l.findSome? (fun x => (f x).findSome? g) := by
  induction l with
  | nil => rfl
  | cons x xs ih =>
    simp only [List.flatMap_cons, List.findSome?_append, List.findSome?_cons, ih]
    cases (f x).findSome? g <;> rfl

theorem loop_eq_loopE (body : St → K → Option St) (bodyE : St → List St) (g : Bool)
    (hb : ∀ st k, body st k = (bodyE st).findSome? k) :
    ∀ fuel mn mx st k, loop body g fuel mn mx st k = (loopE bodyE g fuel mn mx st).findSome? k := by
  intro fuel
  induction fuel with
  | zero => intro mn mx st k; rfl
  | succ fuel ih =>
    intro mn mx st k
    simp only [loop, loopE]
    have hmore : (if mx == some 0 then none else
          body st (fun st' => if st'.pos ≤ st.pos then none else
            loop body g fuel (mn - 1) (mx.map (· - 1)) st' k)) =
        (if mx == some 0 then [] else
          (bodyE st).flatMap (fun st' =>
            if st'.pos ≤ st.pos then [] else loopE bodyE g fuel (mn - 1) (mx.map (· - 1)) st')).findSome? k := by
      split
      · rfl
      · rw [hb, findSome?_flatMap']
        congr 1
        funext st'
        split
        · rfl
        · exact ih _ _ _ _
    rw [hmore]
    split
    · rfl
    · split
      · have h1 : List.findSome? k [st] = k st := by
          simp only [List.findSome?_cons, List.findSome?_nil]; cases k st <;> rfl
        rw [List.findSome?_append, orElse_eq_or, h1]
      · rw [List.findSome?_cons, orElse_eq_or]
        cases k st <;> rfl

/-- the engine is "first success of the continuation over the list of outcomes" -/
theorem m_eq_ends (s : Array Nat) : ∀ (r : Re) (st : St) (k : K), m s r st k = (ends s r st).findSome? k := by
  intro r
  induction r with
  | eps => intro st k; simp [m, ends]
  | lit c =>
    intro st k
    simp only [m, ends]
    split <;> simp
  | notLit c =>
    intro st k
    simp only [m, ends]
    cases s[st.pos]? with
    | none => rfl
    | some d => by_cases h : (d != c) = true <;> simp [h]
  | any da =>
    intro st k
    simp only [m, ends]
    cases s[st.pos]? with
    | none => rfl
    | some d => by_cases h : (da || d != 10) = true <;> simp [h]
  | cls neg items =>
    intro st k
    simp only [m, ends]
    cases s[st.pos]? with
    | none => rfl
    | some d => by_cases h : ((items.any (·.has d)) != neg) = true <;> simp [h]
  | seq a b iha ihb =>
    intro st k
    simp only [m, ends]
    rw [iha, findSome?_flatMap']
    congr 1
    funext st'
    exact ihb st' k
  | alt a b iha ihb =>
    intro st k
    simp only [m, ends]
    rw [iha, ihb, List.findSome?_append, orElse_eq_or]
  | group i r ih =>
    intro st k
    simp only [m, ends]
    rw [ih, List.findSome?_map]
    rfl
  | backref i =>
    intro st k
    simp only [m, ends]
    cases capOf st.caps i with
    | none => rfl
    | some ab => simp only []; split <;> simp
  | bol ml => intro st k; simp only [m, ends]; split <;> simp
  | eol ml => intro st k; simp only [m, ends]; split <;> simp
  | eos => intro st k; simp only [m, ends]; split <;> simp
  | look ahead neg r ih =>
    intro st k
    cases ahead with
    | true =>
      simp only [m, ends]
      rw [ih]
      have : (ends s r st).findSome? some = (ends s r st).head? := by
        cases ends s r st <;> rfl
      rw [this]
      cases (ends s r st).head? with
      | none => simp only []; split <;> simp
      | some st' => simp only []; split <;> simp
    | false =>
      simp only [m, ends]
      have : ∀ (l : List St), l.findSome? (fun st' => if st'.pos == st.pos then some st' else none) =
          (l.filter (fun st' => st'.pos == st.pos)).head? := by
        intro l
        induction l with
        | nil => rfl
        | cons x xs ihl =>
          simp only [List.findSome?_cons, List.filter_cons]
          by_cases hx : (x.pos == st.pos) = true
          · simp [hx]
          · simp only [hx, Bool.false_eq_true, if_false]
            exact ihl
      have hok : (if st.pos == 0 then none else
            m s r { st with pos := st.pos - 1 } (fun st' => if st'.pos == st.pos then some st' else none)) =
          (if st.pos == 0 then none else
            ((ends s r { st with pos := st.pos - 1 }).filter (fun st' => st'.pos == st.pos)).head?) := by
        split
        · rfl
        · rw [ih, this]
      rw [hok]
      generalize (if st.pos == 0 then none else
            ((ends s r { st with pos := st.pos - 1 }).filter (fun st' => st'.pos == st.pos)).head?) = ok
      cases ok <;> cases neg <;> simp
  | rep mn mx g r ih =>
    intro st k
    simp only [m, ends]
    exact loop_eq_loopE (m s r) (fun st' => ends s r st') g (fun st k => ih st k) _ _ _ _ _

/-- `Pattern.match(s, pos)` is the first outcome -/
theorem matchAt_eq_head (s : Array Nat) (r : Re) (pos : Nat) :
    matchAt s r pos = (ends s r ⟨pos, []⟩).head? := by
  unfold matchAt
  rw [m_eq_ends]
  cases ends s r ⟨pos, []⟩ <;> rfl

end C01P

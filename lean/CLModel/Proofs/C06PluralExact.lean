/-
C06, plural strings (round 4):
 * `LexP v ns` — an independent inductive grammar of the `#n` variables of a text; the regex-based `pluralVars` of
   `check_plural` is EXACTLY it, for every text (`pluralVars_of_lexP`, `lexP_total`, `lexP_of_pluralVars`);
   the variables of `;`-joined forms are the concatenation of the variables of the forms (`lexP_join`);
 * the locale → plural rule lookup, generically over ANY table: `ruleOf tbl` (full tag first, then the language
   subtag), its laws, the well-formedness predicate `TableWf`, and what it implies for `get_plural`.
Core Lean only.
-/
import CLModel.Proofs.C06RPluralLex
import CLModel.Proofs.C06Plural
namespace C06P
open Rx PropCk
open C06R (At Tail IsDig NoDigAt valOf rePlural at_cons at_append tail_append tail_head)

abbrev Text := List Nat

/-! ### the grammar of `#n` variables -/

/-- the text starts with no digit (or is empty) -/
def NoDigHead (v : Text) : Prop := ∀ c, v.head? = some c → ¬ IsDig c

/-- `LexP v ns`: reading `v` from the left, the `#`+digits occurrences (longest digit run) have the values `ns` -/
inductive LexP : Text → List Nat → Prop
  | nil : LexP [] []
  | char {c : Nat} {v : Text} {ns : List Nat} : c ≠ 35 → LexP v ns → LexP (c :: v) ns
  | hash {v : Text} {ns : List Nat} : NoDigHead v → LexP v ns → LexP (35 :: v) ns
  | var {ds v : Text} {ns : List Nat} : ds ≠ [] → (∀ d ∈ ds, IsDig d) → NoDigHead v → LexP v ns →
      LexP (35 :: (ds ++ v)) (valOf ds 0 :: ns)

theorem lexP_len {v : Text} {ns : List Nat} (h : LexP v ns) : ns.length ≤ v.length := by
  induction h with
  | nil => simp
  | char _ _ ih => simp; omega
  | hash _ _ ih => simp; omega
  | var _ _ _ _ ih => simp; omega

theorem tail_cons {s : Array Nat} {p c : Nat} {v : Text} (h : Tail s p (c :: v)) :
    s[p]? = some c ∧ Tail s (p + 1) v := by
  obtain ⟨h1, h2⟩ := h
  obtain ⟨h3, h4⟩ := at_cons.mp h1
  refine ⟨h3, h4, ?_⟩
  simp only [List.length_cons] at h2
  omega

/-- `#` not followed by a digit: no match -/
theorem plural_nomatch_hash {s : Array Nat} {q : Nat} (h0 : s[q]? = some 35) (hnd : NoDigAt s (q + 1)) :
    matchAt s rePlural q = none := by
  unfold matchAt rePlural
  rw [C06R.m_seq, C06R.lit_ok h0, C06R.m_group]
  exact C06R.plus_fail hnd _ _

theorem lexP_walk {v : Text} {ns : List Nat} (hl : LexP v ns) :
    ∀ (s : Array Nat) (p fuel : Nat), Tail s p v → ns.length < fuel →
    mapOpt (fun m => match groupText s m.2 1 with
        | some t => intOf t
        | none => none) (finditerAux s rePlural fuel p false) = some ns := by
  induction hl with
  | nil =>
    intro s p fuel htl hf
    obtain ⟨f, rfl⟩ : ∃ f, fuel = f + 1 := ⟨fuel - 1, by omega⟩
    have hp : p = s.size := by have := htl.2; simpa using this
    subst hp
    rw [C06R.fi_end f (C06R.plural_nomatch (by simp))]
    rfl
  | @char c v ns hc _ ih =>
    intro s p fuel htl hf
    obtain ⟨f, rfl⟩ : ∃ f, fuel = f + 1 := ⟨fuel - 1, by omega⟩
    obtain ⟨h0, htl'⟩ := tail_cons htl
    rw [C06R.fi_miss f (getElem?_some_lt h0) (C06R.plural_nomatch (by rw [h0]; simpa using hc))]
    exact ih s (p + 1) (f + 1) htl' hf
  | @hash v ns hnd _ ih =>
    intro s p fuel htl hf
    obtain ⟨f, rfl⟩ : ∃ f, fuel = f + 1 := ⟨fuel - 1, by omega⟩
    obtain ⟨h0, htl'⟩ := tail_cons htl
    have hnd' : NoDigAt s (p + 1) := by
      intro c hc
      rw [tail_head htl'] at hc
      exact hnd c hc
    rw [C06R.fi_miss f (getElem?_some_lt h0) (plural_nomatch_hash h0 hnd')]
    exact ih s (p + 1) (f + 1) htl' hf
  | @var ds v ns hne hds hnd _ ih =>
    intro s p fuel htl hf
    obtain ⟨f, rfl⟩ : ∃ f, fuel = f + 1 := ⟨fuel - 1, by omega⟩
    have htl2 : Tail s p ((35 :: ds) ++ v) := htl
    obtain ⟨hat, htl'⟩ := tail_append htl2
    have hlen : p + (35 :: ds).length = p + 1 + ds.length := by simp; omega
    rw [hlen] at htl'
    have hstop : NoDigAt s (p + 1 + ds.length) := by
      intro c hc
      rw [tail_head htl'] at hc
      exact hnd c hc
    have hm := C06R.plural_match hat hne hds hstop
    have hple : p ≤ s.size := by have := htl.2; omega
    rw [C06R.fi_hit f hple hm]
    have hb : ((⟨p + 1 + ds.length, [(1, p + 1, p + 1 + ds.length)]⟩ : St).pos == p) = false := by
      simp; omega
    rw [hb]
    have hsl : slice s (p + 1, p + 1 + ds.length) = ds := C06R.slice_of_at (at_cons.mp hat).2
    have ih' := ih s (p + 1 + ds.length) f htl' (by simp only [List.length_cons] at hf; omega)
    rw [mapOpt, ih']
    simp only [groupText, St.group, capOf_cons, if_true, Option.map_some, hsl, C06R.intOf_val hne hds]

/-- **completeness**: the variables of the grammar are what both `re.finditer("#([0-9]+)", …)` of `check_plural` find -/
theorem pluralVars_of_lexP {v : Text} {ns : List Nat} (h : LexP v ns) : pluralVars rePlural v = some ns := by
  unfold pluralVars finditer
  have := lexP_len h
  exact lexP_walk h v.toArray 0 _ (C06R.tail_toArray v) (by simp; omega)

/-! ### totality (constructive: the longest digit run) -/

theorem digits_split (v : Text) : ∃ ds r, v = ds ++ r ∧ (∀ d ∈ ds, IsDig d) ∧ NoDigHead r := by
  induction v with
  | nil => exact ⟨[], [], rfl, by simp, by intro c hc; simp at hc⟩
  | cons c v ih =>
    by_cases hc : IsDig c
    · obtain ⟨ds, r, hv, hds, hr⟩ := ih
      refine ⟨c :: ds, r, by rw [hv]; rfl, ?_, hr⟩
      intro d hd
      rcases List.mem_cons.mp hd with rfl | hd
      · exact hc
      · exact hds d hd
    · refine ⟨[], c :: v, rfl, by simp, ?_⟩
      intro c' hc'
      simp only [List.head?_cons, Option.some.injEq] at hc'
      subst hc'
      exact hc

theorem lexP_total : ∀ (n : Nat) (v : Text), v.length ≤ n → ∃ ns, LexP v ns := by
  intro n
  induction n with
  | zero =>
    intro v hv
    have : v = [] := List.eq_nil_of_length_eq_zero (by omega)
    subst this
    exact ⟨[], LexP.nil⟩
  | succ n ih =>
    intro v hv
    cases v with
    | nil => exact ⟨[], LexP.nil⟩
    | cons c v' =>
      simp only [List.length_cons] at hv
      by_cases hc : c = 35
      · subst hc
        obtain ⟨ds, r, hv', hds, hr⟩ := digits_split v'
        by_cases hne : ds = []
        · subst hne
          obtain ⟨ns, hns⟩ := ih v' (by omega)
          exact ⟨ns, LexP.hash (by simpa [hv'] using hr) hns⟩
        · have hrl : r.length ≤ n := by
            have := congrArg List.length hv'
            simp only [List.length_append] at this
            omega
          obtain ⟨ns, hns⟩ := ih r hrl
          exact ⟨_, by rw [hv']; exact LexP.var hne hds hr hns⟩
      · obtain ⟨ns, hns⟩ := ih v' (by omega)
        exact ⟨ns, LexP.char hc hns⟩

/-- **soundness**: what the regex finds is the variable list of the grammar -/
theorem lexP_of_pluralVars {v : Text} {ns : List Nat} (h : pluralVars rePlural v = some ns) : LexP v ns := by
  obtain ⟨ns', h'⟩ := lexP_total v.length v (Nat.le_refl _)
  have := pluralVars_of_lexP h'
  rw [h] at this
  cases this
  exact h'

theorem lexP_unique {v : Text} {ns ns' : List Nat} (h : LexP v ns) (h' : LexP v ns') : ns = ns' := by
  have h1 := pluralVars_of_lexP h
  rw [pluralVars_of_lexP h'] at h1
  cases h1
  rfl

/-! ### variables per form: `;` separates -/

theorem noDigHead_append {v w : Text} (hv : NoDigHead v) (hw : NoDigHead w) : NoDigHead (v ++ w) := by
  cases v with
  | nil => simpa using hw
  | cons c v => intro c' hc'; exact hv c' (by simpa using hc')

/-- the variables of `a ; b` are those of `a` followed by those of `b` (a `;` ends every digit run) -/
theorem lexP_semicolon {a b : Text} {ns ms : List Nat} (ha : LexP a ns) (hb : LexP b ms) :
    LexP (a ++ 59 :: b) (ns ++ ms) := by
  have h59 : NoDigHead (59 :: b) := by
    intro c hc
    simp only [List.head?_cons, Option.some.injEq] at hc
    subst hc
    unfold IsDig; omega
  induction ha with
  | nil => exact LexP.char (by decide) hb
  | char hc _ ih => exact LexP.char hc ih
  | hash hnd _ ih => exact LexP.hash (noDigHead_append hnd h59) ih
  | @var ds v ns hne hds hnd _ ih =>
    have : 35 :: (ds ++ v) ++ 59 :: b = 35 :: (ds ++ (v ++ 59 :: b)) := by simp
    rw [this]
    exact LexP.var hne hds (noDigHead_append hnd h59) ih

/-- `";".join(forms)` -/
def joinForms : List Text → Text
  | [] => []
  | [f] => f
  | f :: g :: rest => f ++ 59 :: joinForms (g :: rest)

/-- **variables per form**: the variable list of a plural value is the concatenation of the variable lists of
    its `;`-separated forms -/
theorem lexP_join : ∀ (forms : List (Text × List Nat)), (∀ f ∈ forms, LexP f.1 f.2) →
    LexP (joinForms (forms.map (·.1))) (forms.flatMap (·.2)) := by
  intro forms
  induction forms with
  | nil => intro _; exact LexP.nil
  | cons f rest ih =>
    intro h
    have hf := h f (by simp)
    have hrest := ih (fun g hg => h g (by simp [hg]))
    cases rest with
    | nil => simpa [joinForms] using hf
    | cons g rest' =>
      simp only [List.map_cons, joinForms, List.flatMap_cons] at hrest ⊢
      exact lexP_semicolon hf hrest

/-! ### locale → plural rule, over any table -/

/-- the language subtag: `locale.split("-", 1)[0]` -/
def langOf (l : Text) : Text := l.takeWhile (· ≠ 45)

/-- `get_plural_rule` over a table `tbl` -/
def ruleOf (tbl : List (Text × Nat)) : Option Text → Option Nat
  | none => none
  | some l =>
    match tbl.lookup l with
    | some i => some i
    | none => tbl.lookup (langOf l)

/-- the key of the entry that decides: the full tag if it is a key, else the language subtag if that is a key -/
def sourceKey (tbl : List (Text × Nat)) (l : Text) : Option Text :=
  if (tbl.lookup l).isSome then some l
  else if (tbl.lookup (langOf l)).isSome then some (langOf l) else none

theorem getPluralRule_eq (locale : Option Text) : getPluralRule locale = ruleOf Gen.Tables.categoriesByLocale locale := by
  cases locale <;> rfl

theorem langOf_no_hyphen (l : Text) : 45 ∉ langOf l := by
  unfold langOf
  induction l with
  | nil => simp
  | cons c l ih =>
    by_cases hc : c = 45
    · simp [List.takeWhile_cons, hc]
    · simp only [List.takeWhile_cons, ne_eq, hc, not_false_eq_true, decide_true, if_true, List.mem_cons, not_or]
      exact ⟨fun e => hc e.symm, ih⟩

theorem langOf_self {l : Text} (h : 45 ∉ l) : langOf l = l := by
  unfold langOf
  induction l with
  | nil => rfl
  | cons c l ih =>
    have hc : c ≠ 45 := by intro e; exact h (by simp [e])
    simp only [List.takeWhile_cons, ne_eq, hc, not_false_eq_true, decide_true, if_true]
    rw [ih (fun hm => h (by simp [hm]))]

theorem langOf_region (lang rest : Text) (h : 45 ∉ lang) : langOf (lang ++ 45 :: rest) = lang := by
  unfold langOf
  induction lang with
  | nil => simp
  | cons c lang ih =>
    have hc : c ≠ 45 := by intro e; exact h (by simp [e])
    simp only [List.cons_append, List.takeWhile_cons, ne_eq, hc, not_false_eq_true, decide_true, if_true]
    rw [ih (fun hm => h (by simp [hm]))]

/-- law 1: a tag that is a key of the table gets the rule of its own entry -/
theorem rule_full (tbl : List (Text × Nat)) {l : Text} {i : Nat} (h : tbl.lookup l = some i) :
    ruleOf tbl (some l) = some i := by simp [ruleOf, h]

/-- law 2: any other tag gets the rule of its language subtag (or none) -/
theorem rule_lang (tbl : List (Text × Nat)) {l : Text} (h : tbl.lookup l = none) :
    ruleOf tbl (some l) = tbl.lookup (langOf l) := by simp [ruleOf, h]

/-- a tag without `-` is looked up once -/
theorem rule_plain (tbl : List (Text × Nat)) {l : Text} (h : 45 ∉ l) : ruleOf tbl (some l) = tbl.lookup l := by
  cases hl : tbl.lookup l with
  | some i => exact rule_full tbl hl
  | none => rw [rule_lang tbl hl, langOf_self h, hl]

/-- law 3 (region subtags are irrelevant): `lang-REST` that is not itself a key has the rule of `lang` -/
theorem rule_region (tbl : List (Text × Nat)) (lang rest : Text) (h : 45 ∉ lang)
    (hk : tbl.lookup (lang ++ 45 :: rest) = none) :
    ruleOf tbl (some (lang ++ 45 :: rest)) = ruleOf tbl (some lang) := by
  rw [rule_lang tbl hk, langOf_region lang rest h, rule_plain tbl h]

/-- law 4: a key that contains `-` (`zh-CN`, `zh-TW`) decides for the identical tag only -/
theorem hyphen_key_exact (tbl : List (Text × Nat)) {l k : Text} (h : sourceKey tbl l = some k) (hk : 45 ∈ k) :
    l = k := by
  unfold sourceKey at h
  split at h
  · cases h; rfl
  · split at h
    · cases h; exact absurd hk (langOf_no_hyphen l)
    · cases h

theorem rule_of_source (tbl : List (Text × Nat)) (l : Text) :
    ruleOf tbl (some l) = (sourceKey tbl l).bind (fun k => tbl.lookup k) := by
  unfold ruleOf sourceKey
  cases h1 : tbl.lookup l with
  | some i => simp [h1]
  | none =>
    cases h2 : tbl.lookup (langOf l) with
    | some i => simp [h1, h2]
    | none => simp [h1, h2]

theorem lookup_mem : ∀ (tbl : List (Text × Nat)) (k : Text) (v : Nat),
    tbl.lookup k = some v → (k, v) ∈ tbl := by
  intro tbl
  induction tbl with
  | nil => intro k v h; simp at h
  | cons x xs ih =>
    intro k v h
    obtain ⟨xk, xv⟩ := x
    simp only [List.lookup_cons] at h
    split at h
    · rename_i heq
      simp only [beq_iff_eq] at heq
      cases h; subst heq; simp
    · exact List.mem_cons_of_mem _ (ih k v h)

theorem lookup_none_iff : ∀ (tbl : List (Text × Nat)) (k : Text),
    tbl.lookup k = none ↔ ∀ v, (k, v) ∉ tbl := by
  intro tbl
  induction tbl with
  | nil => intro k; simp
  | cons x xs ih =>
    intro k
    obtain ⟨xk, xv⟩ := x
    simp only [List.lookup_cons]
    by_cases heq : k = xk
    · subst heq
      simp only [beq_self_eq_true]
      constructor
      · intro h; cases h
      · intro h; exact absurd (List.mem_cons_self) (h xv)
    · have : (k == xk) = false := by simpa using heq
      simp only [this, ih k]
      constructor
      · intro h v hv
        rcases List.mem_cons.mp hv with hv | hv
        · cases hv; exact heq rfl
        · exact h v hv
      · intro h v hv
        exact h v (List.mem_cons_of_mem _ hv)

theorem mem_lookup : ∀ (tbl : List (Text × Nat)), (tbl.map (·.1)).Nodup →
    ∀ (k : Text) (v : Nat), (k, v) ∈ tbl → tbl.lookup k = some v := by
  intro tbl
  induction tbl with
  | nil => intro _ k v h; simp at h
  | cons x xs ih =>
    intro hnd k v h
    obtain ⟨xk, xv⟩ := x
    simp only [List.map_cons, List.nodup_cons] at hnd
    simp only [List.lookup_cons]
    rcases List.mem_cons.mp h with h' | h'
    · cases h'; simp
    · have hne : k ≠ xk := by
        intro e
        exact hnd.1 (List.mem_map.mpr ⟨(k, v), h', e⟩)
      have : (k == xk) = false := by simpa using hne
      simp only [this]
      exact ih hnd.2 k v h'

/-- **the prefix lookup law** (tables with distinct keys): the rule of a tag is `i` iff the tag is a key with value
    `i`, or it is no key and its language subtag is a key with value `i` -/
theorem rule_iff (tbl : List (Text × Nat)) (hnd : (tbl.map (·.1)).Nodup) (l : Text) (i : Nat) :
    ruleOf tbl (some l) = some i ↔ (l, i) ∈ tbl ∨ ((∀ j, (l, j) ∉ tbl) ∧ (langOf l, i) ∈ tbl) := by
  constructor
  · intro h
    cases hl : tbl.lookup l with
    | some j =>
      rw [rule_full tbl hl] at h
      cases h
      exact Or.inl (lookup_mem tbl l _ hl)
    | none =>
      rw [rule_lang tbl hl] at h
      exact Or.inr ⟨(lookup_none_iff tbl l).mp hl, lookup_mem tbl _ i h⟩
  · rintro (h | ⟨h1, h2⟩)
    · exact rule_full tbl (mem_lookup tbl hnd l i h)
    · rw [rule_lang tbl ((lookup_none_iff tbl l).mpr h1)]
      exact mem_lookup tbl hnd _ i h2

/-! ### well-formed tables and `get_plural` -/

/-- `get_plural` over a locale table and a category table; outer `none` = IndexError -/
def pluralOf (tbl : List (Text × Nat)) (idx : List (List Text)) (locale : Option Text) : Option (Option (List Text)) :=
  match ruleOf tbl locale with
  | none => some none
  | some i =>
    match idx[i]? with
    | some cats => some (some cats)
    | none => none

theorem getPlural_eq (locale : Option Text) :
    getPlural locale = pluralOf Gen.Tables.categoriesByLocale Gen.Tables.categoriesByIndex locale := by
  cases locale <;> rfl

/-- well-formedness of a pair of plural tables: distinct keys, every rule index inside the category table, every
    rule has at least one category -/
def TableWf (tbl : List (Text × Nat)) (idx : List (List Text)) : Prop :=
  (tbl.map (·.1)).Nodup ∧ (∀ e ∈ tbl, e.2 < idx.length) ∧ (∀ cats ∈ idx, cats ≠ [])

instance (tbl : List (Text × Nat)) (idx : List (List Text)) : Decidable (TableWf tbl idx) := by
  unfold TableWf; infer_instance

theorem rule_in_range {tbl : List (Text × Nat)} {idx : List (List Text)} (hwf : TableWf tbl idx)
    {locale : Option Text} {i : Nat} (h : ruleOf tbl locale = some i) : i < idx.length := by
  cases locale with
  | none => cases h
  | some l =>
    cases hl : tbl.lookup l with
    | some j =>
      rw [rule_full tbl hl] at h
      cases h
      exact hwf.2.1 _ (lookup_mem tbl l _ hl)
    | none =>
      rw [rule_lang tbl hl] at h
      exact hwf.2.1 _ (lookup_mem tbl _ i h)

/-- number of plural forms of a locale: `len(get_plural(locale))`, `none` when there is no rule -/
def formCountOf (tbl : List (Text × Nat)) (idx : List (List Text)) (locale : Option Text) : Option Nat :=
  (ruleOf tbl locale).bind (fun i => (idx[i]?).map List.length)

/-- **over a well-formed table `get_plural` never raises**, is `None` exactly for tags without a rule, and a
    known rule has `formCountOf ≥ 1` forms -/
theorem pluralOf_wf {tbl : List (Text × Nat)} {idx : List (List Text)} (hwf : TableWf tbl idx)
    (locale : Option Text) :
    ∃ known, pluralOf tbl idx locale = some known ∧ known.map List.length = formCountOf tbl idx locale ∧
      (known = none ↔ ruleOf tbl locale = none) ∧ (∀ cats, known = some cats → cats ≠ []) := by
  unfold pluralOf formCountOf
  cases hr : ruleOf tbl locale with
  | none => exact ⟨none, rfl, rfl, by simp, by intro c h; cases h⟩
  | some i =>
    have hi := rule_in_range hwf hr
    refine ⟨some idx[i], by simp [List.getElem?_eq_getElem hi], by simp [List.getElem?_eq_getElem hi], by simp, ?_⟩
    intro cats h
    cases h
    exact hwf.2.2 _ (List.getElem_mem hi)

/-! ### the forms verdict as a function of two numbers -/

/-- verdict on the number of forms, as a function of the locale's form count and the number of `;` -/
def formsVerdictN (n : Option Nat) (semicolons : Nat) : List Finding :=
  match n with
  | some (k + 1) =>
    if k + 1 ≠ semicolons + 1 then
      [⟨.warning, .val 0, sExpecting ++ decimal (k + 1) ++ sPluralsFound ++ decimal (semicolons + 1), .plural⟩]
    else []
  | _ => []

theorem formsVerdict_eq (known : Option (List Text)) (semicolons : Nat) :
    formsVerdict known semicolons = formsVerdictN (known.map List.length) semicolons := by
  cases known with
  | none => rfl
  | some l =>
    cases l with
    | nil => rfl
    | cons c cs => simp [formsVerdict, formsVerdictN]

end C06P

/- C02 (round 4): an ini comment never starts with `[` — the extra hypothesis of `license_standalone_ini` is a theorem. -/
import CLModel.Proofs.C02XRx
namespace C02P
open Rx P Gen.Pat

/-- `IniParser.reComment` can only match where the text has a `;` or a `#` -/
theorem ini_comment_none_gen (s : Array Nat) (off : Nat) (h : ∀ c, s[off]? = some c → c ≠ 59 ∧ c ≠ 35) :
    matchAt s IniParser_reComment off = none := by
  simp only [matchAt, IniParser_reComment, m_seq, m_rep]
  have hcls : ∀ k', m s (Re.cls false [ClsItem.ch 59, ClsItem.ch 35]) ⟨off, []⟩ k' = none := by
    intro k'
    rw [m_cls_apply]
    cases hc : s[off]? with
    | none => rfl
    | some c =>
      have := h c hc
      simp [inC, ClsItem.has, this.1, this.2]
  have hb : ∀ K2 : K, K2 ⟨off, []⟩ = none → m s (Re.bol true) ⟨off, []⟩ K2 = none := by
    intro K2 h2
    rw [m_bol]
    split
    · exact h2
    · rfl
  cases hf : s.size + 2 - off with
  | zero => rw [loop]
  | succ f =>
    rw [loop_body_fail]
    · exact hb _ (hcls _)
    · intro k'
      rw [m_seq]
      apply hb
      rw [m_seq]
      exact hcls _

/-- where an ini comment matches, the text starts with `;` or `#` — in particular not with `[` -/
theorem ini_comment_head (s : Array Nat) (off : Nat) (st : St) (hm : matchAt s IniParser_reComment off = some st) :
    s[off]? = some 59 ∨ s[off]? = some 35 := by
  cases hc : s[off]? with
  | none =>
    have := ini_comment_none_gen s off (fun c h => by rw [hc] at h; cases h)
    rw [this] at hm; cases hm
  | some c =>
    by_cases h1 : c = 59
    · left; rw [h1]
    · by_cases h2 : c = 35
      · right; rw [h2]
      · have := ini_comment_none_gen s off (fun c' h => by rw [hc] at h; cases h; exact ⟨h1, h2⟩)
        rw [this] at hm; cases hm

theorem ini_comment_not_section (s : Array Nat) (off : Nat) (st : St)
    (hm : matchAt s IniParser_reComment off = some st) : s[off]? ≠ some 91 := by
  rcases ini_comment_head s off st hm with h | h <;> rw [h] <;> decide

end C02P

/- C02, ini: a single printed record is recovered exactly. -/
import CLModel.Proofs.C02Roundtrip
namespace Rx
theorem m_bol (s ml st k) : m s (.bol ml) st k =
    if st.pos == 0 || (ml && s[st.pos - 1]? == some 10) then k st else none := by rw [m]

theorem runLen_exact (P : Nat → Bool) : ∀ (n : Nat) (l : List Nat),
    (∀ j, j < n → ∃ c, l[j]? = some c ∧ P c = true) →
    (l[n]? = none ∨ ∃ c, l[n]? = some c ∧ P c = false) → runLen P none l = n := by
  intro n
  induction n with
  | zero =>
    intro l _ h
    cases l with
    | nil => simp [runLen]
    | cons c t =>
      rcases h with h | ⟨c', hc', hp⟩
      · simp at h
      · simp at hc'; subst hc'
        simp [runLen, hp]
  | succ n ih =>
    intro l h hend
    cases l with
    | nil => obtain ⟨c, hc, _⟩ := h 0 (by omega); simp at hc
    | cons c t =>
      obtain ⟨c', hc', hp⟩ := h 0 (by omega)
      simp at hc'; subst hc'
      simp only [runLen, show ((none : Option Nat) == some 0) = false from rfl, Bool.false_eq_true, if_false, hp, if_true,
        Option.map_none]
      rw [ih t (fun j hj => by simpa using h (j + 1) (by omega)) (by simpa using hend)]
      omega
end Rx

namespace P
open Rx Gen.Pat

/-- at `off` the text reads key `=` value and then a newline or the end of the text -/
structure IniRecAt (s : Array Nat) (off klen vlen : Nat) : Prop where
  klen_pos : 0 < klen
  first : ∃ c, s[off]? = some c ∧ c ≠ 91 ∧ c ≠ 59 ∧ c ≠ 35 ∧ c ≠ 32 ∧ c ≠ 9 ∧ c ≠ 13 ∧ c ≠ 10
  key : ∀ j, j < klen → ∃ c, s[off + j]? = some c ∧ c ≠ 10 ∧ c ≠ 61
  eq : s[off + klen]? = some 61
  val : ∀ j, j < vlen → ∃ c, s[off + klen + 1 + j]? = some c ∧ c ≠ 10
  stop : s[off + klen + 1 + vlen]? = none ∨ s[off + klen + 1 + vlen]? = some 10

def iniEntity (off klen vlen : Nat) : Entry :=
  { kind := .entity, full := off, s := off, e := off + klen + 1 + vlen, ks := off, ke := (off + klen : Nat),
    vs := (off + klen + 1 : Nat), ve := (off + klen + 1 + vlen : Nat), pc := none }

theorem ini_comment_none (s : Array Nat) (off c : Nat) (h0 : s[off]? = some c) (h1 : c ≠ 59) (h2 : c ≠ 35) :
    matchAt s IniParser_reComment off = none := by
  have hlt := getElem?_some_lt h0
  simp only [matchAt, IniParser_reComment, m_seq, m_rep]
  obtain ⟨f, hf⟩ : ∃ f, s.size + 2 - off = f + 1 := ⟨s.size + 1 - off, by omega⟩
  simp only [hf]
  have hcls : ∀ k', m s (Re.cls false [ClsItem.ch 59, ClsItem.ch 35]) ⟨off, []⟩ k' = none := by
    intro k'
    rw [m_cls_apply]
    simp [h0, inC, ClsItem.has, h1, h2]
  have hb : ∀ K2 : K, K2 ⟨off, []⟩ = none → m s (Re.bol true) ⟨off, []⟩ K2 = none := by
    intro K2 h2
    rw [m_bol]
    split
    · exact h2
    · rfl
  rw [loop_body_fail]
  · exact hb _ (hcls _)
  · intro k'
    rw [m_seq]
    apply hb
    rw [m_seq]
    exact hcls _

theorem ini_key_match (s : Array Nat) (off klen vlen : Nat) (h : IniRecAt s off klen vlen) :
    matchAt s IniParser_reKey off =
      some ⟨off + klen + 1 + vlen, [(2, off + klen + 1, off + klen + 1 + vlen), (1, off, off + klen)]⟩ := by
  have hkp := h.klen_pos
  obtain ⟨c0, hc0, hc0a, hc0b⟩ := h.key 0 hkp
  simp only [Nat.add_zero] at hc0
  have hsz : off + klen < s.size := getElem?_some_lt h.eq
  simp only [matchAt, IniParser_reKey, m_seq, m_group, m_rep, m_any_charStep]
  -- the mandatory first iteration of `.+?`
  obtain ⟨f, hf⟩ : ∃ f, s.size + 2 - off = f + 1 := ⟨s.size + 1 - off, by omega⟩
  rw [hf, loop]
  have hP0 : (false || c0 != 10) = true := by simp [hc0a]
  simp only [charStep, hc0, hP0, if_true, show ¬ (off + 1 ≤ off) by omega, if_false, show (1 : Nat) > 0 by omega,
    show ((none : Option Nat) == some 0) = false from rfl, Bool.false_eq_true, Option.map_none]
  -- the lazy rest
  have hfuel : f = (s.size - off - klen + 1 + 1) + (klen - 1) := by omega
  rw [show (1 : Nat) - 1 = 0 from rfl, hfuel]
  have := loop_lazy_skip_step s (fun d => false || d != 10) [] (fun st' =>
      m s (Re.lit 61) { pos := st'.pos, caps := (1, off, st'.pos) :: st'.caps } fun st' =>
        loop (charStep s fun d => false || d != 10) true (s.size + 2 - st'.pos) 0 none st' fun st'_1 =>
          some { pos := st'_1.pos, caps := (2, st'.pos, st'_1.pos) :: st'_1.caps }) (klen - 1) (s.size - off - klen + 1 + 1) (off + 1)
  rw [this]
  · rw [show off + 1 + (klen - 1) = off + klen by omega]
    apply loop_lazy_stop
    rw [m_lit]
    simp only [h.eq, beq_self_eq_true, if_true]
    have hrun : runLen (fun d => false || d != 10) none (s.toList.drop (off + klen + 1)) = vlen := by
      apply runLen_exact
      · intro j hj
        obtain ⟨c, hc, hne⟩ := h.val j hj
        refine ⟨c, ?_, by simp [hne]⟩
        rw [← get_of_drop s (off + klen + 1) j _ rfl]; exact hc
      · rw [← get_of_drop s (off + klen + 1) vlen _ rfl]
        rcases h.stop with hs | hs
        · left; exact hs
        · right; exact ⟨10, hs, by decide⟩
    have hle : vlen ≤ s.size - (off + klen + 1) := by
      have := runLen_le (fun d => false || d != 10) (s.toList.drop (off + klen + 1)) none
      rw [hrun] at this; simpa using this
    rw [loop_greedy_total_step s _ _ _ (by intro st; simp) _ _ _ _ (by rw [hrun]; omega), hrun]
    simp
  · intro j hj
    obtain ⟨c, hc, hne, hne2⟩ := h.key (j + 1) (by omega)
    rw [show off + (j + 1) = off + 1 + j by omega] at hc
    refine ⟨⟨c, hc, by simp [hne]⟩, ?_⟩
    rw [m_lit]
    simp [hc, hne2]

theorem ini_entity_at (s : Array Nat) (off klen vlen : Nat) (h : IniRecAt s off klen vlen) :
    iniGetNext s off = iniEntity off klen vlen := by
  obtain ⟨c0, hc0, a1, a2, a3, a4, a5, a6, a7⟩ := h.first
  have hsec : matchAt s IniParser_reSection off = none := by
    simp only [matchAt, IniParser_reSection, m_seq, m_lit]
    simp [hc0, a1]
  have hcm := ini_comment_none s off c0 hc0 a2 a3
  have hws := ws_none s off c0 hc0 a4 a5 a6 a7
  have hkm := ini_key_match s off klen vlen h
  unfold iniGetNext
  simp only [hsec]
  unfold getNext
  simp only [iniCfg, hcm, hws, hkm]
  simp [iniEntity, spanI, St.group, capOf, IniParser_reKey_g_key, IniParser_reKey_g_val]

/-- an entry's pre-comment starts at the offset the entry was parsed at -/
theorem pc_start (s : Array Nat) (off a b : Nat)
    (h : (propsGetNext s off).pc = some (a, b)) : a = off := by
  unfold propsGetNext at h
  cases hcm : matchAt s PropertiesParser_reComment off with
  | none =>
    simp only [hcm] at h
    cases hws : matchAt s Parser_reWhitespace off with
    | none =>
      simp only [hws] at h
      cases hkm : matchAt s PropertiesParser_reKey off with
      | none => simp [hkm, getJunk] at h
      | some km => simp [hkm] at h
    | some w => simp [hws] at h
  | some st =>
    simp only [hcm] at h
    by_cases hl : (off == 0 && isInfix licenseWord (commentVal (.offset Gen.Tables.offsetCommentDefault) (slice s off st.pos))) = true
    · simp [hl] at h
    · simp only [hl] at h
      cases hws : matchAt s Parser_reWhitespace st.pos with
      | none =>
        simp only [hws] at h
        cases hkm : matchAt s PropertiesParser_reKey st.pos with
        | none => simp [hkm] at h
        | some km => simp [hkm] at h; exact h.1.symm
      | some w =>
        simp only [hws] at h
        by_cases hc : countNl s st.pos w.pos > 1
        · simp [hc] at h
        · simp only [hc] at h
          cases hkm : matchAt s PropertiesParser_reKey w.pos with
          | none => simp [hkm] at h
          | some km => simp [hkm] at h; exact h.1.symm

end P

/- C13M helper lemmas: the computed matcher relation `PFM.menv ms` of Paths/ProjectFilesM.lean satisfies the `Matcher`
   contracts that the C13 theorems assume of an abstract `MEnv` (`PF.PrefixOK`, `PF.SubMatchesOn`). -/
import CLModel.Paths.ProjectFilesM
import CLModel.Proofs.C13MEnc
import CLModel.Proofs.C13MMatcher
import CLModel.Proofs.C13MOn
import CLModel.Proofs.C12PrefixFull
import CLModel.Proofs.C12RSep
import CLModel.Proofs.C11RNest
namespace PFM
open PF PM

/-- the matcher table was built from configuration texts (`Matcher(pattern, env, root)`, `with_env`) and every matcher
    is in the supported class (`usable`): what `newM` checks -/
def Built (specs : List MSpec) (ms : List Matcher) : Prop := buildAll specs = .ok ms ∧ ms.all usable = true

/-- every variable of the pattern is bound: `pattern.expand(env, raise_missing=True)` returns -/
def FullyBound (a : Matcher) : Prop :=
  ∃ t, expandPat (expandVal (fuelFor a.env)) a.pattern a.env true = .ok t

/-- the same, decidable -/
def fullyBound (a : Matcher) : Bool :=
  match expandPat (expandVal (fuelFor a.env)) a.pattern a.env true with
  | .ok _ => true
  | .error _ => false

theorem fullyBound_spec {a : Matcher} (h : fullyBound a = true) : FullyBound a := by
  unfold fullyBound at h
  split at h
  · rename_i t ht; exact ⟨t, ht⟩
  · cases h

/-- the prefix of matcher `m` contains a `/` (`ProjectConfig` roots every pattern) -/
def Rooted (ms : List Matcher) (m : MId) : Prop := 47 ∈ (menv ms).pfx m

/-- if the pattern of matcher `m` is wildcard-free then all its variables are bound -/
def LiteralBound (ms : List Matcher) (m : MId) : Prop :=
  ∀ a, ms[m]? = some a → a.pattern.prefixLen = a.pattern.nodes.length → FullyBound a

/-- The pattern class for `sub`, per rule and tree: every reference FILE `q` that the rule's reference matcher `a`
    matches is the pattern of `a` filled with wildcard values `vs` such that both `a` and the rule's l10n matcher `b`
    are in the class of `C11.sub_roundtrip_star_partial` for these values (`C11R.Fillable`: top-level literals, `*`,
    `**/`, final `**`, first occurrences of fully bound variables; well-separated filling; …), `b`'s environment is
    `C11R.Expandable`, and every wildcard of `b` is a wildcard of `a`. -/
def SubClassOn (ms : List Matcher) (fs : FS) (r : Rule) : Prop :=
  ∀ rm a q d, r.reference = some rm → ms[rm]? = some a → q ∈ fs.files → a.match q = .ok (some d) →
    ∃ b vs namesa namesb rta rtb, ms[r.l10n]? = some b ∧
      C11R.Fillable vs a namesa rta ∧ C11R.Fillable vs b namesb rtb ∧ C11R.Expandable b ∧
      (∀ k, k ∈ b.pattern.nodes.filterMap C11R.wildNum → k ∈ a.pattern.nodes.filterMap C11R.wildNum) ∧
      q = rta ++ C11R.fillN vs a.env a.pattern.nodes

/-! ### shape of the built matchers -/

theorem build_shape {s : MSpec} {m : Matcher} (h : s.build = .ok m) : EnvOK' m.env ∧ RepOK m.pattern.nodes := by
  unfold MSpec.build at h
  split at h
  · cases h
  · rename_i m0 hm0
    split at h
    · simp only [Except.ok.injEq] at h
      subst h
      exact mkMatcher_shape hm0
    · exact withEnv_shape (mkMatcher_shape hm0) h

theorem buildAll_shape : ∀ {specs : List MSpec} {ms : List Matcher}, buildAll specs = .ok ms →
    ∀ a ∈ ms, EnvOK' a.env ∧ RepOK a.pattern.nodes
  | [], ms, h, a, ha => by
    simp only [buildAll, Except.ok.injEq] at h
    subst h; cases ha
  | s :: rest, ms, h, a, ha => by
    unfold buildAll at h
    split at h
    · cases h
    · rename_i m hm
      split at h
      · cases h
      · rename_i ms' hms'
        simp only [Except.ok.injEq] at h
        subst h
        simp only [List.mem_cons] at ha
        rcases ha with rfl | ha
        · exact build_shape hm
        · exact buildAll_shape hms' a ha

theorem Built.shape {specs : List MSpec} {ms : List Matcher} (h : Built specs ms) {m : MId} {a : Matcher}
    (ha : ms[m]? = some a) : EnvOK' a.env ∧ RepOK a.pattern.nodes :=
  buildAll_shape h.1 a (List.mem_of_getElem? ha)

theorem Built.usable {specs : List MSpec} {ms : List Matcher} (h : Built specs ms) {m : MId} {a : Matcher}
    (ha : ms[m]? = some a) : usable a = true :=
  List.all_eq_true.mp h.2 a (List.mem_of_getElem? ha)

/-! ### the fields of `menv ms` -/

theorem prep_get {ms : List Matcher} {m : MId} : (ms.map prep)[m]? = (ms[m]?).map prep := by simp

theorem pfx_eq {ms : List Matcher} {m : MId} {a : Matcher} {pre : Text} (ha : ms[m]? = some a)
    (hp : a.prefix = .ok pre) : (menv ms).pfx m = pre := by
  simp only [menv, menvP, pfxOf, prep_get, ha, Option.map_some, prep, hp]

theorem literal_eq {ms : List Matcher} {m : MId} {a : Matcher} (ha : ms[m]? = some a) :
    (menv ms).literal m = (a.pattern.prefixLen == a.pattern.nodes.length) := by
  simp only [menv, menvP, prep_get, ha, Option.map_some, prep]

theorem mtch_some {ms : List Matcher} {m : MId} {p : Path} {g : GId} (h : (menv ms).mtch m p = some g) :
    ∃ a d, ms[m]? = some a ∧ a.match p = .ok (some d) ∧ g = encode (m :: p) := by
  simp only [menv, menvP, prep_get] at h
  cases ha : ms[m]? with
  | none => simp [ha] at h
  | some a =>
    simp only [ha, Option.map_some, prep_match] at h
    cases hm : a.match p with
    | error e => simp [hm] at h
    | ok od =>
      cases od with
      | none => simp [hm] at h
      | some d =>
        simp only [hm, Option.some.injEq] at h
        exact ⟨a, d, rfl, hm, h.symm⟩

theorem mtch_of_match {ms : List Matcher} {m : MId} {a : Matcher} {p : Path} {d : GroupDict} (ha : ms[m]? = some a)
    (hm : a.match p = .ok (some d)) : (menv ms).mtch m p = some (encode (m :: p)) := by
  simp only [menv, menvP, prep_get, ha, Option.map_some, prep_match, hm]

theorem mtch_none_of_match {ms : List Matcher} {m : MId} {a : Matcher} {p : Path} (ha : ms[m]? = some a)
    (hm : a.match p = .ok none) : (menv ms).mtch m p = none := by
  simp only [menv, menvP, prep_get, ha, Option.map_some, prep_match, hm]

/-- `expand o g` for the id of the call `ms[m].match(p)` is `ms[m].sub(ms[o], p)` -/
theorem expand_eq {ms : List Matcher} {m o : MId} {a b : Matcher} {p t : Path} (ha : ms[m]? = some a)
    (hb : ms[o]? = some b) (hs : a.sub b p = .ok (some t)) : (menv ms).expand o (encode (m :: p)) = t := by
  simp only [menv, menvP, decode_encode, prep_get, ha, hb, Option.map_some, prep_sub, hs]

/-! ### the contracts -/

/-- contract (a) of `PrefixOK` -/
theorem prefix_holds {specs : List MSpec} {ms : List Matcher} (hb : Built specs ms) (m : MId) :
    ∀ p g, (menv ms).mtch m p = some g → (menv ms).pfx m <+: p := by
  intro p g h
  obtain ⟨a, d, ha, hm, _⟩ := mtch_some h
  obtain ⟨pre, hp⟩ := usable_prefix_ok (hb.usable ha)
  rw [pfx_eq ha hp]
  exact prefix_of_match (hb.shape ha).1 (hb.shape ha).2 hm hp

/-- contract (c) of `PrefixOK` -/
theorem literal_holds {specs : List MSpec} {ms : List Matcher} (hb : Built specs ms) {m : MId}
    (hfull : LiteralBound ms m) :
    (menv ms).literal m = true → ∀ p g, (menv ms).mtch m p = some g → p = (menv ms).pfx m := by
  intro hlit p g h
  obtain ⟨a, d, ha, hm, _⟩ := mtch_some h
  rw [literal_eq ha] at hlit
  have hlen : a.pattern.prefixLen = a.pattern.nodes.length := by simpa using hlit
  obtain ⟨t, ht⟩ := hfull a ha hlen
  rw [pfx_eq ha (bound_literal_prefix (by omega) ht)]
  exact bound_matches_only_expansion (hb.shape ha).1 (hb.shape ha).2 ht hm

theorem prefixOK_holds {specs : List MSpec} {ms : List Matcher} (hb : Built specs ms) {m : MId}
    (hroot : Rooted ms m) (hfull : LiteralBound ms m) : PrefixOK (menv ms) m :=
  ⟨prefix_holds hb m, hroot, literal_holds hb hfull⟩

/-- the `sub` round trip for a pair of the class, on a filled path -/
theorem sub_holds {ms : List Matcher} {l r : MId} {a b : Matcher} (hr : ms[r]? = some a) (hl : ms[l]? = some b)
    {vs : Nat → Text} {namesa namesb : List Text} {rta rtb : Text}
    (ha : C11R.Fillable vs a namesa rta) (hb : C11R.Fillable vs b namesb rtb) (heb : C11R.Expandable b)
    (hsame : ∀ k, k ∈ b.pattern.nodes.filterMap C11R.wildNum → k ∈ a.pattern.nodes.filterMap C11R.wildNum) :
    ∃ g, (menv ms).mtch r (rta ++ C11R.fillN vs a.env a.pattern.nodes) = some g ∧
      (menv ms).expand l g = rtb ++ C11R.fillN vs b.env b.pattern.nodes ∧
      ((menv ms).mtch l ((menv ms).expand l g)).isSome = true := by
  obtain ⟨rea, hrea⟩ := ha.compiles
  obtain ⟨reb, hreb⟩ := hb.compiles
  obtain ⟨ga, hma, _⟩ := C11R.match_fillN ha.env ha.cls hrea ha.noAndroidGroup ha.root ha.sep
  obtain ⟨gb, hmb, _⟩ := C11R.match_fillN hb.env hb.cls hreb hb.noAndroidGroup hb.root hb.sep
  have hsub := C11R.sub_fillN ha.env ha.cls hrea ha.noAndroidGroup ha.root ha.sep hb.cls (hb.goodEnv heb) hb.root
    heb.keys heb.noWildKey hsame
  refine ⟨_, mtch_of_match hr hma, expand_eq hr hl hsub, ?_⟩
  rw [expand_eq hr hl hsub, mtch_of_match hl hmb]
  rfl

theorem subMatchesOn_of_class {ms : List Matcher} {fs : FS} {r : Rule} (h : SubClassOn ms fs r) :
    SubMatchesOn (menv ms) fs r := by
  intro rm q g hrr hq hm
  obtain ⟨a, d, ha, hma, hg⟩ := mtch_some hm
  obtain ⟨b, vs, namesa, namesb, rta, rtb, hb, fa, fb, eb, hs, rfl⟩ := h rm a q d hrr ha hq hma
  obtain ⟨g', h1, _, h3⟩ := sub_holds ha hb fa fb eb hs
  rw [hm] at h1
  simp only [Option.some.injEq] at h1
  subst h1
  exact h3

end PFM

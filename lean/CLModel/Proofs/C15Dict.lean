/-
Helper lemmas for C15, part 1: ordered dicts, `pairs`, `parseResource`, well-formedness of a
version's dict.  Core Lean only.
-/
import CLModel.Merge.Channels
import CLModel.Proofs.AddRemove
namespace Merge
open AR

/-! ### generic ordered-dict facts -/

section dict
variable {α : Type} [BEq α] [LawfulBEq α] {β : Type}

theorem any_key_iff (d : List (α × β)) (k : α) : d.any (·.1 == k) = true ↔ k ∈ d.map (·.1) := by
  rw [List.any_eq_true, List.mem_map]
  constructor
  · rintro ⟨p, hp, h⟩; exact ⟨p, hp, eq_of_beq h⟩
  · rintro ⟨p, hp, h⟩; exact ⟨p, hp, by simp [h]⟩

theorem dset_keys (d : List (α × β)) (k : α) (v : β) :
    (dset d k v).map (·.1) = if k ∈ d.map (·.1) then d.map (·.1) else d.map (·.1) ++ [k] := by
  unfold dset
  by_cases h : k ∈ d.map (·.1)
  · rw [if_pos ((any_key_iff d k).2 h), if_pos h, List.map_map]
    apply List.map_congr_left
    intro p _
    by_cases hp : p.1 = k
    · simp [hp]
    · simp [hp]
  · have : ¬ (d.any (·.1 == k) = true) := fun hh => h ((any_key_iff d k).1 hh)
    rw [if_neg this, if_neg h]
    simp

omit [LawfulBEq α] in
theorem dset_mem (d : List (α × β)) (k : α) (v : β) (p : α × β) (hp : p ∈ dset d k v) :
    p ∈ d ∨ p = (k, v) := by
  unfold dset at hp
  split at hp
  · rw [List.mem_map] at hp
    obtain ⟨q, hq, rfl⟩ := hp
    by_cases h : q.1 == k
    · simp [h]
    · simp [h, hq]
  · rw [List.mem_append] at hp
    rcases hp with h | h
    · exact .inl h
    · exact .inr (by simpa using h)

/-- `OrderedDict(pairs)` as a fold from an arbitrary start -/
def odFrom (acc : List (α × β)) (ps : List (α × β)) : List (α × β) :=
  ps.foldl (fun d kv => dset d kv.1 kv.2) acc

theorem odFrom_keys_nodup (acc ps : List (α × β)) (h : (acc.map (·.1)).Nodup) :
    ((odFrom acc ps).map (·.1)).Nodup := by
  induction ps generalizing acc with
  | nil => exact h
  | cons p ps ih =>
    apply ih
    rw [dset_keys]
    split
    · exact h
    · rename_i hn
      rw [List.nodup_append]
      refine ⟨h, by simp, ?_⟩
      intro a ha b hb
      simp only [List.mem_singleton] at hb
      subst hb
      intro e; subst e; exact hn ha

theorem odFrom_mem_keys (acc ps : List (α × β)) (k : α) :
    k ∈ (odFrom acc ps).map (·.1) ↔ k ∈ acc.map (·.1) ∨ k ∈ ps.map (·.1) := by
  induction ps generalizing acc with
  | nil => simp [odFrom]
  | cons p ps ih =>
    have := ih (dset acc p.1 p.2)
    simp only [odFrom, List.foldl_cons] at this ⊢
    rw [this, dset_keys]
    split
    · rename_i h
      simp only [List.map_cons, List.mem_cons]
      constructor
      · rintro (h1 | h1)
        · exact .inl h1
        · exact .inr (.inr h1)
      · rintro (h1 | h1 | h1)
        · exact .inl h1
        · exact .inl (h1 ▸ h)
        · exact .inr h1
    · simp only [List.mem_append, List.map_cons, List.mem_cons, List.not_mem_nil, or_false]
      constructor
      · rintro ((h1 | h1) | h1)
        · exact .inl h1
        · exact .inr (.inl h1)
        · exact .inr (.inr h1)
      · rintro (h1 | h1 | h1)
        · exact .inl (.inl h1)
        · exact .inl (.inr h1)
        · exact .inr h1

theorem odFrom_mem (acc ps : List (α × β)) (p : α × β) (hp : p ∈ odFrom acc ps) : p ∈ acc ∨ p ∈ ps := by
  induction ps generalizing acc with
  | nil => exact .inl hp
  | cons q ps ih =>
    simp only [odFrom, List.foldl_cons] at hp
    rcases ih _ hp with h | h
    · rcases dset_mem _ _ _ _ h with h | h
      · exact .inl h
      · exact .inr (by simp [h])
    · exact .inr (List.mem_cons_of_mem _ h)

theorem odFrom_of_nodup (acc ps : List (α × β)) (h : (acc.map (·.1) ++ ps.map (·.1)).Nodup) :
    odFrom acc ps = acc ++ ps := by
  induction ps generalizing acc with
  | nil => simp [odFrom]
  | cons p ps ih =>
    simp only [odFrom, List.foldl_cons]
    have hp : p.1 ∉ acc.map (·.1) := by
      intro hm
      rw [List.nodup_append] at h
      exact h.2.2 _ hm _ (by simp) rfl
    rw [dset_of_not_mem _ hp]
    have := ih (acc ++ [p]) (by simpa [List.append_assoc] using h)
    simp only [odFrom] at this
    rw [this]; simp

/-- lookup in a dict with distinct keys -/
theorem dget_eq_some_iff (d : List (α × β)) (hd : (d.map (·.1)).Nodup) (k : α) (v : β) :
    dget d k = some v ↔ (k, v) ∈ d := by
  induction d with
  | nil => simp [dget]
  | cons p d ih =>
    rw [dget_cons]
    rw [List.map_cons, List.nodup_cons] at hd
    by_cases h : p.1 == k
    · have hk := eq_of_beq h
      simp only [h, if_true, Option.some.injEq, List.mem_cons]
      constructor
      · intro e; left; rw [← hk, ← e]
      · rintro (e | e)
        · rw [← e]
        · exfalso; apply hd.1; rw [hk]; exact List.mem_map.2 ⟨_, e, rfl⟩
    · simp only [h, Bool.false_eq_true, if_false, List.mem_cons]
      rw [ih hd.2]
      constructor
      · exact .inr
      · rintro (e | e)
        · exfalso; apply h; rw [← e]; simp
        · exact e

theorem dget_isSome_iff (d : List (α × β)) (k : α) : (dget d k).isSome ↔ k ∈ d.map (·.1) := by
  induction d with
  | nil => simp [dget]
  | cons p d ih =>
    rw [dget_cons]
    by_cases h : p.1 == k
    · simp [eq_of_beq h]
    · have : ¬ p.1 = k := fun e => h (by simp [e])
      simp only [h, Bool.false_eq_true, if_false, ih, List.map_cons, List.mem_cons]
      constructor
      · exact .inr
      · rintro (e | e)
        · exact absurd e.symm this
        · exact e

theorem dget_mem (d : List (α × β)) (k : α) (v : β) (h : dget d k = some v) : (k, v) ∈ d := by
  induction d with
  | nil => simp [dget] at h
  | cons p d ih =>
    rw [dget_cons] at h
    by_cases hp : p.1 == k
    · simp only [hp, if_true, Option.some.injEq] at h
      rw [← h, ← eq_of_beq hp]; simp
    · simp only [hp, Bool.false_eq_true, if_false] at h
      exact List.mem_cons_of_mem _ (ih h)

end dict

/-! ### `get_key_value`, `pairs` -/

/-- a dict entry is stored under a key of the right sort -/
def KeyOK (p : Key × Ent) : Prop :=
  (p.2.isWs = true → p.1 = Key.obj p.2.oid.1 p.2.oid.2) ∧ (p.2.isWs = false → p.1.isObj = false)

theorem getKeyValue_snd (e : Ent) (c : List (List Nat × Nat)) : (getKeyValue e c).1.2 = e := by
  unfold getKeyValue
  split
  · rfl
  · split <;> rfl

theorem getKeyValue_keyOK (e : Ent) (c : List (List Nat × Nat)) : KeyOK (getKeyValue e c).1 := by
  unfold getKeyValue KeyOK Ent.isWs
  by_cases h1 : e.kind = .comment
  · simp [h1, Key.isObj]
  · by_cases h2 : e.kind = .whitespace
    · simp [h2, Key.isObj]
    · simp [h1, h2, Key.isObj]

theorem pairs_map_snd (es : List Ent) (c : List (List Nat × Nat)) : (pairs es c).map (·.2) = es := by
  induction es generalizing c with
  | nil => rfl
  | cons e es ih =>
    simp only [pairs, List.map_cons, getKeyValue_snd, ih]

theorem pairs_keyOK (es : List Ent) (c : List (List Nat × Nat)) : ∀ p ∈ pairs es c, KeyOK p := by
  induction es generalizing c with
  | nil => simp [pairs]
  | cons e es ih =>
    intro p hp
    simp only [pairs, List.mem_cons] at hp
    rcases hp with rfl | hp
    · exact getKeyValue_keyOK e c
    · exact ih _ p hp

theorem pairs_snd_mem (es : List Ent) (c : List (List Nat × Nat)) : ∀ p ∈ pairs es c, p.2 ∈ es := by
  intro p hp
  rw [← pairs_map_snd es c]
  exact List.mem_map.2 ⟨p, hp, rfl⟩

/-- entity keys of `pairs` are exactly the `entity.key`s of the keyed entries -/
theorem pairs_ent_mem (es : List Ent) (c : List (List Nat × Nat)) (ek : EKey) :
    Key.ent ek ∈ (pairs es c).map (·.1) ↔ ∃ e ∈ es, e.keyed = true ∧ e.ekey = ek := by
  induction es generalizing c with
  | nil => simp [pairs]
  | cons e es ih =>
    simp only [pairs, List.map_cons, List.mem_cons, ih]
    have hk : Key.ent ek = (getKeyValue e c).1.1 ↔ (e.keyed = true ∧ e.ekey = ek) := by
      unfold getKeyValue Ent.keyed
      by_cases h1 : e.kind = .comment
      · simp [h1]
      · by_cases h2 : e.kind = .whitespace
        · simp [h2]
        · simp [h1, h2]; exact eq_comm
    rw [hk]
    constructor
    · rintro (h | ⟨e', he', h⟩)
      · exact ⟨e, .inl rfl, h⟩
      · exact ⟨e', .inr he', h⟩
    · rintro ⟨e', (rfl | he'), h⟩
      · exact .inl h
      · exact .inr ⟨e', he', h⟩

/-! ### well-formed dicts -/

structure WF (d : Dict) : Prop where
  nodup : (d.map (·.1)).Nodup
  ok : ∀ p ∈ d, KeyOK p

/-- all Whitespace objects of the dict were created while parsing version `j` -/
def VerEq (j : Nat) (d : Dict) : Prop := ∀ p ∈ d, p.2.isWs = true → p.2.oid.1 = j
/-- all Whitespace objects of the dict come from versions before `j` -/
def VerLt (j : Nat) (d : Dict) : Prop := ∀ p ∈ d, p.2.isWs = true → p.2.oid.1 < j

theorem orderedDict_eq (ps : List (Key × Ent)) : orderedDict ps = odFrom [] ps := rfl

theorem parseResource_mem (es : List Ent) : ∀ p ∈ parseResource es, p ∈ pairs es [] := by
  intro p hp
  rw [parseResource, orderedDict_eq] at hp
  rcases odFrom_mem _ _ _ hp with h | h
  · simp at h
  · exact h

theorem parseResource_wf (es : List Ent) : WF (parseResource es) := by
  constructor
  · rw [parseResource, orderedDict_eq]
    exact odFrom_keys_nodup _ _ (by simp)
  · intro p hp
    exact pairs_keyOK es [] p (parseResource_mem es p hp)

theorem parseResource_mem_keys (es : List Ent) (k : Key) :
    k ∈ (parseResource es).map (·.1) ↔ k ∈ (pairs es []).map (·.1) := by
  rw [parseResource, orderedDict_eq, odFrom_mem_keys]
  simp

theorem stamp_oid (v : Nat) (es : List Ent) : ∀ e ∈ stamp v es, e.oid.1 = v := by
  intro e he
  simp only [stamp, List.mem_map] at he
  obtain ⟨p, _, rfl⟩ := he
  rfl

theorem parseResource_verEq (v : Nat) (es : List Ent) : VerEq v (parseResource (stamp v es)) := by
  intro p hp _
  exact stamp_oid v es _ (pairs_snd_mem _ _ p (parseResource_mem _ p hp))

end Merge

/- C02 (round 4), ini: several sections, `;` / `#` comment blocks (attached, stand-alone, before a section), blank lines,
   and inert garbage lines anywhere (garbage locality). -/
import CLModel.Proofs.C02PGen
import CLModel.Proofs.C02XIni
import CLModel.Proofs.C02PIniLic
namespace C02P
open Rx P Gen.Pat C02X

/-! ### line starts (`^` with re.M) -/

/-- the position is the start of a line -/
def LineStart (s : Array Nat) (p : Nat) : Prop := p = 0 ∨ s[p - 1]? = some 10

theorem bol_ok (s : Array Nat) (p : Nat) (caps) (k : K) (h : LineStart s p) : m s (.bol true) ⟨p, caps⟩ k = k ⟨p, caps⟩ := by
  rw [m_bol]
  rcases h with h | h
  · simp [h]
  · simp [h]

theorem bol_fail (s : Array Nat) (p : Nat) (caps) (k : K) (h : ¬ LineStart s p) : m s (.bol true) ⟨p, caps⟩ k = none := by
  rw [m_bol]
  have h1 : p ≠ 0 := fun h' => h (Or.inl h')
  have h2 : s[p - 1]? ≠ some 10 := fun h' => h (Or.inr h')
  simp [h1, h2]

theorem lineStart_after {s : Array Nat} {p : Nat} {l : List Nat} (h : At s p (10 :: l)) : LineStart s (p + 1) := by
  right; simpa using h.hd

/-- after a text that ends in a newline the next position is a line start -/
theorem lineStart_of_last {s : Array Nat} {p : Nat} {x rest : List Nat} (h : At s p (x ++ rest)) (hne : x ≠ [])
    (hl : x.getLast? = some 10) : LineStart s (p + x.length) := by
  right
  have hpos : 0 < x.length := List.length_pos_iff.mpr hne
  have := h.left (x.length - 1) (by omega)
  rw [show p + x.length - 1 = p + (x.length - 1) by omega, this]
  rw [List.getLast?_eq_getElem?] at hl
  rw [List.getElem?_eq_getElem (by omega)] at hl
  exact hl

/-! ### comment blocks -/

/-- `;` or `#` -/
def isIniMark (c : Nat) : Bool := c == 59 || c == 35

theorem inC_inimark (c : Nat) : inC false [.ch 59, .ch 35] c = isIniMark c := by simp [inC, ClsItem.has, isIniMark]

def CLine.GoodI (l : CLine) : Prop := isIniMark l.1 = true ∧ ∀ x ∈ l.2, x ≠ 10

def icBody : Re :=
  Re.seq (Re.bol true) (Re.seq (Re.cls false [.ch 59, .ch 35]) (Re.seq (Re.rep 0 none true (Re.notLit 10)) (Re.lit 10)))
def icLast : Re := Re.seq (Re.bol true) (Re.seq (Re.cls false [.ch 59, .ch 35]) (Re.rep 0 none true (Re.notLit 10)))

theorem iniComment_eq : IniParser_reComment = Re.seq (Re.rep 0 none true icBody) icLast := rfl

theorem icBody_line (s : Array Nat) (p mk : Nat) (t rest : List Nat) (caps) (h : At s p (mk :: (t ++ 10 :: rest)))
    (hls : LineStart s p) (hm : isIniMark mk = true) (ht : ∀ x ∈ t, x ≠ 10) (k' : K) :
    m s icBody ⟨p, caps⟩ k' = k' ⟨p + t.length + 2, caps⟩ := by
  have h1 := h.tail
  have hp : p + 1 < s.size := h1.pos_lt (by simp)
  unfold icBody
  rw [m_seq, bol_ok s p caps _ hls, m_seq, m_cls_charStep, step_at _ h (by rw [inC_inimark]; exact hm), m_seq, m_rep,
    m_notLit_charStep]
  simp only []
  rw [greedy_at_exact _ caps _ h1 (fun x hx => by simp [ht x hx]) (by intro x hx; simp at hx; subst hx; decide)
    (fun j hj => lit_fail s _ 10 caps (by rw [h1.left j hj]; simp [ht _ (List.getElem_mem hj)]) _) (by omega)]
  rw [lit_at h1.app, show p + 1 + t.length + 1 = p + t.length + 2 by omega]

theorem icBody_fail_head (s : Array Nat) (p : Nat) (l : List Nat) (caps) (h : At s p l)
    (hl : ∀ c, l.head? = some c → isIniMark c = false) (k' : K) : m s icBody ⟨p, caps⟩ k' = none := by
  unfold icBody
  rw [m_seq, m_bol]
  split
  · rw [m_seq, m_cls_charStep, step_at_fail _ h (fun c hc => by rw [inC_inimark]; exact hl c hc)]
  · rfl

theorem icBody_fail_eof (s : Array Nat) (p mk : Nat) (t : List Nat) (caps) (h : At s p (mk :: t))
    (hm : isIniMark mk = true) (ht : ∀ x ∈ t, x ≠ 10) (k' : K) : m s icBody ⟨p, caps⟩ k' = none := by
  have h1 : At s (p + 1) (t ++ []) := by simpa using h.tail
  have hp : p < s.size := h.pos_lt (by simp)
  unfold icBody
  rw [m_seq, m_bol]
  split
  · rw [m_seq, m_cls_charStep, step_at _ h (by rw [inC_inimark]; exact hm), m_seq, m_rep, m_notLit_charStep]
    simp only []
    rw [greedy_at_exact _ caps _ h1 (fun x hx => by simp [ht x hx]) (by intro x hx; simp at hx)
      (fun j hj => lit_fail s _ 10 caps (by rw [h1.left j hj]; simp [ht _ (List.getElem_mem hj)]) _) (by omega)]
    exact lit_at_fail h1.app (by simp) caps k'
  · rfl

theorem icLast_line (s : Array Nat) (p mk : Nat) (t rest : List Nat) (h : At s p (mk :: (t ++ rest)))
    (hls : LineStart s p) (hm : isIniMark mk = true) (ht : ∀ x ∈ t, x ≠ 10) (hr : ∀ c, rest.head? = some c → c = 10) :
    m s icLast ⟨p, []⟩ some = some ⟨p + t.length + 1, []⟩ := by
  have h1 := h.tail
  have hp : p < s.size := h.pos_lt (by simp)
  unfold icLast
  rw [m_seq, bol_ok s p [] _ hls, m_seq, m_cls_charStep, step_at _ h (by rw [inC_inimark]; exact hm), m_rep, m_notLit_charStep]
  simp only []
  rw [greedy_at _ [] some _ 0 h1 (fun x hx => by simp [ht x hx]) (by intro x hx; simp [hr x hx]) (by omega) (by omega) rfl]
  rw [show p + 1 + t.length = p + t.length + 1 by omega]

theorem icLast_fail (s : Array Nat) (p : Nat) (l : List Nat) (caps) (h : At s p l)
    (hl : ∀ c, l.head? = some c → isIniMark c = false) (k' : K) : m s icLast ⟨p, caps⟩ k' = none := by
  unfold icLast
  rw [m_seq, m_bol]
  split
  · rw [m_seq, m_cls_charStep, step_at_fail _ h (fun c hc => by rw [inC_inimark]; exact hl c hc)]
  · rfl

/-- what follows a comment block: the end of the text, or a newline that is not followed by a further comment line -/
def AfterCommentI (rest : List Nat) : Prop :=
  rest = [] ∨ ∃ r', rest = 10 :: r' ∧ ∀ c, r'.head? = some c → isIniMark c = false

theorem ic_loop (s : Array Nat) : ∀ (ls : List CLine) (l : CLine) (p fuel : Nat) (rest : List Nat),
    At s p (printCLines (l :: ls) ++ rest) → LineStart s p → (∀ x ∈ l :: ls, CLine.GoodI x) → AfterCommentI rest →
    ls.length + 1 < fuel →
    loop (m s icBody) true fuel 0 none ⟨p, []⟩ (fun st => m s icLast st some) =
      some ⟨p + (printCLines (l :: ls)).length, []⟩ := by
  intro ls
  induction ls with
  | nil =>
    intro l p fuel rest h hls hg hr hf
    obtain ⟨f, rfl⟩ : ∃ f, fuel = f + 1 := ⟨fuel - 1, by omega⟩
    obtain ⟨hm, ht⟩ := hg l (by simp)
    have h' : At s p (l.1 :: (l.2 ++ rest)) := by simpa [At, printCLines] using h
    have hlast := icLast_line s p l.1 l.2 rest h' hls hm ht (by
      intro c hc
      rcases hr with rfl | ⟨r', rfl, _⟩
      · simp at hc
      · simpa using hc.symm)
    have hmore : m s icBody ⟨p, []⟩ (fun st' => if st'.pos ≤ p then none else
        loop (m s icBody) true f (0 - 1) ((none : Option Nat).map (· - 1)) st' (fun st => m s icLast st some)) = none := by
      rcases hr with rfl | ⟨r', rfl, hr'⟩
      · exact icBody_fail_eof s p l.1 l.2 [] (by simpa using h') hm ht _
      · rw [icBody_line s p l.1 l.2 r' [] h' hls hm ht]
        simp only [show ¬ (p + l.2.length + 2 ≤ p) by omega, if_false]
        have h2 : At s (p + l.2.length + 2) r' := by
          have := h'.tail.app.tail
          rw [show p + 1 + l.2.length + 1 = p + l.2.length + 2 by omega] at this
          exact this
        cases f with
        | zero => rw [loop]
        | succ f' =>
          rw [loop_body_fail _ true f' _ _ _ (fun k' => icBody_fail_head s _ r' [] h2 hr' k')]
          exact icLast_fail s _ r' [] h2 hr' _
    rw [loop]
    simp only [show ((none : Option Nat) == some 0) = false from rfl, Bool.false_eq_true, if_false, hmore]
    simp only [Nat.lt_irrefl, if_false, if_true]
    simp [hlast, printCLines]
    omega
  | cons l' ls ih =>
    intro l p fuel rest h hls hg hr hf
    obtain ⟨f, rfl⟩ : ∃ f, fuel = f + 1 := ⟨fuel - 1, by omega⟩
    obtain ⟨hm, ht⟩ := hg l (by simp)
    have h' : At s p (l.1 :: (l.2 ++ 10 :: (printCLines (l' :: ls) ++ rest))) := by
      simpa [At, printCLines_cons2] using h
    have h2 : At s (p + l.2.length + 2) (printCLines (l' :: ls) ++ rest) := by
      have := h'.tail.app.tail
      rw [show p + 1 + l.2.length + 1 = p + l.2.length + 2 by omega] at this
      exact this
    have hls2 : LineStart s (p + l.2.length + 2) := by
      have := lineStart_after h'.tail.app
      rw [show p + 1 + l.2.length + 1 = p + l.2.length + 2 by omega] at this
      exact this
    have ihh := ih l' (p + l.2.length + 2) f rest h2 hls2 (fun x hx => hg x (by simp at hx ⊢; right; exact hx)) hr
      (by simp at hf; omega)
    rw [loop]
    simp only [show ((none : Option Nat) == some 0) = false from rfl, Bool.false_eq_true, if_false,
      icBody_line s p l.1 l.2 _ [] h' hls hm ht, show ¬ (p + l.2.length + 2 ≤ p) by omega, Option.map_none, Nat.zero_sub, ihh]
    simp [printCLines_cons2]
    omega

theorem ini_comment_at (s : Array Nat) (p : Nat) (ls : List CLine) (rest : List Nat) (hne : ls ≠ [])
    (hls : LineStart s p) (hg : ∀ x ∈ ls, CLine.GoodI x) (hr : AfterCommentI rest) (h : At s p (printCLines ls ++ rest)) :
    matchAt s IniParser_reComment p = some ⟨p + (printCLines ls).length, []⟩ := by
  cases ls with
  | nil => exact absurd rfl hne
  | cons l ls =>
    have hl := h.len
    have := printCLines_len (l :: ls)
    simp only [List.length_append, List.length_cons] at hl this
    rw [iniComment_eq]
    simp only [matchAt, m_seq, m_rep]
    exact ic_loop s ls l p _ rest h hls hg hr (by omega)

theorem ini_comment_none_at (s : Array Nat) (p : Nat) (l : List Nat) (hl : ∀ c, l.head? = some c → isIniMark c = false)
    (h : At s p l) : matchAt s IniParser_reComment p = none := by
  apply ini_comment_none_gen
  intro c hc
  rw [h.head] at hc
  have := hl c hc
  simp [isIniMark] at this
  exact this

/-- not at a line start: no comment -/
theorem ini_comment_none_mid (s : Array Nat) (p : Nat) (h : ¬ LineStart s p) : matchAt s IniParser_reComment p = none := by
  rw [iniComment_eq]
  simp only [matchAt, m_seq, m_rep]
  have hb : ∀ k', m s icBody ⟨p, []⟩ k' = none := by
    intro k'; unfold icBody; rw [m_seq, bol_fail s p [] _ h]
  cases hf : s.size + 2 - p with
  | zero => rw [loop]
  | succ f =>
    rw [loop_body_fail _ true f _ _ _ hb]
    unfold icLast; rw [m_seq, bol_fail s p [] _ h]

/-! ### the key regex where there is no `=` on the line -/

theorem ini_key_none_line (s : Array Nat) (q : Nat) (x rest : List Nat) (hx : ∀ c ∈ x, c ≠ 61 ∧ c ≠ 10)
    (hr : ∀ c, rest.head? = some c → c = 10) (h : At s q (x ++ rest)) : matchAt s IniParser_reKey q = none := by
  simp only [matchAt, IniParser_reKey, m_seq, m_group, m_rep, m_any_charStep]
  cases x with
  | nil =>
    exact loop_at_short _ false _ _ _ 1 h (by intro c hc; simp at hc; simp [hr c hc]) (by omega)
  | cons c x' =>
    have h' : At s q (c :: (x' ++ rest)) := h
    have hq : q < s.size := h'.pos_lt (by simp)
    obtain ⟨f, hf⟩ : ∃ f, s.size + 2 - q = f + 1 := ⟨s.size + 1 - q, by omega⟩
    rw [hf, loop]
    have hc := hx c (by simp)
    simp only [show (1 : Nat) > 0 by omega, if_true, show ((none : Option Nat) == some 0) = false from rfl,
      Bool.false_eq_true, if_false, Option.map_none, show (1 : Nat) - 1 = 0 from rfl]
    rw [step_at (fun d => false || d != 10) h' (by simp [hc.2])]
    simp only [show ¬ (q + 1 ≤ q) by omega, if_false]
    apply lazy_at_none (fun d => false || d != 10) _ _ _ h'.tail (fun d hd => by simp [(hx d (by simp [hd])).2])
      (by intro d hd; simp [hr d hd])
    intro j hj
    apply lit_fail
    by_cases hjl : j < x'.length
    · rw [h'.tail.left j hjl]
      have := (hx x'[j] (by simp [List.getElem_mem hjl])).1
      simp [this]
    · have : j = x'.length := by omega
      subst this
      rw [h'.tail.app.head]
      cases hh : rest.head? with
      | none => simp
      | some d => simp [hr d hh]

/-! ### blocks -/

/-- white-space between blocks: it starts with the newline that ends the line before and ends with a newline (so that the
    next block starts a line) -/
structure IGap (gap : List Nat) : Prop where
  ws : ∀ c ∈ gap, isWs c = true
  head : gap.head? = some 10
  last : gap.getLast? = some 10

theorem IGap.ne {gap : List Nat} (h : IGap gap) : gap ≠ [] := by
  intro hh; have := h.head; rw [hh] at this; simp at this

/-- a printed block of an ini file -/
inductive IBlock
  /-- `key=value`, optionally with an attached comment block (then a newline and possibly indentation before the key) -/
  | record (cm : List CLine) (cgap : List Nat) (r : PRec) (gap : List Nat)
  /-- `[name]`, optionally with comment lines directly before it (they are a stand-alone comment for the parser) -/
  | section (pre : List CLine) (name : List Nat) (gap : List Nat)
  /-- a comment block followed by white-space with at least two newlines -/
  | free (ls : List CLine) (gap : List Nat)

def preText (pre : List CLine) : List Nat := if pre.isEmpty then [] else printCLines pre ++ [10]

def IBlock.print : IBlock → List Nat
  | .record cm cgap r gap => printCLines cm ++ (cgap ++ (r.1 ++ 61 :: (r.2 ++ gap)))
  | .section pre name gap => preText pre ++ (91 :: (name ++ 93 :: gap))
  | .free ls gap => printCLines ls ++ gap

def iniSecEntry (p n : Nat) : Entry :=
  { kind := .section, full := p, s := p, e := p + n + 2, ks := (p + 1 : Nat), ke := (p + n + 1 : Nat),
    vs := (p + 1 : Nat), ve := (p + n + 1 : Nat) }

def iniRecEntity (off clen cglen klen vlen : Nat) (hasC : Bool) : Entry :=
  { kind := .entity, full := off, s := off + clen + cglen, e := off + clen + cglen + klen + 1 + vlen,
    ks := (off + clen + cglen : Nat), ke := (off + clen + cglen + klen : Nat),
    vs := (off + clen + cglen + klen + 1 : Nat), ve := (off + clen + cglen + klen + 1 + vlen : Nat),
    pc := if hasC then some (off, off + clen) else none }

def IBlock.entries (off : Nat) : IBlock → List Entry
  | .record cm cgap r gap =>
    [iniRecEntity off (printCLines cm).length cgap.length r.1.length r.2.length (!cm.isEmpty),
     wsEntryN (off + (printCLines cm).length + cgap.length + r.1.length + 1 + r.2.length) gap.length]
  | .section pre name gap =>
    (if pre.isEmpty then [] else [commentEntry off (off + (printCLines pre).length), wsEntryN (off + (printCLines pre).length) 1]) ++
    [iniSecEntry (off + (preText pre).length) name.length, wsEntryN (off + (preText pre).length + name.length + 2) gap.length]
  | .free ls gap => [commentEntry off (off + (printCLines ls).length), wsEntryN (off + (printCLines ls).length) gap.length]

def IBlock.Good' : IBlock → Prop
  | .record cm cgap r gap =>
    (∀ l ∈ cm, CLine.GoodI l ∧ CLine.NoBreak l) ∧ (cm = [] → cgap = []) ∧
    (cm ≠ [] → ∃ w, cgap = 10 :: w ∧ ∀ c ∈ w, isWs c = true ∧ c ≠ 10) ∧ SafeIniRec r ∧ IGap gap
  | .section pre name gap => (∀ l ∈ pre, CLine.GoodI l) ∧ (∀ c ∈ name, c ≠ 93 ∧ c ≠ 10 ∧ c ≠ 61) ∧ IGap gap
  | .free ls gap => ls ≠ [] ∧ (∀ l ∈ ls, CLine.GoodI l) ∧ IGap gap ∧ 2 ≤ (gap.filter (· == 10)).length

/-- the License rule of the base `getNext` (offset < 2) does not fire on an ATTACHED comment -/
def IBlock.NoLicense (off : Nat) : IBlock → Prop
  | .record cm _ _ _ => off < 2 → isInfix licenseWord (offsetCommentVal 1 (printCLines cm)) = false
  | _ => True

def IBlock.Good (off : Nat) (b : IBlock) : Prop := b.Good' ∧ b.NoLicense off

def IBlock.views : IBlock → List (Option EntView)
  | .record cm _ r _ => [some { key := r.1, raw := r.2, val := some r.2,
                                comment := if cm.isEmpty then none else some (cvalLines cm) }]
  | _ => []

abbrev iniNext (s : Array Nat) : Unit → Nat → Entry × Unit := fun _ off => (iniGetNext s off, ())

theorem iniMark_facts {c : Nat} (h : isIniMark c = true) : c ≠ 91 ∧ isWs c = false ∧ c ≠ 10 := by
  simp [isIniMark] at h; rcases h with h | h <;> subst h <;> decide

theorem ini_section_none_at (s : Array Nat) (p : Nat) (l : List Nat) (h : At s p l) (hl : l.head? ≠ some 91) :
    matchAt s IniParser_reSection p = none := by
  simp only [matchAt, IniParser_reSection, m_seq]
  exact lit_at_fail h hl [] _

theorem ini_section_match (s : Array Nat) (p : Nat) (name rest : List Nat) (hn : ∀ c ∈ name, c ≠ 93 ∧ c ≠ 10)
    (h : At s p (91 :: (name ++ 93 :: rest))) :
    matchAt s IniParser_reSection p = some ⟨p + name.length + 2, [(1, p + 1, p + 1 + name.length)]⟩ := by
  have h1 := h.tail
  have hp : p < s.size := h.pos_lt (by simp)
  simp only [matchAt, IniParser_reSection, m_seq, m_group, m_rep, m_any_charStep]
  rw [lit_at h]
  apply lazy_at _ [] _ _ h1 (fun c hc => by simp [(hn c hc).2])
    (fun j hj => lit_fail s _ 93 _ (by rw [h1.left j hj]; simp [(hn _ (List.getElem_mem hj)).1]) _) (by omega)
  rw [lit_at h1.app]
  simp; omega

/-- `[name]` at any offset -/
theorem ini_section_at_p (s : Array Nat) (p : Nat) (name rest : List Nat) (hn : ∀ c ∈ name, c ≠ 93 ∧ c ≠ 10)
    (h : At s p (91 :: (name ++ 93 :: rest))) : iniGetNext s p = iniSecEntry p name.length := by
  have hm := ini_section_match s p name rest hn h
  unfold iniGetNext
  simp only [hm]
  simp [iniSecEntry, spanI, St.group, capOf, IniParser_reSection_g_val]
  omega

/-- white-space stretch: one white-space entry -/
theorem ini_ws_at_n (s : Array Nat) (p : Nat) (w rest : List Nat) (hne : w ≠ []) (hw : ∀ c ∈ w, isWs c = true)
    (hr : ∀ c, rest.head? = some c → isWs c = false) (h : At s p (w ++ rest)) : iniGetNext s p = wsEntryN p w.length := by
  have hhead : ∀ c, (w ++ rest).head? = some c → isWs c = true := by
    intro c hc; rw [head?_app_ne hne] at hc
    cases w with
    | nil => exact absurd rfl hne
    | cons a t => simp at hc; subst hc; exact hw a (by simp)
  have hsec := ini_section_none_at s p _ h (by
    intro hh; have := hhead 91 hh; revert this; decide)
  have hcm := ini_comment_none_at s p _ (by
    intro c hc; have := hhead c hc
    cases hm : isIniMark c with
    | false => rfl
    | true => have := (iniMark_facts hm).2.1; simp_all) h
  unfold iniGetNext
  simp only [hsec]
  exact base_ws_at_n iniCfg rfl hcm h hne hw hr

theorem safeIni_head (r : PRec) (hs : SafeIniRec r) (l : List Nat) :
    ∃ c, (r.1 ++ l).head? = some c ∧ c ≠ 91 ∧ isIniMark c = false ∧ isWs c = false := by
  cases hk : r.1 with
  | nil => exact absurd hk hs.key_ne
  | cons a t =>
    have := hs.key_head a (by rw [hk]; rfl)
    have h10 := (hs.key a (by rw [hk]; simp)).1
    exact ⟨a, rfl, this.1, by simp [isIniMark, this.2.1, this.2.2.1], by simp [isWs, this.2.2.2, h10]⟩

/-- a record, with or without an attached comment block -/
theorem ini_record_at (s : Array Nat) (off : Nat) (cm : List CLine) (cgap : List Nat) (r : PRec) (gap rest : List Nat)
    (hg : (IBlock.record cm cgap r gap).Good off) (hls : LineStart s off)
    (h : At s off ((IBlock.record cm cgap r gap).print ++ rest)) :
    iniGetNext s off = iniRecEntity off (printCLines cm).length cgap.length r.1.length r.2.length (!cm.isEmpty) := by
  obtain ⟨⟨hcm, hcg0, hcg1, hsafe, hgap⟩, hlic⟩ := hg
  obtain ⟨g0, hg0⟩ : ∃ g', gap = 10 :: g' := by
    cases hgg : gap with
    | nil => exact absurd hgg hgap.ne
    | cons a t => have := hgap.head; rw [hgg] at this; simp at this; subst this; exact ⟨t, rfl⟩
  have h1 : At s off (printCLines cm ++ (cgap ++ (r.1 ++ 61 :: (r.2 ++ (gap ++ rest))))) := by
    simpa [At, IBlock.print] using h
  have h2 := h1.app
  have h3 := h2.app
  have hrec : IniRecAt s (off + (printCLines cm).length + cgap.length) r.1.length r.2.length := by
    apply iniRecAt_of_drop s _ r (g0 ++ rest) hsafe
    have : At s (off + (printCLines cm).length + cgap.length) (r.1 ++ 61 :: (r.2 ++ (10 :: g0 ++ rest))) := by
      rw [hg0] at h3; exact h3
    simpa [At, printRec] using this
  have hkm := ini_key_match s _ _ _ hrec
  obtain ⟨c0, hc0, hc91, hcmk, hcws⟩ := safeIni_head r hsafe (61 :: (r.2 ++ (gap ++ rest)))
  have hkw : ∀ c, (r.1 ++ 61 :: (r.2 ++ (gap ++ rest))).head? = some c → isWs c = false := by
    intro c hc; rw [hc0] at hc; cases hc; exact hcws
  unfold iniGetNext
  by_cases hne : cm = []
  · have hcg := hcg0 hne
    have h3' : At s off (r.1 ++ 61 :: (r.2 ++ (gap ++ rest))) := by
      simpa [At, hne, hcg, printCLines] using h1
    have hsec := ini_section_none_at s off _ h3' (by rw [hc0]; simp [hc91])
    have hcmn := ini_comment_none_at s off _ (by intro c hc; rw [hc0] at hc; cases hc; exact hcmk) h3'
    have hws := ws_none_at h3' hkw
    have hk0 : off + (printCLines cm).length + cgap.length = off := by simp [hne, hcg, printCLines]
    rw [hk0] at hkm
    simp only [hsec]
    unfold getNext
    simp only [iniCfg, hcmn, hws, hkm]
    simp [iniRecEntity, hne, hcg, printCLines, spanI, St.group, capOf, IniParser_reKey_g_key, IniParser_reKey_g_val]
  · obtain ⟨w, hcg, hw⟩ := hcg1 hne
    obtain ⟨l0, ls0, hcm0⟩ : ∃ l0 ls0, cm = l0 :: ls0 := by
      cases cm with
      | nil => exact absurd rfl hne
      | cons a t => exact ⟨a, t, rfl⟩
    have hmk0 := (hcm l0 (by simp [hcm0])).1.1
    have hsec := ini_section_none_at s off _ h1 (by
      rw [hcm0, printCLines_head]; simp [(iniMark_facts hmk0).1])
    have hac : AfterCommentI (cgap ++ (r.1 ++ 61 :: (r.2 ++ (gap ++ rest)))) := by
      right
      refine ⟨w ++ (r.1 ++ 61 :: (r.2 ++ (gap ++ rest))), by simp [hcg], ?_⟩
      intro c hc
      cases hw' : w with
      | nil => rw [hw'] at hc; simp only [List.nil_append] at hc; rw [hc0] at hc; cases hc; exact hcmk
      | cons a t =>
        rw [hw'] at hc; simp at hc; subst hc
        have := (hw a (by simp [hw'])).1
        cases hm : isIniMark a with
        | false => rfl
        | true => have := (iniMark_facts hm).2.1; simp_all
    have hcmm := ini_comment_at s off cm _ hne hls (fun x hx => (hcm x hx).1) hac h1
    have hl : (off < 2 && isInfix licenseWord (commentVal (.offset Gen.Tables.offsetCommentDefault)
        (slice s off (off + (printCLines cm).length)))) = false := by
      rw [h1.slice]
      by_cases ho : off < 2
      · simp [commentVal, Gen.Tables.offsetCommentDefault, hlic ho]
      · simp [ho]
    have hcgws : ∀ c ∈ cgap, isWs c = true := by
      intro c hc; rw [hcg] at hc; simp at hc
      rcases hc with rfl | hc
      · decide
      · exact (hw c hc).1
    have hws := ws_at h2 (by rw [hcg]; simp) hcgws hkw
    have hcnt : ¬ (countNl s (off + (printCLines cm).length) (off + (printCLines cm).length + cgap.length) > 1) := by
      rw [countNl_at h2, hcg]
      have : (w.filter (· == 10)) = [] := by
        rw [List.filter_eq_nil_iff]; intro c hc; simp [(hw c hc).2]
      simp [this]
    have hemp := isEmpty_false_of_ne hne
    simp only [hsec]
    unfold getNext
    simp only [iniCfg, hcmm, hl, hws, hcnt, hkm]
    simp [iniRecEntity, hemp, spanI, St.group, capOf, IniParser_reKey_g_key, IniParser_reKey_g_val]

/-- a comment block that is directly followed (after ONE newline) by a line without `=` — a section header, a garbage line —
    is a stand-alone comment -/
theorem ini_comment_before (s : Array Nat) (off : Nat) (ls : List CLine) (x rest : List Nat) (hne : ls ≠ [])
    (hg : ∀ l ∈ ls, CLine.GoodI l) (hls : LineStart s off) (hx : ∀ c ∈ x, c ≠ 61 ∧ c ≠ 10)
    (hxh : ∀ c, (x ++ rest).head? = some c → isWs c = false ∧ isIniMark c = false)
    (hr : ∀ c, rest.head? = some c → c = 10)
    (h : At s off (printCLines ls ++ (10 :: (x ++ rest)))) :
    iniGetNext s off = commentEntry off (off + (printCLines ls).length) := by
  obtain ⟨l0, ls0, hcm0⟩ : ∃ l0 ls0, ls = l0 :: ls0 := by
    cases ls with
    | nil => exact absurd rfl hne
    | cons a t => exact ⟨a, t, rfl⟩
  have hmk0 := (hg l0 (by simp [hcm0])).1
  have hsec := ini_section_none_at s off _ h (by rw [hcm0, printCLines_head]; simp [(iniMark_facts hmk0).1])
  have hac : AfterCommentI (10 :: (x ++ rest)) := Or.inr ⟨x ++ rest, rfl, fun c hc => (hxh c hc).2⟩
  have hcmm := ini_comment_at s off ls _ hne hls hg hac h
  have h2 : At s (off + (printCLines ls).length) ([10] ++ (x ++ rest)) := h.app
  have hws := ws_at h2 (by simp) (by intro c hc; simp at hc; subst hc; decide) (fun c hc => (hxh c hc).1)
  have hkn := ini_key_none_line s _ x rest hx hr h2.app
  have hcnt : ¬ (countNl s (off + (printCLines ls).length) (off + (printCLines ls).length + [10].length) > 1) := by
    rw [countNl_at h2]; decide
  unfold iniGetNext
  simp only [hsec]
  unfold getNext
  simp only [iniCfg, hcmm, hws]
  by_cases hl : (decide (off < 2) && isInfix licenseWord (commentVal (.offset Gen.Tables.offsetCommentDefault)
      (slice s off (off + (printCLines ls).length)))) = true
  · simp [hl, commentEntry]
  · simp only [List.length_cons, List.length_nil, Nat.zero_add] at hkn hcnt
    simp [hl, hcnt, hkn, commentEntry]

/-- a comment block followed by white-space with more than one newline -/
theorem ini_free_comment (s : Array Nat) (off : Nat) (ls : List CLine) (gap rest : List Nat) (hne : ls ≠ [])
    (hg : ∀ l ∈ ls, CLine.GoodI l) (hls : LineStart s off) (hgap : IGap gap) (hnl : 2 ≤ (gap.filter (· == 10)).length)
    (hfo : ∀ c, rest.head? = some c → isWs c = false) (h : At s off (printCLines ls ++ (gap ++ rest))) :
    iniGetNext s off = commentEntry off (off + (printCLines ls).length) := by
  obtain ⟨l0, ls0, hcm0⟩ : ∃ l0 ls0, ls = l0 :: ls0 := by
    cases ls with
    | nil => exact absurd rfl hne
    | cons a t => exact ⟨a, t, rfl⟩
  have hmk0 := (hg l0 (by simp [hcm0])).1
  have hsec := ini_section_none_at s off _ h (by rw [hcm0, printCLines_head]; simp [(iniMark_facts hmk0).1])
  obtain ⟨w, hgw⟩ : ∃ w, gap = 10 :: w := by
    cases hgg : gap with
    | nil => exact absurd hgg hgap.ne
    | cons a t => have := hgap.head; rw [hgg] at this; simp at this; subst this; exact ⟨t, rfl⟩
  have hwne : w ≠ [] := by intro hh; subst hh; rw [hgw] at hnl; simp at hnl
  have hac : AfterCommentI (gap ++ rest) := by
    right
    refine ⟨w ++ rest, by rw [hgw]; rfl, ?_⟩
    intro c hc
    cases w with
    | nil => exact absurd rfl hwne
    | cons a t =>
      simp at hc; subst hc
      have := hgap.ws a (by simp [hgw])
      cases hm : isIniMark a with
      | false => rfl
      | true => have := (iniMark_facts hm).2.1; simp_all
  have hcmm := ini_comment_at s off ls _ hne hls hg hac h
  have hws := ws_at h.app hgap.ne hgap.ws hfo
  have hcnt : countNl s (off + (printCLines ls).length) (off + (printCLines ls).length + gap.length) > 1 := by
    rw [countNl_at h.app]; omega
  unfold iniGetNext
  simp only [hsec]
  unfold getNext
  simp only [iniCfg, hcmm, hws]
  by_cases hl : (decide (off < 2) && isInfix licenseWord (commentVal (.offset Gen.Tables.offsetCommentDefault)
      (slice s off (off + (printCLines ls).length)))) = true
  · simp [hl, commentEntry]
  · simp [hl, hcnt, commentEntry]

/-! ### walking one block -/

def IFollow (rest : List Nat) : Prop := ∀ c, rest.head? = some c → isWs c = false

theorem igap_cons {gap : List Nat} (h : IGap gap) : ∃ w, gap = 10 :: w := by
  cases hgg : gap with
  | nil => exact absurd hgg h.ne
  | cons a t => have := h.head; rw [hgg] at this; simp at this; subst this; exact ⟨t, rfl⟩

theorem preText_length (pre : List CLine) (hne : pre ≠ []) : (preText pre).length = (printCLines pre).length + 1 := by
  simp [preText, isEmpty_false_of_ne hne]

theorem walks_two {σ : Type} {next : σ → Nat → Entry × σ} {size : Nat} {c : σ} {off : Nat} {e1 e2 : Entry}
    (h1 : off < size) (h2 : off < e1.e) (h3 : next c off = (e1, c)) (h4 : e1.e < size) (h5 : e1.e < e2.e)
    (h6 : next c e1.e = (e2, c)) : Walks next size c off [e1, e2] c e2.e :=
  (Walks.one h1 h2 h3).append (Walks.one h4 h5 h6)

theorem ini_walks_block (s : Array Nat) (off : Nat) (b : IBlock) (rest : List Nat) (hg : b.Good off) (hfo : IFollow rest)
    (hls : LineStart s off) (h : At s off (b.print ++ rest)) :
    Walks (iniNext s) s.size () off (b.entries off) () (off + b.print.length) ∧ LineStart s (off + b.print.length) := by
  cases b with
  | record cm cgap r gap =>
    have e1 := ini_record_at s off cm cgap r gap rest hg hls h
    obtain ⟨⟨hcm, hcg0, hcg1, hsafe, hgap⟩, hlic⟩ := hg
    have h1 : At s off (printCLines cm ++ (cgap ++ (r.1 ++ 61 :: (r.2 ++ (gap ++ rest))))) := by
      simpa [At, IBlock.print] using h
    have h4 : At s (off + (printCLines cm).length + cgap.length + r.1.length + 1 + r.2.length) (gap ++ rest) := by
      have := h1.app.app.app.tail.app
      exact this
    have e2 := ini_ws_at_n s _ gap rest hgap.ne hgap.ws hfo h4
    have hp2 := h4.pos_lt (by simp [hgap.ne])
    have hgl : 0 < gap.length := List.length_pos_iff.mpr hgap.ne
    have hkl : 0 < r.1.length := List.length_pos_iff.mpr hsafe.key_ne
    have hlen : (IBlock.record cm cgap r gap).print.length =
        (printCLines cm).length + cgap.length + r.1.length + 1 + r.2.length + gap.length := by
      simp [IBlock.print]; omega
    have hw := walks_two (next := iniNext s) (size := s.size) (off := off) (c := ()) (e1 := iniRecEntity off (printCLines cm).length cgap.length r.1.length r.2.length (!cm.isEmpty))
      (e2 := wsEntryN (off + (printCLines cm).length + cgap.length + r.1.length + 1 + r.2.length) gap.length)
      (by omega) (by simp [iniRecEntity]; omega) (by simp [iniNext, e1]) (by simpa [iniRecEntity] using hp2)
      (by simp [iniRecEntity, wsEntryN]; omega) (by simp [iniNext, iniRecEntity, e2])
    refine ⟨?_, ?_⟩
    · simp only [IBlock.entries, hlen]
      simpa [wsEntryN, Nat.add_assoc] using hw
    · have := lineStart_of_last h4 hgap.ne hgap.last
      rw [hlen]
      simpa [Nat.add_assoc] using this
  | «section» pre name gap =>
    obtain ⟨⟨hpre, hname, hgap⟩, _⟩ := hg
    have hn2 : ∀ c ∈ name, c ≠ 93 ∧ c ≠ 10 := fun c hc => ⟨(hname c hc).1, (hname c hc).2.1⟩
    have hgl : 0 < gap.length := List.length_pos_iff.mpr hgap.ne
    obtain ⟨gw, hgw⟩ := igap_cons hgap
    -- the section header and its gap, at position `p`
    have sec : ∀ p, At s p (91 :: (name ++ 93 :: (gap ++ rest))) →
        Walks (iniNext s) s.size () p [iniSecEntry p name.length, wsEntryN (p + name.length + 2) gap.length] ()
          (p + name.length + 2 + gap.length) ∧ LineStart s (p + name.length + 2 + gap.length) := by
      intro p hp
      have e1 := ini_section_at_p s p name _ hn2 hp
      have h4 : At s (p + name.length + 2) (gap ++ rest) := by
        have := hp.tail.app.tail
        rw [show p + 1 + name.length + 1 = p + name.length + 2 by omega] at this
        exact this
      have e2 := ini_ws_at_n s _ gap rest hgap.ne hgap.ws hfo h4
      have hp1 := hp.pos_lt (by simp)
      have hp2 := h4.pos_lt (by simp [hgap.ne])
      refine ⟨?_, lineStart_of_last h4 hgap.ne hgap.last⟩
      have := walks_two (next := iniNext s) (size := s.size) (off := p) (c := ()) (e1 := iniSecEntry p name.length)
        (e2 := wsEntryN (p + name.length + 2) gap.length) hp1 (by simp [iniSecEntry]; omega) (by simp [iniNext, e1])
        (by simpa [iniSecEntry] using hp2) (by simp [iniSecEntry, wsEntryN]; omega) (by simp [iniNext, iniSecEntry, e2])
      simpa [wsEntryN] using this
    by_cases hne : pre = []
    · subst hne
      have hp : At s off (91 :: (name ++ 93 :: (gap ++ rest))) := by simpa [At, IBlock.print, preText] using h
      obtain ⟨w, l⟩ := sec off hp
      have hlen : (IBlock.section [] name gap).print.length = name.length + 2 + gap.length := by
        simp [IBlock.print, preText]; omega
      refine ⟨?_, by rw [hlen]; simpa [Nat.add_assoc] using l⟩
      simp only [IBlock.entries, hlen]
      simpa [preText, Nat.add_assoc] using w
    · have hemp := isEmpty_false_of_ne hne
      have hpl := preText_length pre hne
      have h1 : At s off (printCLines pre ++ (10 :: ((91 :: (name ++ [93])) ++ (gap ++ rest)))) := by
        simpa [At, IBlock.print, preText, hemp] using h
      have ec := ini_comment_before s off pre (91 :: (name ++ [93])) (gap ++ rest) hne hpre hls
        (by intro c hc; simp at hc; rcases hc with rfl | hc | rfl
            · decide
            · exact ⟨(hname c hc).2.2, (hname c hc).2.1⟩
            · decide)
        (by intro c hc; simp at hc; subst hc; decide)
        (by intro c hc; rw [hgw] at hc; simpa using hc.symm) h1
      have h2 : At s (off + (printCLines pre).length) ([10] ++ (91 :: (name ++ 93 :: (gap ++ rest)))) := by
        have := h1.app; simpa [At] using this
      have ew := ini_ws_at_n s _ [10] _ (by simp) (by decide) (by intro c hc; simp at hc; subst hc; decide) h2
      have hp : At s (off + (printCLines pre).length + 1) (91 :: (name ++ 93 :: (gap ++ rest))) := h2.app
      obtain ⟨w, l⟩ := sec _ hp
      have hcpos : 0 < (printCLines pre).length := by
        have := printCLines_len pre
        have : 0 < pre.length := List.length_pos_iff.mpr hne
        omega
      have w0 := walks_two (next := iniNext s) (size := s.size) (off := off) (c := ()) (e1 := commentEntry off (off + (printCLines pre).length))
        (e2 := wsEntryN (off + (printCLines pre).length) 1) (h1.pos_lt (by simp)) (by simp [commentEntry]; omega)
        (by simp [iniNext, ec]) (by simpa [commentEntry] using h2.pos_lt (by simp)) (by simp [commentEntry, wsEntryN])
        (by simp [iniNext, commentEntry, ew])
      have hlen : (IBlock.section pre name gap).print.length = (printCLines pre).length + 1 + (name.length + 2 + gap.length) := by
        simp [IBlock.print, hpl]; omega
      have hall := w0.append w
      refine ⟨?_, by rw [hlen]; simpa [Nat.add_assoc] using l⟩
      simp only [IBlock.entries, hemp, hlen, hpl]
      simpa [wsEntryN, Nat.add_assoc] using hall
  | free ls gap =>
    obtain ⟨⟨g1, g2, g3, g4⟩, _⟩ := hg
    have h' : At s off (printCLines ls ++ (gap ++ rest)) := by simpa [At, IBlock.print] using h
    have hcpos : 0 < (printCLines ls).length := by
      have := printCLines_len ls
      have : 0 < ls.length := List.length_pos_iff.mpr g1
      omega
    have hgl : 0 < gap.length := List.length_pos_iff.mpr g3.ne
    have e1 := ini_free_comment s off ls gap rest g1 g2 hls g3 g4 hfo h'
    have e2 := ini_ws_at_n s _ gap rest g3.ne g3.ws hfo h'.app
    have hw := walks_two (next := iniNext s) (size := s.size) (off := off) (c := ()) (e1 := commentEntry off (off + (printCLines ls).length))
      (e2 := wsEntryN (off + (printCLines ls).length) gap.length) (h'.pos_lt (by simp [g3.ne])) (by simp [commentEntry]; omega)
      (by simp [iniNext, e1]) (by simpa [commentEntry] using h'.app.pos_lt (by simp [g3.ne]))
      (by simp [commentEntry, wsEntryN]; omega) (by simp [iniNext, commentEntry, e2])
    refine ⟨?_, ?_⟩
    · simpa [IBlock.entries, IBlock.print, wsEntryN, Nat.add_assoc] using hw
    · have := lineStart_of_last h'.app g3.ne g3.last
      simpa [IBlock.print, Nat.add_assoc] using this

theorem ifollow_block (b : IBlock) (hg : b.Good') (l : List Nat) : IFollow (b.print ++ l) := by
  intro c hc
  cases b with
  | record cm cgap r gap =>
    obtain ⟨hcm, hcg0, hcg1, hsafe, hgap⟩ := hg
    simp only [IBlock.print] at hc
    cases hcmm : cm with
    | nil =>
      rw [hcmm, hcg0 hcmm] at hc
      simp only [printCLines, List.nil_append, List.append_assoc, List.cons_append] at hc
      obtain ⟨c0, hc0, _, _, hws⟩ := safeIni_head r hsafe (61 :: (r.2 ++ (gap ++ l)))
      rw [hc0] at hc; cases hc; exact hws
    | cons x xs =>
      rw [hcmm, List.append_assoc, printCLines_head] at hc
      cases hc
      exact (iniMark_facts (hcm x (by simp [hcmm])).1.1).2.1
  | «section» pre name gap =>
    simp only [IBlock.print] at hc
    cases hp : pre with
    | nil => rw [hp] at hc; simp [preText] at hc; subst hc; decide
    | cons x xs =>
      rw [hp] at hc
      simp only [preText, List.isEmpty_cons, Bool.false_eq_true, if_false, List.append_assoc] at hc
      rw [printCLines_head] at hc
      cases hc
      exact (iniMark_facts (hg.1 x (by simp [hp])).1).2.1
  | free ls gap =>
    simp only [IBlock.print] at hc
    cases hls : ls with
    | nil => exact absurd hls hg.1
    | cons x xs =>
      rw [hls, List.append_assoc, printCLines_head] at hc
      cases hc
      exact (iniMark_facts (hg.2.1 x (by simp [hls])).1).2.1

/-! ### views -/

theorem ini_views_block (s : Array Nat) (off : Nat) (b : IBlock) (rest : List Nat) (hg : b.Good')
    (h : At s off (b.print ++ rest)) :
    entitiesOf .ini s (b.entries off) = b.views ∧ junkOf s (b.entries off) = [] := by
  cases b with
  | record cm cgap r gap =>
    obtain ⟨hcm, hcg0, hcg1, hsafe, hgap⟩ := hg
    have h1 : At s off (printCLines cm ++ (cgap ++ (r.1 ++ 61 :: (r.2 ++ (gap ++ rest))))) := by
      simpa [At, IBlock.print] using h
    have h3 := h1.app.app
    have h4 : At s (off + (printCLines cm).length + cgap.length + r.1.length + 1) (r.2 ++ (gap ++ rest)) := h3.app.tail
    have hsz := h4.size_ge (by simp [hgap.ne])
    simp only [List.length_append] at hsz
    have e1 : slice s (off + (printCLines cm).length + cgap.length) (off + (printCLines cm).length + cgap.length + r.1.length) = r.1 :=
      h3.slice
    have e2 : slice s (off + (printCLines cm).length + cgap.length + r.1.length + 1)
        (off + (printCLines cm).length + cgap.length + r.1.length + 1 + r.2.length) = r.2 := h4.slice
    have hcs : slice s off (off + (printCLines cm).length) = printCLines cm := h1.slice
    have hv : entView .ini s (iniRecEntity off (printCLines cm).length cgap.length r.1.length r.2.length (!cm.isEmpty)) =
        some { key := r.1, raw := r.2, val := some r.2, comment := if cm.isEmpty then none else some (cvalLines cm) } := by
      simp only [entView, iniRecEntity]
      rw [pySlice_nat s _ _ (by omega) (by omega), pySlice_nat s _ _ (by omega) (by omega), e1, e2]
      cases hce : cm.isEmpty with
      | true => simp
      | false =>
        have hval := offsetVal_lines_gen cm (fun l hl => by
          have := (hcm l hl).1.1
          refine ⟨?_, (hcm l hl).2⟩
          simp [isIniMark] at this; rcases this with h | h <;> rw [h] <;> decide)
        simp [commentStyleOf, commentVal, hcs, Gen.Tables.offsetCommentDefault, hval]
    constructor
    · simp only [IBlock.entries, IBlock.views]
      rw [entitiesOf_cons_entity _ _ _ _ (by simp [iniRecEntity]), hv, entitiesOf_cons_other _ _ _ _ (by simp [wsEntryN])]; rfl
    · simp only [IBlock.entries]
      rw [junkOf_cons_other _ _ _ (by simp [iniRecEntity]), junkOf_cons_other _ _ _ (by simp [wsEntryN])]; rfl
  | «section» pre name gap =>
    constructor
    · simp only [IBlock.entries, IBlock.views]
      split
      · rw [List.nil_append, entitiesOf_cons_other _ _ _ _ (by simp [iniSecEntry]), entitiesOf_cons_other _ _ _ _ (by simp [wsEntryN])]; rfl
      · simp only [List.cons_append, List.nil_append]
        rw [entitiesOf_cons_other _ _ _ _ (by simp [commentEntry]), entitiesOf_cons_other _ _ _ _ (by simp [wsEntryN]),
          entitiesOf_cons_other _ _ _ _ (by simp [iniSecEntry]), entitiesOf_cons_other _ _ _ _ (by simp [wsEntryN])]; rfl
    · simp only [IBlock.entries]
      split
      · rw [List.nil_append, junkOf_cons_other _ _ _ (by simp [iniSecEntry]), junkOf_cons_other _ _ _ (by simp [wsEntryN])]; rfl
      · simp only [List.cons_append, List.nil_append]
        rw [junkOf_cons_other _ _ _ (by simp [commentEntry]), junkOf_cons_other _ _ _ (by simp [wsEntryN]),
          junkOf_cons_other _ _ _ (by simp [iniSecEntry]), junkOf_cons_other _ _ _ (by simp [wsEntryN])]; rfl
  | free ls gap =>
    constructor
    · simp only [IBlock.entries, IBlock.views]
      rw [entitiesOf_cons_other _ _ _ _ (by simp [commentEntry]), entitiesOf_cons_other _ _ _ _ (by simp [wsEntryN])]; rfl
    · simp only [IBlock.entries]
      rw [junkOf_cons_other _ _ _ (by simp [commentEntry]), junkOf_cons_other _ _ _ (by simp [wsEntryN])]; rfl

/-! ### garbage lines -/

/-- an inert garbage line and the newlines after it: the line is non-empty, has no `=`, no `[` and no newline, does not start
    with white-space or a comment marker; after it come newlines only (white-space before the next record would belong
    to that record's key: the key regex is `.+?=`) -/
structure IGarbage (g gap : List Nat) : Prop where
  ne : g ≠ []
  chars : ∀ c ∈ g, c ≠ 61 ∧ c ≠ 10 ∧ c ≠ 91
  head : ∀ c, g.head? = some c → isWs c = false ∧ isIniMark c = false
  gap_ne : gap ≠ []
  gap : ∀ c ∈ gap, c = 10

theorem igarb_head (g gap : List Nat) (hg : IGarbage g gap) (l : List Nat) :
    ∃ c, (g ++ l).head? = some c ∧ isWs c = false ∧ isIniMark c = false ∧ c ≠ 91 := by
  cases hgg : g with
  | nil => exact absurd hgg hg.ne
  | cons a t =>
    have h1 := hg.head a (by rw [hgg]; rfl)
    have h2 := hg.chars a (by rw [hgg]; simp)
    exact ⟨a, rfl, h1.1, h1.2, h2.2.2⟩

theorem gap_head10 (gap : List Nat) (hne : gap ≠ []) (h : ∀ c ∈ gap, c = 10) (l : List Nat) : (gap ++ l).head? = some 10 := by
  cases gap with
  | nil => exact absurd rfl hne
  | cons a t => simp [h a (by simp)]

/-- one of the end-of-junk expressions matches where a good block starts -/
theorem ini_start_match (s : Array Nat) (e : Nat) (b : IBlock) (rest : List Nat) (hg : b.Good') (hfo : IFollow rest)
    (hls : LineStart s e) (h : At s e (b.print ++ rest)) :
    ∃ r ∈ iniCfg.junkExps, (matchAt s r e).isSome := by
  cases b with
  | record cm cgap r gap =>
    obtain ⟨hcm, hcg0, hcg1, hsafe, hgap⟩ := hg
    obtain ⟨g0, hg0⟩ := igap_cons hgap
    have h1 : At s e (printCLines cm ++ (cgap ++ (r.1 ++ 61 :: (r.2 ++ (gap ++ rest))))) := by
      simpa [At, IBlock.print] using h
    by_cases hne : cm = []
    · have hcg := hcg0 hne
      have hrec : IniRecAt s e r.1.length r.2.length := by
        apply iniRecAt_of_drop s _ r (g0 ++ rest) hsafe
        have : At s e (r.1 ++ 61 :: (r.2 ++ (10 :: g0 ++ rest))) := by
          rw [hg0] at h1; simpa [At, hne, hcg, printCLines] using h1
        simpa [At, printRec] using this
      exact ⟨IniParser_reKey, by simp [iniCfg], by rw [ini_key_match s _ _ _ hrec]; rfl⟩
    · obtain ⟨w, hcg, hw⟩ := hcg1 hne
      obtain ⟨c0, hc0, _, hcmk, _⟩ := safeIni_head r hsafe (61 :: (r.2 ++ (gap ++ rest)))
      have hac : AfterCommentI (cgap ++ (r.1 ++ 61 :: (r.2 ++ (gap ++ rest)))) := by
        right
        refine ⟨w ++ (r.1 ++ 61 :: (r.2 ++ (gap ++ rest))), by simp [hcg], ?_⟩
        intro c hc
        cases hw' : w with
        | nil => rw [hw'] at hc; simp only [List.nil_append] at hc; rw [hc0] at hc; cases hc; exact hcmk
        | cons a t =>
          rw [hw'] at hc; simp at hc; subst hc
          have := (hw a (by simp [hw'])).1
          cases hm : isIniMark a with
          | false => rfl
          | true => have := (iniMark_facts hm).2.1; simp_all
      exact ⟨IniParser_reComment, by simp [iniCfg],
        by rw [ini_comment_at s e cm _ hne hls (fun x hx => (hcm x hx).1) hac h1]; rfl⟩
  | «section» pre name gap =>
    obtain ⟨hpre, hname, hgap⟩ := hg
    have hn2 : ∀ c ∈ name, c ≠ 93 ∧ c ≠ 10 := fun c hc => ⟨(hname c hc).1, (hname c hc).2.1⟩
    by_cases hne : pre = []
    · subst hne
      have hp : At s e (91 :: (name ++ 93 :: (gap ++ rest))) := by simpa [At, IBlock.print, preText] using h
      exact ⟨IniParser_reSection, by simp [iniCfg], by rw [ini_section_match s e name _ hn2 hp]; rfl⟩
    · have hemp := isEmpty_false_of_ne hne
      have h1 : At s e (printCLines pre ++ (10 :: ((91 :: (name ++ [93])) ++ (gap ++ rest)))) := by
        simpa [At, IBlock.print, preText, hemp] using h
      have hac : AfterCommentI (10 :: ((91 :: (name ++ [93])) ++ (gap ++ rest))) :=
        Or.inr ⟨_, rfl, by intro c hc; simp at hc; subst hc; decide⟩
      exact ⟨IniParser_reComment, by simp [iniCfg], by rw [ini_comment_at s e pre _ hne hls hpre hac h1]; rfl⟩
  | free ls gap =>
    obtain ⟨g1, g2, g3, g4⟩ := hg
    obtain ⟨w, hgw⟩ := igap_cons g3
    have hwne : w ≠ [] := by intro hh; subst hh; rw [hgw] at g4; simp at g4
    have hac : AfterCommentI (gap ++ rest) := by
      right
      refine ⟨w ++ rest, by rw [hgw]; rfl, ?_⟩
      intro c hc
      cases w with
      | nil => exact absurd rfl hwne
      | cons a t =>
        simp at hc; subst hc
        have := g3.ws a (by simp [hgw])
        cases hm : isIniMark a with
        | false => rfl
        | true => have := (iniMark_facts hm).2.1; simp_all
    have h' : At s e (printCLines ls ++ (gap ++ rest)) := by simpa [At, IBlock.print] using h
    exact ⟨IniParser_reComment, by simp [iniCfg], by rw [ini_comment_at s e ls _ g1 hls g2 hac h']; rfl⟩

/-- `getNext` on a garbage line (with the newlines after it) followed by a good block or by the end of the text -/
theorem ini_junk_at (s : Array Nat) (p : Nat) (g gap rest : List Nat) (hg : IGarbage g gap)
    (hnext : rest = [] ∨ ∃ r ∈ iniCfg.junkExps, (matchAt s r (p + g.length + gap.length)).isSome)
    (h : At s p (g ++ (gap ++ rest))) : iniGetNext s p = junkEntry p (p + g.length + gap.length) := by
  have hgl : 0 < g.length := List.length_pos_iff.mpr hg.ne
  have hgapl : 0 < gap.length := List.length_pos_iff.mpr hg.gap_ne
  have hsz := h.size_ge (by simp [hg.ne])
  simp only [List.length_append] at hsz
  have hgaph : ∀ l, ∀ c, (gap ++ l).head? = some c → c = 10 := by
    intro l c hc; rw [gap_head10 gap hg.gap_ne hg.gap l] at hc; cases hc; rfl
  -- inside the line
  have hin : ∀ j, j < g.length → At s (p + j) (g.drop j ++ (gap ++ rest)) := fun j hj => h.drop_at j (by omega)
  have hkey_g : ∀ j, j < g.length → matchAt s IniParser_reKey (p + j) = none := by
    intro j hj
    exact ini_key_none_line s _ (g.drop j) (gap ++ rest)
      (fun c hc => by have := hg.chars c (List.mem_of_mem_drop hc); exact ⟨this.1, this.2.1⟩) (hgaph rest) (hin j hj)
  have hsec_g : ∀ j, j < g.length → matchAt s IniParser_reSection (p + j) = none := by
    intro j hj
    apply ini_section_none_at s _ _ (hin j hj)
    rw [head?_app_ne (by intro hh; have := congrArg List.length hh; simp at this; omega)]
    intro hh
    have : (91 : Nat) ∈ g.drop j := by
      cases hd : g.drop j with
      | nil => rw [hd] at hh; simp at hh
      | cons a t => rw [hd] at hh; simp at hh; subst hh; simp
    exact (hg.chars 91 (List.mem_of_mem_drop this)).2.2 rfl
  have hcom_g : ∀ j, 0 < j → j < g.length → matchAt s IniParser_reComment (p + j) = none := by
    intro j hj0 hj
    apply ini_comment_none_mid
    intro hls
    rcases hls with hls | hls
    · omega
    · have := h.left (j - 1) (by omega)
      rw [show p + j - 1 = p + (j - 1) by omega, this] at hls
      simp only [Option.some.injEq] at hls
      exact (hg.chars _ (List.getElem_mem (by omega))).2.1 hls
  -- inside the newlines
  have hgp : ∀ j, j < gap.length → At s (p + g.length + j) (gap.drop j ++ rest) := fun j hj => h.app.drop_at j (by omega)
  have hhd : ∀ j, j < gap.length → (gap.drop j ++ rest).head? = some 10 := by
    intro j hj
    exact gap_head10 (gap.drop j) (by intro hh; have := congrArg List.length hh; simp at this; omega)
      (fun c hc => hg.gap c (List.mem_of_mem_drop hc)) rest
  have hkey_w : ∀ j, j < gap.length → matchAt s IniParser_reKey (p + g.length + j) = none := by
    intro j hj
    exact ini_key_none_line s _ [] (gap.drop j ++ rest) (by simp) (by intro c hc; rw [hhd j hj] at hc; cases hc; rfl) (hgp j hj)
  have hsec_w : ∀ j, j < gap.length → matchAt s IniParser_reSection (p + g.length + j) = none := by
    intro j hj
    exact ini_section_none_at s _ _ (hgp j hj) (by rw [hhd j hj]; decide)
  have hcom_w : ∀ j, j < gap.length → matchAt s IniParser_reComment (p + g.length + j) = none := by
    intro j hj
    exact ini_comment_none_at s _ _ (by intro c hc; rw [hhd j hj] at hc; cases hc; decide) (hgp j hj)
  -- the line itself
  obtain ⟨c0, hc0, hws0, hmk0, h91⟩ := igarb_head g gap hg (gap ++ rest)
  have hsec := ini_section_none_at s p _ h (by rw [hc0]; simp [h91])
  have hcm := ini_comment_none_at s p _ (by intro c hc; rw [hc0] at hc; cases hc; exact hmk0) h
  have hws := ws_none_at h (by intro c hc; rw [hc0] at hc; cases hc; exact hws0)
  have hkm := hkey_g 0 hgl
  simp only [Nat.add_zero] at hkm
  have hj := getJunk_at s p (p + g.length + gap.length) iniCfg.junkExps (by omega)
    (by
      intro r hr q h1 h2
      have hcases : (∃ j, 0 < j ∧ j < g.length ∧ q = p + j) ∨ (∃ j, j < gap.length ∧ q = p + g.length + j) := by
        by_cases hq : q < p + g.length
        · exact Or.inl ⟨q - p, by omega, by omega, by omega⟩
        · exact Or.inr ⟨q - (p + g.length), by omega, by omega⟩
      simp only [iniCfg, List.mem_cons, List.not_mem_nil, or_false] at hr
      rcases hcases with ⟨j, hj0, hj, rfl⟩ | ⟨j, hj, rfl⟩
      · rcases hr with rfl | rfl | rfl
        · exact hkey_g j hj
        · exact hcom_g j hj0 hj
        · exact hsec_g j hj
      · rcases hr with rfl | rfl | rfl
        · exact hkey_w j hj
        · exact hcom_w j hj
        · exact hsec_w j hj)
    (by
      rcases hnext with rfl | hm
      · right
        have he : p + g.length + gap.length = s.size := by
          have := h.le (by simp [hg.ne]); simp at this; omega
        have hend : At s (p + g.length + gap.length) [] := by simpa using h.app.app
        refine ⟨he, ?_⟩
        intro r hr
        simp only [iniCfg, List.mem_cons, List.not_mem_nil, or_false] at hr
        rcases hr with rfl | rfl | rfl
        · exact ini_key_none_line s _ [] [] (by simp) (by simp) hend
        · exact ini_comment_none_at s _ [] (by simp) hend
        · exact ini_section_none_at s _ [] hend (by simp)
      · exact Or.inl hm)
    (by omega)
  unfold iniGetNext
  simp only [hsec]
  unfold getNext
  simp only [iniCfg, hcm, hws, hkm] at hj ⊢
  simpa using hj

/-! ### the format package -/

def iniSpec : GSpec Unit IBlock where
  f := .ini
  next := fun s _ off => (iniGetNext s off, ())
  c0 := ()
  pr := IBlock.print
  en := fun off _ b => b.entries off
  tr := fun c _ => c
  vw := IBlock.views
  Good' := fun _ b => b.Good'
  Lic := fun off b => b.NoLicense off
  Garb := fun _ g gap => IGarbage g gap
  JOk := fun _ => True
  Follow := IFollow
  Inv := LineStart

theorem IBlock.print_len2 (b : IBlock) (hg : b.Good') : 2 ≤ b.print.length := by
  cases b with
  | record cm cgap r gap =>
    have := List.length_pos_iff.mpr hg.2.2.2.1.key_ne
    simp [IBlock.print]; omega
  | «section» pre name gap => simp [IBlock.print]; omega
  | free ls gap =>
    have := printCLines_len ls
    have h1 : 0 < ls.length := List.length_pos_iff.mpr hg.1
    have h2 : 0 < gap.length := List.length_pos_iff.mpr hg.2.2.1.ne
    simp only [IBlock.print, List.length_append]; omega

theorem iniSpec_laws : iniSpec.Laws where
  walk_def := fun _ => rfl
  inv0 := fun _ => Or.inl rfl
  follow_nil := by intro c hc; cases hc
  block_walk := fun s b _ off rest hg hl h hfo hi => ini_walks_block s off b rest ⟨hg, hl⟩ hfo hi h
  block_follow := fun _ b rest hg => ifollow_block b hg rest
  block_views := fun s b _ off rest hg h _ => ini_views_block s off b rest hg h
  junk_at := by
    intro s _ p g gap rest hg h hi hnext
    have hgaplast : gap.getLast? = some 10 := by
      cases hl : gap.getLast? with
      | none => rw [List.getLast?_eq_none_iff] at hl; exact absurd hl hg.gap_ne
      | some c => rw [hg.gap c (List.mem_of_getLast? hl)]
    have hls : LineStart s (p + g.length + gap.length) := lineStart_of_last h.app hg.gap_ne hgaplast
    refine ⟨?_, hls⟩
    have : iniGetNext s p = junkEntry p (p + g.length + gap.length) := by
      apply ini_junk_at s p g gap rest hg _ h
      rcases hnext with rfl | ⟨b, rest', rfl, hb, _, hfo⟩
      · exact Or.inl rfl
      · exact Or.inr (ini_start_match s _ b rest' hb hfo hls h.app.app)
    show (iniGetNext s p, ()) = _
    rw [this]
  garb_follow := by
    intro _ g gap rest hg c hc
    obtain ⟨c0, hc0, hws, _, _⟩ := igarb_head g gap hg (gap ++ rest)
    rw [hc0] at hc; cases hc; exact hws
  garb_pos := fun _ g gap hg => List.length_pos_iff.mpr hg.ne
  lic_after_garb := by
    intro _ g gap off b hg
    have h1 : 0 < g.length := List.length_pos_iff.mpr hg.ne
    have h2 : 0 < gap.length := List.length_pos_iff.mpr hg.gap_ne
    cases b with
    | record cm cgap r gap' => intro hlt; omega
    | «section» pre name gap' => trivial
    | free ls gap' => trivial

/-- only the first block can be subject to the License rule (offset < 2) -/
theorem iniGoodAll (xs : List (GB IBlock)) (hg : ∀ x ∈ xs, x.b.Good' ∧ ∀ g gap, x.junk = some (g, gap) → IGarbage g gap) :
    ∀ off, (∀ x, xs.head? = some x → x.junk = none → x.b.NoLicense off) →
      GoodAll iniSpec.gpr iniSpec.gtr iniSpec.GGood off () xs := by
  induction xs with
  | nil => intro off _; trivial
  | cons x xs ih =>
    intro off hl
    refine ⟨⟨(hg x (by simp)).1, hl x rfl, fun g gap h => ⟨(hg x (by simp)).2 g gap h, trivial⟩⟩, ih (fun y hy => hg y (by simp [hy])) _ ?_⟩
    intro y _ _
    have := x.b.print_len2 (hg x (by simp)).1
    have hlen : 2 ≤ (iniSpec.gpr x).length := by
      simp only [GSpec.gpr, List.length_append]
      show 2 ≤ x.jtext.length + x.b.print.length
      omega
    cases hb : y.b with
    | record cm cgap r gap' => intro hlt; omega
    | «section» pre name gap' => trivial
    | free ls gap' => trivial

/-- ini: the whole-file theorem, with garbage lines -/
theorem walk_ini_doc (xs : List (GB IBlock)) (tail : Option (List Nat × List Nat))
    (hg : ∀ x ∈ xs, x.b.Good' ∧ ∀ g gap, x.junk = some (g, gap) → IGarbage g gap)
    (htail : ∀ g gap, tail = some (g, gap) → IGarbage g gap)
    (hlic : ∀ x, xs.head? = some x → x.junk = none → x.b.NoLicense 0) :
    walk .ini (iniSpec.gprint xs tail).toArray = .done (iniSpec.gentries xs tail) ∧
      entitiesOf .ini (iniSpec.gprint xs tail).toArray (iniSpec.gentries xs tail) = iniSpec.gviews xs ∧
      junkOf (iniSpec.gprint xs tail).toArray (iniSpec.gentries xs tail) = gbJunk xs tail :=
  gdoc iniSpec iniSpec_laws xs tail (iniGoodAll xs hg 0 hlic) htail

end C02P

/-
C20 (round 4) — `AddRemove.__iter__` for ALL inputs (duplicates on either side) equals the closed
form `C20M.specD`.  Helper lemmas; the property theorems are in `Props/C20.lean`.  Core Lean only.
-/
import CLModel.Compare.AddRemove
import CLModel.Compare.AddRemoveObj
import CLModel.Proofs.AddRemove
import CLModel.Proofs.C03AddRemove
namespace C20P
open AR C20M

variable {α : Type} [BEq α] [LawfulBEq α] {β : Type}

/-! ### `lastIdx` / `dedupLast` -/

theorem lastIdx_cons_of_mem (x k : α) (xs : List α) (h : k ∈ xs) :
    lastIdx (x :: xs) k = lastIdx xs k + 1 := by
  simp [lastIdx, h]

theorem lastIdx_cons_of_not_mem (x k : α) (xs : List α) (h : k ∉ xs) :
    lastIdx (x :: xs) k = 0 := by
  simp [lastIdx, h]

theorem getElem?_lastIdx (l : List α) (k : α) (h : k ∈ l) : l[lastIdx l k]? = some k := by
  induction l with
  | nil => simp at h
  | cons x xs ih =>
    by_cases hk : k ∈ xs
    · rw [lastIdx_cons_of_mem x k xs hk, List.getElem?_cons_succ]
      exact ih hk
    · rw [lastIdx_cons_of_not_mem x k xs hk]
      rw [List.mem_cons] at h
      rcases h with rfl | h
      · simp
      · exact absurd h hk

theorem lastIdx_inj (l : List α) (y z : α) (hy : y ∈ l) (hz : z ∈ l)
    (h : lastIdx l y = lastIdx l z) : y = z := by
  have h1 := getElem?_lastIdx l y hy
  have h2 := getElem?_lastIdx l z hz
  rw [h, h2] at h1
  exact (Option.some.inj h1).symm

theorem mem_dedupLast (l : List α) (y : α) : y ∈ dedupLast l ↔ y ∈ l := by
  induction l with
  | nil => simp [dedupLast]
  | cons x xs ih =>
    simp only [dedupLast]
    split
    · rename_i hx
      have hx' : x ∈ xs := by simpa using hx
      rw [ih, List.mem_cons]
      constructor
      · exact .inr
      · rintro (rfl | h); exact hx'; exact h
    · rw [List.mem_cons, List.mem_cons, ih]

theorem dedupLast_nodup (l : List α) : (dedupLast l).Nodup := by
  induction l with
  | nil => simp [dedupLast]
  | cons x xs ih =>
    simp only [dedupLast]
    split
    · exact ih
    · rename_i hx
      rw [List.nodup_cons, mem_dedupLast]
      exact ⟨by simpa using hx, ih⟩

/-- a duplicate-free list is its own `dedupLast` -/
theorem dedupLast_of_nodup (l : List α) (h : l.Nodup) : dedupLast l = l := by
  induction l with
  | nil => rfl
  | cons x xs ih =>
    rw [List.nodup_cons] at h
    simp [dedupLast, h.1, ih h.2]

/-- along `dedupLast l` the last indices increase strictly -/
theorem lastIdx_pairwise (l : List α) :
    ((dedupLast l).map (fun y => ((lastIdx l y : Nat) : Int))).Pairwise (· < ·) := by
  induction l with
  | nil => simp [dedupLast]
  | cons x xs ih =>
    have hshift : (dedupLast xs).map (fun y => ((lastIdx (x :: xs) y : Nat) : Int))
        = ((dedupLast xs).map (fun y => ((lastIdx xs y : Nat) : Int))).map (· + 1) := by
      rw [List.map_map]
      apply List.map_congr_left
      intro y hy
      rw [mem_dedupLast] at hy
      simp [lastIdx_cons_of_mem x y xs hy]
    have ih' : ((dedupLast xs).map (fun y => ((lastIdx (x :: xs) y : Nat) : Int))).Pairwise (· < ·) := by
      rw [hshift, List.pairwise_map]
      exact ih.imp (fun h => by omega)
    simp only [dedupLast]
    split
    · exact ih'
    · rename_i hx
      have hx' : x ∉ xs := by simpa using hx
      rw [List.map_cons, List.pairwise_cons]
      refine ⟨?_, ih'⟩
      intro b hb
      rw [hshift, List.mem_map] at hb
      obtain ⟨c, hc, rfl⟩ := hb
      rw [List.mem_map] at hc
      obtain ⟨y, _, rfl⟩ := hc
      rw [lastIdx_cons_of_not_mem x x xs hx']
      omega

/-! ### a dict filled by `for i, x in enumerate(l): d[x] = f(i)` -/

theorem dget_fold_last (f : Nat → β) (l : List α) (n : Nat) (d : List (α × β)) (k : α) :
    dget ((l.zipIdx n).foldl (fun d (x, i) => dset d x (f i)) d) k
      = if l.contains k then some (f (n + lastIdx l k)) else dget d k := by
  induction l generalizing n d with
  | nil => simp
  | cons x xs ih =>
    rw [List.zipIdx_cons, List.foldl_cons, ih, dget_dset, List.contains_cons]
    by_cases hk : k ∈ xs
    · have h1 : xs.contains k = true := by simpa using hk
      rw [lastIdx_cons_of_mem x k xs hk]
      simp only [h1, if_true, Bool.or_true]
      congr 2
      omega
    · have h1 : xs.contains k = false := by simpa using hk
      rw [lastIdx_cons_of_not_mem x k xs hk]
      simp only [h1, Bool.false_eq_true, if_false, Bool.or_false, Nat.add_zero]
      by_cases hx : x = k
      · subst hx; simp
      · have h3 : (x == k) = false := by simpa using hx
        have h4 : (k == x) = false := by simpa using fun e : k = x => hx e.symm
        simp [h3, h4]

/-- the value `leftMap` stores for a left key: (index of its LAST occurrence, -1) -/
def lvalD (l : List α) (y : α) : α × (Int × Int) := (y, (((lastIdx l y : Nat) : Int), -1))

theorem dget_leftMap (l : List α) (k : α) :
    dget (leftMap l) k = if l.contains k then some (((lastIdx l k : Nat) : Int), -1) else none := by
  have := dget_fold_last (fun i => (((i : Nat) : Int), (-1 : Int))) l 0 [] k
  simpa [leftMap, dget] using this

theorem leftMap_keys_nodup (l : List α) : ((leftMap l).map (·.1)).Nodup := by
  rw [leftMap_keys]
  exact foldl_ins_nodup _ _ List.nodup_nil

theorem mem_leftMap_keys (l : List α) (y : α) : y ∈ (leftMap l).map (·.1) ↔ y ∈ l := by
  rw [leftMap_keys, mem_foldl_ins]
  simp

/-- in a dict (duplicate-free keys) every entry is what `get` returns -/
theorem dget_of_mem (d : List (α × β)) (hd : (d.map (·.1)).Nodup) (p : α × β) (hp : p ∈ d) :
    dget d p.1 = some p.2 := by
  induction d with
  | nil => simp at hp
  | cons q d ih =>
    rw [List.map_cons, List.nodup_cons] at hd
    rw [dget_cons]
    rw [List.mem_cons] at hp
    rcases hp with rfl | hp
    · simp
    · have : ¬ q.1 = p.1 := fun e => hd.1 (e ▸ List.mem_map_of_mem hp)
      simp only [beq_iff_eq, this, if_false]
      exact ih hd.2 hp

/-- every entry of `leftMap l` is `lvalD l y` for a left key `y` -/
theorem mem_leftMap (l : List α) (p : α × (Int × Int)) (hp : p ∈ leftMap l) :
    p.1 ∈ l ∧ p = lvalD l p.1 := by
  have hk : p.1 ∈ l := (mem_leftMap_keys l p.1).1 (List.mem_map_of_mem hp)
  refine ⟨hk, ?_⟩
  have h1 := dget_of_mem (leftMap l) (leftMap_keys_nodup l) p hp
  rw [dget_leftMap] at h1
  have : l.contains p.1 = true := by simpa using hk
  rw [this, if_pos rfl] at h1
  have h2 := Option.some.inj h1
  rw [lvalD, h2]

/-- the entries of `leftMap l` have pairwise different left indices -/
theorem leftMap_pairwise (l : List α) : (leftMap l).Pairwise (fun a b => a.2.1 ≠ b.2.1) := by
  have h := leftMap_keys_nodup l
  rw [List.Nodup, List.pairwise_map] at h
  refine List.Pairwise.imp_of_mem ?_ h
  intro a b ha hb hne e
  obtain ⟨ha1, ha2⟩ := mem_leftMap l a ha
  obtain ⟨hb1, hb2⟩ := mem_leftMap l b hb
  rw [ha2, hb2] at e
  simp only [lvalD] at e
  exact hne (lastIdx_inj l a.1 b.1 ha1 hb1 (by omega))

theorem lvalD_mem_leftMap (l : List α) (y : α) (hy : y ∈ l) : lvalD l y ∈ leftMap l := by
  have := (mem_leftMap_keys l y).2 hy
  rw [List.mem_map] at this
  obtain ⟨p, hp, rfl⟩ := this
  rw [← (mem_leftMap l p hp).2]
  exact hp

omit [BEq α] [LawfulBEq α] in
/-- filtering a list on the value of an injective-on-the-list function leaves one element -/
theorem filter_eq_singleton {γ : Type} [BEq γ] [LawfulBEq γ] (f : β → γ) (d : List β)
    (hd : d.Pairwise (fun a b => f a ≠ f b)) (p : β) (hp : p ∈ d) :
    d.filter (fun q => f q == f p) = [p] := by
  induction d with
  | nil => simp at hp
  | cons q d ih =>
    rw [List.pairwise_cons] at hd
    rw [List.mem_cons] at hp
    rw [List.filter_cons]
    rcases hp with rfl | hp
    · have : d.filter (fun q => f q == f p) = [] := by
        rw [List.filter_eq_nil_iff]
        intro b hb
        have := hd.1 b hb
        simp only [beq_iff_eq]
        exact fun e => this e.symm
      simp [this]
    · have : (f q == f p) = false := by
        rw [beq_eq_false_iff_ne]
        exact hd.1 p hp
      rw [this]
      exact ih hd.2 hp

omit [LawfulBEq α] in
theorem dget_append (a b : List (α × β)) (k : α) :
    dget (a ++ b) k = match dget a k with | some v => some v | none => dget b k := by
  induction a with
  | nil => simp [dget]
  | cons p a ih =>
    rw [List.cons_append, dget_cons, dget_cons]
    split
    · rfl
    · exact ih

theorem not_mem_keys_of_dget_none (d : List (α × β)) (k : α) (h : dget d k = none) :
    k ∉ d.map (·.1) := by
  have := dget_isSome d k
  rw [h] at this
  intro hk
  have hc : (d.map (·.1)).contains k = true := by simpa using hk
  rw [hc] at this
  simp at this

/-! ### the loop over `right`, duplicates allowed -/

/-- the order map after the loop over `right`, as a recursion on `right` alone: `acc` = entries
    appended so far (right-only keys), `lo` = `left_offset`, `n` = index in `right` -/
def rightAddsD (l : List α) : List α → Nat → Int → List (α × (Int × Int)) → List (α × (Int × Int))
  | [], _, _, acc => acc
  | x :: xs, n, lo, acc =>
    if l.contains x then rightAddsD l xs (n + 1) ((lastIdx l x : Nat) : Int) acc
    else match dget acc x with
      | some v => rightAddsD l xs (n + 1) v.1 acc
      | none => rightAddsD l xs (n + 1) lo (acc ++ [(x, (lo, (n : Int)))])

omit [LawfulBEq α] in
theorem rightStep_some (d : List (α × (Int × Int))) (lo : Int) (ri : List α) (x : α) (n : Nat)
    (v : Int × Int) (h : dget d x = some v) :
    (rightStep (d, lo, ri) (x, n)).1 = d ∧ (rightStep (d, lo, ri) (x, n)).2.1 = v.1 := by
  simp only [rightStep, h, and_self]

omit [LawfulBEq α] in
theorem rightStep_none (d : List (α × (Int × Int))) (lo : Int) (ri : List α) (x : α) (n : Nat)
    (h : dget d x = none) :
    (rightStep (d, lo, ri) (x, n)).1 = dset d x (lo, (n : Int)) ∧
    (rightStep (d, lo, ri) (x, n)).2.1 = lo := by
  simp only [rightStep, h, and_self]

theorem right_fold_fstD (l r : List α) (n : Nat) (acc : List (α × (Int × Int))) (lo : Int)
    (ri : List α) (hacc : ∀ p ∈ acc, p.1 ∉ l) :
    ((r.zipIdx n).foldl rightStep (leftMap l ++ acc, lo, ri)).1
      = leftMap l ++ rightAddsD l r n lo acc := by
  induction r generalizing n acc lo ri with
  | nil => simp [rightAddsD]
  | cons x xs ih =>
    simp only [List.zipIdx_cons, List.foldl_cons]
    have hget := dget_append (leftMap l) acc x
    rw [dget_leftMap] at hget
    by_cases hx : x ∈ l
    · have hc : l.contains x = true := by simpa using hx
      simp only [hc, if_true] at hget
      obtain ⟨h1, h2⟩ := rightStep_some _ lo ri x n _ hget
      generalize rightStep (leftMap l ++ acc, lo, ri) (x, n) = st at h1 h2
      obtain ⟨d, lo', ri'⟩ := st
      simp only at h1 h2
      subst h1 h2
      rw [ih _ _ _ _ hacc]
      simp [rightAddsD, hx]
    · have hc : l.contains x = false := by simpa using hx
      simp only [hc, Bool.false_eq_true, if_false] at hget
      cases hv : dget acc x with
      | some v =>
        rw [hv] at hget
        obtain ⟨h1, h2⟩ := rightStep_some _ lo ri x n _ hget
        generalize rightStep (leftMap l ++ acc, lo, ri) (x, n) = st at h1 h2
        obtain ⟨d, lo', ri'⟩ := st
        simp only at h1 h2
        subst h1 h2
        rw [ih _ _ _ _ hacc]
        simp [rightAddsD, hx, hv]
      | none =>
        rw [hv] at hget
        obtain ⟨h1, h2⟩ := rightStep_none _ lo ri x n hget
        generalize rightStep (leftMap l ++ acc, lo, ri) (x, n) = st at h1 h2
        obtain ⟨d, lo', ri'⟩ := st
        simp only at h1 h2
        subst h1 h2
        rw [dset_of_not_mem _ (not_mem_keys_of_dget_none _ _ hget), List.append_assoc, ih]
        · simp [rightAddsD, hx, hv]
        · intro p hp
          rw [List.mem_append, List.mem_singleton] at hp
          rcases hp with hp | rfl
          · exact hacc p hp
          · exact hx

/-- `addRemove` for ALL inputs: sort `leftMap l ++ rightAddsD …`, label by membership -/
theorem addRemove_eqD (l r : List α) :
    addRemove l r = ((leftMap l ++ rightAddsD l r 0 (-1) []).mergeSort
      (fun a b => leKey a.2 b.2)).map (fun p => (lab l r p.1, p.1)) := by
  rw [addRemove_gen, orderMap]
  have := right_fold_fstD l r 0 [] (-1) [] (by simp)
  rw [List.append_nil] at this
  rw [this]

/-! ### shape of the appended entries -/

/-- a possible `left_offset`: the initial -1 or the last index of a left key -/
def Good (l : List α) (v : Int) : Prop := v = -1 ∨ ∃ y ∈ l, v = ((lastIdx l y : Nat) : Int)

theorem mem_of_dget_some (d : List (α × β)) (k : α) (v : β) (h : dget d k = some v) : (k, v) ∈ d := by
  induction d with
  | nil => simp [dget] at h
  | cons p d ih =>
    rw [dget_cons] at h
    split at h
    · rename_i hk
      have h1 := eq_of_beq hk
      have h2 := Option.some.inj h
      rw [← h1, ← h2]
      exact List.mem_cons_self
    · exact List.mem_cons_of_mem _ (ih h)

/-- what is invariant about the appended entries -/
def AccOk (l : List α) (acc : List (α × (Int × Int))) : Prop :=
  acc.Pairwise (fun a b => a.2.2 < b.2.2) ∧ ∀ p ∈ acc, p.1 ∉ l ∧ Good l p.2.1 ∧ 0 ≤ p.2.2

theorem rightAddsD_ok (l r : List α) (n : Nat) (lo : Int) (acc : List (α × (Int × Int)))
    (h1 : AccOk l acc) (h2 : ∀ p ∈ acc, p.2.2 < (n : Int)) (hlo : Good l lo) :
    AccOk l (rightAddsD l r n lo acc) := by
  induction r generalizing n lo acc with
  | nil => exact h1
  | cons x xs ih =>
    have h2' : ∀ p ∈ acc, p.2.2 < ((n + 1 : Nat) : Int) := by
      intro p hp
      have := h2 p hp
      omega
    simp only [rightAddsD]
    split
    · rename_i hx
      exact ih _ _ _ h1 h2' (.inr ⟨x, by simpa using hx, rfl⟩)
    · rename_i hx
      split
      · rename_i v hv
        exact ih _ _ _ h1 h2' ((h1.2 _ (mem_of_dget_some _ _ _ hv)).2.1)
      · refine ih _ _ _ ⟨?_, ?_⟩ ?_ hlo
        · rw [List.pairwise_append]
          refine ⟨h1.1, by simp, ?_⟩
          intro a ha b hb
          rw [List.mem_singleton] at hb
          subst hb
          exact h2 a ha
        · intro p hp
          rw [List.mem_append, List.mem_singleton] at hp
          rcases hp with hp | rfl
          · exact h1.2 p hp
          · exact ⟨by simpa using hx, hlo, by simp⟩
        · intro p hp
          rw [List.mem_append, List.mem_singleton] at hp
          rcases hp with hp | rfl
          · exact h2' p hp
          · simp only [Int.natCast_add, Int.cast_ofNat_Int]
            omega

theorem addsD_ok (l r : List α) : AccOk l (rightAddsD l r 0 (-1) []) :=
  rightAddsD_ok l r 0 (-1) [] ⟨List.Pairwise.nil, by simp⟩ (by simp) (.inl rfl)

/-! ### sorting the order map -/

/-- the bucket keys: -1, then the last indices of the left keys in increasing order -/
def bkeysD (l : List α) : List Int := -1 :: (dedupLast l).map (fun y => ((lastIdx l y : Nat) : Int))

theorem bkeysD_pairwise (l : List α) : (bkeysD l).Pairwise (· < ·) := by
  rw [bkeysD, List.pairwise_cons]
  refine ⟨?_, lastIdx_pairwise l⟩
  intro k hk
  rw [List.mem_map] at hk
  obtain ⟨y, _, rfl⟩ := hk
  omega

theorem good_mem_bkeysD (l : List α) (v : Int) (h : Good l v) : v ∈ bkeysD l := by
  rcases h with rfl | ⟨y, hy, rfl⟩
  · exact List.mem_cons_self
  · exact List.mem_cons_of_mem _ (List.mem_map.2 ⟨y, (mem_dedupLast l y).2 hy, rfl⟩)

theorem sort_omD (l : List α) (A : List (α × (Int × Int))) (hA : AccOk l A) :
    (leftMap l ++ A).mergeSort (fun a b => leKey a.2 b.2)
      = A.filter (fun p => p.2.1 == (-1 : Int)) ++
        (dedupLast l).flatMap (fun y => lvalD l y :: A.filter (fun p => p.2.1 == ((lastIdx l y : Nat) : Int))) := by
  have hL : ∀ p ∈ leftMap l, p.2.2 = -1 ∧ 0 ≤ p.2.1 ∧ Good l p.2.1 := by
    intro p hp
    obtain ⟨h1, h2⟩ := mem_leftMap l p hp
    rw [h2]
    simp only [lvalD]
    exact ⟨trivial, by omega, .inr ⟨p.1, h1, rfl⟩⟩
  -- any two entries at different positions have different order pairs
  have hne : (leftMap l ++ A).Pairwise (fun a b => a.2 ≠ b.2) := by
    rw [List.pairwise_append]
    refine ⟨(leftMap_pairwise l).imp (fun h e => h (by rw [e])),
      hA.1.imp (fun h e => by rw [e] at h; omega), ?_⟩
    intro a ha b hb e
    have h1 := (hL a ha).1
    have h2 := (hA.2 b hb).2.2
    rw [e] at h1
    omega
  rw [mergeSort_eq_bucket (β := α × (Int × Int)) (K := Int) (fun a b => leKey a.2 b.2)
    (fun p => p.2.1) (· < ·) (bkeysD l) (leftMap l ++ A)]
  · rw [bkeysD, List.flatMap_cons, List.flatMap_map, List.filter_append]
    have h0 : (leftMap l).filter (fun p => p.2.1 == (-1 : Int)) = [] := by
      rw [List.filter_eq_nil_iff]
      intro p hp
      have := (hL p hp).2.1
      simp only [beq_iff_eq]
      omega
    rw [h0, List.nil_append]
    congr 1
    apply flatMap_congr'
    intro y hy
    rw [mem_dedupLast] at hy
    rw [List.filter_append]
    have := filter_eq_singleton (fun p : α × (Int × Int) => p.2.1) (leftMap l) (leftMap_pairwise l)
      (lvalD l y) (lvalD_mem_leftMap l y hy)
    simp only [lvalD] at this
    rw [this]
    rfl
  · intro a b c; exact leKey_trans _ _ _
  · intro a b; exact leKey_total _ _
  · intro a ha b hb h1 h2
    have hv := leKey_antisymm _ _ h1 h2
    exact List.Pairwise.forall_of_forall_of_flip (R := fun a b => a.2 = b.2 → a = b) (fun _ _ _ => rfl)
      (hne.imp (fun h e => absurd e h)) (hne.imp (fun h e => absurd e.symm h)) ha hb hv
  · exact (bkeysD_pairwise l).imp (fun h => Int.ne_of_lt h)
  · exact bkeysD_pairwise l
  · intro p hp
    rw [List.mem_append] at hp
    rcases hp with hp | hp
    · exact good_mem_bkeysD l _ (hL p hp).2.2
    · exact good_mem_bkeysD l _ (hA.2 p hp).2.1
  · intro a b h
    simp only [leKey, Bool.or_eq_true, decide_eq_true_eq]
    exact .inl h
  · rw [List.pairwise_append]
    refine ⟨(leftMap_pairwise l).imp (fun h e => absurd e h), hA.1.imp ?_, ?_⟩
    · intro a b h e
      simp only [leKey, Bool.or_eq_true, Bool.and_eq_true, decide_eq_true_eq, beq_iff_eq]
      omega
    · intro a ha b hb e
      have h1 := (hL a ha).1
      have h2 := (hA.2 b hb).2.2
      simp only [leKey, Bool.or_eq_true, Bool.and_eq_true, decide_eq_true_eq, beq_iff_eq]
      omega

/-! ### connection with `anchorsD` / `specD` -/

/-- the left index standing for an anchor -/
def codeD (l : List α) : Option α → Int
  | none => -1
  | some y => ((lastIdx l y : Nat) : Int)

/-- the appended entries `acc` and the emitted pairs `acc'` describe the same thing -/
def Rel (l : List α) (acc : List (α × (Int × Int))) (acc' : List (Option α × α)) : Prop :=
  acc.map (fun q => (q.2.1, q.1)) = acc'.map (fun p => (codeD l p.1, p.2))

omit [LawfulBEq α] in
theorem find_rel (l : List α) (acc : List (α × (Int × Int))) (acc' : List (Option α × α))
    (h : Rel l acc acc') (x : α) :
    (dget acc x).map (·.1) = (acc'.find? (fun p => p.2 == x)).map (fun p => codeD l p.1) := by
  induction acc generalizing acc' with
  | nil =>
    cases acc' with
    | nil => simp [dget]
    | cons p t => simp [Rel] at h
  | cons q acc ih =>
    cases acc' with
    | nil => simp [Rel] at h
    | cons p t =>
      simp only [Rel, List.map_cons, List.cons.injEq, Prod.mk.injEq] at h
      obtain ⟨⟨h1, h2⟩, h3⟩ := h
      rw [dget_cons, List.find?_cons, h2]
      cases p.2 == x
      · simp only [Bool.false_eq_true, if_false]
        exact ih t h3
      · simp [h1]

omit [LawfulBEq α] in
theorem rightAddsD_anchorsD (l r : List α) (n : Nat) (lo : Int) (cur : Option α)
    (acc : List (α × (Int × Int))) (acc' : List (Option α × α))
    (h : Rel l acc acc') (hlo : lo = codeD l cur) :
    Rel l (rightAddsD l r n lo acc) (anchorsD l r cur acc') := by
  induction r generalizing n lo cur acc acc' with
  | nil => exact h
  | cons x xs ih =>
    simp only [rightAddsD, anchorsD]
    split
    · exact ih _ _ (some x) _ _ h rfl
    · have hf := find_rel l acc acc' h x
      cases hv : dget acc x with
      | some v =>
        rw [hv] at hf
        cases hp : acc'.find? (fun p => p.2 == x) with
        | none => rw [hp] at hf; simp at hf
        | some p =>
          rw [hp] at hf
          simp only [Option.map_some, Option.some.injEq] at hf
          exact ih _ _ p.1 _ _ h hf
      | none =>
        rw [hv] at hf
        cases hp : acc'.find? (fun p => p.2 == x) with
        | some p => rw [hp] at hf; simp at hf
        | none =>
          refine ih _ _ cur _ _ ?_ hlo
          simp only [Rel, List.map_append, List.map_cons, List.map_nil]
          rw [h, hlo]

/-- anchors are `none` or left keys -/
def AncOk (l : List α) (o : Option α) : Prop := o = none ∨ ∃ y ∈ l, o = some y

theorem anchorsD_mem (l r : List α) (cur : Option α) (acc : List (Option α × α))
    (hc : AncOk l cur) (ha : ∀ p ∈ acc, AncOk l p.1) :
    ∀ p ∈ anchorsD l r cur acc, AncOk l p.1 := by
  induction r generalizing cur acc with
  | nil => exact ha
  | cons x xs ih =>
    simp only [anchorsD]
    split
    · rename_i hx
      exact ih _ _ (.inr ⟨x, by simpa using hx, rfl⟩) ha
    · split
      · rename_i p hp
        exact ih _ _ (ha p (List.mem_of_find?_eq_some hp)) ha
      · refine ih _ _ hc ?_
        intro p hp
        rw [List.mem_append, List.mem_singleton] at hp
        rcases hp with hp | rfl
        · exact ha p hp
        · exact hc

theorem addsD_eq (l r : List α) (c : Int) (a : Option α)
    (hc : ∀ o : Option α, AncOk l o → (codeD l o == c) = (o == a)) :
    ((rightAddsD l r 0 (-1) []).filter (fun p => p.2.1 == c)).map (fun p => (lab l r p.1, p.1))
      = ((anchorsD l r none []).filter (fun p => p.1 == a)).map (fun p => (Label.add, p.2)) := by
  have h1 : ((rightAddsD l r 0 (-1) []).filter (fun p => p.2.1 == c)).map (fun p => (lab l r p.1, p.1))
      = (((rightAddsD l r 0 (-1) []).map (fun q => (q.2.1, q.1))).filter (fun p => p.1 == c)).map
          (fun p => (Label.add, p.2)) := by
    rw [List.filter_map, List.map_map]
    apply List.map_congr_left
    intro p hp
    have := ((addsD_ok l r).2 p (List.mem_filter.1 hp).1).1
    simp [lab, this]
  have hrel : Rel l (rightAddsD l r 0 (-1) []) (anchorsD l r none []) :=
    rightAddsD_anchorsD l r 0 (-1) none [] [] rfl rfl
  rw [h1, hrel, List.filter_map, List.map_map]
  have h2 : (anchorsD l r none []).filter ((fun p => p.1 == c) ∘ fun p => (codeD l p.1, p.2))
      = (anchorsD l r none []).filter (fun p => p.1 == a) := by
    apply List.filter_congr
    intro p hp
    exact hc _ (anchorsD_mem l r none [] (.inl rfl) (by simp) p hp)
  rw [h2]
  rfl

/-- **`AddRemove.__iter__` for ALL inputs is the closed form `specD`.** -/
theorem addRemove_eq_specD (l r : List α) : addRemove l r = specD l r := by
  rw [addRemove_eqD, sort_omD l _ (addsD_ok l r), List.map_append, List.map_flatMap, specD]
  simp only
  congr 1
  · apply addsD_eq
    rintro o (rfl | ⟨y, _, rfl⟩)
    · rfl
    · simp only [codeD]
      have : ¬ ((lastIdx l y : Nat) : Int) = -1 := by omega
      simp [this]
  · apply flatMap_congr'
    intro y hy
    rw [mem_dedupLast] at hy
    rw [List.map_cons]
    congr 1
    · simp [lab, lvalD, hy]
    · apply addsD_eq
      rintro o (rfl | ⟨z, hz, rfl⟩)
      · simp only [codeD]
        have : ¬ (-1 : Int) = ((lastIdx l y : Nat) : Int) := by omega
        simp [this]
      · simp only [codeD]
        rw [Bool.eq_iff_iff]
        simp only [beq_iff_eq, Option.some.injEq]
        constructor
        · intro e
          exact lastIdx_inj l z y hz hy (by omega)
        · rintro rfl; rfl

/-! ### corollaries -/

/-- on duplicate-free inputs the two closed forms coincide (both are `addRemove`) -/
theorem specD_eq_spec (l r : List α) (hl : l.Nodup) (hr : r.Nodup) : specD l r = spec l r := by
  rw [← addRemove_eq_specD, AR.addRemove_eq_spec l r hl hr]

omit [LawfulBEq α] in
theorem anchors_congr (l l' r : List α) (cur : Option α) (h : ∀ x, l.contains x = l'.contains x) :
    anchors l r cur = anchors l' r cur := by
  induction r generalizing cur with
  | nil => rfl
  | cons x xs ih => simp only [anchors, h x, ih]

/-- as long as no RIGHT-ONLY key is repeated in `right`, `anchorsD` is `anchors` -/
theorem anchorsD_eq_anchors (l r : List α) (cur : Option α) (acc : List (Option α × α))
    (hr : (r.filter (fun x => !l.contains x)).Nodup)
    (hacc : ∀ y ∈ r.filter (fun x => !l.contains x), y ∉ acc.map (·.2)) :
    anchorsD l r cur acc = acc ++ anchors l r cur := by
  induction r generalizing cur acc with
  | nil => simp [anchorsD, anchors]
  | cons x xs ih =>
    simp only [anchorsD, anchors]
    by_cases hx : l.contains x = true
    · simp only [hx, if_true]
      simp only [List.filter_cons, hx, Bool.not_true, Bool.false_eq_true, if_false] at hr hacc
      exact ih _ _ hr hacc
    · have hx' : l.contains x = false := by simpa using hx
      simp only [hx', Bool.false_eq_true, if_false]
      simp only [List.filter_cons, hx', Bool.not_false, if_true] at hr hacc
      rw [List.nodup_cons] at hr
      have hnone : acc.find? (fun p => p.2 == x) = none := by
        rw [List.find?_eq_none]
        intro p hp hpx
        exact hacc x List.mem_cons_self (List.mem_map.2 ⟨p, hp, eq_of_beq hpx⟩)
      rw [hnone]
      simp only
      rw [ih _ _ hr.2, List.append_assoc]
      · rfl
      · intro y hy
        rw [List.map_append, List.mem_append]
        rintro (h | h)
        · exact hacc y (List.mem_cons_of_mem _ hy) h
        · simp only [List.map_cons, List.map_nil, List.mem_singleton] at h
          subst h
          exact hr.1 hy

/-- duplicates on the left (and repeated COMMON keys on the right) only: the diff is the
    duplicate-free closed form against the left side de-duplicated to its last occurrences -/
theorem specD_eq_spec_dedup (l r : List α) (hr : (r.filter (fun x => !l.contains x)).Nodup) :
    specD l r = spec (dedupLast l) r := by
  have hc : ∀ x, (dedupLast l).contains x = l.contains x := by
    intro x
    rw [Bool.eq_iff_iff, List.contains_iff_mem, List.contains_iff_mem, mem_dedupLast]
  rw [specD, spec, anchorsD_eq_anchors l r none [] hr (by simp), List.nil_append,
    anchors_congr (dedupLast l) l r none hc]

omit [LawfulBEq α] in
/-- the non-`add` keys of the closed form are the left keys, each once, in the order of their last
    occurrences -/
theorem specD_left_order (l r : List α) :
    ((specD l r).filter (fun p => p.1 != Label.add)).map (·.2) = dedupLast l := by
  have hadd : ∀ a : Option α,
      (((anchorsD l r none []).filter (fun p => p.1 == a)).map (fun p => (Label.add, p.2))).filter
        (fun p => p.1 != Label.add) = [] := by
    intro a
    rw [List.filter_eq_nil_iff]
    intro p hp
    rw [List.mem_map] at hp
    obtain ⟨q, _, rfl⟩ := hp
    simp
  rw [specD]
  simp only
  rw [List.filter_append, hadd, List.nil_append, List.filter_flatMap, List.map_flatMap]
  have : ∀ x ∈ dedupLast l, (((if r.contains x then Label.equal else Label.delete, x) ::
      ((anchorsD l r none []).filter (fun p => p.1 == some x)).map (fun p => (Label.add, p.2))).filter
        (fun p => p.1 != Label.add)).map (·.2) = [x] := by
    intro x _
    rw [List.filter_cons, hadd]
    cases r.contains x <;> rfl
  rw [flatMap_congr' this]
  exact List.flatMap_singleton' _

omit [LawfulBEq α] in
/-- the key sequence of the closed form -/
theorem specD_keys (l r : List α) :
    (specD l r).map (·.2) =
      ((anchorsD l r none []).filter (fun p => p.1 == none)).map (·.2) ++
        (dedupLast l).flatMap
          (fun k => k :: ((anchorsD l r none []).filter (fun p => p.1 == some k)).map (·.2)) := by
  rw [specD]
  simp only [List.map_append, List.map_flatMap, List.map_cons, List.map_map]
  rfl

end C20P

/-
C01 round 4 (complexity guard, part 4): the tie between the cost model `steps` and the engine.

`mT` is `Rx.m` with a step counter: the same function clause by clause, every call returning
(number of calls of `mT`/`loopT` made, result).  Continuations return their own cost.
  `mT_result` : the result of `mT` is the result of `m`                     (same engine)
  `mT_cost`   : cost of `mT s r st k` ≤ `steps s r st` + the cost of `k` on every outcome
so for a `Safe` regex a match attempt by the engine makes at most `cC r * (n+2)^(dC r)` calls
(`matchAtT_poly`).
-/
import CLModel.Proofs.C01Cost
namespace C01P
open Rx

abbrev KT := St → Nat × Option St

def tick (p : Nat × Option St) : Nat × Option St := (p.1 + 1, p.2)

/-- `a.orElse b` with cost: `b` runs only when `a` failed -/
def orElseT (a : Nat × Option St) (b : Unit → Nat × Option St) : Nat × Option St :=
  match a.2 with
  | some r => (a.1, some r)
  | none => (a.1 + (b ()).1, (b ()).2)

def loopT (body : St → KT → Nat × Option St) (greedy : Bool) :
    Nat → Nat → Option Nat → St → KT → Nat × Option St
  | 0, _, _, _, _ => (1, none)
  | fuel + 1, mn, mx, st, k =>
      let more : Unit → Nat × Option St := fun _ =>
        if mx == some 0 then (0, none) else
        body st (fun st' =>
          if st'.pos ≤ st.pos then (1, none) else
          loopT body greedy fuel (mn - 1) (mx.map (· - 1)) st' k)
      tick (if mn > 0 then more ()
            else if greedy then orElseT (more ()) (fun _ => k st)
            else orElseT (k st) more)

/-- the engine `Rx.m` with a step counter -/
def mT (s : Array Nat) : Re → St → KT → Nat × Option St
  | .eps, st, k => tick (k st)
  | .lit c, st, k => if s[st.pos]? == some c then tick (k { st with pos := st.pos + 1 }) else (1, none)
  | .notLit c, st, k =>
      match s[st.pos]? with
      | some d => if d != c then tick (k { st with pos := st.pos + 1 }) else (1, none)
      | none => (1, none)
  | .any dotall, st, k =>
      match s[st.pos]? with
      | some d => if dotall || d != 10 then tick (k { st with pos := st.pos + 1 }) else (1, none)
      | none => (1, none)
  | .cls neg items, st, k =>
      match s[st.pos]? with
      | some c => if (items.any (·.has c)) != neg then tick (k { st with pos := st.pos + 1 }) else (1, none)
      | none => (1, none)
  | .seq a b, st, k => tick (mT s a st (fun st' => mT s b st' k))
  | .alt a b, st, k => tick (orElseT (mT s a st k) (fun _ => mT s b st k))
  | .group i r, st, k =>
      tick (mT s r st (fun st' => k { st' with caps := (i, st.pos, st'.pos) :: st'.caps }))
  | .backref i, st, k =>
      match capOf st.caps i with
      | some (a, b) =>
          let n := b - a
          if (List.range n).all (fun j => s[a + j]? == s[st.pos + j]? && (st.pos + j < s.size)) then
            tick (k { st with pos := st.pos + n }) else (1, none)
      | none => (1, none)
  | .bol ml, st, k =>
      if st.pos == 0 || (ml && s[st.pos - 1]? == some 10) then tick (k st) else (1, none)
  | .eol ml, st, k =>
      if st.pos == s.size || (ml && s[st.pos]? == some 10) ||
         (!ml && st.pos + 1 == s.size && s[st.pos]? == some 10) then tick (k st) else (1, none)
  | .eos, st, k => if st.pos == s.size then tick (k st) else (1, none)
  | .look true neg r, st, k =>
      let p := mT s r st (fun x => (0, some x))
      match p.2 with
      | some st' => if neg then (p.1 + 1, none) else ((k { st with caps := st'.caps }).1 + (p.1 + 1), (k { st with caps := st'.caps }).2)
      | none => if neg then ((k st).1 + (p.1 + 1), (k st).2) else (p.1 + 1, none)
  | .look false neg r, st, k =>
      let p := if st.pos == 0 then (0, none) else
        mT s r { st with pos := st.pos - 1 } (fun st' => if st'.pos == st.pos then (0, some st') else (0, none))
      match p.2 with
      | some _ => if neg then (p.1 + 1, none) else ((k st).1 + (p.1 + 1), (k st).2)
      | none => if neg then ((k st).1 + (p.1 + 1), (k st).2) else (p.1 + 1, none)
  | .rep mn mx greedy r, st, k =>
      loopT (mT s r) greedy (s.size + 2 - st.pos) mn mx st k

/-! ### same results as the engine -/

theorem orElseT_snd (a : Nat × Option St) (b : Unit → Nat × Option St) :
    (orElseT a b).2 = a.2.orElse (fun _ => (b ()).2) := by
  unfold orElseT
  cases a.2 <;> rfl

theorem loopT_result (body : St → KT → Nat × Option St) (body' : St → K → Option St) (g : Bool)
    (hb : ∀ st k, (body st k).2 = body' st (fun x => (k x).2)) :
    ∀ fuel mn mx st k, (loopT body g fuel mn mx st k).2 = loop body' g fuel mn mx st (fun x => (k x).2) := by
  intro fuel
  induction fuel with
  | zero => intro mn mx st k; rfl
  | succ fuel ih =>
    intro mn mx st k
    have hmore : ((if mx == some 0 then ((0 : Nat), (none : Option St)) else
          body st (fun st' => if st'.pos ≤ st.pos then (1, none) else
            loopT body g fuel (mn - 1) (mx.map (· - 1)) st' k))).2 =
        (if mx == some 0 then none else
          body' st (fun st' => if st'.pos ≤ st.pos then none else
            loop body' g fuel (mn - 1) (mx.map (· - 1)) st' (fun x => (k x).2))) := by
      split
      · rfl
      · rw [hb]
        congr 1
        funext st'
        split
        · rfl
        · exact ih _ _ _ _
    simp only [loopT, loop, tick]
    split
    · exact hmore
    · split
      · rw [orElseT_snd, hmore]
      · rw [orElseT_snd, hmore]

theorem mT_result (s : Array Nat) : ∀ (r : Re) (st : St) (k : KT),
    (mT s r st k).2 = m s r st (fun x => (k x).2) := by
  intro r
  induction r with
  | eps => intro st k; rfl
  | lit c => intro st k; simp only [mT, m]; split <;> rfl
  | notLit c =>
    intro st k
    simp only [mT, m]
    cases s[st.pos]? with
    | none => rfl
    | some d => simp only []; split <;> rfl
  | any da =>
    intro st k
    simp only [mT, m]
    cases s[st.pos]? with
    | none => rfl
    | some d => simp only []; split <;> rfl
  | cls neg items =>
    intro st k
    simp only [mT, m]
    cases s[st.pos]? with
    | none => rfl
    | some d => simp only []; split <;> rfl
  | seq a b iha ihb =>
    intro st k
    simp only [mT, m, tick]
    rw [iha]
    congr 1
    funext st'
    exact ihb st' k
  | alt a b iha ihb =>
    intro st k
    simp only [mT, m, tick]
    rw [orElseT_snd, iha, ihb]
  | group i r ih =>
    intro st k
    simp only [mT, m, tick]
    rw [ih]
  | backref i =>
    intro st k
    simp only [mT, m]
    cases capOf st.caps i with
    | none => rfl
    | some ab => simp only []; split <;> rfl
  | bol ml => intro st k; simp only [mT, m]; split <;> rfl
  | eol ml => intro st k; simp only [mT, m]; split <;> rfl
  | eos => intro st k; simp only [mT, m]; split <;> rfl
  | look ahead neg r ih =>
    intro st k
    cases ahead with
    | true =>
      simp only [mT, m]
      rw [ih]
      cases m s r st (fun x => some x) with
      | none => simp only []; split <;> rfl
      | some st' => simp only []; split <;> rfl
    | false =>
      simp only [mT, m]
      have hp : ((if st.pos == 0 then ((0 : Nat), (none : Option St)) else
            mT s r { st with pos := st.pos - 1 }
              (fun st' => if st'.pos == st.pos then (0, some st') else (0, none)))).2 =
          (if st.pos == 0 then none else
            m s r { st with pos := st.pos - 1 } (fun st' => if st'.pos == st.pos then some st' else none)) := by
        split
        · rfl
        · rw [ih]
          congr 1
          funext st'
          split <;> rfl
      rw [hp]
      cases (if st.pos == 0 then none else
            m s r { st with pos := st.pos - 1 } (fun st' => if st'.pos == st.pos then some st' else none)) with
      | none => simp only []; split <;> rfl
      | some st' => simp only []; split <;> rfl
  | rep mn mx g r ih =>
    intro st k
    simp only [mT, m]
    exact loopT_result (mT s r) (m s r) g (fun st k => ih st k) _ _ _ _ _

/-! ### the cost is bounded by the search tree plus the continuation's own cost -/

def ksum (k : KT) (l : List St) : Nat := (l.map (fun x => (k x).1)).sum

theorem ksum_nil (k : KT) : ksum k [] = 0 := rfl
theorem ksum_cons (k : KT) (x : St) (l : List St) : ksum k (x :: l) = (k x).1 + ksum k l := by
  simp [ksum]
theorem ksum_append (k : KT) (a b : List St) : ksum k (a ++ b) = ksum k a + ksum k b := by
  simp [ksum]
theorem ksum_single (k : KT) (x : St) : ksum k [x] = (k x).1 := by simp [ksum]

theorem ksum_flatMap (k : KT) (l : List St) (f : St → List St) :
    ksum k (l.flatMap f) = (l.map (fun x => ksum k (f x))).sum := by
  induction l with
  | nil => rfl
  | cons x xs ih => simp only [List.flatMap_cons, ksum_append, List.map_cons, List.sum_cons, ih]

theorem sum_map_add_le {α} (l : List α) (f g h : α → Nat) (hle : ∀ x ∈ l, f x ≤ g x + h x) :
    (l.map f).sum ≤ (l.map g).sum + (l.map h).sum := by
  induction l with
  | nil => simp
  | cons x xs ih =>
    have h1 := hle x (List.mem_cons_self ..)
    have h2 := ih (fun y hy => hle y (List.mem_cons_of_mem _ hy))
    simp only [List.map_cons, List.sum_cons]
    omega

theorem orElseT_fst (a : Nat × Option St) (b : Unit → Nat × Option St) :
    (orElseT a b).1 ≤ a.1 + (b ()).1 := by
  unfold orElseT
  cases a.2 <;> simp

theorem loopT_cost (body : St → KT → Nat × Option St) (bodyE : St → List St) (bodyS : St → Nat) (g : Bool)
    (hb : ∀ st k, (body st k).1 ≤ bodyS st + ksum k (bodyE st)) :
    ∀ fuel mn mx st k,
      (loopT body g fuel mn mx st k).1 ≤ loopS bodyE bodyS fuel mn mx st + ksum k (loopE bodyE g fuel mn mx st) := by
  intro fuel
  induction fuel with
  | zero => intro mn mx st k; simp [loopT, loopS, loopE, ksum]
  | succ fuel ih =>
    intro mn mx st k
    -- cost of the further iterations
    have hmore : ((if mx == some 0 then ((0 : Nat), (none : Option St)) else
          body st (fun st' => if st'.pos ≤ st.pos then (1, none) else
            loopT body g fuel (mn - 1) (mx.map (· - 1)) st' k))).1 ≤
        (if mx == some 0 then 0 else
          bodyS st + ((bodyE st).map (fun st' =>
            if st'.pos ≤ st.pos then 1 else loopS bodyE bodyS fuel (mn - 1) (mx.map (· - 1)) st')).sum) +
        ksum k (if mx == some 0 then [] else
          (bodyE st).flatMap (fun st' =>
            if st'.pos ≤ st.pos then [] else loopE bodyE g fuel (mn - 1) (mx.map (· - 1)) st')) := by
      split
      · simp [ksum]
      · refine Nat.le_trans (hb _ _) ?_
        rw [ksum_flatMap]
        have := sum_map_add_le (bodyE st)
          (fun x => ((fun st' => if st'.pos ≤ st.pos then ((1 : Nat), (none : Option St)) else
            loopT body g fuel (mn - 1) (mx.map (· - 1)) st' k) x).1)
          (fun st' => if st'.pos ≤ st.pos then 1 else loopS bodyE bodyS fuel (mn - 1) (mx.map (· - 1)) st')
          (fun x => ksum k (if x.pos ≤ st.pos then [] else loopE bodyE g fuel (mn - 1) (mx.map (· - 1)) x))
          (fun x _ => by
            by_cases hx : x.pos ≤ st.pos
            · simp [hx, ksum]
            · simp only [hx, if_false]
              exact ih _ _ _ _)
        unfold ksum at this ⊢
        omega
    simp only [loopT, loopS, loopE, tick]
    split
    · omega
    · split
      · have := orElseT_fst
          (if mx == some 0 then ((0 : Nat), (none : Option St)) else
            body st (fun st' => if st'.pos ≤ st.pos then (1, none) else
              loopT body g fuel (mn - 1) (mx.map (· - 1)) st' k))
          (fun _ => k st)
        rw [ksum_append, ksum_single]
        omega
      · have := orElseT_fst (k st) (fun _ =>
          if mx == some 0 then ((0 : Nat), (none : Option St)) else
            body st (fun st' => if st'.pos ≤ st.pos then (1, none) else
              loopT body g fuel (mn - 1) (mx.map (· - 1)) st' k))
        rw [ksum_cons]
        omega

end C01P

namespace C01P
open Rx

theorem atomT_cost (k : KT) (st' : St) (c : Prop) [Decidable c] :
    (if c then tick (k st') else ((1 : Nat), (none : Option St))).1 ≤ 1 + ksum k (if c then [st'] else []) := by
  split
  · simp [tick, ksum_single]; omega
  · simp [ksum]

/-- cost of the engine ≤ size of the search tree + cost of the continuation on every outcome -/
theorem mT_cost (s : Array Nat) : ∀ (r : Re) (st : St) (k : KT),
    (mT s r st k).1 ≤ steps s r st + ksum k (ends s r st) := by
  intro r
  induction r with
  | eps => intro st k; simp [mT, steps, ends, tick, ksum_single]; omega
  | lit c => intro st k; simp only [mT, steps, ends]; exact atomT_cost k _ _
  | notLit c =>
    intro st k
    simp only [mT, steps, ends]
    cases s[st.pos]? with
    | none => simp [ksum]
    | some d => exact atomT_cost k _ _
  | any da =>
    intro st k
    simp only [mT, steps, ends]
    cases s[st.pos]? with
    | none => simp [ksum]
    | some d => exact atomT_cost k _ _
  | cls neg items =>
    intro st k
    simp only [mT, steps, ends]
    cases s[st.pos]? with
    | none => simp [ksum]
    | some d => exact atomT_cost k _ _
  | seq a b iha ihb =>
    intro st k
    simp only [mT, steps, ends, tick]
    have h1 := iha st (fun st' => mT s b st' k)
    rw [ksum_flatMap]
    have h2 := sum_map_add_le (ends s a st) (fun x => (mT s b x k).1) (fun st' => steps s b st')
      (fun x => ksum k (ends s b x)) (fun x _ => ihb x k)
    simp only [ksum] at h1 h2 ⊢
    omega
  | alt a b iha ihb =>
    intro st k
    simp only [mT, steps, ends, tick]
    have h0 := orElseT_fst (mT s a st k) (fun _ => mT s b st k)
    have h1 := iha st k
    have h2 := ihb st k
    rw [ksum_append]
    omega
  | group i r ih =>
    intro st k
    simp only [mT, steps, ends, tick]
    have h1 := ih st (fun st' => k { st' with caps := (i, st.pos, st'.pos) :: st'.caps })
    have e : ksum k ((ends s r st).map (fun st' => { st' with caps := (i, st.pos, st'.pos) :: st'.caps })) =
        ksum (fun st' => k { st' with caps := (i, st.pos, st'.pos) :: st'.caps }) (ends s r st) := by
      simp [ksum, List.map_map, Function.comp_def]
    rw [e]
    omega
  | backref i =>
    intro st k
    simp only [mT, steps, ends]
    cases capOf st.caps i with
    | none => simp [ksum]
    | some ab => exact atomT_cost k _ _
  | bol ml => intro st k; simp only [mT, steps, ends]; exact atomT_cost k _ _
  | eol ml => intro st k; simp only [mT, steps, ends]; exact atomT_cost k _ _
  | eos => intro st k; simp only [mT, steps, ends]; exact atomT_cost k _ _
  | look ahead neg r ih =>
    intro st k
    cases ahead with
    | true =>
      have hc := ih st (fun x => (0, some x))
      have hz : ksum (fun x => ((0 : Nat), some x)) (ends s r st) = 0 := by
        unfold ksum; induction ends s r st <;> simp_all
      have hr := mT_result s r st (fun x => (0, some x))
      have hh : m s r st (fun x => some x) = (ends s r st).head? := by
        rw [m_eq_ends]; cases ends s r st <;> rfl
      rw [hh] at hr
      simp only [mT, steps, ends]
      rw [hr]
      cases (ends s r st).head? with
      | none =>
        simp only []
        split
        · simp only [ksum_single]; omega
        · simp only [ksum_nil]; omega
      | some st' =>
        simp only []
        split
        · simp only [ksum_nil]; omega
        · simp only [ksum_single]; omega
    | false =>
      simp only [mT, steps, ends]
      -- cost and result of the inner look-behind match
      have hp : ((if st.pos == 0 then ((0 : Nat), (none : Option St)) else
            mT s r { st with pos := st.pos - 1 }
              (fun st' => if st'.pos == st.pos then (0, some st') else (0, none)))).1 ≤
          steps s r { st with pos := st.pos - 1 } := by
        split
        · omega
        · have hc := ih { st with pos := st.pos - 1 }
            (fun st' => if st'.pos == st.pos then (0, some st') else (0, none))
          have hz : ksum (fun st' => if st'.pos == st.pos then ((0 : Nat), some st') else (0, none))
              (ends s r { st with pos := st.pos - 1 }) = 0 := by
            unfold ksum
            induction ends s r { st with pos := st.pos - 1 } with
            | nil => rfl
            | cons x xs ihx =>
              simp only [List.map_cons, List.sum_cons, ihx]
              split <;> rfl
          omega
      have hq : ((if st.pos == 0 then ((0 : Nat), (none : Option St)) else
            mT s r { st with pos := st.pos - 1 }
              (fun st' => if st'.pos == st.pos then (0, some st') else (0, none)))).2.isSome =
          ((if st.pos == 0 then none else
            ((ends s r { st with pos := st.pos - 1 }).filter (fun st' => st'.pos == st.pos)).head?) :
              Option St).isSome := by
        split
        · rfl
        · rw [mT_result, m_eq_ends]
          induction ends s r { st with pos := st.pos - 1 } with
          | nil => rfl
          | cons x xs ihx =>
            simp only [List.findSome?_cons, List.filter_cons]
            by_cases hx : (x.pos == st.pos) = true
            · simp [hx]
            · simp only [hx, Bool.false_eq_true, if_false]
              exact ihx
      generalize (if st.pos == 0 then ((0 : Nat), (none : Option St)) else
            mT s r { st with pos := st.pos - 1 }
              (fun st' => if st'.pos == st.pos then (0, some st') else (0, none))) = p at hp hq ⊢
      generalize ((if st.pos == 0 then none else
            ((ends s r { st with pos := st.pos - 1 }).filter (fun st' => st'.pos == st.pos)).head?) :
              Option St) = ok at hq ⊢
      obtain ⟨p1, p2⟩ := p
      cases p2 with
      | none =>
        cases ok with
        | none => cases neg <;> simp [ksum] at hp ⊢ <;> omega
        | some v => simp at hq
      | some w =>
        cases ok with
        | none => simp at hq
        | some v => cases neg <;> simp [ksum] at hp ⊢ <;> omega
  | rep mn mx g r ih =>
    intro st k
    simp only [mT, steps, ends]
    exact loopT_cost (mT s r) (fun st' => ends s r st') (fun st' => steps s r st') g
      (fun st k => ih st k) _ _ _ _ _

/-- `Pattern.match(s, pos)` by the instrumented engine: same result as `matchAt`, and for a `Safe`
    regex at most `cC r * (n+2)^(dC r)` engine calls, whatever the text -/
def matchAtT (s : Array Nat) (r : Re) (pos : Nat) : Nat × Option St := mT s r ⟨pos, []⟩ (fun x => (0, some x))

theorem matchAtT_result (s : Array Nat) (r : Re) (pos : Nat) : (matchAtT s r pos).2 = matchAt s r pos := by
  unfold matchAtT matchAt
  rw [mT_result]

theorem matchAtT_poly (s : Array Nat) (r : Re) (h : Safe r = true) (pos : Nat) :
    (matchAtT s r pos).1 ≤ cC r * (s.size + 2) ^ dC r := by
  unfold matchAtT
  have h1 := mT_cost s r ⟨pos, []⟩ (fun x => (0, some x))
  have hz : ksum (fun x => ((0 : Nat), some x)) (ends s r ⟨pos, []⟩) = 0 := by
    unfold ksum; induction ends s r ⟨pos, []⟩ <;> simp_all
  have h2 := steps_poly s r h ⟨pos, []⟩
  omega

end C01P

/-
C13 helper lemmas for the l10n.ini route (Paths/IniConfig.lean).
-/
import CLModel.Paths.IniConfig
namespace C13I
open TI TC PF

mutual
/-- every loaded parser of the tree: the top one, then those of its includes, recursively -/
def nodes : Loaded → List Loaded
  | .mk p b d a ch => .mk p b d a ch :: nodesL ch
def nodesL : List Loaded → List Loaded
  | [] => []
  | c :: cs => nodes c ++ nodesL cs
end

theorem nodes_mk (p b d a ch) : nodes (.mk p b d a ch) = Loaded.mk p b d a ch :: nodesL ch := by
  simp [nodes]

theorem directories_mk (p b d a ch) :
    (Loaded.mk p b d a ch).directories = d.map (b, ·) ++ directoriesL ch := by
  simp [Loaded.directories]

mutual
theorem mem_directories : ∀ (cfg : Loaded) (bm : Text × Text),
    bm ∈ cfg.directories ↔ ∃ n ∈ nodes cfg, bm.1 = n.base ∧ bm.2 ∈ n.dirs
  | .mk p b d a ch, bm => by
    have ih := mem_directoriesL ch bm
    rw [directories_mk, nodes_mk, List.mem_append, ih]
    simp only [List.mem_cons, exists_eq_or_imp, Loaded.base, Loaded.dirs, List.mem_map]
    refine or_congr ?_ Iff.rfl
    constructor
    · rintro ⟨m, hm, rfl⟩; exact ⟨rfl, hm⟩
    · rintro ⟨h1, h2⟩; exact ⟨bm.2, h2, by rw [← h1]⟩
theorem mem_directoriesL : ∀ (cs : List Loaded) (bm : Text × Text),
    bm ∈ directoriesL cs ↔ ∃ n ∈ nodesL cs, bm.1 = n.base ∧ bm.2 ∈ n.dirs
  | [], bm => by simp [directoriesL, nodesL]
  | c :: cs, bm => by
    have h1 := mem_directories c bm
    have h2 := mem_directoriesL cs bm
    simp only [directoriesL, nodesL, List.mem_append]
    rw [h1, h2]
    constructor
    · rintro (⟨n, hn, h⟩ | ⟨n, hn, h⟩)
      · exact ⟨n, Or.inl hn, h⟩
      · exact ⟨n, Or.inr hn, h⟩
    · rintro ⟨n, hn | hn, h⟩
      · exact Or.inl ⟨n, hn, h⟩
      · exact Or.inr ⟨n, hn, h⟩
end

theorem loadF_top {w : IniWorld} {fl : Flavour} {f : Nat} {given : Text} {cfg : Loaded}
    (h : loadF w fl (f + 1) given = .ok cfg) :
    cfg.inipath = normpath given ∧
    cfg.base = join (dirname (normpath given)) (match (w.doc (normpath given)).depth with | some d => d | none => dot) ∧
    cfg.dirs = (match (w.doc (normpath given)).dirs with | some s => splitWs s | none => []) := by
  unfold loadF at h
  simp only at h
  split at h
  · cases h
  · simp only [Except.ok.injEq] at h
    subst h
    exact ⟨rfl, rfl, rfl⟩

theorem asConfig_ok {w : IniWorld} {l10nbase : Text} {cfg : Loaded} {r : Result}
    (h : asConfig w l10nbase cfg = .ok r) :
    ∃ ls, r.pc = .mk none none (PM.dupdate [] [(l10nBaseName, abspath w.cwd l10nbase)])
              (cfg.directories.map ruleOfDir) [] (some ls) [] [] ∧
      ∃ ap, cfg.allPath = some ap ∧ w.locales.lookup (normpath ap) = some ls := by
  unfold asConfig asConfigAbs at h
  simp only at h
  split at h
  · cases h
  · split at h
    · cases h
    · rename_i ap hap
      split at h
      · cases h
      · rename_i ls hls
        simp only [Except.ok.injEq] at h
        subst h
        exact ⟨ls, by simp [setRoot], ap, hap, hls⟩

end C13I
